"""C17 — SM9: field tower / mod-N / hash-to-range equal their mathematics (Coq model, differential),
pairing laws and group arithmetic (tests on the implementation, Python reference for G1/G2),
scheme round trips under scripted entropy."""
import os, sys, importlib.util
from vlib import core

_spec = importlib.util.spec_from_file_location("c17ref", os.path.join(os.path.dirname(os.path.abspath(__file__)), "ref.py"))
ref = importlib.util.module_from_spec(_spec); _spec.loader.exec_module(ref)
P, N = ref.P, ref.N
h64 = ref.h64

# e(P1, Ppub-s) of GM/T 0044.5 annex A (ks below); tests/sm9test.c hex_pairing1
KS_STD = 0x000130E78459D78545CB54C587E02CF480CE0B66340F319F348A1D5B1F2DC5F4
KE_STD = 0x0001EDEE3778F441F8DEA3D9FA0ACC4E07EE36C93F9A08618AF4AD85CEDE1C22
KX_STD = 0x0002E65B0762D042F51F0D23542B13ED8CFA2E9A0E7206361E013A283905E31F
PAIRING1 = ("4e378fb5561cd0668f906b731ac58fee25738edf09cadc7a29c0abc0177aea6d"
            "28b3404a61908f5d6198815c99af1990c8af38655930058c28c21bb539ce0000"
            "38bffe40a22d529a0c66124b2c308dac9229912656f62b4facfced408e02380f"
            "a01f2c8bee81769609462c69c96aa923fd863e209d3ce26dd889b55e2e3873db"
            "67e0e0c2eed7a6993dce28fe9aa2ef56834307860839677f96685f2b44d0911f"
            "5a1ae172102efd95df7338dbc577c66d8d6c15e0a0158c7507228efb078f42a6"
            "1604a3fcfa9783e667ce9fcb1062c2a5c6685c316dda62de0548baa6ba30038b"
            "93634f44fa13af76169f3cc8fbea880adaff8475d5fd28a75deb83c44362b439"
            "b3129a75d31d17194675a1bc56947920898fbf390a5bf5d931ce6cbb3340f66d"
            "4c744e69c4a2e1c8ed72f796d151a17ce2325b943260fc460b9f73cb57c9014b"
            "84b87422330d7936eaba1109fa5a7a7181ee16f2438b0aeb2f38fd5f7554e57a"
            "aab9f06a4eeba4323a7833db202e4e35639d93fa3305af73f0f071d7d284fcfb")


def rnd(r, bound):
    return int.from_bytes(r.bytes(40), "big") % bound


LIMBS = [0, 1, 2**63, 2**64 - 1]


def limb_scalars(r=None, full=False):
    """256-bit scalars built from limb values {0, 1, 2^63, 2^64-1}: single-limb-only, zero limb in the
    middle, zero low limb, ... (a zero limb BELOW the top non-zero limb is what word-skipping loops get wrong)"""
    out = []
    if full:
        for a in LIMBS:
            for b in LIMBS:
                for c in LIMBS:
                    for d in LIMBS:
                        out.append(a | (b << 64) | (c << 128) | (d << 192))
        return [k for k in out]
    one = lambda i, v: v << (64 * i)
    for i in range(4):
        for v in (1, 2**63, 2**64 - 1, 5):
            out.append(one(i, v))                                   # single limb only (zero limbs below it)
    out += [one(3, 1) | 1, one(2, 1) | 1, one(3, 5) | one(1, 7), one(3, 2**63) | one(0, 2**64 - 1),        # zero limbs in the middle
            one(3, 1) | one(2, 1), one(3, 2**64 - 1) | one(2, 2**64 - 1), one(2, 3) | one(1, 2**63),      # zero low limb(s)
            one(1, 1) | one(0, 1), one(3, 1) | one(1, 1), one(2, 2**64 - 1) | one(0, 1)]
    return out


def limb_class(k):
    nz = [(k >> (64 * i)) & (2**64 - 1) != 0 for i in range(4)]
    top = max([i for i in range(4) if nz[i]], default=-1)
    if top < 0: return "zero"
    holes = [i for i in range(top) if not nz[i]]
    return "limbs:" + ("nohole" if not holes else ("hole-low" if 0 in holes and len(holes) == top else ("hole-mid" if 0 not in holes else "holes")))


FP_EDGE = [0, 1, 2, P - 1, P - 2, (P - 1) // 2, (P + 1) // 2, 2**255, 2**64 - 1, 2**192]


def coef(r, cls):
    return {"0": 0, "1": 1, "m": P - 1, "r": None}[cls] if cls != "r" else rnd(r, P)


def elem(r, pattern):
    """pattern: string over 0,1,m(=p-1),r(random), most significant coefficient first (as printed)"""
    return "".join(h64(coef(r, c)) for c in pattern)


# --------------------------------------------------------------------------- differential cases
def gen_diff(ctx):
    r = ctx.rng
    thorough = ctx.tier == "thorough"
    cases = []
    add = lambda line, cell: cases.append((line, cell))
    # ---- Fp on raw representatives (p itself = the non-canonical zero is a legal input)
    edge = FP_EDGE + [P]
    cls = lambda x: "p" if x == P else ("0" if x == 0 else ("edge" if x in FP_EDGE else "rand"))
    for op in ("add", "sub", "montmul"):
        for a in edge:
            for b in edge:
                add("fp %s %s %s" % (op, h64(a), h64(b)), "fp:%s:%s,%s" % (op, cls(a), cls(b)))
        for i in range(200 if thorough else 60):
            a, b = rnd(r, P), rnd(r, P)
            if op == "add" and r.chance(1, 3): b = P - a + r.choice([-1, 0, 1])       # sum around p
            if op == "sub" and r.chance(1, 3): b = a + r.choice([-1, 0, 1])           # around the borrow
            b = min(max(b, 0), P)
            add("fp %s %s %s" % (op, h64(a), h64(b)), "fp:%s:rand" % op)
    for op in ("neg", "dbl", "tri", "haf"):
        for a in edge + [rnd(r, P) for _ in range(20)] + [(P - 1) // 2 + d for d in (-1, 1, 2)] + [P // 3, P // 3 + 1, 2 * P // 3, 2 * P // 3 + 1]:
            add("fp %s %s" % (op, h64(a)), "fp:%s:%s" % (op, cls(a)))
    for a in [0, 1, P - 1, P, rnd(r, P), rnd(r, P)]:
        add("fp montinv %s" % h64(a), "fp:montinv:%s" % cls(a))
    # ---- Fp2: every coefficient class combination
    pats2 = [a + b for a in "01mr" for b in "01mr"]
    for op in ("neg", "dbl", "tri", "haf", "sqr", "squ", "inv", "amulu", "conj"):
        for pt in pats2:
            add("fp2 %s %s" % (op, elem(r, pt)), "fp2:%s:%s" % (op, pt))
    for op in ("add", "sub", "mul", "mulu", "div"):
        for i in range(40 if not thorough else 160):
            pa, pb = r.choice(pats2), r.choice(pats2)
            if op == "div" and i >= 16 and not thorough: break
            add("fp2 %s %s %s" % (op, elem(r, pa), elem(r, pb)), "fp2:%s:%s,%s" % (op, pa if "r" not in pa else "r", pb if "r" not in pb else "r"))
    for pt in pats2:
        add("fp2 mulfp %s %s" % (elem(r, pt), h64(coef(r, r.choice("01mr")))), "fp2:mulfp:%s" % pt)
    # malformed operand: coefficient >= p must be rejected by from_bytes
    add("fp2 neg %s%s" % (h64(P), h64(1)), "fp2:range:a1=p")
    add("fp2 neg %s%s" % (h64(1), h64(2**256 - 1)), "fp2:range:a0=max")
    # ---- Fp4
    pats4 = ["0000", "0001", "000m", "0100", "1000", "m000", "00rr", "rr00", "r0r0", "0r0r", "mmmm", "rrrr", "rrrr", "r00m"]
    for op in ("neg", "dbl", "haf", "sqr", "sqrv", "inv", "amulv", "conj", "frob", "frob2", "frob3"):
        for pt in pats4:
            add("fp4 %s %s" % (op, elem(r, pt)), "fp4:%s:%s" % (op, pt))
    for op in ("add", "sub", "mul", "mulv"):
        for i in range(30 if not thorough else 120):
            pa, pb = r.choice(pats4), r.choice(pats4)
            add("fp4 %s %s %s" % (op, elem(r, pa), elem(r, pb)), "fp4:%s:%s" % (op, "sparse" if "0" in pa + pb else "dense"))
    for pt in pats4[:8]:
        add("fp4 mulfp %s %s" % (elem(r, pt), h64(rnd(r, P))), "fp4:mulfp:%s" % pt)
        add("fp4 mulfp2 %s %s" % (elem(r, pt), elem(r, r.choice(pats2))), "fp4:mulfp2:%s" % pt)
    add("fp4 frobpow %s" % elem(r, "rrrr"), "fp4:frob=x^p")
    add("fp4 sqr %s" % (h64(0) * 3 + h64(P)), "fp4:range:a=p")
    # ---- Fp12: coefficient order printed a2.1 a2.0 a1.1 a1.0 a0.1 a0.0 (each Fp2 = a1 a0)
    Z4, R4 = "0000", "rrrr"
    pats12 = [Z4 + Z4 + Z4, Z4 + Z4 + "0001", Z4 + Z4 + "000m", Z4 + "0001" + Z4, "0001" + Z4 + Z4, Z4 + Z4 + "0100",
              Z4 + Z4 + R4, Z4 + R4 + R4, Z4 + R4 + Z4, R4 + Z4 + Z4, R4 + R4 + R4, R4 + R4 + R4, "mmmm" * 3, "r0r0" * 3, "000r" + R4 + "00rr"]
    a2zero = lambda pt: pt[:4] == Z4
    for op in ("neg", "dbl", "tri", "sqr", "inv"):
        for pt in pats12:
            add("fp12 %s %s" % (op, elem(r, pt)), "fp12:%s:%s" % (op, "a2=0" if a2zero(pt) else "a2!=0"))
    # inversion after negation / conjugation: a2 = 0 must stay recognisable (before c2dbe37 it became (p,..,p))
    for pt in pats12:
        key = "fp12:inv:noncanonical-zero" if a2zero(pt) else "fp12:invneg:a2!=0"
        add("fp12 invneg %s" % elem(r, pt), key)
    for pt in [Z4 + R4 + R4, "0r0r" + R4 + R4, R4 + R4 + R4]:
        key = "fp12:inv:noncanonical-zero" if a2zero(pt) else "fp12:invfrob6:a2!=0"
        add("fp12 invfrob6 %s" % elem(r, pt), key)
    for op in ("frob", "frob2", "frob3", "frob6"):
        for pt in [Z4 + Z4 + "0001", Z4 + "0001" + Z4, R4 + R4 + R4, R4 + R4 + R4, "r0r0" * 3, Z4 + R4 + R4]:
            add("fp12 %s %s" % (op, elem(r, pt)), "fp12:%s:%s" % (op, "basis" if "r" not in pt else "rand"))
    if thorough:
        add("fp12 frobpow %s" % elem(r, R4 * 3), "fp12:frob=x^p")
    for op in ("add", "sub", "mul"):
        for i in range(30 if not thorough else 150):
            pa, pb = r.choice(pats12), r.choice(pats12)
            add("fp12 %s %s %s" % (op, elem(r, pa), elem(r, pb)), "fp12:%s:%s" % (op, "sparse" if Z4 in (pa[:4], pa[4:8], pb[:4], pb[4:8]) else "dense"))
    for k in [0, 1, 2, 3, 5, 0x80, 0xffff, rnd(r, 2**24)] + ([rnd(r, 2**64), N - 2] if thorough else [rnd(r, 2**40)]):
        add("fp12 pow %s %x" % (elem(r, R4 * 3), k), "fp12:pow:%s" % ("k<4" if k < 4 else "k=%dbit" % k.bit_length()))
    for k in [2**64] + ([5 * 2**64, 2**128 + 1, 2**192] if thorough else []):
        add("fp12 pow %s %x" % (elem(r, R4 * 3), k), "fp12:pow:" + limb_class(k))
    for i in range(16 if not thorough else 60):
        pl = [r.choice(pats2) for _ in range(3)]
        add("fp12 linemul %s %s %s %s" % (elem(r, r.choice(pats12)), elem(r, pl[0]), elem(r, pl[1]), elem(r, pl[2])),
            "fp12:linemul:%s" % ("sparse" if any(x in ("00",) for x in pl) else "dense"))
    # ---- scalars mod N
    nedge = [0, 1, 2, N - 1, N - 2, 2**255, (N - 1) // 2, (N + 1) // 2]
    for op in ("add", "sub", "mul"):
        for a in nedge:
            for b in nedge:
                add("modn %s %s %s" % (op, h64(a), h64(b)), "modn:%s:edge" % op)
        for i in range(100 if not thorough else 1000):
            add("modn %s %s %s" % (op, h64(rnd(r, N)), h64(rnd(r, N))), "modn:%s:rand" % op)
    # unreduced 256-bit operands: the quotient estimate of the Barrett reduction reaches its top limb
    big = [2**256 - 1, N, N + 1, 2**256 - 2**64] + [N + rnd(r, 2**256 - N) for _ in range(8)]
    for a in big:
        for b in big[:4] + [r.choice(big)]:
            add("modn mul %s %s" % (h64(a), h64(b)), "modn:mul:unreduced")
    for a in [1, 2, N - 1, N - 2] + [rnd(r, N) for _ in range(6)]:
        add("modn inv %s" % h64(a), "modn:inv")
    # ---- hash to range
    h80 = lambda z: "%080x" % z
    n1 = N - 1
    for z in [0, 1, n1 - 1, n1 + 2**193, 2 * n1 - 1, 2**320 - 1, 2**256, 2**256 - 1, (2**320 // n1) * n1 - 1, 7 * n1 + 2**192 + 2**64]:
        add("fromhash " + h80(z), "fromhash:edge")
    # residues below 2^192: the quotient estimate is one short; needs the correction step (3d68e44)
    for z in [n1, n1 + 1, 3 * n1 + 5, 2**63 * n1 + 2**100, (2**320 // n1) * n1, 12345 * n1 + 2**191]:
        add("fromhash " + h80(z), "fromhash:tiny-residue")
    for i in range(300 if not thorough else 5000):
        add("fromhash " + h80(rnd(r, 2**320)), "fromhash:rand")
    for idlen in [0, 1, 5, 54, 55, 56, 63, 64, 65, 127, 200] + ([8191] if thorough else [1000]):
        for hid in (1, 2, 3):
            add("hash1 %s %d" % (core.hexs(r.bytes(idlen)), hid), "hash1:hid%d:%s" % (hid, "len%d" % idlen if idlen < 2 else "len>1"))
    add("hash1 416c696365 1", "hash1:std-alice")
    # ---- known answer of the standard and impl-only laws (driver echoes the expected outcome)
    add("kat %s %s" % (h64(KS_STD), PAIRING1), "kat:pairing:gmt0044-annexA")
    add("law nondeg", "law:nondeg")
    sc = lambda: h64(r.choice([1, 2, 3, N - 1, N - 2, rnd(r, N), rnd(r, N), rnd(r, 2**64)]))
    for i in range(6 if not thorough else 40):
        add("law bilin %s %s" % (sc(), sc()), "law:bilin")
    for i in range(3 if not thorough else 20):
        add("law addlin %s %s %s" % (sc(), sc(), sc()), "law:additive")
    for i in range(3 if not thorough else 20):
        add("law orderN %s %s" % (sc(), sc()), "law:orderN")
    for i in range(4 if not thorough else 20):
        add("law gtpow %s %s" % (h64(rnd(r, N - 1)), h64(rnd(r, N - 1))), "law:gtpow")
    for i in range(4 if not thorough else 20):
        add("law frob %s %s" % (elem(r, R4 * 3), elem(r, r.choice(pats12))), "law:frobenius-hom")
    ls = [k for k in limb_scalars() if 0 < k < N - 1]
    for k in (ls if thorough else ls[:16] + [ls[i] for i in range(16, len(ls), 2)]):
        add("law powsplit %s" % h64(k), "law:powsplit:" + limb_class(k))
    for k in [2**64, 2**128, 2**192, 5 * 2**64, 2**192 + 1, (2**64 - 1) << 64]:
        add("law gtpow %s %s" % (h64(k), h64(r.choice([1, 3, 2**64 + 1]))), "law:gtpow:" + limb_class(k))
        add("law bilin %s %s" % (h64(k), h64(r.choice([1, 1, 2**64]))), "law:bilin:" + limb_class(k))
    for ks in [1, 2, N - 1, KS_STD, rnd(r, N)]:
        add("law keyext %s %s" % (h64(ks), core.hexs(r.bytes(r.range(1, 40)))), "law:keyext")
    return cases


def run_diff(ctx, cases, impl_exe, model_exe):
    import time
    lines = [c[0] for c in cases]
    t0 = time.time()
    impl, impl_err = core.run_lines(impl_exe, lines)
    t1 = time.time()
    model, _ = core.run_lines(model_exe, lines)
    ctx.notes.append("differential: %d cases, impl %.1fs, model %.1fs" % (len(lines), t1 - t0, time.time() - t1))
    for i, (line, cell) in enumerate(cases):
        ctx.cov["evaluations"] += 1
        a, b = impl[i], model[i]
        ws = line.split(" ")
        if ws[0] == "jm": ws = ["jm " + ws[1], ws[2]]
        ctx.count("op:" + (" ".join(ws[:2]) if ws[0] in ("fp", "fp2", "fp4", "fp12", "modn", "law", "pred", "z256", "hexrt", "jm g1", "jm g2") else ws[0]))
        if b.startswith("MODEL-"):
            ctx.violation("model:" + cell, "model-side failure on `%s`: %s" % (line[:200], b[:200]), {"kind": "model", "op": line, "model": b}, False)
            continue
        if a == "SKIP":
            continue
        exp, sep, rest = b.partition(" IMPLMODEL=")
        implmodel = rest if sep else None
        if a == exp:
            ctx.cell(cell + (":ERR" if a.startswith("ERR") else ":ok"))
            if implmodel is not None:
                ctx.notes.append("Impl model differs from Spec on `%s` but the implementation returns the Spec value: model is stale" % line[:80])
            if i % max(1, len(cases) // 6) == 0:
                ctx.sample({"op": line[:200], "result": a[:130]})
            continue
        if implmodel is not None and a == implmodel and line.startswith("fp "):
            # raw Fp representative p for the value 0 (only modp_sub(p,0) / add on the input p itself): congruent, not canonical
            ctx.cell(cell + ":noncanonical")
            continue
        if implmodel is not None and a == implmodel:
            why = "implementation agrees with its Impl model, and both differ from the specification"
        elif a.startswith("FAULT"):
            why = "implementation faulted"
        else:
            why = "implementation differs from the model/specification"
        ctx.violation(cell, "%s: op `%s` impl=%s expected=%s" % (why, line[:150], a[:80] + ("…" if len(a) > 80 else ""), exp[:80] + ("…" if len(exp) > 80 else "")),
                      {"kind": "failing-input", "op": line, "impl": a, "expected": exp, "impl_model": implmodel,
                       "stderr": impl_err[-1500:] if a.startswith("FAULT") else ""}, True)


# --------------------------------------------------------------------------- groups vs the Python reference
def booth_collision_scalars():
    """scalars for which the fixed-window generator multiplication meets an addend equal to the accumulator"""
    out = [N - 74]
    return out


def gen_groups(ctx):
    r = ctx.rng
    thorough = ctx.tier == "thorough"
    cases = []   # (line, cell, expected)
    G1, G2 = ref.G1, ref.G2
    ks = [0, 1, 2, 3, 63, 64, 65, 127, 128, 2**7 - 1, 2**14, N - 1, N - 2, N, N + 1, 2**256 - 1, 2**255, int("40" * 32, 16), int("7f" * 32, 16), int("80" * 32, 16), int("ff" * 16, 16)]
    ks += [rnd(r, N) for _ in range(30 if not thorough else 300)]
    for k in ks:
        e = ref.g1_hex(G1.mulp(k % N, ref.P1))
        cls = "edge" if k in ks[:21] else "rand"
        cases.append(("g1 mulgen " + h64(k), "g1:mulgen:" + cls, e))
        cases.append(("g1 mulP1 " + h64(k), "g1:mul:" + cls, e))
    Pl = G1.mulp(rnd(r, N), ref.P1)
    for k in limb_scalars(full=True):
        e = ref.g1_hex(G1.mulp(k % N, ref.P1))
        cases.append(("g1 mulgen " + h64(k), "g1:mulgen:" + limb_class(k), e))
        cases.append(("g1 mulP1 " + h64(k), "g1:mul:" + limb_class(k), e))
    for k in limb_scalars():
        cases.append(("g1 mul %s %s" % (h64(k), ref.g1_hex(Pl)), "g1:mul:point:" + limb_class(k), ref.g1_hex(G1.mulp(k % N, Pl))))
    # the last additions of the generator multiplication near N: accumulator = +-addend
    for t in range(1, 130 if not thorough else 1100):
        k = N - t
        key = "g1:mulgen:doubling-collision" if k in booth_collision_scalars() else "g1:mulgen:nearN"
        cases.append(("g1 mulgen " + h64(k), key, ref.g1_hex(G1.mulp(k, ref.P1))))
    pts = [G1.mulp(rnd(r, N), ref.P1) for _ in range(6)]
    for Pt in pts[:4]:
        for k in [0, 1, 2, N - 1, N, rnd(r, N), rnd(r, 2**256)]:
            cases.append(("g1 mul %s %s" % (h64(k), ref.g1_hex(Pt)), "g1:mul:point", ref.g1_hex(G1.mulp(k % N, Pt))))
    for i in range(len(pts) - 1):
        A, B = pts[i], pts[i + 1]
        cases.append(("g1 add %s %s" % (ref.g1_hex(A), ref.g1_hex(B)), "g1:add:generic", ref.g1_hex(G1.addp(A, B))))
        cases.append(("g1 sub %s %s" % (ref.g1_hex(A), ref.g1_hex(B)), "g1:sub:generic", ref.g1_hex(G1.addp(A, G1.negp(B)))))
        cases.append(("g1 add %s %s" % (ref.g1_hex(A), ref.g1_hex(A)), "g1:add:P+P", ref.g1_hex(G1.addp(A, A))))
        cases.append(("g1 add %s %s" % (ref.g1_hex(A), ref.g1_hex(G1.negp(A))), "g1:add:P-P", "INF"))
        cases.append(("g1 sub %s %s" % (ref.g1_hex(A), ref.g1_hex(A)), "g1:sub:P-P", "INF"))
        cases.append(("g1 add %s INF" % ref.g1_hex(A), "g1:add:P+inf", ref.g1_hex(A)))
        cases.append(("g1 add INF %s" % ref.g1_hex(A), "g1:add:inf+P", ref.g1_hex(A)))
        cases.append(("g1 dbl %s" % ref.g1_hex(A), "g1:dbl", ref.g1_hex(G1.addp(A, A))))
    cases.append(("g1 add INF INF", "g1:add:inf+inf", "INF"))
    cases.append(("g1 dbl INF", "g1:dbl:inf", "INF"))
    # octets: valid, wrong tag, x >= p, y >= p, off curve, zero
    A = pts[0]
    enc = lambda tag, x, y: "%02x" % tag + h64(x) + h64(y)
    cases.append(("g1 oct " + enc(4, A[0], A[1]), "g1:oct:valid", ref.g1_hex(A)))
    cases.append(("g1 oct " + enc(6, A[0], A[1]), "g1:oct:tag", "ERR"))
    cases.append(("g1 oct " + enc(4, A[0] + P, A[1]) if A[0] + P < 2**256 else "g1 oct " + enc(4, P, A[1]), "g1:oct:x>=p", "ERR"))
    cases.append(("g1 oct " + enc(4, A[0], P), "g1:oct:y>=p", "ERR"))
    cases.append(("g1 oct " + enc(4, A[0], (A[1] + 1) % P), "g1:oct:offcurve", "ERR"))
    cases.append(("g1 oct " + enc(4, 0, 0), "g1:oct:zero", "ERR"))
    # G2
    k2 = [0, 1, 2, 3, N - 1, N - 2, N, 2**256 - 1] + [rnd(r, N) for _ in range(6 if not thorough else 60)]
    for k in k2:
        cases.append(("g2 mulgen " + h64(k), "g2:mulgen:" + ("edge" if k in k2[:8] else "rand"), ref.g2_hex(G2.mulp(k % N, ref.P2))))
    q = [G2.mulp(rnd(r, N), ref.P2) for _ in range(4)]
    for k in (limb_scalars(full=True) if thorough else limb_scalars()):
        cases.append(("g2 mulgen " + h64(k), "g2:mulgen:" + limb_class(k), ref.g2_hex(G2.mulp(k % N, ref.P2))))
    for k in limb_scalars()[::3]:
        cases.append(("g2 mul %s %s" % (h64(k), ref.g2_hex(q[0])), "g2:mul:point:" + limb_class(k), ref.g2_hex(G2.mulp(k % N, q[0]))))
    for i in range(len(q) - 1):
        A, B = q[i], q[i + 1]
        k = rnd(r, N)
        cases.append(("g2 mul %s %s" % (h64(k), ref.g2_hex(A)), "g2:mul:point", ref.g2_hex(G2.mulp(k, A))))
        for op in ("add", "addfull"):
            cases.append(("g2 %s %s %s" % (op, ref.g2_hex(A), ref.g2_hex(B)), "g2:%s:generic" % op, ref.g2_hex(G2.addp(A, B))))
            cases.append(("g2 %s %s %s" % (op, ref.g2_hex(A), ref.g2_hex(A)), "g2:%s:P+P" % op, ref.g2_hex(G2.addp(A, A))))
            cases.append(("g2 %s %s %s" % (op, ref.g2_hex(A), ref.g2_hex(G2.negp(A))), "g2:%s:P-P" % op, "INF"))
            cases.append(("g2 %s %s INF" % (op, ref.g2_hex(A)), "g2:%s:P+inf" % op, ref.g2_hex(A)))
            cases.append(("g2 %s INF %s" % (op, ref.g2_hex(A)), "g2:%s:inf+P" % op, ref.g2_hex(A)))
        cases.append(("g2 sub %s %s" % (ref.g2_hex(A), ref.g2_hex(B)), "g2:sub:generic", ref.g2_hex(G2.addp(A, G2.negp(B)))))
        cases.append(("g2 sub %s %s" % (ref.g2_hex(A), ref.g2_hex(A)), "g2:sub:P-P", "INF"))
        cases.append(("g2 dbl %s" % ref.g2_hex(A), "g2:dbl", ref.g2_hex(G2.addp(A, A))))
    A = q[0]
    cases.append(("g2 oct 04" + ref.g2_hex(A), "g2:oct:valid", ref.g2_hex(A)))
    cases.append(("g2 oct 05" + ref.g2_hex(A), "g2:oct:tag", "ERR"))
    bad = (A[0], ref.f2add(A[1], (1, 0)))
    cases.append(("g2 oct 04" + ref.g2_hex(bad), "g2:oct:offcurve", "ERR"))
    cases.append(("g2 oct 04" + h64(P) + ref.g2_hex(A)[64:], "g2:oct:coef>=p", "ERR"))
    return cases


def run_expected(ctx, cases, impl_exe, what):
    import time
    t0 = time.time()
    out, err = core.run_lines(impl_exe, [c[0] for c in cases])
    ctx.notes.append("groups vs reference: %d cases, impl %.1fs" % (len(cases), time.time() - t0))
    for (line, cell, exp), a in zip(cases, out):
        ctx.cov["evaluations"] += 1
        ctx.count("op:" + " ".join(line.split(" ")[:2]))
        if a == exp:
            ctx.cell(cell + (":ERR" if exp == "ERR" else ":ok"))
        else:
            ctx.violation(cell, "%s: op `%s` impl=%s expected=%s" % (what, line[:150], a[:70], exp[:70]),
                          {"kind": "failing-input", "op": line, "impl": a, "expected": exp,
                           "stderr": err[-1500:] if a.startswith("FAULT") else ""}, True)


# --------------------------------------------------------------------------- scheme round trips
def le32(v):
    return v.to_bytes(32, "little").hex()


def gen_scheme(ctx):
    r = ctx.rng
    thorough = ctx.tier == "thorough"
    cases = []   # (line, cell, checker)
    def bits(n, total):
        return ",".join(str(x) for x in sorted(set([0, total - 1] + [r.below(total) for _ in range(n)])))
    def kv(s):
        return dict(x.split("=", 1) for x in s.split(" ") if "=" in x)
    def chk_sign(draws):
        def f(a):
            if not a.startswith("sig="): return "sign/verify did not complete: " + a[:80]
            d = kv(a)
            if d["ok"] != "1": return "own signature does not verify (ok=%s)" % d["ok"]
            if d["wrongid"] != "0": return "signature verifies under another identity"
            if d["wrongmsg"] != "0": return "signature verifies for another message"
            if not d["flips"].startswith("0/"): return "altered signature accepted (%s)" % d["flips"]
            if draws is not None and d["draws"] != str(draws): return "entropy draws %s, expected %d" % (d["draws"], draws)
            return None
        return f
    def chk_enc(a):
        if not a.startswith("ct="): return "encrypt/decrypt did not complete: " + a[:80]
        d = kv(a)
        if d["dec"] != "1": return "decryption does not return the plaintext"
        if d["wrongid"] != "0": return "ciphertext decrypts under another identity"
        if not d["flips"].startswith("0/"): return "altered ciphertext accepted (%s)" % d["flips"]
        return None
    ent = lambda: le32(rnd(r, N)) + r.bytes(32).hex()      # first draw is a valid r < N
    msgs = [b"", b"\x00", r.bytes(64), r.bytes(1000 if not thorough else 70000)]
    ids = [b"A", b"Alice", r.bytes(32), r.bytes(200 if not thorough else 8191)]
    kss = [1, 2, N - 1, N - 2, KS_STD, rnd(r, N), rnd(r, N)]
    n = 0
    for ks in kss:
        for j in range(2 if not thorough else 6):
            ident, m = ids[(n + j) % len(ids)], msgs[(n + 2 * j) % len(msgs)]
            tg = [8 * 4, 8 * 4 + 7, 8 * 35 + 7, 8 * 20 + 3, 8 * 40 + 2, 8 * 71 + 7, 8 * 72, 8 * 103 + 7]
            fl = ",".join(str(x) for x in sorted(set(tg + [r.below(104 * 8) for _ in range(6)])))
            cases.append(("sign %s %s %s %s %s" % (h64(ks), core.hexs(ident), core.hexs(m), ent(), fl),
                          "sign:roundtrip:ks=%s" % ("edge" if ks in kss[:4] else "rand"), chk_sign(1)))
        n += 1
    # first draw >= N is rejected and redrawn
    cases.append(("sign %s %s %s %s %s" % (h64(KS_STD), "416c696365", "6d7367", "ff" * 32 + le32(N) + ent(), bits(4, 104 * 8)),
                  "sign:entropy:redraw", chk_sign(3)))
    cases.append(("sign %s %s %s %s -" % (h64(KS_STD), "416c696365", "6d7367", le32(N - 2) + ent()), "sign:entropy:r=N-2", chk_sign(1)))
    # a zero draw must not be used as nonce (c0d02d5): it is redrawn
    cases.append(("sign %s %s %s %s -" % (h64(KS_STD), "416c696365", "6d7367", le32(0) + ent()), "sign:entropy:zero-draw", chk_sign(2)))
    cases.append(("enc %s 426f62 %s %s -" % (h64(KE_STD), r.bytes(9).hex(), le32(0) + le32(0) + ent()), "enc:entropy:zero-draw",
                  lambda a: chk_enc(a) or (None if "draws=3" in a else "zero draw was not redrawn: " + a[-12:])))
    # drawn r with zero 64-bit limbs (below the top limb, in the middle, single limb)
    for k in [2**64, 2**128, 2**192, 5 * 2**64, 2**192 + 1, (2**64 - 1) << 128, (2**63 << 192) | (2**64 - 1), 7 << 128 | 3]:
        cases.append(("sign %s %s %s %s -" % (h64(KS_STD), "416c696365", "6d7367", le32(k) + r.bytes(32).hex()),
                      "sign:entropy:r-" + limb_class(k), chk_sign(1)))
        cases.append(("enc %s 426f62 %s %s -" % (h64(KE_STD), r.bytes(17).hex(), le32(k) + r.bytes(32).hex()),
                      "enc:entropy:r-" + limb_class(k), chk_enc))
    # hand-built signatures: h out of range or on the boundary must be rejected, not crash
    s_pt = ref.g1_hex(ref.G1.mulp(rnd(r, N), ref.P1))
    rej = lambda a: None if a in ("0", "-1") else "crafted signature not rejected cleanly: " + a[:60]
    for hval, key in [(0, "verify:h=0"), (N, "verify:h=N"), (2**256 - 1, "verify:h=max"), (N - 2, "verify:h=N-2"), (N - 1, "verify:h=N-1:abort")]:
        cases.append(("verifyraw %s 416c696365 6d7367 %s %s" % (h64(KS_STD), h64(hval), s_pt), key, rej))
    # encryption
    kes = [1, 2, N - 1, KE_STD, rnd(r, N), rnd(r, N)]
    lens = [0, 1, 31, 32, 33, 100, 254, 255]
    for i, ke in enumerate(kes):
        for j in range(2 if not thorough else 5):
            m = r.bytes(lens[(2 * i + j) % len(lens)])
            ident = ids[(i + j) % len(ids)]
            body = 3 + 68 + 34 + (3 if len(m) > 127 else 2) + len(m)
            hdr = 2 if body < 128 else (3 if body < 256 else 4)          # SEQUENCE header length
            tag0 = hdr + 3 + 68 + 2                                     # INTEGER(3) BIT STRING(68) OCTET STRING hdr(2)
            c20 = tag0 + 32 + (3 if len(m) > 127 else 2)
            tgt = [8 * (hdr + 3 + 4 + 5) + 1, 8 * (hdr + 3 + 4 + 40) + 6, 8 * tag0, 8 * (tag0 + 15) + 3, 8 * (tag0 + 16) + 4, 8 * (tag0 + 31) + 7]
            if len(m): tgt += [8 * c20, 8 * (c20 + len(m) - 1) + 7]
            ctbits = (c20 + len(m)) * 8
            fl = ",".join(str(x) for x in sorted(set(tgt + [r.below(ctbits) for _ in range(6)])))
            cases.append(("enc %s %s %s %s %s" % (h64(ke), core.hexs(ident), core.hexs(m), ent(), fl),
                          "enc:roundtrip:len%s" % ("0" if len(m) == 0 else ("255" if len(m) == 255 else "n")), chk_enc))
    cases.append(("enc %s 426f62 %s %s -" % (h64(KE_STD), r.bytes(256).hex(), ent()), "enc:len256-rejected",
                  lambda a: None if a == "ERR encrypt" else "256-byte plaintext not rejected: " + a[:60]))
    return cases


def run_scheme(ctx, cases, impl_exe):
    import time
    t0 = time.time()
    out, err = core.run_lines(impl_exe, [c[0] for c in cases], shards=8)
    ctx.notes.append("scheme round trips: %d cases, impl %.1fs" % (len(cases), time.time() - t0))
    for (line, cell, chk), a in zip(cases, out):
        ctx.cov["evaluations"] += 1
        ctx.count("op:" + line.split(" ")[0])
        why = chk(a)
        if why is None:
            ctx.cell(cell + ":ok")
        else:
            ctx.violation(cell, "%s: op `%s` -> %s" % (why, line[:160], a[:100]),
                          {"kind": "failing-input", "op": line, "impl": a, "expected": "round trip holds / forgery rejected",
                           "stderr": err[-1500:] if a.startswith("FAULT") else ""}, True)


def run_exchange(ctx, impl_exe):
    r = ctx.rng
    ids = [(b"Alice", b"Bob"), (r.bytes(1), r.bytes(40))]
    kes = [KX_STD, 1, N - 1, rnd(r, N)]
    lines = []
    for i, ke in enumerate(kes):
        a, b = ids[i % 2]
        for j in range(2):                      # two runs that differ only in the entropy served
            # first draw of each stream is a valid r (a script that runs dry continues with a fixed tail)
            lines.append("exch %s %s %s %s %s %d" % (h64(ke), core.hexs(a), core.hexs(b), le32(1 + rnd(r, N - 1)) + r.bytes(32).hex(),
                                                      le32(1 + rnd(r, N - 1)) + r.bytes(32).hex(), [16, 48][i % 2]))
    for ka, kb in [(2**64, 2**128 + 5), (2**192, 3 << 64), ((2**64 - 1) << 128, 2**64 | (1 << 192)), (5 * 2**64, 2**128)]:
        for j in range(2):      # pairs again: the second run swaps the two ephemerals (still different entropy)
            x, y = (ka, kb) if j == 0 else (kb, ka)
            lines.append("exch %s %s %s %s %s 32" % (h64(KX_STD), "416c696365", "426f62", le32(x) + r.bytes(32).hex(), le32(y) + r.bytes(32).hex()))
    out, err = core.run_lines(impl_exe, lines, shards=1)
    kv = lambda s: dict(x.split("=", 1) for x in s.split(" ") if "=" in x)
    for i in range(0, len(lines), 2):
        ctx.cov["evaluations"] += 2
        ctx.count("op:exch", 2)
        a, b = out[i], out[i + 1]
        if not (a.startswith("skref=") and b.startswith("skref=")):
            ctx.violation("exch:complete", "key exchange did not complete: `%s` -> %s" % (lines[i][:120], a[:80]),
                          {"kind": "failing-input", "op": lines[i], "impl": a, "stderr": err[-1500:]}, True)
            continue
        da, db = kv(a), kv(b)
        if da["skref"] != "1" or db["skref"] != "1":
            ctx.violation("exch:sk-value", "the derived key is not KDF(IDA||IDB||RA||RB||e(Ppube,P2)^rA||e(RB,deA)||e(RB,deA)^rA) recomputed from the transcript: `%s`" % lines[i][:120],
                          {"kind": "failing-input", "op": lines[i], "op2": lines[i + 1], "impl": a, "impl2": b, "expected": "skref=1"}, True)
        else:
            ctx.cell("exch:sk-value:ok")
        if da["skeq"] != "1" or db["skeq"] != "1":
            ctx.violation("exch:agree", "the two parties derive different keys: `%s`" % lines[i][:120],
                          {"kind": "failing-input", "op": lines[i], "impl": a, "expected": "skeq=1"}, True)
        else:
            ctx.cell("exch:agree:ok")
        if da["RA"] == db["RA"] or da["RB"] == db["RB"] or da["rA"] == db["rA"]:
            ctx.violation("exch:ephemeral-fixed",
                          "two exchanges served different entropy produce the same ephemeral values (rA=%s, RA %s, RB %s): the drawn rA/rB are overwritten by constants in sm9_exch_step_1A/1B"
                          % (da["rA"][:16] + "…", "equal" if da["RA"] == db["RA"] else "differ", "equal" if da["RB"] == db["RB"] else "differ"),
                          {"kind": "failing-input", "op": lines[i], "op2": lines[i + 1], "impl": a, "impl2": b,
                           "expected": "RA, RB depend on the entropy stream"}, True)
        else:
            ctx.cell("exch:fresh:ok")


# --------------------------------------------------------------------------- DER strictness of the wire objects
def der_len(n):
    if n < 128: return bytes([n])
    b = n.to_bytes((n.bit_length() + 7) // 8, "big")
    return bytes([0x80 | len(b)]) + b


def der_parse(b, off=0):
    """one TLV at b[off:]: (tag, header_len, content_len)"""
    tag = b[off]; l0 = b[off + 1]
    if l0 < 128: return tag, 2, l0
    k = l0 & 127
    return tag, 2 + k, int.from_bytes(b[off + 2:off + 2 + k], "big")


def der_children(b):
    tag, h, n = der_parse(b)
    out, off = [], h
    while off < h + n:
        t, hh, nn = der_parse(b, off)
        out.append((off, t, hh, nn)); off += hh + nn
    return out


def der_mutations(r, enc, full_trunc=False):
    """[(class, bytes)] structural mutations of a valid SEQUENCE encoding; every one must be refused as a whole"""
    enc = bytes(enc); out = []
    tag, h, n = der_parse(enc)
    body = enc[h:]
    nonmin = lambda L: [bytes([0x81, L])] if L < 128 else ([bytes([0x82, 0, L])] if L < 256 else [bytes([0x83, 0]) + L.to_bytes(2, "big")])
    # outside trailing bytes
    for k in (1, 2, 3):
        out.append(("append%d" % k, enc + r.bytes(k)))
    out.append(("append-00", enc + b"\x00"))
    # inside trailing byte (outer length adjusted)
    out.append(("inner-trailing", bytes([tag]) + der_len(n + 1) + body + b"\x00"))
    out.append(("inner-trailing", bytes([tag]) + der_len(n + 2) + body + b"\x05\x00"))
    # outer length one short / one long without data
    out.append(("outer-len-1", bytes([tag]) + der_len(n - 1) + body))
    out.append(("outer-len+1", bytes([tag]) + der_len(n + 1) + body))
    # non-minimal / indefinite outer length, wrong outer tag
    for nm in nonmin(n) + [bytes([0x84, 0, 0]) + n.to_bytes(2, "big")]:
        out.append(("nonminimal-len:outer", bytes([tag]) + nm + body))
    out.append(("indefinite-len", bytes([tag, 0x80]) + body + b"\x00\x00"))
    for t in (0x31, 0x10, 0x70, 0x04):
        out.append(("wrong-tag:outer", bytes([t]) + enc[1:]))
    # per child
    for (off, t, hh, nn) in der_children(enc):
        child = enc[off:off + hh + nn]; content = child[hh:]
        def rebuilt(newchild):
            nb = enc[h:off] + newchild + enc[off + hh + nn:]
            return bytes([tag]) + der_len(len(nb)) + nb
        for nm in nonmin(nn):
            out.append(("nonminimal-len:child", rebuilt(bytes([t]) + nm + content)))
        for wt in {0x02: (0x04, 0x03), 0x03: (0x04, 0x23), 0x04: (0x03, 0x24, 0x0c)}.get(t, (t ^ 1,)):
            out.append(("wrong-tag:child", rebuilt(bytes([wt]) + child[1:])))
        if t == 0x02:
            out.append(("int-leading-00", rebuilt(bytes([t]) + der_len(nn + 1) + b"\x00" + content)))
            out.append(("int-leading-0000", rebuilt(bytes([t]) + der_len(nn + 2) + b"\x00\x00" + content)))
            if content[0] & 0x80 == 0 and nn > 1:
                pass
        if t == 0x03:
            for u in (1, 7, 8):
                out.append(("bitstring-unused", rebuilt(bytes([t]) + child[1:hh] + bytes([u]) + content[1:])))
            out.append(("bitstring-short", rebuilt(bytes([t]) + der_len(nn - 1) + content[:-1])))
        out.append(("child-dropped", rebuilt(b"")))
        out.append(("child-duplicated", rebuilt(child + child)))
    cuts = range(0, len(enc)) if full_trunc else sorted(set([0, 1, 2, 3, len(enc) // 2, len(enc) - 2, len(enc) - 1]))
    for c in cuts:
        out.append(("truncated", enc[:c]))
    return out


def run_der(ctx, impl_exe, model_exe):
    import time
    r = ctx.rng
    thorough = ctx.tier == "thorough"
    t0 = time.time()
    hx = lambda b: b.hex() if b else "-"
    viol = lambda key, text, op, a, exp: ctx.violation(key, text + ": op `%s` -> %s" % (op[:160], a[:90]),
                                                      {"kind": "failing-input", "op": op, "impl": a, "expected": exp}, True)
    ent = lambda: le32(rnd(r, N)) + r.bytes(32).hex()
    # ---- phase 1: genuine objects
    ksig, idsig, msg = KS_STD, b"Alice", b"message digest"
    kenc, idenc = KE_STD, b"Bob"
    pts = [r.bytes(20), r.bytes(200)]
    kinds = ["smsk", "smpk", "skey", "emsk", "empk", "ekey"]
    kvals = [KS_STD, N - 1, (rnd(r, N) | (1 << 255)) % N or 5, rnd(r, 2**200)]
    p1 = ["sign %s %s %s %s -" % (h64(ksig), hx(idsig), hx(msg), ent()) for _ in range(2)]
    p1 += ["enc %s %s %s %s -" % (h64(kenc), hx(idenc), hx(pt), ent()) for pt in pts]
    keyobjs = [(kind, k) for kind in kinds for k in kvals]
    p1 += ["keyenc %s %s %s" % (kind, h64(k), hx(b"Carol")) for (kind, k) in keyobjs]
    infos = [("smsk", kvals[2]), ("skey", kvals[2]), ("emsk", kvals[1]), ("ekey", kvals[2]), ("smsk", KS_STD), ("emsk", kvals[3])]
    p1 += ["keyinfo %s %s %s P@ssw0rd %s" % (kind, h64(k), hx(b"Carol"), r.bytes(64).hex()) for (kind, k) in infos]
    o1, _ = core.run_lines(impl_exe, p1, shards=8)
    ctx.cov["evaluations"] += len(p1)
    sigs = [bytes.fromhex(x.split(" ")[0][4:]) for x in o1[0:2] if x.startswith("sig=")]
    cts = [bytes.fromhex(x.split(" ")[0][3:]) for x in o1[2:4] if x.startswith("ct=")]
    if len(sigs) != 2 or len(cts) != 2:
        viol("der:setup", "could not produce genuine objects", p1[0], str(o1[:4])[:200], "sig=/ct="); return
    keyder_enc = o1[4:4 + len(keyobjs)]
    info_enc = o1[4 + len(keyobjs):]
    # ---- phase 2a: differential of the decoders alone (model = Sm9Der.v), all mutations + sweeps
    diff = []
    def addm(op, base, full):
        diff.append(("%s %s" % (op, hx(base)), "der:%s:genuine" % op[3:]))
        for cls, mb in der_mutations(r, base, full_trunc=full):
            diff.append(("%s %s" % (op, hx(mb)), "der:%s:%s" % (op[3:], cls)))
    addm("dersig", sigs[0], True); addm("dersig", sigs[1], False)
    addm("derct", cts[0], True); addm("derct", cts[1], False)
    for base, op in ((sigs[0], "dersig"), (cts[0], "derct")):
        nb = len(base) * 8
        pos = range(nb) if (thorough or op == "dersig") else sorted(set(list(range(0, 8 * 80)) + [r.below(nb) for _ in range(300)]))
        for bit in pos:
            mb = bytearray(base); mb[bit // 8] ^= 1 << (bit % 8)
            diff.append(("%s %s" % (op, hx(bytes(mb))), "der:%s:bitflip" % op[3:]))
        for v in range(256):
            diff.append(("%s %s" % (op, hx(base + bytes([v]))), "der:%s:extend1" % op[3:]))
    run_diff(ctx, diff, impl_exe, model_exe)
    # ---- phase 2b: API level (sm9_verify_finish / sm9_decrypt): genuine accepted, every mutation refused
    api = []
    sa = lambda b: "sigapi %s %s %s %s" % (h64(ksig), hx(idsig), hx(msg), hx(b))
    ca = lambda b: "ctapi %s %s %s" % (h64(kenc), hx(idenc), hx(b))
    api.append((sa(sigs[0]), "derapi:sig:genuine", "1")); api.append((sa(sigs[1]), "derapi:sig:genuine", "1"))
    api.append((ca(cts[0]), "derapi:ct:genuine", "1 " + hx(pts[0]))); api.append((ca(cts[1]), "derapi:ct:genuine", "1 " + hx(pts[1])))
    for base, mk, nm, full in ((sigs[0], sa, "sig", True), (sigs[1], sa, "sig", False), (cts[0], ca, "ct", True), (cts[1], ca, "ct", False)):
        for cls, mb in der_mutations(r, base, full_trunc=full):
            api.append((mk(mb), "derapi:%s:%s" % (nm, cls), None))
    # complete single-bit neighbourhood + all one-byte extensions of one signature and one ciphertext
    for base, mk, nm in ((sigs[0], sa, "sig"), (cts[0], ca, "ct")):
        for bit in range(len(base) * 8):
            mb = bytearray(base); mb[bit // 8] ^= 1 << (bit % 8)
            api.append((mk(bytes(mb)), "derapi:%s:bitflip-all" % nm, None))
        for v in range(256):
            api.append((mk(base + bytes([v])), "derapi:%s:extend1-all" % nm, None))
    out, err = core.run_lines(impl_exe, [a[0] for a in api])
    for (line, cell, exp), a in zip(api, out):
        ctx.cov["evaluations"] += 1; ctx.count("op:" + line.split(" ")[0])
        if exp is not None:
            if a == exp: ctx.cell(cell + ":ok")
            else: viol(cell, "genuine object not accepted", line, a, exp)
        else:
            if a in ("-1", "0"): ctx.cell(cell + ":refused")
            else: viol(cell, "altered / malleable encoding accepted by the API", line, a, "-1 (refused)")
    # ---- phase 2c: key objects: round trip, canonical re-encoding, structural mutations refused
    kd = []
    for (kind, k), e in zip(keyobjs, keyder_enc):
        cls = "lead0" if k < 2**248 else "full"
        if not all(c in "0123456789abcdef" for c in e) or len(e) < 20:
            viol("key:%s:encode" % kind, "key object not encodable", "keyenc %s %s" % (kind, h64(k)), e, "DER"); continue
        b = bytes.fromhex(e)
        kd.append(("keyder %s %s" % (kind, e), "key:%s:roundtrip:%s" % (kind, cls), "rt", b))
        if k != kvals[2]: continue
        for mcls, mb in der_mutations(r, b):
            kd.append(("keyder %s %s" % (kind, hx(mb)), "key:%s:%s" % (kind, mcls), "mut", b))
    idec = []
    for (kind, k), e in zip(infos, info_enc):
        if not all(c in "0123456789abcdef" for c in e) or len(e) < 20:
            viol("keyinfo:%s:encode" % kind, "encrypted key not encodable", "keyinfo %s %s" % (kind, h64(k)), e, "DER"); continue
        b = bytes.fromhex(e)
        cls = "lead0" if k < 2**248 else "full"
        idec.append(("keyinfodec %s P@ssw0rd %s" % (kind, e), "keyinfo:%s:roundtrip:%s" % (kind, cls), "rt", b))
        idec.append(("keyinfodec %s wrong-pass %s" % (kind, e), "keyinfo:%s:wrong-password" % kind, "mut", b))
        if (kind, k) != infos[0] and not thorough: continue
        muts = der_mutations(r, b)
        keep = [m for m in muts if not m[0].startswith(("child-", "wrong-tag:child", "nonminimal-len:child", "bitstring", "int-"))]
        for mcls, mb in keep:
            idec.append(("keyinfodec %s P@ssw0rd %s" % (kind, hx(mb)), "keyinfo:%s:%s" % (kind, mcls), "mut", b))
    allk = kd + idec
    out, err = core.run_lines(impl_exe, [a[0] for a in allk], shards=16)
    for (line, cell, mode, base), a in zip(allk, out):
        ctx.cov["evaluations"] += 1; ctx.count("op:" + line.split(" ")[0])
        f = a.split(" ")
        if mode == "rt":
            if f[0] == "1" and int(f[1]) == len(base) and (line.startswith("keyinfodec") or f[2] == base.hex()):
                ctx.cell(cell + ":ok")
            else:
                viol(cell, "the library does not read back its own encoding", line, a, "1 %d <same DER>" % len(base))
        else:
            sent = bytes.fromhex(line.split(" ")[-1]) if line.split(" ")[-1] != "-" else b""
            whole = f[0] == "1" and int(f[1]) == len(sent) and len(sent) != len(base)
            same = f[0] == "1" and int(f[1]) == len(sent) and len(sent) == len(base) and sent != base
            wrongpass = "wrong-pass" in line and f[0] == "1"
            if whole or same or wrongpass or a.startswith("FAULT"):
                viol(cell, "malformed key encoding accepted as a whole object", line, a, "refused, or only the canonical prefix consumed")
            else:
                ctx.cell(cell + (":prefix-only" if f[0] == "1" else ":refused"))
    ctx.notes.append("DER strictness: %d differential, %d API, %d key cases, %.1fs" % (len(diff), len(api), len(allk), time.time() - t0))


# --------------------------------------------------------------------------- predicates, point import, key containers
def der_tlv(tag, content):
    return bytes([tag]) + der_len(len(content)) + content
def der_int(v):
    b = v.to_bytes(max(1, (v.bit_length() + 7) // 8), "big")
    return der_tlv(2, (b"\x00" if b[0] & 0x80 else b"") + b)
def der_bits(octets):
    return der_tlv(3, b"\x00" + octets)
def g1_oct(x, y): return b"\x04" + x.to_bytes(32, "big") + y.to_bytes(32, "big")
def g2_oct(X, Y): return b"\x04" + b"".join(v.to_bytes(32, "big") for v in (X[1], X[0], Y[1], Y[0]))
def key_der(kind, k=None, g1=None, g2=None):
    body = {"smsk": lambda: der_int(k) + der_bits(g2), "smpk": lambda: der_bits(g2), "skey": lambda: der_bits(g1) + der_bits(g2),
            "emsk": lambda: der_int(k) + der_bits(g1), "empk": lambda: der_bits(g1), "ekey": lambda: der_bits(g2) + der_bits(g1)}[kind]()
    return der_tlv(0x30, body)


def small_coord_point(r, curve, gen, pick):
    """a point whose coordinate selected by pick() is < 2^256 - p (so that coordinate + p still fits 32 bytes)"""
    for _ in range(60):
        Pt = curve.mulp(rnd(r, N), gen)
        if pick(Pt) < 2**256 - P: return Pt
    return None


def g1_alterations(r):
    G1 = ref.G1
    A = G1.mulp(rnd(r, N), ref.P1)
    x, y = A
    out = [("genuine", (x, y)), ("neg-y", (x, P - y)), ("neg-x", (P - x, y)), ("swap", (y, x)), ("y+1", (x, (y + 1) % P)),
           ("x+1", ((x + 1) % P, y)), ("x=0", (0, y)), ("y=0", (x, 0)), ("zero", (0, 0))]
    Ax = small_coord_point(r, G1, ref.P1, lambda Q: Q[0]); Ay = small_coord_point(r, G1, ref.P1, lambda Q: Q[1])
    if Ax: out += [("genuine", Ax), ("x+p", (Ax[0] + P, Ax[1]))]
    if Ay: out += [("genuine", Ay), ("y+p", (Ay[0], Ay[1] + P))]
    out += [("x=p", (P, y)), ("y=p", (x, P)), ("x=max", (2**256 - 1, y))]
    return A, out


def g2_alterations(r):
    G2 = ref.G2
    B = G2.mulp(rnd(r, N), ref.P2)
    (x0, x1), (y0, y1) = B
    n = lambda v: (P - v) % P
    out = [("genuine", B), ("neg-y", ((x0, x1), (n(y0), n(y1)))), ("conj-y", ((x0, x1), (y0, n(y1)))), ("neg-y0", ((x0, x1), (n(y0), y1))),
           ("conj-x", ((x0, n(x1)), (y0, y1))), ("neg-x0", ((n(x0), x1), (y0, y1))), ("neg-x", ((n(x0), n(x1)), (y0, y1))),
           ("conj-both", ((x0, n(x1)), (y0, n(y1)))),
           ("swap-x", ((x1, x0), (y0, y1))), ("swap-y", ((x0, x1), (y1, y0))), ("swap-xy", ((y0, y1), (x0, x1))),
           ("y1+1", ((x0, x1), (y0, (y1 + 1) % P))), ("y0+1", ((x0, x1), ((y0 + 1) % P, y1))),
           ("x1+1", ((x0, (x1 + 1) % P), (y0, y1))), ("x0+1", (((x0 + 1) % P, x1), (y0, y1))),
           ("y1=0", ((x0, x1), (y0, 0))), ("x1=0", ((x0, 0), (y0, y1))), ("zero", ((0, 0), (0, 0)))]
    for name, pick, bump in (("x0+p", lambda Q: Q[0][0], lambda Q: ((Q[0][0] + P, Q[0][1]), Q[1])), ("x1+p", lambda Q: Q[0][1], lambda Q: ((Q[0][0], Q[0][1] + P), Q[1])),
                             ("y0+p", lambda Q: Q[1][0], lambda Q: (Q[0], (Q[1][0] + P, Q[1][1]))), ("y1+p", lambda Q: Q[1][1], lambda Q: (Q[0], (Q[1][0], Q[1][1] + P)))):
        Q = small_coord_point(r, G2, ref.P2, pick)
        if Q: out += [("genuine", Q), (name, bump(Q))]
    out += [("y1=p", ((x0, x1), (y0, P))), ("x0=max", ((2**256 - 1, x1), (y0, y1)))]
    return B, out


def g1_valid(pt): return pt[0] < P and pt[1] < P and ref.G1.on_curve(pt)
def g2_valid(pt): return all(c < P for c in (pt[0][0], pt[0][1], pt[1][0], pt[1][1])) and ref.G2.on_curve(pt)


def run_import(ctx, impl_exe, model_exe):
    import time, re
    r = ctx.rng
    t0 = time.time()
    hx = lambda b: b.hex() if b else "-"
    viol = lambda key, text, op, a, exp: ctx.violation(key, text + ": op `%s` -> %s" % (op[:170], a[:90]),
                                                      {"kind": "failing-input", "op": op, "impl": a, "expected": exp}, True)
    # ---- A. predicates against the model: operands differing in exactly one coefficient, at every position
    diff = []
    for lvl, n in (("fp2", 2), ("fp4", 4), ("fp12", 12)):
        base = [rnd(r, P - 2) + 1 for _ in range(n)]
        enc = lambda cs: "".join(h64(c) for c in cs)
        diff.append(("pred %s equ %s %s" % (lvl, enc(base), enc(base)), "pred:%s:equ:same" % lvl))
        for i in range(n):
            for nm, v in (("+1", (base[i] + 1) % P), ("neg", P - base[i]), ("zero", 0)):
                b = list(base); b[i] = v
                diff.append(("pred %s equ %s %s" % (lvl, enc(base), enc(b)), "pred:%s:equ:differ@%d" % (lvl, i)))
                diff.append(("pred %s equ %s %s" % (lvl, enc(b), enc(base)), "pred:%s:equ:differ@%d" % (lvl, i)))
            if lvl != "fp12":
                z = [0] * n; z[i] = 1 + rnd(r, P - 1)
                diff.append(("pred %s iszero %s" % (lvl, enc(z)), "pred:%s:iszero:one-coef@%d" % (lvl, i)))
        if lvl != "fp12":
            diff.append(("pred %s iszero %s" % (lvl, enc([0] * n)), "pred:%s:iszero:zero" % lvl))
    for cs, nm in (([0, 1], "one"), ([1, 0], "u"), ([1, 1], "1+u"), ([0, 2], "two"), ([0, 0], "zero"), ([P - 1, 1], "1-u")):
        diff.append(("pred fp2 isone %s%s" % (h64(cs[0]), h64(cs[1])), "pred:fp2:isone:" + nm))
    # ---- B. point import with coordinates altered per coefficient, through every interface
    A, g1alts = g1_alterations(r)
    B, g2alts = g2_alterations(r)
    hh = rnd(r, N).to_bytes(32, "big")
    for nm, pt in g1alts:
        if nm.endswith("+p") or "=p" in nm or "=max" in nm or pt[0] < 2**256 and pt[1] < 2**256:
            o = g1_oct(*pt)
            diff.append(("dersig " + hx(der_tlv(0x30, der_tlv(4, hh) + der_bits(o))), "import:g1:sig.S:" + nm))
            diff.append(("derct " + hx(der_tlv(0x30, bytes([2, 1, 0]) + der_bits(o) + der_tlv(4, r.bytes(32)) + der_tlv(4, r.bytes(10)))), "import:g1:ct.C1:" + nm))
    run_diff(ctx, diff, impl_exe, model_exe)
    cases = []   # (line, cell, expect_accept, expected_der or None)
    k0 = rnd(r, N) | (1 << 250)
    for nm, pt in g1alts:
        ok = g1_valid(pt); o = g1_oct(*pt)
        cases.append(("g1 oct " + hx(o), "import:g1:octets:" + nm, ok, ref.g1_hex(pt) if ok else None))
        for kind, mk in (("emsk", lambda: key_der("emsk", k=k0, g1=o)), ("empk", lambda: key_der("empk", g1=o)),
                         ("skey", lambda: key_der("skey", g1=o, g2=g2_oct(*B))), ("ekey", lambda: key_der("ekey", g2=g2_oct(*B), g1=o))):
            dd = mk()
            cases.append(("keyder %s %s" % (kind, hx(dd)), "import:g1:%s.der:%s" % (kind, nm), ok, "%d %s" % (len(dd), dd.hex())))
        dd = key_der("empk", g1=o)
        cases.append(("keypem empk - %s" % hx(dd), "import:g1:empk.pem:" + nm, ok, dd.hex()))
        if pt[0] < P and pt[1] < P:
            g1h = h64(pt[0]) + h64(pt[1])
            for kind, args, mk in (("emsk", "%s %s -" % (h64(k0), g1h), lambda: key_der("emsk", k=k0, g1=o)),
                                   ("skey", "- %s %s" % (g1h, ref.g2_hex(B)), lambda: key_der("skey", g1=o, g2=g2_oct(*B))),
                                   ("ekey", "- %s %s" % (g1h, ref.g2_hex(B)), lambda: key_der("ekey", g2=g2_oct(*B), g1=o))):
                for iface in ("info", "pem"):
                    if iface == "pem" and kind != "skey" and ctx.tier != "thorough": continue
                    cases.append(("keyimp %s %s %s" % (kind, iface, args), "import:g1:%s.%s:%s" % (kind, iface, nm), ok, mk().hex()))
    for nm, pt in g2alts:
        ok = g2_valid(pt); o = g2_oct(*pt)
        cases.append(("g2 oct " + hx(o), "import:g2:octets:" + nm, ok, ref.g2_hex(pt) if ok else None))
        for kind, mk in (("smsk", lambda: key_der("smsk", k=k0, g2=o)), ("smpk", lambda: key_der("smpk", g2=o)),
                         ("skey", lambda: key_der("skey", g1=g1_oct(*A), g2=o)), ("ekey", lambda: key_der("ekey", g2=o, g1=g1_oct(*A)))):
            dd = mk()
            cases.append(("keyder %s %s" % (kind, hx(dd)), "import:g2:%s.der:%s" % (kind, nm), ok, "%d %s" % (len(dd), dd.hex())))
        dd = key_der("smpk", g2=o)
        cases.append(("keypem smpk - %s" % hx(dd), "import:g2:smpk.pem:" + nm, ok, dd.hex()))
        if all(c < P for c in (pt[0][0], pt[0][1], pt[1][0], pt[1][1])):
            g2h = ref.g2_hex(pt)
            for kind, args, mk in (("smsk", "%s - %s" % (h64(k0), g2h), lambda: key_der("smsk", k=k0, g2=o)),
                                   ("skey", "- %s %s" % (ref.g1_hex(A), g2h), lambda: key_der("skey", g1=g1_oct(*A), g2=o)),
                                   ("ekey", "- %s %s" % (ref.g1_hex(A), g2h), lambda: key_der("ekey", g2=o, g1=g1_oct(*A)))):
                for iface in ("info", "pem"):
                    if iface == "pem" and kind != "ekey" and ctx.tier != "thorough": continue
                    cases.append(("keyimp %s %s %s" % (kind, iface, args), "import:g2:%s.%s:%s" % (kind, iface, nm), ok, mk().hex()))
    out, err = core.run_lines(impl_exe, [c[0] for c in cases], shards=16)
    for (line, cell, ok, exp), a in zip(cases, out):
        ctx.cov["evaluations"] += 1; ctx.count("op:" + line.split(" ")[0])
        acc = (a != "ERR" and not a.startswith("FAULT")) if line.startswith(("g1 oct", "g2 oct")) else a.startswith("1 ")
        if a.startswith("FAULT"):
            viol(cell, "import faulted", line, a, "accepted" if ok else "refused")
        elif acc and not ok:
            viol(cell, "a point that is not on the curve (or has a coordinate >= p) is imported", line, a, "refused")
        elif not acc and ok:
            viol(cell, "a valid point is refused", line, a, "accepted")
        elif acc and exp is not None and not a.endswith(exp):
            viol(cell, "imported object re-encodes to different coordinates", line, a, exp)
        else:
            ctx.cell(cell + (":accepted" if acc else ":refused"))
    # ---- C. cross-type confusion of the four key containers
    kinds4 = ["smsk", "skey", "emsk", "ekey"]; kinds6 = ["smsk", "smpk", "skey", "emsk", "empk", "ekey"]
    p1 = ["keyinfo %s %s %s pw %s" % (kd, h64(k0), hx(b"Dave"), r.bytes(64).hex()) for kd in kinds4]
    p1 += ["keyenc %s %s %s" % (kd, h64(k0), hx(b"Dave")) for kd in kinds6]
    p1 += ["sizes"]
    o1, _ = core.run_lines(impl_exe, p1, shards=4)
    ctx.cov["evaluations"] += len(p1)
    blobs = dict(zip(kinds4, o1[:4])); plain = dict(zip(kinds6, o1[4:10])); sizes = dict(x.split("=") for x in o1[10].split(" ") if "=" in x)
    cross = []
    good = lambda e: len(e) > 20 and all(c in "0123456789abcdef" for c in e)
    for loader in kinds4:
        for kd in kinds4:
            if not good(blobs[kd]): continue
            same = kd == loader
            cross.append(("keyinfodec %s pw %s" % (loader, blobs[kd]), "xtype:info-der:%s<-%s" % (loader, kd), same))
            cross.append(("keypem %s pw %s" % (loader, blobs[kd]), "xtype:info-pem:%s<-%s" % (loader, kd), same))
        for kd in kinds6:
            if good(plain[kd]):
                cross.append(("keyinfodec %s pw %s" % (loader, plain[kd]), "xtype:info-der:%s<-plain-%s" % (loader, kd), False))
    for loader in kinds6:
        for kd in kinds6:
            if good(plain[kd]):
                cross.append(("keyder %s %s" % (loader, plain[kd]), "xtype:der:%s<-%s" % (loader, kd), kd == loader))
        cross.append(("keyder %s %s" % (loader, blobs["skey"]), "xtype:der:%s<-encrypted" % loader, False))
    out, err = core.run_lines(impl_exe, [c[0] for c in cross], shards=16)
    for (line, cell, same), a in zip(cross, out):
        ctx.cov["evaluations"] += 1; ctx.count("op:" + line.split(" ")[0])
        acc = a.startswith("1 ")
        if a.startswith("FAULT"):
            viol(cell, "loader faulted on a container of another kind", line, a, "refused (-1)")
            ctx.violations[-1][2]["stderr"] = err[-1500:]
        elif acc != same:
            viol(cell, "container of another kind accepted" if acc else "own container refused", line, a, "1" if same else "-1")
        else:
            ctx.cell(cell + (":accepted" if acc else ":refused"))
    # source-derived table: capacities of the callers' buffers handed to the shared copy helper
    try:
        src = open(os.path.join(core.REPO, "src", "sm9_key.c")).read()
        caps = []
        for fn in ("sm9_sign_master_key", "sm9_sign_key", "sm9_enc_master_key", "sm9_enc_key"):
            m = re.search(r"int %s_info_decrypt_from_der\(.*?\)\s*\{(.*?)\n\}" % fn, src, re.S)
            d = re.search(r"uint8_t\s+prikey\[([^\]]+)\]", m.group(1))
            e = d.group(1).strip()
            caps.append(int(e) if e.isdigit() else int(sizes[e]))
        bound = int(sizes["SM9_MAX_PRIVATE_KEY_SIZE"])
        coq = open(os.path.join(core.COQ, "Sm9", "Sm9Der.v")).read()
        table = [int(x) for x in re.search(r"Definition info_caller_caps : list N := \[([^\]]*)\]", coq).group(1).split(";")]
        cbound = int(re.search(r"Definition SM9_MAX_PRIVATE_KEY_SIZE : N := (\d+)", coq).group(1))
        hb = re.search(r"\*prikey_len > (\w+)", src)
        if caps != table or bound != cbound or not hb or hb.group(1) != "SM9_MAX_PRIVATE_KEY_SIZE":
            ctx.violation("table:sm9-key-buffers", "the buffers handed to sm9_private_key_info_decrypt_from_der changed: source has capacities %s with copy bound %d (%s), the proved table is %s with bound %d%s"
                          % (caps, bound, hb.group(1) if hb else "?", table, cbound, "; a capacity is below the bound: stack overflow" if min(caps) < bound else ""),
                          {"kind": "relation", "relation": "info_caller_caps (coq/Sm9/Sm9Der.v) = declarations in src/sm9_key.c", "source": caps, "table": table}, False)
        else:
            ctx.cell("table:sm9-key-buffers:ok")
    except Exception as e:
        ctx.violation("table:sm9-key-buffers", "cannot derive the buffer table from src/sm9_key.c: %r" % (e,), {"kind": "relation", "error": repr(e)}, False)
    # ---- D. group operations on other Jacobian representatives of the same points (reference: affine arithmetic)
    jc = []
    G1, G2 = ref.G1, ref.G2
    f2h = lambda a: ref.f2_hex(a)
    for i in range(6):
        Pa, Pb = G1.mulp(rnd(r, N), ref.P1), G1.mulp(rnd(r, N), ref.P1); k = rnd(r, N); j1, j2 = 1 + rnd(r, P - 1), 1 + rnd(r, P - 1)
        jc.append(("jac g1 mul %s %s %s" % (h64(k), ref.g1_hex(Pa), h64(j1)), "jac:g1:mul", ref.g1_hex(G1.mulp(k, Pa))))
        jc.append(("jac g1 add %s %s %s %s" % (ref.g1_hex(Pa), ref.g1_hex(Pb), h64(j1), h64(j2)), "jac:g1:add", ref.g1_hex(G1.addp(Pa, Pb))))
        jc.append(("jac g1 add %s %s %s %s" % (ref.g1_hex(Pa), ref.g1_hex(Pa), h64(j1), h64(j2)), "jac:g1:add:P+P", ref.g1_hex(G1.addp(Pa, Pa))))
        jc.append(("jac g1 sub %s %s %s %s" % (ref.g1_hex(Pa), ref.g1_hex(Pa), h64(j1), h64(j2)), "jac:g1:sub:P-P", "INF"))
        jc.append(("jac g1 dbl %s %s" % (ref.g1_hex(Pa), h64(j1)), "jac:g1:dbl", ref.g1_hex(G1.addp(Pa, Pa))))
    for i in range(4):
        Qa, Qb = G2.mulp(rnd(r, N), ref.P2), G2.mulp(rnd(r, N), ref.P2); k = rnd(r, N)
        j1, j2 = (rnd(r, P), 1 + rnd(r, P - 1)), (1 + rnd(r, P - 1), rnd(r, P))
        jc.append(("jac g2 mul %s %s %s" % (h64(k), ref.g2_hex(Qa), f2h(j1)), "jac:g2:mul", ref.g2_hex(G2.mulp(k, Qa))))
        jc.append(("jac g2 add %s %s %s %s" % (ref.g2_hex(Qa), ref.g2_hex(Qb), f2h(j1), f2h(j2)), "jac:g2:add", ref.g2_hex(G2.addp(Qa, Qb))))
        jc.append(("jac g2 add %s %s %s %s" % (ref.g2_hex(Qa), ref.g2_hex(Qa), f2h(j1), f2h(j2)), "jac:g2:add:P+P", ref.g2_hex(G2.addp(Qa, Qa))))
        jc.append(("jac g2 sub %s %s %s %s" % (ref.g2_hex(Qa), ref.g2_hex(Qa), f2h(j1), f2h(j2)), "jac:g2:sub:P-P", "INF"))
        jc.append(("jac g2 dbl %s %s" % (ref.g2_hex(Qa), f2h(j1)), "jac:g2:dbl", ref.g2_hex(G2.addp(Qa, Qa))))
    Pa = G1.mulp(rnd(r, N), ref.P1); Qa = G2.mulp(rnd(r, N), ref.P2)
    for a, b, e in ((Pa, Pa, "1"), (Pa, G1.negp(Pa), "0"), (Pa, G1.addp(Pa, Pa), "0")):
        jc.append(("pred g1 equ %s %s" % (ref.g1_hex(a), ref.g1_hex(b)), "pred:g1:equ", e))
    for a, b, e in ((Qa, Qa, "1"), (Qa, G2.negp(Qa), "0"), (Qa, G2.addp(Qa, Qa), "0")):
        jc.append(("pred g2 equ %s %s" % (ref.g2_hex(a), ref.g2_hex(b)), "pred:g2:equ", e))
    run_expected(ctx, jc, impl_exe, "group operation on another representative differs from the integer reference")
    ctx.notes.append("predicates/import/containers: %d differential, %d import, %d cross-type, %d representative cases, %.1fs" % (len(diff), len(cases), len(cross), len(jc), time.time() - t0))


# --------------------------------------------------------------------------- wave 5: Jacobian formulas, integer helpers, entropy consumers
def run_wave5(ctx, impl_exe, model_exe):
    import time
    r = ctx.rng
    thorough = ctx.tier == "thorough"
    t0 = time.time()
    G1, G2 = ref.G1, ref.G2
    diff = []
    add = lambda line, cell: diff.append((line, cell))
    # Fp conversions
    for a in FP_EDGE + [rnd(r, P) for _ in range(12)]:
        for op in ("tomont", "frommont", "montsqr"):
            add("fp %s %s" % (op, h64(a)), "fp:%s:%s" % (op, "edge" if a in FP_EDGE else "rand"))
    for pt in ["00", "01", "10", "m1", "rr", "rr", "0r", "r0"]:
        add("fp2 frob " + elem(r, pt), "fp2:frob:" + pt)
    # ---- G1 Jacobian formulas on raw coordinates
    def jac1(Pt, j):
        return (Pt[0] * j * j % P, Pt[1] * pow(j, 3, P) % P, j % P)
    j1h = lambda J: " ".join(h64(c) for c in J)
    pts = [G1.mulp(rnd(r, N), ref.P1) for _ in range(4)]
    INF1 = [(1, 1, 0), (0, 0, 0), (rnd(r, P), rnd(r, P), 0)]
    for i, A in enumerate(pts):
        B = pts[(i + 1) % 4]; ja, jb = 1 + rnd(r, P - 1), 1 + rnd(r, P - 1)
        JA, JB, JA2, JNA = jac1(A, ja), jac1(B, jb), jac1(A, jb), jac1(G1.negp(A), jb)
        for J in (JA, jac1(A, 1), INF1[i % 3]):
            cls = "inf" if J[2] == 0 else ("affine" if J[2] == 1 else "jac")
            add("jm g1 dbl " + j1h(J), "jm:g1:dbl:" + cls); add("jm g1 neg " + j1h(J), "jm:g1:neg:" + cls)
            add("jm g1 oncurve " + j1h(J), "jm:g1:oncurve:" + cls)
        add("jm g1 oncurve " + j1h((JA[0], (JA[1] + 1) % P, JA[2])), "jm:g1:oncurve:off")
        add("jm g1 oncurve " + j1h((A[0], P - A[1], 1)), "jm:g1:oncurve:affine-neg")
        for op in ("add", "sub"):
            add("jm g1 %s %s %s" % (op, j1h(JA), j1h(JB)), "jm:g1:%s:generic" % op)
            add("jm g1 %s %s %s" % (op, j1h(JA), j1h(JA2)), "jm:g1:%s:same-point" % op)
            add("jm g1 %s %s %s" % (op, j1h(JA), j1h(JNA)), "jm:g1:%s:opposite" % op)
            add("jm g1 %s %s %s" % (op, j1h(JA), j1h(INF1[0])), "jm:g1:%s:Q=inf" % op)
            add("jm g1 %s %s %s" % (op, j1h(INF1[1]), j1h(JB)), "jm:g1:%s:P=inf" % op)
            add("jm g1 %s %s %s" % (op, j1h((rnd(r, P), rnd(r, P), rnd(r, P))), j1h((rnd(r, P), rnd(r, P), rnd(r, P)))), "jm:g1:%s:off-curve" % op)
        add("jm g1 equ %s %s" % (j1h(JA), j1h(JA2)), "jm:g1:equ:same"); add("jm g1 equ %s %s" % (j1h(JA), j1h(JNA)), "jm:g1:equ:opposite")
        add("jm g1 equ %s %s" % (j1h(JA), j1h(JB)), "jm:g1:equ:differ")
        add("jm g1 addaff %s %s %s" % (j1h(JA), h64(B[0]), h64(B[1])), "jm:g1:addaff:generic")
        add("jm g1 addaff %s %s %s" % (j1h(JA), h64(A[0]), h64(A[1])), "jm:g1:addaff:same-point")
        add("jm g1 addaff %s %s %s" % (j1h(JA), h64(A[0]), h64(P - A[1])), "jm:g1:addaff:opposite")
        add("jm g1 addaff %s %s %s" % (j1h((rnd(r, P), rnd(r, P), rnd(r, P))), h64(rnd(r, P)), h64(rnd(r, P))), "jm:g1:addaff:off-curve")
    for k in [N - 1, 2**64, rnd(r, N)] + ([(2**63 << 192) | 1, 31, 2**255] if thorough else []):
        add("jm g1 mul %s %s" % (h64(k), j1h(jac1(pts[0], 1 + rnd(r, P - 1)))), "jm:g1:mul:" + limb_class(k))
    add("jm g1 mul %s %s" % (h64(0), j1h(jac1(pts[0], 1))), "jm:g1:mul:zero")
    # ---- G2
    f2 = ref.f2mul
    def jac2(Pt, j):
        j2 = f2(j, j); j3 = f2(j2, j); return (f2(Pt[0], j2), f2(Pt[1], j3), j)
    j2h = lambda J: " ".join(ref.f2_hex(c) for c in J)
    rf2 = lambda: (rnd(r, P), rnd(r, P))
    qs = [G2.mulp(rnd(r, N), ref.P2) for _ in range(3)]
    INF2 = [((1, 0), (1, 0), (0, 0)), ((0, 0), (0, 0), (0, 0))]
    for i, A in enumerate(qs):
        B = qs[(i + 1) % 3]; ja, jb = (1 + rnd(r, P - 1), rnd(r, P)), (rnd(r, P), 1 + rnd(r, P - 1))
        JA, JB, JA2, JNA = jac2(A, ja), jac2(B, jb), jac2(A, jb), jac2(G2.negp(A), jb)
        AF = lambda Q: (Q[0], Q[1], (1, 0))
        for J in (JA, AF(A), INF2[i % 2]):
            cls = "inf" if J[2] == (0, 0) else ("affine" if J[2] == (1, 0) else "jac")
            add("jm g2 dbl " + j2h(J), "jm:g2:dbl:" + cls); add("jm g2 neg " + j2h(J), "jm:g2:neg:" + cls)
            add("jm g2 oncurve " + j2h(J), "jm:g2:oncurve:" + cls)
        add("jm g2 oncurve " + j2h((A[0], (A[1][0], (P - A[1][1]) % P), (1, 0))), "jm:g2:oncurve:conj-y")
        add("jm g2 oncurve " + j2h((JA[0], JA[1], ref.f2add(JA[2], (0, 1)))), "jm:g2:oncurve:off")
        for op in ("addfull", "sub"):
            add("jm g2 %s %s %s" % (op, j2h(JA), j2h(JB)), "jm:g2:%s:generic" % op)
            add("jm g2 %s %s %s" % (op, j2h(JA), j2h(JA2)), "jm:g2:%s:same-point" % op)
            add("jm g2 %s %s %s" % (op, j2h(JA), j2h(JNA)), "jm:g2:%s:opposite" % op)
            add("jm g2 %s %s %s" % (op, j2h(JA), j2h(INF2[0])), "jm:g2:%s:Q=inf" % op)
            add("jm g2 %s %s %s" % (op, j2h(INF2[1]), j2h(JB)), "jm:g2:%s:P=inf" % op)
            add("jm g2 %s %s %s" % (op, j2h((rf2(), rf2(), rf2())), j2h((rf2(), rf2(), rf2()))), "jm:g2:%s:off-curve" % op)
        add("jm g2 add %s %s" % (j2h(JA), j2h(AF(B))), "jm:g2:add:generic")
        add("jm g2 add %s %s" % (j2h(JA), j2h(AF(A))), "jm:g2:add:same-point")
        add("jm g2 add %s %s" % (j2h(JA), j2h(AF(G2.negp(A)))), "jm:g2:add:opposite")
        add("jm g2 add %s %s" % (j2h(INF2[0]), j2h(AF(B))), "jm:g2:add:P=inf")
        add("jm g2 add %s %s" % (j2h(JA), j2h(JB)), "jm:g2:add:Q-not-affine")
    for k in [2**64 + 1] + ([N - 1, rnd(r, N)] if thorough else []):
        add("jm g2 mul %s %s" % (h64(k), j2h(jac2(qs[0], (3, 5)))), "jm:g2:mul:" + limb_class(k))
    # ---- 256-bit integer helpers
    ze = [0, 1, 2**64 - 1, 2**64, 2**255, 2**256 - 1, P, N, 2**128 - 1, 2**192]
    for a in ze:
        for b in ze:
            for op in ("add", "sub", "mul", "cmp", "equ"):
                add("z256 %s %s %s" % (op, h64(a), h64(b)), "z256:%s:edge" % op)
    for i in range(40):
        a, b = rnd(r, 2**256), rnd(r, 2**256)
        if i % 5 == 0: b = a ^ (1 << r.below(256))          # differ in exactly one bit
        for op in ("add", "sub", "mul", "cmp", "equ"):
            add("z256 %s %s %s" % (op, h64(a), h64(b)), "z256:%s:rand" % op)
    for i in range(256):
        add("z256 iszero %s" % h64(1 << i), "z256:iszero:one-bit"); 
    add("z256 iszero " + h64(0), "z256:iszero:zero")
    for a in ze + [rnd(r, 2**256) for _ in range(6)]:
        add("z256 bits " + h64(a), "z256:bits"); add("z256 hex " + h64(a), "z256:hex")
        add("z256 cmov %s %s 0" % (h64(a), h64(rnd(r, 2**256))), "z256:cmov:0"); add("z256 cmov %s %s 1" % (h64(a), h64(rnd(r, 2**256))), "z256:cmov:1")
    bk = [0, 1, 2**256 - 1, int("aa" * 32, 16), int("55" * 32, 16), N - 1, N - 74, 2**255, 2**63, 2**64] + limb_scalars()[:8] + [rnd(r, 2**256) for _ in range(4 if not thorough else 40)]
    for k in bk:
        for w_, n in ((5, 52), (7, 37)):
            for i in range(n):
                add("z256 booth %s %d %d" % (h64(k), w_, i), "z256:booth:w%d:%s" % (w_, "i0" if i == 0 else ("top" if i == n - 1 else ("limb-cross" if (i * w_ - 1) % 64 > 64 - w_ - 1 else "mid"))))
    for lvl, n in (("fp2", 2), ("fp4", 4), ("fp12", 12)):
        for pt in ("r" * n, "0" * n, "m" * n, "".join(r.choice("01mr") for _ in range(n))):
            add("hexrt %s %s" % (lvl, elem(r, pt)), "hexrt:" + lvl)
    run_diff(ctx, diff, impl_exe, model_exe)
    # ---- key extraction: the identity key is [t2]P with t2 from the Coq model (two-phase)
    ids = [b"Alice", b"Bob", r.bytes(1), r.bytes(70)]
    ks = [KS_STD, 1, N - 1, rnd(r, N)]
    q = []
    for ident in ids:
        for hid, tag in ((1, "s"), (3, "e"), (2, "x")):
            q.append(("hash1 %s %d" % (core.hexs(ident), hid), ident, hid, tag))
    mo, _ = core.run_lines(model_exe, [x[0] for x in q], shards=4)
    ext = []   # (model line, impl line, cell, group)
    for (line, ident, hid, tag), h in zip(q, mo):
        h1 = int(h.split(" ")[0], 16)
        for k in ks + [(N - h1) % N]:
            ext.append(("t2 %s %d %s" % (core.hexs(ident), hid, h64(k)), "extract %s %s %s" % (tag, h64(k), core.hexs(ident)),
                        "extract:%s:%s" % (tag, "t1=0" if k == (N - h1) % N else "ok"), tag))
    mo, _ = core.run_lines(model_exe, [x[0] for x in ext], shards=8)
    io, _ = core.run_lines(impl_exe, [x[1] for x in ext], shards=8)
    for (ml, il, cell, tag), m, a in zip(ext, mo, io):
        ctx.cov["evaluations"] += 1; ctx.count("op:extract")
        if m == "NONE": exp = "ERR"
        else:
            t2 = int(m, 16)
            exp = ref.g1_hex(G1.mulp(t2, ref.P1)) if tag == "s" else ref.g2_hex(G2.mulp(t2, ref.P2))
        if a == exp: ctx.cell(cell + (":ERR" if exp == "ERR" else ":ok"))
        else: ctx.violation(cell, "extracted identity key is not [t2]P for the modelled t2 = k (H1+k)^-1: op `%s` -> %s expected %s" % (il[:120], a[:60], exp[:60]),
                            {"kind": "failing-input", "op": il, "impl": a, "expected": exp, "model_op": ml}, True)
    # ---- entropy consumers (scripted getentropy; a 256-bit draw is the little-endian image of the limbs)
    cases = []
    def stream(draws): return "".join(le32(d) for d in draws)
    big = 2**256 - 1
    rdiff = []
    for n, nm in ((N, "N"), (P, "p"), (2, "two")):
        for draws, cls in (([n - 1], "first"), ([1], "first"), ([0, 1], "zero-redraw"), ([0, 0, n - 1], "zero-redraw"), ([n, n - 2 if n > 2 else 1], "high-redraw"),
                           ([big, n, 0, 1], "redraw"), ([n + 1] * 3 + [1], "redraw")):
            rdiff.append(("rnd range %s %s" % (stream(draws), h64(n)), "rnd:range:%s:%s" % (nm, cls)))
    rdiff.append(("rnd range %s %s" % (stream([big] * 100 + [1]), h64(N)), "rnd:range:100-tries"))
    rdiff.append(("rnd range %s %s" % (stream([0] * 100 + [1]), h64(N)), "rnd:range:100-zero-draws"))
    rdiff.append(("rnd range %s %s" % (stream([big] * 99 + [7]), h64(N)), "rnd:range:100th-try"))
    rdiff.append(("rnd rangefail %s %s 0" % (stream([1]), h64(N)), "rnd:range:entropy-fails"))
    rdiff.append(("rnd rangefail %s %s 1" % (stream([big, 1]), h64(N)), "rnd:range:entropy-fails-on-redraw"))
    rdiff.append(("rnd rangefail %s %s 1" % (stream([0, 1]), h64(N)), "rnd:range:entropy-fails-after-zero"))
    run_diff(ctx, rdiff, impl_exe, model_exe)
    for lvl, n, order in (("fp2", 2, [0, 1]), ("fp4", 4, [2, 3, 0, 1]), ("fp12", 12, [2, 3, 0, 1, 6, 7, 4, 5, 10, 11, 8, 9])):
        vals = [rnd(r, P) for _ in range(n)]
        draws = []; 
        for j, v in enumerate(vals):
            if j == 1: draws.append(P + 3)        # one rejected draw
            draws.append(v)
        out = [None] * n
        for pos, v in zip(order, vals): out[pos] = v
        cases.append(("rnd %s %s" % (lvl, stream(draws)), "rnd:%s" % lvl, "1 %d %s" % (n + 1, "".join(h64(v) for v in out))))
    kk = rnd(r, N)
    cases.append(("rnd smsk " + stream([N, kk]), "rnd:keygen:smsk", "1 2 %s %s" % (h64(kk), ref.g2_hex(G2.mulp(kk, ref.P2)))))
    cases.append(("rnd emsk " + stream([kk]), "rnd:keygen:emsk", "1 1 %s %s" % (h64(kk), ref.g1_hex(G1.mulp(kk, ref.P1)))))
    cases.append(("rnd smsk " + stream([0, kk]), "rnd:keygen:smsk:zero-draw", "1 2 %s %s" % (h64(kk), ref.g2_hex(G2.mulp(kk, ref.P2)))))
    cases.append(("rnd emsk " + stream([0, 0, kk]), "rnd:keygen:emsk:zero-draw", "1 3 %s %s" % (h64(kk), ref.g1_hex(G1.mulp(kk, ref.P1)))))
    cases.append(("rnd emsk " + stream([N - 74]), "rnd:keygen:emsk:N-74", "1 1 %s %s" % (h64(N - 74), ref.g1_hex(G1.mulp(N - 74, ref.P1)))))
    A = G1.mulp(rnd(r, N), ref.P1); B = G2.mulp(rnd(r, N), ref.P2)
    cases.append(("hexrt g1 " + ref.g1_hex(A), "hexrt:g1", "1 %s %s %s" % (h64(A[0]), h64(A[1]), h64(1))))
    cases.append(("hexrt g2 " + ref.g2_hex(B), "hexrt:g2", "1 %s %s %s" % (ref.f2_hex(B[0]), ref.f2_hex(B[1]), ref.f2_hex((1, 0)))))
    cases.append(("misc consts", "misc:consts", "%s %s %s %s" % (h64(P), h64(N), ref.g1_hex(ref.P1), ref.g2_hex(ref.P2))))
    cases.append(("misc oid", "misc:oid", "sm9sign sm9encrypt sm9keyagreement 1 1 1 1"))
    run_expected(ctx, cases, impl_exe, "helper differs from its specification")
    # printers: return 1 and show the public fields (upper-case hex of the encoded points)
    kp = rnd(r, N); idp = b"Eve"
    Ppubs = ref.g2_hex(G2.mulp(kp, ref.P2)).upper(); Ppube = ref.g1_hex(G1.mulp(kp, ref.P1)).upper()
    prn = [("prn smsk", Ppubs), ("prn smpk", Ppubs), ("prn skey", Ppubs), ("prn emsk", Ppube), ("prn empk", Ppube), ("prn ekey", Ppube),
           ("prn z", h64(kp)), ("prn g1", Ppube), ("prn g2", Ppubs)]
    so, _ = core.run_lines(impl_exe, ["sign %s %s 6d %s -" % (h64(kp), core.hexs(idp), le32(rnd(r, N)) + r.bytes(32).hex()),
                                       "enc %s %s 6d6d %s -" % (h64(kp), core.hexs(idp), le32(rnd(r, N)) + r.bytes(32).hex())], shards=1)
    lines = ["%s %s %s" % (a, h64(kp), core.hexs(idp)) for a, _ in prn]
    exps = [e for _, e in prn]
    if so[0].startswith("sig=") and so[1].startswith("ct="):
        sg = so[0].split(" ")[0][4:]; ct = so[1].split(" ")[0][3:]
        lines += ["prn sig %s %s %s" % (h64(kp), core.hexs(idp), sg), "prn ct %s %s %s" % (h64(kp), core.hexs(idp), ct),
                  "prn sig %s %s %s00" % (h64(kp), core.hexs(idp), sg)]
        exps += [sg[8:72].upper(), ct[18:18 + 128].upper(), None]
    po, _ = core.run_lines(impl_exe, lines, shards=2)
    for line, e, a in zip(lines, exps, po):
        ctx.cov["evaluations"] += 1; ctx.count("op:prn")
        cell = "print:" + line.split(" ")[1] + ("" if e is not None else ":trailing")
        okp = (a.startswith("1 ") and e in a and "LBL" in a) if e is not None else a.startswith("-1")
        if okp: ctx.cell(cell + ":ok")
        else: ctx.violation(cell, "printer does not show the object / does not refuse a malformed one: op `%s` -> %s" % (line[:100], a[:120]),
                            {"kind": "failing-input", "op": line, "impl": a, "expected": e}, True)
    ctx.notes.append("wave5: %d differential, %d extract, %d helper cases, %.1fs" % (len(diff), len(ext), len(cases), time.time() - t0))


def run(ctx):
    ctx.check_proofs()
    model, log = core.build_model("C17")
    if model is None:
        ctx.violation("correspondence:model-build", "extracted model does not build: " + log[-500:], {"kind": "correspondence", "log": log[-3000:]}, False)
        return finish(ctx)
    exe, log = core.build_harness("C17", "asan")
    if exe is None:
        core.harness_build_failed(ctx, log)
        return finish(ctx)
    import time
    t0 = time.time()
    dc = gen_diff(ctx)
    run_diff(ctx, dc, exe, model)
    t1 = time.time()
    gc = gen_groups(ctx)
    ctx.notes.append("python reference for %d group cases: %.1fs" % (len(gc), time.time() - t1))
    run_expected(ctx, gc, exe, "group arithmetic differs from the integer reference")
    run_scheme(ctx, gen_scheme(ctx), exe)
    run_exchange(ctx, exe)
    run_der(ctx, exe, model)
    run_import(ctx, exe, model)
    run_wave5(ctx, exe, model)
    return finish(ctx)


def replay(path):
    import json
    rp = json.load(open(path)).get("replay", {})
    op = rp.get("op")
    if not op:
        print("replay names a proof obligation / relation, not an input:", json.dumps(rp)[:1000]); return 0
    exe, log = core.build_harness("C17", "asan")
    if exe is None:
        print(log[-2000:]); return 1
    for o in [op] + ([rp["op2"]] if rp.get("op2") else []):
        a, err = core.run_lines(exe, [o], shards=1, env={"VERIF_STDERR": "1"})
        print("op:      ", o[:300]); print("impl:    ", a[0][:800]); print("expected:", str(rp.get("expected"))[:800])
        if err.strip(): print("stderr:", err[-800:])
    return 0


def finish(ctx):
    ctx.assumptions = [
        "theorems: Impl = Spec (mod p, componentwise) for every add/sub/neg/dbl/tri/haf/mul/sqr/mul_u/mul_v/line-mul/pow of Fp, Fp2, Fp4, Fp12; inverses correct when the inverted norm is a unit (premise: Fermat's little theorem for p, i.e. p prime); hash-to-range equals (Ha mod (N-1))+1 for every 320-bit Ha; inversion after negation correct (a2 = 0 branch); scheme correctness (verify(sign), decrypt(encrypt), exchange agreement) over an ABSTRACT pairing with group laws, bilinearity and order N as premises",
        "NOT proved: that sm9_z256_pairing (Miller loop + final exponentiation) is a bilinear non-degenerate map of order N; that the Frobenius maps equal x -> x^(p^j); the G1/G2 point formulas; modn_mul/modn_inv (Barrett) — these are tested: algebraic laws on the implementation, one known answer of GM/T 0044.5 annex A, Python integer reference for the groups",
        "field elements are compared with the Montgomery factor removed (the harness converts with the library's own from_bytes/to_bytes); Fp-level ops are compared on raw representatives including the non-canonical zero p",
        "scheme tests use scripted entropy (harness/entropy.h); rejection of wrong identity/message/altered bytes is a test on sampled positions (cryptographic clause, not a theorem)",
    ]
    return ctx.finish(level="proof",
                      rule="differential cases = coefficient-class products (0, 1, p-1, random; non-canonical p at Fp level) for every exported tower op + carry/borrow boundaries + malformed (coefficient >= p) + random; expected value = Spec evaluated by the extracted model, Impl model evaluated alongside; group cases compare with a Python integer reference on edge scalars (0,1,N-1,N,2^256-1, every k in [N-129,N-1]) and special additions (P+P, P-P, infinity); law cases are pairing identities evaluated on the implementation; scheme cases are round trips + rejections under scripted entropy; a cell = (family, op, operand class, ok|ERR); distinct_nontrivial = cells on which the implementation matched the expected value",
                      trusted=core.TRUSTED_COMMON + ["Coq files: Sm9/Tower.v ModN.v Sm9Scheme.v (models), TowerProofs.v TowerInv.v ModNProofs.v (proofs), Props/Properties_C17.v",
                                                     "props/C17/ref.py (Python reference for G1/G2 and the Fp12 product)"])
