"""Python reference for the SM9 groups (test oracle, not a proof object): affine chord-tangent
arithmetic on E: y^2 = x^3 + 5 over Fp and on the twist E': y^2 = x^3 + 5u over Fp2 = Fp[u]/(u^2+2),
double-and-add scalar multiplication on Python integers."""

P = 0xb640000002a3a6f1d603ab4ff58ec74521f2934b1a7aeedbe56f9b27e351457d
N = 0xb640000002a3a6f1d603ab4ff58ec74449f2934b18ea8beee56ee19cd69ecf25
P1 = (0x93DE051D62BF718FF5ED0704487D01D6E1E4086909DC3280E8C4E4817C66DDDD,
      0x21FE8DDA4F21E607631065125C395BBC1C1C00CBFA6024350C464CD70A3EA616)
# twist generator: X = x0 + x1 u given as (x0, x1)
P2 = ((0x3722755292130b08d2aab97fd34ec120ee265948d19c17abf9b7213baf82d65b,
       0x85aef3d078640c98597b6027b441a01ff1dd2c190f5e93c454806c11d8806141),
      (0xa7cf28d519be3da65f3170153d278ff247efba98a71a08116215bba5c999a7c7,
       0x17509b092e845c1266ba0d262cbee6ed0736a96fa347c8bd856dc76b84ebeb96))


# ---- Fp2
def f2add(a, b): return ((a[0] + b[0]) % P, (a[1] + b[1]) % P)
def f2sub(a, b): return ((a[0] - b[0]) % P, (a[1] - b[1]) % P)
def f2neg(a): return ((-a[0]) % P, (-a[1]) % P)
def f2mul(a, b): return ((a[0] * b[0] - 2 * a[1] * b[1]) % P, (a[0] * b[1] + a[1] * b[0]) % P)
def f2inv(a):
    n = pow((a[0] * a[0] + 2 * a[1] * a[1]) % P, -1, P)
    return (a[0] * n % P, (-a[1]) * n % P)
F2ZERO, F2ONE = (0, 0), (1, 0)
B2 = (0, 5)       # 5u


class Curve:
    """generic affine short Weierstrass y^2 = x^3 + b over a field given by its operations; None = infinity"""
    def __init__(self, add, sub, neg, mul, inv, zero, b, three, two):
        self.add, self.sub, self.neg, self.mul, self.inv, self.zero, self.b = add, sub, neg, mul, inv, zero, b
        self.three, self.two = three, two
    def on_curve(self, Pt):
        if Pt is None: return True
        x, y = Pt
        return self.mul(y, y) == self.add(self.mul(self.mul(x, x), x), self.b)
    def negp(self, Pt):
        return None if Pt is None else (Pt[0], self.neg(Pt[1]))
    def addp(self, A, B):
        if A is None: return B
        if B is None: return A
        (x1, y1), (x2, y2) = A, B
        if x1 == x2:
            if y1 == y2 and y1 != self.zero:
                lam = self.mul(self.mul(self.three, self.mul(x1, x1)), self.inv(self.mul(self.two, y1)))
            else:
                return None
        else:
            lam = self.mul(self.sub(y2, y1), self.inv(self.sub(x2, x1)))
        x3 = self.sub(self.sub(self.mul(lam, lam), x1), x2)
        y3 = self.sub(self.mul(lam, self.sub(x1, x3)), y1)
        return (x3, y3)
    def mulp(self, k, A):
        R = None
        for bit in bin(k)[2:] if k > 0 else "":
            R = self.addp(R, R)
            if bit == "1":
                R = self.addp(R, A)
        return R


G1 = Curve(lambda a, b: (a + b) % P, lambda a, b: (a - b) % P, lambda a: (-a) % P, lambda a, b: a * b % P,
           lambda a: pow(a, -1, P), 0, 5, 3, 2)
G2 = Curve(f2add, f2sub, f2neg, f2mul, f2inv, F2ZERO, B2, (3, 0), (2, 0))


def h64(x): return "%064x" % x
def g1_hex(Pt): return "INF" if Pt is None else h64(Pt[0]) + h64(Pt[1])
def f2_hex(a): return h64(a[1]) + h64(a[0])
def g2_hex(Pt): return "INF" if Pt is None else f2_hex(Pt[0]) + f2_hex(Pt[1])


# ---- Fp12 product check used when the Impl model is known to differ from the Spec (inverse defect)
def f4mul(a, b):
    d0 = f2mul(a[0], b[0]); d2 = f2mul(a[1], b[1])
    d1 = f2add(f2mul(a[0], b[1]), f2mul(a[1], b[0]))
    return (f2add(d0, f2mul((0, 1), d2)), d1)
def f4add(a, b): return (f2add(a[0], b[0]), f2add(a[1], b[1]))
V4 = ((0, 0), (1, 0))
def f12mul(a, b):
    d0 = f4mul(a[0], b[0]); d1 = f4add(f4mul(a[0], b[1]), f4mul(a[1], b[0]))
    d2 = f4add(f4add(f4mul(a[0], b[2]), f4mul(a[1], b[1])), f4mul(a[2], b[0]))
    d3 = f4add(f4mul(a[1], b[2]), f4mul(a[2], b[1])); d4 = f4mul(a[2], b[2])
    return (f4add(d0, f4mul(V4, d3)), f4add(d1, f4mul(V4, d4)), d2)
def f12_parse(s):
    c = [int(s[i * 64:(i + 1) * 64], 16) for i in range(12)]      # a2.1.1 a2.1.0 a2.0.1 a2.0.0 a1... a0.0.0
    def f4(o): return ((c[o + 3], c[o + 2]), (c[o + 1], c[o]))
    return (f4(8), f4(4), f4(0))
F12ONE = (((1, 0), (0, 0)), ((0, 0), (0, 0)), ((0, 0), (0, 0)))


if __name__ == "__main__":
    assert G1.on_curve(P1) and G2.on_curve(P2)
    assert G1.mulp(N, P1) is None and G2.mulp(N, P2) is None
    print("ref ok")
