/* C17 correspondence harness: SM9 field tower / mod-N / hash-to-range ops (compared with the
 * extracted Coq model), impl-only algebraic laws of the pairing and the groups, group ops for
 * the Python reference, and scheme round trips under scripted entropy. */
#include "common.h"
#include "entropy.h"
#include <gmssl/sm9.h>
#include <gmssl/sm9_z256.h>
#include <gmssl/mem.h>
#include <gmssl/pem.h>
#include <gmssl/oid.h>

/* defined non-static in src/sm9_z256.c but not (or differently: sm9_z256_prime) declared in the header */
int sm9_z256_get_booth(const uint64_t a[4], uint64_t window_size, int i);
const uint64_t *sm9_256_prime(void);

static const uint8_t P_BYTES[32] = {0xb6,0x40,0x00,0x00,0x02,0xa3,0xa6,0xf1,0xd6,0x03,0xab,0x4f,0xf5,0x8e,0xc7,0x45,
	0x21,0xf2,0x93,0x4b,0x1a,0x7a,0xee,0xdb,0xe5,0x6f,0x9b,0x27,0xe3,0x51,0x45,0x7d};

/* ---- parsing helpers: every buffer handed to the library is an exactly sized heap block */
static int get_z(const char *hex, sm9_z256_t r) {           /* raw 256-bit integer */
	buf_t b; if (strlen(hex) != 64) return 0;
	b = hex2buf(hex); sm9_z256_from_bytes(r, b.p); free(b.p); return 1;
}
static void put_z(const sm9_z256_t a) { uint8_t *o = malloc(32); sm9_z256_to_bytes(a, o); puthex(o, 32); free(o); }
static int get_fp(const char *hex, sm9_z256_t r) {          /* canonical field element -> Montgomery */
	sm9_z256_t pp;
	if (!get_z(hex, r)) return 0;
	sm9_z256_from_bytes(pp, P_BYTES);
	if (sm9_z256_cmp(r, pp) >= 0) return 0;
	sm9_z256_modp_to_mont(r, r); return 1;
}
static int get_fp2(const char *hex, sm9_z256_fp2_t r) {
	buf_t b; int ok; if (strlen(hex) != 128) return 0;
	b = hex2buf(hex); ok = sm9_z256_fp2_from_bytes(r, b.p) == 1; free(b.p); return ok;
}
static int get_fp4(const char *hex, sm9_z256_fp4_t r) {
	buf_t b; int ok; if (strlen(hex) != 256) return 0;
	b = hex2buf(hex); ok = sm9_z256_fp4_from_bytes(r, b.p) == 1; free(b.p); return ok;
}
static int get_fp12(const char *hex, sm9_z256_fp12_t r) {
	buf_t b; int ok; if (strlen(hex) != 768) return 0;
	b = hex2buf(hex); ok = sm9_z256_fp12_from_bytes(r, b.p) == 1; free(b.p); return ok;
}
static void put_fp2(const sm9_z256_fp2_t a) { uint8_t *o = malloc(64); sm9_z256_fp2_to_bytes(a, o); puthex(o, 64); free(o); }
static void put_fp4(const sm9_z256_fp4_t a) { uint8_t *o = malloc(128); sm9_z256_fp4_to_bytes(a, o); puthex(o, 128); free(o); }
static void put_fp12(const sm9_z256_fp12_t a) { uint8_t *o = malloc(384); sm9_z256_fp12_to_bytes(a, o); puthex(o, 384); free(o); }
static int fp12_same(const sm9_z256_fp12_t a, const sm9_z256_fp12_t b) {   /* compare canonical encodings */
	uint8_t *x = malloc(384), *y = malloc(384); int r;
	sm9_z256_fp12_to_bytes(a, x); sm9_z256_fp12_to_bytes(b, y); r = memcmp(x, y, 384) == 0; free(x); free(y); return r;
}
static int fp12_is_one(const sm9_z256_fp12_t a) { sm9_z256_fp12_t o; sm9_z256_fp12_set_one(o); return fp12_same(a, o); }
static int fp12_is_zero_(const sm9_z256_fp12_t a) { sm9_z256_fp12_t o; sm9_z256_fp12_set_zero(o); return fp12_same(a, o); }

/* ---- Fp on raw representatives */
static void do_fp(size_t nw, char **w) {
	sm9_z256_t a, b, r; const char *op = w[1];
	if (!get_z(w[2], a)) { printf("ERR"); return; }
	if (nw == 4 && !get_z(w[3], b)) { printf("ERR"); return; }
	{ sm9_z256_t pp; sm9_z256_from_bytes(pp, P_BYTES);
	  if (sm9_z256_cmp(a, pp) > 0 || (nw == 4 && sm9_z256_cmp(b, pp) > 0)) { printf("ERR"); return; } }
	if (nw == 3) {
		if (!strcmp(op, "neg")) sm9_z256_modp_neg(r, a);
		else if (!strcmp(op, "dbl")) sm9_z256_modp_dbl(r, a);
		else if (!strcmp(op, "tri")) sm9_z256_modp_tri(r, a);
		else if (!strcmp(op, "haf")) sm9_z256_modp_haf(r, a);
		else if (!strcmp(op, "montinv")) sm9_z256_modp_mont_inv(r, a);
		else if (!strcmp(op, "tomont")) sm9_z256_modp_to_mont(r, a);
		else if (!strcmp(op, "frommont")) sm9_z256_modp_from_mont(r, a);
		else if (!strcmp(op, "montsqr")) sm9_z256_modp_mont_sqr(r, a);
		else { printf("ERR bad-op"); return; }
	} else {
		if (!strcmp(op, "add")) sm9_z256_modp_add(r, a, b);
		else if (!strcmp(op, "sub")) sm9_z256_modp_sub(r, a, b);
		else if (!strcmp(op, "montmul")) sm9_z256_modp_mont_mul(r, a, b);
		else { printf("ERR bad-op"); return; }
	}
	put_z(r);
}

static void do_fp2(size_t nw, char **w) {
	sm9_z256_fp2_t a, b, r; sm9_z256_t k; const char *op = w[1];
	if (!get_fp2(w[2], a)) { printf("ERR"); return; }
	if (nw == 3) {
		if (!strcmp(op, "neg")) sm9_z256_fp2_neg(r, a);
		else if (!strcmp(op, "dbl")) sm9_z256_fp2_dbl(r, a);
		else if (!strcmp(op, "tri")) sm9_z256_fp2_tri(r, a);
		else if (!strcmp(op, "haf")) sm9_z256_fp2_haf(r, a);
		else if (!strcmp(op, "sqr")) sm9_z256_fp2_sqr(r, a);
		else if (!strcmp(op, "squ")) sm9_z256_fp2_sqr_u(r, a);
		else if (!strcmp(op, "inv")) sm9_z256_fp2_inv(r, a);
		else if (!strcmp(op, "amulu")) sm9_z256_fp2_a_mul_u(r, a);
		else if (!strcmp(op, "conj")) sm9_z256_fp2_conjugate(r, a);
		else if (!strcmp(op, "frob")) sm9_z256_fp2_frobenius(r, a);
		else { printf("ERR bad-op"); return; }
	} else if (!strcmp(op, "mulfp")) {
		if (!get_fp(w[3], k)) { printf("ERR"); return; }
		sm9_z256_fp2_mul_fp(r, a, k);
	} else {
		if (!get_fp2(w[3], b)) { printf("ERR"); return; }
		if (!strcmp(op, "add")) sm9_z256_fp2_add(r, a, b);
		else if (!strcmp(op, "sub")) sm9_z256_fp2_sub(r, a, b);
		else if (!strcmp(op, "mul")) sm9_z256_fp2_mul(r, a, b);
		else if (!strcmp(op, "mulu")) sm9_z256_fp2_mul_u(r, a, b);
		else if (!strcmp(op, "div")) sm9_z256_fp2_div(r, a, b);
		else { printf("ERR bad-op"); return; }
	}
	put_fp2(r);
}

static void do_fp4(size_t nw, char **w) {
	sm9_z256_fp4_t a, b, r; sm9_z256_fp2_t b2; sm9_z256_t k; const char *op = w[1];
	if (!get_fp4(w[2], a)) { printf("ERR"); return; }
	if (nw == 3) {
		if (!strcmp(op, "neg")) sm9_z256_fp4_neg(r, a);
		else if (!strcmp(op, "dbl")) sm9_z256_fp4_dbl(r, a);
		else if (!strcmp(op, "haf")) sm9_z256_fp4_haf(r, a);
		else if (!strcmp(op, "sqr")) sm9_z256_fp4_sqr(r, a);
		else if (!strcmp(op, "sqrv")) sm9_z256_fp4_sqr_v(r, a);
		else if (!strcmp(op, "inv")) sm9_z256_fp4_inv(r, a);
		else if (!strcmp(op, "amulv")) sm9_z256_fp4_a_mul_v(r, a);
		else if (!strcmp(op, "conj")) sm9_z256_fp4_conjugate(r, a);
		else if (!strcmp(op, "frob") || !strcmp(op, "frobpow")) sm9_z256_fp4_frobenius(r, a);
		else if (!strcmp(op, "frob2")) sm9_z256_fp4_frobenius2(r, a);
		else if (!strcmp(op, "frob3")) sm9_z256_fp4_frobenius3(r, a);
		else { printf("ERR bad-op"); return; }
	} else if (!strcmp(op, "mulfp")) {
		if (!get_fp(w[3], k)) { printf("ERR"); return; }
		sm9_z256_fp4_mul_fp(r, a, k);
	} else if (!strcmp(op, "mulfp2")) {
		if (!get_fp2(w[3], b2)) { printf("ERR"); return; }
		sm9_z256_fp4_mul_fp2(r, a, b2);
	} else {
		if (!get_fp4(w[3], b)) { printf("ERR"); return; }
		if (!strcmp(op, "add")) sm9_z256_fp4_add(r, a, b);
		else if (!strcmp(op, "sub")) sm9_z256_fp4_sub(r, a, b);
		else if (!strcmp(op, "mul")) sm9_z256_fp4_mul(r, a, b);
		else if (!strcmp(op, "mulv")) sm9_z256_fp4_mul_v(r, a, b);
		else { printf("ERR bad-op"); return; }
	}
	put_fp4(r);
}

static void do_fp12(size_t nw, char **w) {
	sm9_z256_fp12_t a, b, r; const char *op = w[1];
	if (!get_fp12(w[2], a)) { printf("ERR"); return; }
	if (nw == 3) {
		if (!strcmp(op, "neg")) sm9_z256_fp12_neg(r, a);
		else if (!strcmp(op, "dbl")) sm9_z256_fp12_dbl(r, a);
		else if (!strcmp(op, "tri")) sm9_z256_fp12_tri(r, a);
		else if (!strcmp(op, "sqr")) sm9_z256_fp12_sqr(r, a);
		else if (!strcmp(op, "inv")) sm9_z256_fp12_inv(r, a);
		else if (!strcmp(op, "invneg")) { sm9_z256_fp12_neg(b, a); sm9_z256_fp12_inv(r, b); }
		else if (!strcmp(op, "invfrob6")) { sm9_z256_fp12_frobenius6(b, a); sm9_z256_fp12_inv(r, b); }
		else if (!strcmp(op, "frob") || !strcmp(op, "frobpow")) sm9_z256_fp12_frobenius(r, a);
		else if (!strcmp(op, "frob2")) sm9_z256_fp12_frobenius2(r, a);
		else if (!strcmp(op, "frob3")) sm9_z256_fp12_frobenius3(r, a);
		else if (!strcmp(op, "frob6")) sm9_z256_fp12_frobenius6(r, a);
		else { printf("ERR bad-op"); return; }
	} else if (!strcmp(op, "pow") && nw == 4) {
		sm9_z256_t k; char kh[65]; size_t l = strlen(w[3]);
		if (l > 64) { printf("ERR"); return; }
		memset(kh, '0', 64); memcpy(kh + 64 - l, w[3], l); kh[64] = 0;
		if (!get_z(kh, k)) { printf("ERR"); return; }
		sm9_z256_fp12_pow(r, a, k);
	} else if (!strcmp(op, "linemul") && nw == 6) {
		sm9_z256_fp2_t lw[3];
		if (!get_fp2(w[3], lw[0]) || !get_fp2(w[4], lw[1]) || !get_fp2(w[5], lw[2])) { printf("ERR"); return; }
		sm9_z256_fp12_line_mul(r, a, (const sm9_z256_fp2_t *)lw);
	} else if (nw == 4) {
		if (!get_fp12(w[3], b)) { printf("ERR"); return; }
		if (!strcmp(op, "add")) sm9_z256_fp12_add(r, a, b);
		else if (!strcmp(op, "sub")) sm9_z256_fp12_sub(r, a, b);
		else if (!strcmp(op, "mul")) sm9_z256_fp12_mul(r, a, b);
		else { printf("ERR bad-op"); return; }
	} else { printf("ERR bad-op"); return; }
	put_fp12(r);
}

static void do_modn(size_t nw, char **w) {
	sm9_z256_t a, b, r; const char *op = w[1];
	if (!get_z(w[2], a) || (nw == 4 && !get_z(w[3], b))) { printf("ERR"); return; }
	if (!strcmp(op, "add") && nw == 4) sm9_z256_modn_add(r, a, b);
	else if (!strcmp(op, "sub") && nw == 4) sm9_z256_modn_sub(r, a, b);
	else if (!strcmp(op, "mul") && nw == 4) sm9_z256_modn_mul(r, a, b);
	else if (!strcmp(op, "inv") && nw == 3) sm9_z256_modn_inv(r, a);
	else { printf("ERR bad-op"); return; }
	put_z(r);
}

/* ---- points */
static int get_g1(const char *hex, SM9_Z256_POINT *P) {          /* "INF" or x||y (128 hex) */
	uint8_t *o; buf_t b; int ok;
	if (!strcmp(hex, "INF")) { sm9_z256_point_set_infinity(P); return 1; }
	if (strlen(hex) != 128) return 0;
	b = hex2buf(hex); o = malloc(65); o[0] = 4; memcpy(o + 1, b.p, 64);
	ok = sm9_z256_point_from_uncompressed_octets(P, o) == 1; free(o); free(b.p); return ok;
}
static void put_g1(const SM9_Z256_POINT *P) {
	uint8_t *o;
	if (sm9_z256_point_is_at_infinity(P)) { printf("INF"); return; }
	o = malloc(65); sm9_z256_point_to_uncompressed_octets(P, o); puthex(o + 1, 64); free(o);
}
static int get_g2(const char *hex, SM9_Z256_TWIST_POINT *P) {    /* "INF" or X||Y (256 hex) */
	uint8_t *o; buf_t b; int ok;
	if (!strcmp(hex, "INF")) { sm9_z256_twist_point_set_infinity(P); return 1; }
	if (strlen(hex) != 256) return 0;
	b = hex2buf(hex); o = malloc(129); o[0] = 4; memcpy(o + 1, b.p, 128);
	ok = sm9_z256_twist_point_from_uncompressed_octets(P, o) == 1; free(o); free(b.p); return ok;
}
static void put_g2(const SM9_Z256_TWIST_POINT *P) {
	uint8_t *o;
	if (sm9_z256_twist_point_is_at_infinity(P)) { printf("INF"); return; }
	o = malloc(129); sm9_z256_twist_point_to_uncompressed_octets(P, o); puthex(o + 1, 128); free(o);
}
static void do_g1(size_t nw, char **w) {
	SM9_Z256_POINT P, Q, R; sm9_z256_t k; const char *op = w[1];
	if (!strcmp(op, "mulgen") && nw == 3) { if (!get_z(w[2], k)) { printf("ERR"); return; } sm9_z256_point_mul_generator(&R, k); }
	else if (!strcmp(op, "mulP1") && nw == 3) { if (!get_z(w[2], k)) { printf("ERR"); return; } sm9_z256_point_mul(&R, k, sm9_z256_generator()); }
	else if (!strcmp(op, "mul") && nw == 4) { if (!get_z(w[2], k) || !get_g1(w[3], &P)) { printf("ERR"); return; } sm9_z256_point_mul(&R, k, &P); }
	else if (!strcmp(op, "add") && nw == 4) { if (!get_g1(w[2], &P) || !get_g1(w[3], &Q)) { printf("ERR"); return; } sm9_z256_point_add(&R, &P, &Q); }
	else if (!strcmp(op, "sub") && nw == 4) { if (!get_g1(w[2], &P) || !get_g1(w[3], &Q)) { printf("ERR"); return; } sm9_z256_point_sub(&R, &P, &Q); }
	else if (!strcmp(op, "dbl") && nw == 3) { if (!get_g1(w[2], &P)) { printf("ERR"); return; } sm9_z256_point_dbl(&R, &P); }
	else if (!strcmp(op, "oct") && nw == 3) {      /* decode arbitrary 65 octets */
		buf_t b = hex2buf(w[2]); uint8_t *o = malloc(65); int ok;
		memset(o, 0, 65); memcpy(o, b.p, b.n < 65 ? b.n : 65);
		ok = sm9_z256_point_from_uncompressed_octets(&R, o) == 1; free(o); free(b.p);
		if (!ok) { printf("ERR"); return; }
	}
	else { printf("ERR bad-op"); return; }
	put_g1(&R);
}
static void do_g2(size_t nw, char **w) {
	SM9_Z256_TWIST_POINT P, Q, R; sm9_z256_t k; const char *op = w[1];
	if (!strcmp(op, "mulgen") && nw == 3) { if (!get_z(w[2], k)) { printf("ERR"); return; } sm9_z256_twist_point_mul_generator(&R, k); }
	else if (!strcmp(op, "mul") && nw == 4) { if (!get_z(w[2], k) || !get_g2(w[3], &P)) { printf("ERR"); return; } sm9_z256_twist_point_mul(&R, k, &P); }
	else if (!strcmp(op, "addfull") && nw == 4) { if (!get_g2(w[2], &P) || !get_g2(w[3], &Q)) { printf("ERR"); return; } sm9_z256_twist_point_add_full(&R, &P, &Q); }
	else if (!strcmp(op, "add") && nw == 4) {      /* mixed addition: Q must be affine (Z = 1), as decoded */
		if (!get_g2(w[2], &P) || !get_g2(w[3], &Q)) { printf("ERR"); return; } sm9_z256_twist_point_add(&R, &P, &Q); }
	else if (!strcmp(op, "sub") && nw == 4) { if (!get_g2(w[2], &P) || !get_g2(w[3], &Q)) { printf("ERR"); return; } sm9_z256_twist_point_sub(&R, &P, &Q); }
	else if (!strcmp(op, "dbl") && nw == 3) { if (!get_g2(w[2], &P)) { printf("ERR"); return; } sm9_z256_twist_point_dbl(&R, &P); }
	else if (!strcmp(op, "oct") && nw == 3) {
		buf_t b = hex2buf(w[2]); uint8_t *o = malloc(129); int ok;
		memset(o, 0, 129); memcpy(o, b.p, b.n < 129 ? b.n : 129);
		ok = sm9_z256_twist_point_from_uncompressed_octets(&R, o) == 1; free(o); free(b.p);
		if (!ok) { printf("ERR"); return; }
	}
	else { printf("ERR bad-op"); return; }
	put_g2(&R);
}

/* ---- algebraic laws on the implementation alone; prints OK or FAIL <what> */
static const uint8_t NM2[32] = {0xb6,0x40,0x00,0x00,0x02,0xa3,0xa6,0xf1,0xd6,0x03,0xab,0x4f,0xf5,0x8e,0xc7,0x44,
	0x49,0xf2,0x93,0x4b,0x18,0xea,0x8b,0xee,0xe5,0x6e,0xe1,0x9c,0xd6,0x9e,0xcf,0x23};
static int pow_ok(const sm9_z256_t k) {     /* sm9_z256_fp12_pow asserts k < N-1 */
	sm9_z256_t m; sm9_z256_from_bytes(m, NM2); return sm9_z256_cmp(k, m) <= 0;
}
static void do_law(size_t nw, char **w) {
	const char *op = w[1];
	sm9_z256_t a, b, c, ab; SM9_Z256_POINT A, A2, A3; SM9_Z256_TWIST_POINT B, B2, B3;
	sm9_z256_fp12_t e1, e2, e3, g;
	if (nw >= 3 && strcmp(op, "frob") && !get_z(w[2], a)) { printf("ERR"); return; }
	if (nw >= 4 && strcmp(op, "frob") && strcmp(op, "keyext") && !get_z(w[3], b)) { printf("ERR"); return; }
	if (nw >= 5 && strcmp(op, "frob") && !get_z(w[4], c)) { printf("ERR"); return; }
	if (!strcmp(op, "bilin") && nw == 4) {           /* e([a]P1,[b]P2) = e(P1,P2)^(ab) = e([ab]P1,P2) = e(P1,[ab]P2) */
		sm9_z256_point_mul(&A, a, sm9_z256_generator());
		sm9_z256_twist_point_mul_generator(&B, b);
		if (sm9_z256_point_is_at_infinity(&A) || sm9_z256_twist_point_is_at_infinity(&B)) { printf("SKIP"); return; }
		sm9_z256_pairing(e1, &B, &A);
		sm9_z256_pairing(g, sm9_z256_twist_generator(), sm9_z256_generator());
		sm9_z256_modn_mul(ab, a, b);
		if (!pow_ok(ab) || sm9_z256_is_zero(ab)) { printf("SKIP"); return; }
		sm9_z256_fp12_pow(e2, g, ab);
		if (!fp12_same(e1, e2)) { printf("FAIL e(aP,bQ)!=g^ab"); return; }
		sm9_z256_point_mul(&A2, ab, sm9_z256_generator());
		sm9_z256_pairing(e3, sm9_z256_twist_generator(), &A2);
		if (!fp12_same(e1, e3)) { printf("FAIL e(aP,bQ)!=e(abP,Q)"); return; }
		sm9_z256_twist_point_mul_generator(&B2, ab);
		sm9_z256_pairing(e3, &B2, sm9_z256_generator());
		if (!fp12_same(e1, e3)) { printf("FAIL e(aP,bQ)!=e(P,abQ)"); return; }
		printf("OK");
	} else if (!strcmp(op, "addlin") && nw == 5) {   /* e(aP+bP, cQ) = e(aP,cQ) e(bP,cQ);  e(cP, aQ+bQ) likewise */
		sm9_z256_fp12_t f1, f2;
		sm9_z256_point_mul(&A, a, sm9_z256_generator()); sm9_z256_point_mul(&A2, b, sm9_z256_generator());
		sm9_z256_point_add(&A3, &A, &A2);
		sm9_z256_twist_point_mul_generator(&B, c);
		if (sm9_z256_point_is_at_infinity(&A) || sm9_z256_point_is_at_infinity(&A2) || sm9_z256_point_is_at_infinity(&A3)
			|| sm9_z256_twist_point_is_at_infinity(&B)) { printf("SKIP"); return; }
		sm9_z256_pairing(e1, &B, &A3); sm9_z256_pairing(f1, &B, &A); sm9_z256_pairing(f2, &B, &A2);
		sm9_z256_fp12_mul(e2, f1, f2);
		if (!fp12_same(e1, e2)) { printf("FAIL left-additivity"); return; }
		sm9_z256_twist_point_mul_generator(&B, a); sm9_z256_twist_point_mul_generator(&B2, b);
		sm9_z256_twist_point_add_full(&B3, &B, &B2);
		sm9_z256_point_mul(&A, c, sm9_z256_generator());
		if (sm9_z256_twist_point_is_at_infinity(&B) || sm9_z256_twist_point_is_at_infinity(&B2) || sm9_z256_twist_point_is_at_infinity(&B3)
			|| sm9_z256_point_is_at_infinity(&A)) { printf("SKIP"); return; }
		sm9_z256_pairing(e1, &B3, &A); sm9_z256_pairing(f1, &B, &A); sm9_z256_pairing(f2, &B2, &A);
		sm9_z256_fp12_mul(e2, f1, f2);
		if (!fp12_same(e1, e2)) { printf("FAIL right-additivity"); return; }
		printf("OK");
	} else if (!strcmp(op, "nondeg") && nw == 2) {   /* e(P1,P2) is neither 1 nor 0 */
		sm9_z256_pairing(g, sm9_z256_twist_generator(), sm9_z256_generator());
		if (fp12_is_one(g) || fp12_is_zero_(g)) { printf("FAIL degenerate"); return; }
		printf("OK");
	} else if (!strcmp(op, "orderN") && nw == 4) {   /* e([a]P1,[b]P2)^N = 1, computed as g^(N-2) g g */
		sm9_z256_t nm2; sm9_z256_from_bytes(nm2, NM2);
		sm9_z256_point_mul(&A, a, sm9_z256_generator()); sm9_z256_twist_point_mul_generator(&B, b);
		if (sm9_z256_point_is_at_infinity(&A) || sm9_z256_twist_point_is_at_infinity(&B)) { printf("SKIP"); return; }
		sm9_z256_pairing(g, &B, &A);
		sm9_z256_fp12_pow(e1, g, nm2); sm9_z256_fp12_mul(e1, e1, g); sm9_z256_fp12_mul(e1, e1, g);
		if (!fp12_is_one(e1)) { printf("FAIL e^N!=1"); return; }
		if (fp12_is_one(g)) { printf("FAIL e=1"); return; }
		printf("OK");
	} else if (!strcmp(op, "gtpow") && nw == 4) {    /* (g^a)^b = g^(ab mod N), g^a g^b = g^(a+b mod N) */
		sm9_z256_t s;
		sm9_z256_pairing(g, sm9_z256_twist_generator(), sm9_z256_generator());
		sm9_z256_modn_mul(ab, a, b); sm9_z256_modn_add(s, a, b);
		if (!pow_ok(a) || !pow_ok(b) || !pow_ok(ab) || !pow_ok(s)) { printf("SKIP"); return; }
		sm9_z256_fp12_pow(e1, g, a); sm9_z256_fp12_pow(e2, e1, b); sm9_z256_fp12_pow(e3, g, ab);
		if (!fp12_same(e2, e3)) { printf("FAIL (g^a)^b"); return; }
		sm9_z256_fp12_pow(e2, g, b); sm9_z256_fp12_mul(e2, e1, e2); sm9_z256_fp12_pow(e3, g, s);
		if (!fp12_same(e2, e3)) { printf("FAIL g^a*g^b"); return; }
		printf("OK");
	} else if (!strcmp(op, "powsplit") && nw == 3) { /* g^k = prod_i (g^(limb_i))^(2^(64 i)), the 2^64-th powers by explicit squarings */
		sm9_z256_t li; int i, j;
		sm9_z256_pairing(g, sm9_z256_twist_generator(), sm9_z256_generator());
		if (!pow_ok(a)) { printf("SKIP"); return; }
		sm9_z256_fp12_pow(e1, g, a);
		sm9_z256_fp12_set_one(e2);
		for (i = 3; i >= 0; i--) {
			for (j = 0; j < 64; j++) sm9_z256_fp12_sqr(e2, e2);
			li[0] = a[i]; li[1] = li[2] = li[3] = 0;
			sm9_z256_fp12_pow(e3, g, li); sm9_z256_fp12_mul(e2, e2, e3);
		}
		if (!fp12_same(e1, e2)) { printf("FAIL g^k != limbwise"); return; }
		printf("OK");
	} else if (!strcmp(op, "frob") && nw == 4) {     /* Frobenius maps are ring homomorphisms and compose */
		sm9_z256_fp12_t x, y, t1, t2, t3;
		if (!get_fp12(w[2], x) || !get_fp12(w[3], y)) { printf("ERR"); return; }
		sm9_z256_fp12_mul(t1, x, y); sm9_z256_fp12_frobenius(t1, t1);
		sm9_z256_fp12_frobenius(t2, x); sm9_z256_fp12_frobenius(t3, y); sm9_z256_fp12_mul(t2, t2, t3);
		if (!fp12_same(t1, t2)) { printf("FAIL frob(xy)"); return; }
		sm9_z256_fp12_add(t1, x, y); sm9_z256_fp12_frobenius(t1, t1);
		sm9_z256_fp12_frobenius(t2, x); sm9_z256_fp12_frobenius(t3, y); sm9_z256_fp12_add(t2, t2, t3);
		if (!fp12_same(t1, t2)) { printf("FAIL frob(x+y)"); return; }
		sm9_z256_fp12_frobenius(t1, x); sm9_z256_fp12_frobenius(t1, t1); sm9_z256_fp12_frobenius2(t2, x);
		if (!fp12_same(t1, t2)) { printf("FAIL frob.frob!=frob2"); return; }
		sm9_z256_fp12_frobenius(t1, t2); sm9_z256_fp12_frobenius3(t3, x);
		if (!fp12_same(t1, t3)) { printf("FAIL frob.frob2!=frob3"); return; }
		sm9_z256_fp12_frobenius3(t1, t3); sm9_z256_fp12_frobenius6(t2, x);
		if (!fp12_same(t1, t2)) { printf("FAIL frob3.frob3!=frob6"); return; }
		sm9_z256_fp12_frobenius6(t1, t2);
		if (!fp12_same(t1, x)) { printf("FAIL frob6.frob6!=id"); return; }
		printf("OK");
	} else if (!strcmp(op, "keyext") && nw == 4) {   /* extracted keys satisfy the pairing key equations */
		SM9_SIGN_MASTER_KEY ms; SM9_SIGN_KEY sk; SM9_ENC_MASTER_KEY me; SM9_ENC_KEY ek; sm9_z256_t h1;
		buf_t id = hex2buf(w[3]); SM9_Z256_TWIST_POINT Pt; SM9_Z256_POINT Q;
		sm9_z256_copy(ms.ks, a); sm9_z256_twist_point_mul_generator(&ms.Ppubs, a);
		if (sm9_sign_master_key_extract_key(&ms, (char *)id.p, id.n, &sk) != 1) { printf("FAIL extract-sign"); free(id.p); return; }
		sm9_z256_hash1(h1, (char *)id.p, id.n, SM9_HID_SIGN);
		sm9_z256_twist_point_mul_generator(&Pt, h1); sm9_z256_twist_point_add_full(&Pt, &Pt, &ms.Ppubs);
		sm9_z256_pairing(e1, &Pt, &sk.ds); sm9_z256_pairing(e2, &ms.Ppubs, sm9_z256_generator());
		if (!fp12_same(e1, e2)) { printf("FAIL e(ds,[h1]P2+Ppubs)!=e(P1,Ppubs)"); free(id.p); return; }
		sm9_z256_copy(me.ke, a); sm9_z256_point_mul_generator(&me.Ppube, a);
		if (sm9_enc_master_key_extract_key(&me, (char *)id.p, id.n, &ek) != 1) { printf("FAIL extract-enc"); free(id.p); return; }
		sm9_z256_hash1(h1, (char *)id.p, id.n, SM9_HID_ENC);
		sm9_z256_point_mul(&Q, h1, sm9_z256_generator()); sm9_z256_point_add(&Q, &Q, &me.Ppube);
		sm9_z256_pairing(e1, &ek.de, &Q); sm9_z256_pairing(e2, sm9_z256_twist_generator(), &me.Ppube);
		if (!fp12_same(e1, e2)) { printf("FAIL e([h1]P1+Ppube,de)!=e(Ppube,P2)"); free(id.p); return; }
		free(id.p); printf("OK");
	} else printf("ERR bad-op");
}

/* ---- scheme round trips under scripted entropy */
static buf_t ENT;
static void script(const char *hex) { free(ENT.p); ENT = hex2buf(hex); ent_script(ENT.p, ENT.n, -1); }
static int verify_der(const SM9_SIGN_MASTER_KEY *mpk, const uint8_t *id, size_t idlen, const uint8_t *m, size_t mlen,
	const uint8_t *sig, size_t siglen) {
	SM9_SIGN_CTX c; uint8_t *s = malloc(siglen ? siglen : 1), *mm = malloc(mlen ? mlen : 1), *ii = malloc(idlen ? idlen : 1); int r;
	memcpy(s, sig, siglen); memcpy(mm, m, mlen); memcpy(ii, id, idlen);
	sm9_verify_init(&c); sm9_verify_update(&c, mm, mlen);
	r = sm9_verify_finish(&c, s, siglen, mpk, (char *)ii, idlen);
	free(s); free(mm); free(ii); return r;
}
/* sign <ks> <id> <msg> <entropy> <flipbits comma list | ->  */
static void do_sign(size_t nw, char **w) {
	SM9_SIGN_MASTER_KEY ms; SM9_SIGN_KEY key; SM9_SIGN_CTX c; sm9_z256_t ks;
	buf_t id, m; uint8_t *sig = malloc(SM9_SIGNATURE_SIZE + 8); size_t siglen = 0; int r, ok, wid, wmsg, acc = 0, nf = 0;
	if (nw != 6 || !get_z(w[1], ks)) { printf("ERR"); free(sig); return; }
	id = hex2buf(w[2]); m = hex2buf(w[3]);
	sm9_z256_copy(ms.ks, ks); sm9_z256_twist_point_mul_generator(&ms.Ppubs, ks);
	if (sm9_sign_master_key_extract_key(&ms, (char *)id.p, id.n, &key) != 1) { printf("ERR extract"); goto end; }
	script(w[4]);
	sm9_sign_init(&c); sm9_sign_update(&c, m.p, m.n);
	r = sm9_sign_finish(&c, &key, sig, &siglen);
	if (r != 1) { printf("ERR sign"); goto end; }
	ok = verify_der(&ms, id.p, id.n, m.p, m.n, sig, siglen);
	{ /* other identity: last byte changed, and one byte appended */
	  uint8_t *id2 = malloc(id.n + 1); memcpy(id2, id.p, id.n); id2[id.n] = 0x41;
	  wid = verify_der(&ms, id2, id.n + 1, m.p, m.n, sig, siglen) == 1;
	  if (id.n) { id2[id.n - 1] ^= 1; wid |= verify_der(&ms, id2, id.n, m.p, m.n, sig, siglen) == 1; }
	  free(id2); }
	{ uint8_t *m2 = malloc(m.n + 1); memcpy(m2, m.p, m.n); m2[m.n] = 0;
	  wmsg = verify_der(&ms, id.p, id.n, m2, m.n + 1, sig, siglen) == 1;
	  if (m.n) { m2[0] ^= 0x80; wmsg |= verify_der(&ms, id.p, id.n, m2, m.n, sig, siglen) == 1; }
	  free(m2); }
	if (strcmp(w[5], "-")) {
		char *save = NULL, *t;
		for (t = strtok_r(w[5], ",", &save); t; t = strtok_r(NULL, ",", &save)) {
			size_t bit = strtoul(t, NULL, 10); if (bit >= siglen * 8) continue;
			sig[bit / 8] ^= (uint8_t)(1u << (bit % 8));
			if (verify_der(&ms, id.p, id.n, m.p, m.n, sig, siglen) == 1) acc++;
			sig[bit / 8] ^= (uint8_t)(1u << (bit % 8)); nf++;
		}
	}
	printf("sig="); puthex(sig, siglen); printf(" ok=%d wrongid=%d wrongmsg=%d flips=%d/%d draws=%ld", ok, wid, wmsg, acc, nf, ent.draws);
end:
	free(sig); free(id.p); free(m.p);
}
/* verifyraw <ks> <id> <msg> <h 64hex> <S x||y 128hex>: verify a hand-built signature (h, S) */
static void do_verifyraw(size_t nw, char **w) {
	SM9_SIGN_MASTER_KEY ms; SM9_SIGNATURE sg; sm9_z256_t ks; buf_t id, m; uint8_t *sig = malloc(SM9_SIGNATURE_SIZE + 8), *q = sig; size_t siglen = 0;
	if (nw != 6 || !get_z(w[1], ks) || !get_z(w[4], sg.h) || !get_g1(w[5], &sg.S)) { printf("ERR"); free(sig); return; }
	id = hex2buf(w[2]); m = hex2buf(w[3]);
	sm9_z256_copy(ms.ks, ks); sm9_z256_twist_point_mul_generator(&ms.Ppubs, ks);
	if (sm9_signature_to_der(&sg, &q, &siglen) != 1) printf("ERR der");
	else printf("%d", verify_der(&ms, id.p, id.n, m.p, m.n, sig, siglen));
	free(sig); free(id.p); free(m.p);
}
/* enc <ke> <id> <msg> <entropy> <flipbits>  */
static void do_enc(size_t nw, char **w) {
	SM9_ENC_MASTER_KEY me; SM9_ENC_KEY key, key2; sm9_z256_t ke; buf_t id, m;
	uint8_t *ct = malloc(SM9_MAX_CIPHERTEXT_SIZE + 16), *out = malloc(SM9_MAX_PLAINTEXT_SIZE + 1); size_t ctlen = 0, outlen = 0;
	int r, dec, wid, acc = 0, nf = 0;
	if (nw != 6 || !get_z(w[1], ke)) { printf("ERR"); free(ct); free(out); return; }
	id = hex2buf(w[2]); m = hex2buf(w[3]);
	sm9_z256_copy(me.ke, ke); sm9_z256_point_mul(&me.Ppube, ke, sm9_z256_generator());
	if (sm9_enc_master_key_extract_key(&me, (char *)id.p, id.n, &key) != 1) { printf("ERR extract"); goto end; }
	script(w[4]);
	r = sm9_encrypt(&me, (char *)id.p, id.n, m.p, m.n, ct, &ctlen);
	if (r != 1) { printf("ERR encrypt"); goto end; }
	r = sm9_decrypt(&key, (char *)id.p, id.n, ct, ctlen, out, &outlen);
	dec = (r == 1 && outlen == m.n && memcmp(out, m.p, m.n) == 0);
	{ /* the key of another identity must not decrypt; nor the right key under another identity string */
	  uint8_t *id2 = malloc(id.n + 1); memcpy(id2, id.p, id.n); id2[id.n] = 0x42;
	  wid = 0;
	  if (sm9_enc_master_key_extract_key(&me, (char *)id2, id.n + 1, &key2) == 1)
		wid |= sm9_decrypt(&key2, (char *)id2, id.n + 1, ct, ctlen, out, &outlen) == 1;
	  wid |= sm9_decrypt(&key, (char *)id2, id.n + 1, ct, ctlen, out, &outlen) == 1;
	  free(id2); }
	if (strcmp(w[5], "-")) {
		char *save = NULL, *t;
		for (t = strtok_r(w[5], ",", &save); t; t = strtok_r(NULL, ",", &save)) {
			size_t bit = strtoul(t, NULL, 10); if (bit >= ctlen * 8) continue;
			ct[bit / 8] ^= (uint8_t)(1u << (bit % 8));
			if (sm9_decrypt(&key, (char *)id.p, id.n, ct, ctlen, out, &outlen) == 1) acc++;
			ct[bit / 8] ^= (uint8_t)(1u << (bit % 8)); nf++;
		}
	}
	printf("ct="); puthex(ct, ctlen); printf(" dec=%d wrongid=%d flips=%d/%d draws=%ld", dec, wid, acc, nf, ent.draws);
end:
	free(ct); free(out); free(id.p); free(m.p);
}
/* exch <ke> <idA> <idB> <entropyA> <entropyB> <klen> */
static void do_exch(size_t nw, char **w) {
	SM9_EXCH_MASTER_KEY me; SM9_EXCH_KEY kA, kB; sm9_z256_t ke, rA; buf_t idA, idB; SM9_Z256_POINT RA, RB;
	size_t klen; uint8_t *skA, *skB; int r1, r2, r3;
	if (nw != 7 || !get_z(w[1], ke)) { printf("ERR"); return; }
	idA = hex2buf(w[2]); idB = hex2buf(w[3]); klen = strtoul(w[6], NULL, 10);
	skA = malloc(klen ? klen : 1); skB = malloc(klen ? klen : 1);
	sm9_z256_copy(me.ke, ke); sm9_z256_point_mul(&me.Ppube, ke, sm9_z256_generator());
	if (sm9_exch_master_key_extract_key(&me, (char *)idA.p, idA.n, &kA) != 1
		|| sm9_exch_master_key_extract_key(&me, (char *)idB.p, idB.n, &kB) != 1) { printf("ERR extract"); goto end; }
	script(w[4]);
	r1 = sm9_exch_step_1A(&me, (char *)idB.p, idB.n, &RA, rA);
	script(w[5]);
	r2 = r1 == 1 ? sm9_exch_step_1B(&me, (char *)idA.p, idA.n, (char *)idB.p, idB.n, &kB, &RA, &RB, skB, klen) : -1;
	r3 = r2 == 1 ? sm9_exch_step_2A(&me, (char *)idA.p, idA.n, (char *)idB.p, idB.n, &kA, rA, &RA, &RB, skA, klen) : -1;
	if (r1 != 1 || r2 != 1 || r3 != 1) { printf("ERR exch %d %d %d", r1, r2, r3); goto end; }
	{ /* independent recomputation: g1 = e(Ppube,P2)^rA, g2 = e(RB,deA), g3 = g2^rA; sk = KDF(IDA||IDB||RA||RB||g1||g2||g3) */
	  sm9_z256_fp12_t G1, G2, G3; uint8_t *g = malloc(384), *ta = malloc(65), *tb = malloc(65), *ref = malloc(klen ? klen : 1); SM3_KDF_CTX kc; SM9_Z256_POINT Pp;
	  sm9_z256_point_mul(&Pp, ke, sm9_z256_generator());
	  sm9_z256_pairing(G1, sm9_z256_twist_generator(), &Pp); sm9_z256_fp12_pow(G1, G1, rA);
	  sm9_z256_pairing(G2, &kA.de, &RB); sm9_z256_fp12_pow(G3, G2, rA);
	  sm9_z256_point_to_uncompressed_octets(&RA, ta); sm9_z256_point_to_uncompressed_octets(&RB, tb);
	  sm3_kdf_init(&kc, klen); sm3_kdf_update(&kc, idA.p, idA.n); sm3_kdf_update(&kc, idB.p, idB.n);
	  sm3_kdf_update(&kc, ta + 1, 64); sm3_kdf_update(&kc, tb + 1, 64);
	  sm9_z256_fp12_to_bytes(G1, g); sm3_kdf_update(&kc, g, 384);
	  sm9_z256_fp12_to_bytes(G2, g); sm3_kdf_update(&kc, g, 384);
	  sm9_z256_fp12_to_bytes(G3, g); sm3_kdf_update(&kc, g, 384);
	  sm3_kdf_finish(&kc, ref);
	  printf("skref=%d ", memcmp(ref, skA, klen) == 0);
	  free(g); free(ta); free(tb); free(ref); }
	printf("skeq=%d RA=", memcmp(skA, skB, klen) == 0); put_g1(&RA); printf(" RB="); put_g1(&RB);
	printf(" rA="); put_z(rA); printf(" sk="); puthex(skA, klen);
end:
	free(skA); free(skB); free(idA.p); free(idB.p);
}

/* ---- DER layer of the wire objects ------------------------------------------------------- */
/* dersig <hex>: sm9_signature_from_der alone -> "<ret> <consumed> <h> <S>" */
static void do_dersig(char **w) {
	buf_t b = hex2buf(w[1]); const uint8_t *p = b.p; size_t n = b.n; SM9_SIGNATURE sg; int r;
	r = sm9_signature_from_der(&sg, &p, &n);
	if (r == 1) { printf("1 %zu ", b.n - n); put_z(sg.h); printf(" "); put_g1(&sg.S); }
	else printf("%d", r < 0 ? -1 : r);
	free(b.p);
}
/* derct <hex>: sm9_ciphertext_from_der alone -> "<ret> <consumed> <C1> <c3> <c2>" */
static void do_derct(char **w) {
	buf_t b = hex2buf(w[1]); const uint8_t *p = b.p, *c2, *c3; size_t n = b.n, c2len; SM9_Z256_POINT C1; int r;
	r = sm9_ciphertext_from_der(&C1, &c2, &c2len, &c3, &p, &n);
	if (r == 1) { printf("1 %zu ", b.n - n); put_g1(&C1); printf(" "); puthex(c3, 32); printf(" "); puthex(c2, c2len); }
	else printf("%d", r < 0 ? -1 : r);
	free(b.p);
}
/* sigapi <ks> <id> <msg> <sig>: sm9_verify_finish on arbitrary signature bytes */
static void do_sigapi(size_t nw, char **w) {
	static SM9_SIGN_MASTER_KEY ms; static char last[80] = ""; sm9_z256_t ks; buf_t id, m, sg;
	if (nw != 5 || !get_z(w[1], ks)) { printf("ERR"); return; }
	if (strcmp(last, w[1])) { sm9_z256_copy(ms.ks, ks); sm9_z256_twist_point_mul_generator(&ms.Ppubs, ks); strncpy(last, w[1], 79); }
	id = hex2buf(w[2]); m = hex2buf(w[3]); sg = hex2buf(w[4]);
	printf("%d", verify_der(&ms, id.p, id.n, m.p, m.n, sg.p, sg.n));
	free(id.p); free(m.p); free(sg.p);
}
/* ctapi <ke> <id> <ct>: sm9_decrypt on arbitrary ciphertext bytes -> "<ret> <plaintext>" */
static void do_ctapi(size_t nw, char **w) {
	static SM9_ENC_MASTER_KEY me; static SM9_ENC_KEY key; static char last[8300] = ""; sm9_z256_t ke; buf_t id, ct;
	uint8_t *out; size_t outlen = 0; int r; char tag[8300];
	if (nw != 4 || !get_z(w[1], ke) || strlen(w[2]) > 8000) { printf("ERR"); return; }
	id = hex2buf(w[2]); ct = hex2buf(w[3]);
	snprintf(tag, sizeof(tag), "%s %s", w[1], w[2]);
	if (strcmp(last, tag)) {
		sm9_z256_copy(me.ke, ke); sm9_z256_point_mul(&me.Ppube, ke, sm9_z256_generator());
		if (sm9_enc_master_key_extract_key(&me, (char *)id.p, id.n, &key) != 1) { printf("ERR extract"); free(id.p); free(ct.p); return; }
		strcpy(last, tag);
	}
	out = malloc(SM9_MAX_PLAINTEXT_SIZE + 1);
	r = sm9_decrypt(&key, (char *)id.p, id.n, ct.p, ct.n, out, &outlen);
	printf("%d", r < 0 ? -1 : r); if (r == 1) { printf(" "); puthex(out, outlen); }
	free(out); free(id.p); free(ct.p);
}
/* key objects.  kinds: smsk smpk skey emsk empk ekey */
typedef union { SM9_SIGN_MASTER_KEY sm; SM9_SIGN_KEY sk; SM9_ENC_MASTER_KEY em; SM9_ENC_KEY ek; } anykey_t;
static int key_to_der(const char *kind, const anykey_t *k, uint8_t **p, size_t *len) {
	if (!strcmp(kind, "smsk")) return sm9_sign_master_key_to_der(&k->sm, p, len);
	if (!strcmp(kind, "smpk")) return sm9_sign_master_public_key_to_der(&k->sm, p, len);
	if (!strcmp(kind, "skey")) return sm9_sign_key_to_der(&k->sk, p, len);
	if (!strcmp(kind, "emsk")) return sm9_enc_master_key_to_der(&k->em, p, len);
	if (!strcmp(kind, "empk")) return sm9_enc_master_public_key_to_der(&k->em, p, len);
	if (!strcmp(kind, "ekey")) return sm9_enc_key_to_der(&k->ek, p, len);
	return -2;
}
static int key_from_der(const char *kind, anykey_t *k, const uint8_t **p, size_t *len) {
	if (!strcmp(kind, "smsk")) return sm9_sign_master_key_from_der(&k->sm, p, len);
	if (!strcmp(kind, "smpk")) return sm9_sign_master_public_key_from_der(&k->sm, p, len);
	if (!strcmp(kind, "skey")) return sm9_sign_key_from_der(&k->sk, p, len);
	if (!strcmp(kind, "emsk")) return sm9_enc_master_key_from_der(&k->em, p, len);
	if (!strcmp(kind, "empk")) return sm9_enc_master_public_key_from_der(&k->em, p, len);
	if (!strcmp(kind, "ekey")) return sm9_enc_key_from_der(&k->ek, p, len);
	return -2;
}
static int key_make(const char *kind, const sm9_z256_t k, const buf_t *id, anykey_t *out) {
	memset(out, 0, sizeof(*out));
	if (kind[0] == 's') {
		SM9_SIGN_MASTER_KEY ms; sm9_z256_copy(ms.ks, k); sm9_z256_twist_point_mul_generator(&ms.Ppubs, k);
		if (!strcmp(kind, "skey")) return sm9_sign_master_key_extract_key(&ms, (char *)id->p, id->n, &out->sk);
		out->sm = ms; return 1;
	} else {
		SM9_ENC_MASTER_KEY me; sm9_z256_copy(me.ke, k); sm9_z256_point_mul(&me.Ppube, k, sm9_z256_generator());
		if (!strcmp(kind, "ekey")) return sm9_enc_master_key_extract_key(&me, (char *)id->p, id->n, &out->ek);
		out->em = me; return 1;
	}
}
/* keyenc <kind> <k> <id>: DER of the object */
static void do_keyenc(size_t nw, char **w) {
	anykey_t k; sm9_z256_t s; buf_t id; uint8_t *buf = malloc(512), *p = buf; size_t len = 0;
	if (nw != 4 || !get_z(w[2], s)) { printf("ERR"); free(buf); return; }
	id = hex2buf(w[3]);
	if (key_make(w[1], s, &id, &k) != 1 || key_to_der(w[1], &k, &p, &len) != 1) printf("ERR"); else puthex(buf, len);
	free(buf); free(id.p);
}
/* keyder <kind> <hex>: X_from_der -> "<ret> <consumed> <re-encoding>" */
static void do_keyder(size_t nw, char **w) {
	anykey_t k; buf_t b; const uint8_t *p; size_t n; int r;
	if (nw != 3) { printf("ERR"); return; }
	b = hex2buf(w[2]); p = b.p; n = b.n; memset(&k, 0, sizeof(k));
	r = key_from_der(w[1], &k, &p, &n);
	if (r == 1) {
		uint8_t *buf = malloc(512), *q = buf; size_t len = 0;
		printf("1 %zu ", b.n - n);
		if (key_to_der(w[1], &k, &q, &len) == 1) puthex(buf, len); else printf("REENC-FAIL");
		free(buf);
	} else printf("%d", r < 0 ? -1 : r);
	free(b.p);
}
/* keyinfo <kind> <k> <id> <pass> <entropy>: password-encrypted PKCS#8 blob (kinds smsk skey emsk ekey) */
static int info_enc(const char *kind, const anykey_t *k, const char *pass, uint8_t **p, size_t *len) {
	if (!strcmp(kind, "smsk")) return sm9_sign_master_key_info_encrypt_to_der(&k->sm, pass, p, len);
	if (!strcmp(kind, "skey")) return sm9_sign_key_info_encrypt_to_der(&k->sk, pass, p, len);
	if (!strcmp(kind, "emsk")) return sm9_enc_master_key_info_encrypt_to_der(&k->em, pass, p, len);
	if (!strcmp(kind, "ekey")) return sm9_enc_key_info_encrypt_to_der(&k->ek, pass, p, len);
	return -2;
}
static int info_dec(const char *kind, anykey_t *k, const char *pass, const uint8_t **p, size_t *len) {
	if (!strcmp(kind, "smsk")) return sm9_sign_master_key_info_decrypt_from_der(&k->sm, pass, p, len);
	if (!strcmp(kind, "skey")) return sm9_sign_key_info_decrypt_from_der(&k->sk, pass, p, len);
	if (!strcmp(kind, "emsk")) return sm9_enc_master_key_info_decrypt_from_der(&k->em, pass, p, len);
	if (!strcmp(kind, "ekey")) return sm9_enc_key_info_decrypt_from_der(&k->ek, pass, p, len);
	return -2;
}
static void do_keyinfo(size_t nw, char **w) {
	anykey_t k; sm9_z256_t s; buf_t id; uint8_t *buf = malloc(SM9_MAX_ENCED_PRIVATE_KEY_INFO_SIZE), *p = buf; size_t len = 0;
	if (nw != 6 || !get_z(w[2], s)) { printf("ERR"); free(buf); return; }
	id = hex2buf(w[3]); script(w[5]);
	if (key_make(w[1], s, &id, &k) != 1 || info_enc(w[1], &k, w[4], &p, &len) != 1) printf("ERR"); else puthex(buf, len);
	free(buf); free(id.p);
}
/* keyinfodec <kind> <pass> <hex>: -> "<ret> <consumed> <plain DER of the recovered key>" */
static void do_keyinfodec(size_t nw, char **w) {
	anykey_t k; buf_t b; const uint8_t *p; size_t n; int r;
	if (nw != 4) { printf("ERR"); return; }
	b = hex2buf(w[3]); p = b.p; n = b.n; memset(&k, 0, sizeof(k));
	r = info_dec(w[1], &k, w[2], &p, &n);
	if (r == 1) {
		uint8_t *buf = malloc(512), *q = buf; size_t len = 0;
		printf("1 %zu ", b.n - n);
		if (key_to_der(w[1], &k, &q, &len) == 1) puthex(buf, len); else printf("REENC-FAIL");
		free(buf);
	} else printf("%d", r < 0 ? -1 : r);
	free(b.p);
}

/* ---- predicates of the tower: pred <lvl> <op> a [b] -> 0|1 */
static void do_pred(size_t nw, char **w) {
	const char *lv = w[1], *op = w[2];
	if (!strcmp(lv, "fp2")) {
		sm9_z256_fp2_t a, b;
		if (!get_fp2(w[3], a) || (nw == 5 && !get_fp2(w[4], b))) { printf("ERR"); return; }
		if (!strcmp(op, "equ") && nw == 5) printf("%d", sm9_z256_fp2_equ(a, b) != 0);
		else if (!strcmp(op, "iszero")) printf("%d", sm9_z256_fp2_is_zero(a) != 0);
		else if (!strcmp(op, "isone")) printf("%d", sm9_z256_fp2_is_one(a) != 0);
		else printf("ERR bad-op");
	} else if (!strcmp(lv, "fp4")) {
		sm9_z256_fp4_t a, b;
		if (!get_fp4(w[3], a) || (nw == 5 && !get_fp4(w[4], b))) { printf("ERR"); return; }
		if (!strcmp(op, "equ") && nw == 5) printf("%d", sm9_z256_fp4_equ(a, b) != 0);
		else if (!strcmp(op, "iszero")) printf("%d", sm9_z256_fp4_is_zero(a) != 0);
		else printf("ERR bad-op");
	} else if (!strcmp(lv, "fp12")) {
		sm9_z256_fp12_t a, b;
		if (!get_fp12(w[3], a) || nw != 5 || !get_fp12(w[4], b)) { printf("ERR"); return; }
		if (!strcmp(op, "equ")) printf("%d", sm9_z256_fp12_equ(a, b) != 0); else printf("ERR bad-op");
	} else if (!strcmp(lv, "g1") && nw == 5) {          /* point_equ on two encodings */
		SM9_Z256_POINT P, Q; if (!get_g1(w[3], &P) || !get_g1(w[4], &Q)) { printf("ERR"); return; }
		printf("%d", sm9_z256_point_equ(&P, &Q) != 0);
	} else if (!strcmp(lv, "g2") && nw == 5) {
		SM9_Z256_TWIST_POINT P, Q; if (!get_g2(w[3], &P) || !get_g2(w[4], &Q)) { printf("ERR"); return; }
		printf("%d", sm9_z256_twist_point_equ(&P, &Q) != 0);
	} else printf("ERR bad-op");
}
/* ---- the same group operation on another Jacobian representative (X j^2 : Y j^3 : Z j) */
static void g1_scale(SM9_Z256_POINT *P, const sm9_z256_t j) {
	sm9_z256_t j2, j3; sm9_z256_modp_mont_sqr(j2, j); sm9_z256_modp_mont_mul(j3, j2, j);
	sm9_z256_modp_mont_mul(P->X, P->X, j2); sm9_z256_modp_mont_mul(P->Y, P->Y, j3); sm9_z256_modp_mont_mul(P->Z, P->Z, j);
}
static void g2_scale(SM9_Z256_TWIST_POINT *P, const sm9_z256_fp2_t j) {
	sm9_z256_fp2_t j2, j3; sm9_z256_fp2_sqr(j2, j); sm9_z256_fp2_mul(j3, j2, j);
	sm9_z256_fp2_mul(P->X, P->X, j2); sm9_z256_fp2_mul(P->Y, P->Y, j3); sm9_z256_fp2_mul(P->Z, P->Z, j);
}
/* jac g1 mul k P j | jac g1 add P Q j1 j2 | jac g1 dbl P j | jac g2 mul k P j(fp2) | jac g2 add P Q j1 j2 | jac g2 dbl P j */
static void do_jac(size_t nw, char **w) {
	const char *op = w[2];
	if (!strcmp(w[1], "g1")) {
		SM9_Z256_POINT P, Q, R; sm9_z256_t k, j1, j2;
		if (!strcmp(op, "mul") && nw == 6) { if (!get_z(w[3], k) || !get_g1(w[4], &P) || !get_fp(w[5], j1)) { printf("ERR"); return; } g1_scale(&P, j1); sm9_z256_point_mul(&R, k, &P); }
		else if ((!strcmp(op, "add") || !strcmp(op, "sub")) && nw == 7) { if (!get_g1(w[3], &P) || !get_g1(w[4], &Q) || !get_fp(w[5], j1) || !get_fp(w[6], j2)) { printf("ERR"); return; }
			g1_scale(&P, j1); g1_scale(&Q, j2); if (op[0] == 'a') sm9_z256_point_add(&R, &P, &Q); else sm9_z256_point_sub(&R, &P, &Q); }
		else if (!strcmp(op, "dbl") && nw == 5) { if (!get_g1(w[3], &P) || !get_fp(w[4], j1)) { printf("ERR"); return; } g1_scale(&P, j1); sm9_z256_point_dbl(&R, &P); }
		else { printf("ERR bad-op"); return; }
		put_g1(&R);
	} else {
		SM9_Z256_TWIST_POINT P, Q, R; sm9_z256_t k; sm9_z256_fp2_t j1, j2;
		if (!strcmp(op, "mul") && nw == 6) { if (!get_z(w[3], k) || !get_g2(w[4], &P) || !get_fp2(w[5], j1)) { printf("ERR"); return; } g2_scale(&P, j1); sm9_z256_twist_point_mul(&R, k, &P); }
		else if ((!strcmp(op, "add") || !strcmp(op, "sub")) && nw == 7) { if (!get_g2(w[3], &P) || !get_g2(w[4], &Q) || !get_fp2(w[5], j1) || !get_fp2(w[6], j2)) { printf("ERR"); return; }
			g2_scale(&P, j1); g2_scale(&Q, j2); if (op[0] == 'a') sm9_z256_twist_point_add_full(&R, &P, &Q); else sm9_z256_twist_point_sub(&R, &P, &Q); }
		else if (!strcmp(op, "dbl") && nw == 5) { if (!get_g2(w[3], &P) || !get_fp2(w[4], j1)) { printf("ERR"); return; } g2_scale(&P, j1); sm9_z256_twist_point_dbl(&R, &P); }
		else { printf("ERR bad-op"); return; }
		put_g2(&R);
	}
}
/* ---- key containers through every import interface ------------------------------------- */
static int lenient_g1(const char *hex, SM9_Z256_POINT *P) {           /* coordinates taken as given: NO curve check */
	if (strlen(hex) != 128) return 0;
	{ char a[65], b[65]; memcpy(a, hex, 64); a[64] = 0; memcpy(b, hex + 64, 64); b[64] = 0;
	  if (!get_fp(a, P->X) || !get_fp(b, P->Y)) return 0; }
	sm9_z256_copy(P->Z, sm9_z256_generator()->Z); return 1;
}
static int lenient_g2(const char *hex, SM9_Z256_TWIST_POINT *P) {
	char a[129], b[129]; if (strlen(hex) != 256) return 0;
	memcpy(a, hex, 128); a[128] = 0; memcpy(b, hex + 128, 128); b[128] = 0;
	if (!get_fp2(a, P->X) || !get_fp2(b, P->Y)) return 0;
	sm9_z256_fp2_set_one(P->Z); return 1;
}
static int info_enc_pem(const char *kind, const anykey_t *k, const char *pass, FILE *fp) {
	if (!strcmp(kind, "smsk")) return sm9_sign_master_key_info_encrypt_to_pem(&k->sm, pass, fp);
	if (!strcmp(kind, "skey")) return sm9_sign_key_info_encrypt_to_pem(&k->sk, pass, fp);
	if (!strcmp(kind, "emsk")) return sm9_enc_master_key_info_encrypt_to_pem(&k->em, pass, fp);
	if (!strcmp(kind, "ekey")) return sm9_enc_key_info_encrypt_to_pem(&k->ek, pass, fp);
	return -2;
}
static int info_dec_pem(const char *kind, anykey_t *k, const char *pass, FILE *fp) {
	if (!strcmp(kind, "smsk")) return sm9_sign_master_key_info_decrypt_from_pem(&k->sm, pass, fp);
	if (!strcmp(kind, "skey")) return sm9_sign_key_info_decrypt_from_pem(&k->sk, pass, fp);
	if (!strcmp(kind, "emsk")) return sm9_enc_master_key_info_decrypt_from_pem(&k->em, pass, fp);
	if (!strcmp(kind, "ekey")) return sm9_enc_key_info_decrypt_from_pem(&k->ek, pass, fp);
	return -2;
}
static const char *pem_label(const char *kind) {
	if (!strcmp(kind, "smsk")) return PEM_SM9_SIGN_MASTER_KEY;
	if (!strcmp(kind, "smpk")) return PEM_SM9_SIGN_MASTER_PUBLIC_KEY;
	if (!strcmp(kind, "skey")) return PEM_SM9_SIGN_PRIVATE_KEY;
	if (!strcmp(kind, "emsk")) return PEM_SM9_ENC_MASTER_KEY;
	if (!strcmp(kind, "empk")) return PEM_SM9_ENC_MASTER_PUBLIC_KEY;
	return PEM_SM9_ENC_PRIVATE_KEY;
}
static void put_key_result(const char *kind, int r, const anykey_t *k) {
	if (r == 1) {
		uint8_t *buf = malloc(512), *q = buf; size_t len = 0;
		printf("1 ");
		if (key_to_der(kind, k, &q, &len) == 1) puthex(buf, len); else printf("REENC-FAIL");
		free(buf);
	} else printf("%d", r < 0 ? -1 : r);
}
/* keyimp <kind> <info|pem> <k|-> <g1|-> <g2|->: a private container whose fields are taken as given
   (no curve check on the way in) is encrypted by the library and loaded back */
static void do_keyimp(size_t nw, char **w) {
	anykey_t k, k2; const char *kind = w[1]; sm9_z256_t s; SM9_Z256_POINT g1; SM9_Z256_TWIST_POINT g2; int r = -1;
	if (nw != 6) { printf("ERR"); return; }
	memset(&k, 0, sizeof(k)); memset(&k2, 0, sizeof(k2));
	if (strcmp(w[3], "-") && !get_z(w[3], s)) { printf("ERR"); return; }
	if (strcmp(w[4], "-") && !lenient_g1(w[4], &g1)) { printf("ERR"); return; }
	if (strcmp(w[5], "-") && !lenient_g2(w[5], &g2)) { printf("ERR"); return; }
	if (!strcmp(kind, "smsk")) { sm9_z256_copy(k.sm.ks, s); k.sm.Ppubs = g2; }
	else if (!strcmp(kind, "skey")) { k.sk.ds = g1; k.sk.Ppubs = g2; }
	else if (!strcmp(kind, "emsk")) { sm9_z256_copy(k.em.ke, s); k.em.Ppube = g1; }
	else if (!strcmp(kind, "ekey")) { k.ek.de = g2; k.ek.Ppube = g1; }
	else { printf("ERR"); return; }
	if (!strcmp(w[2], "info")) {
		uint8_t *buf = malloc(SM9_MAX_ENCED_PRIVATE_KEY_INFO_SIZE), *p = buf; const uint8_t *cp = buf; size_t len = 0;
		if (info_enc(kind, &k, "pw", &p, &len) != 1) { printf("ERR enc"); free(buf); return; }
		r = info_dec(kind, &k2, "pw", &cp, &len); if (r == 1 && len != 0) r = -1;
		free(buf);
	} else {
		FILE *fp = tmpfile(); if (!fp) { printf("ERR tmpfile"); return; }
		if (info_enc_pem(kind, &k, "pw", fp) != 1) { printf("ERR enc"); fclose(fp); return; }
		rewind(fp); r = info_dec_pem(kind, &k2, "pw", fp); fclose(fp);
	}
	put_key_result(kind, r, &k2);
}
/* keypem <loader kind> <pass|-> <der hex>: arbitrary bytes wrapped under the loader's PEM label */
static void do_keypem(size_t nw, char **w) {
	anykey_t k; const char *kind = w[1]; buf_t b; FILE *fp; int r;
	if (nw != 4) { printf("ERR"); return; }
	b = hex2buf(w[3]); memset(&k, 0, sizeof(k)); fp = tmpfile();
	if (!fp || pem_write(fp, pem_label(kind), b.p, b.n) != 1) { printf("ERR pem"); free(b.p); if (fp) fclose(fp); return; }
	rewind(fp);
	if (!strcmp(kind, "smpk")) r = sm9_sign_master_public_key_from_pem(&k.sm, fp);
	else if (!strcmp(kind, "empk")) r = sm9_enc_master_public_key_from_pem(&k.em, fp);
	else r = info_dec_pem(kind, &k, w[2], fp);
	fclose(fp); put_key_result(kind, r, &k); free(b.p);
}

/* ---- Jacobian formulas on raw coordinates: jm g1|g2 <op> coords... -> "X Y Z" | 0|1 */
static int get_j1(char **w, SM9_Z256_POINT *P) { return get_fp(w[0], P->X) && get_fp(w[1], P->Y) && get_fp(w[2], P->Z); }
static void put_j1(const SM9_Z256_POINT *P) {
	sm9_z256_t t; sm9_z256_modp_from_mont(t, P->X); put_z(t); printf(" "); sm9_z256_modp_from_mont(t, P->Y); put_z(t); printf(" "); sm9_z256_modp_from_mont(t, P->Z); put_z(t);
}
static int get_j2(char **w, SM9_Z256_TWIST_POINT *P) { return get_fp2(w[0], P->X) && get_fp2(w[1], P->Y) && get_fp2(w[2], P->Z); }
static void put_j2(const SM9_Z256_TWIST_POINT *P) { put_fp2(P->X); printf(" "); put_fp2(P->Y); printf(" "); put_fp2(P->Z); }
static void do_jm(size_t nw, char **w) {
	const char *op = w[2];
	if (!strcmp(w[1], "g1")) {
		SM9_Z256_POINT P, Q, R; sm9_z256_t k;
		if (!strcmp(op, "dbl") && nw == 6) { if (!get_j1(w + 3, &P)) { printf("ERR"); return; } sm9_z256_point_dbl(&R, &P); put_j1(&R); }
		else if (!strcmp(op, "neg") && nw == 6) { if (!get_j1(w + 3, &P)) { printf("ERR"); return; } sm9_z256_point_neg(&R, &P); put_j1(&R); }
		else if ((!strcmp(op, "add") || !strcmp(op, "sub")) && nw == 9) { if (!get_j1(w + 3, &P) || !get_j1(w + 6, &Q)) { printf("ERR"); return; }
			if (op[0] == 'a') sm9_z256_point_add(&R, &P, &Q); else sm9_z256_point_sub(&R, &P, &Q); put_j1(&R); }
		else if (!strcmp(op, "addaff") && nw == 8) { SM9_Z256_AFFINE_POINT A;
			if (!get_j1(w + 3, &P) || !get_fp(w[6], A.X) || !get_fp(w[7], A.Y)) { printf("ERR"); return; } sm9_z256_point_add_affine(&R, &P, &A); put_j1(&R); }
		else if (!strcmp(op, "mul") && nw == 7) { if (!get_z(w[3], k) || !get_j1(w + 4, &P)) { printf("ERR"); return; } sm9_z256_point_mul(&R, k, &P); put_j1(&R); }
		else if (!strcmp(op, "oncurve") && nw == 6) { if (!get_j1(w + 3, &P)) { printf("ERR"); return; } printf("%d", sm9_z256_point_is_on_curve(&P) != 0); }
		else if (!strcmp(op, "equ") && nw == 9) { if (!get_j1(w + 3, &P) || !get_j1(w + 6, &Q)) { printf("ERR"); return; } printf("%d", sm9_z256_point_equ(&P, &Q) != 0); }
		else printf("ERR bad-op");
	} else {
		SM9_Z256_TWIST_POINT P, Q, R; sm9_z256_t k;
		if (!strcmp(op, "dbl") && nw == 6) { if (!get_j2(w + 3, &P)) { printf("ERR"); return; } sm9_z256_twist_point_dbl(&R, &P); put_j2(&R); }
		else if (!strcmp(op, "neg") && nw == 6) { if (!get_j2(w + 3, &P)) { printf("ERR"); return; } sm9_z256_twist_point_neg(&R, &P); put_j2(&R); }
		else if ((!strcmp(op, "add") || !strcmp(op, "addfull") || !strcmp(op, "sub")) && nw == 9) { if (!get_j2(w + 3, &P) || !get_j2(w + 6, &Q)) { printf("ERR"); return; }
			if (!strcmp(op, "add")) sm9_z256_twist_point_add(&R, &P, &Q); else if (op[0] == 'a') sm9_z256_twist_point_add_full(&R, &P, &Q); else sm9_z256_twist_point_sub(&R, &P, &Q);
			put_j2(&R); }
		else if (!strcmp(op, "mul") && nw == 7) { if (!get_z(w[3], k) || !get_j2(w + 4, &P)) { printf("ERR"); return; } sm9_z256_twist_point_mul(&R, k, &P); put_j2(&R); }
		else if (!strcmp(op, "oncurve") && nw == 6) { if (!get_j2(w + 3, &P)) { printf("ERR"); return; } printf("%d", sm9_z256_twist_point_is_on_curve(&P) != 0); }
		else printf("ERR bad-op");
	}
}
/* ---- 256-bit integer helpers: z256 <op> a [b] */
static void do_z256(size_t nw, char **w) {
	sm9_z256_t a, b, r; const char *op = w[1];
	if (!get_z(w[2], a) || (nw >= 4 && strcmp(op, "booth") && strcmp(op, "cmov") && !get_z(w[3], b))) { printf("ERR"); return; }
	if (!strcmp(op, "add") && nw == 4) { uint64_t c = sm9_z256_add(r, a, b); printf("%d ", (int)c); put_z(r); }
	else if (!strcmp(op, "sub") && nw == 4) { uint64_t c = sm9_z256_sub(r, a, b); printf("%d ", (int)c); put_z(r); }
	else if (!strcmp(op, "mul") && nw == 4) { uint64_t m[8]; uint8_t *o = malloc(64); int i; sm9_z256_mul(m, a, b);
		for (i = 0; i < 8; i++) { int j; for (j = 0; j < 8; j++) o[8 * i + j] = (uint8_t)(m[7 - i] >> (56 - 8 * j)); } puthex(o, 64); free(o); }
	else if (!strcmp(op, "cmp") && nw == 4) printf("%d", sm9_z256_cmp(a, b));
	else if (!strcmp(op, "equ") && nw == 4) printf("%d", (int)sm9_z256_equ(a, b));
	else if (!strcmp(op, "iszero") && nw == 3) printf("%d", (int)sm9_z256_is_zero(a));
	else if (!strcmp(op, "booth") && nw == 5) printf("%d", sm9_z256_get_booth(a, (uint64_t)atoi(w[3]), atoi(w[4])));
	else if (!strcmp(op, "bits") && nw == 3) { char *bits = malloc(256); uint8_t *o = malloc(32); int i; sm9_z256_to_bits(a, bits); memset(o, 0, 32);
		for (i = 0; i < 256; i++) { if (bits[i] == '1') o[i / 8] |= (uint8_t)(0x80 >> (i % 8)); else if (bits[i] != '0') { printf("BADCHAR"); } } puthex(o, 32); free(bits); free(o); }
	else if (!strcmp(op, "cmov") && nw == 5) { if (!get_z(w[3], b)) { printf("ERR"); return; } sm9_z256_copy(r, a); sm9_z256_copy_conditional(r, b, (uint64_t)atoi(w[4])); put_z(r); }
	else if (!strcmp(op, "hex") && nw == 3) { /* to_hex then from_hex and equ_hex */
		char *hx = malloc(65); sm9_z256_t c; int r1, r2; sm9_z256_to_hex(a, hx); hx[64] = 0; r1 = sm9_z256_from_hex(c, hx); r2 = sm9_z256_equ_hex(a, hx);
		printf("%s %d %d ", hx, r1, r2); put_z(c); free(hx); }
	else printf("ERR bad-op");
}
/* ---- hex forms of tower elements and points: hexrt <lvl> <bytes hex>: from_bytes -> to_hex -> from_hex -> to_bytes */
static void do_hexrt(size_t nw, char **w) {
	const char *lv = w[1]; (void)nw;
	if (!strcmp(lv, "fp2")) { sm9_z256_fp2_t a, b; char *h = malloc(130); if (!get_fp2(w[2], a)) { printf("ERR"); free(h); return; }
		sm9_z256_fp2_to_hex(a, h); h[129] = 0; if (sm9_z256_fp2_from_hex(b, h) != 1) printf("ERR fromhex"); else put_fp2(b); free(h); }
	else if (!strcmp(lv, "fp4")) { sm9_z256_fp4_t a, b; char *h = malloc(260); if (!get_fp4(w[2], a)) { printf("ERR"); free(h); return; }
		sm9_z256_fp4_to_hex(a, h); h[259] = 0; if (sm9_z256_fp4_from_hex(b, h) != 1) printf("ERR fromhex"); else put_fp4(b); free(h); }
	else if (!strcmp(lv, "fp12")) { sm9_z256_fp12_t a, b; char *h = malloc(780); if (!get_fp12(w[2], a)) { printf("ERR"); free(h); return; }
		sm9_z256_fp12_to_hex(a, h); h[779] = 0; if (sm9_z256_fp12_from_hex(b, h) != 1) printf("ERR fromhex"); else put_fp12(b); free(h); }
	else if (!strcmp(lv, "g1")) { SM9_Z256_POINT P; char *h = malloc(130); if (strlen(w[2]) != 128) { printf("ERR"); free(h); return; }
		memcpy(h, w[2], 64); h[64] = '\n'; memcpy(h + 65, w[2] + 64, 64); h[129] = 0;
		if (sm9_z256_point_from_hex(&P, h) != 1) printf("ERR"); else { printf("%d ", sm9_z256_point_is_on_curve(&P) != 0); put_j1(&P); } free(h); }
	else if (!strcmp(lv, "g2")) { SM9_Z256_TWIST_POINT P; char *h = malloc(260); int i; if (strlen(w[2]) != 256) { printf("ERR"); free(h); return; }
		for (i = 0; i < 4; i++) { memcpy(h + 65 * i, w[2] + 64 * i, 64); h[65 * i + 64] = '\n'; } h[259] = 0;
		sm9_z256_twist_point_from_hex(&P, h); printf("%d ", sm9_z256_twist_point_is_on_curve(&P) != 0); put_j2(&P); free(h); }
	else printf("ERR bad-op");
}
/* ---- entropy consumers: rnd <what> <entropy> */
static void do_rnd(size_t nw, char **w) {
	const char *what = w[1]; int r; (void)nw;
	script(w[2]);
	if (!strcmp(what, "range")) { sm9_z256_t x, n; if (!get_z(w[3], n)) { printf("ERR"); return; } r = sm9_z256_rand_range(x, n); printf("%d %ld", r, ent.draws); if (r == 1) { printf(" "); put_z(x); } }
	else if (!strcmp(what, "rangefail")) { sm9_z256_t x, n; if (!get_z(w[3], n)) { printf("ERR"); return; } ent.fail_at = atoi(w[4]); r = sm9_z256_rand_range(x, n); printf("%d %ld", r, ent.draws); }
	else if (!strcmp(what, "fp2")) { sm9_z256_fp2_t a; r = sm9_z256_fp2_rand(a); printf("%d %ld", r, ent.draws); if (r == 1) { printf(" "); put_z(a[0]); put_z(a[1]); } }
	else if (!strcmp(what, "fp4")) { sm9_z256_fp4_t a; r = sm9_z256_fp4_rand(a); printf("%d %ld", r, ent.draws); if (r == 1) { printf(" "); put_z(a[0][0]); put_z(a[0][1]); put_z(a[1][0]); put_z(a[1][1]); } }
	else if (!strcmp(what, "fp12")) { sm9_z256_fp12_t a; int i, j; r = sm9_z256_fp12_rand(a); printf("%d %ld", r, ent.draws); if (r == 1) printf(" "); if (r == 1) for (i = 0; i < 3; i++) for (j = 0; j < 2; j++) { put_z(a[i][j][0]); put_z(a[i][j][1]); } }
	else if (!strcmp(what, "smsk")) { SM9_SIGN_MASTER_KEY k; r = sm9_sign_master_key_generate(&k); printf("%d %ld", r, ent.draws); if (r == 1) { printf(" "); put_z(k.ks); printf(" "); put_g2(&k.Ppubs); } }
	else if (!strcmp(what, "emsk")) { SM9_ENC_MASTER_KEY k; r = sm9_enc_master_key_generate(&k); printf("%d %ld", r, ent.draws); if (r == 1) { printf(" "); put_z(k.ke); printf(" "); put_g1(&k.Ppube); } }
	else printf("ERR bad-op");
}
/* extract <s|e> <k> <id>: the identity key point (ds on G1 / de on G2), or ERR when t1 = 0 */
static void do_extract(size_t nw, char **w) {
	sm9_z256_t k; buf_t id; if (nw != 4 || !get_z(w[2], k)) { printf("ERR"); return; }
	id = hex2buf(w[3]);
	if (w[1][0] == 's') { SM9_SIGN_MASTER_KEY ms; SM9_SIGN_KEY sk; sm9_z256_copy(ms.ks, k); sm9_z256_twist_point_mul_generator(&ms.Ppubs, k);
		if (sm9_sign_master_key_extract_key(&ms, (char *)id.p, id.n, &sk) != 1) printf("ERR"); else put_g1(&sk.ds); }
	else if (w[1][0] == 'e') { SM9_ENC_MASTER_KEY me; SM9_ENC_KEY ek; sm9_z256_copy(me.ke, k); sm9_z256_point_mul(&me.Ppube, k, sm9_z256_generator());
		if (sm9_enc_master_key_extract_key(&me, (char *)id.p, id.n, &ek) != 1) printf("ERR"); else put_g2(&ek.de); }
	else { SM9_EXCH_MASTER_KEY me; SM9_EXCH_KEY ek; sm9_z256_copy(me.ke, k); sm9_z256_point_mul(&me.Ppube, k, sm9_z256_generator());
		if (sm9_exch_master_key_extract_key(&me, (char *)id.p, id.n, &ek) != 1) printf("ERR"); else put_g2(&ek.de); }
	free(id.p);
}

/* prn <what> <k> <id> [<der hex>]: the printers write the public fields (upper-case hex of the first point octets must appear) */
static void do_prn(size_t nw, char **w) {
	FILE *fp = tmpfile(); char *txt; long n; int r = -9; anykey_t k; sm9_z256_t s; buf_t id; const char *what = w[1];
	if (!fp || nw < 4 || !get_z(w[2], s)) { printf("ERR"); if (fp) fclose(fp); return; }
	id = hex2buf(w[3]);
	if (!strcmp(what, "sig") || !strcmp(what, "ct")) { buf_t d = hex2buf(w[4]);
		r = what[0] == 's' ? sm9_signature_print(fp, 0, 0, "LBL", d.p, d.n) : sm9_ciphertext_print(fp, 0, 0, "LBL", d.p, d.n); free(d.p); }
	else if (!strcmp(what, "z")) r = sm9_z256_print(fp, 0, 0, "LBL", s);
	else if (!strcmp(what, "g1")) { SM9_Z256_POINT P; sm9_z256_point_mul(&P, s, sm9_z256_generator()); r = sm9_z256_point_print(fp, 0, 0, "LBL", &P); }
	else if (!strcmp(what, "g2")) { SM9_Z256_TWIST_POINT P; sm9_z256_twist_point_mul_generator(&P, s); r = sm9_z256_twist_point_print(fp, 0, 0, "LBL", &P); }
	else if (key_make(what, s, &id, &k) == 1) {
		if (!strcmp(what, "smsk")) r = sm9_sign_master_key_print(fp, 0, 0, "LBL", &k.sm);
		else if (!strcmp(what, "smpk")) r = sm9_sign_master_public_key_print(fp, 0, 0, "LBL", &k.sm);
		else if (!strcmp(what, "skey")) r = sm9_sign_key_print(fp, 0, 0, "LBL", &k.sk);
		else if (!strcmp(what, "emsk")) r = sm9_enc_master_key_print(fp, 0, 0, "LBL", &k.em);
		else if (!strcmp(what, "empk")) r = sm9_enc_master_public_key_print(fp, 0, 0, "LBL", &k.em);
		else if (!strcmp(what, "ekey")) r = sm9_enc_key_print(fp, 0, 0, "LBL", &k.ek);
	}
	n = ftell(fp); rewind(fp); txt = malloc((size_t)n + 1); n = (long)fread(txt, 1, (size_t)n, fp); txt[n] = 0; fclose(fp);
	{ long i; for (i = 0; i < n; i++) if (txt[i] == '\n' || txt[i] == ' ' || txt[i] == '\t') txt[i] = '_'; }
	printf("%d %ld %s", r, n, n < 3000 ? txt : "LONG");
	free(txt); free(id.p);
}

static void handle(size_t nw, char **w) {
	if (!strcmp(w[0], "fp") && (nw == 3 || nw == 4)) do_fp(nw, w);
	else if (!strcmp(w[0], "fp2") && (nw == 3 || nw == 4)) do_fp2(nw, w);
	else if (!strcmp(w[0], "fp4") && (nw == 3 || nw == 4)) do_fp4(nw, w);
	else if (!strcmp(w[0], "fp12") && nw >= 3) do_fp12(nw, w);
	else if (!strcmp(w[0], "modn") && (nw == 3 || nw == 4)) do_modn(nw, w);
	else if (!strcmp(w[0], "fromhash") && nw == 2) {
		buf_t b; sm9_z256_t h; if (strlen(w[1]) != 80) { printf("ERR"); return; }
		b = hex2buf(w[1]); sm9_z256_modn_from_hash(h, b.p); put_z(h); free(b.p);
	}
	else if (!strcmp(w[0], "hash1") && nw == 3) {
		buf_t id = hex2buf(w[1]); sm9_z256_t h; sm9_z256_hash1(h, (char *)id.p, id.n, (uint8_t)atoi(w[2])); put_z(h); free(id.p);
	}
	else if (!strcmp(w[0], "g1")) do_g1(nw, w);
	else if (!strcmp(w[0], "g2")) do_g2(nw, w);
	else if (!strcmp(w[0], "law") && nw >= 2) do_law(nw, w);
	else if (!strcmp(w[0], "kat") && nw == 3) {        /* kat <ks> <expected>: e(P1, [ks]P2) */
		sm9_z256_t ks; SM9_Z256_TWIST_POINT Q; sm9_z256_fp12_t g;
		if (!get_z(w[1], ks)) { printf("ERR"); return; }
		sm9_z256_twist_point_mul_generator(&Q, ks); sm9_z256_pairing(g, &Q, sm9_z256_generator()); put_fp12(g);
	}
	else if (!strcmp(w[0], "prn")) do_prn(nw, w);
	else if (!strcmp(w[0], "jm") && nw >= 6) do_jm(nw, w);
	else if (!strcmp(w[0], "z256") && nw >= 3) do_z256(nw, w);
	else if (!strcmp(w[0], "hexrt") && nw == 3) do_hexrt(nw, w);
	else if (!strcmp(w[0], "rnd") && nw >= 3) do_rnd(nw, w);
	else if (!strcmp(w[0], "extract")) do_extract(nw, w);
	else if (!strcmp(w[0], "misc") && nw == 2) {
		if (!strcmp(w[1], "consts")) { sm9_z256_t t; uint8_t *o = malloc(32); int i; const uint64_t *q = sm9_256_prime();
			for (i = 0; i < 4; i++) t[i] = q[i]; put_z(t); printf(" "); q = sm9_z256_order(); for (i = 0; i < 4; i++) t[i] = q[i]; put_z(t); printf(" ");
			put_g1(sm9_z256_generator()); printf(" "); put_g2(sm9_z256_twist_generator()); free(o); }
		else if (!strcmp(w[1], "oid")) printf("%s %s %s %d %d %d %d", sm9_oid_name(OID_sm9sign), sm9_oid_name(OID_sm9encrypt), sm9_oid_name(OID_sm9keyagreement),
			sm9_oid_from_name("sm9") == OID_sm9, sm9_oid_from_name("sm9sign") == OID_sm9sign, sm9_oid_from_name("nosuch") == OID_undef, sm9_exch_step_2B());
		else printf("ERR bad-op");
	}
	else if (!strcmp(w[0], "pred") && nw >= 4) do_pred(nw, w);
	else if (!strcmp(w[0], "jac") && nw >= 5) do_jac(nw, w);
	else if (!strcmp(w[0], "keyimp")) do_keyimp(nw, w);
	else if (!strcmp(w[0], "keypem")) do_keypem(nw, w);
	else if (!strcmp(w[0], "sizes")) printf("SM9_MAX_PRIVATE_KEY_SIZE=%d SM9_SIGN_MASTER_KEY_MAX_SIZE=%d SM9_SIGN_KEY_SIZE=%d SM9_ENC_MASTER_KEY_MAX_SIZE=%d SM9_ENC_KEY_SIZE=%d SM9_MAX_PRIVATE_KEY_INFO_SIZE=%d SM9_MAX_ENCED_PRIVATE_KEY_INFO_SIZE=%d",
		(int)SM9_MAX_PRIVATE_KEY_SIZE, (int)SM9_SIGN_MASTER_KEY_MAX_SIZE, (int)SM9_SIGN_KEY_SIZE, (int)SM9_ENC_MASTER_KEY_MAX_SIZE, (int)SM9_ENC_KEY_SIZE, (int)SM9_MAX_PRIVATE_KEY_INFO_SIZE, (int)SM9_MAX_ENCED_PRIVATE_KEY_INFO_SIZE);
	else if (!strcmp(w[0], "dersig") && nw == 2) do_dersig(w);
	else if (!strcmp(w[0], "derct") && nw == 2) do_derct(w);
	else if (!strcmp(w[0], "sigapi")) do_sigapi(nw, w);
	else if (!strcmp(w[0], "ctapi")) do_ctapi(nw, w);
	else if (!strcmp(w[0], "keyenc")) do_keyenc(nw, w);
	else if (!strcmp(w[0], "keyder")) do_keyder(nw, w);
	else if (!strcmp(w[0], "keyinfo")) do_keyinfo(nw, w);
	else if (!strcmp(w[0], "keyinfodec")) do_keyinfodec(nw, w);
	else if (!strcmp(w[0], "sign")) do_sign(nw, w);
	else if (!strcmp(w[0], "verifyraw")) do_verifyraw(nw, w);
	else if (!strcmp(w[0], "enc")) do_enc(nw, w);
	else if (!strcmp(w[0], "exch")) do_exch(nw, w);
	else printf("ERR bad-op");
}

int main(void) { quiet_stderr(); main_loop(handle); return 0; }
