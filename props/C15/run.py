"""C15 — certificates, requests and CRLs parse as issued and verify only as issued; CRL lookup."""
import json, os
from vlib import core, devdiff
from vlib.core import hexs

NOW = 1700000000
UTC_MAX = 2524607999
GEN_MAX = 253402300799
OID = {"C": "0603550406", "ST": "0603550408", "L": "0603550407", "O": "060355040a", "OU": "060355040b", "CN": "0603550403"}


def der_len(n):
    if n < 128:
        return bytes([n])
    b = n.to_bytes((n.bit_length() + 7) // 8, "big")
    return bytes([0x80 + len(b)]) + b


def tlv(t, c):
    return bytes([t]) + der_len(len(c)) + c


def name_der(r, nattr=None):
    """random RDNSequence content (python-side DER, handed to the library as the raw name)"""
    out = b""
    for _ in range(nattr if nattr is not None else r.range(1, 4)):
        ty = r.choice(["O", "OU", "CN", "L", "ST"])
        tag = r.choice([12, 19, 12, 30])
        n = r.range(1, 20)
        val = bytes(r.choice(b"abcdefghijklmnopqrstuvwxyzABCDEFG 0123456789") for _ in range(n if tag != 30 else 2 * n))
        out += tlv(0x31, tlv(0x30, bytes.fromhex(OID[ty]) + tlv(tag, val)))
    return out


def ext_der(r):
    """generic Extension: SEQUENCE { OID, [BOOLEAN], OCTET STRING }"""
    oid = bytes.fromhex(r.choice(["0603551d13", "0603551d0f", "0603551d25", "0603551d0e", "06052a03040506"]))
    crit = r.choice([b"", b"\x01\x01\xff", b"\x01\x01\x00"])
    return tlv(0x30, oid + crit + tlv(0x04, r.bytes(r.range(1, 40))))


def serial_class(s):
    if len(s) > 1 and s[0] == 0:
        return "leading-zero"
    if s[0] & 0x80:
        return "high-bit"
    return "plain"


def gen(ctx):
    r = ctx.rng
    thorough = ctx.tier == "thorough"
    cases = []
    add = lambda line, cell: cases.append((line, cell))
    CA = name_der(r, 2)
    EE = name_der(r, 2)

    def serials():
        out = [bytes([1]), bytes([0x7f]), bytes([0x80]), bytes([0xff] * 20), bytes([0, 1]), bytes([0, 0x80]), bytes([0, 0, 5]), bytes([0]), bytes([0, 0])]
        for n in range(1, 21):
            s = bytearray(r.bytes(n)); s[0] = s[0] or 1
            out.append(bytes(s))
        return out

    def cert_line(ver, serial, issuer, nb, na, subject, key, iu, su, ex, sk):
        return "%d %s %s %d %d %s %d %s %s %s %d" % (ver, hexs(serial), hexs(issuer), nb, na, hexs(subject), key, hexs(iu), hexs(su), hexs(ex), sk)

    # --- certificates: serial lengths 1..20 and shapes
    for s in serials():
        add("cert " + cert_line(2, s, CA, NOW, NOW + 86400, EE, 2, b"", b"", b"", 1), "cert:serial:len%d:%s" % (min(len(s), 3) if len(s) < 20 else 20, serial_class(s)))
    add("cert " + cert_line(2, b"", CA, NOW, NOW + 86400, EE, 2, b"", b"", b"", 1), "cert:serial:empty")
    # versions
    for ver in (-1, 0, 1, 2, 3, 7):
        add("cert " + cert_line(ver, b"\x05", CA, NOW, NOW + 86400, EE, 2, b"", b"", b"", 1), "cert:version:%d" % ver)
    # validity across the UTCTime/GeneralizedTime switch and the ends of the range
    for nb, na in ((0, 1), (0, GEN_MAX), (UTC_MAX - 1, UTC_MAX), (UTC_MAX, UTC_MAX + 1), (UTC_MAX + 1, UTC_MAX + 2), (946684799, 946684800),
                   (NOW, NOW), (NOW + 1, NOW), (GEN_MAX - 1, GEN_MAX), (-1, NOW), (NOW, GEN_MAX + 1), (-2, NOW),
                   (951782400, 951868800), (4107542400, 4107628800), (1709164800, 1709251200)):
        cls = "switch" if nb <= UTC_MAX < na else ("gen" if nb > UTC_MAX else "utc")
        if nb < 0 or na > GEN_MAX:
            cls = "out-of-range"
        elif nb >= na:
            cls = "nb>=na"
        add("cert " + cert_line(2, b"\x05", CA, nb, na, EE, 2, b"", b"", b"", 1), "cert:validity:" + cls)
    for i in range(30 if not thorough else 300):
        nb = r.below(GEN_MAX); na = nb + 1 + r.below(10 ** r.range(1, 9))
        if na > GEN_MAX:
            na = GEN_MAX
        if nb >= na:
            continue
        add("cert " + cert_line(2, b"\x05", CA, nb, na, EE, 2, b"", b"", b"", 1), "cert:validity:random:" + ("switch" if nb <= UTC_MAX < na else ("gen" if nb > UTC_MAX else "utc")))
    # names, unique ids, extensions, keys: random combinations
    for i in range(120 if not thorough else 2000):
        issuer = name_der(r) if r.chance(9, 10) else b""
        subject = name_der(r) if r.chance(9, 10) else b""
        iu = r.bytes(r.range(1, 20)) if r.chance(1, 4) else b""
        su = r.bytes(r.range(1, 20)) if r.chance(1, 4) else b""
        ex = b"".join(ext_der(r) for _ in range(r.range(1, 5))) if r.chance(2, 3) else b""
        if r.chance(1, 10):
            ex = ex + b"".join(ext_der(r) for _ in range(8))      # long form lengths
        s = bytearray(r.bytes(r.range(1, 20))); s[0] = s[0] or 1
        ver = r.choice([2, 2, 2, 1, 0, -1])
        add("cert " + cert_line(ver, bytes(s), issuer, NOW - r.below(10 ** 8), NOW + 1 + r.below(10 ** 8), subject, r.range(1, 4), iu, su, ex, r.range(1, 4)),
            "cert:random:uid%d%d:ext%d:names%d%d" % (bool(iu), bool(su), bool(ex), bool(issuer), bool(subject)))
    # --- requests
    for i in range(40 if not thorough else 400):
        subject = name_der(r) if r.chance(9, 10) else b""
        attrs = b"".join(tlv(0x30, bytes.fromhex("06092a864886f70d01090e") + tlv(0x31, tlv(0x30, ext_der(r)))) for _ in range(r.range(0, 2)))
        ver = 0 if r.chance(5, 6) else r.choice([1, 2, -1, 127, 128, 256])
        add("req %d %s %d %s" % (ver, hexs(subject), r.range(1, 4), hexs(attrs)), "req:ver%s:attrs%d" % ("0" if ver == 0 else "other", bool(attrs)))
    # the subject key object (public part only) and the signing key-pair object are separate arguments of every issuing call:
    # each pairing of the two (certificates and CRLs vary their (key, signer) pair in the cert / crl classes already)
    for k in range(1, 5):
        for sk in range(1, 5):
            add("reqx 0 %s %d %s %d" % (hexs(name_der(r)), k, "-", sk), "req:subject-key-vs-signing-key:%s" % ("same" if k == sk else "different"))
    # --- CRLs
    def entries(n, with_ext=False):
        es = []
        for j in range(n):
            s = bytearray(r.bytes(r.range(1, 20))); s[0] = s[0] or 1
            if r.chance(1, 8):
                s = bytearray(b"\x00") + s
            e = "%s:%d" % (bytes(s).hex(), r.below(GEN_MAX))
            if with_ext and r.chance(1, 2):
                e += ":" + tlv(0x30, bytes.fromhex("0603551d15") + tlv(0x04, bytes([0x0a, 0x01, r.below(10)]))).hex()
            es.append(e)
        return es
    for n in (0, 1, 2, 5, 50) + ((200,) if thorough else ()):
        for ver in (1, 0, -1, 2):
            for nextu in (NOW + 86400, -1, UTC_MAX + 5):
                es = entries(n, with_ext=True)
                ex = ext_der(r) if r.chance(1, 2) else b""
                cell = "crl:ver%d:n%s:next%s:exts%d" % (ver, n if n < 3 else "many", "absent" if nextu < 0 else ("gen" if nextu > UTC_MAX else "utc"), bool(ex))
                if ver == 1 and nextu < 0 and (es or ex):
                    cell = "crl:nextUpdate-absent-before-list"      # x509_time_from_der leaves *tv unset when another tag follows
                add("crl %d %s %d %d %s %s %d" % (ver, hexs(CA), NOW, nextu, ",".join(es) if es else "-", hexs(ex), r.range(1, 4)), cell)
    # --- CRL lookup: 0..50 entries; present / absent / prefix / extension / leading-zero variants
    for n in (0, 1, 2, 3, 10, 50):
        for rep in range(4 if not thorough else 30):
            es = entries(n, with_ext=True) if n else []
            lst = ",".join(es) if es else "-"
            sers = [bytes.fromhex(e.split(":")[0]) for e in es]
            qs = [("absent", bytes([0x77]) + r.bytes(5))]
            if sers:
                k = r.below(len(sers)); s = sers[k]
                canon = s.lstrip(b"\x00") or b"\x00"
                qs += [("present-%s" % ("first" if k == 0 else ("last" if k == len(sers) - 1 else "mid")), canon),
                       ("prefix", canon[:-1] if len(canon) > 1 else canon + b"\x01"), ("extended", canon + b"\x00"),
                       ("leading-zero", b"\x00" + canon), ("as-listed", s)]
                if len(sers) > 1 and r.chance(1, 2):     # duplicate serial: first occurrence wins
                    es2 = list(es); es2.append("%s:%d" % (canon.hex(), 12345)); es2.insert(0, "%s:%d" % (canon.hex(), 54321))
                    add("crlfind %s %s" % (",".join(es2), canon.hex()), "crlfind:duplicate-serial")
            qs.append(("empty-query", b""))
            for nm, q in qs:
                add("crlfind %s %s" % (lst, hexs(q)), "crlfind:n%s:%s" % (n if n < 4 else "many", nm))
    # raw revoked lists with an unparsable element before / after the hit
    def ent(s, d=1600000000):
        gt = b"20200913122640Z"
        return tlv(0x30, tlv(0x02, s) + tlv(0x18, gt))
    good = [ent(bytes([1])), ent(bytes([2, 3])), ent(bytes([4]))]
    for nm, raw, q in (("junk-after-hit", good[0] + good[1] + b"\x30\x03\x02\x01", bytes([2, 3])),
                       ("junk-before-hit", good[0] + b"\x31\x00" + good[1], bytes([2, 3])),
                       ("junk-only", b"\x04\x01\x00", bytes([1])),
                       ("truncated-last", good[0] + good[1][:-2], bytes([9])),
                       ("no-date", good[0] + tlv(0x30, tlv(0x02, bytes([7]))), bytes([7])),
                       ("all-good", b"".join(good), bytes([4])),
                       ("all-good-absent", b"".join(good), bytes([5]))):
        add("crlfindraw %s %s" % (raw.hex(), q.hex()), "crlfindraw:" + nm)
    # --- name builders: every attribute builder x string type
    for ty in ("ST", "L", "O", "OU", "CN"):
        for tag in (12, 19, 20, 28, 30, 22, 4):
            for n in (1, 2, 64, 65, 128, 129):
                val = bytes(r.choice(b"abcdefghijklmnopqrstuvwxyz") for _ in range(n))
                add("name %s:%d:%s" % (ty, tag, val.hex()), "name:%s:tag%d:len%s" % (ty, tag, n if n < 3 else ("<=ub" if n <= (128 if ty in ("ST", "L") else 64) else ">ub")))
    add("name C:19:434e", "name:C:ok"); add("name C:19:434e4e", "name:C:len3"); add("name C:19:43", "name:C:len1")
    add("name DC:22:6578616d706c65", "name:DC:ok"); add("name DC:22:65ff", "name:DC:non-ia5")
    add("name CN:12:610062", "name:CN:embedded-nul"); add("name CN:30:616263", "name:CN:bmp-odd")
    for i in range(30 if not thorough else 300):
        attrs = []
        for ty in ("C", "ST", "L", "O", "OU", "CN", "DC"):
            if r.chance(1, 2):
                if ty == "C":
                    attrs.append("C:19:" + bytes(r.choice(b"ABCDEFGHIJ") for _ in range(2)).hex())
                elif ty == "DC":
                    attrs.append("DC:22:" + bytes(r.choice(b"abcdef.") for _ in range(r.range(1, 12))).hex())
                else:
                    tag = r.choice([12, 19, 30])
                    n = r.range(1, 30)
                    attrs.append("%s:%d:%s" % (ty, tag, bytes(r.choice(b"abcdefgh XYZ") for _ in range(2 * n if tag == 30 else n)).hex()))
        if attrs:
            add("name " + ",".join(attrs), "name:random:%dattrs" % min(len(attrs), 4))
    # --- extension builders x criticality
    for crit in (-1, 0, 1):
        for bits in (-1, 0, 1, 2, 4, 32, 96, 128, 256, 511, 0x40000000):
            add("ext ku %d %d" % (crit, bits), "ext:ku:crit%d:%s" % (crit, "bad" if bits <= 0 else "ok"))
        for ca in (-1, 0, 1):
            for pl in (-1, 0, 1, 6, 127, 128, 255, 256, 70000):
                add("ext bc %d %d %d" % (crit, ca, pl), "ext:bc:crit%d:ca%d:pl%s" % (crit, ca, "absent" if pl < 0 else ("small" if pl < 128 else "large")))
        for n in (0, 15, 16, 20, 32, 64, 65):
            add("ext ski %d %s" % (crit, hexs(r.bytes(n))), "ext:ski:crit%d:len%s" % (crit, "ok" if 16 <= n <= 64 else "bad"))
        for n in (0, 1, 20, 32):
            add("ext aki %d %s" % (crit, hexs(r.bytes(n))), "ext:aki:crit%d:len%s" % (crit, "0" if n == 0 else "n"))
        for l in ("1", "2", "0", "1.2", "0.1.2.3.4.5.6", "3.3", "0.1.2.3.4.5.6.1"):
            add("ext eku %d %s" % (crit, l), "ext:eku:crit%d:n%s" % (crit, "<=7" if l.count(".") < 7 else ">7"))
        for v in (-1, 0, 1, 255, 256):
            add("ext iap %d %d" % (crit, v), "ext:iap:crit%d:%s" % (crit, "bad" if v < 0 else "ok"))

    # --- wave 2: two-pass encoders across the DER length-of-length boundaries -------------------------
    # every extension builder x content lengths around 127/128, 255/256 (and 65535/65536 where the API allows)
    BL = list(range(105, 138)) + list(range(235, 263))
    def bclass(n):
        for lo, hi, nm in ((100, 140, "~128"), (230, 265, "~256"), (65000, 66000, "~65536")):
            if lo <= n <= hi:
                return nm + ("-" if n < (128 if nm == "~128" else 256 if nm == "~256" else 65536) - 4 else ("+" if n > (128 if nm == "~128" else 256 if nm == "~256" else 65536) else "@"))
        return "far"
    okcrit = {"cp": (-1, 1), "pm": (1,), "san": (-1, 0, 1), "ian": (-1, 0), "sda": (-1,), "fcrl": (-1, 1)}
    for kind, crits in okcrit.items():
        for L in BL + [1, 2, 65520, 65529, 65530, 65531, 65535, 65536, 65537]:
            for cr in (crits if L < 1000 else crits[:1]):
                add("extlen %s %d %s" % (kind, cr, hexs(r.bytes(L))), "extlen:%s:crit%d:%s" % (kind, cr, bclass(L)))
        add("extlen %s %d -" % (kind, crits[0]), "extlen:%s:empty" % kind)
        bad = 0 if kind == "pm" else 1
        if bad not in crits:
            add("extlen %s %d %s" % (kind, bad, hexs(r.bytes(127))), "extlen:%s:criticality-refused-by-check" % kind)
    for L in range(14, 68):
        add("extlen ski -1 %s" % hexs(r.bytes(L)), "extlen:ski:len%s" % ("ok" if 16 <= L <= 64 else "bad"))
    for L in BL + [1, 400]:
        add("extlen aki %d %s" % (r.choice([-1, 0]), hexs(r.bytes(L))), "extlen:aki:%s" % bclass(L))
        add("extlen nc %d %s" % (r.choice([-1, 1]), hexs(tlv(0x30, tlv(0x82, bytes(r.choice(b"abcdefgh.") for _ in range(max(1, L - 6))))))), "extlen:nc:%s" % bclass(L))
    for L in list(range(90, 140)) + [1, 180, 200]:
        uri = b"http://" + bytes(r.choice(b"abcdefghijklmnopqrstuvwxyz./") for _ in range(L - 7)) if L > 7 else b"h" * L
        add("extlen crldp %d %s" % (r.choice([-1, 1]), hexs(uri)), "extlen:crldp:%s" % bclass(L))
        add("extlen aia %d %s" % (r.choice([-1, 0]), hexs(uri)), "extlen:aia:%s" % bclass(L))

    def rdn(v):
        return tlv(0x31, tlv(0x30, bytes.fromhex(OID["O"]) + tlv(0x0c, bytes(r.choice(b"abcdefghijklmnopqrstuvwxyz") for _ in range(v)))))
    def name_of_len(L):
        """valid RDNSequence content of exactly L bytes (values <= 64 bytes), or None"""
        out = b""
        while L - len(out) > 75 + 12:
            out += rdn(50)
        rem = L - len(out)
        if rem > 75:                       # two more RDNs
            a = rem // 2; out += rdn(a - 11); rem = L - len(out)
        if rem < 12:
            return None
        out += rdn(rem - 11)
        return out if len(out) == L else None
    def unk_ext_of_len(L):
        """one non-critical extension with an unknown OID, whole Extension TLV exactly L bytes, or None"""
        for p in range(max(0, L - 30), L):
            e = tlv(0x30, bytes.fromhex("06052a03040506") + tlv(0x04, bytes(p)))
            if len(e) == L:
                return e
        return None
    KU = bytes.fromhex("300e0603551d0f0101ff040403020780")
    base = lambda issuer, subject, iu, su, ex: cert_line(2, bytes([1, 2, 3, 4]), issuer, NOW - 1000, NOW + 100000, subject, 2, iu, su, ex, 1)
    for L in BL:
        nm = name_of_len(L)
        if nm:
            add("certck " + base(nm, EE, b"", b"", KU), "certck:issuer-len:%s" % bclass(L))
            add("certck " + base(CA, nm, b"", b"", KU), "certck:subject-len:%s" % bclass(L))
        add("certck " + base(CA, EE, r.bytes(L), b"", KU), "certck:issuer-uid-len:%s" % bclass(L))
        add("certck " + base(CA, EE, b"", r.bytes(L), KU), "certck:subject-uid-len:%s" % bclass(L))
        e = unk_ext_of_len(L - len(KU))
        if e:
            add("certck " + base(CA, EE, b"", b"", e + KU), "certck:exts-len:%s" % bclass(L))
            add("certck " + base(CA, EE, b"", b"", KU + e), "certck:exts-len:%s" % bclass(L))
    # whole TBS length crossing 255/256 and 65535/65536 (the outer SEQUENCE lengths follow)
    small = tlv(0x31, tlv(0x30, bytes.fromhex(OID["CN"]) + tlv(0x0c, b"a")))
    for p in range(0, 70):
        e = tlv(0x30, bytes.fromhex("06052a03040506") + tlv(0x04, bytes(p + 1)))
        add("certck " + cert_line(2, b"\x05", small, NOW - 1000, NOW + 100000, small, 2, b"", b"", e + KU, 1), "certck:tbs-len:~256")
    for p in range(65536 - 290, 65541):        # every enclosing element (OCTET STRING, Extension, SEQUENCE, [3], TBS, Certificate) passes 65535/65536 exactly once
        e = tlv(0x30, bytes.fromhex("06052a03040506") + tlv(0x04, bytes(p)))
        add("certck " + cert_line(2, b"\x05", small, NOW - 1000, NOW + 100000, small, 2, b"", b"", e + KU, 1), "certck:tbs-len:~65536")
    # request attributes and revoked lists at the same boundaries
    for L in BL:
        add("req 0 %s 2 %s" % (hexs(EE), hexs(tlv(0x30, bytes(L - 3)) if L < 131 else tlv(0x30, bytes(L - 4)))), "req:attrs-len:%s" % bclass(L))
        n1 = (L - 24) // 22
        if n1 >= 0:
            es = ["%02x:%d" % (j + 1, 1600000000 + j) for j in range(n1)]
            last = L - 22 * n1                      # entry of 22 + k bytes: serial of 1 + k bytes
            es.append("%s:%d" % ((bytes([0x11]) * (1 + last - 22)).hex(), 1600001000))
            add("crl 1 %s %d %d %s - 1" % (hexs(CA), NOW, NOW + 86400, ",".join(es)), "crl:revoked-len:%s" % bclass(L))
    nbig = 65536 // 22
    for n in (nbig - 2, nbig - 1, nbig, nbig + 1):
        es = ["%04x:%d" % (j + 0x1000, 1600000000) for j in range(n)]
        add("crl 1 %s %d %d %s - 1" % (hexs(CA), NOW, NOW + 86400, ",".join(es)), "crl:revoked-len:~65536")
    # --- signature algorithm identifier as a dimension: inner x outer x signature bits, on certificates, requests, CRLs
    for kind in ("cert", "req", "crl"):
        for inner in ((0, 2, 3, 4) if kind != "req" else (0,)):
            for outer in range(9):
                for mode in ("good", "random", "corrupt"):
                    add("sigalg %s %d %d %s" % (kind, inner, outer, mode), "sigalg:%s:inner%d:outer%d:%s" % (kind, inner, outer, mode))
    # --- x509_cert_check_crl through its own entry point (HTTP transport scripted): clean exactly when fetched, fresh,
    #     same issuer, verifies under the CA and the serial is not listed
    for rep in range(6 if not thorough else 40):
        es = entries(r.choice([0, 1, 3, 10]))
        sers = [bytes.fromhex(e.split(":")[0]) for e in es]
        lst_ = ",".join(es) if es else "-"
        mine = bytes([0x42]) + r.bytes(7)
        listed = (sers[r.below(len(sers))].lstrip(b"\x00") or b"\x00") if sers else None
        for serial, sc in ((mine, "unlisted"), (listed, "listed")):
            if serial is None:
                continue
            variants = [("ca", 1, "fresh", -1, 1, "ok", "good")] + [
                ("other", 1, "fresh", -1, 1, "ok", "other-issuer"), ("ca", 2, "fresh", -1, 1, "ok", "forged-signature"),
                ("ca", 1, "expired", -1, 1, "ok", "expired"), ("ca", 1, "future", -1, 1, "ok", "not-yet"),
                ("ca", 1, "fresh", -1, 0, "ok", "no-distribution-point"), ("ca", 1, "fresh", -1, 1, "fail", "fetch-fails")]
            variants += [("ca", 1, "fresh", f, 1, "ok", "bitflip") for f in (0, 3, 50, 200, 400, 600, 800, 900, 950, 990, 999)]
            for iss, sk, when, flip, dp, fetch, nm in variants:
                add("crlcheck %s %s %s %d %s %d %d %s" % (serial.hex(), lst_, iss, sk, when, flip, dp, fetch), "crlcheck:%s:%s" % (sc, nm))
        if sers:   # prefix / extension of a listed serial is not listed
            canon = sers[0].lstrip(b"\x00") or b"\x00"
            add("crlcheck %s %s ca 1 fresh -1 1 ok" % ((canon + b"\x00").hex(), lst_), "crlcheck:extended-serial")
            if len(canon) > 1:
                add("crlcheck %s %s ca 1 fresh -1 1 ok" % (canon[:-1].hex(), lst_), "crlcheck:prefix-serial")
    # --- issuing functions keep no shared scratch state: two threads, different inputs, results compared with the solo run
    for kind in ("aki", "ski", "eku", "crldp", "aia", "nc", "name"):
        add("threads %s %d" % (kind, 30000 if not thorough else 300000), "threads:%s" % kind)
    # --- buffer reuse: the CA certificate buffer is reloaded in place with a same-length certificate of another name and key
    for order in ("12", "21", "1212", "2121", "1122", "1", "2", "12121212"):
        add("reusebuf %s" % order, "reusebuf:%s" % ("alternating" if len(order) > 1 else "single"))
    # --- wave 5: certificate lists by index / last / count
    for n in (0, 1, 2, 5):
        for bad in [-1] + list(range(n)):
            for idx in (-1, 0, 1, n - 1, n, n + 3):
                add("certsidx %d %d %d" % (n, bad, idx), "certsidx:n%d:%s:%s" % (min(n, 2), "clean" if bad < 0 else ("junk-before" if bad <= idx else "junk-after"), "in" if 0 <= idx < n else "out"))
    # x509_crl_check: version, update window around the clock (and 2^31 / 2^32 away), extension kinds
    for version in (-1, 0, 1, 2):
        for exts in ("-", "crlnum.0", "aki.0", "ian.0", "aia.0", "delta.0", "idp.1", "crlnum.1,aki.1,fcrl.0", "crlnum.0,idp.0"):
            add("crlchk %d %d %d %d %s" % (version, NOW - 10, NOW + 10, NOW, exts), "crlchk:ver%d:%s" % (version, exts.split(".")[0]))
    for this_, next_, now_, nm in ((NOW, NOW + 10, NOW, "this=now"), (NOW + 1, NOW + 10, NOW, "this=now+1"), (NOW - 10, NOW, NOW, "next=now"), (NOW - 10, NOW + 1, NOW, "next=now+1"),
                                   (NOW - 10, -1, NOW, "next-absent"), (NOW - 10, -1, NOW + (1 << 33), "next-absent-far"), (NOW + (1 << 32) - 5, NOW + (1 << 32) + 5, NOW, "this=now+2^32"),
                                   (NOW - 10, NOW + 10, NOW + (1 << 32), "now+2^32"), (NOW - 10, NOW + (1 << 31) + 10, NOW, "next=now+2^31"), (5, 10, (1 << 32) + 7, "now=2^32+7"),
                                   ((1 << 32), (1 << 32) + 100, (1 << 32) + 7, "all>2^32"), (NOW, NOW + 10, 0, "now=0"), (NOW, NOW + 10, -5, "now<0")):
        add("crlchk 1 %d %d %d crlnum.0" % (this_, next_, now_), "crlchk:window:" + nm)
    # RevokedCertificate with entry extensions (x509_revoked_cert_to_der_ex / from_der_ex / x509_cert_revoke_to_der)
    for serial in (b"\x01", b"\x00\x80", bytes([0x7f] * 20), b"\x00\x00\x05"):
        for reason in (-1, 0, 1, 9):
            for inv in (-1, 1600000000):
                for iss in ("-", "310b3009060355040a0c024341"):
                    for via in (0, 1):
                        add("revokeex %s %d %d %d %s %d" % (serial.hex(), 1650000000, reason, inv, iss, via), "revokeex:%s:exts%d:%s" % (serial_class(serial), (reason >= 0) + (inv >= 0) + (iss != "-"), "cert" if via else "serial"))
    for kind in ("cert", "req", "crl"):
        add("wrap %s" % kind, "wrap:" + kind)
    # GeneralNames: every choice alone, mixed lists, IA5 rule, lookup by choice
    for ch in range(0, 10):
        for v in (b"\x30\x03\x02\x01\x05", b"example.org", b"a", bytes(130), b"caf\xc3\xa9"):
            add("gnames %d:%s %d" % (ch, v.hex(), ch), ("general_name:constructed-choice-written-with-primitive-tag" if ch in (0, 3, 4, 5) else "gnames:choice%d:%s" % (ch, "ia5" if all(c < 128 for c in v) else "non-ia5")))
    for i in range(12 if not thorough else 120):
        items = ["%d:%s" % (r.choice([1, 2, 6, 7, 8]), bytes(r.choice(b"abcdefgh.") for _ in range(r.range(1, 40))).hex()) for _ in range(r.range(1, 5))]
        add("gnames %s %d" % (",".join(items), r.choice([1, 2, 6, 7, 8, 4])), "gnames:list:primitive-choices")
        items2 = items + ["%d:3000" % r.choice([0, 3, 4, 5])]
        r.shuffle(items2)
        add("gnames %s %d" % (",".join(items2), r.choice([1, 4, 6])), "general_name:constructed-choice-written-with-primitive-tag")
    # payload codecs of the extensions (encode with the library, decode with the library, every field compared, absent optionals
    # must be reported as absent) and PEM wrappers
    for kind in ("other_name", "edi_party_name", "display_text", "notice_reference", "user_notice", "policy_qualifier_info", "policy_information", "policy_mapping",
                 "attribute", "general_subtree", "name_constraints", "policy_constraints", "issuing_distribution_point", "uri_as_general_names", "explicit_directory_name",
                 "gn_registered_id", "gn_other_name", "gn_edi_party_name", "stubs"):
        for v in (0, 1):
            cell = "payload:%s:%d" % (kind, v)
            if kind in ("gn_other_name", "gn_edi_party_name"):
                cell = "general_name:constructed-choice-written-with-primitive-tag"
            elif (kind, v) in (("edi_party_name", 0), ("user_notice", 0)):
                cell = "payload:absent-optional-outputs-unset"
            add("payload %s %d" % (kind, v), cell)
    for days in (-1, 0, 1, 2, 365, 3652, 3653, 3654, 100000):
        add("payload validity_add_days %d" % days, "payload:validity_add_days:%s" % ("ok" if 1 <= days <= 3653 else "out-of-range"))
    for kind in ("cert", "certs", "req", "bysubject", "newcert", "newcerts", "newreq", "newreqfp"):
        add("pemrt %s" % kind, "pemrt:" + kind)
    # octets after the signature value (one DER SEQUENCE { r, s }) inside the BIT STRING of every signed object: 0 (control), 1, 2, a
    # second copy's worth, with zero / non-zero / SEQUENCE-tag filling
    for kind in ("cert", "req", "crl"):
        for n in (0, 1, 2, 8, 72):
            for fill in ((0,) if n == 0 else (0, 0x30, 0xff)):
                add("sigtrail %s %d %d" % (kind, n, fill), "sigtrail:%s:%s" % (kind, "control" if n == 0 else "octets-after-signature"))
    # text renderers on an object that carries every extension the builders compose; identifier <-> name tables
    for kind in ("cert", "crl", "req"):
        add("printall %s" % kind, "printall:" + kind)
    add("printall gn", "printall:constructed-general-name-not-rendered")      # observation key (DESIGN 5), work/fix_general_name_print_implicit_choices.patch
    for tab in ("name_type", "ext_id", "qualifier_id", "cert_policy_id", "key_purpose", "access_method", "crl_entry_ext_id", "crl_ext_id",
                "crl_reason", "key_usage", "revoke_reason_flag", "version", "key_purpose_text"):
        add("names %s" % tab, "names:" + tab)
    # --- every single-bit modification of an issued object must fail verification
    step = 3 if not thorough else 1
    flips = []
    ex = b"".join(ext_der(r) for _ in range(2))
    for off in range(step):
        flips.append(("flipall cert %d %d " % (step, off) + cert_line(2, bytes([1, 2, 3, 4, 5, 6, 7, 8]), CA, NOW, NOW + 86400 * 365, EE, 2, b"", b"", ex, 1), "flip:cert:offset%d" % off))
        flips.append(("flipall req %d %d 0 %s 2 -" % (step, off, hexs(EE)), "flip:req:offset%d" % off))
        flips.append(("flipall crl %d %d 1 %s %d %d %s - 1" % (step, off, hexs(CA), NOW, NOW + 86400, ",".join(entries(2))), "flip:crl:offset%d" % off))
    flips.append(("flipall cert %d 1 " % (7 if not thorough else 1) + cert_line(2, bytes([0x80] * 20), name_der(r, 3), UTC_MAX, UTC_MAX + 9, name_der(r, 3), 3, bytes(5), bytes(7), ex, 2), "flip:cert:uids-generalizedtime"))
    return cases, flips


# a legitimate configuration of the library: sm2sign-with-sm3 AlgorithmIdentifiers carry NULL parameters
core.VARIANTS.setdefault("sm2null", (core.SAN_FLAGS, ["-DENABLE_SM2_ALGOR_ID_ENCODE_NULL=ON"]))


def build_net_harness(variant="asan"):
    """props/C15/harness_net.c against the same library build (vlib.core.build_harness names its output after the property only)"""
    lib, log = core.build_lib(variant)
    if lib is None:
        return None, log
    cflags, _ = core.VARIANTS[variant]
    defs = ""
    for l in open(os.path.join(core.BUILD, "lib_" + variant, "build.ninja")):
        if l.strip().startswith("DEFINES ="):
            defs = l.split("=", 1)[1].strip(); break
    out = os.path.join(core.BUILD, "h_C15net_%s" % variant)
    with core.Lock("h_C15net_%s" % variant):
        rc, o = core.sh("gcc %s %s -I%s/include -I%s/harness -I%s/src -I%s/props/C15 -o %s %s %s -lpthread" % (
            cflags, defs, core.REPO, core.ROOT, core.REPO, core.ROOT, out, os.path.join(core.ROOT, "props", "C15", "harness_net.c"), lib))
    return (out if rc == 0 else None), log + o


CERT_BUILDERS = ["aki", "daki", "ski", "skiex", "ku", "cp", "pm", "san", "ian", "sda", "nc", "pc", "bc", "eku", "crldpex", "crldp", "iap", "fcrl", "aia", "seq"]
CRL_BUILDERS = ["aki", "daki", "ian", "crlnumex", "crlnum", "delta", "idp", "fcrl", "aia"]


def builder_order_cases(ctx, exe, variant):
    """every extension builder declared in x509_ext.h / x509_crl.h: alone, and as 1st / 2nd / last of lists whose order is
    rotated by the seed; the list must be the concatenation of the solo encodings, parse element by element, and survive a
    certificate / CRL.  Builders found in the headers but unknown to the harness are reported."""
    import re
    r = ctx.rng
    declared = set()
    for h in ("x509_ext.h", "x509_crl.h"):
        try:
            src = open(os.path.join(core.REPO, "include", "gmssl", h)).read()
        except OSError:
            continue
        declared |= set(re.findall(r"\bint\s+(x509_(?:crl_)?exts_add_\w+|x509_crl_entry_exts_to_der|x509_\w+_ext_to_der)\s*\(", src))
    # x509_exts_add_crl_distribution_points_ex: call it the way the installed header declares it
    hdr = ""
    try:
        hdr = open(os.path.join(core.REPO, "include", "gmssl", "x509_ext.h")).read()
    except OSError:
        pass
    m = re.search(r"x509_exts_add_crl_distribution_points_ex\([^;]*?maxlen,\s*int\s+(\w+),\s*int\s+(\w+)", hdr)
    cert_builders = [("crldpexh" if (n == "crldpex" and m and m.group(1) == "critical") else n) for n in CERT_BUILDERS]
    covered, _ = core.run_lines(exe, ["builders"], shards=1)
    covered = set(covered[0].split())
    for name in sorted(declared - covered):
        ctx.violation("coverage:extension-builder-not-exercised:" + name, "the header declares the extension builder %s, which the builder-order harness does not know: add it to props/C15/harness.c add_builder()" % name,
                      {"kind": "coverage", "builder": name}, False)
    solo_ops = ["extsolo c %s.%d" % (n, v) for n in cert_builders for v in (0, 1)] + ["extsolo r %s.%d" % (n, v) for n in CRL_BUILDERS for v in (0, 1)]
    solo_out, _ = core.run_lines(exe, solo_ops, shards=1)
    solo = {}
    for op, out in zip(solo_ops, solo_out):
        w = op.split()
        ctx.cov["evaluations"] += 1
        if out.startswith("ERR") or out.startswith("FAULT"):
            fn = {"crldpex": "x509_exts_add_crl_distribution_points_ex", "crldpexh": "x509_exts_add_crl_distribution_points_ex"}.get(w[2].split(".")[0], w[2])
            ctx.violation("builder:%s:fails-as-declared" % fn, "extension builder `%s` called as its public prototype declares fails [%s]: %s" % (op, variant, out),
                          {"kind": "failing-input", "op": op, "impl": out, "expected": "an Extension", "variant": variant}, True)
        else:
            solo[(w[1], w[2])] = out
            ctx.cell("extsolo:%s:%s" % (w[1], w[2].split(".")[0]))
    cases = []
    for kind, names in (("c", cert_builders), ("r", CRL_BUILDERS)):
        avail = [n for n in names if (kind, n + ".0") in solo and (kind, n + ".1") in solo]
        for n in avail:
            others = [o for o in avail if o != n]
            for pos in ("first", "second", "last", "only"):
                for rep in range(2):
                    r.shuffle(others)
                    k = r.range(2, 5)
                    rest = ["%s.%d" % (o, r.below(2)) for o in others[:k]]
                    me = "%s.%d" % (n, r.below(2))
                    lst_ = {"first": [me] + rest, "second": rest[:1] + [me] + rest[1:], "last": rest + [me], "only": [me]}[pos]
                    expect = "".join(solo[(kind, t)] for t in lst_)
                    cases.append(("extlist %s %s %s" % (kind, ",".join(lst_), expect), "extlist:%s:%s:%s" % (kind, n, pos)))
        # all builders of the kind in one list, order rotated by the seed
        allb = ["%s.%d" % (n, r.below(2)) for n in avail]
        r.shuffle(allb)
        cases.append(("extlist %s %s %s" % (kind, ",".join(allb), "".join(solo[(kind, t)] for t in allb)), "extlist:%s:all" % kind))
    # every enumerated reason code (0 = unspecified is a value, -1 is "absent"), alone and next to the other two entry extensions
    for reason in (-1, 0, 1, 2, 3, 4, 5, 6, 7, 8, 9, 10, 11):
        for date in (-1, 1600000000, 2600000000):
            for iss in ("-", "310b3009060355040a0c024341"):
                rc = "absent" if reason < 0 else ("unspecified(0)" if reason == 0 else ("out-of-range" if reason > 10 else "set"))
                cases.append(("entryexts %d %d %s" % (reason, date, iss), "entryexts:reason-%s:date%s:issuer%s" % (rc, "absent" if date < 0 else "set", "absent" if iss == "-" else "set")))
    return cases


def oracle_flip(a):
    return None if a == "0" else "a single-bit modification of an issued object still verifies: " + a


def run(ctx):
    ctx.check_proofs()
    model, log = core.build_model("C15")
    if model is None:
        ctx.violation("correspondence:model-build", "extracted model does not build: " + log[-500:], {"kind": "correspondence", "log": log[-3000:]}, False)
        return finish(ctx)
    cases, flips = gen(ctx)
    dump = os.environ.get("VERIF_DUMP_OPS")
    for v in (["asan", "sm2null"] if ctx.tier == "quick" else ["asan", "small", "sm2null"]):
        exe, log = core.build_harness("C15", v)
        if exe is None:
            core.harness_build_failed(ctx, log)
            continue
        keys, _ = core.run_lines(exe, ["keys"], shards=1)
        os.environ["C15_KEYS"] = keys[0]
        os.environ["C15_SM2_NULL"] = "1" if v == "sm2null" else "0"
        if v == "sm2null":
            # the objects that carry AlgorithmIdentifiers; a third of the plain certificate cases in the quick tier
            sub = [c for n, c in enumerate(cases) if c[0].split(" ", 1)[0] in ("req", "crl", "sigalg", "certck")
                   or (c[0].startswith("cert ") and (ctx.tier != "quick" or n % 3 == 0))]
            core.differential(ctx, [(l, k + "@sm2null") for (l, k) in sub], exe, model, variant=v)
            core.differential(ctx, [(l, k + "@sm2null") for (l, k) in flips], exe, model, variant=v, shards=min(len(flips), 10),
                              oracle=lambda line, a, b: oracle_flip(a))
            continue
        # what the text renderers show is outside the property text (C15: parse-back and verification; C06: printers are memory-safe and
        # terminate): a disagreement there is an OBSERVATION, a sanitizer abort / crash of a renderer stays a violation
        render = [c for c in cases if c[0].startswith("printall ")]
        core.differential(ctx, [c for c in cases if not c[0].startswith("printall ")], exe, model, variant=v)
        devdiff.differential(ctx, render, exe, model, variant=v, shards=1, observe=lambda line, a, b: not a.startswith("FAULT"))
        bo = builder_order_cases(ctx, exe, v)
        if dump and v == "asan":
            open(dump, "w").write("\n".join([c[0] for c in cases + bo + flips]) + "\nbuilders\nkeys\n")
        core.differential(ctx, bo, exe, model, variant=v)
        if v == "asan":
            # x509_cert_check_crl once more, this time through the library's own HTTP client and a loopback server thread
            netexe, nlog = build_net_harness(v)
            if netexe is None:
                core.harness_build_failed(ctx, nlog)
            else:
                netcases = [(l, k.replace("crlcheck:", "crlcheck-http:")) for (l, k) in cases if l.startswith("crlcheck ")]
                core.differential(ctx, netcases, netexe, model, variant=v + "+loopback-http", shards=4)
        core.differential(ctx, flips, exe, model, variant=v, shards=min(len(flips), 10),
                          oracle=lambda line, a, b: oracle_flip(a))
    return finish(ctx)


def replay(path):
    r = json.load(open(path))
    op = r.get("replay", {}).get("op")
    if not op:
        print("replay names a proof obligation / relation, not an input:", json.dumps(r.get("replay"))[:1000]); return 0
    model, _ = core.build_model("C15")
    exe, log = core.build_harness("C15", "asan")
    if exe is None:
        print(log[-2000:]); return 1
    keys, _ = core.run_lines(exe, ["keys"], shards=1)
    os.environ["C15_KEYS"] = keys[0]
    a, err = core.run_lines(exe, [op], shards=1, env={"VERIF_STDERR": "1"})
    b, _ = core.run_lines(model, [op], shards=1)
    print("op:    ", op); print("impl:  ", a[0]); print("model: ", b[0])
    if err.strip():
        print("stderr:", err[-1500:])
    print("AGREE" if a[0] == b[0] else "DIFFER")
    return 0


def finish(ctx):
    ctx.assumptions = [
        "the model composes and extracts at SEQUENCE level (TLV with DER definite lengths, positional layout with optional fields by tag); names, extensions, attributes and revoked lists are opaque already-encoded components, as in the C API; the primitive codecs inside them (strings, OIDs, times) belong to C14",
        "the TBS bytes of every issued object are compared byte-for-byte with the model's composition (including INTEGER normalisation, UTCTime/GeneralizedTime selection and the civil-date conversion); validity times and version numbers printed by the model are the supplied ones (the time codec round trip itself is C14's theorem)",
        "signatures are real SM2 on the harness side (scripted entropy); in the theorems they are an abstract sign/check pair; 'fails under another key / any modified bit' is proved only under the premise named in C15_other_key_rejected_partial and otherwise observed (complete single-bit neighbourhood of sampled objects, every 3rd byte in the quick tier)",
        "extension builders are compared at API level (build, locate by OID, decode, compare with the vector) and, for the Extension wrapper, byte for byte (ext_emit); the nested payload structures (OtherName, EDIPartyName, NoticeReference, UserNotice, PolicyQualifierInfo, PolicyInformation, PolicyMapping, Attribute, GeneralSubtree, NameConstraints, PolicyConstraints, IssuingDistributionPoint, GeneralNames of one URI, explicit DirectoryString) are compared byte for byte with the generic positional-record encoder of the model on fixed field values (op payload); the text renderers and the identifier/name tables are exercised with an oracle only (ops printall, names)",
        "CRL lookup compares the queried bytes with the stored (minimal) serial bytes: a query with a redundant leading zero is reported not revoked by implementation and model alike; serial numbers handed out by the library's own parsers are always minimal",
    ]
    return ctx.finish(level="proof", extra={"observations": getattr(ctx, "observations", [])},
                      rule="cases = certificates over serial lengths 1..20 / leading-zero / high-bit shapes, versions absent..v3 and invalid, validity across the 2050 switch and both ends of the range, random names / unique ids / extension lists / keys; requests; CRLs with 0..50 entries, entry extensions, nextUpdate absent / UTCTime / GeneralizedTime, every version; lookups present-first/mid/last, absent, prefix, extended, leading-zero, duplicate, raw lists with unparsable elements; every name builder x string type x length bound; extension builders x criticality; complete single-bit modification sweeps (sampled bytes) of one certificate, request and CRL; a cell = (op, field class, ok|ERR)",
                      trusted=core.TRUSTED_COMMON + ["Coq files: Pki/X509Codec.v (model), Pki/X509CodecProofs.v, Props/Properties_C15.v",
                                                     "python-side DER writer for the raw names / extensions handed to both sides (props/C15/run.py)",
                                                     "harness/entropy.h scripted getentropy()/time()"])
