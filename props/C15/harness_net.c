/* C15, x509_cert_check_crl end to end over the library's own HTTP client: same ops as harness.c (op crlcheck), but http_get
 * is NOT replaced; a loopback server thread on 127.0.0.1 serves the scripted CRL (good / forged / bit-flipped / wrong issuer /
 * expired), or refuses, for every connection the library makes. */
#define C15_NET
#include "harness.c"
#include <sys/socket.h>
#include <netinet/in.h>
#include <arpa/inet.h>

static int listen_fd = -1; static int net_port; static char net_uri[64];
static pthread_mutex_t net_mu = PTHREAD_MUTEX_INITIALIZER;
static const char *crl_uri(void) { return net_uri; }

static void *server_main(void *arg) {
	(void)arg;
	for (;;) {
		int c = accept(listen_fd, NULL, NULL); char req[1024]; ssize_t n; char hdr[128]; int hl;
		if (c < 0) continue;
		n = recv(c, req, sizeof req - 1, 0); (void)n;
		pthread_mutex_lock(&net_mu);
		serve_calls++;
		if (serve_fail || !served) {
			static const char nf[] = "HTTP/1.1 404 Not Found\r\nContent-Length: 0\r\n\r\n";
			(void)!send(c, nf, sizeof nf - 1, 0);
		} else {
			uint8_t *msg; hl = snprintf(hdr, sizeof hdr, "HTTP/1.1 200 OK\r\nContent-Type: application/pkix-crl\r\nContent-Length: %zu\r\n\r\n", served_len);
			msg = malloc((size_t)hl + served_len); memcpy(msg, hdr, (size_t)hl); memcpy(msg + hl, served, served_len);
			(void)!send(c, msg, (size_t)hl + served_len, 0); free(msg);
		}
		pthread_mutex_unlock(&net_mu);
		close(c);
	}
	return NULL;
}

int main(void) {
	int i; struct sockaddr_in a; socklen_t al = sizeof a; pthread_t th; int one = 1;
	quiet_stderr();
	ent_seed(0xC15C15, -1);
	for (i = 1; i <= NKEYS; i++) if (sm2_key_generate(&keys[i]) != 1) { printf("KEYGEN-FAIL\n"); return 2; }
	listen_fd = socket(AF_INET, SOCK_STREAM, 0);
	setsockopt(listen_fd, SOL_SOCKET, SO_REUSEADDR, &one, sizeof one);
	memset(&a, 0, sizeof a); a.sin_family = AF_INET; a.sin_addr.s_addr = htonl(INADDR_LOOPBACK); a.sin_port = 0;
	if (listen_fd < 0 || bind(listen_fd, (struct sockaddr *)&a, sizeof a) != 0 || listen(listen_fd, 8) != 0
		|| getsockname(listen_fd, (struct sockaddr *)&a, &al) != 0) { printf("NET-SETUP-FAIL\n"); return 2; }
	net_port = ntohs(a.sin_port);
	snprintf(net_uri, sizeof net_uri, "http://127.0.0.1:%d/ca.crl", net_port);
	pthread_create(&th, NULL, server_main, NULL);
	main_loop(handle);
	return 0;
}
