/* C15 correspondence harness: issue certificates / requests / CRLs through the library from
 * field vectors, parse them back with the library's getters, verify, modify single bits.
 *
 * ops:
 *   keys                                    -> public keys (x||y hex) of the harness' key table
 *   cert <ver> <serial> <issuer> <nb> <na> <subject> <key> <iuid> <suid> <exts> <signkey>
 *   req  <ver> <subject> <key> <attrs>
 *   crl  <ver> <issuer> <this> <next> <entries> <exts> <signkey>
 *   crlfind <entries> <serial>              entries: serial:date[:extshex],...  ("-" none)
 *   crlfindraw <revoked list hex> <serial>
 *   name <attr,attr,...>                    attr = TYPE:tag:hexvalue  (TYPE in C ST L O OU CN DC)
 *   ext <kind> <critical> <args...>         one extension builder, parsed back
 *   extlen <kind> <critical> <contenthex>   one extension builder at a given content length, in a certificate, checked
 *   certck <same as cert>                   cert + x509_cert_check(server)
 *   flipall <cert|req|crl> <step> <offset> <same args as the object op ...>
 * hex fields: "-" = empty / absent.  issuer/subject/exts/attrs are the DER *content* the API takes.
 */
#include "common.h"
#include "entropy.h"
#include <gmssl/sm2.h>
#include <gmssl/oid.h>
#include <gmssl/asn1.h>
#include <gmssl/x509.h>
#include <gmssl/x509_ext.h>
#include <gmssl/x509_req.h>
#include <gmssl/x509_crl.h>
#include <gmssl/error.h>
#include <gmssl/http.h>

#define NKEYS 4
static SM2_KEY keys[NKEYS + 1];
static const char *OTHER_ID = "someone-else";

static void putfield(const char *name, const uint8_t *p, size_t n) { printf(" %s=", name); puthex(p, n); }
static void putkey(const char *name, const SM2_KEY *k) {
	uint8_t xy[64]; sm2_z256_point_to_bytes(&k->public_key, xy); putfield(name, xy, 64);
}

/* ------------------------------------------------------------------ certificate */
typedef struct { uint8_t *p; size_t n; } blob_t;

static blob_t issue_cert(char **w) {
	blob_t r = { NULL, 0 };
	int ver = atoi(w[0]); buf_t serial = hex2buf(w[1]), issuer = hex2buf(w[2]), subject = hex2buf(w[5]);
	long long nb = strtoll(w[3], NULL, 10), na = strtoll(w[4], NULL, 10);
	int key = atoi(w[6]), sk = atoi(w[10]);
	buf_t iu = hex2buf(w[7]), su = hex2buf(w[8]), ex = hex2buf(w[9]);
	size_t len = 0; uint8_t *q;
	if (key >= 1 && key <= NKEYS && sk >= 1 && sk <= NKEYS
		&& x509_cert_sign_to_der(ver, serial.p, serial.n, OID_sm2sign_with_sm3, issuer.p, issuer.n, (time_t)nb, (time_t)na,
			subject.p, subject.n, &keys[key], iu.n ? iu.p : NULL, iu.n, su.n ? su.p : NULL, su.n, ex.n ? ex.p : NULL, ex.n,
			&keys[sk], SM2_DEFAULT_ID, SM2_DEFAULT_ID_LENGTH, NULL, &len) == 1) {
		r.p = malloc(len); q = r.p;
		if (x509_cert_sign_to_der(ver, serial.p, serial.n, OID_sm2sign_with_sm3, issuer.p, issuer.n, (time_t)nb, (time_t)na,
			subject.p, subject.n, &keys[key], iu.n ? iu.p : NULL, iu.n, su.n ? su.p : NULL, su.n, ex.n ? ex.p : NULL, ex.n,
			&keys[sk], SM2_DEFAULT_ID, SM2_DEFAULT_ID_LENGTH, &q, &r.n) != 1 || r.n != len) { free(r.p); r.p = NULL; r.n = 0; }
	}
	free(serial.p); free(issuer.p); free(subject.p); free(iu.p); free(su.p); free(ex.p);
	return r;
}
static int verify_cert(const blob_t *c, int sk, int other) {
	if (other == 1) return x509_signed_verify(c->p, c->n, &keys[sk % NKEYS + 1], SM2_DEFAULT_ID, SM2_DEFAULT_ID_LENGTH);
	if (other == 2) return x509_signed_verify(c->p, c->n, &keys[sk], OTHER_ID, strlen(OTHER_ID));
	return x509_signed_verify(c->p, c->n, &keys[sk], SM2_DEFAULT_ID, SM2_DEFAULT_ID_LENGTH);
}
static void put_tbs(const uint8_t *a, size_t alen) {
	const uint8_t *tbs, *sig; size_t tl, sl; int alg;
	if (x509_signed_from_der(&tbs, &tl, &alg, &sig, &sl, &a, &alen) == 1 && alen == 0) { printf("tbs="); puthex(tbs, tl); }
	else printf("tbs=ERR");
}
static void do_cert(char **w) {
	blob_t c = issue_cert(w); int sk = atoi(w[10]);
	int ver, ialg, oalg; const uint8_t *serial, *issuer, *subject, *iu, *su, *ex, *sig;
	size_t sl, il, sjl, iul, sul, exl, sigl; time_t nb, na; SM2_KEY pk;
	if (!c.p) { printf("ERR issue"); return; }
	if (x509_cert_get_details(c.p, c.n, &ver, &serial, &sl, &ialg, &issuer, &il, &nb, &na, &subject, &sjl, &pk,
		&iu, &iul, &su, &sul, &ex, &exl, &oalg, &sig, &sigl) != 1) { printf("ERR parse"); free(c.p); return; }
	put_tbs(c.p, c.n);
	printf(" ver=%d", ver); putfield("serial", serial, sl);
	printf(" alg=%s/%s", ialg == OID_sm2sign_with_sm3 ? "sm2sm3" : "other", oalg == OID_sm2sign_with_sm3 ? "sm2sm3" : "other");
	putfield("issuer", issuer, il); printf(" nb=%lld na=%lld", (long long)nb, (long long)na);
	putfield("subject", subject, sjl); putkey("key", &pk);
	putfield("iuid", iu, iul); putfield("suid", su, sul); putfield("exts", ex, exl);
	printf(" verify=%d otherkey=%d otherid=%d", verify_cert(&c, sk, 0) == 1, verify_cert(&c, sk, 1) == 1, verify_cert(&c, sk, 2) == 1);
	free(c.p);
}

/* ------------------------------------------------------------------ request */
/* the subject's key is handed over as a public-only object (no private scalar), the signing key as a separate key-pair object:
   whatever the writer signs with must be the signing key */
static blob_t issue_req2(char **w, int signkey) {
	blob_t r = { NULL, 0 };
	int ver = atoi(w[0]); buf_t subject = hex2buf(w[1]), attrs = hex2buf(w[3]); int key = atoi(w[2]);
	size_t len = 0; uint8_t *q; SM2_KEY subj;
	if (key >= 1 && key <= NKEYS && signkey >= 1 && signkey <= NKEYS) {
		memset(&subj, 0, sizeof subj); subj.public_key = keys[key].public_key;
		if (x509_req_sign_to_der(ver, subject.p, subject.n, &subj, attrs.p, attrs.n, OID_sm2sign_with_sm3,
			&keys[signkey], SM2_DEFAULT_ID, SM2_DEFAULT_ID_LENGTH, NULL, &len) == 1) {
			r.p = malloc(len); q = r.p;
			if (x509_req_sign_to_der(ver, subject.p, subject.n, &subj, attrs.p, attrs.n, OID_sm2sign_with_sm3,
				&keys[signkey], SM2_DEFAULT_ID, SM2_DEFAULT_ID_LENGTH, &q, &r.n) != 1 || r.n != len) { free(r.p); r.p = NULL; r.n = 0; }
		}
	}
	free(subject.p); free(attrs.p);
	return r;
}
static blob_t issue_req(char **w) { return issue_req2(w, atoi(w[2])); }
static int req_signkey = 0;      /* 0: the subject's own key pair signs */
static void do_req(char **w) {
	blob_t c = req_signkey ? issue_req2(w, req_signkey) : issue_req(w);
	int ver, alg; const uint8_t *subject, *attrs, *sig; size_t sjl, al, sigl; SM2_KEY pk;
	if (!c.p) { printf("ERR issue"); return; }
	if (x509_req_get_details(c.p, c.n, &ver, &subject, &sjl, &pk, &attrs, &al, &alg, &sig, &sigl) != 1) { printf("ERR parse"); free(c.p); return; }
	put_tbs(c.p, c.n);
	printf(" ver=%d", ver); putfield("subject", subject, sjl); putkey("key", &pk); putfield("attrs", attrs, al);
	printf(" alg=%s", alg == OID_sm2sign_with_sm3 ? "sm2sm3" : "other");
	printf(" verify=%d otherid=%d", x509_req_verify(c.p, c.n, SM2_DEFAULT_ID, SM2_DEFAULT_ID_LENGTH) == 1,
		x509_req_verify(c.p, c.n, OTHER_ID, strlen(OTHER_ID)) == 1);
	free(c.p);
}

/* ------------------------------------------------------------------ CRL */
/* entries "serial:date[:exts],..." -> DER of the revoked list (content) */
static blob_t build_revoked(char *spec, int *ok) {
	blob_t r = { malloc(1), 0 }; char *save = NULL, *t;
	*ok = 1;
	if (!strcmp(spec, "-")) return r;
	for (t = strtok_r(spec, ",", &save); t; t = strtok_r(NULL, ",", &save)) {
		char *s2 = NULL; char *sh = strtok_r(t, ":", &s2), *dh = strtok_r(NULL, ":", &s2), *eh = strtok_r(NULL, ":", &s2);
		buf_t serial = hex2buf(sh ? sh : "-"), ex = hex2buf(eh ? eh : "-");
		long long date = dh ? strtoll(dh, NULL, 10) : 0; size_t len = 0; uint8_t *q;
		if (x509_revoked_cert_to_der(serial.p, serial.n, (time_t)date, ex.n ? ex.p : NULL, ex.n, NULL, &len) != 1) { *ok = 0; free(serial.p); free(ex.p); return r; }
		r.p = realloc(r.p, r.n + len); q = r.p + r.n;
		if (x509_revoked_cert_to_der(serial.p, serial.n, (time_t)date, ex.n ? ex.p : NULL, ex.n, &q, &r.n) != 1) *ok = 0;
		free(serial.p); free(ex.p);
		if (!*ok) return r;
	}
	return r;
}
static blob_t issue_crl_raw(int ver, buf_t issuer, long long thisu, long long nextu, blob_t rev, buf_t ex, int sk) {
	blob_t r = { NULL, 0 }; size_t len = 0; uint8_t *q;
	if (sk >= 1 && sk <= NKEYS
		&& x509_crl_sign_to_der(ver, OID_sm2sign_with_sm3, issuer.p, issuer.n, (time_t)thisu, (time_t)nextu,
			rev.n ? rev.p : NULL, rev.n, ex.n ? ex.p : NULL, ex.n, &keys[sk], SM2_DEFAULT_ID, SM2_DEFAULT_ID_LENGTH, NULL, &len) == 1) {
		r.p = malloc(len); q = r.p;
		if (x509_crl_sign_to_der(ver, OID_sm2sign_with_sm3, issuer.p, issuer.n, (time_t)thisu, (time_t)nextu,
			rev.n ? rev.p : NULL, rev.n, ex.n ? ex.p : NULL, ex.n, &keys[sk], SM2_DEFAULT_ID, SM2_DEFAULT_ID_LENGTH, &q, &r.n) != 1 || r.n != len) { free(r.p); r.p = NULL; r.n = 0; }
	}
	return r;
}
static blob_t issue_crl(char **w) {
	int ok; buf_t issuer = hex2buf(w[1]), ex = hex2buf(w[5]); blob_t rev = build_revoked(w[4], &ok), r = { NULL, 0 };
	if (ok) r = issue_crl_raw(atoi(w[0]), issuer, strtoll(w[2], NULL, 10), strtoll(w[3], NULL, 10), rev, ex, atoi(w[6]));
	free(issuer.p); free(ex.p); free(rev.p);
	return r;
}
/* a CA certificate whose subject is the CRL issuer and whose key is keys[k] */
static blob_t ca_cert_for(const uint8_t *name, size_t namelen, int k) {
	blob_t r = { NULL, 0 }; uint8_t serial[8] = { 1, 2, 3, 4, 5, 6, 7, 8 }; size_t len = 0; uint8_t *q;
	if (x509_cert_sign_to_der(X509_version_v3, serial, 8, OID_sm2sign_with_sm3, name, namelen, 1000, 2000000000, name, namelen,
		&keys[k], NULL, 0, NULL, 0, NULL, 0, &keys[k], SM2_DEFAULT_ID, SM2_DEFAULT_ID_LENGTH, NULL, &len) != 1) return r;
	r.p = malloc(len); q = r.p;
	x509_cert_sign_to_der(X509_version_v3, serial, 8, OID_sm2sign_with_sm3, name, namelen, 1000, 2000000000, name, namelen,
		&keys[k], NULL, 0, NULL, 0, NULL, 0, &keys[k], SM2_DEFAULT_ID, SM2_DEFAULT_ID_LENGTH, &q, &r.n);
	return r;
}
static int verify_crl(const blob_t *c, const uint8_t *issuer, size_t il, int sk, int other) {
	blob_t ca = ca_cert_for(issuer, il, other == 1 ? sk % NKEYS + 1 : sk); int r;
	if (!ca.p) return -1;
	r = x509_crl_verify_by_ca_cert(c->p, c->n, ca.p, ca.n, other == 2 ? OTHER_ID : SM2_DEFAULT_ID, other == 2 ? strlen(OTHER_ID) : SM2_DEFAULT_ID_LENGTH);
	free(ca.p);
	return r;
}
static void do_crl(char **w) {
	blob_t c = issue_crl(w); int sk = atoi(w[6]);
	int ver, ialg, oalg; const uint8_t *issuer, *rev, *ex, *sig; size_t il, rl, exl, sigl; time_t tu, nu;
	if (!c.p) { printf("ERR issue"); return; }
	if (x509_crl_get_details(c.p, c.n, &ver, &ialg, &issuer, &il, &tu, &nu, &rev, &rl, &ex, &exl, &oalg, &sig, &sigl) != 1) { printf("ERR parse"); free(c.p); return; }
	put_tbs(c.p, c.n);
	{	/* the reader that takes the object from a stream must hand back the very same fields */
		int v2, ia2, oa2; const uint8_t *is2, *rv2, *ex2, *sg2, *cp = c.p; size_t il2, rl2, exl2, sgl2, cl = c.n; time_t tu2, nu2;
		if (x509_crl_from_der_ex(&v2, &ia2, &is2, &il2, &tu2, &nu2, &rv2, &rl2, &ex2, &exl2, &oa2, &sg2, &sgl2, &cp, &cl) != 1 || cl != 0
			|| v2 != ver || ia2 != ialg || oa2 != oalg || is2 != issuer || il2 != il || tu2 != tu || nu2 != nu || rv2 != rev || rl2 != rl || ex2 != ex || exl2 != exl || sg2 != sig || sgl2 != sigl)
			printf(" (from_der_ex-differs)"); }
	printf(" ver=%d alg=%s/%s", ver, ialg == OID_sm2sign_with_sm3 ? "sm2sm3" : "other", oalg == OID_sm2sign_with_sm3 ? "sm2sm3" : "other");
	putfield("issuer", issuer, il); printf(" this=%lld next=%lld", (long long)tu, (long long)nu);
	putfield("revoked", rev, rl); putfield("exts", ex, exl);
	printf(" verify=%d otherkey=%d otherid=%d", verify_crl(&c, issuer, il, sk, 0) == 1, verify_crl(&c, issuer, il, sk, 1) == 1, verify_crl(&c, issuer, il, sk, 2) == 1);
	free(c.p);
}
static const uint8_t FIX_ISSUER[] = { 0x31, 0x0b, 0x30, 0x09, 0x06, 0x03, 0x55, 0x04, 0x03, 0x0c, 0x02, 0x43, 0x41 };
static void crlfind_on(blob_t rev, const char *serialhex) {
	buf_t issuer = { (uint8_t *)FIX_ISSUER, sizeof FIX_ISSUER }, ex = { NULL, 0 }; buf_t serial = hex2buf(serialhex);
	blob_t c = issue_crl_raw(X509_version_v2, issuer, 1700000000, 1700086400, rev, ex, 1);
	time_t date = -7; const uint8_t *eex = NULL; size_t eexl = 0; int r;
	if (!c.p) { printf("ERR issue"); free(serial.p); return; }
	r = x509_crl_find_revoked_cert_by_serial_number(c.p, c.n, serial.p, serial.n, &date, &eex, &eexl);
	if (r == 1) { printf("1 %lld ", (long long)date); puthex(eex, eexl); }
	else if (r == 0) printf("0"); else printf("ERR");
	free(c.p); free(serial.p);
}

/* ------------------------------------------------------------------ names */
static void do_name(char *spec) {
	uint8_t name[1024]; size_t len = 0; char *save = NULL, *t; int ok = 1;
	static const struct { const char *n; int oid; } types[] = { { "C", OID_at_country_name }, { "ST", OID_at_state_or_province_name },
		{ "L", OID_at_locality_name }, { "O", OID_at_organization_name }, { "OU", OID_at_organizational_unit_name },
		{ "CN", OID_at_common_name }, { "DC", OID_domain_component } };
	size_t i; char seen[8] = { 0 };
	for (t = strtok_r(spec, ",", &save); t && ok; t = strtok_r(NULL, ",", &save)) {
		char *s2 = NULL; char *ty = strtok_r(t, ":", &s2), *tg = strtok_r(NULL, ":", &s2), *vh = strtok_r(NULL, ":", &s2);
		int tag = tg ? atoi(tg) : 0; buf_t v = hex2buf(vh ? vh : "-"); int r = -1;
		if (!strcmp(ty, "C")) { char cc[3] = { 0, 0, 0 }; if (v.n == 2) { memcpy(cc, v.p, 2); r = x509_name_add_country_name(name, &len, sizeof name, cc); } }
		else if (!strcmp(ty, "ST")) r = x509_name_add_state_or_province_name(name, &len, sizeof name, tag, v.p, v.n);
		else if (!strcmp(ty, "L")) r = x509_name_add_locality_name(name, &len, sizeof name, tag, v.p, v.n);
		else if (!strcmp(ty, "O")) r = x509_name_add_organization_name(name, &len, sizeof name, tag, v.p, v.n);
		else if (!strcmp(ty, "OU")) r = x509_name_add_organizational_unit_name(name, &len, sizeof name, tag, v.p, v.n);
		else if (!strcmp(ty, "CN")) r = x509_name_add_common_name(name, &len, sizeof name, tag, v.p, v.n);
		else if (!strcmp(ty, "DC")) r = x509_name_add_domain_component(name, &len, sizeof name, (char *)v.p, v.n);
		for (i = 0; i < 7; i++) if (!strcmp(ty, types[i].n)) seen[i] = 1;
		free(v.p);
		if (r != 1) ok = 0;
	}
	if (!ok) { printf("ERR"); return; }
	printf("der="); puthex(name, len);
	printf(" check=%d", x509_name_check(name, len) == 1);
	{	/* walking the name RDN by RDN: as many as were added, each with exactly one attribute, nothing left */
		const uint8_t *cp = name, *v, *more; size_t cl = len, vl, ml, n = 0; int oid, tag, bad = 0;
		while (cl && !bad) { if (x509_rdn_from_der(&oid, &tag, &v, &vl, &more, &ml, &cp, &cl) != 1 || more || ml) bad = 1; else n++; }
		if (bad) printf(" rdns=ERR"); else printf(" rdns=%zu", n); }
	for (i = 0; i < 7; i++) if (seen[i]) {
		int tag = 0; const uint8_t *v = NULL; size_t vl = 0;
		if (x509_name_get_value_by_type(name, len, types[i].oid, &tag, &v, &vl) == 1) { printf(" %s=%d:", types[i].n, tag); puthex(v, vl);
			if (types[i].oid == OID_at_common_name) {     /* the shorthand must answer what the general lookup answered */
				int t2 = 0; const uint8_t *v2 = NULL; size_t v2l = 0;
				if (x509_name_get_common_name(name, len, &t2, &v2, &v2l) != 1 || t2 != tag || v2 != v || v2l != vl) printf("(get_common_name-differs)"); } }
		else printf(" %s=ERR", types[i].n);
	}
}

/* ------------------------------------------------------------------ extension builders */
static void do_ext(size_t nw, char **w) {
	uint8_t exts[1024]; size_t len = 0; int critical = atoi(w[2]); int r = -1; int oid = 0;
	const uint8_t *val; size_t vlen; int crit2 = -9;
	if (!strcmp(w[1], "ku") && nw == 4) { oid = OID_ce_key_usage; r = x509_exts_add_key_usage(exts, &len, sizeof exts, critical, atoi(w[3])); }
	else if (!strcmp(w[1], "bc") && nw == 5) { oid = OID_ce_basic_constraints; r = x509_exts_add_basic_constraints(exts, &len, sizeof exts, critical, atoi(w[3]), atoi(w[4])); }
	else if (!strcmp(w[1], "ski") && nw == 4) { buf_t id = hex2buf(w[3]); oid = OID_ce_subject_key_identifier; r = x509_exts_add_subject_key_identifier(exts, &len, sizeof exts, critical, id.p, id.n); free(id.p); }
	else if (!strcmp(w[1], "aki") && nw == 4) { buf_t id = hex2buf(w[3]); oid = OID_ce_authority_key_identifier; r = x509_exts_add_authority_key_identifier(exts, &len, sizeof exts, critical, id.p, id.n, NULL, 0, NULL, 0); free(id.p); }
	else if (!strcmp(w[1], "eku") && nw == 4) {
		static const int purposes[] = { OID_any_extended_key_usage, OID_kp_server_auth, OID_kp_client_auth, OID_kp_code_signing, OID_kp_email_protection, OID_kp_time_stamping, OID_kp_ocsp_signing };
		int oids[16]; size_t n = 0; char *s2 = NULL, *t;
		for (t = strtok_r(w[3], ".", &s2); t && n < 16; t = strtok_r(NULL, ".", &s2)) { int k = atoi(t); if (k >= 0 && k <= 6) oids[n++] = purposes[k]; }
		oid = OID_ce_ext_key_usage; r = x509_exts_add_ext_key_usage(exts, &len, sizeof exts, critical, oids, n);
	}
	else if (!strcmp(w[1], "iap") && nw == 4) { oid = OID_ce_inhibit_any_policy; r = x509_exts_add_inhibit_any_policy(exts, &len, sizeof exts, critical, atoi(w[3])); }
	if (r != 1) { printf("ERR build"); return; }
	if (x509_exts_get_ext_by_oid(exts, len, oid, &crit2, &val, &vlen) != 1) { printf("ERR get"); return; }
	printf("critical=%d", crit2);
	if (!strcmp(w[1], "ku")) { int bits = -9; if (asn1_bits_from_der(&bits, &val, &vlen) == 1 && vlen == 0) printf(" bits=%d", bits); else printf(" ERR"); }
	else if (!strcmp(w[1], "bc")) { int ca = -9, pl = -9; if (x509_basic_constraints_from_der(&ca, &pl, &val, &vlen) == 1 && vlen == 0) printf(" ca=%d pl=%d", ca, pl); else printf(" ERR"); }
	else if (!strcmp(w[1], "ski")) { const uint8_t *p; size_t l; if (asn1_octet_string_from_der(&p, &l, &val, &vlen) == 1 && vlen == 0) { printf(" id="); puthex(p, l); } else printf(" ERR"); }
	else if (!strcmp(w[1], "aki")) { const uint8_t *kid, *iss, *ser; size_t kl, il, sl;
		if (x509_authority_key_identifier_from_der(&kid, &kl, &iss, &il, &ser, &sl, &val, &vlen) == 1 && vlen == 0) { printf(" id="); puthex(kid, kl); } else printf(" ERR"); }
	else if (!strcmp(w[1], "eku")) { int oids[X509_MAX_KEY_PURPOSES]; size_t n = 0, i;
		if (x509_ext_key_usage_from_der(oids, &n, X509_MAX_KEY_PURPOSES, &val, &vlen) == 1 && vlen == 0) { printf(" purposes=");
			for (i = 0; i < n; i++) printf("%s%d", i ? "." : "", oids[i] == OID_any_extended_key_usage ? 0 : oids[i] == OID_kp_server_auth ? 1 : oids[i] == OID_kp_client_auth ? 2 :
				oids[i] == OID_kp_code_signing ? 3 : oids[i] == OID_kp_email_protection ? 4 : oids[i] == OID_kp_time_stamping ? 5 : oids[i] == OID_kp_ocsp_signing ? 6 : 9); }
		else printf(" ERR"); }
	else if (!strcmp(w[1], "iap")) { int v = -9; if (asn1_int_from_der(&v, &val, &vlen) == 1 && vlen == 0) printf(" skip=%d", v); else printf(" ERR"); }
}


/* ------------------------------------------------------------------ extension builders over content lengths (wave 2)
 * extlen <kind> <critical> <contenthex>: build ONE extension with the library's builder, print it, find it again,
 * decode the payload, put it (followed by a keyUsage extension) into a certificate, parse that back and run x509_cert_check */
static void do_extlen(char **w) {
	const char *kind = w[1]; int critical = atoi(w[2]); buf_t c = hex2buf(w[3]);
	size_t max = c.n + 256, len = 0; uint8_t *exts = malloc(max + 64); int r = -1, oid = 0, modelled = 1;
	int crit2 = -9; const uint8_t *val = NULL; size_t vlen = 0; int inner = 0;
	if (!strcmp(kind, "cp")) { oid = OID_ce_certificate_policies; r = x509_exts_add_certificate_policies(exts, &len, max, critical, c.p, c.n); }
	else if (!strcmp(kind, "pm")) { oid = OID_ce_policy_mappings; r = x509_exts_add_policy_mappings(exts, &len, max, critical, c.p, c.n); }
	else if (!strcmp(kind, "san")) { oid = OID_ce_subject_alt_name; r = x509_exts_add_subject_alt_name(exts, &len, max, critical, c.p, c.n); }
	else if (!strcmp(kind, "ian")) { oid = OID_ce_issuer_alt_name; r = x509_exts_add_issuer_alt_name(exts, &len, max, critical, c.p, c.n); }
	else if (!strcmp(kind, "sda")) { oid = OID_ce_subject_directory_attributes; r = x509_exts_add_subject_directory_attributes(exts, &len, max, critical, c.p, c.n); }
	else if (!strcmp(kind, "fcrl")) { oid = OID_ce_freshest_crl; r = x509_exts_add_freshest_crl(exts, &len, max, critical, c.p, c.n); }
	else if (!strcmp(kind, "ski")) { oid = OID_ce_subject_key_identifier; r = x509_exts_add_subject_key_identifier(exts, &len, max, critical, c.p, c.n); }
	else if (!strcmp(kind, "aki")) { oid = OID_ce_authority_key_identifier; r = x509_exts_add_authority_key_identifier(exts, &len, max, critical, c.p, c.n, NULL, 0, NULL, 0); }
	else if (!strcmp(kind, "crldp")) { oid = OID_ce_crl_distribution_points; modelled = 0; r = x509_exts_add_crl_distribution_points(exts, &len, max, critical, (char *)c.p, c.n, NULL, 0); }
	else if (!strcmp(kind, "aia")) { oid = OID_pe_authority_info_access; modelled = 0; r = x509_exts_add_authority_info_access(exts, &len, max, critical, (char *)c.p, c.n, NULL, 0); }
	else if (!strcmp(kind, "nc")) { oid = OID_ce_name_constraints; modelled = 0; r = x509_exts_add_name_constraints(exts, &len, max, critical, c.p, c.n, NULL, 0); }
	if (r != 1) { printf("build=ERR"); free(exts); free(c.p); return; }
	printf("build=1 ext="); if (modelled) puthex(exts, len); else printf("unmodelled");
	if (x509_exts_get_ext_by_oid(exts, len, oid, &crit2, &val, &vlen) != 1) { printf(" get=ERR"); free(exts); free(c.p); return; }
	printf(" get=1 critical=%d", crit2);
	{	const uint8_t *p = NULL; size_t pl = 0; const uint8_t *v = val; size_t vl = vlen;
		if (!strcmp(kind, "ski")) inner = asn1_octet_string_from_der(&p, &pl, &v, &vl) == 1 && vl == 0 && pl == c.n && !memcmp(p, c.p, pl);
		else if (!strcmp(kind, "aki")) { const uint8_t *iss, *ser; size_t il, sl;
			inner = x509_authority_key_identifier_from_der(&p, &pl, &iss, &il, &ser, &sl, &v, &vl) == 1 && vl == 0 && pl == c.n && !memcmp(p, c.p, pl); }
		else if (!strcmp(kind, "crldp")) { const char *uri; size_t ul; int reasons; const uint8_t *ci; size_t cil;
			inner = x509_uri_as_distribution_points_from_der(&uri, &ul, &reasons, &ci, &cil, &v, &vl) == 1 && vl == 0 && ul == c.n && !memcmp(uri, c.p, ul); }
		else if (!strcmp(kind, "aia")) { const char *u1, *u2; size_t l1, l2;
			inner = x509_authority_info_access_from_der(&u1, &l1, &u2, &l2, &v, &vl) == 1 && vl == 0 && l1 == c.n && !memcmp(u1, c.p, l1); }
		else if (!strcmp(kind, "nc")) inner = asn1_sequence_from_der(&p, &pl, &v, &vl) == 1 && vl == 0;
		else inner = asn1_sequence_from_der(&p, &pl, &v, &vl) == 1 && vl == 0 && pl == c.n && !memcmp(p, c.p, pl);
	}
	printf(" inner=%d", inner);
	{	/* into a certificate, followed by keyUsage */
		uint8_t name[256]; size_t namelen = 0; uint8_t serial[8] = { 1, 2, 3, 4, 5, 6, 7, 8 }; size_t clen = 0; uint8_t *cert, *q; int plc = 0;
		const uint8_t *ex2; size_t ex2l; int kcrit; const uint8_t *kv; size_t kvl;
		if (x509_exts_add_key_usage(exts, &len, max + 64, X509_critical, X509_KU_DIGITAL_SIGNATURE) != 1
			|| x509_name_set(name, &namelen, sizeof name, "CN", NULL, NULL, "VERIF", NULL, "ext") != 1
			|| x509_cert_sign_to_der(X509_version_v3, serial, 8, OID_sm2sign_with_sm3, name, namelen, 1699990000, 1700090000, name, namelen,
				&keys[1], NULL, 0, NULL, 0, exts, len, &keys[1], SM2_DEFAULT_ID, SM2_DEFAULT_ID_LENGTH, NULL, &clen) != 1) { printf(" cert=ERR"); free(exts); free(c.p); return; }
		cert = malloc(clen); q = cert; clen = 0;
		if (x509_cert_sign_to_der(X509_version_v3, serial, 8, OID_sm2sign_with_sm3, name, namelen, 1699990000, 1700090000, name, namelen,
				&keys[1], NULL, 0, NULL, 0, exts, len, &keys[1], SM2_DEFAULT_ID, SM2_DEFAULT_ID_LENGTH, &q, &clen) != 1) { printf(" cert=ERR"); free(cert); free(exts); free(c.p); return; }
		printf(" cert=1");
		printf(" exts_rt=%d", x509_cert_get_exts(cert, clen, &ex2, &ex2l) == 1 && ex2l == len && !memcmp(ex2, exts, len));
		printf(" ku_after=%d", x509_cert_get_exts(cert, clen, &ex2, &ex2l) == 1 && x509_exts_get_ext_by_oid(ex2, ex2l, OID_ce_key_usage, &kcrit, &kv, &kvl) == 1);
		printf(" verify=%d", x509_signed_verify(cert, clen, &keys[1], SM2_DEFAULT_ID, SM2_DEFAULT_ID_LENGTH) == 1);
		printf(" check=%d", x509_cert_check(cert, clen, X509_cert_server_auth, &plc) == 1);
		free(cert);
	}
	free(exts); free(c.p);
}
/* certck = cert + x509_cert_check as a server certificate */
static void do_certck(char **w) {
	blob_t c; int plc = 0;
	do_cert(w);
	c = issue_cert(w);
	if (c.p) { printf(" check=%d", x509_cert_check(c.p, c.n, X509_cert_server_auth, &plc) == 1); free(c.p); }
}

/* ------------------------------------------------------------------ signature algorithm identifiers (wave 2)
 * sigalg <cert|req|crl> <inner 0|2|3|4> <outer 0..7> <good|random|corrupt>: the TBS comes from the library's own
 * x509_tbs_*_to_der, the outer SEQUENCE { tbs, AlgorithmIdentifier, BIT STRING } is composed here, because the
 * *_sign_to_der functions hard-wire the outer identifier.  Algorithm ids as in props/C07/harness.c. */
static const uint8_t SA0[] = { 0x30,0x0a,0x06,0x08,0x2a,0x81,0x1c,0xcf,0x55,0x01,0x83,0x75 };
static const uint8_t SA1[] = { 0x30,0x0c,0x06,0x08,0x2a,0x81,0x1c,0xcf,0x55,0x01,0x83,0x75,0x05,0x00 };
static const uint8_t SA2[] = { 0x30,0x0a,0x06,0x08,0x2a,0x86,0x48,0xce,0x3d,0x04,0x03,0x02 };
static const uint8_t SA3[] = { 0x30,0x0d,0x06,0x09,0x2a,0x86,0x48,0x86,0xf7,0x0d,0x01,0x01,0x0b,0x05,0x00 };
static const uint8_t SA4[] = { 0x30,0x0c,0x06,0x08,0x2a,0x81,0x1c,0xcf,0x55,0x01,0x83,0x78,0x05,0x00 };
static const uint8_t SA5[] = { 0x30,0x05,0x06,0x03,0x2a,0x03,0x04 };
static const uint8_t SA6[] = { 0x30,0x0c,0x06,0x08,0x2a,0x86,0x48,0xce,0x3d,0x04,0x03,0x02,0x05,0x00 };
static const uint8_t SA7[] = { 0x30,0x0d,0x06,0x08,0x2a,0x81,0x1c,0xcf,0x55,0x01,0x83,0x75,0x02,0x01,0x05 };
static const uint8_t SA8[] = { 0x30,0x0d,0x06,0x0b,0x2a,0x81,0x1c,0xcf,0x55,0x01,0x90,0x80,0x80,0x83,0x75 };   /* last arc 501 + 2^32 */
static const struct { const uint8_t *p; size_t n; } SALG[9] = { { SA0, sizeof SA0 }, { SA1, sizeof SA1 }, { SA2, sizeof SA2 }, { SA3, sizeof SA3 },
	{ SA4, sizeof SA4 }, { SA5, sizeof SA5 }, { SA6, sizeof SA6 }, { SA7, sizeof SA7 }, { SA8, sizeof SA8 } };
static int inner_oid(int id) { return id == 0 ? OID_sm2sign_with_sm3 : id == 2 ? OID_ecdsa_with_sha256 : id == 3 ? OID_rsasign_with_sha256 : id == 4 ? OID_rsasign_with_sm3 : -1; }
static void do_sigalg(char **w) {
	const char *kind = w[1]; int inner = atoi(w[2]), outer = atoi(w[3]); const char *mode = w[4];
	uint8_t name[256]; size_t namelen = 0; uint8_t serial[8] = { 9, 8, 7, 6, 5, 4, 3, 2 };
	uint8_t *tbs = NULL, *p; size_t tbslen = 0, len = 0, clen, hl = 0; uint8_t sig[SM2_MAX_SIGNATURE_SIZE]; size_t siglen = 0; SM2_SIGN_CTX sctx;
	blob_t obj = { NULL, 0 }; uint8_t *q; int ioid = inner_oid(inner);
	if (outer < 0 || outer > 8 || (ioid < 0 && strcmp(kind, "req")) || x509_name_set(name, &namelen, sizeof name, "CN", NULL, NULL, "VERIF", NULL, "sigalg") != 1) { printf("ERR args"); return; }
	if (!strcmp(kind, "cert")) {
		if (x509_tbs_cert_to_der(X509_version_v3, serial, 8, ioid, name, namelen, 1699990000, 1700090000, name, namelen, &keys[1], NULL, 0, NULL, 0, NULL, 0, NULL, &len) != 1) { printf("ERR tbs"); return; }
		tbs = malloc(len); p = tbs;
		if (x509_tbs_cert_to_der(X509_version_v3, serial, 8, ioid, name, namelen, 1699990000, 1700090000, name, namelen, &keys[1], NULL, 0, NULL, 0, NULL, 0, &p, &tbslen) != 1) { printf("ERR tbs"); free(tbs); return; }
	} else if (!strcmp(kind, "req")) {
		if (x509_request_info_to_der(X509_version_v1, name, namelen, &keys[1], name, 0, NULL, &len) != 1) { printf("ERR tbs"); return; }
		tbs = malloc(len); p = tbs;
		if (x509_request_info_to_der(X509_version_v1, name, namelen, &keys[1], name, 0, &p, &tbslen) != 1) { printf("ERR tbs"); free(tbs); return; }
	} else {
		if (x509_tbs_crl_to_der(X509_version_v2, ioid, name, namelen, 1699990000, 1700090000, NULL, 0, NULL, 0, NULL, &len) != 1) { printf("ERR tbs"); return; }
		tbs = malloc(len); p = tbs;
		if (x509_tbs_crl_to_der(X509_version_v2, ioid, name, namelen, 1699990000, 1700090000, NULL, 0, NULL, 0, &p, &tbslen) != 1) { printf("ERR tbs"); free(tbs); return; }
	}
	if (sm2_sign_init(&sctx, &keys[1], SM2_DEFAULT_ID, SM2_DEFAULT_ID_LENGTH) != 1 || sm2_sign_update(&sctx, tbs, tbslen) != 1
		|| sm2_sign_finish(&sctx, sig, &siglen) != 1) { printf("ERR sign"); free(tbs); return; }
	if (!strcmp(mode, "corrupt")) sig[siglen - 5] ^= 0x40;
	else if (!strcmp(mode, "random")) { size_t i; siglen = 70; for (i = 0; i < siglen; i++) sig[i] = (uint8_t)(i * 37 + 11); }
	clen = tbslen + SALG[outer].n;
	if (asn1_bit_octets_to_der(sig, siglen, NULL, &clen) != 1 || asn1_sequence_header_to_der(clen, NULL, &hl) != 1) { printf("ERR compose"); free(tbs); return; }
	obj.p = malloc(hl + clen); q = obj.p;
	asn1_sequence_header_to_der(clen, &q, &obj.n);
	memcpy(q, tbs, tbslen); q += tbslen; obj.n += tbslen; memcpy(q, SALG[outer].p, SALG[outer].n); q += SALG[outer].n; obj.n += SALG[outer].n;
	asn1_bit_octets_to_der(sig, siglen, &q, &obj.n);
	free(tbs);
	if (!strcmp(kind, "cert")) {
		int plc = 0; blob_t ca = ca_cert_for(name, namelen, 1);
		if (x509_cert_get_subject(obj.p, obj.n, NULL, NULL) != 1) printf("parse=ERR");
		else printf("parse=1");
		printf(" verify=%d by_ca=%d check=%d", x509_signed_verify(obj.p, obj.n, &keys[1], SM2_DEFAULT_ID, SM2_DEFAULT_ID_LENGTH) == 1,
			ca.p && x509_cert_verify_by_ca_cert(obj.p, obj.n, ca.p, ca.n, SM2_DEFAULT_ID, SM2_DEFAULT_ID_LENGTH) == 1,
			x509_cert_check(obj.p, obj.n, X509_cert_server_auth, &plc) == 1);
		free(ca.p);
	} else if (!strcmp(kind, "req")) {
		printf("parse=%s", x509_req_get_details(obj.p, obj.n, NULL, NULL, NULL, NULL, NULL, NULL, NULL, NULL, NULL) == 1 ? "1" : "ERR");
		printf(" verify=%d", x509_req_verify(obj.p, obj.n, SM2_DEFAULT_ID, SM2_DEFAULT_ID_LENGTH) == 1);
	} else {
		blob_t ca = ca_cert_for(name, namelen, 1);
		printf("parse=%s", x509_crl_get_details(obj.p, obj.n, NULL, NULL, NULL, NULL, NULL, NULL, NULL, NULL, NULL, NULL, NULL, NULL, NULL) == 1 ? "1" : "ERR");
		printf(" verify=%d check=%d", ca.p && x509_crl_verify_by_ca_cert(obj.p, obj.n, ca.p, ca.n, SM2_DEFAULT_ID, SM2_DEFAULT_ID_LENGTH) == 1,
			x509_crl_check(obj.p, obj.n, 1700000000) == 1);
		free(ca.p);
	}
	free(obj.p);
}

/* ------------------------------------------------------------------ x509_cert_check_crl (wave 3)
 * The HTTP transport is replaced at link time (like getentropy/time): http_get() below serves the scripted CRL.
 * crlcheck <serialhex> <entries> <issuer ca|other> <signkey> <fresh|expired|future> <flip permille|-1> <dp 1|0> <fetch ok|fail> */
static const uint8_t *served; static size_t served_len; static int serve_fail; static int serve_calls;
#ifndef C15_NET
static const char *crl_uri(void) { return "http://crl.test/ca.crl"; }
int http_get(const char *uri, uint8_t *buf, size_t *contentlen, size_t buflen) {
	(void)uri; serve_calls++;
	if (serve_fail || !served) return -1;
	*contentlen = served_len;
	if (!buf || buflen < served_len) return 0;
	memcpy(buf, served, served_len);
	return 1;
}
#else
static const char *crl_uri(void);       /* http://127.0.0.1:<port>/ca.crl, served by the loopback thread of harness_net.c */
#endif
static void do_crlcheck(char **w) {
	buf_t serial = hex2buf(w[1]); int ok; blob_t rev = build_revoked(w[2], &ok);
	int other_issuer = !strcmp(w[3], "other"), sk = atoi(w[4]); const char *when = w[5]; long flip = strtol(w[6], NULL, 10); int dp = atoi(w[7]);
	uint8_t caname[256], othername[256], eename[256]; size_t canamelen = 0, othernamelen = 0, eenamelen = 0;
	uint8_t exts[512]; size_t extslen = 0; blob_t ca = { NULL, 0 }, crl = { NULL, 0 }; uint8_t *cert = NULL, *q; size_t certlen = 0; int r;
	long long thisu = 1700000000 - 3600, nextu = 1700000000 + 86400; buf_t iss, noex = { NULL, 0 };
	serve_fail = !strcmp(w[8], "fail"); serve_calls = 0; served = NULL; served_len = 0;
	if (!strcmp(when, "expired")) { thisu = 1700000000 - 2 * 86400; nextu = 1700000000; }      /* now >= nextUpdate */
	if (!strcmp(when, "future")) { thisu = 1700000000 + 1; nextu = 1700000000 + 86400; }
	if (!ok || sk < 1 || sk > NKEYS || !serial.n
		|| x509_name_set(caname, &canamelen, sizeof caname, "CN", NULL, NULL, "VERIF", NULL, "CA") != 1
		|| x509_name_set(othername, &othernamelen, sizeof othername, "CN", NULL, NULL, "VERIF", NULL, "CB") != 1
		|| x509_name_set(eename, &eenamelen, sizeof eename, "CN", NULL, NULL, "VERIF", NULL, "EE") != 1) { printf("ERR args"); goto end; }
	ca = ca_cert_for(caname, canamelen, 1);
	if (dp && x509_exts_add_crl_distribution_points(exts, &extslen, sizeof exts, -1, crl_uri(), strlen(crl_uri()), NULL, 0) != 1) { printf("ERR exts"); goto end; }
	if (x509_exts_add_key_usage(exts, &extslen, sizeof exts, X509_critical, X509_KU_DIGITAL_SIGNATURE) != 1) { printf("ERR exts"); goto end; }
	if (!ca.p || x509_cert_sign_to_der(X509_version_v3, serial.p, serial.n, OID_sm2sign_with_sm3, caname, canamelen, 1699990000, 1700090000, eename, eenamelen,
		&keys[2], NULL, 0, NULL, 0, exts, extslen, &keys[1], SM2_DEFAULT_ID, SM2_DEFAULT_ID_LENGTH, NULL, &certlen) != 1) { printf("ERR cert"); goto end; }
	cert = malloc(certlen); q = cert; certlen = 0;
	if (x509_cert_sign_to_der(X509_version_v3, serial.p, serial.n, OID_sm2sign_with_sm3, caname, canamelen, 1699990000, 1700090000, eename, eenamelen,
		&keys[2], NULL, 0, NULL, 0, exts, extslen, &keys[1], SM2_DEFAULT_ID, SM2_DEFAULT_ID_LENGTH, &q, &certlen) != 1) { printf("ERR cert"); goto end; }
	iss.p = other_issuer ? othername : caname; iss.n = other_issuer ? othernamelen : canamelen;
	crl = issue_crl_raw(X509_version_v2, iss, thisu, nextu, rev, noex, sk);
	if (!crl.p) { printf("ERR crl"); goto end; }
	if (flip >= 0) crl.p[(size_t)((crl.n - 1) * (size_t)flip / 1000)] ^= (uint8_t)(1 << (flip % 8));
	served = crl.p; served_len = crl.n;
	r = x509_cert_check_crl(cert, certlen, ca.p, ca.n, SM2_DEFAULT_ID, SM2_DEFAULT_ID_LENGTH);
	printf("%s", r == 1 ? "1" : "ERR");
end:
	served = NULL; free(serial.p); free(rev.p); free(ca.p); free(crl.p); free(cert);
}

/* ------------------------------------------------------------------ concurrent issuing (wave 3)
 * threads <kind> <iters>: two threads build the same kind of extension / name from different inputs, each compares every
 * result with the value it computed alone before the other thread started.  Any shared scratch state shows as a mismatch. */
#include <pthread.h>
typedef struct { const char *kind; int id; long iters; long mismatches; uint8_t ref[1024]; size_t reflen; } thr_t;
static int build_kind(const char *kind, int id, uint8_t *out, size_t *outlen, size_t max) {
	uint8_t in[300]; size_t i; char uri[200];
	for (i = 0; i < sizeof in; i++) in[i] = (uint8_t)(id * 0x55 + i * (id + 1));
	for (i = 0; i < sizeof uri - 1; i++) uri[i] = (char)('a' + (i * (id + 3) + id) % 26);
	memcpy(uri, "http://", 7); uri[sizeof uri - 1] = 0;
	*outlen = 0;
	if (!strcmp(kind, "aki")) return x509_exts_add_authority_key_identifier(out, outlen, max, -1, in, 250, NULL, 0, NULL, 0);
	if (!strcmp(kind, "ski")) return x509_exts_add_subject_key_identifier(out, outlen, max, -1, in, 64);
	if (!strcmp(kind, "eku")) { int o1[] = { OID_kp_server_auth, OID_kp_client_auth, OID_kp_code_signing }, o2[] = { OID_kp_ocsp_signing, OID_kp_time_stamping, OID_kp_email_protection };
		return x509_exts_add_ext_key_usage(out, outlen, max, -1, id ? o1 : o2, 3); }
	if (!strcmp(kind, "crldp")) return x509_exts_add_crl_distribution_points(out, outlen, max, -1, uri, 180, NULL, 0);
	if (!strcmp(kind, "aia")) return x509_exts_add_authority_info_access(out, outlen, max, 0, uri, 180, NULL, 0);
	if (!strcmp(kind, "nc")) return x509_exts_add_name_constraints(out, outlen, max, 1, in, 250, NULL, 0);
	if (!strcmp(kind, "name")) { char cn[40]; for (i = 0; i < 39; i++) cn[i] = (char)('A' + (i + id * 7) % 26); cn[39] = 0;
		return x509_name_set(out, outlen, max, id ? "CN" : "US", cn, cn, cn, cn, cn); }
	return -1;
}
static void *thr_main(void *arg) {
	thr_t *t = arg; long n; uint8_t buf[1024]; size_t len;
	for (n = 0; n < t->iters; n++) {
		if (build_kind(t->kind, t->id, buf, &len, sizeof buf) != 1 || len != t->reflen || memcmp(buf, t->ref, len)) t->mismatches++;
	}
	return NULL;
}
static void do_threads(const char *kind, long iters) {
	thr_t t[2]; pthread_t th[2]; int i;
	for (i = 0; i < 2; i++) { t[i].kind = kind; t[i].id = i; t[i].iters = iters; t[i].mismatches = 0;
		if (build_kind(kind, i, t[i].ref, &t[i].reflen, sizeof t[i].ref) != 1) { printf("ERR build"); return; } }
	for (i = 0; i < 2; i++) pthread_create(&th[i], NULL, thr_main, &t[i]);
	for (i = 0; i < 2; i++) pthread_join(th[i], NULL);
	printf("mismatches=%ld", t[0].mismatches + t[1].mismatches);
}

/* ------------------------------------------------------------------ builder order (wave 4)
 * every extension builder of x509_ext.h / x509_crl.h, with fixed arguments per variant, alone (extsolo) and at every place of a
 * list (extlist); the list is parsed back element by element and carried through a certificate / CRL. */
static const char *COVERED_BUILDERS =
	"x509_exts_add_authority_key_identifier x509_exts_add_default_authority_key_identifier x509_exts_add_subject_key_identifier "
	"x509_exts_add_subject_key_identifier_ex x509_exts_add_key_usage x509_exts_add_certificate_policies x509_exts_add_policy_mappings "
	"x509_exts_add_subject_alt_name x509_exts_add_issuer_alt_name x509_exts_add_subject_directory_attributes x509_exts_add_name_constraints "
	"x509_exts_add_policy_constraints x509_exts_add_basic_constraints x509_exts_add_ext_key_usage x509_exts_add_crl_distribution_points_ex "
	"x509_exts_add_crl_distribution_points x509_exts_add_inhibit_any_policy x509_exts_add_freshest_crl x509_exts_add_authority_info_access "
	"x509_exts_add_sequence "
	"x509_crl_exts_add_authority_key_identifier x509_crl_exts_add_default_authority_key_identifier x509_crl_exts_add_issuer_alt_name "
	"x509_crl_exts_add_crl_number_ex x509_crl_exts_add_crl_number x509_crl_exts_add_delta_crl_indicator x509_crl_exts_add_issuing_distribution_point "
	"x509_crl_exts_add_freshest_crl x509_crl_exts_add_authority_info_acess "
	"x509_crl_entry_exts_to_der x509_crl_reason_ext_to_der x509_invalidity_date_ext_to_der x509_cert_issuer_ext_to_der x509_crl_entry_ext_to_der x509_crl_ext_to_der";
static int add_builder(int crl, const char *name, int var, uint8_t *b, size_t *l, size_t max) {
	uint8_t raw[64]; size_t i; char uri[48], uri2[48]; static const int eku1[] = { OID_kp_server_auth, OID_kp_client_auth }, eku2[] = { OID_kp_ocsp_signing };
	for (i = 0; i < sizeof raw; i++) raw[i] = (uint8_t)(0x30 + ((i * 7 + var * 13) & 0x0f));
	snprintf(uri, sizeof uri, "http://crl%d.example/%s.crl", var, name); snprintf(uri2, sizeof uri2, "http://ocsp%d.example/%s", var, name);
	if (!crl) {
		if (!strcmp(name, "aki")) return x509_exts_add_authority_key_identifier(b, l, max, -1, raw, 20 + (size_t)var, NULL, 0, NULL, 0);
		if (!strcmp(name, "daki")) return x509_exts_add_default_authority_key_identifier(b, l, max, &keys[1 + var]);
		if (!strcmp(name, "ski")) return x509_exts_add_subject_key_identifier(b, l, max, -1, raw, 20 + (size_t)var * 10);
		if (!strcmp(name, "skiex")) return x509_exts_add_subject_key_identifier_ex(b, l, max, var ? 0 : -1, &keys[1 + var]);
		if (!strcmp(name, "ku")) return x509_exts_add_key_usage(b, l, max, X509_critical, var ? 96 : 1);
		if (!strcmp(name, "cp")) return x509_exts_add_certificate_policies(b, l, max, -1, raw, 10 + (size_t)var);
		if (!strcmp(name, "pm")) return x509_exts_add_policy_mappings(b, l, max, X509_critical, raw, 12 + (size_t)var);
		if (!strcmp(name, "san")) return x509_exts_add_subject_alt_name(b, l, max, var ? X509_critical : -1, raw, 30 + (size_t)var);
		if (!strcmp(name, "ian")) return x509_exts_add_issuer_alt_name(b, l, max, -1, raw, 9 + (size_t)var);
		if (!strcmp(name, "sda")) return x509_exts_add_subject_directory_attributes(b, l, max, -1, raw, 17 + (size_t)var);
		if (!strcmp(name, "nc")) return x509_exts_add_name_constraints(b, l, max, X509_critical, raw, 22 + (size_t)var, var ? raw : NULL, var ? 5 : 0);
		if (!strcmp(name, "pc")) return x509_exts_add_policy_constraints(b, l, max, X509_critical, 1 + var, var ? 2 : -1);
		if (!strcmp(name, "bc")) return x509_exts_add_basic_constraints(b, l, max, X509_critical, 1, var ? 3 : -1);
		if (!strcmp(name, "eku")) return x509_exts_add_ext_key_usage(b, l, max, -1, var ? eku2 : eku1, var ? 1 : 2);
		/* the 4th/5th parameters are (oid, critical) or (critical, oid) according to the header the harness is compiled against;
		   run.py reads the prototype and asks for the matching call */
		if (!strcmp(name, "crldpex")) return x509_exts_add_crl_distribution_points_ex(b, l, max, OID_ce_freshest_crl, -1, uri, strlen(uri), NULL, 0);
		if (!strcmp(name, "crldpexh")) return x509_exts_add_crl_distribution_points_ex(b, l, max, -1, OID_ce_freshest_crl, uri, strlen(uri), NULL, 0);
		if (!strcmp(name, "crldp")) return x509_exts_add_crl_distribution_points(b, l, max, -1, uri, strlen(uri), NULL, 0);
		if (!strcmp(name, "iap")) return x509_exts_add_inhibit_any_policy(b, l, max, X509_critical, var);
		if (!strcmp(name, "fcrl")) return x509_exts_add_freshest_crl(b, l, max, -1, raw, 14 + (size_t)var);
		if (!strcmp(name, "aia")) return x509_exts_add_authority_info_access(b, l, max, 0, uri, strlen(uri), var ? uri2 : NULL, var ? strlen(uri2) : 0);
		if (!strcmp(name, "seq")) return x509_exts_add_sequence(b, l, max, OID_ce_certificate_policies, -1, raw, 8 + (size_t)var);
	} else {
		if (!strcmp(name, "aki")) return x509_crl_exts_add_authority_key_identifier(b, l, max, -1, raw, 20 + (size_t)var, NULL, 0, NULL, 0);
		if (!strcmp(name, "daki")) return x509_crl_exts_add_default_authority_key_identifier(b, l, max, &keys[1 + var]);
		if (!strcmp(name, "ian")) return x509_crl_exts_add_issuer_alt_name(b, l, max, -1, raw, 11 + (size_t)var);
		if (!strcmp(name, "crlnumex")) return x509_crl_exts_add_crl_number_ex(b, l, max, OID_ce_crl_number, -1, 300 + var);
		if (!strcmp(name, "crlnum")) return x509_crl_exts_add_crl_number(b, l, max, -1, 5 + var);
		if (!strcmp(name, "delta")) return x509_crl_exts_add_delta_crl_indicator(b, l, max, X509_critical, 2 + var);
		if (!strcmp(name, "idp")) return x509_crl_exts_add_issuing_distribution_point(b, l, max, X509_critical, uri, strlen(uri), var, -1, -1, var ? -1 : 1, -1);
		if (!strcmp(name, "fcrl")) return x509_crl_exts_add_freshest_crl(b, l, max, -1, uri, strlen(uri), NULL, 0);
		if (!strcmp(name, "aia")) return x509_crl_exts_add_authority_info_acess(b, l, max, 0, uri, strlen(uri), var ? uri2 : NULL, var ? strlen(uri2) : 0);
	}
	return -9;
}
static void do_extsolo(int crl, char *tok) {
	uint8_t b[512]; size_t l = 0; char *dot = strchr(tok, '.'); int var = dot ? atoi(dot + 1) : 0; if (dot) *dot = 0;
	if (add_builder(crl, tok, var, b, &l, sizeof b) != 1) { printf("ERR"); return; }
	puthex(b, l);
}
static void do_extlist(int crl, char *list) {
	size_t max = 4096, l = 0, n = 0; uint8_t *b = malloc(max); char *save = NULL, *t; const uint8_t *d; size_t dl; char each[1024]; size_t el = 0;
	for (t = strtok_r(list, ",", &save); t; t = strtok_r(NULL, ",", &save)) {
		char *dot = strchr(t, '.'); int var = dot ? atoi(dot + 1) : 0; if (dot) *dot = 0;
		if (add_builder(crl, t, var, b, &l, max) != 1) { printf("ERR build %s", t); free(b); return; }
	}
	printf("list="); puthex(b, l);
	d = b; dl = l; each[0] = 0;
	while (dl) {
		int oid, crit = -9; uint32_t nodes[32]; size_t nc; const uint8_t *v; size_t vl; int r;
		r = crl ? x509_crl_ext_from_der_ex(&oid, nodes, &nc, &crit, &v, &vl, &d, &dl) : x509_ext_from_der(&oid, nodes, &nc, &crit, &v, &vl, &d, &dl);
		if (r != 1) { printf(" parse=ERR-at-%zu", n); free(b); return; }
		el += (size_t)snprintf(each + el, sizeof each - el, "%s%d:%zu", n ? ";" : "", crit, vl); n++;
	}
	printf(" n=%zu each=%s", n, each);
	{	/* through a certificate / a CRL */
		uint8_t name[256]; size_t namelen = 0; uint8_t serial[8] = { 1, 2, 3, 4, 5, 6, 7, 9 }; const uint8_t *ex2 = NULL; size_t ex2l = 0; int ok = 0;
		if (x509_name_set(name, &namelen, sizeof name, "CN", NULL, NULL, "VERIF", NULL, "order") != 1) { printf(" obj=ERR"); free(b); return; }
		if (!crl) {
			size_t clen = 0; uint8_t *cert, *q;
			if (x509_cert_sign_to_der(X509_version_v3, serial, 8, OID_sm2sign_with_sm3, name, namelen, 1699990000, 1700090000, name, namelen, &keys[1], NULL, 0, NULL, 0,
				b, l, &keys[1], SM2_DEFAULT_ID, SM2_DEFAULT_ID_LENGTH, NULL, &clen) == 1) {
				cert = malloc(clen); q = cert; clen = 0;
				if (x509_cert_sign_to_der(X509_version_v3, serial, 8, OID_sm2sign_with_sm3, name, namelen, 1699990000, 1700090000, name, namelen, &keys[1], NULL, 0, NULL, 0,
					b, l, &keys[1], SM2_DEFAULT_ID, SM2_DEFAULT_ID_LENGTH, &q, &clen) == 1
					&& x509_cert_get_exts(cert, clen, &ex2, &ex2l) == 1 && ex2l == l && !memcmp(ex2, b, l)
					&& x509_signed_verify(cert, clen, &keys[1], SM2_DEFAULT_ID, SM2_DEFAULT_ID_LENGTH) == 1) ok = 1;
				free(cert);
			}
		} else {
			buf_t iss = { name, namelen }, ex = { b, l }; blob_t none = { NULL, 0 }; blob_t c = issue_crl_raw(X509_version_v2, iss, 1699990000, 1700090000, none, ex, 1);
			if (c.p && x509_crl_get_details(c.p, c.n, NULL, NULL, NULL, NULL, NULL, NULL, NULL, NULL, &ex2, &ex2l, NULL, NULL, NULL) == 1 && ex2l == l && !memcmp(ex2, b, l)
				&& verify_crl(&c, name, namelen, 1, 0) == 1) ok = 1;   /* x509_crl_check refuses every critical extension, so it is not asked here */
			free(c.p);
		}
		printf(" obj=%d", ok);
	}
	free(b);
}
/* CRL entry extensions: one composing function, parsed back */
static void do_entryexts(char **w) {
	int reason = atoi(w[1]); long long date = strtoll(w[2], NULL, 10); buf_t iss = hex2buf(w[3]); uint8_t b[512]; uint8_t *p = b; size_t l = 0;
	int r2 = -9; time_t d2 = -9; const uint8_t *i2 = NULL; size_t i2l = 0; const uint8_t *cp; size_t cl;
	if (x509_crl_entry_exts_to_der(reason, (time_t)date, iss.n ? iss.p : NULL, iss.n, &p, &l) != 1) { printf("ERR build"); free(iss.p); return; }
	printf("der="); puthex(b, l);
	cp = b; cl = l;
	if (x509_crl_entry_exts_from_der(&r2, &d2, &i2, &i2l, &cp, &cl) != 1 || cl) printf(" parse=ERR");
	else { printf(" reason=%d date=%lld issuer=", r2, (long long)d2); puthex(i2, i2l); }
	free(iss.p);
}

/* ------------------------------------------------------------------ buffer reuse (wave 4)
 * reusebuf <order of 1/2>: one heap buffer; for every digit d the CA certificate d (same length, other name and key) is copied
 * into it IN PLACE, then both leaves and both CRLs are verified against that buffer and its subject is read back.
 * Results must follow the bytes, not the (pointer, length) pair. */
static void do_reusebuf(const char *order) {
	uint8_t nm[3][256]; size_t nml[3]; blob_t ca[3], leaf[3], crl[3]; uint8_t *shared; int d, L; const char *o; buf_t none = { NULL, 0 };
	uint8_t serial[8] = { 7, 7, 7, 7, 7, 7, 7, 7 }; blob_t norev = { NULL, 0 };
	for (d = 1; d <= 2; d++) {
		char cn[8]; size_t len = 0; uint8_t *q; buf_t iss;
		snprintf(cn, sizeof cn, "CA%d", d);
		if (x509_name_set(nm[d], &nml[d], sizeof nm[d], "CN", NULL, NULL, "VERIF", NULL, cn) != 1) { printf("ERR setup"); return; }
		ca[d] = ca_cert_for(nm[d], nml[d], d);
		leaf[d].p = NULL; leaf[d].n = 0;
		if (!ca[d].p || x509_cert_sign_to_der(X509_version_v3, serial, 8, OID_sm2sign_with_sm3, nm[d], nml[d], 1699990000, 1700090000, nm[d], nml[d], &keys[3], NULL, 0, NULL, 0, NULL, 0,
			&keys[d], SM2_DEFAULT_ID, SM2_DEFAULT_ID_LENGTH, NULL, &len) != 1) { printf("ERR setup"); return; }
		leaf[d].p = malloc(len); q = leaf[d].p;
		x509_cert_sign_to_der(X509_version_v3, serial, 8, OID_sm2sign_with_sm3, nm[d], nml[d], 1699990000, 1700090000, nm[d], nml[d], &keys[3], NULL, 0, NULL, 0, NULL, 0,
			&keys[d], SM2_DEFAULT_ID, SM2_DEFAULT_ID_LENGTH, &q, &leaf[d].n);
		iss.p = nm[d]; iss.n = nml[d];
		crl[d] = issue_crl_raw(X509_version_v2, iss, 1699990000, 1700090000, norev, none, d);
		if (!crl[d].p) { printf("ERR setup"); return; }
	}
	if (ca[1].n != ca[2].n) { printf("ERR lengths-differ"); return; }
	shared = malloc(ca[1].n);
	printf("len-equal=1");
	for (o = order; *o; o++) {
		const uint8_t *subj = NULL; size_t sl = 0; int who = 0;
		d = *o == '2' ? 2 : 1;
		memcpy(shared, ca[d].p, ca[d].n);
		if (x509_cert_get_subject(shared, ca[d].n, &subj, &sl) == 1) who = (sl == nml[1] && !memcmp(subj, nm[1], sl)) ? 1 : (sl == nml[2] && !memcmp(subj, nm[2], sl)) ? 2 : 9;
		printf(" %d:subject=%d", d, who);
		for (L = 1; L <= 2; L++) printf(",leaf%d=%d/%d,crl%d=%d", L,
			x509_cert_verify_by_ca_cert(leaf[L].p, leaf[L].n, shared, ca[d].n, SM2_DEFAULT_ID, SM2_DEFAULT_ID_LENGTH) == 1,
			x509_signed_verify_by_ca_cert(leaf[L].p, leaf[L].n, shared, ca[d].n, SM2_DEFAULT_ID, SM2_DEFAULT_ID_LENGTH) == 1, L,
			x509_crl_verify_by_ca_cert(crl[L].p, crl[L].n, shared, ca[d].n, SM2_DEFAULT_ID, SM2_DEFAULT_ID_LENGTH) == 1);
	}
	free(shared); for (d = 1; d <= 2; d++) { free(ca[d].p); free(leaf[d].p); free(crl[d].p); }
}

/* ------------------------------------------------------------------ wave 5: certificate lists, x509_crl_check, RevokedCertificate with entry extensions, *_to_der/_from_der wrappers */
/* certsidx <n> <bad -1|pos> <index>: n certificates (serial last byte = position + 1), optionally a non-certificate at <bad> */
static void do_certsidx(char **w) {
	int n = atoi(w[1]), bad = atoi(w[2]), idx = atoi(w[3]); uint8_t *all = malloc(1); size_t alen = 0; int i; uint8_t name[256]; size_t namelen = 0;
	const uint8_t *c = NULL; size_t cl = 0; size_t cnt = 0; int r; const uint8_t *ser, *iss; size_t sl, il;
	x509_name_set(name, &namelen, sizeof name, "CN", NULL, NULL, "VERIF", NULL, "list");
	for (i = 0; i < n; i++) {
		if (i == bad) { static const uint8_t junk[] = { 0x30, 0x03, 0x02, 0x01, 0x05 }; all = realloc(all, alen + sizeof junk); memcpy(all + alen, junk, sizeof junk); alen += sizeof junk; }
		else { uint8_t serial[4] = { 1, 1, 1, (uint8_t)(i + 1) }; size_t len = 0; uint8_t *q;
			if (x509_cert_sign_to_der(X509_version_v3, serial, 4, OID_sm2sign_with_sm3, name, namelen, 1699990000, 1700090000, name, namelen, &keys[1], NULL, 0, NULL, 0, NULL, 0,
				&keys[1], SM2_DEFAULT_ID, SM2_DEFAULT_ID_LENGTH, NULL, &len) != 1) { printf("ERR build"); free(all); return; }
			all = realloc(all, alen + len); q = all + alen;
			x509_cert_sign_to_der(X509_version_v3, serial, 4, OID_sm2sign_with_sm3, name, namelen, 1699990000, 1700090000, name, namelen, &keys[1], NULL, 0, NULL, 0, NULL, 0,
				&keys[1], SM2_DEFAULT_ID, SM2_DEFAULT_ID_LENGTH, &q, &alen); }
	}
	{ uint8_t *e = malloc(alen ? alen : 1); memcpy(e, all, alen); free(all); all = e; }
	r = x509_certs_get_cert_by_index(all, alen, idx, &c, &cl);
	if (r == 1 && x509_cert_get_issuer_and_serial_number(c, cl, &iss, &il, &ser, &sl) == 1) printf("idx=%d", ser[sl - 1]); else printf("idx=%s", r == 0 ? "none" : "ERR");
	r = x509_certs_get_last(all, alen, &c, &cl);
	if (r == 1 && x509_cert_get_issuer_and_serial_number(c, cl, &iss, &il, &ser, &sl) == 1) printf(" last=%d", ser[sl - 1]); else printf(" last=%s", r == 0 ? "none" : "ERR");
	r = x509_certs_get_count(all, alen, &cnt);
	if (r == 1) printf(" count=%zu", cnt); else printf(" count=ERR");
	free(all);
}
/* crlchk <version> <this> <next|-1> <now> <exts a,b|->: x509_crl_check on a CRL with extensions built by the CRL builders */
static void do_crlchk(char **w) {
	int version = atoi(w[1]); long long thisu = strtoll(w[2], NULL, 10), nextu = strtoll(w[3], NULL, 10), now = strtoll(w[4], NULL, 10);
	uint8_t exts[1024]; size_t el = 0; uint8_t name[256]; size_t namelen = 0; buf_t iss, ex; blob_t none = { NULL, 0 }, c; char *save = NULL, *t;
	x509_name_set(name, &namelen, sizeof name, "CN", NULL, NULL, "VERIF", NULL, "chk");
	if (strcmp(w[5], "-")) for (t = strtok_r(w[5], ",", &save); t; t = strtok_r(NULL, ",", &save)) {
		char *dot = strchr(t, '.'); int var = dot ? atoi(dot + 1) : 0; if (dot) *dot = 0;
		if (add_builder(1, t, var, exts, &el, sizeof exts) != 1) { printf("ERR build"); return; } }
	iss.p = name; iss.n = namelen; ex.p = exts; ex.n = el;
	c = issue_crl_raw(version, iss, thisu, nextu, none, ex, 1);
	if (!c.p) { printf("ERR issue"); return; }
	printf("%s", x509_crl_check(c.p, c.n, (time_t)now) == 1 ? "1" : "ERR");
	free(c.p);
}
/* revokeex <serial> <date> <reason> <invalid date> <issuer> <via cert 0|1>: RevokedCertificate with entry extensions */
static void do_revokeex(char **w) {
	buf_t serial = hex2buf(w[1]), iss = hex2buf(w[5]); long long date = strtoll(w[2], NULL, 10), inv = strtoll(w[4], NULL, 10); int reason = atoi(w[3]), via = atoi(w[6]);
	uint8_t b[1024]; uint8_t *p = b; size_t l = 0; int r; const uint8_t *s2, *i2, *cp; size_t s2l, i2l, cl; time_t d2, inv2; int r2;
	if (via) {
		uint8_t name[256]; size_t namelen = 0; size_t clen = 0; uint8_t *cert, *q;
		x509_name_set(name, &namelen, sizeof name, "CN", NULL, NULL, "VERIF", NULL, "rv");
		if (x509_cert_sign_to_der(X509_version_v3, serial.p, serial.n, OID_sm2sign_with_sm3, name, namelen, 1699990000, 1700090000, name, namelen, &keys[1], NULL, 0, NULL, 0, NULL, 0,
			&keys[1], SM2_DEFAULT_ID, SM2_DEFAULT_ID_LENGTH, NULL, &clen) != 1) { printf("ERR cert"); free(serial.p); free(iss.p); return; }
		cert = malloc(clen); q = cert; clen = 0;
		x509_cert_sign_to_der(X509_version_v3, serial.p, serial.n, OID_sm2sign_with_sm3, name, namelen, 1699990000, 1700090000, name, namelen, &keys[1], NULL, 0, NULL, 0, NULL, 0,
			&keys[1], SM2_DEFAULT_ID, SM2_DEFAULT_ID_LENGTH, &q, &clen);
		r = x509_cert_revoke_to_der(cert, clen, (time_t)date, reason, (time_t)inv, iss.n ? iss.p : NULL, iss.n, &p, &l);
		free(cert);
	} else r = x509_revoked_cert_to_der_ex(serial.p, serial.n, (time_t)date, reason, (time_t)inv, iss.n ? iss.p : NULL, iss.n, &p, &l);
	if (r != 1) { printf("ERR build"); free(serial.p); free(iss.p); return; }
	printf("der="); puthex(b, l);
	cp = b; cl = l;
	if (x509_revoked_cert_from_der_ex(&s2, &s2l, &d2, &r2, &inv2, &i2, &i2l, &cp, &cl) != 1 || cl) printf(" parse=ERR");
	else { printf(" serial="); puthex(s2, s2l); printf(" date=%lld reason=%d invalid=%lld issuer=", (long long)d2, r2, (long long)inv2); puthex(i2, i2l); }
	free(serial.p); free(iss.p);
}
/* wrap <cert|req|crl>: x509_*_to_der then x509_*_from_der of an issued object: same bytes, nothing left over */
static void do_wrap(const char *kind) {
	uint8_t name[256]; size_t namelen = 0; uint8_t serial[4] = { 9, 9, 9, 9 }; uint8_t obj[1024], out[1100]; uint8_t *q = obj, *p = out; size_t ol = 0, l = 0; const uint8_t *a, *cp; size_t al, cl; int r1, r2;
	x509_name_set(name, &namelen, sizeof name, "CN", NULL, NULL, "VERIF", NULL, "wrap");
	if (!strcmp(kind, "cert")) {
		x509_cert_sign_to_der(X509_version_v3, serial, 4, OID_sm2sign_with_sm3, name, namelen, 1699990000, 1700090000, name, namelen, &keys[1], NULL, 0, NULL, 0, NULL, 0, &keys[1], SM2_DEFAULT_ID, SM2_DEFAULT_ID_LENGTH, &q, &ol);
		r1 = x509_cert_to_der(obj, ol, &p, &l); cp = out; cl = l; r2 = x509_cert_from_der(&a, &al, &cp, &cl);
	} else if (!strcmp(kind, "req")) {
		x509_req_sign_to_der(X509_version_v1, name, namelen, &keys[1], name, 0, OID_sm2sign_with_sm3, &keys[1], SM2_DEFAULT_ID, SM2_DEFAULT_ID_LENGTH, &q, &ol);
		r1 = x509_req_to_der(obj, ol, &p, &l); cp = out; cl = l; r2 = x509_req_from_der(&a, &al, &cp, &cl);
	} else {
		x509_crl_sign_to_der(X509_version_v2, OID_sm2sign_with_sm3, name, namelen, 1699990000, 1700090000, NULL, 0, NULL, 0, &keys[1], SM2_DEFAULT_ID, SM2_DEFAULT_ID_LENGTH, &q, &ol);
		r1 = x509_crl_to_der(obj, ol, &p, &l); cp = out; cl = l; r2 = x509_crl_from_der(&a, &al, &cp, &cl);
	}
	printf("to_der=%d from_der=%d same=%d rest=%zu", r1, r2, r1 == 1 && r2 == 1 && l == ol && al == ol && !memcmp(a, obj, ol), cl);
	/* a truncated object must be refused by from_der */
	cp = out; cl = l ? l - 1 : 0;
	printf(" truncated=%d", (!strcmp(kind, "cert") ? x509_cert_from_der(&a, &al, &cp, &cl) : !strcmp(kind, "req") ? x509_req_from_der(&a, &al, &cp, &cl) : x509_crl_from_der(&a, &al, &cp, &cl)) == 1);
}

/* gnames <choice:hex,choice:hex,...> <find>: GeneralNames built with x509_general_names_add_general_name, read back with
 * x509_general_name_from_der element by element and searched with x509_general_names_get_first */
int x509_general_names_get_first(const uint8_t *gns, size_t gns_len, const uint8_t **ptr, int choice, const uint8_t **d, size_t *dlen);   /* exported, not in the header */
static void do_gnames(char *spec, int want) {
	uint8_t g[2048]; size_t gl = 0; char *save = NULL, *t; const uint8_t *p; size_t pl; size_t n = 0; const uint8_t *d; size_t dl; int r;
	for (t = strtok_r(spec, ",", &save); t; t = strtok_r(NULL, ",", &save)) {
		char *c = strchr(t, ':'); buf_t v; if (!c) { printf("ERR spec"); return; } *c++ = 0; v = hex2buf(c);
		r = x509_general_names_add_general_name(g, &gl, sizeof g, atoi(t), v.p, v.n); free(v.p);
		if (r != 1) { printf("ERR build"); return; }
	}
	printf("der="); puthex(g, gl);
	p = g; pl = gl; printf(" read=");
	while (pl) { int ch; if (x509_general_name_from_der(&ch, &d, &dl, &p, &pl) != 1) { printf("%sERR", n ? ";" : ""); n = 999; break; } printf("%s%d:", n ? ";" : "", ch); puthex(d, dl); n++; }
	r = x509_general_names_get_first(g, gl, NULL, want, &d, &dl);
	if (r == 1) { printf(" first=%d:", want); puthex(d, dl); } else printf(" first=%s", r == 0 ? "none" : "ERR");
}

/* ------------------------------------------------------------------ wave 5: payload codecs of the extensions and PEM wrappers (round-trip oracle)
 * payload <kind> <variant>: encode with x509_*_to_der from fixed arguments (two variants), decode with the matching _from_der, compare every field,
 * nothing may be left over.  Prints ok / MISMATCH / ENC-ERR / DEC-ERR. */
#define RT(cond) do { printf("der="); puthex(b, l); printf(" %s", (cond) ? "ok" : "MISMATCH"); return; } while (0)
int x509_uri_as_general_names_from_der_ex(int tag, const uint8_t **uri, size_t *urilen, const uint8_t **in, size_t *inlen);   /* exported, not in the header */
int x509_certificate_polices_check(const uint8_t *d, size_t dlen);
static void do_payload(const char *kind, int var) {
	uint8_t b[1024]; uint8_t *p = b; size_t l = 0; const uint8_t *cp = b; size_t cl;
	static const uint32_t oid1[] = { 1, 2, 3, 4, 5 }, oid2[] = { 2, 5, 29, 32, 0 }, oid3[] = { 1, 2, 840, 113549, 1, 9, 14 };
	static const uint8_t val[] = { 0x0c, 0x03, 'a', 'b', 'c' }; const uint8_t *txt = (const uint8_t *)(var ? "second text" : "text"); size_t txtl = strlen((const char *)txt);
	if (!strcmp(kind, "other_name")) { uint32_t n[32]; size_t nc = 0; const uint8_t *v; size_t vl;
		if (x509_other_name_to_der(var ? oid3 : oid1, var ? 7 : 5, val, sizeof val, &p, &l) != 1) { printf("ENC-ERR"); return; } cl = l;
		if (x509_other_name_from_der(n, &nc, &v, &vl, &cp, &cl) != 1 || cl) { printf("DEC-ERR"); return; }
		RT(nc == (var ? 7u : 5u) && !memcmp(n, var ? oid3 : oid1, nc * 4) && vl == sizeof val && !memcmp(v, val, vl)); }
	if (!strcmp(kind, "edi_party_name")) { int t1 = 777, t2 = 777; const uint8_t *a = b, *q = b; size_t al = 777, ql = 777;   /* sentinels: an absent optional must be reported, not left alone */
		if (x509_edi_party_name_to_der(var ? ASN1_TAG_UTF8String : -1, var ? txt : NULL, var ? txtl : 0, ASN1_TAG_PrintableString, (const uint8_t *)"party", 5, &p, &l) != 1) { printf("ENC-ERR"); return; } cl = l;
		if (x509_edi_party_name_from_der(&t1, &a, &al, &t2, &q, &ql, &cp, &cl) != 1 || cl) { printf("DEC-ERR"); return; }
		RT(t2 == ASN1_TAG_PrintableString && ql == 5 && !memcmp(q, "party", 5) && (var ? (t1 == ASN1_TAG_UTF8String && al == txtl && !memcmp(a, txt, al)) : al == 0)); }
	if (!strcmp(kind, "display_text")) { int t; const uint8_t *d; size_t dl; int tag = var ? ASN1_TAG_UTF8String : ASN1_TAG_IA5String;
		if (x509_display_text_to_der(tag, txt, txtl, &p, &l) != 1) { printf("ENC-ERR"); return; } cl = l;
		if (x509_display_text_from_der(&t, &d, &dl, &cp, &cl) != 1 || cl) { printf("DEC-ERR"); return; }
		RT(t == tag && dl == txtl && !memcmp(d, txt, dl)); }
	if (!strcmp(kind, "notice_reference")) { int nums[4] = { 1, 200, 70000, 5 }, out[8]; size_t oc = 0; int t; const uint8_t *o; size_t ol; size_t cnt = var ? 4 : 1;
		if (x509_notice_reference_to_der(ASN1_TAG_UTF8String, txt, txtl, nums, cnt, &p, &l) != 1) { printf("ENC-ERR"); return; } cl = l;
		if (x509_notice_reference_from_der(&t, &o, &ol, out, &oc, 8, &cp, &cl) != 1 || cl) { printf("DEC-ERR"); return; }
		RT(t == ASN1_TAG_UTF8String && ol == txtl && !memcmp(o, txt, ol) && oc == cnt && !memcmp(out, nums, cnt * sizeof(int))); }
	if (!strcmp(kind, "user_notice")) { int nums[2] = { 3, 4 }, out[8]; size_t oc = 777; int t1 = 777, t2 = 777; const uint8_t *o = b, *e = b; size_t ol = 777, el = 777;
		if (x509_user_notice_to_der(var ? ASN1_TAG_UTF8String : -1, var ? txt : NULL, var ? txtl : 0, var ? nums : NULL, var ? 2 : 0, ASN1_TAG_UTF8String, (const uint8_t *)"explicit", 8, &p, &l) != 1) { printf("ENC-ERR"); return; } cl = l;
		if (x509_user_notice_from_der(&t1, &o, &ol, out, &oc, 8, &t2, &e, &el, &cp, &cl) != 1 || cl) { printf("DEC-ERR"); return; }
		RT(t2 == ASN1_TAG_UTF8String && el == 8 && !memcmp(e, "explicit", 8) && (var ? (ol == txtl && oc == 2 && out[0] == 3 && out[1] == 4) : (ol == 0 && oc == 0))); }
	if (!strcmp(kind, "policy_qualifier_info")) { int oid = var ? OID_qt_unotice : OID_qt_cps, o2; const uint8_t *q; size_t ql;
		if (x509_policy_qualifier_info_to_der(oid, val, sizeof val, &p, &l) != 1) { printf("ENC-ERR"); return; } cl = l;
		if (x509_policy_qualifier_info_from_der(&o2, &q, &ql, &cp, &cl) != 1 || cl) { printf("DEC-ERR"); return; }
		RT(o2 == oid && ql == sizeof val && !memcmp(q, val, ql)); }
	if (!strcmp(kind, "policy_information")) { int o2 = 777; uint32_t n[32]; size_t nc = 777; const uint8_t *q = b; size_t ql = 777;
		if (x509_policy_information_to_der(var ? OID_undef : OID_any_policy, var ? oid1 : NULL, var ? 5 : 0, var ? val : NULL, var ? sizeof val : 0, &p, &l) != 1) { printf("ENC-ERR"); return; } cl = l;
		if (x509_policy_information_from_der(&o2, n, &nc, &q, &ql, &cp, &cl) != 1 || cl) { printf("DEC-ERR"); return; }
		RT(var ? (nc == 5 && !memcmp(n, oid1, 20) && ql == sizeof val && !memcmp(q, val, ql)) : (o2 == OID_any_policy && ql == 0)); }
	if (!strcmp(kind, "policy_mapping")) { int a, c2; uint32_t n1[32], n2[32]; size_t c1 = 0, c3 = 0;
		if (x509_policy_mapping_to_der(var ? OID_undef : OID_any_policy, var ? oid1 : NULL, var ? 5 : 0, OID_undef, oid2, 5, &p, &l) != 1) { printf("ENC-ERR"); return; } cl = l;
		if (x509_policy_mapping_from_der(&a, n1, &c1, &c2, n2, &c3, &cp, &cl) != 1 || cl) { printf("DEC-ERR"); return; }
		RT(c3 == 5 && !memcmp(n2, oid2, 20) && (var ? (c1 == 5 && !memcmp(n1, oid1, 20)) : a == OID_any_policy)); }
	if (!strcmp(kind, "attribute")) { int o; uint32_t n[32]; size_t nc = 0; const uint8_t *v; size_t vl;
		if (x509_attribute_to_der(var ? oid3 : oid1, var ? 7 : 5, val, sizeof val, &p, &l) != 1) { printf("ENC-ERR"); return; } cl = l;
		if (x509_attribute_from_der(&o, n, &nc, &v, &vl, &cp, &cl) != 1 || cl) { printf("DEC-ERR"); return; }
		RT(nc == (var ? 7u : 5u) && !memcmp(n, var ? oid3 : oid1, nc * 4) && vl == sizeof val && !memcmp(v, val, vl)); }
	if (!strcmp(kind, "general_subtree")) { int ch = 777, mn = 777, mx = 777; const uint8_t *bs = b; size_t bl = 777;
		if (x509_general_subtree_to_der(X509_gn_dns_name, (const uint8_t *)"example.org", 11, var ? 2 : -1, var ? 7 : -1, &p, &l) != 1) { printf("ENC-ERR"); return; } cl = l;
		if (x509_general_subtree_from_der(&ch, &bs, &bl, &mn, &mx, &cp, &cl) != 1 || cl) { printf("DEC-ERR"); return; }
		RT(ch == X509_gn_dns_name && bl == 11 && !memcmp(bs, "example.org", 11) && (var ? (mn == 2 && mx == 7) : (mx == -1 && (mn == 0 || mn == -1)))); }
	if (!strcmp(kind, "name_constraints")) { const uint8_t *a = b, *e = b; size_t al = 777, el = 777;
		if (x509_name_constraints_to_der(val, sizeof val, var ? val : NULL, var ? 3 : 0, &p, &l) != 1) { printf("ENC-ERR"); return; } cl = l;
		if (x509_name_constraints_from_der(&a, &al, &e, &el, &cp, &cl) != 1 || cl) { printf("DEC-ERR"); return; }
		RT(al == sizeof val && !memcmp(a, val, al) && el == (var ? 3u : 0u)); }
	if (!strcmp(kind, "policy_constraints")) { int a = 777, c2 = 777;
		if (x509_policy_constraints_to_der(var ? 3 : -1, var ? -1 : 300, &p, &l) != 1) { printf("ENC-ERR"); return; } cl = l;
		if (x509_policy_constraints_from_der(&a, &c2, &cp, &cl) != 1 || cl) { printf("DEC-ERR"); return; }
		RT(a == (var ? 3 : -1) && c2 == (var ? -1 : 300)); }
	if (!strcmp(kind, "issuing_distribution_point")) { int ch = 777, u = 777, c2 = 777, r = 777, ind = 777, at = 777; const uint8_t *d = b; size_t dl = 777;
		if (x509_issuing_distribution_point_to_der("http://a.example/x.crl", 22, var, -1, var ? 5 : -1, var ? -1 : 1, -1, &p, &l) != 1) { printf("ENC-ERR"); return; } cl = l;
		if (x509_issuing_distribution_point_from_der(&ch, &d, &dl, &u, &c2, &r, &ind, &at, &cp, &cl) != 1 || cl) { printf("DEC-ERR"); return; }
		if (getenv("C15_DEBUG")) fprintf(stdout, "[ch=%d dl=%zu u=%d c2=%d r=%d ind=%d at=%d] ", ch, dl, u, c2, r, ind, at);
		RT(dl > 22 && dl != 777 && u == var && c2 == -1 && at == -1 && (var ? (r == 5 && ind == -1) : (ind == 1 && r == -1))); }
	if (!strcmp(kind, "uri_as_general_names")) { const uint8_t *u; size_t ul; int tag = var ? ASN1_TAG_EXPLICIT(0) : ASN1_TAG_SEQUENCE;
		if (x509_uri_as_general_names_to_der_ex(tag, "http://a.example/", 17, &p, &l) != 1) { printf("ENC-ERR"); return; } cl = l;
		if (x509_uri_as_general_names_from_der_ex(tag, &u, &ul, &cp, &cl) != 1 || cl) { printf("DEC-ERR"); return; }
		RT(ul == 17 && !memcmp(u, "http://a.example/", 17)); }
	if (!strcmp(kind, "explicit_directory_name")) { int t; const uint8_t *d; size_t dl;
		if (x509_explicit_directory_name_to_der(var, ASN1_TAG_UTF8String, txt, txtl, &p, &l) != 1) { printf("ENC-ERR"); return; } cl = l;
		if (x509_explicit_directory_name_from_der(var, &t, &d, &dl, &cp, &cl) != 1 || cl) { printf("DEC-ERR"); return; }
		RT(t == ASN1_TAG_UTF8String && dl == txtl && !memcmp(d, txt, dl)); }
	if (!strcmp(kind, "gn_registered_id") || !strcmp(kind, "gn_other_name") || !strcmp(kind, "gn_edi_party_name")) { int ch; const uint8_t *d; size_t dl; int r;
		if (!strcmp(kind, "gn_registered_id")) r = x509_general_names_add_registered_id(b, &l, sizeof b, var ? oid3 : oid1, var ? 7 : 5);
		else if (!strcmp(kind, "gn_other_name")) r = x509_general_names_add_other_name(b, &l, sizeof b, oid1, 5, val, sizeof val);
		else r = x509_general_names_add_edi_party_name(b, &l, sizeof b, -1, NULL, 0, ASN1_TAG_PrintableString, (const uint8_t *)"party", 5);
		if (r != 1) { printf("ENC-ERR"); return; } cl = l;
		if (x509_general_name_from_der(&ch, &d, &dl, &cp, &cl) != 1 || cl) { printf("DEC-ERR"); return; }
		RT(ch == (!strcmp(kind, "gn_registered_id") ? 8 : !strcmp(kind, "gn_other_name") ? 0 : 5) && dl > 0); }
	if (!strcmp(kind, "validity_add_days")) { time_t na = 0; int days = var; int r = x509_validity_add_days(&na, 1700000000, days);      /* var = number of days */
		if (r == 1) printf("1 %lld", (long long)na); else printf("ERR"); return; }
	if (!strcmp(kind, "stubs")) {   /* builders that are declared but only return -1 */
		size_t dl = 0; printf("%d %d %d", x509_certificate_policies_add_policy_information(b, &dl, sizeof b, OID_any_policy, NULL, 0, NULL, 0),
			x509_certificate_polices_check(b, 0), x509_general_subtrees_add_general_subtree(b, &dl, sizeof b, X509_gn_dns_name, (const uint8_t *)"a", 1, -1, -1)); return; }
	printf("ERR kind");
}
/* pemrt <cert|certs|req|crl>: PEM out to a temporary file and back, compare */
static void do_pemrt(const char *kind) {
	uint8_t name[256]; size_t namelen = 0; uint8_t serial[4] = { 8, 8, 8, 8 }; uint8_t obj[2048], back[2048]; uint8_t *q = obj; size_t ol = 0, bl = 0; FILE *fp = tmpfile(); int r1 = -9, r2 = -9;
	x509_name_set(name, &namelen, sizeof name, "CN", NULL, NULL, "VERIF", NULL, "pem");
	if (!fp) { printf("ERR tmpfile"); return; }
	if (!strcmp(kind, "cert") || !strcmp(kind, "certs")) {
		x509_cert_sign_to_der(X509_version_v3, serial, 4, OID_sm2sign_with_sm3, name, namelen, 1699990000, 1700090000, name, namelen, &keys[1], NULL, 0, NULL, 0, NULL, 0, &keys[1], SM2_DEFAULT_ID, SM2_DEFAULT_ID_LENGTH, &q, &ol);
		if (!strcmp(kind, "certs")) { serial[0] = 9; x509_cert_sign_to_der(X509_version_v3, serial, 4, OID_sm2sign_with_sm3, name, namelen, 1699990000, 1700090000, name, namelen, &keys[2], NULL, 0, NULL, 0, NULL, 0, &keys[1], SM2_DEFAULT_ID, SM2_DEFAULT_ID_LENGTH, &q, &ol);
			r1 = x509_certs_to_pem(obj, ol, fp); rewind(fp); r2 = x509_certs_from_pem(back, &bl, sizeof back, fp); }
		else { r1 = x509_cert_to_pem(obj, ol, fp); rewind(fp); r2 = x509_cert_from_pem(back, &bl, sizeof back, fp); }
	} else if (!strcmp(kind, "req")) {
		x509_req_sign_to_der(X509_version_v1, name, namelen, &keys[1], name, 0, OID_sm2sign_with_sm3, &keys[1], SM2_DEFAULT_ID, SM2_DEFAULT_ID_LENGTH, &q, &ol);
		r1 = x509_req_to_pem(obj, ol, fp); rewind(fp); r2 = x509_req_from_pem(back, &bl, sizeof back, fp);
	} else if (!strcmp(kind, "bysubject")) {
		x509_cert_sign_to_der(X509_version_v3, serial, 4, OID_sm2sign_with_sm3, name, namelen, 1699990000, 1700090000, name, namelen, &keys[1], NULL, 0, NULL, 0, NULL, 0, &keys[1], SM2_DEFAULT_ID, SM2_DEFAULT_ID_LENGTH, &q, &ol);
		r1 = x509_cert_to_pem(obj, ol, fp); rewind(fp); r2 = x509_cert_from_pem_by_subject(back, &bl, sizeof back, name, namelen, fp);
	}
	else if (!strncmp(kind, "new", 3)) {    /* the allocating file readers of x509_new.c: named file in, exactly the object back; a missing file is refused and stores nothing */
		char path[] = "/tmp/c15_new_XXXXXX"; int fd = mkstemp(path); FILE *nf = fd >= 0 ? fdopen(fd, "w+") : NULL; uint8_t *got = NULL, *keep = (uint8_t *)obj; size_t gl = 0; int r0;
		if (!nf) { printf("ERR mkstemp"); fclose(fp); return; }
		if (!strcmp(kind, "newcert") || !strcmp(kind, "newcerts")) {
			x509_cert_sign_to_der(X509_version_v3, serial, 4, OID_sm2sign_with_sm3, name, namelen, 1699990000, 1700090000, name, namelen, &keys[1], NULL, 0, NULL, 0, NULL, 0, &keys[1], SM2_DEFAULT_ID, SM2_DEFAULT_ID_LENGTH, &q, &ol);
			if (!strcmp(kind, "newcerts")) { serial[0] = 9; x509_cert_sign_to_der(X509_version_v3, serial, 4, OID_sm2sign_with_sm3, name, namelen, 1699990000, 1700090000, name, namelen, &keys[2], NULL, 0, NULL, 0, NULL, 0, &keys[1], SM2_DEFAULT_ID, SM2_DEFAULT_ID_LENGTH, &q, &ol);
				r1 = x509_certs_to_pem(obj, ol, nf); fflush(nf); r2 = x509_certs_new_from_file(&got, &gl, path); got = got; keep = obj; r0 = x509_certs_new_from_file(&keep, &bl, "/tmp/c15_no_such_file"); }
			else { r1 = x509_cert_to_pem(obj, ol, nf); fflush(nf); r2 = x509_cert_new_from_file(&got, &gl, path); keep = obj; r0 = x509_cert_new_from_file(&keep, &bl, "/tmp/c15_no_such_file"); }
		} else {
			x509_req_sign_to_der(X509_version_v1, name, namelen, &keys[1], name, 0, OID_sm2sign_with_sm3, &keys[1], SM2_DEFAULT_ID, SM2_DEFAULT_ID_LENGTH, &q, &ol);
			r1 = x509_req_to_pem(obj, ol, nf); fflush(nf);
			if (!strcmp(kind, "newreqfp")) { rewind(nf); r2 = x509_req_new_from_pem(&got, &gl, nf); keep = obj; r0 = x509_req_new_from_pem(&keep, &bl, NULL); }
			else { r2 = x509_req_new_from_file(&got, &gl, path); keep = obj; r0 = x509_req_new_from_file(&keep, &bl, "/tmp/c15_no_such_file"); }
		}
		fclose(nf); unlink(path); fclose(fp);
		printf("to_pem=%d from_pem=%d same=%d missing-refused=%d", r1, r2, got && gl == ol && !memcmp(got, obj, ol), r0 != 1 && keep == obj);
		free(got); return;
	}
	fclose(fp);
	printf("to_pem=%d from_pem=%d same=%d", r1, r2, bl == ol && !memcmp(back, obj, ol));
}


/* ---- printall <cert|crl|req>: the text renderers on a well-formed object that carries every extension the builders can
   compose (nested payloads made with the *_to_der writers); every renderer that reports a status must report success */
static size_t rich_general_names(uint8_t *g, size_t max, const uint8_t *name, size_t namelen) {
	static const uint32_t oid1[] = { 1, 2, 3, 4, 5 }; static const uint8_t val[] = { 0x0c, 0x03, 'a', 'b', 'c' }, ip[4] = { 192, 0, 2, 1 }; size_t l = 0; int ok = 1;
	ok &= x509_general_names_add_other_name(g, &l, max, oid1, 5, val, sizeof val) == 1;
	ok &= x509_general_names_add_general_name(g, &l, max, X509_gn_rfc822_name, (const uint8_t *)"a@b.example", 11) == 1;
	ok &= x509_general_names_add_general_name(g, &l, max, X509_gn_dns_name, (const uint8_t *)"www.example.org", 15) == 1;
	{	/* directoryName is EXPLICIT: its value is the Name SEQUENCE itself */
		uint8_t nm[300]; uint8_t *np = nm; size_t nml = 0; ok &= asn1_sequence_to_der(name, namelen, &np, &nml) == 1;
		ok &= x509_general_names_add_general_name(g, &l, max, X509_gn_directory_name, nm, nml) == 1; }
	ok &= x509_general_names_add_edi_party_name(g, &l, max, ASN1_TAG_UTF8String, (const uint8_t *)"assigner", 8, ASN1_TAG_PrintableString, (const uint8_t *)"party", 5) == 1;
	ok &= x509_general_names_add_general_name(g, &l, max, X509_gn_uniform_resource_identifier, (const uint8_t *)"http://a.example/", 17) == 1;
	ok &= x509_general_names_add_general_name(g, &l, max, X509_gn_ip_address, ip, 4) == 1;
	ok &= x509_general_names_add_registered_id(g, &l, max, oid1, 5) == 1;
	return ok ? l : 0;
}
static void do_printall(const char *kind) {
	static const uint32_t oid1[] = { 1, 2, 3, 4, 5 }, oid2[] = { 2, 5, 29, 32, 1 }; static const uint8_t val[] = { 0x0c, 0x03, 'a', 'b', 'c' };
	static const int eku[] = { OID_kp_server_auth, OID_kp_client_auth, OID_kp_ocsp_signing };
	uint8_t name[256], gns[1024], ex[8192], t1[1024], t2[1024], raw[32]; size_t namelen = 0, gl, el = 0, l1, l2, i; uint8_t *p; uint8_t serial[4] = { 7, 7, 7, 7 };
	const char *uri = "http://crl.example/ca.crl", *uri2 = "http://ocsp.example/"; FILE *fp = tmpfile(); int ok = 1, r_top = -9, r_exts = -9, r_gns = -9, r_name = -9, r_more = 1; long size;
	if (!fp) { printf("ERR tmpfile"); return; }
	for (i = 0; i < sizeof raw; i++) raw[i] = (uint8_t)(i + 1);
	x509_name_set(name, &namelen, sizeof name, "CN", "Beijing", "Haidian", "VERIF", "unit", "print");
	gl = rich_general_names(gns, sizeof gns, name, namelen); if (!gl) { printf("ERR gns"); fclose(fp); return; }
	r_name = x509_name_print(fp, 0, 0, "name", name, namelen);
	r_gns = x509_general_names_print(fp, 0, 0, "generalNames", gns, gl);
	if (!strcmp(kind, "gn")) {      /* every GeneralName of the list rendered on its own: the list renderer does not report a member's failure */
		const uint8_t *cp = gns, *d; size_t cl = gl, dl; int ch; char each[64]; size_t n = 0;
		while (cl && n < 30) { if (x509_general_name_from_der(&ch, &d, &dl, &cp, &cl) != 1) { printf("ERR walk"); fclose(fp); return; }
			each[n++] = (char)('0' + ch); each[n++] = x509_general_name_print(fp, 0, 0, "GeneralName", ch, d, dl) == 1 ? '+' : '-'; }
		each[n] = 0; fclose(fp); printf("list=%d each=%s", r_gns, each); return; }
	if (!strcmp(kind, "cert")) {
		uint8_t *cert, *q; size_t clen = 0; const uint8_t *e2; size_t e2l;
		ok &= x509_exts_add_authority_key_identifier(ex, &el, sizeof ex, -1, raw, 20, gns, gl, serial, 4) == 1;
		ok &= x509_exts_add_subject_key_identifier(ex, &el, sizeof ex, -1, raw, 20) == 1;
		ok &= x509_exts_add_key_usage(ex, &el, sizeof ex, X509_critical, 0x1ff) == 1;
		/* certificatePolicies: anyPolicy with a CPS pointer and a user notice; a policy given by arcs without qualifiers */
		{	int nums[2] = { 1, 70000 }; uint8_t un[256], cps[64], *u = un, *c = cps; size_t unl = 0, cpsl = 0; l1 = 0; l2 = 0;
			ok &= x509_user_notice_to_der(ASN1_TAG_UTF8String, (const uint8_t *)"org", 3, nums, 2, ASN1_TAG_UTF8String, (const uint8_t *)"explicit text", 13, &u, &unl) == 1;
			ok &= asn1_ia5_string_to_der("http://cps.example/", 19, &c, &cpsl) == 1;
			p = t1; ok &= x509_policy_qualifier_info_to_der(OID_qt_cps, cps, cpsl, &p, &l1) == 1; ok &= x509_policy_qualifier_info_to_der(OID_qt_unotice, un, unl, &p, &l1) == 1;
			p = t2; ok &= x509_policy_information_to_der(OID_any_policy, NULL, 0, t1, l1, &p, &l2) == 1; ok &= x509_policy_information_to_der(OID_undef, oid1, 5, NULL, 0, &p, &l2) == 1;
			ok &= x509_exts_add_certificate_policies(ex, &el, sizeof ex, -1, t2, l2) == 1; }
		p = t1; l1 = 0; ok &= x509_policy_mapping_to_der(OID_undef, oid1, 5, OID_undef, oid2, 5, &p, &l1) == 1; ok &= x509_exts_add_policy_mappings(ex, &el, sizeof ex, X509_critical, t1, l1) == 1;
		ok &= x509_exts_add_subject_alt_name(ex, &el, sizeof ex, -1, gns, gl) == 1;
		ok &= x509_exts_add_issuer_alt_name(ex, &el, sizeof ex, -1, gns, gl) == 1;
		p = t1; l1 = 0; ok &= x509_attribute_to_der(oid1, 5, val, sizeof val, &p, &l1) == 1; ok &= x509_exts_add_subject_directory_attributes(ex, &el, sizeof ex, -1, t1, l1) == 1;
		p = t1; l1 = 0; ok &= x509_general_subtree_to_der(X509_gn_dns_name, (const uint8_t *)"example.org", 11, -1, -1, &p, &l1) == 1;
		p = t2; l2 = 0; ok &= x509_general_subtree_to_der(X509_gn_rfc822_name, (const uint8_t *)"x@example.org", 13, 2, 7, &p, &l2) == 1;
		ok &= x509_exts_add_name_constraints(ex, &el, sizeof ex, X509_critical, t1, l1, t2, l2) == 1;
		ok &= x509_exts_add_policy_constraints(ex, &el, sizeof ex, X509_critical, 2, 3) == 1;
		ok &= x509_exts_add_basic_constraints(ex, &el, sizeof ex, X509_critical, 1, 4) == 1;
		ok &= x509_exts_add_ext_key_usage(ex, &el, sizeof ex, -1, eku, 3) == 1;
		ok &= x509_exts_add_crl_distribution_points(ex, &el, sizeof ex, -1, uri, strlen(uri), NULL, 0) == 1;
		ok &= x509_exts_add_inhibit_any_policy(ex, &el, sizeof ex, X509_critical, 5) == 1;
		ok &= x509_exts_add_authority_info_access(ex, &el, sizeof ex, 0, uri, strlen(uri), uri2, strlen(uri2)) == 1;
		if (!ok) { printf("ERR build"); fclose(fp); return; }
		if (x509_cert_sign_to_der(X509_version_v3, serial, 4, OID_sm2sign_with_sm3, name, namelen, 1699990000, 1700090000, name, namelen, &keys[1], raw, 8, raw, 9,
			ex, el, &keys[1], SM2_DEFAULT_ID, SM2_DEFAULT_ID_LENGTH, NULL, &clen) != 1) { printf("ERR sign"); fclose(fp); return; }
		cert = malloc(clen); q = cert; clen = 0;
		x509_cert_sign_to_der(X509_version_v3, serial, 4, OID_sm2sign_with_sm3, name, namelen, 1699990000, 1700090000, name, namelen, &keys[1], raw, 8, raw, 9,
			ex, el, &keys[1], SM2_DEFAULT_ID, SM2_DEFAULT_ID_LENGTH, &q, &clen);
		r_top = x509_cert_print(fp, 0, 0, "Certificate", cert, clen);
		r_more = x509_certs_print(fp, 0, 0, "Certificates", cert, clen);
		{	uint8_t two[600]; uint8_t *tp = two; size_t tl = 0; asn1_sequence_to_der(name, namelen, &tp, &tl); asn1_sequence_to_der(name, namelen, &tp, &tl);
			r_more = r_more == 1 && x509_names_print(fp, 0, 0, "Names", two, tl) == 1 && x509_netscape_cert_type_print(fp, 0, 0, "netscapeCertType", 0xff) == 1
				&& x509_directory_name_print(fp, 0, 0, "directoryName", ASN1_TAG_UTF8String, (const uint8_t *)"text", 4) == 1; }
		if (x509_cert_get_exts(cert, clen, &e2, &e2l) == 1) r_exts = x509_exts_print(fp, 0, 0, "Extensions", e2, e2l);
		free(cert);
	} else if (!strcmp(kind, "crl")) {
		uint8_t rev[1024]; size_t rl = 0; buf_t iss = { name, namelen }, exb; blob_t rv, c; const uint8_t *e2 = NULL, *r2 = NULL; size_t e2l = 0, r2l = 0;
		p = rev; ok &= x509_revoked_cert_to_der_ex(serial, 4, 1699999000, X509_cr_key_compromise, 1699998000, gns, gl, &p, &rl) == 1;
		serial[0] = 8; ok &= x509_revoked_cert_to_der_ex(serial, 4, 1699999500, -1, -1, NULL, 0, &p, &rl) == 1;
		ok &= x509_crl_exts_add_authority_key_identifier(ex, &el, sizeof ex, -1, raw, 20, gns, gl, serial, 4) == 1;
		ok &= x509_crl_exts_add_issuer_alt_name(ex, &el, sizeof ex, -1, gns, gl) == 1;
		ok &= x509_crl_exts_add_crl_number(ex, &el, sizeof ex, -1, 17) == 1;
		ok &= x509_crl_exts_add_delta_crl_indicator(ex, &el, sizeof ex, X509_critical, 3) == 1;
		ok &= x509_crl_exts_add_issuing_distribution_point(ex, &el, sizeof ex, X509_critical, uri, strlen(uri), 1, -1, 5, -1, -1) == 1;
		ok &= x509_crl_exts_add_freshest_crl(ex, &el, sizeof ex, -1, uri, strlen(uri), NULL, 0) == 1;
		ok &= x509_crl_exts_add_authority_info_acess(ex, &el, sizeof ex, 0, uri, strlen(uri), uri2, strlen(uri2)) == 1;
		if (!ok) { printf("ERR build"); fclose(fp); return; }
		exb.p = ex; exb.n = el; rv.p = rev; rv.n = rl;
		c = issue_crl_raw(X509_version_v2, iss, 1699990000, 1700090000, rv, exb, 1);
		if (!c.p) { printf("ERR sign"); fclose(fp); return; }
		r_top = x509_crl_print(fp, 0, 0, "CRL", c.p, c.n);
		if (x509_crl_get_details(c.p, c.n, NULL, NULL, NULL, NULL, NULL, NULL, &r2, &r2l, &e2, &e2l, NULL, NULL, NULL) == 1) {
			const uint8_t *q2 = e2, *sn, *ee; size_t q2l = e2l, snl, eel; time_t rd; const uint8_t *x; size_t xl; int oid = -9;
			r_exts = x509_crl_exts_print(fp, 0, 0, "Extensions", e2, e2l); r_more = x509_revoked_certs_print(fp, 0, 0, "Revoked", r2, r2l);
			r_more = r_more == 1 && x509_crls_print(fp, 0, 0, "CRLs", c.p, c.n) == 1;
			/* first extension: SEQUENCE { extnID ... }: the identifier reader names authorityKeyIdentifier */
			r_more = r_more && asn1_sequence_from_der(&x, &xl, &q2, &q2l) == 1 && x509_crl_ext_id_from_der(&oid, &x, &xl) == 1 && oid == OID_ce_authority_key_identifier;
			/* first entry carries reason / invalidity date / certificate issuer as the library writes them: the entry-extension check accepts */
			r_more = r_more && x509_revoked_cert_from_der(&sn, &snl, &rd, &ee, &eel, &r2, &r2l) == 1 && ee && x509_crl_entry_exts_check(ee, eel) == 1; }
		free(c.p);
	} else if (!strcmp(kind, "req")) {
		uint8_t req[1024]; size_t ql = 0; p = req;
		if (x509_req_sign_to_der(X509_version_v1, name, namelen, &keys[1], name, 0, OID_sm2sign_with_sm3, &keys[1], SM2_DEFAULT_ID, SM2_DEFAULT_ID_LENGTH, &p, &ql) != 1) { printf("ERR sign"); fclose(fp); return; }
		r_top = x509_req_print(fp, 0, 0, "Request", req, ql); r_exts = 1;
	} else { printf("ERR kind"); fclose(fp); return; }
	fflush(fp); size = ftell(fp); fclose(fp);
	printf("top=%d exts=%d more=%d name=%d gns=%d text=%d", r_top, r_exts, r_more, r_name, r_gns, size > 200);
}
/* ---- names <table>: every identifier of a table has a name and the name leads back to it; an unknown name is refused */
static void do_names(const char *tab) {
	int lo = 0, hi = 400, id, n = 0, bad = 0, unk; const char *s;
#define TAB(nm, to_name, from_name, unk_expr) if (!strcmp(tab, nm)) { for (id = lo; id < hi; id++) { s = to_name(id); if (s) { n++; if (from_name(s) != id) bad++; } } unk = (unk_expr); printf("named>0=%d wrong-way-back=%d unknown-refused=%d", n > 0, bad, unk); return; }
	TAB("name_type", x509_name_type_name, x509_name_type_from_name, x509_name_type_from_name("no-such") <= 0)
	TAB("ext_id", x509_ext_id_name, x509_ext_id_from_name, x509_ext_id_from_name("no-such") <= 0)
	TAB("qualifier_id", x509_qualifier_id_name, x509_qualifier_id_from_name, x509_qualifier_id_from_name("no-such") <= 0)
	TAB("cert_policy_id", x509_cert_policy_id_name, x509_cert_policy_id_from_name, x509_cert_policy_id_from_name("no-such") <= 0)
	TAB("key_purpose", x509_key_purpose_name, x509_key_purpose_from_name, x509_key_purpose_from_name("no-such") <= 0)
	TAB("access_method", x509_access_method_name, x509_access_method_from_name, x509_access_method_from_name("no-such") <= 0)
	TAB("crl_entry_ext_id", x509_crl_entry_ext_id_name, x509_crl_entry_ext_id_from_name, x509_crl_entry_ext_id_from_name("no-such") <= 0)
	TAB("crl_ext_id", x509_crl_ext_id_name, x509_crl_ext_id_from_name, x509_crl_ext_id_from_name("no-such") <= 0)
#undef TAB
	if (!strcmp(tab, "crl_reason")) { for (id = 0; id < 16; id++) { int back = -9; s = x509_crl_reason_name(id); if (s) { n++; if (x509_crl_reason_from_name(&back, s) != 1 || back != id) bad++; } }
		{ int back; unk = x509_crl_reason_from_name(&back, "no-such") != 1; } printf("named>0=%d wrong-way-back=%d unknown-refused=%d", n > 0, bad, unk); return; }
	if (!strcmp(tab, "key_usage") || !strcmp(tab, "revoke_reason_flag")) { int ku = !strcmp(tab, "key_usage");
		for (id = 0; id < 9; id++) { int flag = 1 << id, back = -9; s = ku ? x509_key_usage_name(flag) : x509_revoke_reason_flag_name(flag);
			if (s) { n++; if ((ku ? x509_key_usage_from_name(&back, s) : x509_revoke_reason_flag_from_name(&back, s)) != 1 || back != flag) bad++; } }
		{ int back; unk = (ku ? x509_key_usage_from_name(&back, "no-such") : x509_revoke_reason_flag_from_name(&back, "no-such")) != 1; }
		printf("named>0=%d wrong-way-back=%d unknown-refused=%d", n > 0, bad, unk); return; }
	if (!strcmp(tab, "version")) { printf("named>0=%d wrong-way-back=0 unknown-refused=%d", x509_version_name(X509_version_v1) && x509_version_name(X509_version_v2) && x509_version_name(X509_version_v3), x509_version_name(9) == NULL); return; }
	if (!strcmp(tab, "key_purpose_text")) { printf("named>0=%d wrong-way-back=0 unknown-refused=%d", x509_key_purpose_text(OID_kp_server_auth) != NULL, x509_key_purpose_text(0) == NULL); return; }
	printf("ERR table");
}


/* ---- sigtrail <cert|req|crl> <n> <fill>: the issued object re-wrapped with n octets after the signature value inside the BIT STRING
   (n = 0: the same object again, as a control).  The signature value is one DER SEQUENCE { r, s }: anything after it is refused. */
static void do_sigtrail(const char *kind, int n, int fill) {
	uint8_t name[128]; size_t namelen = 0; uint8_t serial[4] = { 5, 5, 5, 5 }; uint8_t obj[2048], sig2[512], re[2600]; uint8_t *q = obj, *p; size_t ol = 0, rl = 0, len = 0;
	const uint8_t *cp, *d, *tbs, *alg, *sg; size_t cl, dl, tl, al, sl; int r0, r1; blob_t b;
	x509_name_set(name, &namelen, sizeof name, "CN", NULL, NULL, "VERIF", NULL, "trail");
	if (n < 0 || n > 200) { printf("ERR n"); return; }
	if (!strcmp(kind, "cert")) { if (x509_cert_sign_to_der(X509_version_v3, serial, 4, OID_sm2sign_with_sm3, name, namelen, 1699990000, 1700090000, name, namelen, &keys[1], NULL, 0, NULL, 0, NULL, 0, &keys[1], SM2_DEFAULT_ID, SM2_DEFAULT_ID_LENGTH, &q, &ol) != 1) { printf("ERR issue"); return; } }
	else if (!strcmp(kind, "req")) { if (x509_req_sign_to_der(X509_version_v1, name, namelen, &keys[1], name, 0, OID_sm2sign_with_sm3, &keys[1], SM2_DEFAULT_ID, SM2_DEFAULT_ID_LENGTH, &q, &ol) != 1) { printf("ERR issue"); return; } }
	else if (!strcmp(kind, "crl")) { buf_t iss = { name, namelen }, none = { NULL, 0 }; blob_t rv = { NULL, 0 }; blob_t c = issue_crl_raw(X509_version_v2, iss, 1699990000, 1700090000, rv, none, 1);
		if (!c.p || c.n > sizeof obj) { printf("ERR issue"); free(c.p); return; } memcpy(obj, c.p, c.n); ol = c.n; free(c.p); }
	else { printf("ERR kind"); return; }
	cp = obj; cl = ol;
	if (asn1_sequence_from_der(&d, &dl, &cp, &cl) != 1 || cl || asn1_any_from_der(&tbs, &tl, &d, &dl) != 1 || asn1_any_from_der(&alg, &al, &d, &dl) != 1
		|| asn1_bit_octets_from_der(&sg, &sl, &d, &dl) != 1 || dl || sl + (size_t)n > sizeof sig2) { printf("ERR split"); return; }
	memcpy(sig2, sg, sl); memset(sig2 + sl, fill, (size_t)n);
	asn1_bit_octets_to_der(sig2, sl + (size_t)n, NULL, &len); len += tl + al;
	p = re; asn1_sequence_header_to_der(len, &p, &rl); memcpy(p, tbs, tl); p += tl; memcpy(p, alg, al); p += al; rl += tl + al; asn1_bit_octets_to_der(sig2, sl + (size_t)n, &p, &rl);
	b.p = obj; b.n = ol;
	if (!strcmp(kind, "cert")) { r0 = verify_cert(&b, 1, 0); b.p = re; b.n = rl; r1 = verify_cert(&b, 1, 0); }
	else if (!strcmp(kind, "req")) { r0 = x509_req_verify(obj, ol, SM2_DEFAULT_ID, SM2_DEFAULT_ID_LENGTH); r1 = x509_req_verify(re, rl, SM2_DEFAULT_ID, SM2_DEFAULT_ID_LENGTH); }
	else { r0 = verify_crl(&b, name, namelen, 1, 0); b.p = re; b.n = rl; r1 = verify_crl(&b, name, namelen, 1, 0); }
	printf("issued=%d rewrapped=%d same-bytes=%d", r0 == 1, r1 == 1, rl == ol && !memcmp(re, obj, ol));
}

/* ------------------------------------------------------------------ single-bit modifications */
static void do_flipall(size_t nw, char **w) {
	const char *kind = w[1]; size_t step = strtoul(w[2], NULL, 10), off = strtoul(w[3], NULL, 10), i; int b;
	blob_t c = { NULL, 0 }; int sk = 1; long accepted = 0, tried = 0; long first_i = -1; int first_b = -1;
	buf_t issuer = { NULL, 0 };
	if (!strcmp(kind, "cert") && nw == 15) { c = issue_cert(w + 4); sk = atoi(w[14]); }
	else if (!strcmp(kind, "req") && nw == 8) { c = issue_req(w + 4); }
	else if (!strcmp(kind, "crl") && nw == 11) { issuer = hex2buf(w[5]); c = issue_crl(w + 4); sk = atoi(w[10]); }
	if (!c.p || step == 0) { printf("ERR issue"); free(issuer.p); return; }
	/* the unmodified object must verify */
	if ((!strcmp(kind, "cert") && verify_cert(&c, sk, 0) != 1) || (!strcmp(kind, "req") && x509_req_verify(c.p, c.n, SM2_DEFAULT_ID, SM2_DEFAULT_ID_LENGTH) != 1)
		|| (!strcmp(kind, "crl") && verify_crl(&c, issuer.p, issuer.n, sk, 0) != 1)) { printf("ERR unmodified-does-not-verify"); free(c.p); free(issuer.p); return; }
	for (i = off; i < c.n; i += step) for (b = 0; b < 8; b++) {
		int r;
		c.p[i] ^= (uint8_t)(1 << b);
		if (!strcmp(kind, "cert")) r = verify_cert(&c, sk, 0);
		else if (!strcmp(kind, "req")) r = x509_req_verify(c.p, c.n, SM2_DEFAULT_ID, SM2_DEFAULT_ID_LENGTH);
		else r = verify_crl(&c, issuer.p, issuer.n, sk, 0);
		c.p[i] ^= (uint8_t)(1 << b);
		tried++;
		if (r == 1) { if (!accepted) { first_i = (long)i; first_b = b; } accepted++; }
	}
	if (accepted) printf("ACCEPTED %ld of %ld first=byte%ld/bit%d len=%zu", accepted, tried, first_i, first_b, c.n);
	else printf("0");
	free(c.p); free(issuer.p);
}

static void handle(size_t nw, char **w) {
	ent_seed(0xC15 + nw, -1);            /* deterministic signatures per op */
	ent_clock(1700000000);
	if (!strcmp(w[0], "keys")) { int i; for (i = 1; i <= NKEYS; i++) { uint8_t xy[64]; sm2_z256_point_to_bytes(&keys[i].public_key, xy); if (i > 1) printf(" "); puthex(xy, 64); } }
	else if (!strcmp(w[0], "cert") && nw == 12) do_cert(w + 1);
	else if (!strcmp(w[0], "req") && nw == 5) do_req(w + 1);
	else if (!strcmp(w[0], "reqx") && nw == 6) { req_signkey = atoi(w[5]); do_req(w + 1); req_signkey = 0; }
	else if (!strcmp(w[0], "crl") && nw == 8) do_crl(w + 1);
	else if (!strcmp(w[0], "crlfind") && nw == 3) { int ok; blob_t rev = build_revoked(w[1], &ok); if (ok) crlfind_on(rev, w[2]); else printf("ERR build"); free(rev.p); }
	else if (!strcmp(w[0], "crlfindraw") && nw == 3) { buf_t raw = hex2buf(w[1]); blob_t rev = { raw.p, raw.n }; crlfind_on(rev, w[2]); free(raw.p); }
	else if (!strcmp(w[0], "name") && nw == 2) do_name(w[1]);
	else if (!strcmp(w[0], "ext") && nw >= 4) do_ext(nw, w);
	else if (!strcmp(w[0], "extlen") && nw == 4) do_extlen(w);
	else if (!strcmp(w[0], "sigalg") && nw == 5) do_sigalg(w);
	else if (!strcmp(w[0], "crlcheck") && nw == 9) do_crlcheck(w);
	else if (!strcmp(w[0], "reusebuf") && nw == 2) do_reusebuf(w[1]);
	else if (!strcmp(w[0], "certsidx") && nw == 4) do_certsidx(w);
	else if (!strcmp(w[0], "payload") && nw == 3) do_payload(w[1], atoi(w[2]));
	else if (!strcmp(w[0], "pemrt") && nw == 2) do_pemrt(w[1]);
	else if (!strcmp(w[0], "printall") && nw == 2) do_printall(w[1]);
	else if (!strcmp(w[0], "sigtrail") && nw == 4) do_sigtrail(w[1], atoi(w[2]), atoi(w[3]));
	else if (!strcmp(w[0], "names") && nw == 2) do_names(w[1]);
	else if (!strcmp(w[0], "gnames") && nw == 3) do_gnames(w[1], atoi(w[2]));
	else if (!strcmp(w[0], "crlchk") && nw == 6) do_crlchk(w);
	else if (!strcmp(w[0], "revokeex") && nw == 7) do_revokeex(w);
	else if (!strcmp(w[0], "wrap") && nw == 2) do_wrap(w[1]);
	else if (!strcmp(w[0], "builders")) printf("%s", COVERED_BUILDERS);
	else if (!strcmp(w[0], "extsolo") && nw == 3) do_extsolo(!strcmp(w[1], "r"), w[2]);
	else if (!strcmp(w[0], "extlist") && nw == 4) do_extlist(!strcmp(w[1], "r"), w[2]);
	else if (!strcmp(w[0], "entryexts") && nw == 4) do_entryexts(w);
	else if (!strcmp(w[0], "threads") && nw == 3) do_threads(w[1], strtol(w[2], NULL, 10));
	else if (!strcmp(w[0], "certck") && nw == 12) do_certck(w + 1);
	else if (!strcmp(w[0], "flipall")) do_flipall(nw, w);
	else printf("ERR bad-op");
}

#ifndef C15_NET
int main(void) {
	int i;
	quiet_stderr();
	ent_seed(0xC15C15, -1);
	for (i = 1; i <= NKEYS; i++) if (sm2_key_generate(&keys[i]) != 1) { printf("KEYGEN-FAIL\n"); return 2; }
	main_loop(handle);
	return 0;
}
#endif
