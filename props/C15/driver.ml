(* C15 model driver: composes certificates / requests / CRLs with the extracted SEQUENCE-level
   model, extracts the fields back with the extracted get_details, and prints the same canonical
   line as the harness.  Public keys of the harness' key table come from $C15_KEYS. *)

let hx = hex_of_bytes
let bx s = bytes_of_hex s
let split c s = String.split_on_char c s
let sm2alg = (try if Sys.getenv "C15_SM2_NULL" = "1" then alg_sm2sm3_null else alg_sm2sm3 with Not_found -> alg_sm2sm3)
let keys = try Array.of_list (List.map bx (split ' ' (Sys.getenv "C15_KEYS"))) with Not_found -> [||]
let key i = if i >= 1 && i <= Array.length keys then keys.(i - 1) else failwith "key index"
let ni = n_of_int
let zi = z_of_int
let n_of_i64 (s : string) : n = bign_of_hex (Printf.sprintf "%Lx" (Int64.of_string s))
let dummy_sig = fun (_ : n list) -> List.init 70 (fun i -> ni (i land 127))
let max_gen = 253402300799L
let time_ok s = let t = Int64.of_string s in t >= 0L && t <= max_gen
let rec last_n k l = let len = List.length l in if len <= k then l else last_n k (List.tl l)
let content = function Some (_, c) -> c | None -> []
let inner_content v = match v with
  | Some (_, c) -> (match tlv_dec c with Some ((_, c'), _) -> c' | None -> failwith "inner") | None -> []
let small_int_of c = List.fold_left (fun a b -> a * 256 + int_of_n b) 0 c

let cert_line ws = match ws with
  | [ver; serial; issuer; nb; na; subject; k; iu; su; ex; _sk] ->
    let v = int_of_string ver in
    if v < -1 || v > 2 || bx serial = [] || not (time_ok nb) || not (time_ok na) then "ERR issue"
    else if Int64.of_string nb >= Int64.of_string na then "ERR parse"
    else begin
      let vals = tbs_cert_values sm2alg (zi v) (bx serial) (bx issuer) (n_of_i64 nb) (n_of_i64 na) (bx subject) (key (int_of_string k)) (bx iu) (bx su) (bx ex) in
      let tbs = tlv (ni 48) (enc_items vals) in
      let cert = sign_to_der vals sm2alg dummy_sig in
      match get_details tbs_cert_layout cert with
      | Some ((vs, alg), _) ->
        let a = Array.of_list vs in
        let pver = (match a.(0) with Some (_, c) -> small_int_of (inner_content (Some (N0, c))) | None -> -1) in
        Printf.sprintf "tbs=%s ver=%d serial=%s alg=%s/%s issuer=%s nb=%s na=%s subject=%s key=%s iuid=%s suid=%s exts=%s verify=1 otherkey=0 otherid=0"
          (hx tbs) pver (hx (integer_value (content a.(1))))
          (if alg_is_sm2sm3 (content a.(2)) then "sm2sm3" else "other") (if alg_is_sm2sm3 alg then "sm2sm3" else "other")
          (hx (content a.(3))) nb na (hx (content a.(5))) (hx (last_n 64 (content a.(6))))
          (hx (match content a.(7) with _ :: r -> r | [] -> [])) (hx (match content a.(8) with _ :: r -> r | [] -> []))
          (hx (inner_content a.(9)))
      | None -> "MODEL-get_details-failed"
    end
  | _ -> "ERR bad-op"

let rec req_line ws = match ws with
  | [ver; subject; k; attrs; signkey] ->
    (* a request is checked against the key it carries: it verifies exactly when that key pair signed it *)
    let l = req_line [ver; subject; k; attrs] in
    if k = signkey then l else
      (let pat = " verify=1" in
       let n = String.length l and m = String.length pat in
       let rec find i = if i + m > n then -1 else if String.sub l i m = pat then i else find (i + 1) in
       let cut = find 0 in
       if cut < 0 then l else String.sub l 0 cut ^ " verify=0 otherid=0")
  | [ver; subject; k; attrs] ->
    let v = int_of_string ver in
    if v <> 0 then "ERR issue" else begin
      let vals = req_info_values (ni v) (bx subject) (key (int_of_string k)) (bx attrs) in
      let tbs = tlv (ni 48) (enc_items vals) in
      match get_details req_info_layout (sign_to_der vals sm2alg dummy_sig) with
      | Some ((vs, alg), _) ->
        let a = Array.of_list vs in
        Printf.sprintf "tbs=%s ver=%d subject=%s key=%s attrs=%s alg=%s verify=1 otherid=0"
          (hx tbs) (small_int_of (content a.(0))) (hx (content a.(1))) (hx (last_n 64 (content a.(2)))) (hx (content a.(3)))
          (if alg_is_sm2sm3 alg then "sm2sm3" else "other")
      | None -> "MODEL-get_details-failed"
    end
  | _ -> "ERR bad-op"

(* entries "serial:date[:exts],..." *)
let parse_entries s = if s = "-" then [] else List.map (fun e -> match split ':' e with
  | [sn; d] -> (bx sn, d, []) | [sn; d; x] -> (bx sn, d, bx x) | _ -> failwith "entry") (split ',' s)
let revoked_der es = List.concat (List.map (fun (sn, d, x) -> revoked_entry sn (n_of_i64 d) x) es)

let crl_line ws = match ws with
  | [ver; issuer; thisu; nextu; entries; ex; _sk] ->
    let v = int_of_string ver in
    let es = parse_entries entries in
    if List.exists (fun (sn, d, _) -> sn = [] || not (time_ok d)) es || not (time_ok thisu) || (nextu <> "-1" && not (time_ok nextu)) || v < -1 then "ERR issue"
    else begin
      let rev = revoked_der es and exts = bx ex in
      if (v >= 0 && v <> 1) || (rev <> [] && v <> 1) || (exts <> [] && v <> 1) then "ERR parse" else
      let vals = tbs_crl_values sm2alg (if v < 0 then None else Some (ni v)) (bx issuer) (n_of_i64 thisu)
          (if nextu = "-1" then None else Some (n_of_i64 nextu)) rev exts in
      let tbs = tlv (ni 48) (enc_items vals) in
      match get_details tbs_crl_layout (sign_to_der vals sm2alg dummy_sig) with
      | Some ((vs, alg), _) ->
        let a = Array.of_list vs in
        Printf.sprintf "tbs=%s ver=%d alg=%s/%s issuer=%s this=%s next=%s revoked=%s exts=%s verify=1 otherkey=0 otherid=0"
          (hx tbs) (match a.(0) with Some (_, c) -> small_int_of c | None -> -1)
          (if alg_is_sm2sm3 (content a.(1)) then "sm2sm3" else "other") (if alg_is_sm2sm3 alg then "sm2sm3" else "other")
          (hx (content a.(2))) thisu (match a.(4) with Some _ -> nextu | None -> "-1") (hx (content a.(5))) (hx (inner_content a.(6)))
      | None -> "MODEL-get_details-failed"
    end
  | _ -> "ERR bad-op"

let show_lookup = function
  | LErr -> "ERR" | LNotFound -> "0"
  | LFound (d, x) -> Printf.sprintf "1 %s %s" (Int64.to_string (Int64.of_string ("0x" ^ hex_of_bign d))) (hx x)

(* decode a GeneralizedTime / UTCTime content back to seconds: only what the model itself emits is
   needed, so search is avoided by carrying the date through the entry list where possible; for raw
   lists the date is recomputed by inverting [civil] numerically *)
let days_from_civil y m d =
  let y = if m <= 2 then y - 1 else y in
  let era = (if y >= 0 then y else y - 399) / 400 in
  let yoe = y - era * 400 in
  let doy = (153 * (if m > 2 then m - 3 else m + 9) + 2) / 5 + d - 1 in
  let doe = yoe * 365 + yoe / 4 - yoe / 100 + doy in
  era * 146097 + doe - 719468
let time_of_content tag (c : n list) : n option =
  let ds = List.map (fun b -> int_of_n b - 48) c in
  let two a b = a * 10 + b in
  match tag, ds with
  | 24, [y1; y2; y3; y4; mo1; mo2; d1; d2; h1; h2; mi1; mi2; s1; s2; 42] ->
    let secs = days_from_civil (two y1 y2 * 100 + two y3 y4) (two mo1 mo2) (two d1 d2) * 86400 + two h1 h2 * 3600 + two mi1 mi2 * 60 + two s1 s2 in
    if secs < 0 then None else Some (bign_of_hex (Printf.sprintf "%x" secs))
  | 23, [y3; y4; mo1; mo2; d1; d2; h1; h2; mi1; mi2; s1; s2; 42] ->
    let yy = two y3 y4 in let y = if yy >= 50 then 1900 + yy else 2000 + yy in
    let secs = days_from_civil y (two mo1 mo2) (two d1 d2) * 86400 + two h1 h2 * 3600 + two mi1 mi2 * 60 + two s1 s2 in
    if secs < 0 then None else Some (bign_of_hex (Printf.sprintf "%x" secs))
  | _ -> None

let rec raw_entries (d : n list) : (((n list * n) * n list) option) list =
  if d = [] then [] else
  match tlv_dec d with
  | Some ((t, c), rest) when int_of_n t = 48 ->
    (match dec_items entry_layout c with
     | Some ([Some (_, sn); Some (tt, tc); x], []) ->
       (match time_of_content (int_of_n tt) tc with
        | Some date -> Some ((sn, date), (match x with Some (_, xc) -> xc | None -> [])) :: raw_entries rest
        | None -> [None])
     | _ -> [None])
  | _ -> [None]

(* names: the Coq model Pki/X509Codec.v (name_build / name_dec / name_get_value), see C15_name_roundtrip *)
let attr_type_of = function
  | "C" -> AT_country | "ST" -> AT_state | "L" -> AT_locality | "O" -> AT_org | "OU" -> AT_org_unit | "CN" -> AT_common_name
  | "DC" -> AT_domain_component | _ -> failwith "type"

(* ---- payload structures of the extensions: each is a positional record (RFC 5280 syntax written out below) encoded with the
   model's generic enc_items / tlv (C15_fields_roundtrip is the round-trip theorem of that encoder); the field values are the
   ones the harness op uses *)
let payload_der kind var =
  let v = (var <> 0) in
  let f t c = Some (ni t, c) in                       (* present field *)
  let opt b x = if b then x else None in
  let record fields = tlv (ni 48) (enc_items fields) in
  let str s = List.init (String.length s) (fun i -> ni (Char.code s.[i])) in
  let oid1 = bx "2a030405" and oid2 = bx "551d2000" and oid3 = bx "2a864886f70d01090e" and any_policy = bx "551d2000" in
  let value = bx "0c03616263" in
  let txt = str (if v then "second text" else "text") in
  (* INTEGER content through the model's integer_content (leading zeros dropped, 00 put before a set top bit) *)
  let rec be n = if n < 256 then [ni n] else be (n / 256) @ [ni (n mod 256)] in
  let int_ n = f 2 (integer_content (be n)) in
  let uri = str "http://a.example/x.crl" in
  match kind with
  | "other_name" -> Some (record [f 6 (if v then oid3 else oid1); f 160 value])
  | "gn_other_name" -> Some (tlv (ni 160) (enc_items [f 6 oid1; f 160 value]))
  | "edi_party_name" -> Some (record [opt v (f 160 (tlv (ni 12) txt)); f 161 (tlv (ni 19) (str "party"))])
  | "gn_edi_party_name" -> Some (tlv (ni 165) (enc_items [f 161 (tlv (ni 19) (str "party"))]))
  | "display_text" -> Some (tlv (ni (if v then 12 else 22)) txt)
  | "notice_reference" -> Some (record [f 12 txt; f 48 (enc_items (List.map int_ (if v then [1; 200; 70000; 5] else [1])))])
  | "user_notice" -> Some (record [opt v (f 48 (enc_items [f 12 txt; f 48 (enc_items [int_ 3; int_ 4])])); f 12 (str "explicit")])
  | "policy_qualifier_info" -> Some (record [f 6 (bx (if v then "2b06010505070202" else "2b06010505070201")); Some (ni 12, str "abc")])
  | "policy_information" -> Some (record [f 6 (if v then oid1 else any_policy); opt v (f 48 value)])
  | "policy_mapping" -> Some (record [f 6 (if v then oid1 else any_policy); f 6 oid2])
  | "attribute" -> Some (record [f 6 (if v then oid3 else oid1); f 49 value])
  | "general_subtree" -> Some (record [f 130 (str "example.org"); opt v (f 128 [ni 2]); opt v (f 129 [ni 7])])
  | "name_constraints" -> Some (record [f 160 value; opt v (f 161 (bx "0c0361"))])
  | "policy_constraints" -> Some (record [opt v (f 128 [ni 3]); opt (not v) (f 129 (integer_content (be 300)))])
  | "issuing_distribution_point" ->
    (* distributionPoint [0] { fullName [0] { uniformResourceIdentifier [6] } }, onlyContainsUserCerts [1], onlySomeReasons [3], indirectCRL [4] *)
    Some (record [f 160 (tlv (ni 160) (tlv (ni 134) uri)); f 129 [ni (if v then 255 else 0)];
                  opt v (f 131 (bx "05a0")); opt (not v) (f 132 [ni 255])])
  | "uri_as_general_names" -> Some (tlv (ni (if v then 160 else 48)) (tlv (ni 134) (str "http://a.example/")))
  | "explicit_directory_name" -> Some (tlv (ni (if v then 161 else 160)) (tlv (ni 12) txt))
  | "gn_registered_id" -> Some (tlv (ni 136) (if v then oid3 else oid1))
  | _ -> None

let name_line spec =
  let attrs = List.map (fun a -> match split ':' a with
    | [ty; tg; v] -> let tg = (match ty with "C" -> 19 | "DC" -> 22 | _ -> int_of_string tg) in ((attr_type_of ty, ni tg), bx v)
    | _ -> failwith "attr") (split ',' spec) in
  match name_build attrs with
  | None -> "ERR"
  | Some der ->
    (match name_dec (nat_of_int (List.length attrs + 1)) der with
     | None -> "MODEL-name-does-not-parse"
     | Some l ->
       let order = ["C"; "ST"; "L"; "O"; "OU"; "CN"; "DC"] in
       let shown = List.filter_map (fun ty ->
         if List.exists (fun ((t, _), _) -> t = attr_type_of ty) attrs then
           (match name_get_value l (attr_type_of ty) with
            | Some (tg, v) -> Some (Printf.sprintf " %s=%d:%s" ty (int_of_n tg) (hx v))
            | None -> Some (Printf.sprintf " %s=ERR" ty))
         else None) order in
       "der=" ^ hx der ^ " check=1" ^ Printf.sprintf " rdns=%d" (List.length l) ^ String.concat "" shown)

let ext_line ws = match ws with
  | ["ku"; c; bits] -> let b = int_of_string bits in if b <= 0 then "ERR build" else Printf.sprintf "critical=%s bits=%d" c b
  | ["bc"; c; ca; pl] -> if ca = "-1" && pl = "-1" then "ERR build" else Printf.sprintf "critical=%s ca=%s pl=%s" c (if int_of_string ca > 0 then "1" else ca) pl
  | ["ski"; c; id] -> let l = List.length (bx id) in if l < 16 || l > 64 then "ERR build" else Printf.sprintf "critical=%s id=%s" c id
  | ["aki"; c; id] -> if bx id = [] then "ERR build" else Printf.sprintf "critical=%s id=%s" c id
  | ["eku"; c; l] -> let n = List.length (split '.' l) in if n > 7 then "ERR build" else Printf.sprintf "critical=%s purposes=%s" c l
  | ["iap"; c; v] -> if int_of_string v < 0 then "ERR build" else Printf.sprintf "critical=%s skip=%s" c v
  | _ -> "ERR bad-op"


(* wave 2: one extension builder at a given content length *)
let ext_oid = function
  | "cp" -> "551d20" | "pm" -> "551d21" | "san" -> "551d11" | "ian" -> "551d12" | "sda" -> "551d09" | "fcrl" -> "551d2e"
  | "ski" -> "551d0e" | "aki" -> "551d23" | _ -> ""
let extlen_line kind crit hex =
  let c = bx hex and cr = int_of_string crit in
  let n = List.length c in
  let seqkind = List.mem kind ["cp"; "pm"; "san"; "ian"; "sda"; "fcrl"] in
  let build_ok = (match kind with
    | "ski" -> n >= 16 && n <= 64
    | "aki" -> n >= 1 && n <= 480
    | "crldp" | "aia" -> n >= 1 && n <= 200
    | "nc" -> n >= 1 && n <= 500
    | _ -> seqkind && n >= 1) in
  if not build_ok then "build=ERR" else begin
    let oidtlv = tlv (ni 6) (bx (ext_oid kind)) in
    let ext = if seqkind then Some (ext_ex_emit oidtlv (zi cr) c)
      else if kind = "ski" then Some (ext_emit oidtlv (zi cr) (tlv (ni 4) c))
      else if kind = "aki" then Some (ext_emit oidtlv (zi cr) (tlv (ni 48) (tlv (ni 128) c)))
      else None in
    let parses = (match ext with
      | Some e -> (match ext_from_der e with Some ([Some (_, _); _; Some (_, _)], []) -> true | _ -> false)
      | None -> true) in
    if not parses then "MODEL-ext-does-not-parse" else
    let check = (match kind with
      | "pm" -> cr = 1 | "ian" | "sda" | "ski" | "aki" | "aia" -> cr <> 1 | _ -> true) in
    Printf.sprintf "build=1 ext=%s get=1 critical=%d inner=1 cert=1 exts_rt=1 ku_after=1 verify=1 check=%d"
      (match ext with Some e -> hx e | None -> "unmodelled") cr (if check then 1 else 0)
  end

(* wave 2: signature algorithm identifiers; outer ids as in the harness *)
let outer_alg_content = function
  | 0 -> "06082a811ccf55018375" | 1 -> "06082a811ccf550183750500" | 2 -> "06082a8648ce3d040302" | 3 -> "06092a864886f70d01010b0500"
  | 4 -> "06082a811ccf550183780500" | 8 -> "060b2a811ccf55019080808375" | 5 -> "06032a0304" | 6 -> "06082a8648ce3d0403020500" | _ -> "06082a811ccf55018375020105"
let oid_class = function 0 | 1 -> 0 | 2 | 6 -> 2 | 3 -> 3 | 4 -> 4 | _ -> -1     (* table entry, -1 = does not parse *)
let sigalg_line kind inner outer mode =
  let i = int_of_string inner and o = int_of_string outer in
  let parses = oid_class o >= 0 in
  let ver = parses && alg_is_sm2sm3 (bx (outer_alg_content o)) && mode = "good" in
  let agree = parses && oid_class i = oid_class o in
  let b x = if x then 1 else 0 in
  match kind with
  | "cert" -> Printf.sprintf "parse=%s verify=%d by_ca=%d check=%d" (if parses then "1" else "ERR") (b ver) (b ver) (b agree)
  | "req" -> Printf.sprintf "parse=%s verify=%d" (if parses then "1" else "ERR") (b ver)
  | _ -> Printf.sprintf "parse=%s verify=%d check=%d" (if parses then "1" else "ERR") (b ver) (b agree)


(* wave 4: extension lists in builder order; the expected concatenation of the solo encodings comes with the op *)
let extlist_line expect =
  let rec go inp n acc =
    if inp = [] then Some (n, List.rev acc) else
    match ext_from_der inp with
    | Some ([Some (_, _); b; Some (_, v)], rest) ->
      let crit = (match b with None -> -1 | Some (_, [x]) -> if int_of_n x = 0 then 0 else 1 | _ -> 1) in
      go rest (n + 1) (Printf.sprintf "%d:%d" crit (List.length v) :: acc)
    | _ -> None in
  match go (bx expect) 0 [] with
  | Some (n, each) -> Printf.sprintf "list=%s n=%d each=%s obj=1" expect n (String.concat ";" each)
  | None -> "MODEL-expected-list-does-not-parse"
let entryexts_line reason date issuer =
  let r = int_of_string reason and iss = bx issuer in
  if (r < 0 && date = "-1" && iss = []) || r > 10 then "ERR build" else      (* CRLReason is ENUMERATED 0..10 *)
  let e1 = if r < 0 then [] else ext_emit (tlv (ni 6) (bx "551d15")) (zi (-1)) [ni 10; ni 1; ni r] in
  let e2 = if date = "-1" then [] else ext_emit (tlv (ni 6) (bx "551d18")) (zi (-1)) (let (t, c) = gen_time_value (n_of_i64 date) in tlv t c) in
  let e3 = if iss = [] then [] else ext_emit (tlv (ni 6) (bx "551d1d")) (zi 1) (tlv (ni 48) iss) in
  Printf.sprintf "der=%s reason=%d date=%s issuer=%s" (hx (tlv (ni 48) (e1 @ e2 @ e3))) r date (hx iss)

(* wave 5 *)
let certsidx_line n bad idx =
  let l = List.init n (fun i -> if i = bad then None else Some (i + 1)) in
  let show = function FHit a -> string_of_int a | FNone -> "none" | FErr -> "ERR" in
  Printf.sprintf "idx=%s last=%s count=%d" (if idx < 0 then "ERR" else show (certs_by_index l (nat_of_int idx))) (show (certs_last l FNone)) n
let crl_ext_kind_of s = match List.hd (split '.' s) with
  | "delta" | "idp" -> (CE_delta_or_idp, zi 1) | "ian" -> (CE_issuer_alt_name, zi (-1)) | "aki" | "daki" -> (CE_aki, zi (-1))
  | "aia" -> (CE_other, zi 0) | _ -> (CE_other, zi (-1))
let crlchk_line version thisu nextu now exts =
  let v = int_of_string version in
  let es = if exts = "-" then [] else split ',' exts in
  if not (time_ok thisu) || (nextu <> "-1" && not (time_ok nextu)) || v < -1 then "ERR issue"
  else if (v >= 0 && v <> 1) || (es <> [] && v <> 1) then "ERR"                       (* x509_crl_get_details refuses it *)
  else if crl_check true (zi v) (bigz_of_hex (Printf.sprintf "%Lx" (Int64.of_string thisu)))
      (if nextu = "-1" then None else Some (bigz_of_hex (Printf.sprintf "%Lx" (Int64.of_string nextu))))
      (let n = Int64.of_string now in if n < 0L then bigz_of_hex ("-" ^ Printf.sprintf "%Lx" (Int64.neg n)) else bigz_of_hex (Printf.sprintf "%Lx" n))
      (List.map crl_ext_kind_of es) then "1" else "ERR"
let revokeex_line serial date reason inv issuer via =
  let r = int_of_string reason and iss = bx issuer in
  let sn = if via = "1" then integer_value (integer_content (bx serial)) else bx serial in
  if sn = [] || not (time_ok date) || (inv <> "-1" && not (time_ok inv)) then "ERR build" else
  let e1 = if r < 0 then [] else ext_emit (tlv (ni 6) (bx "551d15")) (zi (-1)) [ni 10; ni 1; ni r] in
  let e2 = if inv = "-1" then [] else ext_emit (tlv (ni 6) (bx "551d18")) (zi (-1)) (let (t, c) = gen_time_value (n_of_i64 inv) in tlv t c) in
  let e3 = if iss = [] then [] else ext_emit (tlv (ni 6) (bx "551d1d")) (zi 1) (tlv (ni 48) iss) in
  let exts = e1 @ e2 @ e3 in
  let der = tlv (ni 48) (tlv (ni 2) (integer_content sn) @ (let (t, c) = gen_time_value (n_of_i64 date) in tlv t c) @ (if exts = [] then [] else tlv (ni 48) exts)) in
  "der=" ^ hx der ^ (if exts = [] then " parse=ERR" else
    Printf.sprintf " serial=%s date=%s reason=%d invalid=%s issuer=%s" (hx (integer_value (integer_content sn))) date r inv (hx iss))

let gnames_line fix spec want =
  let items = List.map (fun t -> match split ':' t with [c; v] -> (int_of_string c, bx v) | _ -> failwith "gn") (split ',' spec) in
  let rec build acc = function
    | [] -> Some acc
    | (c, v) :: r -> (match general_name_enc fix (ni c) v with Some e -> build (acc @ e) r | None -> None) in
  match build [] items with
  | None -> "ERR build"
  | Some der ->
    let rec read inp acc = if inp = [] then String.concat ";" (List.rev acc) else
      match general_name_dec inp with
      | Some ((ch, c), rest) -> read rest (Printf.sprintf "%d:%s" (int_of_n ch) (hx c) :: acc)
      | None -> String.concat ";" (List.rev ("ERR" :: acc)) in
    let first = (match general_names_find (nat_of_int (List.length items + 1)) der (ni want) with
      | Some (Some c) -> Printf.sprintf "%d:%s" want (hx c) | Some None -> "none" | None -> "ERR") in
    Printf.sprintf "der=%s read=%s first=%s" (hx der) (read der []) first

let handle ws = match ws with
  | ["keys"] -> String.concat " " (Array.to_list (Array.map hx keys))
  | "cert" :: r -> cert_line r
  | "certck" :: r -> let l = cert_line r in if String.length l >= 3 && String.sub l 0 3 = "ERR" then l else l ^ " check=1"
  | ["extlen"; kind; crit; hex] -> extlen_line kind crit hex
  | ["sigalg"; kind; inner; outer; mode] -> sigalg_line kind inner outer mode
  | ["threads"; _; _] -> "mismatches=0"
  | ["certsidx"; n; bad; idx] -> certsidx_line (int_of_string n) (int_of_string bad) (int_of_string idx)
  | ["crlchk"; v; t; nx; now; exts] -> crlchk_line v t nx now exts
  | ["revokeex"; s; dt; r; inv; iss; via] -> revokeex_line s dt r inv iss via
  | ["payload"; "validity_add_days"; days] ->
    (match validity_add_days (zi 1700000000) (zi (int_of_string days)) with Some na -> "1 " ^ string_of_int (int_of_z na) | None -> "ERR")
  | ["payload"; "stubs"; _] -> "-1 -1 -1"      (* declared, but the bodies only return -1 *)
  | ["payload"; kind; var] -> (match payload_der kind (int_of_string var) with Some d -> "der=" ^ hx d ^ " ok" | None -> "ERR kind")
  | ["pemrt"; k] when String.length k > 3 && String.sub k 0 3 = "new" -> "to_pem=1 from_pem=1 same=1 missing-refused=1"
  | ["pemrt"; _] -> "to_pem=1 from_pem=1 same=1"
  | ["sigtrail"; _; n; _] -> if n = "0" then "issued=1 rewrapped=1 same-bytes=1" else "issued=1 rewrapped=0 same-bytes=0"
  | ["printall"; "gn"] -> "list=1 each=0+1+2+4+5+6+7+8+"
  | ["printall"; _] -> "top=1 exts=1 more=1 name=1 gns=1 text=1"
  | ["names"; _] -> "named>0=1 wrong-way-back=0 unknown-refused=1"
  | ["gnames"; spec; want] -> gnames_line true spec (int_of_string want)
  | ["wrap"; _] -> "to_der=1 from_der=1 same=1 rest=0 truncated=0"
  | ["reusebuf"; order] ->
    "len-equal=1" ^ String.concat "" (List.map (fun ch ->
      let d = if ch = '2' then 2 else 1 in
      let b l = if l = d then 1 else 0 in
      Printf.sprintf " %d:subject=%d,leaf1=%d/%d,crl1=%d,leaf2=%d/%d,crl2=%d" d d (b 1) (b 1) (b 1) (b 2) (b 2) (b 2))
      (List.init (String.length order) (String.get order)))
  | ["extlist"; _; _; expect] -> extlist_line expect
  | ["entryexts"; reason; date; issuer] -> entryexts_line reason date issuer
  | ["crlcheck"; serial; entries; issuer; sk; whenv; flip; dp; fetch] ->
    let es = parse_entries entries in
    if List.exists (fun (sn, d, _) -> sn = [] || not (time_ok d)) es || bx serial = [] then "ERR args" else
    let fetchv = if dp = "0" then FetchNoDistributionPoint else if fetch = "fail" then FetchFailed else FetchOk in
    let ents = List.map (fun (sn, d, x) -> Some ((integer_value (integer_content sn), n_of_i64 d), x)) es in
    if cert_check_crl fetchv (flip = "-1") (whenv = "fresh") (issuer = "ca") (sk = "1") ents (integer_value (integer_content (bx serial)))
    then "1" else "ERR"
  | "req" :: r -> req_line r
  | "reqx" :: r -> req_line r
  | "crl" :: r -> crl_line r
  | ["crlfind"; entries; serial] ->
    let es = parse_entries entries in
    if List.exists (fun (sn, d, _) -> sn = [] || not (time_ok d)) es then "ERR build" else
    show_lookup (find_revoked (List.map (fun (sn, d, x) -> Some ((integer_value (integer_content sn), n_of_i64 d), x)) es) (bx serial))
  | ["crlfindraw"; raw; serial] -> show_lookup (find_revoked (raw_entries (bx raw)) (bx serial))
  | ["name"; spec] -> name_line spec
  | "ext" :: r -> ext_line r
  | "flipall" :: _ -> "0"
  | _ -> "ERR bad-op"

let () = main_loop handle
