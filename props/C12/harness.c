/* C12 correspondence harness: point / key import and export interfaces of the current tree.
 * Numbers are 64 hex digits; raw points are Jacobian/Montgomery triples X Y Z.  Output points of
 * the low-level functions are printed raw (exact comparison with the Impl model); the container
 * interfaces print "ret" and, on success, the affine coordinates of the imported key. */
#include "common.h"
#include "entropy.h"
#include <gmssl/sm2_z256.h>
#include <gmssl/sm2.h>
#include <gmssl/pem.h>
#include <gmssl/mem.h>
#include <gmssl/sm3.h>
#include <gmssl/sm9.h>
#include <gmssl/sm9_z256.h>

static uint64_t *Z(const char *hex) {
	uint64_t *r = malloc(32); int i, j; size_t l = strlen(hex);
	memset(r, 0, 32);
	for (i = 0; i < 4; i++) for (j = 0; j < 16; j++) {
		size_t pos = (size_t)(3 - i) * 16 + (size_t)j;
		int v = pos < l ? hexval(hex[pos]) : 0;
		r[i] = (r[i] << 4) | (uint64_t)(v & 15);
	}
	return r;
}
static void pz(const uint64_t *a) { printf("%016llx%016llx%016llx%016llx", (unsigned long long)a[3], (unsigned long long)a[2], (unsigned long long)a[1], (unsigned long long)a[0]); }
static SM2_Z256_POINT *PT(char **w) {
	SM2_Z256_POINT *P = malloc(sizeof(SM2_Z256_POINT));
	uint64_t *x = Z(w[0]), *y = Z(w[1]), *z = Z(w[2]);
	memcpy(P->X, x, 32); memcpy(P->Y, y, 32); memcpy(P->Z, z, 32);
	free(x); free(y); free(z);
	return P;
}
static void pp(const SM2_Z256_POINT *P) { pz(P->X); putchar(' '); pz(P->Y); putchar(' '); pz(P->Z); }
static uint8_t *B32(const char *hex) { uint64_t *a = Z(hex); uint8_t *b = malloc(32); sm2_z256_to_bytes(a, b); free(a); return b; }
/* exactly sized copy of a hex string; "-" = zero bytes: the pointer is the end of a 1-byte
 * block (ASan rounds malloc(0) up to one byte), so that any read is out of bounds */
static uint8_t *empty_base;
static buf_t exact(const char *s) {
	buf_t b;
	if (!strcmp(s, "-")) { b.n = 0; empty_base = malloc(1); b.p = empty_base + 1; return b; }
	b = hex2buf(s);
	return b;
}
static void release(buf_t b) { if (b.n == 0 && empty_base && b.p == empty_base + 1) { free(empty_base); empty_base = NULL; } else free(b.p); }
/* "1 x y" | "1 inf" after a successful import */
static void affine(const SM2_Z256_POINT *P) {
	uint8_t o[64];
	if (sm2_z256_point_is_at_infinity(P) == 1) { printf("1 inf"); return; }
	if (sm2_z256_cmp(P->Z, sm2_z256_one()) == 0 && 0) return;
	sm2_z256_point_to_bytes(P, o);
	printf("1 "); puthex(o, 32); putchar(' '); puthex(o + 32, 32);
}
static FILE *memfile(buf_t b) { return fmemopen(b.p, b.n ? b.n : 1, "r"); }

#define IS(s) (!strcmp(w[0], s))
static void handle(size_t nw, char **w) {
	if ((IS("frombytes") || IS("setxy")) && nw == 6) {
		SM2_Z256_POINT *P = PT(w + 1); uint8_t *in = malloc(64); uint8_t *x = B32(w[4]), *y = B32(w[5]); int r;
		memcpy(in, x, 32); memcpy(in + 32, y, 32);
		if (IS("frombytes")) r = sm2_z256_point_from_bytes(P, in);
		else { uint64_t *xa = Z(w[4]), *ya = Z(w[5]); r = sm2_z256_point_set_xy(P, xa, ya); free(xa); free(ya); }
		printf("%d ", r); pp(P);
		free(P); free(in); free(x); free(y);
	}
	else if (IS("fromx") && nw == 6) {
		SM2_Z256_POINT *P = PT(w + 1); uint8_t *x = B32(w[4]); int r;
		r = sm2_z256_point_from_x_bytes(P, x, atoi(w[5]));
		printf("%d ", r); pp(P); free(P); free(x);
	}
	else if (IS("fromoct") && nw == 5) {
		SM2_Z256_POINT *P = PT(w + 1); buf_t b = exact(w[4]); int r;
		r = sm2_z256_point_from_octets(P, b.p, b.n);
		printf("%d ", r); pp(P); free(P); release(b);
	}
	else if (IS("touncomp") && nw == 4) {
		SM2_Z256_POINT *P = PT(w + 1); uint8_t *o = malloc(65); int r;
		memset(o, 0xEE, 65);
		r = sm2_z256_point_to_uncompressed_octets(P, o);
		if (r == 1) { printf("1 "); puthex(o, 65); } else printf("%d", r);
		free(P); free(o);
	}
	else if (IS("tocomp") && nw == 4) {
		SM2_Z256_POINT *P = PT(w + 1); uint8_t *o = malloc(33); int r;
		memset(o, 0xEE, 33);
		r = sm2_z256_point_to_compressed_octets(P, o);
		if (r == 1) { printf("1 "); puthex(o, 33); } else printf("%d", r);
		free(P); free(o);
	}
	else if (IS("setpriv") && nw == 2) {
		SM2_KEY *k = malloc(sizeof(SM2_KEY)); uint64_t *d = Z(w[1]); int r;
		memset(k, 0xA5, sizeof(*k));
		r = sm2_key_set_private_key(k, d);
		if (r == 1) { printf("1 "); pp(&k->public_key); if (memcmp(k->private_key, d, 32)) printf(" PRIVATE-KEY-NOT-STORED"); }
		else printf("%d", r);
		free(k); free(d);
	}
	/* ---------- container interfaces: "1 x y" | "1 inf" | "-1" ---------- */
	else if (IS("octets") && nw == 2) {
		SM2_Z256_POINT *P = malloc(sizeof(*P)); buf_t b = exact(w[1]); int r;
		memset(P, 0xA5, sizeof(*P));
		r = sm2_z256_point_from_octets(P, b.p, b.n);
		if (r == 1) affine(P); else printf("-1");
		free(P); release(b);
	}
	else if (IS("ptder") && nw == 2) {
		SM2_Z256_POINT *P = malloc(sizeof(*P)); buf_t b = exact(w[1]); const uint8_t *p = b.p; size_t l = b.n; int r;
		memset(P, 0xA5, sizeof(*P));
		r = sm2_z256_point_from_der(P, &p, &l);
		if (r == 1 && l == 0) affine(P); else printf("-1");
		free(P); release(b);
	}
	else if ((IS("pubder") || IS("spki") || IS("pempub")) && nw == 2) {
		SM2_KEY *k = malloc(sizeof(SM2_KEY)); buf_t b = exact(w[1]); const uint8_t *p = b.p; size_t l = b.n; int r;
		memset(k, 0xA5, sizeof(*k));
		if (IS("pubder")) r = sm2_public_key_from_der(k, &p, &l);
		else if (IS("spki")) r = sm2_public_key_info_from_der(k, &p, &l);
		else { FILE *f = memfile(b); r = sm2_public_key_info_from_pem(k, f); fclose(f); l = 0; }
		if (r == 1 && l == 0) affine(&k->public_key); else printf("-1");
		free(k); release(b);
	}
	else if ((IS("privder") || IS("privinfo") || IS("pempriv")) && nw == 2) {
		SM2_KEY *k = malloc(sizeof(SM2_KEY)); buf_t b = exact(w[1]); const uint8_t *p = b.p; size_t l = b.n; int r;
		const uint8_t *attrs; size_t attrslen;
		memset(k, 0xA5, sizeof(*k));
		if (IS("privder")) r = sm2_private_key_from_der(k, &p, &l);
		else if (IS("privinfo")) r = sm2_private_key_info_from_der(k, &attrs, &attrslen, &p, &l);
		else { FILE *f = memfile(b); r = sm2_private_key_from_pem(k, f); fclose(f); l = 0; }
		if (r == 1 && l == 0) affine(&k->public_key); else printf("-1");
		free(k); release(b);
	}
	else if (IS("ecdh") && nw == 3) {
		SM2_KEY *k = malloc(sizeof(SM2_KEY)); uint64_t *d = Z(w[1]); buf_t b = exact(w[2]); uint8_t *out = malloc(64); int r;
		if (sm2_key_set_private_key(k, d) != 1) { printf("ERR bad-own-key"); free(k); free(d); release(b); free(out); return; }
		memset(out, 0, 64);
		r = sm2_ecdh(k, b.p, b.n, out);
		if (r == 1) {
			static const uint8_t zero[64] = {0};
			if (!memcmp(out, zero, 64)) printf("1 inf");
			else { printf("1 "); puthex(out, 32); putchar(' '); puthex(out + 32, 32); }
		} else printf("-1");
		free(k); free(d); release(b); free(out);
	}
	else if (IS("c1") && nw == 4) {
		/* SM2 ciphertext whose C1 is (x,y): C2, C3 are made consistent with whatever d*C1 the
		 * library computes from the unchecked coordinates, so that only the validation of C1
		 * decides between success and failure.  "1" | "-1" */
		SM2_KEY *k = malloc(sizeof(SM2_KEY)); uint64_t *d = Z(w[1]); uint8_t *x = B32(w[2]), *y = B32(w[3]);
		SM2_CIPHERTEXT *C = malloc(sizeof(SM2_CIPHERTEXT)); SM2_Z256_POINT P; uint64_t *xa = Z(w[2]), *ya = Z(w[3]);
		uint8_t x2y2[64], t[16], msg[16] = "sixteen byte msg", *out = malloc(256); size_t outlen = 0, i; SM3_CTX c; int r;
		if (sm2_key_set_private_key(k, d) != 1) { printf("ERR bad-own-key"); goto done; }
		memset(C, 0, sizeof(*C));
		memcpy(C->point.x, x, 32); memcpy(C->point.y, y, 32);
		sm2_z256_modp_to_mont(xa, P.X); sm2_z256_modp_to_mont(ya, P.Y); sm2_z256_copy(P.Z, sm2_z256_one()); sm2_z256_modp_to_mont(P.Z, P.Z);
		sm2_z256_point_mul(&P, k->private_key, &P);
		sm2_z256_point_to_bytes(&P, x2y2);
		sm2_kdf(x2y2, 64, 16, t);
		for (i = 0; i < 16; i++) C->ciphertext[i] = msg[i] ^ t[i];
		C->ciphertext_size = 16;
		sm3_init(&c); sm3_update(&c, x2y2, 32); sm3_update(&c, msg, 16); sm3_update(&c, x2y2 + 32, 32); sm3_finish(&c, C->hash);
		r = sm2_do_decrypt(k, C, out, &outlen);
		printf("%d", r == 1 ? 1 : -1);
	done:
		free(k); free(d); free(x); free(y); free(C); free(xa); free(ya); free(out);
	}
	/* ---------- scalar generation with a scripted entropy source ---------- */
	else if ((IS("randrange") || IS("keygen")) && nw == 4) {
		/* w[1] = range (randrange) or "-" (keygen); w[2] = script bytes (32 per draw); w[3] = draw index that fails (-1 never) */
		buf_t sc = exact(w[2]); long fail = atol(w[3]);
		ent_script(sc.p, sc.n, fail);
		if (IS("randrange")) {
			uint64_t *range = Z(w[1]), *r = malloc(32); int ret;
			memset(r, 0xA5, 32);
			ret = sm2_z256_rand_range(r, range);
			printf("%d ", ret); pz(r); free(range); free(r);
		} else {
			SM2_KEY *k = malloc(sizeof(SM2_KEY)); int ret;
			memset(k, 0xA5, sizeof(*k));
			ret = sm2_key_generate(k);
			if (ret == 1) { printf("1 "); pz(k->private_key); putchar(' '); pp(&k->public_key); } else printf("-1");
			free(k);
		}
		ent.passthrough = 1;
		release(sc);
	}
	else if (IS("fromhash") && nw == 6) {
		SM2_Z256_POINT *P = PT(w + 1); buf_t d = exact(w[4]); int r;
		r = sm2_z256_point_from_hash(P, d.p, d.n, atoi(w[5]));
		printf("%d ", r); pp(P); free(P); release(d);
	}
	else if (IS("keydigest") && nw == 4) {
		SM2_KEY *k = malloc(sizeof(SM2_KEY)); SM2_Z256_POINT *P = PT(w + 1); uint8_t *dg = malloc(32); int r;
		memset(k, 0, sizeof(*k));
		if (sm2_key_set_public_key(k, P) != 1) { printf("ERR"); free(k); free(P); free(dg); return; }
		r = sm2_public_key_digest(k, dg);
		if (r == 1) { printf("1 "); puthex(dg, 32); } else printf("-1");
		free(k); free(P); free(dg);
	}
	/* ---------- export then import: every encoder of sm2_key.c / sm2_z256.c against its decoder ---------- */
	else if (IS("rt") && nw == 2) {
		SM2_KEY *k = malloc(sizeof(SM2_KEY)), *k2 = malloc(sizeof(SM2_KEY)); uint64_t *d = Z(w[1]);
		uint8_t *buf = malloc(1024), *p; const uint8_t *cp; size_t len; char *mem = NULL; size_t memlen = 0; FILE *f;
		const uint8_t *attrs; size_t attrslen; int bad = 0;
		if (sm2_key_set_private_key(k, d) != 1) { printf("-1"); goto rtdone; }
#define SAMEPUB() (sm2_public_key_equ(k, k2) == 1)
#define SAMEPRI() (memcmp(k->private_key, k2->private_key, 32) == 0)
		p = buf; len = 0; memset(k2, 0xA5, sizeof(*k2));
		if (sm2_public_key_to_der(k, &p, &len) != 1) bad |= 1; cp = buf;
		if (sm2_public_key_from_der(k2, &cp, &len) != 1 || len || !SAMEPUB()) bad |= 1;
		p = buf; len = 0; memset(k2, 0xA5, sizeof(*k2));
		if (sm2_public_key_info_to_der(k, &p, &len) != 1) bad |= 2; cp = buf;
		if (sm2_public_key_info_from_der(k2, &cp, &len) != 1 || len || !SAMEPUB()) bad |= 2;
		p = buf; len = 0; memset(k2, 0xA5, sizeof(*k2));
		if (sm2_private_key_to_der(k, &p, &len) != 1) bad |= 4; cp = buf;
		if (sm2_private_key_from_der(k2, &cp, &len) != 1 || len || !SAMEPUB() || !SAMEPRI()) bad |= 4;
		p = buf; len = 0; memset(k2, 0xA5, sizeof(*k2));
		if (sm2_private_key_info_to_der(k, &p, &len) != 1) bad |= 8; cp = buf;
		if (sm2_private_key_info_from_der(k2, &attrs, &attrslen, &cp, &len) != 1 || len || !SAMEPUB() || !SAMEPRI()) bad |= 8;
		/* PEM */
		f = open_memstream(&mem, &memlen); if (sm2_public_key_info_to_pem(k, f) != 1) bad |= 16; fclose(f);
		f = fmemopen(mem, memlen ? memlen : 1, "r"); memset(k2, 0xA5, sizeof(*k2));
		if (sm2_public_key_info_from_pem(k2, f) != 1 || !SAMEPUB()) bad |= 16; fclose(f); free(mem); mem = NULL;
		f = open_memstream(&mem, &memlen); if (sm2_private_key_to_pem(k, f) != 1) bad |= 32; fclose(f);
		f = fmemopen(mem, memlen ? memlen : 1, "r"); memset(k2, 0xA5, sizeof(*k2));
		if (sm2_private_key_from_pem(k2, f) != 1 || !SAMEPUB() || !SAMEPRI()) bad |= 32; fclose(f); free(mem); mem = NULL;
		f = open_memstream(&mem, &memlen); if (sm2_private_key_info_to_pem(k, f) != 1) bad |= 64; fclose(f);
		f = fmemopen(mem, memlen ? memlen : 1, "r"); memset(k2, 0xA5, sizeof(*k2));
		if (sm2_private_key_info_from_pem(k2, f) != 1 || !SAMEPUB() || !SAMEPRI()) bad |= 64; fclose(f); free(mem); mem = NULL;
		/* ECPoint DER, octets (both forms), set_public_key */
		p = buf; len = 0; memset(k2, 0xA5, sizeof(*k2));
		if (sm2_z256_point_to_der(&k->public_key, &p, &len) != 1) bad |= 128; cp = buf;
		if (sm2_z256_point_from_der(&k2->public_key, &cp, &len) != 1 || len || !SAMEPUB()) bad |= 128;
		memset(k2, 0xA5, sizeof(*k2));
		if (sm2_z256_point_to_uncompressed_octets(&k->public_key, buf) != 1 || sm2_z256_point_from_octets(&k2->public_key, buf, 65) != 1 || !SAMEPUB()) bad |= 256;
		memset(k2, 0xA5, sizeof(*k2));
		if (sm2_z256_point_to_compressed_octets(&k->public_key, buf) != 1 || sm2_z256_point_from_octets(&k2->public_key, buf, 33) != 1 || !SAMEPUB()) bad |= 512;
		memset(k2, 0xA5, sizeof(*k2));
		if (sm2_key_set_public_key(k2, &k->public_key) != 1 || !SAMEPUB() || !sm2_z256_is_zero(k2->private_key)) bad |= 1024;
		if (bad) printf("ROUNDTRIP-FAILS %d", bad); else printf("1");
	rtdone:
		free(k); free(k2); free(d); free(buf);
	}
	/* ---------- text helpers: print / hex ---------- */
	else if (IS("ptext") && nw == 6) {     /* X Y Z ind fmt : the three point/number printers */
		SM2_Z256_POINT *P = PT(w + 1); int a = atoi(w[4]), b = atoi(w[5]); char *mem = NULL; size_t memlen = 0; FILE *f;
		SM2_Z256_AFFINE_POINT A; size_t i;
		f = open_memstream(&mem, &memlen);
		sm2_z256_print(f, a, b, "n", P->X);
		sm2_z256_point_print(f, a, b, "P", P);
		memcpy(A.x, P->X, 32); memcpy(A.y, P->Y, 32);
		sm2_z256_point_affine_print(f, a, b, "A", &A);
		fclose(f);
		for (i = 0; i < memlen; i++) putchar(mem[i] == '\n' ? '|' : (mem[i] == ' ' ? '_' : mem[i]));
		free(mem); free(P);
	}
	else if (IS("hexpt") && nw == 2) {    /* 128 hex digits: point_from_hex, point_equ_hex */
		SM2_Z256_POINT *P = malloc(sizeof(*P)); char *hex = malloc(129); int r;
		memset(P, 0xA5, sizeof(*P)); memcpy(hex, w[1], 128); hex[128] = 0;
		r = sm2_z256_point_from_hex(P, hex);
		if (r == 1) { printf("1 "); pp(P); printf(" %d", sm2_z256_point_equ_hex(P, hex)); } else printf("%d", r);
		free(P); free(hex);
	}
	/* ---------- SM9 point import: raw octets and the containers that embed them ---------- */
	else if ((IS("sm9g1") || IS("sm9sig") || IS("sm9encmpk")) && nw == 2) {
		buf_t b = exact(w[1]); uint8_t *o = malloc(65); int r = -1; const uint8_t *p = b.p; size_t l = b.n;
		SM9_Z256_POINT *P = malloc(sizeof(*P)); memset(P, 0xA5, sizeof(*P));
		if (IS("sm9g1")) { if (b.n == 65) r = sm9_z256_point_from_uncompressed_octets(P, b.p); }
		else if (IS("sm9sig")) { SM9_SIGNATURE *sg = malloc(sizeof(*sg)); memset(sg, 0xA5, sizeof(*sg));
			r = sm9_signature_from_der(sg, &p, &l); if (r == 1 && l == 0) *P = sg->S; else r = -1; free(sg); }
		else { SM9_ENC_MASTER_KEY *mk = malloc(sizeof(*mk)); memset(mk, 0xA5, sizeof(*mk));
			r = sm9_enc_master_public_key_from_der(mk, &p, &l); if (r == 1 && l == 0) *P = mk->Ppube; else r = -1; free(mk); }
		if (r == 1) { sm9_z256_point_to_uncompressed_octets(P, o); printf("1 "); puthex(o + 1, 64); } else printf("-1");
		free(P); free(o); release(b);
	}
	else if ((IS("sm9g2") || IS("sm9signmpk")) && nw == 2) {
		buf_t b = exact(w[1]); uint8_t *o = malloc(129); int r = -1; const uint8_t *p = b.p; size_t l = b.n;
		SM9_Z256_TWIST_POINT *P = malloc(sizeof(*P)); memset(P, 0xA5, sizeof(*P));
		if (IS("sm9g2")) { if (b.n == 129) r = sm9_z256_twist_point_from_uncompressed_octets(P, b.p); }
		else { SM9_SIGN_MASTER_KEY *mk = malloc(sizeof(*mk)); memset(mk, 0xA5, sizeof(*mk));
			r = sm9_sign_master_public_key_from_der(mk, &p, &l); if (r == 1 && l == 0) *P = mk->Ppubs; else r = -1; free(mk); }
		if (r == 1) { sm9_z256_twist_point_to_uncompressed_octets(P, o); printf("1 "); puthex(o + 1, 128); } else printf("-1");
		free(P); free(o); release(b);
	}
	else printf("ERR unknown-op");
}

int main(void) { quiet_stderr(); main_loop(handle); return 0; }
