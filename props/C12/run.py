"""C12 — imported keys and points are validated on every path.
Impl side: props/C12/harness.c.  Model side: Ec/PointEval.v inside coqc (Impl model of the
sm2_z256 import/export functions over BigZ + the independent Spec predicate on coordinates)."""
import os, time, base64
from vlib import core, ecgen as E
from vlib.ecgen import P, N, R, M, G, h64

IMPORTS = ("From Coq Require Import ZArith List String.\nFrom GmVerif Require Import Ec.Num Ec.Mont Ec.Jacobian Ec.Z256Eval Ec.PointEval.\n"
           "Import ListNotations.\nOpen Scope string_scope.\nOpen Scope Z_scope.\n")
SHARDS = int(os.environ["VERIF_SHARDS"]) if os.environ.get("VERIF_SHARDS") else None
# the assembly back-end on ELF: the repo's default ENABLE_ASM_UNDERSCORE_PREFIX=ON (Mach-O symbol
# names) does not link on Linux, so the variant is registered here with the prefix switched off
core.VARIANTS.setdefault("amd64elf", (core.SAN_FLAGS, ["-DENABLE_SM2_AMD64=ON", "-DENABLE_ASM_UNDERSCORE_PREFIX=OFF"]))
A5 = int("a5" * 32, 16)


def z(x):
    return "0x%x" % x if x >= 0 else "(-0x%x)" % (-x)


# ---------------------------------------------------------------- DER / PEM builders (generator side)
def der_len(n):
    if n < 128:
        return bytes([n])
    b = n.to_bytes((n.bit_length() + 7) // 8, "big")
    return bytes([0x80 | len(b)]) + b


def tlv(tag, body):
    return bytes([tag]) + der_len(len(body)) + body


OID_EC = bytes.fromhex("06072a8648ce3d0201")
OID_SM2 = bytes.fromhex("06082a811ccf5501822d")


def bitstr(octets):
    return tlv(0x03, b"\x00" + octets)


def spki(octets):
    return tlv(0x30, tlv(0x30, OID_EC + OID_SM2) + bitstr(octets))


def ecpriv(d, pub_octets):
    body = tlv(0x02, b"\x01") + tlv(0x04, d.to_bytes(32, "big")) + tlv(0xA0, OID_SM2)
    if pub_octets is not None:
        body += tlv(0xA1, bitstr(pub_octets))
    return tlv(0x30, body)


def pkcs8(d, pub_octets):
    return tlv(0x30, tlv(0x02, b"\x00") + tlv(0x30, OID_EC + OID_SM2) + tlv(0x04, ecpriv(d, pub_octets)))


def pem(name, der):
    b = base64.b64encode(der).decode()
    lines = [b[i:i + 64] for i in range(0, len(b), 64)]
    return ("-----BEGIN %s-----\n%s\n-----END %s-----\n" % (name, "\n".join(lines), name)).encode()


def octs(prefix, x, y=None):
    return bytes([prefix]) + x.to_bytes(32, "big") + (y.to_bytes(32, "big") if y is not None else b"")


# ---------------------------------------------------------------- cases
def gen(ctx):
    r = ctx.rng
    thorough = ctx.tier == "thorough"
    scale = 4 if thorough else 1
    cases = []          # (c line, gallina expr, cell, cost)
    rnd = lambda: E.rand256(r)
    def rpt():
        return E.mul(1 + rnd() % (N - 1), G)
    pin = (A5, A5, A5)
    pins = "%s %s %s" % (h64(A5), h64(A5), h64(A5))
    ping = "%s %s %s" % (z(A5), z(A5), z(A5))

    # --- the quantifier's (x, y) families
    pts = [G, E.neg(G), E.mul(2, G)] + [rpt() for _ in range(8 * scale)]
    xy = []
    for (px, py) in pts:
        xy.append((px, py, "valid"))
        xy.append((px, (py + 1) % P, "wrong-y"))
        xy.append((px, P - py, "negated-y"))
        xy.append(((px + 1) % P, py, "wrong-x"))
    for v in (P - 1, P, P + 1, M):
        xy.append((v, G[1], "x=%s" % E.bclass(v)))
        xy.append((G[0], v, "y=%s" % E.bclass(v)))
        xy.append((v, v, "xy=%s" % E.bclass(v)))
    # x >= p that would be on the curve after reduction (x + p < 2^256 only for tiny x: use x = p + small with a valid lift)
    for t in range(1, 40):
        q = E.lift_x(t, 0)
        if q and t + P < R:
            xy.append((t + P, q[1], "x=p+t-unreduced")); break
    xy += [(0, 0, "(0,0)"), (0, 1, "(0,1)"), (1, 0, "(1,0)"), (0, E.sqrt(E.Bc) or 5, "x=0-on-curve")]
    for _ in range(10 * scale):
        xy.append((rnd() % P, rnd() % P, "random-offcurve"))
    for (x, y, cls) in xy:
        cases.append(("frombytes %s %s %s" % (pins, h64(x), h64(y)), "(h_frombytes %s %s %s)" % (ping, z(x), z(y)), "frombytes:" + cls, 30))
        cases.append(("setxy %s %s %s" % (pins, h64(x), h64(y)), "(h_setxy %s %s %s)" % (ping, z(x), z(y)), "setxy:" + cls, 30))
    # a different previous content of *P (stale memory that happens to be a valid point)
    gj = E.jac(G)
    for (x, y, cls) in [(P, G[1], "x=p"), (G[0], P, "y=p"), (0, 0, "(0,0)"), (M, M, "xy=2^256-1")]:
        cases.append(("frombytes %s %s %s %s %s" % (h64(gj[0]), h64(gj[1]), h64(gj[2]), h64(x), h64(y)),
                      "(h_frombytes %s %s %s %s %s)" % (z(gj[0]), z(gj[1]), z(gj[2]), z(x), z(y)), "frombytes:staleG:" + cls, 30))

    # --- from_x_bytes: x on the curve / not on the curve / >= p, both parities
    xs = [(p_[0], "on-curve") for p_ in pts] + [(P - 1, "p-1"), (P, "p"), (P + 1, "p+1"), (M, "2^256-1"), (0, "0"), (1, "1"), (2, "2")]
    xs += [(rnd() % P, "random") for _ in range(12 * scale)]
    for (x, cls) in xs:
        for odd in (0, 1):
            cases.append(("fromx %s %s %d" % (pins, h64(x), odd), "(h_fromx %s %s %d)" % (ping, z(x), odd), "fromx:%s:odd%d" % (cls, odd), 120))

    # --- from_octets: every prefix byte with 33- and 65-byte strings (valid bodies), odd lengths, stale P
    def oct_case(op_pin, g_pin, b, cell, cost=150):
        inlen = len(b)
        prefix = b[0] if inlen else 0
        x = int.from_bytes(b[1:33], "big") if inlen >= 33 else 0
        y = int.from_bytes(b[33:65], "big") if inlen >= 65 else 0
        cases.append(("fromoct %s %s" % (op_pin, b.hex() if b else "-"),
                      "(h_fromoct %s %d %d %s %s)" % (g_pin, inlen, prefix, z(x), z(y)), cell, cost))
    Q = pts[3]
    for pre in range(256):
        cls = "%02x" % pre if pre in (0, 2, 3, 4, 6, 7) else "other"
        oct_case(pins, ping, octs(pre, Q[0], Q[1]), "fromoct:len65:prefix-" + cls)
        oct_case(pins, ping, octs(pre, Q[0]), "fromoct:len33:prefix-" + cls)
    oct_case(pins, ping, b"", "fromoct:len0")
    for ln in (1, 2, 32, 33, 34, 64, 65, 66):
        for pre in (0, 2, 3, 4):
            b = (bytes([pre]) + Q[0].to_bytes(32, "big") + Q[1].to_bytes(32, "big") + b"\x00")[:ln]
            oct_case(pins, ping, b, "fromoct:prefix-%02x:len%d" % (pre, ln))
    for (x, y, cls) in xy:
        oct_case(pins, ping, octs(4, x, y), "fromoct:04:" + cls)
    # stale *P that is a valid point: 04 with x >= p leaves Y,Z of the stale point in place
    gs = "%s %s %s" % (h64(gj[0]), h64(gj[1]), h64(gj[2]))
    gg = "%s %s %s" % (z(gj[0]), z(gj[1]), z(gj[2]))
    for (x, y, cls) in [(P, G[1], "x=p"), (M, 0, "x=2^256-1"), (G[0], P, "y=p"), (0, 0, "(0,0)")]:
        oct_case(gs, gg, octs(4, x, y), "fromoct:04:staleG:" + cls)
    for (x, cls) in xs:
        for pre in (2, 3):
            oct_case(pins, ping, octs(pre, x), "fromoct:%02x:%s" % (pre, cls))

    # --- export: uncompressed / compressed octets, round trip
    reps = []
    for i, pt in enumerate(pts):
        reps.append((E.jac(pt, 1), "norm"))
        reps.append((E.jac(pt, 2 + rnd() % (P - 2)), "scaled"))
    reps += [((E.mont(1), E.mont(1), 0), "inf"), ((0, 0, 0), "inf-zero")]
    for (t, cls) in reps:
        a = "%s %s %s" % (h64(t[0]), h64(t[1]), h64(t[2]))
        g = "%s %s %s" % (z(t[0]), z(t[1]), z(t[2]))
        cases.append(("touncomp " + a, "(h_touncomp %s)" % g, "touncomp:" + cls, 60))
        cases.append(("tocomp " + a, "(h_tocomp %s)" % g, "tocomp:" + cls, 60))

    # --- private scalars
    scal = [(0, "0"), (1, "1"), (2, "2"), (N - 70, "n-70"), (N - 3, "n-3"), (N - 2, "n-2"), (N - 1, "n-1"), (N, "n"), (N + 1, "n+1"), (M, "2^256-1"), (1 << 255, "2^255")]
    scal += [(rnd() % N, "random") for _ in range(6 * scale)] + [(N + rnd() % (R - N), "[n,2^256)") for _ in range(3)]
    for (d, cls) in scal:
        cases.append(("setpriv " + h64(d), "(h_setpriv %s)" % z(d), "setpriv:" + cls, 1500))

    # --- containers: the same octet strings through every reachable import interface; expectation = Spec only
    cont = []
    for (x, y, cls) in xy:
        cont.append((octs(4, x, y), "04:" + cls))
    for (x, cls) in xs[:14]:
        cont.append((octs(2, x), "02:" + cls)); cont.append((octs(3, x), "03:" + cls))
    cont += [(b"\x00", "00"), (octs(0, Q[0], Q[1]), "00-len65"), (octs(6, Q[0], Q[1]), "06"), (octs(7, Q[0], Q[1]), "07"), (octs(4, Q[0], Q[1])[:64], "04-len64"), (octs(4, Q[0], Q[1]) + b"\x00", "04-len66")]
    dG = 1 + rnd() % (N - 2)
    for (b, cls) in cont:
        inlen = len(b); prefix = b[0]
        x = int.from_bytes(b[1:33], "big") if inlen >= 33 else 0
        y = int.from_bytes(b[33:65], "big") if inlen >= 65 else 0
        exp = "(h_expect %d %d %s %s)" % (inlen, prefix, z(x), z(y))
        exp65 = exp if inlen == 65 else '"-1"'       # interfaces that insist on 65 bytes
        cases.append(("octets " + b.hex(), exp, "octets:" + cls, 150))
        cases.append(("ptder " + tlv(0x04, b).hex(), exp65, "ptder:" + cls, 150))
        cases.append(("pubder " + bitstr(b).hex(), exp65, "pubder:" + cls, 150))
        cases.append(("spki " + spki(b).hex(), exp65, "spki:" + cls, 150))
        cases.append(("pempub " + pem("PUBLIC KEY", spki(b)).hex(), exp65, "pempub:" + cls, 150))
        # peer share in ECDH: success => [d]P of the decoded peer point
        cases.append(("ecdh %s %s" % (h64(dG), b.hex()), "(h_expect_ecdh %s %d %d %s %s)" % (z(dG), inlen, prefix, z(x), z(y)), "ecdh:" + cls, 1500))
        if inlen == 65 and prefix == 4:
            cases.append(("c1 %s %s %s" % (h64(dG), h64(x), h64(y)), '(if spec_valid_xy %s %s then "1" else "-1")' % (z(x), z(y)), "c1:" + cls, 150))
    # private-key containers: scalar families x (matching / mismatching / invalid embedded public key)
    for (d, cls) in scal:
        pub = E.mul(d % N, G) if 0 < d % N else None
        good = octs(4, pub[0], pub[1]) if pub else octs(4, G[0], G[1])
        exp = "(h_expect_priv %s)" % z(d)
        cases.append(("privder " + ecpriv(d, good).hex(), exp, "privder:match:" + cls, 1500))
        cases.append(("privder " + ecpriv(d, None).hex(), exp, "privder:nopub:" + cls, 1500))
        cases.append(("privinfo " + pkcs8(d, good).hex(), exp, "privinfo:match:" + cls, 1500))
        cases.append(("pempriv " + pem("EC PRIVATE KEY", ecpriv(d, good)).hex(), exp, "pempriv:match:" + cls, 1500))
    d1 = 1 + rnd() % (N - 2)
    pub1 = E.mul(d1, G)
    other = E.mul(d1 + 1, G)
    for (b, cls) in [(octs(4, other[0], other[1]), "other-point"), (octs(4, pub1[0], P - pub1[1]), "negated"), (octs(4, 0, 0), "04-zero"),
                     (octs(4, pub1[0], (pub1[1] + 1) % P), "off-curve"), (octs(4, P, pub1[1]), "x=p"), (b"\x00" * 65, "00-len65")]:
        cases.append(("privder " + ecpriv(d1, b).hex(), '"-1"', "privder:mismatch:" + cls, 300))
        cases.append(("privinfo " + pkcs8(d1, b).hex(), '"-1"', "privinfo:mismatch:" + cls, 300))
    # d = n - 70 (public key computed as infinity by the unrepaired generator multiplication) with an "infinity" public key
    cases.append(("privder " + ecpriv(N - 70, octs(4, 0, 0)).hex(), '"-1"', "privder:mismatch:n-70+04-zero", 300))
    # --- scalar generation with a scripted entropy source (sm2_z256_rand_range, sm2_key_generate)
    def le(v):
        return v.to_bytes(32, "little").hex()
    def gl(draws):
        return "[" + "; ".join('"%s"' % d for d in draws) + "]"
    def rr(range_, vals, fail, cell):
        script = "".join(le(v) for v in vals)
        draws = [le(v) for v in vals]
        if fail >= 0:
            draws = draws[:fail] + ["FAIL"]
        cases.append(("randrange %s %s %d" % (h64(range_), script if script else "-", fail),
                      "(h_randrange %s %s %s)" % (z(range_), z(A5), gl(draws)), cell, 40 + len(draws)))
    for range_, rc in ((N - 1, "n-1"), (5, "5"), (1 << 255, "2^255"), (1, "1")):
        hi = lambda: range_ + rnd() % (R - range_)
        lo = lambda: rnd() % range_
        for j in (0, 1, 2, 99):
            rr(range_, [hi() for _ in range(j)] + [lo()], -1, "randrange:%s:accept-at-draw%d" % (rc, j))
        rr(range_, [range_], 0, "randrange:%s:entropy-fails-first" % rc)
        rr(range_, [hi(), hi(), hi()], 2, "randrange:%s:entropy-fails-later" % rc)
        rr(range_, [hi() for _ in range(100)], -1, "randrange:%s:100-rejections" % rc)
        rr(range_, [range_ - 1] , -1, "randrange:%s:range-1" % rc)
        rr(range_, [range_, range_ - 1], -1, "randrange:%s:range-then-range-1" % rc)
    def kg(vals, fail, cell):
        script = "".join(le(v) for v in vals)
        draws = [le(v) for v in vals]
        if fail >= 0:
            draws = draws[:fail] + ["FAIL"]
        cases.append(("keygen - %s %d" % (script if script else "-", fail), "(h_keygen %s %s)" % (z(A5), gl(draws)), cell, 1500))
    good = lambda: 1 + rnd() % (N - 2)
    kg([good()], -1, "keygen:first-draw")
    kg([0, good()], -1, "keygen:zero-then-good")
    kg([0, 0, 1], -1, "keygen:zero-zero-one")
    kg([N - 1, N, M, N - 2], -1, "keygen:rejected-then-n-2")
    kg([N - 1], 1, "keygen:n-1-then-entropy-fails")
    kg([good()], 0, "keygen:entropy-fails")
    kg([N - 1 + rnd() % (R - N + 1) for _ in range(100)], -1, "keygen:100-rejections")
    kg([1], -1, "keygen:one")
    # --- hash to a point, key digest
    for i in range(10 * scale):
        data = r.bytes([0, 1, 31, 32, 33, 64, 100][i % 7])
        for odd in (0, 1):
            cases.append(("fromhash %s %s %d" % (pins, data.hex() if data else "-", odd),
                          '(h_fromhash %s "%s" %d)' % (ping, data.hex(), odd), "fromhash:len%d:odd%d" % (len(data), odd), 400))
    for (t, cls) in reps[:6] + reps[-2:]:
        cases.append(("keydigest %s %s %s" % (h64(t[0]), h64(t[1]), h64(t[2])), "(h_keydigest %s %s %s)" % (z(t[0]), z(t[1]), z(t[2])), "keydigest:" + cls, 80))
    # --- every encoder against its decoder
    for (d, cls) in scal:
        cases.append(("rt " + h64(d), '"1"' if 1 <= d <= N - 2 else '"-1"', "roundtrip:" + cls, 10))
    # --- text helpers
    def ptext(t, pt, a, b, cell):
        X, Y, Zc = t
        out = "_" * b + "n:_%064x|" % X
        if Zc == 0:
            out += "_" * b + "P:_point_at_infinity|"
        else:
            out += "_" * b + "P:_%064X%064X|" % pt
        rinv = pow(R, -1, P)
        out += "_" * b + "A:_%064X%064X|" % (X * rinv % P, Y * rinv % P)
        cases.append(("ptext %s %s %s %d %d" % (h64(X), h64(Y), h64(Zc), a, b), '"%s"' % out, cell, 5))
    ptext(E.jac(G), G, 0, 0, "ptext:norm")
    ptext(E.jac(pts[3], 7), pts[3], 0, 4, "ptext:scaled-indent")
    ptext(E.jac(pts[4]), pts[4], 3, 2, "ptext:fmt3")
    ptext((E.mont(1), E.mont(1), 0), None, 0, 1, "ptext:infinity")
    for (x, y, cls) in xy[:8] + [(0, 0, "(0,0)"), (P, 1, "x=p")]:
        cases.append(("hexpt %064x%064x" % (x, y), "(h_hexpt %s %s)" % (z(x), z(y)), "hexpt:" + cls, 30))
    # --- SM9 G1 / G2 point import (raw octets, signature S, master public keys); Spec oracle only
    p9 = 0xb640000002a3a6f1d603ab4ff58ec74521f2934b1a7aeedbe56f9b27e351457d
    n9 = 0xb640000002a3a6f1d603ab4ff58ec74449f2934b18ea8beee56ee19cd69ecf25
    P1 = (0x93DE051D62BF718FF5ED0704487D01D6E1E4086909DC3280E8C4E4817C66DDDD, 0x21FE8DDA4F21E607631065125C395BBC1C1C00CBFA6024350C464CD70A3EA616)
    def a9(p1, p2):
        if p1 is None: return p2
        if p2 is None: return p1
        (x1, y1), (x2, y2) = p1, p2
        if x1 == x2:
            if (y1 + y2) % p9 == 0: return None
            lam = 3 * x1 * x1 * pow(2 * y1, -1, p9) % p9
        else:
            lam = (y2 - y1) * pow(x2 - x1, -1, p9) % p9
        x3 = (lam * lam - x1 - x2) % p9
        return (x3, (lam * (x1 - x3) - y1) % p9)
    def m9(k, pt):
        acc = None
        while k:
            if k & 1: acc = a9(acc, pt)
            pt = a9(pt, pt); k >>= 1
        return acc
    g1 = [m9(k, P1) for k in range(1, 60)] + [m9(rnd() % n9, P1) for _ in range(6 * scale)]
    fam1 = []
    for (x, y) in g1[:12] + g1[59:]:
        fam1.append((x, y, "valid"))
        fam1.append((x, (p9 - y) % p9, "negated-y"))
        fam1.append((x, (y + 1) % p9, "wrong-y"))
    # coordinates >= p that are congruent to a valid point and still fit in 32 bytes
    for (x, y) in g1:
        if x + p9 < R: fam1.append((x + p9, y, "x+p-congruent"))
        if y + p9 < R: fam1.append((x, y + p9, "y+p-congruent"))
        if x + p9 < R and y + p9 < R: fam1.append((x + p9, y + p9, "xy+p-congruent"))
    for v in (p9 - 1, p9, p9 + 1, M):
        fam1 += [(v, P1[1], "x=%s" % ("p-1" if v == p9 - 1 else "p" if v == p9 else "p+1" if v == p9 + 1 else "2^256-1")),
                 (P1[0], v, "y=%s" % ("p-1" if v == p9 - 1 else "p" if v == p9 else "p+1" if v == p9 + 1 else "2^256-1"))]
    fam1 += [(0, 0, "(0,0)"), (rnd() % p9, rnd() % p9, "random-offcurve")]
    def sm9sig_der(h, o):
        return tlv(0x30, tlv(0x04, h.to_bytes(32, "big")) + bitstr(o))
    for (x, y, cls) in fam1:
        o = octs(4, x, y)
        exp = "(h_sm9g1 4 %s %s)" % (z(x), z(y))
        cases.append(("sm9g1 " + o.hex(), exp, "sm9g1:" + cls, 20))
        cases.append(("sm9sig " + sm9sig_der(1 + rnd() % (n9 - 1), o).hex(), exp, "sm9sig:" + cls, 20))
        cases.append(("sm9encmpk " + tlv(0x30, bitstr(o)).hex(), exp, "sm9encmpk:" + cls, 20))
    for pre in (0, 2, 3, 5, 6):
        cases.append(("sm9g1 " + octs(pre, P1[0], P1[1]).hex(), '"-1"', "sm9g1:prefix-%02x" % pre, 5))
    # G2: F_p2 arithmetic with u^2 = -2, element a0 + a1 u sent as a1 || a0
    def f2m(a, b): return ((a[0] * b[0] - 2 * a[1] * b[1]) % p9, (a[0] * b[1] + a[1] * b[0]) % p9)
    def f2inv(a):
        nrm = pow(a[0] * a[0] + 2 * a[1] * a[1], -1, p9)
        return (a[0] * nrm % p9, (-a[1]) * nrm % p9)
    def f2s(a, b): return ((a[0] - b[0]) % p9, (a[1] - b[1]) % p9)
    def f2a(a, b): return ((a[0] + b[0]) % p9, (a[1] + b[1]) % p9)
    P2 = ((0x3722755292130B08D2AAB97FD34EC120EE265948D19C17ABF9B7213BAF82D65B, 0x85AEF3D078640C98597B6027B441A01FF1DD2C190F5E93C454806C11D8806141),
          (0xA7CF28D519BE3DA65F3170153D278FF247EFBA98A71A08116215BBA5C999A7C7, 0x17509B092E845C1266BA0D262CBEE6ED0736A96FA347C8BD856DC76B84EBEB96))
    def t_add(p1, p2):
        if p1 is None: return p2
        (x1, y1), (x2, y2) = p1, p2
        if x1 == x2:
            lam = f2m(f2m((3, 0), f2m(x1, x1)), f2inv(f2a(y1, y1)))
        else:
            lam = f2m(f2s(y2, y1), f2inv(f2s(x2, x1)))
        x3 = f2s(f2s(f2m(lam, lam), x1), x2)
        return (x3, f2s(f2m(lam, f2s(x1, x3)), y1))
    g2, acc = [], None
    for k in range(1, 40):
        acc = t_add(acc, P2); g2.append(acc)
    def o2(X, Y, pre=4):
        return bytes([pre]) + b"".join(v.to_bytes(32, "big") for v in (X[1], X[0], Y[1], Y[0]))
    fam2 = []
    for (X, Y) in g2[:6]:
        fam2.append((X, Y, "valid"))
        fam2.append((X, ((Y[0] + 1) % p9, Y[1]), "wrong-y"))
    for (X, Y) in g2:
        for i in range(2):
            if X[i] + p9 < R:
                X2 = list(X); X2[i] += p9; fam2.append((tuple(X2), Y, "x%d+p-congruent" % i))
            if Y[i] + p9 < R:
                Y2 = list(Y); Y2[i] += p9; fam2.append((X, tuple(Y2), "y%d+p-congruent" % i))
    fam2 += [((p9, P2[0][1]), P2[1], "x0=p"), ((P2[0][0], M), P2[1], "x1=2^256-1"), (P2[0], (p9, P2[1][1]), "y0=p"), ((0, 0), (0, 0), "(0,0)")]
    for (X, Y, cls) in fam2:
        o = o2(X, Y)
        exp = "(h_sm9g2 4 %s %s %s %s)" % (z(X[1]), z(X[0]), z(Y[1]), z(Y[0]))
        cases.append(("sm9g2 " + o.hex(), exp, "sm9g2:" + cls, 20))
        cases.append(("sm9signmpk " + tlv(0x30, bitstr(o)).hex(), exp, "sm9signmpk:" + cls, 20))
    cases.append(("sm9g2 " + o2(P2[0], P2[1], 0).hex(), '"-1"', "sm9g2:prefix-00", 5))
    return cases


def batches(cases):
    order = sorted(range(len(cases)), key=lambda i: -cases[i][3])
    out, cur, cost = [], [], 0
    for i in order:
        c = cases[i][3]
        if cur and (cost + c > 3000 or len(cur) >= 120):
            out.append(cur); cur, cost = [], 0
        cur.append(i); cost += c
    if cur:
        out.append(cur)
    return out


def eval_model(cases):
    bs = batches(cases)
    exprs = ["(cat [%s])" % "; ".join(cases[i][1] for i in b) for b in bs]
    res = core.coq_eval("C12", IMPORTS, exprs, shards=SHARDS)
    out = [None] * len(cases)
    for b, rline in zip(bs, res):
        parts = rline.split(";")
        if rline.startswith("MODEL-EXN") or len(parts) != len(b):
            for i in b:
                out[i] = "MODEL-EXN " + rline[:300]
        else:
            for i, p_ in zip(b, parts):
                out[i] = p_
    return out


def rerun_silent(ctx, exe, lines, impl):
    """A harness process that dies without any sanitizer diagnosis ("FAULT crash": killed from
    outside, e.g. under memory pressure) says nothing about the library: the op is run once more
    in a fresh process.  A deterministic crash recurs and is reported as before."""
    idx = [i for i, a in enumerate(impl) if a == "FAULT crash"]
    if idx:
        again, _ = core.run_lines(exe, [lines[i] for i in idx], shards=1)
        for i, a in zip(idx, again):
            impl[i] = a
        ctx.count("rerun-after-silent-process-death", len(idx))
    return impl


def judge(impl, model):
    if " | " not in model:
        if impl == model:
            return ("ok", "")
        if model == "-1" and impl.startswith("1"):
            return ("defect", "import succeeded although the Spec refuses this input")
        if model.startswith("1") and impl == "-1":
            return ("refused-valid", "valid input refused (not a violation of the property text)")
        return ("defect", "imported object differs from the Spec value")
    parts = model.split(" | ")
    raw, verdict = parts[0], parts[1]
    if impl == raw or (raw == "OOB" and impl.startswith("FAULT")):
        if verdict.startswith("BAD"):
            return ("defect", "the code as it is contradicts the Spec: " + verdict[4:])
        return ("ok", "")
    return ("mismatch", "implementation differs from the Impl model")


def run(ctx):
    ctx.check_proofs()
    rc, out = core.coq_make(["Ec/PointEval.vo"])
    if rc != 0:
        ctx.violation("correspondence:model-build", "Coq model does not build: " + out[-500:], {"kind": "correspondence", "log": out[-3000:]}, False)
        return finish(ctx)
    cases = gen(ctx)
    t0 = time.time()
    model = eval_model(cases)
    ctx.notes.append("model (coqc vm_compute): %.1fs for %d cases" % (time.time() - t0, len(cases)))
    variants = ["asan"] if ctx.tier == "quick" else ["asan", "amd64elf"]
    for v in variants:
        exe, log = core.build_harness("C12", v)
        if exe is None:
            core.harness_build_failed(ctx, log)
            continue
        impl, err = core.run_lines(exe, [c[0] for c in cases], shards=SHARDS)
        impl = rerun_silent(ctx, exe, [c[0] for c in cases], impl)
        for i, (line, expr, cell, cost) in enumerate(cases):
            ctx.cov["evaluations"] += 1
            a, b = impl[i], model[i]
            ctx.count("op:" + line.split(" ", 1)[0])
            if b.startswith("MODEL-"):
                ctx.violation("model:" + cell, "model-side failure on `%s`: %s" % (line[:200], b[:300]),
                              {"kind": "model", "op": line, "expr": expr, "model": b}, found_input=False)
                continue
            st, text = judge(a, b)
            if st == "refused-valid":
                ctx.count("refused-valid:" + cell.split(":")[0] + ":" + cell.split(":")[1])
                ctx.cell(cell + ":refused-valid")
            elif st == "ok":
                ctx.cell(cell + (":ERR" if a.startswith("-1") else ":ok"))
                if i % 400 == 0:
                    ctx.sample({"op": line[:300], "result": a[:200]})
            else:
                key = cell if v == "asan" else cell + "@" + v      # a non-default back-end never masks the default build
                ctx.violation(key, "%s [%s]: op `%s` impl=%s model=%s" % (text, v, line[:260], a[:230], b[:420]),
                              {"kind": "failing-input", "op": line, "expr": expr, "impl": a, "expected": b, "variant": v,
                               "stderr": err[-1500:] if a.startswith("FAULT") else ""}, found_input=True)
    return finish(ctx)


def replay(path):
    import json
    rp = json.load(open(path)).get("replay", {})
    op, expr = rp.get("op"), rp.get("expr")
    if not op:
        print("replay names a proof obligation / relation, not an input:", json.dumps(rp)[:1000]); return 0
    exe, log = core.build_harness("C12", rp.get("variant", "asan"))
    if exe is None:
        print(log[-2000:]); return 1
    a, err = core.run_lines(exe, [op], shards=1, env={"VERIF_STDERR": "1"})
    b = core.coq_eval("C12", IMPORTS, [expr], shards=1)
    print("op:    ", op); print("impl:  ", a[0]); print("model: ", b[0])
    st, text = judge(a[0], b[0])
    print("AGREE" if st == "ok" else ("DIFFER: " + text))
    return 0


def finish(ctx):
    ctx.assumptions = [
        "Spec predicate = coordinates < p, curve equation of Ec/CurveSpec.v, (x,y) <> (0,0); square roots by a^((p+1)/4) checked by squaring",
        "DER / PEM layers are not modelled here (C14): containers are built by the generator and judged by 'success => Spec-valid coordinates equal to the embedded ones; Spec-invalid => refused'",
        "TLS key-exchange decoders, certificates / requests and SM9 points are not covered by this check",
    ]
    return ctx.finish(level="proof",
                      rule="cases = the quantifier's (x,y) families (valid, wrong y, negated y, x or y in {p-1,p,p+1,2^256-1}, (0,0), unreduced x) and all 256 prefix bytes with 33/65-byte bodies and odd lengths, through raw bytes, set_xy, x-only, octets, DER ECPoint, BIT STRING, SubjectPublicKeyInfo, PEM, ECDH peer share, SM2 ciphertext C1; scalars {0,1,n-70,n-2,n-1,n,2^256-1,...} through set_private_key, ECPrivateKey, PKCS#8, PEM with matching / mismatching public keys; a cell = (interface, input class, accepted|refused)",
                      trusted=core.TRUSTED_COMMON + ["Coq files Ec/Point.v (model), Ec/PointEval.v (glue + Spec predicate), Ec/PointProofs.v, Props/Properties_C12.v",
                                                     "vlib/ecgen.py and the DER/PEM builders in props/C12/run.py generate inputs only"])
