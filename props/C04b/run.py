"""C04b — AEAD / stream-cipher half of C04: GF(2^128)/GHASH, SM4-GCM, AES-GCM, SM4-CCM, AES-128/192/256,
ZUC-128/256 (keystream, EEA3/EIA3, MACs), ChaCha20, SM4-CBC/CTR+SM3-HMAC equal their standards, invert,
and are chunking-invariant."""
from vlib import core, devdiff
from vlib.core import hexs

K0 = "0123456789abcdeffedcba9876543210"


def cs(chunks):
    return ",".join(hexs(c) for c in chunks) if chunks else "."


def window_classes(chunks, taglen):
    """which branches of the tag-window decryptor a chunk list exercises"""
    maclen, bulk, fill, slide = 0, False, False, False
    for d in chunks:
        n = len(d)
        if maclen < taglen:
            need = taglen - maclen
            if n <= need:
                maclen += n; fill = True
                continue
            n -= need; maclen = taglen
        if n <= taglen:
            slide = True
        else:
            bulk = True
    return bulk, fill, slide


def gmul(x, y):
    """GF(2^128) product of SP 800-38D on 128-bit integers (bit 0 of the string = msb of the int)"""
    z, v = 0, y
    for i in range(128):
        if (x >> (127 - i)) & 1:
            z ^= v
        v = (v >> 1) ^ ((0xe1 << 120) if v & 1 else 0)
    return z


def ginv(x):
    r, p = 1 << 127, x          # 1 is the string 80 00 .. 00
    e = (1 << 128) - 2
    while e:
        if e & 1:
            r = gmul(r, p)
        p = gmul(p, p)
        e >>= 1
    return r


def iv16_for_j0(h, j0):
    """the 16-byte IV whose J0 = GHASH_H(IV || 0^64 || [128]_64) is j0  (H != 0)"""
    hi = ginv(h)
    return gmul(gmul(j0, hi) ^ 128, hi)


def gen(ctx, model):
    r = ctx.rng
    thorough = ctx.tier == "thorough"
    cases = []
    add = lambda line, cell: cases.append((line, cell))
    LENS = [0, 1, 15, 16, 17, 31, 32, 33, 64]
    # ---------------- GF(2^128) ----------------
    one = "80" + "00" * 15
    xtop = "00" * 15 + "01"
    specials = ["00" * 16, one, xtop, "ff" * 16, "40" + "00" * 15, "e1" + "00" * 15, "00" * 7 + "01" + "00" * 8, "00" * 8 + "80" + "00" * 7]
    for a in specials:
        for b in specials:
            add("gf128mul %s %s" % (a, b), "gf128mul:special")
    for i in range(60 if not thorough else 2000):
        a_, b_ = r.bytes(16).hex(), r.bytes(16).hex()
        add("gf128mul %s %s" % (a_, b_), "gf128mul:random")
        if i % 4 == 0:      # the swapped pair (C04b_gf128_mul_limbs_comm: the model gives the same bytes)
            add("gf128mul %s %s" % (b_, a_), "gf128mul:random-swapped")
    for a in specials + [r.bytes(16).hex() for _ in range(20)]:
        add("gf128x2 %s" % a, "gf128x2:%s" % ("special" if a in specials else "random"))
        add("gf128one %s" % a, "gf128one:%s" % ("special" if a in specials else "random"))
    # ---------------- GHASH ----------------
    for al in (0, 1, 15, 16, 17, 32):
        for cl in LENS:
            h, a, c = r.bytes(16), r.bytes(al), r.bytes(cl)
            cls = "aad%s:c%s" % ("0" if al == 0 else ("blk" if al % 16 == 0 else "part"), "0" if cl == 0 else ("blk" if cl % 16 == 0 else "part"))
            add("ghash %s %s %s" % (h.hex(), hexs(a), hexs(c)), "ghash:" + cls)
            add("ghashs %s %s %s" % (h.hex(), hexs(a), cs(r.split(c))), "ghashs:" + cls)
    h, c40 = r.bytes(16), r.bytes(40)
    for off in range(0, 41):
        add("ghashs %s %s %s" % (h.hex(), "aabb", cs([c40[:off], c40[off:]])), "ghashs:split2@%s" % ("blk" if off % 16 == 0 else "mid"))
    add("ghashs %s - ." % h.hex(), "ghashs:nochunks")
    # ---------------- GCM one-shot: IV lengths 1..64, tags 12..16 ----------------
    for alg, keys in (("sm4", [16]), ("aes", [16, 24, 32])):
        for ivlen in range(1, 65):
            tl = 12 + ivlen % 5
            key = r.bytes(r.choice(keys))
            add("gcmrt %s %s %s %s %s %d" % (alg, key.hex(), r.bytes(ivlen).hex(), hexs(r.bytes(r.choice([0, 1, 16, 20]))), hexs(r.bytes(r.choice(LENS))), tl),
                "gcmrt:%s:iv%s:tag%d" % (alg, "12" if ivlen == 12 else ("<16" if ivlen < 16 else ("blk" if ivlen % 16 == 0 else ">16")), tl))
        for tl in range(12, 17):
            for pl in LENS + [100]:
                key = r.bytes(r.choice(keys))
                add("gcmrt %s %s %s %s %s %d" % (alg, key.hex(), r.bytes(12).hex(), hexs(r.bytes(r.choice([0, 13, 16, 33]))), hexs(r.bytes(pl)), tl),
                    "gcmrt:%s:tag%d:pt%s" % (alg, tl, "0" if pl == 0 else ("blk" if pl % 16 == 0 else "part")))
        # argument checks
        bad = [("-", 16, "iv0"), ("00" * 65, 16, "iv65"), ("00" * 12, 17, "tag17")]
        if alg == "sm4":
            bad += [("00" * 12, 11, "tag11"), ("00" * 12, 0, "tag0")]
        for iv, tl, cls in bad:
            if alg == "aes" and cls in ("iv0", "iv65"):
                continue   # aes_gcm has no IV length check (ivlen 0 hashes an empty IV)
            add("gcmenc %s %s %s - 0102 %d" % (alg, "00" * 16, iv, tl), "gcmenc:%s:bad-%s" % (alg, cls))
        if alg == "aes":
            for tl in (4, 8):
                add("gcmrt aes %s %s - 010203 %d" % (r.bytes(16).hex(), r.bytes(12).hex(), tl), "gcmrt:aes:tag<12")
            add("gcmenc aes 0011 %s - 0102 16" % ("00" * 12), "gcmenc:aes:bad-key")
        else:
            add("gcmenc sm4 %s %s - 0102 16" % ("00" * 15, "00" * 12), "gcmenc:sm4:bad-key")
        # decrypt of garbage
        for i in range(6):
            key = r.bytes(keys[0])
            add("gcmdec %s %s %s %s %s %s" % (alg, key.hex(), r.bytes(12).hex(), hexs(r.bytes(r.choice([0, 5]))), hexs(r.bytes(r.choice([0, 1, 16, 40]))), r.bytes(r.range(12, 16)).hex()),
                "gcmdec:%s:random-tag" % alg)
    # counter blocks near 2^32 - 1: a 16-byte IV is solved for so that J0 ends in ff ff ff fx
    hl, hk = [], []
    for alg, kl in (("sm4", 16), ("aes", 16), ("aes", 32)):
        key = r.bytes(kl).hex()
        hl.append("%senc %s %s" % (alg, key, "00" * 16)); hk.append((alg, key))
    houts, _ = core.run_lines(model, hl)
    for (alg, key), ho in zip(hk, houts):
        if len(ho) != 32 or int(ho, 16) == 0:
            continue
        for last in (0xffffffff, 0xfffffffe, 0xfffffffd, 0x00ffffff, 0x0000ffff):
            j0 = (int.from_bytes(r.bytes(12), "big") << 32) | last
            ivx = iv16_for_j0(int(ho, 16), j0)
            add("gcmrt %s %s %032x %s %s 16" % (alg, key, ivx, hexs(r.bytes(5)), r.bytes(70).hex()),
                "gcmrt:%s:ctr32-%s" % (alg, "wrap" if last >= 0xfffffffd else "carry"))
    # ---------------- GCM streaming (SM4) ----------------
    enc_lines, metas = [], []
    for tl in range(12, 17):
        for pl in [0, 1, 15, 16, 17, 33, 64, 100]:
            key, iv, aad, pt = K0, r.bytes(r.choice([12, 12, 8, 16])).hex(), hexs(r.bytes(r.choice([0, 7, 16]))), r.bytes(pl)
            chunks = r.split(pt, r.range(1, 5))
            add("gcmencs %s %s %s %d %s" % (key, iv, aad, tl, cs(chunks)), "gcmencs:tag%d:%s" % (tl, "k%d" % min(len(chunks), 3)))
            enc_lines.append("gcmenc sm4 %s %s %s %s %d" % (key, iv, aad, hexs(pt), tl)); metas.append((key, iv, aad, tl))
    add("gcmencs %s %s - 16 ." % (K0, "00" * 12), "gcmencs:nochunks")
    add("gcmencs %s %s - 16 -" % (K0 + "00", "00" * 12), "gcmencs:bad-keylen")
    outs, _ = core.run_lines(model, enc_lines)
    for (key, iv, aad, tl), o in zip(metas, outs):
        if " " not in o:
            continue
        c, t = o.split(" ")[:2]
        stream = bytes.fromhex("" if c == "-" else c) + bytes.fromhex(t)
        for variant in range(3):
            chunks = r.split(stream, r.range(1, 5)) if variant else [stream]
            if variant == 2 and len(stream) > tl + 2:   # aim at the window: cut inside the tag
                cut = len(stream) - r.range(1, tl - 1)
                chunks = [stream[:cut], stream[cut:]]
            bulk, fill, slide = window_classes(chunks, tl)
            if True:
                cell = "gcmdecs:tag%d:%s%s%s" % (tl, "B" if bulk else "", "F" if fill else "", "S" if slide else "")
            add("gcmdecs %s %s %s %d %s" % (key, iv, aad, tl, cs(chunks)), cell)
        # corrupted / truncated streams
        if len(stream) > 0:
            badb = bytearray(stream); badb[r.below(len(badb))] ^= 1 << r.below(8)
            add("gcmdecs %s %s %s %d %s" % (key, iv, aad, 16 if tl < 16 else tl, cs([bytes(badb)]) if tl == 16 else cs([bytes(badb) + b"\0" * 0])), "gcmdecs:corrupt")
        add("gcmdecs %s %s %s %d %s" % (key, iv, aad, tl, cs([stream[:tl - 1]])), "gcmdecs:short<taglen")
    # *outlen left untouched when a chunk only fills the window
    add("gcmdecsq %s %s - 16 %s" % (K0, "00" * 12, cs([b"\1" * 5, b"\2" * 30])), "gcmdecs:outlen-on-window-fill")
    # ---------------- CCM: nonce 7..13 x tag {4..16 even} x AAD lengths ----------------
    aads = [0, 1, 13, 14, 15, 16, 30]
    big = [65279, 65280]
    for nl in range(7, 14):
        for tl in range(4, 17, 2):
            for al in aads + (big if (thorough or (nl in (7, 13) and tl in (4, 16))) else []):
                alen = 0 if al == 0 else (2 if al < 65280 else 6)
                padbug = al > 0 and (alen + al) % 16 == 0
                pl = r.choice([0, 1, 16, 17, 33])
                key, iv, aad, pt = r.bytes(16).hex(), r.bytes(nl).hex(), hexs(r.bytes(al)), hexs(r.bytes(pl))
                acls = "aad%d" % al if al in (0, 65279, 65280) else ("aad-blockaligned" if padbug else "aad-small")
                add("ccmenc %s %s %s %s %d" % (key, iv, aad, pt, tl), "ccmenc:n%d:%s" % (nl, acls))
                if al < 1000:
                    shift = 8 <= nl <= 11
                    add("ccmrt %s %s %s %s %d" % (key, iv, aad, pt, tl), "ccmrt:n%d:t%d:%s" % (nl, tl, acls))
    for iv, tl, cls in [("00" * 6, 16, "iv6"), ("00" * 14, 16, "iv14"), ("00" * 12, 2, "tag2"), ("00" * 12, 18, "tag18"), ("00" * 12, 7, "tag-odd")]:
        add("ccmenc %s %s - 0102 %d" % (K0, iv, tl), "ccmenc:bad-" + cls)
        add("ccmdec %s %s - 0102 %s" % (K0, iv, "00" * min(tl, 20)), "ccmdec:bad-" + cls)
    for n in (65535, 65536):   # nonce 13 -> 2-byte length field
        add("ccmenc %s %s - %s 8" % (K0, "00" * 13, (b"\x5a" * n).hex()), "ccmenc:len-limit-%s" % ("ok" if n == 65535 else "over"))
    add("ccmdec %s %s 0102 0102 %s" % (K0, "00" * 12, "00" * 8), "ccmdec:random-tag")
    add("ccmdec %s %s 0102 0102 %s" % (K0, "00" * 7, "00" * 8), "ccmdec:random-tag")
    # ---------------- AES block cipher and aes_modes ----------------
    for kl, ct in ((16, "69c4e0d86a7b0430d8cdb78070b4c55a"), (24, "dda97ca4864cdfe06eaf70a0ec0d7191"), (32, "8ea2b7ca516745bfeafc49904b496089")):
        key = bytes(range(kl)).hex()
        add("aesenc %s 00112233445566778899aabbccddeeff" % key, "aesenc:k%d:fips197" % kl)
        add("aesdec %s %s" % (key, ct), "aesdec:k%d:fips197" % kl)
        for i in range(12 if not thorough else 300):
            k, b = r.bytes(kl).hex(), r.bytes(16).hex()
            add("aesenc %s %s" % (k, b), "aesenc:k%d:random" % kl)
            add("aesdec %s %s" % (k, b), "aesdec:k%d:random" % kl)
        for pl in [0, 1, 15, 16, 17, 32, 47]:
            add("aescbcenc %s %s %s" % (r.bytes(kl).hex(), r.bytes(16).hex(), hexs(r.bytes(pl))), "aescbcenc:k%d:%s" % (kl, "blk" if pl % 16 == 0 else "part"))
            add("aesctr %s %s %s" % (r.bytes(kl).hex(), r.bytes(16).hex(), hexs(r.bytes(pl))), "aesctr:k%d:%s" % (kl, "blk" if pl % 16 == 0 else "part"))
        add("aesctr %s %s %s" % (r.bytes(kl).hex(), "ff" * 16, r.bytes(40).hex()), "aesctr:k%d:ctr-wrap128" % kl)
        add("aesctr %s %s %s" % (r.bytes(kl).hex(), "00" * 12 + "ffffffff", r.bytes(40).hex()), "aesctr:k%d:ctr-carry32" % kl)
        for cl in [0, 1, 16, 17, 32, 48]:
            add("aescbcdec %s %s %s" % (r.bytes(kl).hex(), r.bytes(16).hex(), hexs(r.bytes(cl))), "aescbcdec:k%d:%s" % (kl, "len0" if cl == 0 else ("blk" if cl % 16 == 0 else "badlen")))
    add("aesenc 0011 00112233445566778899aabbccddeeff", "aesenc:bad-keylen")
    add("aesenc %s 00112233445566778899aabbccddeeff" % ("00" * 20), "aesenc:bad-keylen")
    # ---------------- ZUC ----------------
    for nw in range(0, 6):
        add("zucks %s %s %d" % (r.bytes(16).hex(), r.bytes(16).hex(), nw), "zucks:n%s" % ("0" if nw == 0 else "n"))
        add("zuc256ks %s %s %d" % (r.bytes(32).hex(), r.bytes(23).hex(), nw), "zuc256ks:n%s" % ("0" if nw == 0 else "n"))
    # one state, several generate calls, keyword and keystream mixed (C04b_zuc_keystream_chunking / _keyword_is_one_word_keystream)
    for items in (["1", "1"], ["w", "2"], ["2", "w", "0", "3"], ["w", "w", "w"], ["0", "4", "w"], [r.choice(["w", "0", "1", "2", "5"]) for _ in range(r.range(2, 6))]):
        add("zuckss %s %s %s" % (r.bytes(16).hex(), r.bytes(16).hex(), ",".join(items)), "zuckss:calls%d:%s" % (min(len(items), 4), "mixed" if "w" in items else "ks"))
        add("zuc256kss %s %s %s" % (r.bytes(32).hex(), r.bytes(23).hex(), ",".join(items)), "zuc256kss:calls%d:%s" % (min(len(items), 4), "mixed" if "w" in items else "ks"))
    add("zucks %s %s 2" % ("00" * 16, "00" * 16), "zucks:std-vector")
    add("zucks %s %s 2" % ("ff" * 16, "ff" * 16), "zucks:std-vector")
    add("zucks 3d4c4be96a82fdaeb58f641db17b455b 84319aa8de6915ca1f6bda6bfbd8c766 2", "zucks:std-vector")
    add("zuc256ks %s %s 20" % ("ff" * 32, "ff" * 23), "zuc256ks:std-vector")
    for n in range(0, 21):
        key, iv, d = r.bytes(16).hex(), r.bytes(16).hex(), r.bytes(n)
        add("zucenc %s %s %s" % (key, iv, hexs(d)), "zucenc:tail" if n % 4 else "zucenc:words")
        add("zucencs %s %s %s" % (key, iv, cs(r.split(d, r.range(1, 5)))), "zucencs:%s" % ("tail" if n % 4 else "words"))
    add("zucencs %s %s ." % ("00" * 16, "00" * 16), "zucencs:nochunks")
    for nbits in [0, 1, 7, 8, 31, 32, 33, 64, 193, 800]:
        nw = (nbits + 31) // 32
        add("zuceea %s %d %d %d %d %s" % (r.bytes(16).hex(), r.below(2**32), r.below(32), r.below(2), nbits, hexs(r.bytes(4 * nw))), "zuceea:bits%%32=%s" % ("0" if nbits % 32 == 0 else "nz"))
    add("zuceea 173d14ba5003731d7a60049470f00a29 1722614282 21 1 193 6cf65340735552ab0c9752fa6f9025fe0bd675d9005875b200000000", "zuceea:std-vector")
    for nbits in [1, 7, 8, 9, 31, 32, 33, 63, 64, 65, 90, 577, 1000]:
        nb = (nbits + 7) // 8
        add("zuceia %s %d %d %d %d %s" % (r.bytes(16).hex(), r.below(2**32), r.below(32), r.below(2), nbits, r.bytes(nb + (4 - nb % 4) % 4).hex()),
            "zuceia:bits%s" % ("%32=0" if nbits % 32 == 0 else ("%8=0" if nbits % 8 == 0 else "odd")))
    add("zuceia %s 0 0 0 1 00000000" % ("00" * 16), "zuceia:std-vector")
    add("zuceia c9e6cec4607c72db000aefa88385ab0a 2839566810 10 1 577 983b41d47d780c9e1ad11d7eb70391b1de0b35da2dc62f83e7b78d6306ca0ea07e941b7be91348f9fcb170e2217fecd97f9f68adb16e5d7d21e569d280ed775cebde3f4093c5388100000000", "zuceia:std-vector")
    for n in [0, 1, 3, 4, 5, 8, 11, 29]:
        for nbits in [0, 1, 7] + ([8, 9, 15] if n in (1, 4, 11) else []):
            d = r.bytes(n)
            tail = r.bytes((nbits + 7) // 8)
            ch = r.split(d, r.range(1, 4)) if n else []
            add("zucmac %s %s %s %s %d" % (r.bytes(16).hex(), r.bytes(16).hex(), cs(ch), hexs(tail), nbits), "zucmac:len%%4=%d:bits%s" % (n % 4, "0" if nbits == 0 else ("<8" if nbits < 8 else ">=8")))
            for mb in ([32, 64, 128] if nbits in (0, 7) else [r.choice([0, 16, 96, 200])]):
                add("zuc256mac %s %s %d %s %s %d" % (r.bytes(32).hex(), r.bytes(23).hex(), mb, cs(ch), hexs(tail), nbits),
                    "zuc256mac:mac%s:len%%4=%d" % (mb if mb in (32, 64, 128) else "clamped", n % 4))
    add("zuc256mac %s %s 32 %s - 0" % ("00" * 32, "00" * 23, cs([b"\0" * 50])), "zuc256mac:std-vector")
    # ---------------- ChaCha20 ----------------
    add("chacha %s 000000090000004a00000000 1 1" % bytes(range(32)).hex(), "chacha:rfc8439")
    for ctr in [0, 1, 2**32 - 1, 2**32 - 2, r.below(2**32)]:
        for nb in [0, 1, 2, 3]:
            add("chacha %s %s %d %d" % (r.bytes(32).hex(), r.bytes(12).hex(), ctr, nb), "chacha:ctr%s:n%d" % ("wrap" if ctr >= 2**32 - 2 else "n", min(nb, 2)))
    # one context, several generate calls (C04b_chacha20_keystream_chunking / _is_rfc8439_blocks), counter wrap inside a later call
    for ctr in [0, 2**32 - 1, 2**32 - 2, 2**32 - 3, r.below(2**32)]:
        for counts in ([1, 1], [2, 1], [0, 2, 0, 1], [1, 2, 3], [r.range(0, 3) for _ in range(r.range(2, 5))]):
            add("chachas %s %s %d %s" % (r.bytes(32).hex(), r.bytes(12).hex(), ctr, ",".join(map(str, counts))),
                "chachas:ctr%s:calls%d" % ("wrap" if ctr + sum(counts) >= 2**32 else "n", min(len(counts), 3)))
    # ---------------- SM4-CBC/CTR + SM3-HMAC ----------------
    enc_lines, metas = [], []
    for mode in ("cbc", "ctr"):
        for pl in [0, 1, 15, 16, 17, 32, 33, 48]:
            key, iv, aad, pt = r.bytes(48).hex(), r.bytes(16).hex(), hexs(r.bytes(r.choice([0, 3, 64]))), r.bytes(pl)
            add("hmenc %s %s %s %s %s" % (mode, key, iv, aad, cs(r.split(pt, r.range(1, 4)))), "hmenc:%s:%s" % (mode, "blk" if pl % 16 == 0 else "part"))
            enc_lines.append("hmenc %s %s %s %s %s" % (mode, key, iv, aad, cs([pt]))); metas.append((mode, key, iv, aad))
        add("hmenc %s %s %s - ." % (mode, "00" * 48, "00" * 16), "hmenc:%s:nochunks" % mode)
        add("hmenc %s %s %s - 00" % (mode, "00" * 47, "00" * 16), "hmenc:%s:bad-keylen" % mode)
    outs, _ = core.run_lines(model, enc_lines)
    for (mode, key, iv, aad), o in zip(metas, outs):
        if o.startswith("ERR") or o.startswith("MODEL"):
            continue
        stream = bytes.fromhex(o)
        for variant in range(3):
            chunks = r.split(stream, r.range(1, 5)) if variant else [stream]
            if variant == 2:
                cut = len(stream) - r.range(1, 31)
                chunks = [stream[:cut], stream[cut:]]
            bulk, fill, slide = window_classes(chunks, 32)
            add("hmdec %s %s %s %s %s" % (mode, key, iv, aad, cs(chunks)), "hmdec:%s:%s%s%s" % (mode, "B" if bulk else "", "F" if fill else "", "S" if slide else ""))
        badb = bytearray(stream); badb[r.below(len(badb))] ^= 1 << r.below(8)
        add("hmdec %s %s %s %s %s" % (mode, key, iv, aad, cs(r.split(bytes(badb), 2))), "hmdec:%s:corrupt" % mode)
        add("hmdec %s %s %s %s %s" % (mode, key, iv, aad, cs([stream[:31]])), "hmdec:%s:short<32" % mode)
        if len(stream) == 48 or len(stream) == 32 + 17:
            add("hmdecq %s %s %s %s %s" % (mode, key, iv, aad, cs([stream[:7], stream[7:]])), "hmdec:outlen-on-window-fill")
    # ---------------- in place (out == in): same bytes as out of place = the model ----------------
    def split16(data, unit=16):
        """chunks whose sizes are multiples of `unit` (the last one arbitrary): the pattern of the gmssl tools"""
        out, pos = [], 0
        while pos < len(data):
            n = unit * r.range(1, 3)
            out.append(data[pos:pos + n]); pos += n
        return out
    for alg, keys in (("sm4", [16]), ("aes", [16, 24, 32])):
        for pl in LENS + [100]:
            for tl in (12, 16):
                add("gcmrt! %s %s %s %s %s %d" % (alg, r.bytes(r.choice(keys)).hex(), r.bytes(r.choice([12, 12, 7, 16])).hex(), hexs(r.bytes(r.choice([0, 5, 16]))), hexs(r.bytes(pl)), tl),
                    "gcm:inplace:rt:%s:pt%s" % (alg, "0" if pl == 0 else ("blk" if pl % 16 == 0 else "part")))
        add("gcmdec! %s %s %s - %s %s" % (alg, r.bytes(keys[0]).hex(), r.bytes(12).hex(), r.bytes(33).hex(), r.bytes(16).hex()), "gcm:inplace:dec-random-tag:%s" % alg)
    for nl in range(7, 14):
        for al in (0, 14, 20):
            for pl in (0, 1, 16, 17, 48):
                tl = r.choice([4, 8, 16])
                key, iv, aad, pt = r.bytes(16).hex(), r.bytes(nl).hex(), hexs(r.bytes(al)), hexs(r.bytes(pl))
                add("ccmrt! %s %s %s %s %d" % (key, iv, aad, pt, tl), "ccm:inplace:rt:n%d" % nl)
                if pl in (1, 48):
                    add("ccmenc! %s %s %s %s %d" % (key, iv, aad, pt, tl), "ccm:inplace:enc:n%d" % nl)
    enc_lines, metas = [], []
    for pl in [0, 16, 17, 48, 100]:
        key, iv, aad, pt = K0, r.bytes(12).hex(), hexs(r.bytes(r.choice([0, 7]))), r.bytes(pl)
        add("gcmencs! %s %s %s 16 %s" % (key, iv, aad, cs(split16(pt))), "gcm:inplace:encs")
        enc_lines.append("gcmenc sm4 %s %s %s %s 16" % (key, iv, aad, hexs(pt))); metas.append((key, iv, aad))
    outs, _ = core.run_lines(model, enc_lines)
    for (key, iv, aad), o in zip(metas, outs):
        if " " in o:
            c, t = o.split(" ")[:2]
            stream = bytes.fromhex("" if c == "-" else c) + bytes.fromhex(t)
            add("gcmdecs! %s %s %s 16 %s" % (key, iv, aad, cs(split16(stream))), "gcm:inplace:decs")
    enc_lines, metas = [], []
    for mode in ("cbc", "ctr"):
        for pl in [0, 16, 17, 48, 80]:
            key, iv, aad, pt = r.bytes(48).hex(), r.bytes(16).hex(), hexs(r.bytes(r.choice([0, 9]))), r.bytes(pl)
            add("hmenc! %s %s %s %s %s" % (mode, key, iv, aad, cs(split16(pt))), "hm:inplace:enc:%s" % mode)
            enc_lines.append("hmenc %s %s %s %s %s" % (mode, key, iv, aad, cs([pt]))); metas.append((mode, key, iv, aad))
    outs, _ = core.run_lines(model, enc_lines)
    for (mode, key, iv, aad), o in zip(metas, outs):
        if not (o.startswith("ERR") or o.startswith("MODEL")):
            add("hmdec! %s %s %s %s %s" % (mode, key, iv, aad, cs(split16(bytes.fromhex(o)))), "hm:inplace:dec:%s" % mode)
    for kl in (16, 24, 32):
        add("aesenc! %s %s" % (r.bytes(kl).hex(), r.bytes(16).hex()), "aes:inplace:enc")
        add("aesdec! %s %s" % (r.bytes(kl).hex(), r.bytes(16).hex()), "aes:inplace:dec")
        for pl in (0, 15, 16, 33):
            add("aescbcenc! %s %s %s" % (r.bytes(kl).hex(), r.bytes(16).hex(), hexs(r.bytes(pl))), "aes:inplace:cbcenc")
            add("aesctr! %s %s %s" % (r.bytes(kl).hex(), r.bytes(16).hex(), hexs(r.bytes(pl))), "aes:inplace:ctr")
    for n in (0, 3, 4, 8, 13, 64):
        key, iv, d = r.bytes(16).hex(), r.bytes(16).hex(), r.bytes(n)
        add("zucenc! %s %s %s" % (key, iv, hexs(d)), "zuc:inplace:enc")
        add("zucencs! %s %s %s" % (key, iv, cs(split16(d, 4))), "zuc:inplace:encs")
    for nbits in (1, 32, 65, 193):
        nw = (nbits + 31) // 32
        add("zuceea! %s %d %d %d %d %s" % (r.bytes(16).hex(), r.below(2**32), r.below(32), r.below(2), nbits, r.bytes(4 * nw).hex()), "zuc:inplace:eea")
    return cases


DEC_INPLACE = ("gcmdecs!", "hmdec!", "gcmdec!", "ccmdec!", "aesdec!")


def observe(line, impl_out, spec_out):
    """C04 claims only ENCRYPTING in place; decrypt-direction aliasing disagreements are observations.
    For the round-trip ops the encrypt half (ciphertext and tag) must still agree."""
    op = line.split(" ", 1)[0]
    if op in DEC_INPLACE:
        return True
    if op in ("gcmrt!", "ccmrt!"):
        return impl_out.split(" ")[:2] == spec_out.split(" ")[:2]
    return False


def run(ctx):
    ctx.check_proofs()
    model, log = core.build_model("C04b")
    if model is None:
        ctx.violation("correspondence:model-build", "extracted model does not build: " + log[-500:], {"kind": "correspondence", "log": log[-3000:]}, False)
        return finish(ctx)
    cases = gen(ctx, model)
    for v in (["asan"] if ctx.tier == "quick" else ["asan", "small"]):
        exe, log = core.build_harness("C04b", v)
        if exe is None:
            core.harness_build_failed(ctx, log)
            continue
        devdiff.differential(ctx, cases, exe, model, variant=v, observe=observe)
    return finish(ctx)


def finish(ctx):
    ctx.assumptions = [
        "gf128_mul: C limb loop = 128-bit Horner form = SP 800-38D Algorithm 1 are theorems (C04b_gf128_mul_limbs, C04b_gf128_mul_spec); the identification of Algorithm 1 with multiplication in GF(2)[x]/(x^128+x^7+x^2+x+1) is the standard's definition (ring laws not proved)",
        "AES / ZUC / ChaCha20 models are the standards' definitions pinned by their published vectors (Examples); aes_dec_enc, AES S-box table = inverse+affine map, ZUC streaming = one-shot, LFSR range, and the ChaCha20 keystream loop (blocks at c, c+1, ... mod 2^32; split into calls; 64*n bytes) are theorems",
        "CCM Impl model = RFC 3610 Spec is a theorem (ccm_eq_rfc3610); the Spec is pinned by RFC 8998 A.2",
        "SIMD/AES-NI back-ends not built in the quick tier",
    ]
    return ctx.finish(level="proof",
                      rule="cases = boundary families (block/partial lengths 0..64, GCM IV 1..64 x tag 12..16, CCM nonce 7..13 x tag 4..16 x AAD {0,1,13,14,15,16,30,65279,65280}, window branches fill/slide/bulk of the streaming decryptors, counter wrap, bit lengths around 32 for EEA3/EIA3, argument-check failures) + random chunkings + corrupted streams; a cell = (op, variant, boundary class, ok|ERR); distinct_nontrivial = cells on which implementation and Spec agreed",
                      extra={"observations": getattr(ctx, "observations", [])},
                      trusted=core.TRUSTED_COMMON + ["vlib/devdiff.py (comparison against `spec ## impl-model` lines)",
                                                     "Coq files: Cipher/GF128.v GCM.v CCM.v AES.v ZUC.v ChaCha.v Aead.v (models), *Proofs.v, Props/Properties_C04b.v"])
