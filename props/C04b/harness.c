/* C04b correspondence harness: GF(2^128)/GHASH, SM4-GCM, AES-GCM, SM4-CCM, AES, ZUC, ChaCha20
 * of the current /repo tree.  Every buffer handed to the library is an exactly sized heap block. */
#include "common.h"
#include <gmssl/sm4.h>
#include <gmssl/aes.h>
#include <gmssl/gf128.h>
#include <gmssl/ghash.h>
#include <gmssl/zuc.h>
#include <gmssl/chacha20.h>
#include <gmssl/sm4_cbc_sm3_hmac.h>
#include <gmssl/sm4_ctr_sm3_hmac.h>

#define MAXC 128
static buf_t ch[MAXC];
#define UNSET ((size_t)0xdeadbeefdeadbeefULL)

static void freeb(buf_t *b) { free(b->p); }
/* in-place classes (op name ends in '!'): the input is copied into the output buffer and the library is
 * called with in == out; the result must equal the out-of-place result (= the model) */
static int inplace;
static const uint8_t *INP(buf_t src, uint8_t *out) { if (!inplace) return src.p; if (src.n) memcpy(out, src.p, src.n); return out; }
static uint8_t *dup_exact(const uint8_t *p, size_t n) { uint8_t *q = malloc(n ? n : 1); if (n) memcpy(q, p, n); return q; }

/* gf128mul a b */
static void do_gf128mul(char **w) {
	buf_t a = hex2buf(w[1]), b = hex2buf(w[2]); gf128_t x, y, r; uint8_t *o = malloc(16);
	gf128_from_bytes(x, a.p); gf128_from_bytes(y, b.p); gf128_mul(r, x, y); gf128_to_bytes(r, o);
	puthex(o, 16); free(o); freeb(&a); freeb(&b);
}
/* gf128x2 a : gf128_mul_by_2 ; gf128one a : a * (gf128_set_one) */
static void do_gf128x(char **w, int one) {
	buf_t a = hex2buf(w[1]); gf128_t x, y, r; uint8_t *o = malloc(16);
	gf128_from_bytes(x, a.p);
	if (one) { gf128_set_one(y); gf128_mul(r, x, y); } else gf128_mul_by_2(r, x);
	gf128_to_bytes(r, o); puthex(o, 16); free(o); freeb(&a);
}
/* ghash h aad c | ghashs h aad chunks */
static void do_ghash(char **w, int stream) {
	buf_t h = hex2buf(w[1]), aad = hex2buf(w[2]); uint8_t *o = malloc(16);
	if (!stream) { buf_t c = hex2buf(w[3]); ghash(h.p, aad.p, aad.n, c.p, c.n, o); freeb(&c); }
	else { size_t k = split_chunks(w[3], ch, MAXC), i; GHASH_CTX ctx; ghash_init(&ctx, h.p, aad.p, aad.n);
		for (i = 0; i < k; i++) ghash_update(&ctx, ch[i].p, ch[i].n);
		ghash_finish(&ctx, o); free_chunks(ch, k); }
	puthex(o, 16); free(o); freeb(&h); freeb(&aad);
}

static int set_sm4(SM4_KEY *k, buf_t key) { if (key.n != 16) return 0; sm4_set_encrypt_key(k, key.p); return 1; }

/* gcmenc alg key iv aad pt taglen  ->  ct tag */
static void do_gcmenc(char **w) {
	buf_t key = hex2buf(w[2]), iv = hex2buf(w[3]), aad = hex2buf(w[4]), pt = hex2buf(w[5]);
	size_t taglen = (size_t)atol(w[6]); int r = -1;
	uint8_t *out = malloc(pt.n ? pt.n : 1), *tag = malloc(taglen && taglen <= 64 ? taglen : 1);
	if (!strcmp(w[1], "sm4")) { SM4_KEY k; if (set_sm4(&k, key)) r = sm4_gcm_encrypt(&k, iv.p, iv.n, aad.p, aad.n, INP(pt, out), pt.n, out, taglen, tag); }
	else { AES_KEY k; if (aes_set_encrypt_key(&k, key.p, key.n) == 1) r = aes_gcm_encrypt(&k, iv.p, iv.n, aad.p, aad.n, INP(pt, out), pt.n, out, taglen, tag); }
	if (r == 1) { puthex(out, pt.n); putchar(' '); puthex(tag, taglen); } else printf("ERR");
	free(out); free(tag); freeb(&key); freeb(&iv); freeb(&aad); freeb(&pt);
}
/* gcmdec alg key iv aad ct tag -> pt */
static void do_gcmdec(char **w) {
	buf_t key = hex2buf(w[2]), iv = hex2buf(w[3]), aad = hex2buf(w[4]), ct = hex2buf(w[5]), tag = hex2buf(w[6]);
	int r = -1; uint8_t *out = malloc(ct.n ? ct.n : 1);
	if (!strcmp(w[1], "sm4")) { SM4_KEY k; if (set_sm4(&k, key)) r = sm4_gcm_decrypt(&k, iv.p, iv.n, aad.p, aad.n, INP(ct, out), ct.n, tag.p, tag.n, out); }
	else { AES_KEY k; if (aes_set_encrypt_key(&k, key.p, key.n) == 1) r = aes_gcm_decrypt(&k, iv.p, iv.n, aad.p, aad.n, INP(ct, out), ct.n, tag.p, tag.n, out); }
	if (r == 1) puthex(out, ct.n); else printf("ERR");
	free(out); freeb(&key); freeb(&iv); freeb(&aad); freeb(&ct); freeb(&tag);
}
/* gcmrt alg key iv aad pt taglen -> ct tag (and decrypt of it must give pt back) */
static void do_gcmrt(char **w) {
	buf_t key = hex2buf(w[2]), iv = hex2buf(w[3]), aad = hex2buf(w[4]), pt = hex2buf(w[5]);
	size_t taglen = (size_t)atol(w[6]); int r = -1, r2 = -1;
	uint8_t *out = malloc(pt.n ? pt.n : 1), *tag = malloc(taglen ? taglen : 1), *back = malloc(pt.n ? pt.n : 1);
	if (!strcmp(w[1], "sm4")) { SM4_KEY k; if (set_sm4(&k, key)) { r = sm4_gcm_encrypt(&k, iv.p, iv.n, aad.p, aad.n, INP(pt, out), pt.n, out, taglen, tag);
		if (r == 1) { if (inplace && pt.n) memcpy(back, out, pt.n); r2 = sm4_gcm_decrypt(&k, iv.p, iv.n, aad.p, aad.n, inplace ? back : out, pt.n, tag, taglen, back); } } }
	else { AES_KEY k; if (aes_set_encrypt_key(&k, key.p, key.n) == 1) { r = aes_gcm_encrypt(&k, iv.p, iv.n, aad.p, aad.n, INP(pt, out), pt.n, out, taglen, tag);
		if (r == 1) { if (inplace && pt.n) memcpy(back, out, pt.n); r2 = aes_gcm_decrypt(&k, iv.p, iv.n, aad.p, aad.n, inplace ? back : out, pt.n, tag, taglen, back); } } }
	if (r != 1) printf("ERR");
	else { puthex(out, pt.n); putchar(' '); puthex(tag, taglen); printf(" %s", (r2 == 1 && memcmp(back, pt.p, pt.n) == 0) ? "RT" : "RTFAIL"); }
	free(out); free(tag); free(back); freeb(&key); freeb(&iv); freeb(&aad); freeb(&pt);
}

/* one streaming update with the NULL-buffer query first; prints the produced bytes.
 * strict: report an *outlen left untouched by a successful call; otherwise treat it as 0 */
typedef int (*upd_fn)(SM4_GCM_CTX *, const uint8_t *, size_t, uint8_t *, size_t *);
static int gcm_stream_update(upd_fn f, SM4_GCM_CTX *ctx, buf_t in, int *over, int strict) {
	size_t rep = UNSET, outlen = UNSET; uint8_t *out; int r;
	if (f(ctx, in.p, in.n, NULL, &rep) != 1) return -1;
	out = malloc(rep ? rep : 1);      /* rep >= inlen: also large enough to hold the input in the in-place class */
	r = f(ctx, INP(in, out), in.n, out, &outlen);
	if (r == 1) {
		if (outlen == UNSET) { if (strict) printf("OUTLEN-UNSET"); else putchar('-'); }
		else { if (outlen > rep) *over = 1; puthex(out, outlen > rep ? rep : outlen); }
	}
	free(out); return r;
}
/* gcmencs key iv aad taglen chunks -> "o1 o2 .. | final" ; gcmdecs likewise; gcmdecsq = strict */
static void do_gcms(char **w, int dec, int strict) {
	buf_t key = hex2buf(w[1]), iv = hex2buf(w[2]), aad = hex2buf(w[3]); size_t taglen = (size_t)atol(w[4]);
	size_t k = split_chunks(w[5], ch, MAXC), i; SM4_GCM_CTX *ctx = malloc(sizeof(SM4_GCM_CTX)); int over = 0;
	if ((dec ? sm4_gcm_decrypt_init : sm4_gcm_encrypt_init)(ctx, key.p, key.n, iv.p, iv.n, aad.p, aad.n, taglen) != 1) { printf("ERR"); goto end; }
	for (i = 0; i < k; i++) {
		if (gcm_stream_update(dec ? sm4_gcm_decrypt_update : sm4_gcm_encrypt_update, ctx, ch[i], &over, strict) != 1) { printf("ERR"); goto end; }
		putchar(' ');
	}
	{
		size_t rep = UNSET, outlen = UNSET; uint8_t *out; int r;
		if ((dec ? sm4_gcm_decrypt_finish : sm4_gcm_encrypt_finish)(ctx, NULL, &rep) != 1) { printf("| ERR"); goto end; }
		out = malloc(rep ? rep : 1);
		r = (dec ? sm4_gcm_decrypt_finish : sm4_gcm_encrypt_finish)(ctx, out, &outlen);
		if (r == 1) { printf("| "); if (outlen > rep) over = 1; puthex(out, outlen > rep ? rep : outlen); } else printf("| ERR");
		free(out);
	}
	if (over) printf(" WROTE-MORE-THAN-REPORTED");
end:
	free(ctx); free_chunks(ch, k); freeb(&key); freeb(&iv); freeb(&aad);
}

#ifdef ENABLE_SM4_CCM
/* ccmenc key iv aad pt taglen -> ct tag ; ccmrt adds the decrypt of the result */
static void do_ccm(char **w, int rt) {
	buf_t key = hex2buf(w[1]), iv = hex2buf(w[2]), aad = hex2buf(w[3]), pt = hex2buf(w[4]);
	size_t taglen = (size_t)atol(w[5]); int r = -1, r2 = -1; SM4_KEY k;
	uint8_t *out = malloc(pt.n ? pt.n : 1), *tag = malloc(taglen && taglen <= 64 ? taglen : 1), *back = malloc(pt.n ? pt.n : 1);
	if (set_sm4(&k, key)) {
		r = sm4_ccm_encrypt(&k, iv.p, iv.n, aad.n ? aad.p : NULL, aad.n, INP(pt, out), pt.n, out, taglen, tag);
		if (r == 1) { puthex(out, pt.n); putchar(' '); puthex(tag, taglen); fflush(stdout); }
		if (r == 1 && rt) { if (inplace && pt.n) memcpy(back, out, pt.n); r2 = sm4_ccm_decrypt(&k, iv.p, iv.n, aad.n ? aad.p : NULL, aad.n, inplace ? back : out, pt.n, tag, taglen, back); }
	}
	if (r != 1) printf("ERR");
	else if (rt) printf(" %s", (r2 == 1 && memcmp(back, pt.p, pt.n) == 0) ? "RT" : "RTFAIL");
	free(out); free(tag); free(back); freeb(&key); freeb(&iv); freeb(&aad); freeb(&pt);
}
/* ccmdec key iv aad ct tag -> pt */
static void do_ccmdec(char **w) {
	buf_t key = hex2buf(w[1]), iv = hex2buf(w[2]), aad = hex2buf(w[3]), ct = hex2buf(w[4]), tag = hex2buf(w[5]);
	int r = -1; SM4_KEY k; uint8_t *out = malloc(ct.n ? ct.n : 1);
	if (set_sm4(&k, key)) r = sm4_ccm_decrypt(&k, iv.p, iv.n, aad.n ? aad.p : NULL, aad.n, INP(ct, out), ct.n, tag.p, tag.n, out);
	if (r == 1) puthex(out, ct.n); else printf("ERR");
	free(out); freeb(&key); freeb(&iv); freeb(&aad); freeb(&ct); freeb(&tag);
}
#endif

/* sm4enc key blk */
static void do_sm4enc(char **w) {
	buf_t key = hex2buf(w[1]), blk = hex2buf(w[2]); SM4_KEY k; uint8_t *o = malloc(16);
	if (blk.n != 16 || !set_sm4(&k, key)) printf("ERR"); else { sm4_encrypt(&k, blk.p, o); puthex(o, 16); }
	free(o); freeb(&key); freeb(&blk);
}
/* aesenc key blk | aesdec key blk */
static void do_aes(char **w, int dec) {
	buf_t key = hex2buf(w[1]), blk = hex2buf(w[2]); AES_KEY k; uint8_t *o = malloc(16);
	if (blk.n != 16 || (dec ? aes_set_decrypt_key : aes_set_encrypt_key)(&k, key.p, key.n) != 1) printf("ERR");
	else { (dec ? aes_decrypt : aes_encrypt)(&k, INP(blk, o), o); puthex(o, 16); }
	free(o); freeb(&key); freeb(&blk);
}
/* aescbcenc key iv pt | aescbcdec key iv ct | aesctr key ctr data */
static void do_aesmode(char **w, int which) {
	buf_t key = hex2buf(w[1]), iv = hex2buf(w[2]), d = hex2buf(w[3]); AES_KEY k; size_t outlen = 0; int r;
	uint8_t *o = malloc(d.n + 16);
	if (iv.n != 16) { printf("ERR"); goto end; }
	if (which == 0) { if (aes_set_encrypt_key(&k, key.p, key.n) != 1) { printf("ERR"); goto end; }
		r = aes_cbc_padding_encrypt(&k, iv.p, INP(d, o), d.n, o, &outlen); }
	else if (which == 1) { if (aes_set_decrypt_key(&k, key.p, key.n) != 1) { printf("ERR"); goto end; }
		free(o); o = malloc(d.n ? d.n : 1);
		r = aes_cbc_padding_decrypt(&k, iv.p, d.p, d.n, o, &outlen); }
	else { if (aes_set_encrypt_key(&k, key.p, key.n) != 1) { printf("ERR"); goto end; }
		uint8_t *c = dup_exact(iv.p, 16); free(o); o = malloc(d.n ? d.n : 1);
		aes_ctr_encrypt(&k, c, INP(d, o), d.n, o); outlen = d.n; r = 1; free(c); }
	if (r == 1) puthex(o, outlen); else printf("ERR");
end:
	free(o); freeb(&key); freeb(&iv); freeb(&d);
}

static void putwords(const uint32_t *z, size_t n) { size_t i; if (!n) { putchar('-'); return; } for (i = 0; i < n; i++) printf("%08x", z[i]); }
/* zucks key iv nwords | zuc256ks key iv nwords */
static void do_zucks(char **w, int z256) {
	buf_t key = hex2buf(w[1]), iv = hex2buf(w[2]); size_t n = (size_t)atol(w[3]); ZUC_STATE st; uint32_t *z = malloc(n ? 4 * n : 1);
	if (z256) { zuc256_init(&st, key.p, iv.p); zuc256_generate_keystream(&st, n, z); } else { zuc_init(&st, key.p, iv.p); zuc_generate_keystream(&st, n, z); }
	putwords(z, n); free(z); freeb(&key); freeb(&iv);
}
/* zuckss key iv c1,c2,... | zuc256kss ... : one state, one call per item: a number n = zuc_generate_keystream(n), `w` = zuc_generate_keyword */
static void do_zuckss(char **w, int z256) {
	buf_t key = hex2buf(w[1]), iv = hex2buf(w[2]); ZUC_STATE st; uint32_t z[64]; size_t tot = 0; char *p = w[3];
	if (z256) zuc256_init(&st, key.p, iv.p); else zuc_init(&st, key.p, iv.p);
	while (*p && tot < 32) {
		if (*p == 'w') { z[tot++] = z256 ? zuc256_generate_keyword(&st) : zuc_generate_keyword(&st); p++; }
		else { size_t n = (size_t)strtoul(p, &p, 10); if (n > 8) n = 8; if (z256) zuc256_generate_keystream(&st, n, z + tot); else zuc_generate_keystream(&st, n, z + tot); tot += n; }
		if (*p == ',') p++;
	}
	putwords(z, tot); freeb(&key); freeb(&iv);
}
/* zucenc key iv data  (one-shot zuc_encrypt on an exactly sized input) */
static void do_zucenc(char **w) {
	buf_t key = hex2buf(w[1]), iv = hex2buf(w[2]), d = hex2buf(w[3]); ZUC_STATE st; uint8_t *o = malloc(d.n ? d.n : 1);
	zuc_init(&st, key.p, iv.p); zuc_encrypt(&st, INP(d, o), d.n, o); puthex(o, d.n); free(o); freeb(&key); freeb(&iv); freeb(&d);
}
/* zucencs key iv chunks -> o1,o2,..|final */
static void do_zucencs(char **w) {
	buf_t key = hex2buf(w[1]), iv = hex2buf(w[2]); size_t k = split_chunks(w[3], ch, MAXC), i; ZUC_CTX *ctx = malloc(sizeof(ZUC_CTX));
	if (zuc_encrypt_init(ctx, key.p, iv.p) != 1) { printf("ERR"); goto end; }
	for (i = 0; i < k; i++) { size_t ol = UNSET; uint8_t *o = malloc(ch[i].n + 4);
		if (zuc_encrypt_update(ctx, INP(ch[i], o), ch[i].n, o, &ol) != 1) { printf("ERR"); free(o); goto end; }
		puthex(o, ol); putchar(' '); free(o); }
	{ size_t ol = UNSET; uint8_t *o = malloc(4); if (zuc_encrypt_finish(ctx, o, &ol) != 1) printf("| ERR"); else { printf("| "); puthex(o, ol); } free(o); }
end:
	free(ctx); free_chunks(ch, k); freeb(&key); freeb(&iv);
}
/* zuceea key count bearer dir nbits datawords(hex, big-endian words) */
static void do_zuceea(char **w) {
	buf_t key = hex2buf(w[1]), d = hex2buf(w[6]); uint32_t count = (uint32_t)strtoul(w[2], NULL, 10), bearer = (uint32_t)atol(w[3]), dir = (uint32_t)atol(w[4]);
	size_t nbits = (size_t)atol(w[5]), nw = (nbits + 31) / 32, i; uint32_t *in = malloc(nw ? 4 * nw : 1), *out = malloc(nw ? 4 * nw : 1);
	for (i = 0; i < nw; i++) in[i] = ((uint32_t)d.p[4*i] << 24) | ((uint32_t)d.p[4*i+1] << 16) | ((uint32_t)d.p[4*i+2] << 8) | d.p[4*i+3];
	zuc_eea_encrypt(in, inplace ? in : out, nbits, key.p, count, bearer, dir); putwords(inplace ? in : out, nw);
	free(in); free(out); freeb(&key); freeb(&d);
}
/* zuceia key count bearer dir nbits data(bytes, ceil(nbits/8) of them) */
static void do_zuceia(char **w) {
	buf_t key = hex2buf(w[1]), d = hex2buf(w[6]); uint32_t count = (uint32_t)strtoul(w[2], NULL, 10), bearer = (uint32_t)atol(w[3]), dir = (uint32_t)atol(w[4]);
	size_t nbits = (size_t)atol(w[5]); uint32_t t = zuc_eia_generate_mac((const ZUC_UINT32 *)d.p, nbits, key.p, count, bearer, dir);
	printf("%08x", t); freeb(&key); freeb(&d);
}
/* zucmac key iv chunks tail nbits | zuc256mac key iv macbits chunks tail nbits */
static void do_zucmac(char **w, int z256) {
	buf_t key = hex2buf(w[1]), iv = hex2buf(w[2]); int a = z256 ? 1 : 0; int macbits = z256 ? atoi(w[3]) : 32;
	size_t k = split_chunks(w[3 + a], ch, MAXC), i; buf_t tail = hex2buf(w[4 + a]); size_t nbits = (size_t)atol(w[5 + a]);
	if (!z256) { ZUC_MAC_CTX c; uint8_t *m = malloc(4); zuc_mac_init(&c, key.p, iv.p); for (i = 0; i < k; i++) zuc_mac_update(&c, ch[i].p, ch[i].n);
		zuc_mac_finish(&c, tail.n ? tail.p : NULL, nbits, m); puthex(m, 4); free(m); }
	else { ZUC256_MAC_CTX c; size_t ml; uint8_t *m; zuc256_mac_init(&c, key.p, iv.p, macbits); ml = (size_t)c.macbits / 8; m = malloc(ml);
		for (i = 0; i < k; i++) zuc256_mac_update(&c, ch[i].p, ch[i].n);
		zuc256_mac_finish(&c, tail.n ? tail.p : NULL, nbits, m); puthex(m, ml); free(m); }
	free_chunks(ch, k); freeb(&key); freeb(&iv); freeb(&tail);
}
/* chacha key nonce counter nblocks */
static void do_chacha(char **w) {
	buf_t key = hex2buf(w[1]), nonce = hex2buf(w[2]); uint32_t counter = (uint32_t)strtoul(w[3], NULL, 10); size_t n = (size_t)atol(w[4]);
	CHACHA20_STATE st; uint8_t *o = malloc(n ? 64 * n : 1);
	chacha20_init(&st, key.p, nonce.p, counter); chacha20_generate_keystream(&st, n, o); puthex(o, 64 * n); printf(" %08x", st.d[12]);
	free(o); freeb(&key); freeb(&nonce);
}

/* chachas key nonce counter n1,n2,... : one context, one chacha20_generate_keystream call per count, outputs concatenated */
static void do_chachas(char **w) {
	buf_t key = hex2buf(w[1]), nonce = hex2buf(w[2]); uint32_t counter = (uint32_t)strtoul(w[3], NULL, 10);
	size_t cnt[16], k = 0, tot = 0, off = 0, i; char *p = w[4];
	while (*p && k < 16) { cnt[k] = (size_t)strtoul(p, &p, 10); tot += cnt[k]; k++; if (*p == ',') p++; }
	CHACHA20_STATE st; uint8_t *o = malloc(tot ? 64 * tot : 1);
	chacha20_init(&st, key.p, nonce.p, counter);
	for (i = 0; i < k; i++) { chacha20_generate_keystream(&st, cnt[i], o + off); off += 64 * cnt[i]; }
	puthex(o, 64 * tot); printf(" %08x", st.d[12]);
	free(o); freeb(&key); freeb(&nonce);
}

/* hmenc mode key iv aad chunks -> all output bytes (ct || tag) ; mode = cbc | ctr
 * hmdec / hmdecq mode key iv aad chunks -> plaintext | ERR (q: report untouched *outlen) */
static void do_hm(char **w, int dec, int strict) {
	int cbc = !strcmp(w[1], "cbc");
	buf_t key = hex2buf(w[2]), iv = hex2buf(w[3]), aad = hex2buf(w[4]); size_t k = split_chunks(w[5], ch, MAXC), i, tot = 0, cap = 64;
	SM4_CBC_SM3_HMAC_CTX *c1 = malloc(sizeof(*c1)); SM4_CTR_SM3_HMAC_CTX *c2 = malloc(sizeof(*c2)); uint8_t *acc; int r, unset = 0;
	for (i = 0; i < k; i++) cap += ch[i].n + 32;
	acc = malloc(cap);
	if (key.n != 48 || iv.n != 16) { printf("ERR"); goto end; }
	if (cbc) r = (dec ? sm4_cbc_sm3_hmac_decrypt_init : sm4_cbc_sm3_hmac_encrypt_init)(c1, key.p, iv.p, aad.n ? aad.p : NULL, aad.n);
	else r = (dec ? sm4_ctr_sm3_hmac_decrypt_init : sm4_ctr_sm3_hmac_encrypt_init)(c2, key.p, iv.p, aad.n ? aad.p : NULL, aad.n);
	if (r != 1) { printf("ERR"); goto end; }
	for (i = 0; i < k; i++) {
		size_t ol = UNSET; uint8_t *o = malloc(ch[i].n + 32);
		if (cbc) r = (dec ? sm4_cbc_sm3_hmac_decrypt_update : sm4_cbc_sm3_hmac_encrypt_update)(c1, INP(ch[i], o), ch[i].n, o, &ol);
		else r = (dec ? sm4_ctr_sm3_hmac_decrypt_update : sm4_ctr_sm3_hmac_encrypt_update)(c2, INP(ch[i], o), ch[i].n, o, &ol);
		if (r != 1) { printf("ERR"); free(o); goto end; }
		if (ol == UNSET) { unset = 1; ol = 0; }
		memcpy(acc + tot, o, ol); tot += ol; free(o);
	}
	{ size_t ol = UNSET; uint8_t *o = malloc(64);
	  if (cbc) r = (dec ? sm4_cbc_sm3_hmac_decrypt_finish : sm4_cbc_sm3_hmac_encrypt_finish)(c1, o, &ol);
	  else r = (dec ? sm4_ctr_sm3_hmac_decrypt_finish : sm4_ctr_sm3_hmac_encrypt_finish)(c2, o, &ol);
	  if (r != 1) { printf("ERR"); free(o); goto end; }
	  memcpy(acc + tot, o, ol); tot += ol; free(o); }
	puthex(acc, tot);
	if (strict && unset) printf(" OUTLEN-UNSET");
end:
	free(acc); free(c1); free(c2); free_chunks(ch, k); freeb(&key); freeb(&iv); freeb(&aad);
}

static void handle(size_t nw, char **w) {
	char *op = w[0]; size_t ol = strlen(op);
	inplace = 0; if (ol && op[ol - 1] == '!') { inplace = 1; op[ol - 1] = 0; }
	if (!strcmp(op, "gf128mul") && nw == 3) do_gf128mul(w);
	else if (!strcmp(op, "gf128x2") && nw == 2) do_gf128x(w, 0);
	else if (!strcmp(op, "gf128one") && nw == 2) do_gf128x(w, 1);
	else if (!strcmp(op, "ghash") && nw == 4) do_ghash(w, 0);
	else if (!strcmp(op, "ghashs") && nw == 4) do_ghash(w, 1);
	else if (!strcmp(op, "gcmenc") && nw == 7) do_gcmenc(w);
	else if (!strcmp(op, "gcmdec") && nw == 7) do_gcmdec(w);
	else if (!strcmp(op, "gcmrt") && nw == 7) do_gcmrt(w);
	else if (!strcmp(op, "gcmencs") && nw == 6) do_gcms(w, 0, 0);
	else if (!strcmp(op, "gcmdecs") && nw == 6) do_gcms(w, 1, 0);
	else if (!strcmp(op, "gcmdecsq") && nw == 6) do_gcms(w, 1, 1);
#ifdef ENABLE_SM4_CCM
	else if (!strcmp(op, "ccmenc") && nw == 6) do_ccm(w, 0);
	else if (!strcmp(op, "ccmrt") && nw == 6) do_ccm(w, 1);
	else if (!strcmp(op, "ccmdec") && nw == 6) do_ccmdec(w);
#endif
	else if (!strcmp(op, "sm4enc") && nw == 3) do_sm4enc(w);
	else if (!strcmp(op, "aesenc") && nw == 3) do_aes(w, 0);
	else if (!strcmp(op, "aesdec") && nw == 3) do_aes(w, 1);
	else if (!strcmp(op, "aescbcenc") && nw == 4) do_aesmode(w, 0);
	else if (!strcmp(op, "aescbcdec") && nw == 4) do_aesmode(w, 1);
	else if (!strcmp(op, "aesctr") && nw == 4) do_aesmode(w, 2);
	else if (!strcmp(op, "zucks") && nw == 4) do_zucks(w, 0);
	else if (!strcmp(op, "zuc256ks") && nw == 4) do_zucks(w, 1);
	else if (!strcmp(op, "zuckss") && nw == 4) do_zuckss(w, 0);
	else if (!strcmp(op, "zuc256kss") && nw == 4) do_zuckss(w, 1);
	else if (!strcmp(op, "zucenc") && nw == 4) do_zucenc(w);
	else if (!strcmp(op, "zucencs") && nw == 4) do_zucencs(w);
	else if (!strcmp(op, "zuceea") && nw == 7) do_zuceea(w);
	else if (!strcmp(op, "zuceia") && nw == 7) do_zuceia(w);
	else if (!strcmp(op, "zucmac") && nw == 6) do_zucmac(w, 0);
	else if (!strcmp(op, "zuc256mac") && nw == 7) do_zucmac(w, 1);
	else if (!strcmp(op, "chacha") && nw == 5) do_chacha(w);
	else if (!strcmp(op, "chachas") && nw == 5) do_chachas(w);
	else if (!strcmp(op, "hmenc") && nw == 6) do_hm(w, 0, 0);
	else if (!strcmp(op, "hmdec") && nw == 6) do_hm(w, 1, 0);
	else if (!strcmp(op, "hmdecq") && nw == 6) do_hm(w, 1, 1);
	else printf("ERR bad-op");
}

int main(void) {
	/* silence the library's error_print (FILE *stderr) but keep fd 2 for the sanitizer reports */
	if (!getenv("VERIF_STDERR")) { FILE *f = fopen("/dev/null", "w"); if (f) stderr = f; }
	main_loop(handle); return 0;
}
