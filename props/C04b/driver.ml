(* C04b model driver: extracted Impl models and Specs for GF128/GHASH, GCM, CCM, AES, ZUC, ChaCha20,
   SM4-CBC/CTR+SM3-HMAC.  One result line per op:
     <answer demanded by the Spec>            when the faithful Impl model agrees with the Spec
     <spec answer> ## <impl-model answer>     when the Impl model (= code as it stands) deviates *)
let hx = hex_of_bytes
let both impl spec = if impl = spec then hx impl else "MODEL-IMPL-SPEC-DIFFER " ^ hx impl ^ " " ^ hx spec
let nat = nat_of_int
let ilen l = List.length l

(* the block ciphers are pure; memoise them per key (driver-level cache, not part of the model) *)
let memo (f : n list -> n list) : n list -> n list =
  let h = Hashtbl.create 256 in
  fun x -> let k = hx x in
    match Hashtbl.find_opt h k with Some y -> y | None -> let y = f x in Hashtbl.add h k y; y
let cache : (string, n list -> n list) Hashtbl.t = Hashtbl.create 16
let cipher tag mk key =
  let k = tag ^ hx key in
  match Hashtbl.find_opt cache k with Some e -> e
  | None -> let e = memo (mk key) in if Hashtbl.length cache > 64 then Hashtbl.reset cache; Hashtbl.add cache k e; e
let sm4e key = cipher "sm4e" sm4_encrypt_block key
let sm4d key = cipher "sm4d" sm4_decrypt_block key
let aese key = cipher "aese" aes_encrypt_block16 key
let aesd key = cipher "aesd" aes_decrypt_block key
let aes_key_ok key = match ilen key with 16 | 24 | 32 -> true | _ -> false

let withdev spec impl = if spec = impl then spec else spec ^ " ## " ^ impl
let res_str f r = match r with Ok v -> f v | Err -> "ERR" | Fault -> "FAULT"
let pair_str (c, t) = hx c ^ " " ^ hx t

let words_hex ws = if ws = [] then "-" else String.concat "" (List.map (fun w -> Printf.sprintf "%08x" (int_of_n w)) ws)
let be_words (b : n list) : n list =
  let a = Array.of_list (List.map int_of_n b) in
  List.init (Array.length a / 4) (fun i -> n_of_int ((a.(4*i) lsl 24) lor (a.(4*i+1) lsl 16) lor (a.(4*i+2) lsl 8) lor a.(4*i+3)))
let words_bytes ws = List.concat_map (fun w -> let v = int_of_n w in List.map n_of_int [(v lsr 24) land 255; (v lsr 16) land 255; (v lsr 8) land 255; v land 255]) ws

let gcm_e alg key = if alg = "sm4" then (if ilen key = 16 then Some (sm4e key, true) else None)
  else (if aes_key_ok key then Some (aese key, false) else None)

let handle ws =
  (* in-place classes: `op!` must give the result of `op` *)
  let ws = (match ws with op :: r when String.length op > 1 && op.[String.length op - 1] = '!' -> String.sub op 0 (String.length op - 1) :: r | _ -> ws) in
  match ws with
  | ["gf128mul"; a; b] ->
    let a = gf_from_bytes (bytes_of_hex a) and b = gf_from_bytes (bytes_of_hex b) in
    let r = gf128_mul a b in
    let s1 = gf_mul_horner (poly a) (poly b) and s2 = gf_mul_alg1 (poly a) (poly b) in
    if poly r = s1 && s1 = s2 then hx (gf_to_bytes r) else "MODEL-IMPL-SPEC-DIFFER gf128mul"
  | ["gf128x2"; a] ->
    let a = gf_from_bytes (bytes_of_hex a) in
    let r = gf128_mul_by_2 a in
    if poly r = xtime (poly a) then hx (gf_to_bytes r) else "MODEL-IMPL-SPEC-DIFFER gf128x2"
  | ["gf128one"; a] ->
    let a = gf_from_bytes (bytes_of_hex a) in hx (gf_to_bytes (gf128_mul a gf_one))
  | ["ghash"; h; aad; c] ->
    let h = bytes_of_hex h and aad = bytes_of_hex aad and c = bytes_of_hex c in
    both (ghash h aad c) (ghash_spec h aad c)
  | ["ghashs"; h; aad; cs] ->
    let h = bytes_of_hex h and aad = bytes_of_hex aad and cs = chunks_of cs in
    both (ghash_finish (List.fold_left ghash_update (ghash_init h aad) cs)) (ghash_spec h aad (List.concat cs))
  | ["gcmenc"; alg; key; iv; aad; pt; tl] ->
    let key = bytes_of_hex key and iv = bytes_of_hex iv and aad = bytes_of_hex aad and pt = bytes_of_hex pt in
    let tl = int_of_string tl in
    (match gcm_e alg key with None -> "ERR" | Some (e, chk) ->
      (match gcm_encrypt e chk iv aad pt (nat tl) with
       | Ok r -> if r = gcm_spec_encrypt e iv aad pt (nat tl) then pair_str r else "MODEL-IMPL-SPEC-DIFFER gcm"
       | _ -> "ERR"))
  | ["gcmdec"; alg; key; iv; aad; ct; tag] ->
    let key = bytes_of_hex key and iv = bytes_of_hex iv and aad = bytes_of_hex aad and ct = bytes_of_hex ct and tag = bytes_of_hex tag in
    (match gcm_e alg key with None -> "ERR" | Some (e, chk) -> res_str hx (gcm_decrypt e chk iv aad ct tag))
  | ["gcmrt"; alg; key; iv; aad; pt; tl] ->
    let key = bytes_of_hex key and iv = bytes_of_hex iv and aad = bytes_of_hex aad and pt = bytes_of_hex pt in
    let tl = int_of_string tl in
    (match gcm_e alg key with None -> "ERR" | Some (e, chk) ->
      (match gcm_encrypt e chk iv aad pt (nat tl) with
       | Ok (c, t) ->
         if (c, t) <> gcm_spec_encrypt e iv aad pt (nat tl) then "MODEL-IMPL-SPEC-DIFFER gcm" else
         pair_str (c, t) ^ (match gcm_decrypt e chk iv aad c t with Ok p when p = pt -> " RT" | _ -> " RTFAIL")
       | _ -> "ERR"))
  | ["gcmencs"; key; iv; aad; tl; cs] ->
    let key = bytes_of_hex key and iv = bytes_of_hex iv and aad = bytes_of_hex aad and cs = chunks_of cs in
    let e = sm4e (if ilen key >= 16 then List.filteri (fun i _ -> i < 16) key else key) in
    (match gcm_init e (nat (ilen key)) iv aad (nat (int_of_string tl)) with
     | Ok c0 ->
       let b = Buffer.create 256 in
       let rec go c = function
         | [] -> Buffer.add_string b ("| " ^ hx (gcm_enc_finish e c))
         | d :: r -> (match gcm_enc_update e c d with
                      | Ok (c', o) -> Buffer.add_string b (hx o ^ " "); go c' r
                      | _ -> Buffer.add_string b "ERR") in
       go c0 cs;
       (* streaming = one-shot = spec *)
       let one = gcm_spec_encrypt e iv aad (List.concat cs) (nat (int_of_string tl)) in
       (match gcm_encrypt_stream e (nat (ilen key)) iv aad (nat (int_of_string tl)) cs with
        | Ok all when all <> fst one @ snd one -> "MODEL-IMPL-SPEC-DIFFER gcm-stream"
        | _ -> Buffer.contents b)
     | _ -> "ERR")
  | [("gcmdecs" | "gcmdecsq") as op; key; iv; aad; tl; cs] ->
    let key = bytes_of_hex key and iv = bytes_of_hex iv and aad = bytes_of_hex aad and cs = chunks_of cs in
    let e = sm4e (if ilen key >= 16 then List.filteri (fun i _ -> i < 16) key else key) in
    let tl = int_of_string tl in
    (match gcm_init e (nat (ilen key)) iv aad (nat tl) with
     | Ok c0 ->
       let b = Buffer.create 256 and bi = Buffer.create 256 in
       let fault = ref false and dev = ref false in
       let add s = Buffer.add_string b s; if not !fault then Buffer.add_string bi s in
       let rec go c = function
         | [] -> add ("| " ^ res_str hx (gcm_dec_finish e c))
         | d :: r ->
           if int_of_nat (gcm_dec_update_overread c d) > 0 then fault := true;
           let fill_only = (let (_, win) = c in ilen win < tl && ilen d <= tl - ilen win) in
           (match gcm_dec_update e c d with
            | Ok (c', o) ->
              ignore fill_only; ignore op; add (hx o ^ " ");
              go c' r
            | _ -> add "ERR") in
       go c0 cs;
       let spec = Buffer.contents b in
       if !fault then spec ^ " ## FAULT" else if !dev then spec ^ " ## " ^ Buffer.contents bi else spec
     | _ -> "ERR")
  | [("ccmenc" | "ccmrt") as op; key; iv; aad; pt; tl] ->
    let key = bytes_of_hex key and iv = bytes_of_hex iv and aad = bytes_of_hex aad and pt = bytes_of_hex pt in
    let tl = nat (int_of_string tl) in
    if ilen key <> 16 then "ERR" else
    let e = sm4e key in
    (match ccm_encrypt e iv aad pt tl with
     | Ok (c, t) ->
       if (c, t) <> ccm_spec_encrypt e iv aad pt tl then "MODEL-IMPL-SPEC-DIFFER ccm"
       else if op = "ccmenc" then pair_str (c, t)
       else (match ccm_decrypt e iv aad c t with
             | Ok p when p = pt -> pair_str (c, t) ^ " RT"
             | _ -> pair_str (c, t) ^ " RTFAIL")
     | _ -> "ERR")
  | ["ccmdec"; key; iv; aad; ct; tag] ->
    let key = bytes_of_hex key and iv = bytes_of_hex iv and aad = bytes_of_hex aad and ct = bytes_of_hex ct and tag = bytes_of_hex tag in
    if ilen key <> 16 then "ERR" else res_str hx (ccm_decrypt (sm4e key) iv aad ct tag)
  | ["sm4enc"; key; blk] ->
    let key = bytes_of_hex key and blk = bytes_of_hex blk in
    if ilen key <> 16 || ilen blk <> 16 then "ERR" else hx (sm4_encrypt_block key blk)
  | ["aesenc"; key; blk] ->
    let key = bytes_of_hex key and blk = bytes_of_hex blk in
    if not (aes_key_ok key) || ilen blk <> 16 then "ERR" else hx (aes_encrypt_block key blk)
  | ["aesdec"; key; blk] ->
    let key = bytes_of_hex key and blk = bytes_of_hex blk in
    if not (aes_key_ok key) || ilen blk <> 16 then "ERR" else hx (aes_decrypt_block key blk)
  | ["aescbcenc"; key; iv; d] ->
    let key = bytes_of_hex key and iv = bytes_of_hex iv and d = bytes_of_hex d in
    if not (aes_key_ok key) || ilen iv <> 16 then "ERR" else hx (cbc_pad_encrypt (aese key) iv d)
  | ["aescbcdec"; key; iv; d] ->
    let key = bytes_of_hex key and iv = bytes_of_hex iv and d = bytes_of_hex d in
    if not (aes_key_ok key) || ilen iv <> 16 then "ERR" else res_str hx (cbc_pad_decrypt (aesd key) false iv d)
  | ["aesctr"; key; iv; d] ->
    let key = bytes_of_hex key and iv = bytes_of_hex iv and d = bytes_of_hex d in
    if not (aes_key_ok key) || ilen iv <> 16 then "ERR" else hx (ctr128_crypt (aese key) iv d)
  | ["zucks"; key; iv; nw] ->
    words_hex (snd (zuc_keystream (nat (int_of_string nw)) (zuc_init (bytes_of_hex key) (bytes_of_hex iv))))
  | ["zuc256ks"; key; iv; nw] ->
    words_hex (snd (zuc_keystream (nat (int_of_string nw)) (zuc256_init (bytes_of_hex key) (bytes_of_hex iv))))
  | [("zuckss" | "zuc256kss") as op; key; iv; items] ->
    (* one state through several generate calls (`w` = zuc_generate_keyword); compared with the single call for the total *)
    let s0 = if op = "zuckss" then zuc_init (bytes_of_hex key) (bytes_of_hex iv) else zuc256_init (bytes_of_hex key) (bytes_of_hex iv) in
    let its = String.split_on_char ',' items in
    let (s', zs) = List.fold_left (fun (s, acc) it ->
        if it = "w" then (let (s1, z) = zuc_keyword s in (s1, acc @ [z]))
        else (let (s1, r) = zuc_keystream (nat (min 8 (int_of_string it))) s in (s1, acc @ r))) (s0, []) its in
    let total = List.fold_left (fun a it -> a + (if it = "w" then 1 else min 8 (int_of_string it))) 0 its in
    let (s1, z1) = zuc_keystream (nat total) s0 in
    if zs = z1 && s' = s1 then words_hex zs else "MODEL-IMPL-SPEC-DIFFER " ^ words_hex zs ^ " " ^ words_hex z1
  | ["zucenc"; key; iv; d] ->
    let d = bytes_of_hex d in
    let s = zuc_init (bytes_of_hex key) (bytes_of_hex iv) in
    let impl = snd (zuc_encrypt (nat (ilen d)) s d) and spec = zuc_xor_spec s d in
    if impl <> spec then "MODEL-IMPL-SPEC-DIFFER zucenc"
    else if int_of_nat (zuc_encrypt_overread (nat (ilen d))) > 0 then hx spec ^ " ## FAULT" else hx spec
  | ["zucencs"; key; iv; cs] ->
    let cs = chunks_of cs in
    let c0 = zuc_encrypt_init (bytes_of_hex key) (bytes_of_hex iv) in
    let b = Buffer.create 256 and all = ref [] in
    let c = List.fold_left (fun c d -> let (c', o) = zuc_encrypt_update c d in
                              Buffer.add_string b (hx o ^ " "); all := !all @ o; c') c0 cs in
    let f = zuc_encrypt_finish c in
    if !all @ f <> zuc_xor_spec (zuc_init (bytes_of_hex key) (bytes_of_hex iv)) (List.concat cs)
    then "MODEL-IMPL-SPEC-DIFFER zucencs" else (Buffer.add_string b ("| " ^ hx f); Buffer.contents b)
  | ["zuceea"; key; count; bearer; dir; nbits; d] ->
    let key = bytes_of_hex key and d = bytes_of_hex d and nbits = int_of_string nbits in
    let cn = bign_of_hex (Printf.sprintf "%x" (int_of_string count)) and be = n_of_int (int_of_string bearer) and di = n_of_int (int_of_string dir) in
    let impl = zuc_eea_encrypt (be_words d) (nat nbits) key cn be di in
    let spec = eea3_spec d (nat nbits) key cn be di in
    if words_bytes impl = spec then words_hex impl else "MODEL-IMPL-SPEC-DIFFER eea " ^ words_hex impl ^ " " ^ hx spec
  | ["zuceia"; key; count; bearer; dir; nbits; d] ->
    let key = bytes_of_hex key and d = bytes_of_hex d and nbits = int_of_string nbits in
    let cn = bign_of_hex (Printf.sprintf "%x" (int_of_string count)) and be = n_of_int (int_of_string bearer) and di = n_of_int (int_of_string dir) in
    both (zuc_eia_generate_mac d (nat nbits) key cn be di) (eia3_spec d (nat nbits) key cn be di)
  | ["zucmac"; key; iv; cs; tail; nbits] ->
    let cs = chunks_of cs and tail = bytes_of_hex tail and nbits = int_of_string nbits in
    let c0 = zuc_mac_init (bytes_of_hex key) (bytes_of_hex iv) in
    let all = List.concat cs in
    both (zuc_mac_finish (List.fold_left zuc_mac_update c0 cs) tail (nat nbits))
         (zuc_mac_finish c0 (all @ tail) (nat (8 * ilen all + nbits)))
  | ["zuc256mac"; key; iv; macbits; cs; tail; nbits] ->
    let cs = chunks_of cs and tail = bytes_of_hex tail and nbits = int_of_string nbits in
    let c0 = zuc256_mac_init (bytes_of_hex key) (bytes_of_hex iv) (nat (int_of_string macbits)) in
    let all = List.concat cs in
    both (zuc256_mac_finish (List.fold_left zuc256_mac_update c0 cs) tail (nat nbits))
         (zuc256_mac_finish c0 (all @ tail) (nat (8 * ilen all + nbits)))
  | ["chacha"; key; nonce; counter; nb] ->
    let st = chacha20_init (bytes_of_hex key) (bytes_of_hex nonce) (bign_of_hex (Printf.sprintf "%x" (int_of_string counter))) in
    let (st', ks) = chacha20_keystream (nat (int_of_string nb)) st in
    hx ks ^ " " ^ Printf.sprintf "%08x" (int_of_n (List.nth st' 12))
  | ["chachas"; key; nonce; counter; counts] ->
    (* the same context fed through several chacha20_generate_keystream calls; compared with the one call for the sum *)
    let ns = List.map int_of_string (String.split_on_char ',' counts) in
    let st = chacha20_init (bytes_of_hex key) (bytes_of_hex nonce) (bign_of_hex (Printf.sprintf "%x" (int_of_string counter))) in
    let (st', ks) = List.fold_left (fun (st, acc) n -> let (st', r) = chacha20_keystream (nat n) st in (st', acc @ r)) (st, []) ns in
    let (st1, ks1) = chacha20_keystream (nat (List.fold_left (+) 0 ns)) st in
    both ks ks1 ^ " " ^ Printf.sprintf "%08x" (int_of_n (List.nth st' 12)) ^ (if st' = st1 then "" else " MODEL-STATE-DIFFER")
  | [("hmenc" | "hmdec" | "hmdecq") as op; mode; key; iv; aad; cs] ->
    let key = bytes_of_hex key and iv = bytes_of_hex iv and aad = bytes_of_hex aad and cs = chunks_of cs in
    if ilen key <> 48 || ilen iv <> 16 then "ERR" else
    let k1 = List.filteri (fun i _ -> i < 16) key and k2 = List.filteri (fun i _ -> i >= 16) key in
    let all = List.concat cs in
    if op = "hmenc" then
      (if mode = "cbc" then both (cbch_encrypt sm3_hmac_init sm3_hmac_update sm3_hmac_finish (sm4e k1) k2 iv aad cs)
                                 (cbc_hmac_spec_encrypt key iv aad all)
       else both (ctrh_encrypt sm3_hmac_init sm3_hmac_update sm3_hmac_finish (sm4e k1) k2 iv aad cs)
                 (ctr_hmac_spec_encrypt key iv aad all))
    else begin
      let impl = if mode = "cbc" then cbch_decrypt sm3_hmac_init sm3_hmac_update sm3_hmac_finish (sm4d k1) k2 iv aad cs
                 else ctrh_decrypt sm3_hmac_init sm3_hmac_update sm3_hmac_finish (sm4e k1) k2 iv aad cs in
      let spec = if mode = "cbc" then cbc_hmac_spec_decrypt key iv aad all else ctr_hmac_spec_decrypt key iv aad all in
      if impl <> spec then "MODEL-IMPL-SPEC-DIFFER hm " ^ res_str hx impl ^ " " ^ res_str hx spec
      else begin
        let s = res_str hx spec in
        (* a chunk that only fills the 32-byte window leaves *outlen untouched *)
        let seen = ref 0 and unset = ref false in
        List.iter (fun d -> let ml = min !seen 32 in if ml < 32 && ilen d <= 32 - ml then unset := true; seen := !seen + ilen d) cs;
        ignore op; ignore !unset; s
      end
    end
  | _ -> "ERR bad-op"

let () = main_loop handle
