"""C08 — honest peers agree on keys and deliver data intact."""
import re, os
from vlib import core
from vlib.core import hexs

WRAP = "-Wl,--wrap=tls_record_send,--wrap=tls_record_recv,--wrap=sm2_do_ecdh,--wrap=tls_pre_master_secret_generate,--wrap=tls_record_set_handshake_certificate,--wrap=hkdf_expand,--wrap=tls_uint24array_to_bytes,--wrap=sm2_sign_finish"
PROTOS = ["tlcp", "tls12", "tls13"]
VER = {"tlcp": "0101", "tls12": "0303", "tls13": "0304"}
SUITE = {"tlcp": "e013", "tls12": "e011", "tls13": "00c6"}
LABELS = ["master secret", "key expansion", "client finished", "server finished"]
LABELS13 = ["derived", "c hs traffic", "s hs traffic", "c ap traffic", "s ap traffic", "key", "iv", "finished"]


def unit_cases(ctx):
    r = ctx.rng
    cases = []
    add = lambda l, c: cases.append((l, c))
    for lab in LABELS + ["x", "a-rather-long-label-of-forty-bytes-......"]:
        for outlen in [1, 12, 31, 32, 33, 48, 64, 96, 100]:
            sec = r.bytes(r.choice([1, 32, 48, 64, 65, 100]))
            seed = r.bytes(r.choice([1, 32, 64]))
            more = r.bytes(r.choice([0, 0, 32]))
            add("prf %s %s %s %s %d" % (hexs(sec), lab.encode().hex(), hexs(seed), hexs(more), outlen),
                "prf:%s:out%s" % ("std-label" if lab in LABELS else "other-label", "<=32" if outlen <= 32 else ("%32=0" if outlen % 32 == 0 else "%32nz")))
    add("prf - %s %s - 12" % (b"x".hex(), "00"), "prf:empty-secret")
    add("prf 00 %s - - 12" % b"x".hex(), "prf:empty-seed")
    add("prf 00 %s 00 - 0" % b"x".hex(), "prf:outlen0")
    for lab in LABELS13 + ["e exp master"]:
        for outlen in [12, 16, 32]:
            for cl in [0, 32]:
                add("explabel %s %s %s %d" % (r.bytes(32).hex(), lab.encode().hex(), hexs(r.bytes(cl)), outlen),
                    "explabel:%s:ctx%d" % ("std" if lab in LABELS13 else "other", cl))
    for i in range(6):
        add("extract13 %s %s" % (("00" * 32) if i == 0 else r.bytes(32).hex(), ("00" * 32) if i < 2 else r.bytes(32).hex()), "extract13:%s" % ("zeros" if i < 2 else "random"))
    for n in [0, 1, 63, 64, 65, 300]:
        add("vd13 %s %s" % (r.bytes(32).hex(), hexs(r.bytes(n))), "vd13:transcript-%s" % ("empty" if n == 0 else "n"))
    return cases


def chunks_of_write(proto, n):
    out = []
    while n > 0:
        out.append(min(n, 16384)); n -= out[-1]
    return out


def make_script(r, proto, rounds):
    """rounds: list of (side, W, R).  The reader drains completely after each write, so that no
    endpoint ever sends while it holds unread data (tls_encrypt_send refuses that)."""
    steps = []
    for rnd in rounds:
        if rnd[0] == "partial":
            # the reader consumes only part of a record, writes on the SAME endpoint, then reads the rest
            _, side, W, k, W2 = rnd
            other = "s" if side == "c" else "c"
            steps.append("w%s%d" % (side, W))
            steps.append("r%s%d" % (other, k))                 # k < first record: data stays buffered in conn->databuf
            steps.append("w%s%d" % (other, W2))                # TLCP / TLS 1.2: refused; TLS 1.3: sent, buffer untouched
            for rec in chunks_of_write(proto, W):
                steps.append("r%s%d" % (other, 20000))         # the rest of the first record, then the following records
            if proto != "tls13":
                steps.append("w%s%d" % (other, W2))            # now accepted
            for rec in chunks_of_write(proto, W2):
                steps.append("r%s%d" % (side, 20000))
            continue
        side, W, R = rnd
        other = "s" if side == "c" else "c"
        if W == 0:
            # one send call with an empty buffer: refused by tls_send, an empty record for tls13_send
            steps.append("e%s0" % side)
            if proto == "tls13":
                steps.append("r%s%d" % (other, R))
            continue
        steps.append("w%s%d" % (side, W))
        nreads = 0
        for rec in chunks_of_write(proto, W):
            left = rec
            while left > 0:
                buf = R if nreads < 40 else max(R, 20000)     # keep lines short: after 40 small reads switch to a big buffer
                steps.append("r%s%d" % (other, buf))
                left -= min(buf, left); nreads += 1
    return ",".join(steps)


def hs_cases(ctx):
    r = ctx.rng
    thorough = ctx.tier == "thorough"
    cases = []
    WS = [1, 16383, 16384, 16385, 50000]
    RS = [1, 7, 16384, 20000]
    seed = 1000 + (ctx.seed % 1000) * 100
    for proto in PROTOS:
        for auth in (0, 1):
            depths = [1, 2, 3] if thorough else [1 + (auth + PROTOS.index(proto)) % 3]
            for depth in depths:
                scripts = []
                # every write size x read size, both directions, spread over a few connections
                combos = [(w, rd) for w in WS + [r.range(2, 49999)] for rd in RS + [r.range(2, 19999)]]
                r.shuffle(combos)
                per = 6 if not thorough else 3
                for i in range(0, len(combos), per):
                    rounds = []
                    for j, (w, rd) in enumerate(combos[i:i + per]):
                        rounds.append(("c" if (i + j) % 2 == 0 else "s", w, rd))
                    # empty sends in both directions, in the middle and at the end of the script
                    rounds.insert(r.below(len(rounds) + 1), ("c", 0, r.choice([1, 7, 16384])))
                    rounds.insert(r.below(len(rounds) + 1), ("s", 0, r.choice([1, 7, 16384])))
                    rounds.append((r.choice("cs"), 0, 7)); rounds.append((r.choice("cs"), r.range(1, 300), 20000))
                    # partially consumed records with a write in between, both roles
                    for sd in ("c", "s"):
                        W = r.choice([2, 100, 16384, 20000]); k = r.choice([1, 7, min(W, 16384) - 1]) if W > 2 else 1
                        rounds.insert(r.below(len(rounds) + 1), ("partial", sd, W, k, r.choice([1, 50, 16384, 17000])))
                    scripts.append(make_script(r, proto, rounds))
                    if not thorough and len(scripts) >= 5:
                        break
                for k, sc in enumerate(scripts):
                    seed += 1
                    split = 1 if k % 2 == 1 else 0
                    # trust stores / client-CA bundles with 1, 2, 3, 5 certificates and with five filling the 2048-byte buffer exactly
                    nca = [1, 2, 3, 5, 0][(k + PROTOS.index(proto) + 2 * auth) % 5] if not thorough else [1, 2, 3, 5, 0][k % 5]
                    cases.append(("hs %s %d %d %d %d %s %d" % (proto, auth, depth, seed, split, sc, nca),
                                  "hs:%s:auth%d:depth%d:%s:nca=%s" % (proto, auth, depth, "short-reads" if split else "whole-records", nca if nca else "2048-bytes"), proto, sc))
    # TLS 1.3 writes around and beyond what conn->record holds (DESIGN section 5 #22, repaired by c5b289c:
    # tls13_send now fragments at 2^14 like tls_send)
    for w in ([16385, 18415, 18416, 20000, 50000] if not thorough else [16385, 18415, 18416, 18432, 20000, 30000, 50000]):
        seed += 1
        sc = make_script(r, "tls13", [("c", w, 20000), ("s", w, 16384)])
        cases.append(("hs tls13 0 1 %d 0 %s" % (seed, sc), "hs:tls13:large-write", "tls13", sc))
    # the CA-count dimension once more with mutual authentication for every protocol (CertificateRequest lists the names)
    for proto in PROTOS:
        for nca in (2, 3, 5, 0):
            seed += 1
            sc = make_script(r, proto, [("c", 100, 7), ("s", 300, 20000)])
            cases.append(("hs %s 1 1 %d 0 %s %d" % (proto, seed, sc, nca), "hs:%s:auth1:nca=%s" % (proto, nca if nca else "2048-bytes"), proto, sc))
    # every combination of {client holds a certificate or not} x {server asks for one or not}:
    # auth 2 = client has a certificate the server does not ask for (must complete without client authentication),
    # auth 3 = the server asks, the client has none (must fail on both sides)
    for proto in PROTOS:
        for auth in (2, 3):
            seed += 1
            sc = make_script(r, proto, [("c", 100, 7), ("s", 300, 20000)]) if auth == 2 else "-"
            cases.append(("hs %s %d 1 %d 0 %s 1" % (proto, auth, seed, sc), "hs:%s:options:%s" % (proto, "cert-not-requested" if auth == 2 else "requested-no-cert"), proto, sc))
    # presented chains (server's and client's) of exactly 2048 bytes = the size of conn->server_certs / client_certs
    for proto in PROTOS:
        seed += 1
        sc = make_script(r, proto, [("c", 100, 7), ("s", 300, 20000)])
        cases.append(("hs %s 1 9 %d 0 %s 1" % (proto, seed, sc), "hs:%s:auth1:chain=2048-bytes" % proto, proto, sc))
    # non-blocking sockets after a blocking handshake: poll loop retrying on -EAGAIN while the proxy delivers every
    # record header in two pieces with a pause in between
    for proto in PROTOS:
        seed += 1
        sc = make_script(r, proto, [("c", 100, 7), ("s", 30000, 20000), ("partial", "c", 200, 3, 50), ("s", 1, 1)]).replace(",r", ",n")
        cases.append(("hs %s %d 1 %d 2 %s 1" % (proto, seed % 2, seed, sc), "hs:%s:nonblocking-split-headers" % proto, proto, sc))
    # short writes: send() hands over only the first few bytes of what it was given and leaves a stale errno (EPIPE /
    # EAGAIN) next to the positive count, in the handshake and in the data phase, records of every size
    for proto in PROTOS:
        for mode in (3, 4):
            seed += 1
            sc = make_script(r, proto, [("c", 100, 7), ("s", 16384, 20000), ("c", 1, 1), ("s", 3000, 700)])
            cases.append(("hs %s %d 1 %d %d %s 1" % (proto, (seed + mode) % 2, seed, mode, sc), "hs:%s:short-writes:stale-errno-%s" % (proto, "EPIPE" if mode == 3 else "EAGAIN"), proto, sc))
    # object reuse: a second session on the SAME TLS_CONNECT objects after session 1 ended in each interesting state
    for proto in PROTOS:
        for i, state in enumerate(["partial", "rejected", "closed", "hsfail"]):
            seed += 1
            sc = make_script(r, proto, [("c", 100, 7), ("partial", "s", 200, 3, 50), ("s", 0, 7), ("c", 17000, 20000)])
            cases.append(("hs2 %s %d %d %s %s" % (proto, (i + PROTOS.index(proto)) % 2, seed, state, sc), "reuse:%s:after-%s" % (proto, state), proto, sc))
    return cases


# sessions whose ECDHE result x starts with a zero byte (1 in 256): the pre-master secret is the 32-byte x, leading
# zeros included.  Seeds found by search (the sessions are deterministic: scripted entropy); verified at every run,
# searched again if the library's entropy consumption has changed.
LEADING_ZERO_SEEDS = {"tls12": [70154, 70613], "tls13": [70024, 70104]}


def leading_zero_cases(ctx, exe):
    r = core.Rng(ctx.seed * 31 + 5)
    out = []
    for proto in ("tls12", "tls13"):
        sc = make_script(r, proto, [("c", 16, 16), ("s", 16, 16)])
        mk = lambda sd: "hs %s 0 1 %d 0 %s 1" % (proto, sd, sc)
        def zero(lines):
            outs, _ = core.run_lines(exe, lines, shards=min(16, len(lines)))
            return [l for l, o in zip(lines, outs) if fields(o).get("ecdh", "-/-").split("/")[0].startswith("00")]
        good = zero([mk(sd) for sd in LEADING_ZERO_SEEDS[proto]])
        ctx.cov["evaluations"] += len(LEADING_ZERO_SEEDS[proto])
        if not good:
            good = zero([mk(sd) for sd in range(71000, 71000 + 900)])[:2]
            ctx.cov["evaluations"] += 900
            ctx.notes.append("%s: stored leading-zero seeds are stale, searched again: %s" % (proto, [l.split()[4] for l in good]))
        if not good:
            ctx.violation("hs:%s:ecdh-x-leading-zero:coverage" % proto, "no session with a leading zero byte in the ECDHE result found in 900 tries", {"kind": "coverage"}, False)
        for l in good:
            out.append((l, "hs:%s:ecdh-x-leading-zero" % proto, proto, sc))
    return out


def fields(line):
    return dict(f.split("=", 1) for f in line.split(" ") if "=" in f)


def view(s):
    return [] if s == "-" else [(x[0], x[1:]) for x in s.split(",")]


def rev_words(rk):
    w = [rk[i:i + 8] for i in range(0, len(rk), 8)]
    return "".join(reversed(w))


def run(ctx):
    # an operation whose peer is left blocked (e.g. the other side refused a record) ends after this many seconds
    # and is reported as FAULT for that operation (harness/common.h op_watchdog) instead of stalling the shard
    os.environ.setdefault("VERIF_OP_TIMEOUT", "90")
    ctx.check_proofs()
    model, log = core.build_model("C08")
    if model is None:
        ctx.violation("correspondence:model-build", "extracted model does not build: " + log[-500:], {"kind": "correspondence", "log": log[-3000:]}, False)
        return finish(ctx)
    exe, log = core.build_harness("C08", "asan", extra=WRAP)
    if exe is None:
        core.harness_build_failed(ctx, log)
        return finish(ctx)
    # ---- unit level: tls_prf, HKDF-Expand-Label, extract, verify_data
    core.differential(ctx, unit_cases(ctx), exe, model, variant="asan")
    # ---- credential loaders from files (the sessions configure their contexts from memory: this ties the two)
    lcases = ["load %s %d %d" % (proto, 900 + i + ctx.seed % 1000, 3 if ctx.tier != "thorough" else 12) for i, proto in enumerate(PROTOS)]
    louts, _ = core.run_lines(exe, lcases, shards=3)
    for line, out in zip(lcases, louts):
        ctx.cov["evaluations"] += 1
        ctx.count("op:load")
        proto = line.split()[1]
        rep = {"kind": "failing-input", "op": line, "impl": out[:600], "variant": "asan"}
        f = fields(out) if "=" in out else {}
        if not f or out.startswith(("FAULT", "ERR")):
            ctx.violation("load:%s:%s" % (proto, "memory-fault" if out.startswith("FAULT") else "harness"), "credential loading did not run to its end: %s [%s]" % (out[:100], line), rep); continue
        if f.get("loaded") != "1":
            ctx.violation("load:%s:refused" % proto, "tls_ctx_set_certificate_and_key / _tlcp_server_certificate_and_keys / _ca_certificates refused files written by the library's own PEM writers [%s] -> %s" % (line, out), rep)
        elif f.get("same") != "1":
            ctx.violation("load:%s:differs" % proto, "the context loaded from files does not hold the certificates / keys that were written [%s] -> %s" % (line, out), rep)
        elif f.get("refused") != "1":
            ctx.violation("load:%s:accepted-bad-credentials" % proto, "a wrong password, a key that does not match the certificate or a missing file was accepted [%s] -> %s" % (line, out), rep)
        elif len(set(f.get("fds", "0/1").split("/"))) != 1:
            ctx.violation("load:descriptor-leak", "loading credentials (accepted and refused ones) leaves file descriptors open: %s before/after [%s]" % (f.get("fds"), line), rep)
        else:
            ctx.cell("load:%s:same-as-written:bad-ones-refused:no-descriptor-left" % proto)
    # ---- tls_record_recv against a peer that delivers a record in pieces and closes (blocking and non-blocking reader):
    # the call comes back within a bounded time, 1 only for a complete record
    rr = core.Rng(ctx.seed * 13 + 3)
    rcases = []
    for n in ([10, 300] if ctx.tier != "thorough" else [0, 1, 10, 300, 16384]):
        rec = bytes([23, 3, 3]) + n.to_bytes(2, "big") + rr.bytes(n)
        tot = len(rec)
        splits = {(0, 0), (1, 0), (4, 0), (5, 0), (5, 1), (5, max(0, n - 1)), (5, n), (3, 2), (3, n + 2), (2, max(0, n)), (tot, 0), (6, 0), (tot - 1, 0), (tot - 1, 1)}
        for (a, b) in sorted(splits):
            if a + b <= tot and a >= 0 and b >= 0:
                for nb in (0, 1):
                    rcases.append(("rrclose %d %s %d %d" % (nb, rec.hex(), a, b), "rrclose:%s:%s" % ("nonblocking" if nb else "blocking", "complete" if a + b == tot else ("closed-in-header" if a + b < 5 else "closed-in-body")), a + b == tot))
    routs, _ = core.run_lines(exe, [c[0] for c in rcases], shards=len(rcases))
    for (line, cell, complete), out in zip(rcases, routs):
        ctx.cov["evaluations"] += 1
        ctx.count("op:rrclose")
        rep = {"kind": "failing-input", "op": line[:400], "impl": out[:300], "variant": "asan"}
        f = fields(out) if "=" in out else {}
        if out.startswith("HANG") or "TIMEOUT" in out or not f:
            ctx.violation("rrclose:does-not-return", "tls_record_recv did not come back after the peer closed the connection inside a record (%s) [%s]" % (out[:60], line[:80]), rep)
        elif (f.get("ret") == "1") != complete or (complete and f.get("len") != str(len(line.split()[2]) // 2)) or f.get("ret") == "-11":
            ctx.violation(cell + ":wrong-result", "tls_record_recv: %s for a record delivered %s [%s]" % (out[:60], "completely" if complete else "in part before the close", line[:80]), rep)
        else:
            ctx.cell(cell + ":ret=" + f["ret"])
    # ---- sessions
    cases = hs_cases(ctx)
    cases += leading_zero_cases(ctx, exe)
    outs, err = core.run_lines(exe, [c[0] for c in cases], shards=min(8, len(cases)))
    mlines, back = [], []
    for (line, cell, proto, script), out in zip(cases, outs):
        ctx.cov["evaluations"] += 1
        ctx.count("op:hs")
        rep = {"kind": "failing-input", "op": line, "impl": out[:2000], "variant": "asan"}
        if out.startswith("FAULT") or out.startswith("ERR"):
            # FAULT asan:/ubsan: = a sanitizer report; FAULT crash / timeout = the process ended without one (signal, or the
            # per-operation watchdog because a peer stayed blocked): the session did not complete either way
            kind = ":harness" if out.startswith("ERR") else (":memory-fault" if out.startswith(("FAULT asan", "FAULT ubsan")) else ":stalled-or-crashed")
            ctx.violation(cell + kind, "session did not run to its end: %s [%s]" % (out[:100], line[:80]), rep)
            continue
        f = fields(out)
        bad = []
        if line.startswith("hs ") and line.split(" ")[2] == "3":
            # TLS 1.3: the client has finished before the server looks at the (absent) client certificate; the
            # server must fail.  TLCP / TLS 1.2: the client aborts at CertificateRequest, both fail.
            if f.get("rs") == "1" or (proto != "tls13" and f.get("rc") == "1"):
                ctx.violation(cell + ":completed", "the server asked for a client certificate, the client has none, yet a side reports a completed handshake: rc=%s rs=%s [%s]" % (f.get("rc"), f.get("rs"), line[:80]), rep)
            else:
                ctx.cell(cell + ":fails-on-both-sides")
            continue
        if line.startswith("hs ") and line.split(" ")[3] == "9" and f.get("chainlen") != "2048/2048":
            ctx.violation(cell + ":harness", "the generated chains are not 2048 bytes: %s" % f.get("chainlen"), rep, False); continue
        if f.get("rc") != "1" or f.get("rs") != "1":
            bad.append("handshake did not complete on both sides (client %s, server %s)" % (f.get("rc"), f.get("rs")))
        else:
            for key, what in (("ver", "protocol version"), ("suite", "cipher suite")):
                a, b = f[key].split("/")
                if a != b or a != (VER if key == "ver" else SUITE)[proto]:
                    bad.append("%s differs or unexpected: %s" % (what, f[key]))
            if proto != "tls13":
                for key in ("ms", "kb"):
                    a, b = f[key].split("/")
                    if a != b:
                        bad.append("%s differs between client and server" % key)
                c_rk, s_rk = f["rk"].split("/")
                cc, cs = c_rk.split(":"); sc, ss = s_rk.split(":")
                if cc != rev_words(sc) or rev_words(cs) != ss:
                    bad.append("installed SM4 keys differ between the sides")
                if f["seq"] != "0000000000000001:0000000000000001/0000000000000001:0000000000000001":
                    bad.append("sequence numbers after the handshake: " + f["seq"])
            else:
                for key in ("iv", "rk"):
                    a, b = f[key].split("/")
                    if a != b:
                        bad.append("%s differs between client and server" % key)
                if f["seq"] != "0000000000000000:0000000000000000/0000000000000000:0000000000000000":
                    bad.append("sequence numbers after the handshake: " + f["seq"])
            e = f["ecdh"].split("/")
            if proto != "tlcp" and (e[0] != e[1] or e[0] == "-"):
                bad.append("ECDH results differ: " + f["ecdh"])
        if bad:
            ctx.violation(cell + ":agreement", "; ".join(bad) + " [%s]" % line[:100], rep)
            continue
        # model side: observer over the client's own view + data path model
        cv = view(f["cview"])
        if proto != "tls13":
            ccs = [i for i, (d, x) in enumerate(cv) if x.startswith("14")]
            if len(ccs) != 2 or ccs[0] + 1 >= len(cv) or ccs[1] + 1 >= len(cv):
                ctx.violation(cell + ":shape", "unexpected handshake shape in the client's view [%s]" % line[:100], rep); continue
            plain = ",".join(x for (d, x) in cv[:ccs[0]])
            pms = f["pms"] if proto == "tlcp" else f["ecdh"].split("/")[0]
            mlines.append("obs12 %s %s %s %s" % (pms, plain, cv[ccs[0] + 1][1], cv[ccs[1] + 1][1]))
            sigline = "sigs12 %s %s" % (proto, plain)
        else:
            srv = [x for (d, x) in cv[1:] if d == "r"][1:]
            cli = [x for (d, x) in cv[1:] if d == "s"]
            sh = [x for (d, x) in cv[1:] if d == "r"][0]
            mlines.append("obs13 %s %s %s %s %s" % (f["ecdh"].split("/")[0], cv[0][1], sh, ",".join(srv), ",".join(cli)))
            sigline = "sigs13 %s %s %s %s %s" % (f["ecdh"].split("/")[0], cv[0][1], sh, ",".join(srv), ",".join(cli))
        if line.startswith("hs2 ") and f.get("first", "").count("1") < 2 and "hsfail" not in line:
            ctx.violation(cell + ":first-session", "the first of the two sessions did not complete: %s [%s]" % (f.get("first"), line[:80]), rep); continue
        back.append((line, cell, proto, f, out, "obs"))
        mlines.append(sigline)
        back.append((line, cell, proto, f, out, "sigs"))
        if script != "-":
            mlines.append("xfer %s %s" % (proto, script))
            back.append((line, cell, proto, f, out, "xfer"))
    mouts, _ = core.run_lines(model, mlines, shards=min(16, max(1, len(mlines))))
    # the signatures on the wire, verified with sm2_verify directly over the content the model prescribes
    sigjobs = []
    for bk, mo in zip(back, mouts):
        if bk[5] == "sigs" and mo not in ("-", "") and not mo.startswith(("MODEL-", "ERR")):
            for ent in mo.split(","):
                name, idh, cert, content, sg = ent.split("|")
                sigjobs.append((bk, name, "sigcheck %s %s %s %s" % (idh, cert, content, sg)))
    sigouts, _ = core.run_lines(exe, [j[2] for j in sigjobs], shards=8) if sigjobs else ([], "")
    sigres = {}
    for (bk, name, _), o in zip(sigjobs, sigouts):
        sigres.setdefault(bk[0], []).append((name, o))
    for (line, cell, proto, f, out, kind), mline, mo in zip(back, mlines, mouts):
        ctx.cov["evaluations"] += 1
        ctx.count("op:" + kind)
        rep = {"kind": "failing-input", "op": line, "impl": out[:3000], "model_op": mline[:3000], "expected": mo[:3000], "variant": "asan"}
        if mo.startswith("MODEL-") or (mo.startswith("ERR") and kind in ("obs", "sigs")):
            ctx.violation("model:" + cell, "model-side failure: " + mo[:200], rep, False); continue
        if kind == "sigs":
            res = sigres.get(line, [])
            want = 2 if (line.split(" ")[2] == "1") else 1        # server signature; client CertificateVerify with client authentication
            bad = ["%s does not verify over the content the model prescribes" % n for (n, o) in res if o != "1"]
            if len(res) != want:
                bad.append("%d authentication signature(s) found on the wire, %d expected" % (len(res), want))
            if bad:
                ctx.violation(cell + ":signed-content", "; ".join(bad) + " [%s]" % line[:100], rep)
            else:
                ctx.cell(cell + ":signed-content")
            continue
        if kind == "obs":
            m = fields(mo)
            bad = []
            if m["cfin"] != "1" or m["sfin"] != "1":
                bad.append("Finished messages on the wire are not the ones the key schedule prescribes (client %s, server %s)" % (m["cfin"], m["sfin"]))
            if proto != "tls13":
                if m["ms"] != f["ms"].split("/")[0]: bad.append("master_secret differs from PRF(pre_master, 'master secret', client_random||server_random)")
                if m["kb"] != f["kb"].split("/")[0]: bad.append("key_block differs from PRF(master, 'key expansion', server_random||client_random)")
                cc, cs = f["rk"].split("/")[0].split(":")
                if m["crk"] != cc or m["srk"] != rev_words(cs): bad.append("installed SM4 round keys differ from the key block split")
            else:
                civ, siv = f["iv"].split("/")[0].split(":")
                cc, cs = f["rk"].split("/")[0].split(":")
                if m["civ"] != civ or m["siv"] != siv: bad.append("application traffic IVs differ from the HKDF schedule")
                if m["crk"] != cc or m["srk"] != cs: bad.append("application traffic keys differ from the HKDF schedule")
            if bad:
                ctx.violation(cell + ":schedule", "; ".join(bad) + " [%s]" % line[:100], rep)
            else:
                ctx.cell(cell + ":keys")
                ctx.sample({"op": line[:120], "result": mo[:130]})
        else:
            if mo.startswith("FAULT") or "=" not in mo:
                ctx.violation(cell + ":xfer", "model predicts a memory fault / fails for this script: " + mo[:100], rep); continue
            m = fields(mo)
            bad = []
            if m["xfer"] != f.get("xfer"):
                bad.append("delivered data / lengths differ from the stream model")
            if m["wire"] != f.get("wire"):
                bad.append("record boundaries on the wire differ: impl %s model %s" % (f.get("wire", "")[:80], m["wire"][:80]))
            s0 = [int(x, 16) for x in re.split("[:/]", f["seq"])]
            s2 = [int(x, 16) for x in re.split("[:/]", f["seq2"])]
            d = [b - a for a, b in zip(s0, s2)]      # client.cseq client.sseq server.cseq server.sseq
            n = [int(x) for x in re.split("[:/]", m["nrec"])]   # dir0 sseq:rseq / dir1 sseq:rseq
            if [d[0], d[2], d[3], d[1]] != n:
                bad.append("sequence numbers advanced %s, model %s" % (d, n))
            if bad:
                ctx.violation(cell + ":xfer", "; ".join(bad) + " [%s]" % line[:120], rep)
            else:
                ctx.cell(cell + ":xfer")
    return finish(ctx)


def replay(path):
    import json
    r = json.load(open(path))
    op = r.get("replay", {}).get("op")
    if not op:
        print("replay names a proof obligation / relation, not an input:", json.dumps(r.get("replay"))[:1000]); return 0
    exe, log = core.build_harness("C08", "asan", extra=WRAP)
    model, _ = core.build_model("C08")
    if exe is None:
        print(log[-2000:]); return 1
    a, err = core.run_lines(exe, [op], shards=1, env={"VERIF_STDERR": "1"})
    print("op:   ", op[:300]); print("impl: ", a[0][:1500])
    if err.strip():
        print("stderr:", err[-1500:])
    if op.startswith(("hs ", "hs2 ")) and op.split(" ")[6 if op.startswith("hs ") else 5] != "-":
        b, _ = core.run_lines(model, ["xfer %s %s" % (op.split(" ")[1], op.split(" ")[6 if op.startswith("hs ") else 5])], shards=1)
        print("model (data path):", b[0][:1500])
    elif not op.startswith("hs "):
        b, _ = core.run_lines(model, [op], shards=1)
        print("model:", b[0][:1500])
        if b[0].startswith("ERR bad-op"):
            print("(this op has no model line: it is decided by the property oracle; recorded violation text: %s)" % r.get("text", "")[:600])
        else:
            print("AGREE" if a[0] == b[0] else "DIFFER")
    return 0


def finish(ctx):
    ctx.assumptions = [
        "handshake message construction/parsing, certificate handling and the SM2 operations are NOT modelled here: the run-time check observes them (both sides complete, same version/suite/keys) and the model re-derives every key and both Finished values from the observed pre-master secret / ECDH result and the records on the wire",
        "thread interleavings and socket timing are sampled (sequential drivers, FIFO channel per direction in the model)",
        "the rule of tls_encrypt_send 'no send while received data is still buffered' is respected by the scripts (reader drains before it writes), not modelled",
    ]
    return ctx.finish(level="proof",
                      rule="unit ops tls_prf / tls13_hkdf_expand_label / tls13_hkdf_extract / tls13_compute_verify_data (label, length classes); sessions = 3 protocols x {server-auth, mutual-auth} x chain depth x {whole records, short reads} x trust stores / client-CA bundles of 1, 2, 3, 5 certificates and of exactly 2048 bytes; second sessions on reused TLS_CONNECT objects after session 1 ended with a partly read record / a rejected record / close_notify / a failed handshake: handshake completion and equality of version, suite, master_secret, key_block, installed round keys, IVs, sequence numbers on both sides; passive-observer model over the client's record view re-derives keys and both Finished messages and the byte strings the ServerKeyExchange / CertificateVerify signatures sign (verified with sm2_verify directly under the certificate's key); scripted transfers (write sizes 1, 2^14-1, 2^14, 2^14+1, 50000, random x read sizes 1, 7, 16384, 20000, random, both directions) compared with the Stream model: sentlen of every call, length and hash of every read, record boundaries, sequence numbers",
                      trusted=core.TRUSTED_COMMON + ["link-time wrappers (--wrap) around tls_record_send/recv, sm2_do_ecdh, tls_pre_master_secret_generate that record each endpoint's view; proxy thread between two socketpairs",
                                                     "Coq files: Tls/KeySched.v KeySchedInst.v Stream.v (models), Tls/KeySchedProofs.v StreamProofs.v (proofs), Tls/Record*.v, Hash/*, Cipher/SM4.v"])
