(* C08 model driver: key schedule observers and the application data path model. *)
let hx = hex_of_bytes
let b = bytes_of_hex
let recs s = if s = "-" || s = "." then [] else List.map bytes_of_hex (split_on ',' s)
let bs x = if x then "1" else "0"

(* byte i of the k-th write of a side -- same pattern as the harness *)
let pat side k i = (side * 101 + k * 131 + i * 7 + (i lsr 8) * 13 + (i lsr 16)) land 255
let fnv (l : n list) =
  let h = ref 2166136261 in
  List.iter (fun x -> h := ((!h lxor (int_of_n x)) * 16777619) land 0xFFFFFFFF) l; !h

let xfer proto script =
  (* tls_send and (since commit c5b289c) tls13_send clamp at 2^14; an endpoint of TLCP / TLS 1.2 refuses to
     send while received data is pending (shared conn->databuf), TLS 1.3 does not *)
  let clamp, cap = Some max_plain, None in
  let allow_empty = (proto = "tls13") in
  let refuse = (proto <> "tls13") in
  let base = if proto = "tls13" then 0 else 1 in      (* the Finished records consumed sequence number 0 in TLCP / TLS 1.2 *)
  let d = ref duplex_init in
  let nw = [| 0; 0 |] in
  let wire = [| []; [] |] in
  let out = Buffer.create 256 in
  let dead = ref false in
  let steps = split_on ',' script in
  List.iteri (fun idx t ->
    if idx > 0 then Buffer.add_char out ',';
    let side = if t.[1] = 'c' then 0 else 1 in
    let client = (side = 0) in
    let n = int_of_string (String.sub t 2 (String.length t - 2)) in
    if t.[0] = 'w' then begin
      let k = nw.(side) in nw.(side) <- k + 1;
      let data = List.init n (fun i -> n_of_int (pat side k i)) in
      match dwrite clamp cap allow_empty refuse !d client data with
      | Ok (d', ns) ->
        d := d';
        let ns = List.map int_of_nat ns in
        Buffer.add_string out ("w" ^ String.concat "+" (List.map string_of_int ns));
        wire.(side) <- wire.(side) @ List.map (fun m ->
          if proto = "tls13" then 5 + m + 17 else 5 + 16 + m - (m mod 16) + 48) ns
      | Err -> Buffer.add_string out "wERR"
      | Fault -> Buffer.add_string out "wFAULT"; dead := true
    end else if t.[0] = 'e' then begin
      match dsend clamp cap allow_empty refuse !d client [] with
      | Ok (d', m) -> d := d';
        Buffer.add_string out (Printf.sprintf "e%d" (int_of_nat m));
        wire.(side) <- wire.(side) @ [5 + 17]
      | Err -> Buffer.add_string out "eERR"
      | Fault -> Buffer.add_string out "eFAULT"; dead := true
    end else begin
      match drecv !d client (nat_of_int n) with
      | Ok (d', data) -> d := d';
        Buffer.add_string out (Printf.sprintf "r%d:%08x" (List.length data) (fnv data))
      | Err -> Buffer.add_string out "rERR"
      | Fault -> Buffer.add_string out "rFAULT"
    end;
    let c = !d.c2s and s = !d.s2c in
    Buffer.add_string out (Printf.sprintf "@%d.%d.%d.%d"
      (base + int_of_nat c.sseq) (base + int_of_nat s.rseq)
      (base + int_of_nat c.rseq) (base + int_of_nat s.sseq))) steps;
  let w k = if wire.(k) = [] then "-" else String.concat "+" (List.map (fun l -> Printf.sprintf "23:%d" l) wire.(k)) in
  let c = !d.c2s and s = !d.s2c in
  if !dead then "FAULT"
  else Printf.sprintf "xfer=%s wire=%s/%s nrec=%d:%d/%d:%d" (Buffer.contents out) (w 0) (w 1)
      (int_of_nat c.sseq) (int_of_nat c.rseq) (int_of_nat s.sseq) (int_of_nat s.rseq)

let handle ws = match ws with
  | ["obs12"; pms; plain; cfin; sfin] ->
    let (((ms, kb), cok), sok) = observe12_sm4 (b pms) (recs plain) (b cfin) (b sfin) in
    let k i l = hx (sm4_rk_bytes (List.filteri (fun j _ -> j >= i && j < i + l) kb)) in
    Printf.sprintf "ms=%s kb=%s crk=%s srk=%s cfin=%s sfin=%s" (hx ms) (hx kb) (k 64 16) (k 80 16) (bs cok) (bs sok)
  | ["obs13"; ecdh; ch; sh; srv; cli] ->
    let (((((ck, civ), sk), siv), sok), cok) = observe13_sm4 (b ecdh) (b ch) (b sh) (recs srv) (recs cli) in
    Printf.sprintf "civ=%s siv=%s crk=%s srk=%s sfin=%s cfin=%s" (hx civ) (hx siv) (hx (sm4_rk_bytes ck)) (hx (sm4_rk_bytes sk)) (bs sok) (bs cok)
  | ["xfer"; proto; script] -> xfer proto script
  | ["prf"; secret; label; seed; more; outlen] ->
    let n = nat_of_int (int_of_string outlen) in
    (match tls_prf (b secret) (b label) (b seed) (b more) n with
     | Some r -> let s = prf_spec (b secret) (b label) (b seed @ b more) n in
       if r = s then hx r else "MODEL-IMPL-SPEC-DIFFER " ^ hx r ^ " " ^ hx s
     | None -> "ERR")
  | ["explabel"; secret; label; ctx; outlen] ->
    hx (hkdf_expand_label (b secret) (b label) (b ctx) (nat_of_int (int_of_string outlen)))
  | ["extract13"; salt; ikm] -> hx (hkdf_extract13 (b salt) (b ikm))
  | ["vd13"; secret; transcript] -> hx (verify_data13 (b secret) (b transcript))
  | _ -> "ERR bad-op"

let () = main_loop handle
