(* C08 model driver: key schedule observers and the application data path model. *)
let hx = hex_of_bytes
let b = bytes_of_hex
let recs s = if s = "-" || s = "." then [] else List.map bytes_of_hex (split_on ',' s)
let bs x = if x then "1" else "0"

(* byte i of the k-th write of a side -- same pattern as the harness *)
let pat side k i = (side * 101 + k * 131 + i * 7 + (i lsr 8) * 13 + (i lsr 16)) land 255
let fnv (l : n list) =
  let h = ref 2166136261 in
  List.iter (fun x -> h := ((!h lxor (int_of_n x)) * 16777619) land 0xFFFFFFFF) l; !h

let xfer proto script =
  (* tls_send and (since commit c5b289c) tls13_send clamp at 2^14; an endpoint of TLCP / TLS 1.2 refuses to
     send while received data is pending (shared conn->databuf), TLS 1.3 does not *)
  let clamp, cap = Some max_plain, None in
  let allow_empty = (proto = "tls13") in
  let refuse = (proto <> "tls13") in
  let base = if proto = "tls13" then 0 else 1 in      (* the Finished records consumed sequence number 0 in TLCP / TLS 1.2 *)
  let d = ref duplex_init in
  let nw = [| 0; 0 |] in
  let wire = [| []; [] |] in
  let out = Buffer.create 256 in
  let dead = ref false in
  let steps = split_on ',' script in
  List.iteri (fun idx t ->
    if idx > 0 then Buffer.add_char out ',';
    let side = if t.[1] = 'c' then 0 else 1 in
    let client = (side = 0) in
    let n = int_of_string (String.sub t 2 (String.length t - 2)) in
    if t.[0] = 'w' then begin
      let k = nw.(side) in nw.(side) <- k + 1;
      let data = List.init n (fun i -> n_of_int (pat side k i)) in
      match dwrite clamp cap allow_empty refuse !d client data with
      | Ok (d', ns) ->
        d := d';
        let ns = List.map int_of_nat ns in
        Buffer.add_string out ("w" ^ String.concat "+" (List.map string_of_int ns));
        wire.(side) <- wire.(side) @ List.map (fun m ->
          if proto = "tls13" then 5 + m + 17 else 5 + 16 + m - (m mod 16) + 48) ns
      | Err -> Buffer.add_string out "wERR"
      | Fault -> Buffer.add_string out "wFAULT"; dead := true
    end else if t.[0] = 'e' then begin
      match dsend clamp cap allow_empty refuse !d client [] with
      | Ok (d', m) -> d := d';
        Buffer.add_string out (Printf.sprintf "e%d" (int_of_nat m));
        wire.(side) <- wire.(side) @ [5 + 17]
      | Err -> Buffer.add_string out "eERR"
      | Fault -> Buffer.add_string out "eFAULT"; dead := true
    end else begin            (* 'r' and 'n' (non-blocking socket, poll loop): the same receive *)
      match drecv !d client (nat_of_int n) with
      | Ok (d', data) -> d := d';
        Buffer.add_string out (Printf.sprintf "%c%d:%08x" t.[0] (List.length data) (fnv data))
      | Err -> Buffer.add_string out (Printf.sprintf "%cERR" t.[0])
      | Fault -> Buffer.add_string out "rFAULT"
    end;
    let c = !d.c2s and s = !d.s2c in
    Buffer.add_string out (Printf.sprintf "@%d.%d.%d.%d"
      (base + int_of_nat c.sseq) (base + int_of_nat s.rseq)
      (base + int_of_nat c.rseq) (base + int_of_nat s.sseq))) steps;
  let w k = if wire.(k) = [] then "-" else String.concat "+" (List.map (fun l -> Printf.sprintf "23:%d" l) wire.(k)) in
  let c = !d.c2s and s = !d.s2c in
  if !dead then "FAULT"
  else Printf.sprintf "xfer=%s wire=%s/%s nrec=%d:%d/%d:%d" (Buffer.contents out) (w 0) (w 1)
      (int_of_nat c.sseq) (int_of_nat c.rseq) (int_of_nat s.sseq) (int_of_nat s.rseq)

(* ---- authentication signatures seen on the wire, with the content the model says they sign ---- *)
let sub l i n = List.filteri (fun j _ -> j >= i && j < i + n) l
let drop l i = List.filteri (fun j _ -> j >= i) l
let u16at l i = int_of_n (List.nth l i) * 256 + int_of_n (List.nth l (i + 1))
let u24at l i = int_of_n (List.nth l i) * 65536 + u16at l (i + 1)
let mtype m = match m with x :: _ -> int_of_n x | [] -> -1
let idhex_default = "31323334353637383132333435363738"                 (* SM2_DEFAULT_ID "1234567812345678" *)
let idhex_tls13 = "544c5376312e332b474d2b4369706865722b5375697465"     (* "TLSv1.3+GM+Cipher+Suite" *)
(* certificates of a TLCP / TLS 1.2 Certificate message: type(1) len(3) listlen(3) { len(3) cert } *)
let certs12 m =
  let rec go l acc = if List.length l < 3 then List.rev acc else
    let n = u24at l 0 in go (drop l (3 + n)) (sub l 3 n :: acc) in
  go (drop m 7) []
let entry name id cert content sg = String.concat "|" [name; id; hx cert; hx content; hx sg]
let sigs12 proto plain =
  let msgs = List.map (fun r -> drop r 5) plain in
  let rnd m = sub m 6 32 in
  let cr = rnd (List.nth msgs 0) and sr = rnd (List.nth msgs 1) in
  let out = ref [] and seen = ref [] and scerts = ref [] and ccerts = ref [] and ncert = ref 0 in
  List.iter (fun m ->
    (match mtype m with
     | 11 -> incr ncert; if !ncert = 1 then scerts := certs12 m else ccerts := certs12 m
     | 12 ->
       if proto = "tls12" then begin
         let params = sub m 4 69 in
         let sl = u16at m (4 + 69 + 2) in
         out := entry "ServerKeyExchange" idhex_default (List.nth !scerts 0) (ske12_signed cr sr params) (sub m (4 + 69 + 4) sl) :: !out
       end else begin
         let sl = u16at m 4 in
         out := entry "ServerKeyExchange" idhex_default (List.nth !scerts 0) (ske_tlcp_signed cr sr (List.nth !scerts 1)) (sub m 6 sl) :: !out
       end
     | 15 ->
       let sl = u16at m 4 in
       let tr = List.concat (List.rev !seen) in
       let content = if proto = "tls12" then cv12_signed tr else cv_tlcp_signed tr in
       out := entry "CertificateVerify" idhex_default (List.nth !ccerts 0) content (sub m 6 sl) :: !out
     | _ -> ());
    seen := m :: !seen) msgs;
  List.rev !out
(* TLS 1.3 Certificate: type(1) len(3) ctxlen(1) ctx listlen(3) { len(3) cert extlen(2) ext } *)
let leaf13 m = let c = int_of_n (List.nth m 4) in let o = 5 + c + 3 in sub m (o + 3) (u24at m o)
let sigs13 ch sh smsgs cmsgs =
  let t0 = drop ch 5 @ drop sh 5 in
  let flight server before msgs =
    let seen = ref [] and cert = ref [] and out = ref [] in
    List.iter (fun m ->
      (match mtype m with
       | 11 -> cert := leaf13 m
       | 15 ->
         let sl = u16at m 6 in
         let tr = before @ List.concat (List.rev !seen) in
         out := entry (if server then "server CertificateVerify" else "client CertificateVerify") idhex_tls13 !cert
                  (cv13_content server tr) (sub m 8 sl) :: !out
       | _ -> ());
      seen := m :: !seen) msgs; List.rev !out in
  flight true t0 smsgs @ flight false (t0 @ List.concat smsgs) cmsgs

let handle ws = match ws with
  | ["sigs12"; proto; plain] -> (match sigs12 proto (recs plain) with [] -> "-" | l -> String.concat "," l)
  | ["sigs13"; ecdh; ch; sh; srv; cli] ->
    let (sm, cm) = observe13_msgs_sm4 (b ecdh) (b ch) (b sh) (recs srv) (recs cli) in
    (match sigs13 (b ch) (b sh) sm cm with [] -> "-" | l -> String.concat "," l)
  | ["obs12"; pms; plain; cfin; sfin] ->
    let (((ms, kb), cok), sok) = observe12_sm4 (b pms) (recs plain) (b cfin) (b sfin) in
    let k i l = hx (sm4_rk_bytes (List.filteri (fun j _ -> j >= i && j < i + l) kb)) in
    Printf.sprintf "ms=%s kb=%s crk=%s srk=%s cfin=%s sfin=%s" (hx ms) (hx kb) (k 64 16) (k 80 16) (bs cok) (bs sok)
  | ["obs13"; ecdh; ch; sh; srv; cli] ->
    let (((((ck, civ), sk), siv), sok), cok) = observe13_sm4 (b ecdh) (b ch) (b sh) (recs srv) (recs cli) in
    Printf.sprintf "civ=%s siv=%s crk=%s srk=%s sfin=%s cfin=%s" (hx civ) (hx siv) (hx (sm4_rk_bytes ck)) (hx (sm4_rk_bytes sk)) (bs sok) (bs cok)
  | ["xfer"; proto; script] -> xfer proto script
  | ["prf"; secret; label; seed; more; outlen] ->
    let n = nat_of_int (int_of_string outlen) in
    (match tls_prf (b secret) (b label) (b seed) (b more) n with
     | Some r -> let s = prf_spec (b secret) (b label) (b seed @ b more) n in
       if r = s then hx r else "MODEL-IMPL-SPEC-DIFFER " ^ hx r ^ " " ^ hx s
     | None -> "ERR")
  | ["explabel"; secret; label; ctx; outlen] ->
    hx (hkdf_expand_label (b secret) (b label) (b ctx) (nat_of_int (int_of_string outlen)))
  | ["extract13"; salt; ikm] -> hx (hkdf_extract13 (b salt) (b ikm))
  | ["vd13"; secret; transcript] -> hx (verify_data13 (b secret) (b transcript))
  | _ -> "ERR bad-op"

let () = main_loop handle
