/* Shared machinery of the C08 / C09 / C10 harnesses: in-memory credentials, two endpoint
 * threads on socketpairs, a record-aware proxy thread in between (passive, short-read splitting,
 * or fault injecting), link-time wrappers that record each endpoint's own view of the handshake
 * (records sent/received by the handshake drivers, ECDH result, TLCP pre-master secret).
 *
 * Link with: -Wl,--wrap=tls_record_send,--wrap=tls_record_recv,--wrap=sm2_do_ecdh,--wrap=tls_pre_master_secret_generate,--wrap=tls_record_set_handshake_certificate,--wrap=hkdf_expand,--wrap=tls_uint24array_to_bytes,--wrap=sm2_sign_finish
 * Include after common.h and entropy.h, in exactly one translation unit. */
#ifndef VERIF_TLS_PEER_H
#define VERIF_TLS_PEER_H
#include <pthread.h>
#include <poll.h>
#include <sys/socket.h>
#include <sys/time.h>
#include <fcntl.h>
#include <gmssl/tls.h>
#include <gmssl/x509.h>
#include <gmssl/x509_ext.h>
#include <gmssl/x509_cer.h>
#include <gmssl/sm2.h>
#include <gmssl/sm3.h>
#include <gmssl/rand.h>
#include <gmssl/oid.h>
#include <gmssl/error.h>

int tls13_record_encrypt(const BLOCK_CIPHER_KEY *key, const uint8_t iv[12],
	const uint8_t seq_num[8], const uint8_t *record, size_t recordlen, size_t padding_len,
	uint8_t *enced_record, size_t *enced_recordlen);

#define T0 ((time_t)1700000000)      /* the harness' "now" (entropy.h default clock) */
#define DAY 86400

/* ------------------------------------------------------------------ credentials */
typedef struct { uint8_t der[2048]; size_t len; SM2_KEY key; uint8_t name[640]; size_t namelen; } cred_t;

static int mk_name(cred_t *c, const char *cn) {
	c->namelen = 0;
	return x509_name_set(c->name, &c->namelen, sizeof(c->name), "CN", NULL, NULL, "PKU", NULL, cn);   /* short names: a TLCP chain of 2 leaves + 3 CAs must fit TLS_MAX_CERTIFICATES_SIZE = 2048 */
}
/* issue a certificate for subj (its key must be set) signed by issuer (NULL = self-signed).
 * ca: -1 none / 1 CA; pathlen: -1 none; ku: key usage bits; validity [nb, na] */
static int mk_cert(cred_t *subj, const cred_t *issuer, int ca, int pathlen, int ku, time_t nb, time_t na) {
	uint8_t serial[12], exts[512]; size_t extslen = 0; uint8_t *p = subj->der;
	const cred_t *iss = issuer ? issuer : subj;
	rand_bytes(serial, sizeof(serial)); serial[0] &= 0x7f; serial[0] |= 0x40;
	if (ku && x509_exts_add_key_usage(exts, &extslen, sizeof(exts), X509_critical, ku) != 1) return -1;
	if ((ca >= 0 || pathlen >= 0) && x509_exts_add_basic_constraints(exts, &extslen, sizeof(exts), X509_critical, ca, pathlen) != 1) return -1;
	subj->len = 0;
	if (x509_cert_sign_to_der(X509_version_v3, serial, sizeof(serial), OID_sm2sign_with_sm3,
		iss->name, iss->namelen, nb, na, subj->name, subj->namelen, &subj->key,
		NULL, 0, NULL, 0, exts, extslen, &iss->key, SM2_DEFAULT_ID, SM2_DEFAULT_ID_LENGTH,
		&p, &subj->len) != 1) return -1;
	return subj->len <= sizeof(subj->der) ? 1 : -1;
}

#define MAXCA 3
typedef struct {
	cred_t root, ca[MAXCA];          /* root -> ca[0] -> ... -> ca[depth-1] (issuing CA, pathlen 0) */
	int depth;                       /* number of intermediate CAs, 1..3 */
	cred_t ssign, senc, csign;       /* server signing, server key-encipherment (TLCP), client signing */
	cred_t root2, ca2, ssign2, csign2; /* a second, untrusted hierarchy */
} pki_t;

static int mk_pki_branch(cred_t *root, cred_t *cas, int depth, const char *tag) {
	char cn[64]; int i;
	snprintf(cn, sizeof cn, "ROOTCA %s", tag);
	if (sm2_key_generate(&root->key) != 1 || mk_name(root, cn) != 1
		|| mk_cert(root, NULL, 1, -1, X509_KU_KEY_CERT_SIGN | X509_KU_CRL_SIGN, T0 - 2 * DAY, T0 + 3650 * DAY) != 1) return -1;
	for (i = 0; i < depth; i++) {
		snprintf(cn, sizeof cn, "Sub CA %s %d", tag, i);
		if (sm2_key_generate(&cas[i].key) != 1 || mk_name(&cas[i], cn) != 1
			|| mk_cert(&cas[i], i ? &cas[i - 1] : root, 1, depth - 1 - i, X509_KU_KEY_CERT_SIGN, T0 - 2 * DAY, T0 + 365 * DAY) != 1) return -1;
	}
	return 1;
}
static int mk_leaf(cred_t *leaf, const cred_t *issuer, const char *cn, int ku, time_t nb, time_t na) {
	if (sm2_key_generate(&leaf->key) != 1 || mk_name(leaf, cn) != 1) return -1;
	return mk_cert(leaf, issuer, -1, -1, ku, nb, na);
}
static int mk_leaf_sized(cred_t *leaf, const cred_t *issuer, const char *cn, int ku, size_t target) {
	long fill = (long)target - 400; int tries;
	if (sm2_key_generate(&leaf->key) != 1) return -1;
	for (tries = 0; tries < 80; tries++) {
		char st[129], lo[129], org[65], ou[65], cnb[65]; size_t f = (size_t)(fill > 0 ? fill : 0), a, b, cc, d, e2, cl = strlen(cn); long diff;
		a = f > 128 ? 128 : f; f -= a; b = f > 128 ? 128 : f; f -= b; cc = f > 64 ? 64 : f; f -= cc; d = f > 64 ? 64 : f; f -= d;
		e2 = f > 64 - cl ? 64 - cl : f; f -= e2;
		if (f) return -1;
		memset(st, 's', a); st[a] = 0; memset(lo, 'l', b); lo[b] = 0; memset(org, 'o', cc); org[cc] = 0; memset(ou, 'u', d); ou[d] = 0;
		memcpy(cnb, cn, cl); memset(cnb + cl, '.', e2); cnb[cl + e2] = 0;
		leaf->namelen = 0;
		if (x509_name_set(leaf->name, &leaf->namelen, sizeof(leaf->name), "CN", a ? st : NULL, b ? lo : NULL, cc ? org : NULL, d ? ou : NULL, cnb) != 1) return -1;
		if (mk_cert(leaf, issuer, -1, -1, ku, T0 - DAY, T0 + 365 * DAY) != 1) return -1;
		diff = (long)target - (long)leaf->len;
		if (diff == 0) return 1;
		fill += diff;
		if (fill < 0) return -1;
	}
	return -1;
}
/* a hierarchy of depth 3 whose presented chains (server: leaf [+ encryption leaf] + 3 CAs; client: leaf + 3 CAs)
 * have exactly TLS_MAX_CERTIFICATES_SIZE bytes */
static int mk_pki_exact(pki_t *k, int tlcp) {
	size_t cas = 0; int i; char pad[101];
	memset(k, 0, sizeof(*k)); k->depth = 3;
	if (mk_pki_branch(&k->root, k->ca, 3, "A") != 1) return -1;
	{	/* the certificates are far below 2048 in total: a longer name for the top intermediate (it occurs twice in a chain) */
		memset(pad, 'P', 100); pad[tlcp ? 50 : 100] = 0; k->ca[0].namelen = 0;
		if (x509_name_set(k->ca[0].name, &k->ca[0].namelen, sizeof(k->ca[0].name), "CN", pad, NULL, "PKU", NULL, "Sub CA A 0") != 1
			|| mk_cert(&k->ca[0], &k->root, 1, 2, X509_KU_KEY_CERT_SIGN, T0 - 2 * DAY, T0 + 365 * DAY) != 1
			|| mk_cert(&k->ca[1], &k->ca[0], 1, 1, X509_KU_KEY_CERT_SIGN, T0 - 2 * DAY, T0 + 365 * DAY) != 1
			|| mk_cert(&k->ca[2], &k->ca[1], 1, 0, X509_KU_KEY_CERT_SIGN, T0 - 2 * DAY, T0 + 365 * DAY) != 1) return -1;
	}
	for (i = 0; i < 3; i++) cas += k->ca[i].len;
	if (tlcp && mk_leaf(&k->senc, &k->ca[2], "localhost", X509_KU_KEY_ENCIPHERMENT, T0 - DAY, T0 + 365 * DAY) != 1) return -1;
	if (mk_leaf_sized(&k->ssign, &k->ca[2], "localhost", X509_KU_DIGITAL_SIGNATURE, TLS_MAX_CERTIFICATES_SIZE - cas - (tlcp ? k->senc.len : 0)) != 1
		|| mk_leaf_sized(&k->csign, &k->ca[2], "client", X509_KU_DIGITAL_SIGNATURE, TLS_MAX_CERTIFICATES_SIZE - cas) != 1) return -1;
	return 1;
}
static int mk_pki(pki_t *k, int depth) {
	memset(k, 0, sizeof(*k)); k->depth = depth;
	if (mk_pki_branch(&k->root, k->ca, depth, "A") != 1) return -1;
	if (mk_leaf(&k->ssign, &k->ca[depth - 1], "localhost", X509_KU_DIGITAL_SIGNATURE, T0 - DAY, T0 + 365 * DAY) != 1
		|| mk_leaf(&k->senc, &k->ca[depth - 1], "localhost", X509_KU_KEY_ENCIPHERMENT, T0 - DAY, T0 + 365 * DAY) != 1
		|| mk_leaf(&k->csign, &k->ca[depth - 1], "client", X509_KU_DIGITAL_SIGNATURE, T0 - DAY, T0 + 365 * DAY) != 1) return -1;
	if (mk_pki_branch(&k->root2, &k->ca2, 1, "B") != 1
		|| mk_leaf(&k->ssign2, &k->ca2, "localhost", X509_KU_DIGITAL_SIGNATURE, T0 - DAY, T0 + 365 * DAY) != 1
		|| mk_leaf(&k->csign2, &k->ca2, "client", X509_KU_DIGITAL_SIGNATURE, T0 - DAY, T0 + 365 * DAY) != 1) return -1;
	return 1;
}

/* append DER to a malloc'ed concatenation */
static void chain_add(uint8_t **buf, size_t *len, const cred_t *c) {
	*buf = realloc(*buf, *len + c->len + 1); memcpy(*buf + *len, c->der, c->len); *len += c->len;
}
/* leaf [, enc leaf], issuing CA, ..., first intermediate (root is the verifier's anchor) */
static void chain_build(uint8_t **buf, size_t *len, const pki_t *k, const cred_t *leaf, const cred_t *leaf2) {
	int i; *buf = NULL; *len = 0;
	chain_add(buf, len, leaf);
	if (leaf2) chain_add(buf, len, leaf2);
	for (i = k->depth - 1; i >= 0; i--) chain_add(buf, len, &k->ca[i]);
}

/* ---- trust-anchor bundles with several CA certificates ---- */
#define MAXDECOY 8
static cred_t decoy[MAXDECOY]; static int decoy_ready[MAXDECOY];
static const cred_t *get_decoy(int i) {
	if (!decoy_ready[i]) {
		char cn[32]; snprintf(cn, sizeof cn, "Decoy CA %d", i);
		if (sm2_key_generate(&decoy[i].key) != 1 || mk_name(&decoy[i], cn) != 1
			|| mk_cert(&decoy[i], NULL, 1, -1, X509_KU_KEY_CERT_SIGN | X509_KU_CRL_SIGN, T0 - 2 * DAY, T0 + 3650 * DAY) != 1) return NULL;
		decoy_ready[i] = 1;
	}
	return &decoy[i];
}
/* a self-signed CA certificate of exactly `target` DER bytes (name attributes as filler) */
static int mk_decoy_sized(cred_t *c, size_t target) {
	long fill = target > 420 ? (long)target - 420 : 0; int tries, pathlen = -1;
	if (sm2_key_generate(&c->key) != 1) return -1;
	for (tries = 0; tries < 80; tries++) {
		char st[129], lo[129], org[65], ou[65]; size_t f = (size_t)(fill > 0 ? fill / 2 : 0), a, b, cc, d;   /* the name appears twice (issuer, subject) */
		long diff;
		a = f > 128 ? 128 : f; f -= a; b = f > 128 ? 128 : f; f -= b; cc = f > 64 ? 64 : f; f -= cc; d = f > 64 ? 64 : f;
		memset(st, 'S', a); st[a] = 0; memset(lo, 'L', b); lo[b] = 0; memset(org, 'O', cc); org[cc] = 0; memset(ou, 'U', d); ou[d] = 0;
		c->namelen = 0;
		if (x509_name_set(c->name, &c->namelen, sizeof(c->name), "CN", a ? st : NULL, b ? lo : NULL, cc ? org : NULL, d ? ou : NULL, "Sized CA") != 1) return -1;
		if (mk_cert(c, NULL, 1, pathlen, X509_KU_KEY_CERT_SIGN | X509_KU_CRL_SIGN, T0 - 2 * DAY, T0 + 3650 * DAY) != 1) return -1;
		diff = (long)target - (long)c->len;
		if (diff == 0) return 1;
		if (diff & 1) { pathlen = pathlen < 0 ? 3 : -1; continue; }   /* the pathLenConstraint INTEGER changes the parity */
		fill += diff;
	}
	return -1;
}
/* n certificates, the real root at position real_pos, decoys elsewhere; total = 0: natural size,
 * otherwise the last decoy is sized so that the bundle has exactly `total` bytes */
static int bundle_build(uint8_t **buf, size_t *len, const cred_t *root, int n, int real_pos, size_t total) {
	int i, k = 0; static cred_t sized;
	*buf = NULL; *len = 0;
	for (i = 0; i < n; i++) {
		if (i == real_pos) { chain_add(buf, len, root); continue; }
		if (total && i == (real_pos == n - 1 ? n - 2 : n - 1)) continue;      /* placeholder for the sized one, appended below */
		{ const cred_t *dc = get_decoy(k++); if (!dc) return -1; chain_add(buf, len, dc); }
	}
	if (total) {
		if (*len + 300 > total || mk_decoy_sized(&sized, total - *len) != 1) return -1;
		chain_add(buf, len, &sized);
	}
	return 1;
}
/* a certificate of exactly `target` bytes issued by `issuer`: subject key = a fresh key, padded with a
 * large subjectAltName (one URI).  Well-formed DER; whether it would validate is irrelevant: it must be
 * refused (or handled) before it can run over a fixed buffer */
static uint8_t *mk_big_cert(const cred_t *issuer, size_t target, size_t *outlen) {
	cred_t tmp; size_t uri = target > 500 ? target - 500 : 8; int tries;
	uint8_t *exts = malloc(target + 600), *der = malloc(target + 1200), *gn = malloc(target + 600);
	if (sm2_key_generate(&tmp.key) != 1 || mk_name(&tmp, "big") != 1) return NULL;
	for (tries = 0; tries < 40; tries++) {
		uint8_t serial[12], *p = der; size_t extslen = 0, gl = 0, dl = 0;
		rand_bytes(serial, sizeof serial); serial[0] = (serial[0] & 0x7f) | 0x40;
		gn[gl++] = 0x86; if (uri < 128) gn[gl++] = (uint8_t)uri; else if (uri < 256) { gn[gl++] = 0x81; gn[gl++] = (uint8_t)uri; } else { gn[gl++] = 0x82; gn[gl++] = (uint8_t)(uri >> 8); gn[gl++] = (uint8_t)uri; }
		memset(gn + gl, 'u', uri); gl += uri;
		if (x509_exts_add_key_usage(exts, &extslen, target + 600, X509_critical, X509_KU_KEY_CERT_SIGN) != 1
			|| x509_exts_add_basic_constraints(exts, &extslen, target + 600, X509_critical, 1, 0) != 1
			|| x509_exts_add_sequence(exts, &extslen, target + 600, OID_ce_subject_alt_name, 0, gn, gl) != 1) break;
		if (x509_cert_sign_to_der(X509_version_v3, serial, sizeof serial, OID_sm2sign_with_sm3, issuer->name, issuer->namelen,
			T0 - DAY, T0 + 300 * DAY, tmp.name, tmp.namelen, &tmp.key, NULL, 0, NULL, 0, exts, extslen,
			&issuer->key, SM2_DEFAULT_ID, SM2_DEFAULT_ID_LENGTH, &p, &dl) != 1) break;
		if (dl == target) { free(exts); free(gn); *outlen = dl; return der; }
		if (dl < target) uri += target - dl; else uri -= dl - target;
	}
	free(exts); free(gn); free(der); return NULL;
}

/* ------------------------------------------------------------------ per-endpoint view (wrappers) */
#define MAXREC 24
typedef struct {
	int n; struct { int dir; uint8_t *p; size_t len; } r[MAXREC];   /* dir 0 = sent, 1 = received */
	uint8_t ecdh_x[32]; int have_ecdh;
	uint8_t pms[48]; int have_pms;
	int io_count;            /* number of record I/O calls the handshake driver made */
	uint8_t k13[4][16], iv13[4][12]; int nk13, niv13;   /* TLS 1.3 traffic keys / IVs in derivation order (hkdf_expand wrapper) */
} view_t;
static __thread view_t *cur_view = NULL;

static void view_free(view_t *v) { int i; for (i = 0; i < v->n; i++) free(v->r[i].p); memset(v, 0, sizeof(*v)); }
static void view_add(int dir, const uint8_t *rec, size_t len) {
	view_t *v = cur_view;
	if (!v) return;
	v->io_count++;
	if (v->n < MAXREC) { v->r[v->n].dir = dir; v->r[v->n].p = malloc(len ? len : 1); memcpy(v->r[v->n].p, rec, len); v->r[v->n].len = len; v->n++; }
}
/* a misbehaving client for the "empty Certificate message" row: when set in the calling thread,
 * the Certificate message the TLCP / TLS 1.2 client builds carries an empty certificate list
 * (the client hashes what it sends, so the transcripts stay consistent and only the server's own
 * guards can stop the handshake).  Link with --wrap=tls_record_set_handshake_certificate. */
static __thread int cur_empty_cert = 0;
/* a forging peer: the Certificate message it sends carries this chain instead of its configured one
 * (TLCP / TLS 1.2), resp. has the certificate at position forge13_pos swapped for forge13_cert (TLS 1.3,
 * --wrap=tls_uint24array_to_bytes: tls13_certificate_list_to_bytes emits every certificate through it) */
static __thread const uint8_t *forge_chain = NULL; static __thread size_t forge_chain_len = 0;
static __thread const uint8_t *forge13_base = NULL, *forge13_cert = NULL; static __thread size_t forge13_len = 0; static __thread int forge13_pos = -1;
int __real_tls_record_set_handshake_certificate(uint8_t *record, size_t *recordlen, const uint8_t *certs, size_t certslen);
int __wrap_tls_record_set_handshake_certificate(uint8_t *record, size_t *recordlen, const uint8_t *certs, size_t certslen) {
	if (cur_empty_cert) { static const uint8_t none[3] = { 0, 0, 0 }; return tls_record_set_handshake(record, recordlen, TLS_handshake_certificate, none, 3); }
	if (forge_chain) return __real_tls_record_set_handshake_certificate(record, recordlen, forge_chain, forge_chain_len);
	return __real_tls_record_set_handshake_certificate(record, recordlen, certs, certslen);
}
void __real_tls_uint24array_to_bytes(const uint8_t *data, size_t datalen, uint8_t **out, size_t *outlen);
void __wrap_tls_uint24array_to_bytes(const uint8_t *data, size_t datalen, uint8_t **out, size_t *outlen) {
	if (forge13_cert && data && forge13_base && data >= forge13_base && data < forge13_base + TLS_MAX_CERTIFICATES_SIZE) {
		const uint8_t *p = forge13_base, *c; size_t left = (size_t)(data - forge13_base) + datalen, cl; int idx = 0;
		while (left && p < data && x509_cert_from_der(&c, &cl, &p, &left) == 1) idx++;
		if (idx == forge13_pos) { data = forge13_cert; datalen = forge13_len; }
	}
	__real_tls_uint24array_to_bytes(data, datalen, out, outlen);
}
/* signatures an endpoint produces during its handshake: recorded (mode 1) or replaced by recorded ones
 * (mode 2: a forger without the private key replays what an honest run produced).  --wrap=sm2_sign_finish */
typedef struct { int n, next; uint8_t sig[4][96]; size_t len[4]; } sigstore_t;
static __thread int cur_sig_mode = 0; static __thread sigstore_t *cur_sigs = NULL;
int __real_sm2_sign_finish(SM2_SIGN_CTX *ctx, uint8_t *sig, size_t *siglen);
int __wrap_sm2_sign_finish(SM2_SIGN_CTX *ctx, uint8_t *sig, size_t *siglen) {
	int r;
	if (cur_sig_mode == 2 && cur_sigs && cur_sigs->next < cur_sigs->n) {
		int k = cur_sigs->next++; memcpy(sig, cur_sigs->sig[k], cur_sigs->len[k]); *siglen = cur_sigs->len[k]; return 1;
	}
	r = __real_sm2_sign_finish(ctx, sig, siglen);
	if (cur_sig_mode == 1 && cur_sigs && r == 1 && cur_sigs->n < 4 && *siglen <= 96) { memcpy(cur_sigs->sig[cur_sigs->n], sig, *siglen); cur_sigs->len[cur_sigs->n++] = *siglen; }
	return r;
}
/* TLS 1.3: HKDF-Expand-Label(.., "key" / "iv", ..) outputs, in the order the driver derives them
 * (server handshake, client handshake, server application, client application).  --wrap=hkdf_expand */
#include <gmssl/digest.h>
int __real_hkdf_expand(const DIGEST *digest, const uint8_t *prk, size_t prklen, const uint8_t *info, size_t infolen, size_t L, uint8_t *okm);
int __wrap_hkdf_expand(const DIGEST *digest, const uint8_t *prk, size_t prklen, const uint8_t *info, size_t infolen, size_t L, uint8_t *okm) {
	int r = __real_hkdf_expand(digest, prk, prklen, info, infolen, L, okm);
	view_t *v = cur_view;
	if (v && r == 1 && info && infolen >= 12) {
		if (info[2] == 9 && !memcmp(info + 3, "tls13 key", 9) && L == 16 && v->nk13 < 4) memcpy(v->k13[v->nk13++], okm, 16);
		if (info[2] == 8 && !memcmp(info + 3, "tls13 iv", 8) && L == 12 && v->niv13 < 4) memcpy(v->iv13[v->niv13++], okm, 12);
	}
	return r;
}
int __real_tls_record_send(const uint8_t *record, size_t recordlen, tls_socket_t sock);
int __real_tls_record_recv(uint8_t *record, size_t *recordlen, tls_socket_t sock);
int __real_sm2_do_ecdh(const SM2_KEY *key, const SM2_Z256_POINT *peer_public, SM2_Z256_POINT *out);
int __real_tls_pre_master_secret_generate(uint8_t pms[48], int protocol);
int __wrap_tls_record_send(const uint8_t *record, size_t recordlen, tls_socket_t sock) {
	int r = __real_tls_record_send(record, recordlen, sock);
	if (r == 1) view_add(0, record, recordlen);
	return r;
}
int __wrap_tls_record_recv(uint8_t *record, size_t *recordlen, tls_socket_t sock) {
	int r = __real_tls_record_recv(record, recordlen, sock);
	if (r == 1) view_add(1, record, *recordlen);
	return r;
}
int __wrap_sm2_do_ecdh(const SM2_KEY *key, const SM2_Z256_POINT *peer_public, SM2_Z256_POINT *out) {
	int r = __real_sm2_do_ecdh(key, peer_public, out);
	if (cur_view && r == 1) { uint8_t b[64]; sm2_z256_point_to_bytes(out, b); memcpy(cur_view->ecdh_x, b, 32); cur_view->have_ecdh = 1; }
	return r;
}
int __wrap_tls_pre_master_secret_generate(uint8_t pms[48], int protocol) {
	int r = __real_tls_pre_master_secret_generate(pms, protocol);
	if (cur_view && r == 1) { memcpy(cur_view->pms, pms, 48); cur_view->have_pms = 1; }
	return r;
}

/* ------------------------------------------------------------------ proxy */
enum { F_NONE = 0, F_FLIP, F_DROP, F_DUP, F_SWAP, F_TRUNC_CLOSE, F_TRUNC_FIXLEN, F_INJECT, F_REPLACE };
typedef struct {
	int kind, dir, idx;            /* dir 0 = client->server; idx = record index in that direction */
	size_t off; int bit;           /* F_FLIP: byte offset inside the record (header included), bit */
	size_t keep;                   /* F_TRUNC_*: bytes of the record to deliver */
	const uint8_t *repl; size_t repllen;   /* F_REPLACE: the record delivered instead (see craft13) */
	int applied;
} fault_t;
#define PMAXREC 512
typedef struct {
	int fd[2];                     /* fd[0] faces the client, fd[1] faces the server */
	fault_t fault;
	int split; uint64_t split_seed;/* split forwarded bytes at pseudo-random points (short reads); 2 = also always inside the record header, with a pause */
	int at_record_start;
	int nrec[2]; size_t reclen[2][PMAXREC]; uint8_t rectype[2][PMAXREC];
	size_t rechdrlen[2][PMAXREC];
	volatile int stop;
	view_t *craft13;               /* F_REPLACE on a TLS 1.3 client record: protect an empty {Certificate} with this view's client handshake key */
	uint8_t *copy[2][32]; size_t copylen[2][32];   /* first records of each direction (for layout) */
} proxy_t;

static uint64_t px_rand(proxy_t *p) { uint64_t z = (p->split_seed += 0x9E3779B97F4A7C15ULL); z = (z ^ (z >> 30)) * 0xBF58476D1CE4E5B9ULL; z = (z ^ (z >> 27)) * 0x94D049BB133111EBULL; return z ^ (z >> 31); }
static int px_write(proxy_t *p, int fd, const uint8_t *b, size_t n) {
	p->at_record_start = 1;
	while (n) {
		size_t k = n; ssize_t w;
		if (p->split && n > 1) { k = 1 + px_rand(p) % n; if (px_rand(p) % 3 == 0) k = 1 + px_rand(p) % (n < 7 ? n : 7); }
		if (p->split == 2 && p->at_record_start && n > 4) k = 1 + px_rand(p) % 4;      /* always cut inside the 5-byte header */
		p->at_record_start = 0;
		w = send(fd, b, k, MSG_NOSIGNAL);
		if (w <= 0) return -1;
		b += w; n -= (size_t)w;
		if (p->split && n) { struct timespec ts = { 0, p->split == 2 ? 3000000 : 200000 }; nanosleep(&ts, NULL); }
	}
	return 0;
}
/* forward one complete record of direction d through the fault filter */
static int px_forward(proxy_t *p, int d, uint8_t *rec, size_t len, uint8_t **held, size_t *heldlen) {
	int out = p->fd[1 - d]; int i = p->nrec[d]; fault_t *f = &p->fault;
	if (i < PMAXREC) { p->reclen[d][i] = len; p->rectype[d][i] = rec[0]; }
	if (i < 32) { p->copy[d][i] = malloc(len); memcpy(p->copy[d][i], rec, len); p->copylen[d][i] = len; }
	p->nrec[d]++;
	if (*held) {           /* F_SWAP: record i was held back; send i+1 first, then i */
		int r = px_write(p, out, rec, len) || px_write(p, out, *held, *heldlen);
		free(*held); *held = NULL; return r;
	}
	if (f->kind != F_NONE && f->dir == d && f->idx == i && !f->applied) {
		f->applied = 1;
		switch (f->kind) {
		case F_FLIP: if (f->off < len) rec[f->off] ^= (uint8_t)(1u << f->bit); return px_write(p, out, rec, len);
		case F_DROP: return 0;
		case F_DUP: return px_write(p, out, rec, len) || px_write(p, out, rec, len);
		case F_SWAP: *held = malloc(len); memcpy(*held, rec, len); *heldlen = len; return 0;
		case F_TRUNC_CLOSE: px_write(p, out, rec, f->keep < len ? f->keep : len); return -2;   /* then cut the line */
		case F_TRUNC_FIXLEN: { size_t k = f->keep < len ? f->keep : len; if (k < 5) k = 5; rec[3] = (uint8_t)((k - 5) >> 8); rec[4] = (uint8_t)(k - 5); return px_write(p, out, rec, k); }
		case F_REPLACE:
			if (p->craft13 && p->craft13->nk13 >= 2 && p->craft13->niv13 >= 2) {
				/* Certificate: type 11, length 4, empty request context, empty certificate list */
				static const uint8_t plain[13] = { 22, 3, 3, 0, 8, 11, 0, 0, 4, 0, 0, 0, 0 };
				uint8_t seq0[8] = { 0 }, enc[64]; size_t enclen = 0; BLOCK_CIPHER_KEY key;
				block_cipher_set_encrypt_key(&key, BLOCK_CIPHER_sm4(), p->craft13->k13[1]);
				if (tls13_record_encrypt(&key, p->craft13->iv13[1], seq0, plain, sizeof plain, 0, enc, &enclen) != 1) return -1;
				return px_write(p, out, enc, enclen);
			}
			return px_write(p, out, f->repl, f->repllen);
		case F_INJECT: { uint8_t inj[5 + 4] = { 22, rec[1], rec[2], 0, 4, 0, 0, 0, 0 }; return px_write(p, out, inj, sizeof inj) || px_write(p, out, rec, len); }
		}
	}
	return px_write(p, out, rec, len);
}
static void *proxy_main(void *arg) {
	proxy_t *p = arg; uint8_t *buf[2]; size_t have[2] = { 0, 0 }; int open_[2] = { 1, 1 }; int d;
	uint8_t *held[2] = { NULL, NULL }; size_t heldlen[2] = { 0, 0 };
	buf[0] = malloc(1 << 17); buf[1] = malloc(1 << 17);
	while ((open_[0] || open_[1]) && !p->stop) {
		struct pollfd pf[2]; int n;
		pf[0].fd = p->fd[0]; pf[0].events = open_[0] ? POLLIN : 0; pf[0].revents = 0;
		pf[1].fd = p->fd[1]; pf[1].events = open_[1] ? POLLIN : 0; pf[1].revents = 0;
		n = poll(pf, 2, 100);
		if (n < 0) break;
		for (d = 0; d < 2; d++) {
			if (!open_[d] || !(pf[d].revents & (POLLIN | POLLHUP | POLLERR))) continue;
			ssize_t r = recv(p->fd[d], buf[d] + have[d], (1 << 17) - have[d], 0);
			if (r <= 0) { open_[d] = 0; shutdown(p->fd[1 - d], SHUT_WR); continue; }
			have[d] += (size_t)r;
			for (;;) {
				size_t len; int rc;
				if (have[d] < 5) break;
				len = 5 + (((size_t)buf[d][3] << 8) | buf[d][4]);
				if (have[d] < len) break;
				rc = px_forward(p, d, buf[d], len, &held[d], &heldlen[d]);
				memmove(buf[d], buf[d] + len, have[d] - len); have[d] -= len;
				if (rc == -2) { shutdown(p->fd[0], SHUT_RDWR); shutdown(p->fd[1], SHUT_RDWR); open_[0] = open_[1] = 0; break; }
				if (rc != 0) { open_[d] = 0; break; }
			}
		}
	}
	shutdown(p->fd[0], SHUT_RDWR); shutdown(p->fd[1], SHUT_RDWR);
	free(buf[0]); free(buf[1]); free(held[0]); free(held[1]);
	return NULL;
}
static void proxy_free(proxy_t *p) { int d, i; for (d = 0; d < 2; d++) for (i = 0; i < 32; i++) free(p->copy[d][i]); }

/* ------------------------------------------------------------------ endpoints */

/* ------------------------------------------------------------------ short writes
 * send() of the C library, interposed for the endpoint threads that ask for it: delivers only the first few bytes
 * (as a socket with a full send buffer / SO_SNDTIMEO does) and leaves a stale value in errno next to the positive
 * count (errno is unspecified after a successful call).  tls_record_send must go on with the rest. */
#include <sys/syscall.h>
#include <unistd.h>
#include <errno.h>
static __thread int short_send_mode;            /* 0 off; 1 stale errno = EPIPE; 2 stale errno = EAGAIN */
static __thread uint64_t short_send_state;
static __thread unsigned long short_send_count;
ssize_t send(int fd, const void *buf, size_t n, int flags) {
	size_t k = n; ssize_t r;
	if (short_send_mode && n > 1) {
		short_send_state = short_send_state * 6364136223846793005ULL + 1442695040888963407ULL;
		k = 1 + (size_t)((short_send_state >> 33) % ((short_send_state >> 20) % 4 == 0 ? n : (n < 7 ? n : 7)));
	}
	r = syscall(SYS_sendto, fd, buf, k, flags, NULL, 0);
	if (short_send_mode && r > 0) { if (k < n) short_send_count++; errno = short_send_mode == 1 ? EPIPE : EAGAIN; }
	return r;
}
#define PMAXMSG 4
#define PMAXCALLS (PMAXMSG + 2)
#define PM_IS_APP(m) ((m).type == 0 || (m).type == 23)
typedef struct { size_t len, pad; int type; } pmsg_t;   /* a planned message: length, TLS 1.3 padding, content type (0 = application data) */
typedef struct {
	int protocol, is_client;
	TLS_CTX ctx; TLS_CONNECT *conn;          /* conn is an exactly sized heap block */
	int sock; int hs_ret; uint64_t seed; time_t clock;
	view_t view;
	int short_send; unsigned long short_sends;   /* short_send_mode of this endpoint's thread; number of short writes it met */
	int post;                                /* after a successful handshake: send the planned application messages, then receive */
	pmsg_t plan[PMAXMSG]; int nplan; int crafted;   /* nplan == 0: two 16-byte messages through tls_send / tls13_send */
	int post_send_ret, post_recv_ret; size_t post_recv_len;   /* first send / first receive */
	int post_rets[PMAXMSG + 2]; size_t post_lens[PMAXMSG + 2]; int post_ncalls;
	int post_accepted;                       /* number of receive calls that returned 1 */
	int post_deviates;                       /* some accepted payload is not the next message the peer sent */
	int empty_cert;                          /* client only: send a Certificate message with an empty list (TLCP / TLS 1.2) */
	int forge_pos; const uint8_t *forge_cert; size_t forge_cert_len;   /* forge_cert != NULL: the certificate at this position of the chain sent is replaced */
	uint8_t *forged_chain; size_t forged_chain_len;
	int sig_mode; sigstore_t *sigs;           /* 1: record the signatures this endpoint makes; 2: replay them instead of signing */
	pthread_t th;
} endpoint_t;

static void set_timeouts(int fd, int ms) {
	struct timeval tv = { ms / 1000, (ms % 1000) * 1000 };
	setsockopt(fd, SOL_SOCKET, SO_RCVTIMEO, &tv, sizeof tv);
	setsockopt(fd, SOL_SOCKET, SO_SNDTIMEO, &tv, sizeof tv);
}
static int ep_send(endpoint_t *e, const uint8_t *b, size_t n, size_t *sent) {
	return e->protocol == TLS_protocol_tls13 ? tls13_send(e->conn, b, n, sent) : tls_send(e->conn, b, n, sent);
}
static int ep_recv(endpoint_t *e, uint8_t *b, size_t n, size_t *got) {
	return e->protocol == TLS_protocol_tls13 ? tls13_recv(e->conn, b, n, got) : tls_recv(e->conn, b, n, got);
}
int tls13_record_encrypt(const BLOCK_CIPHER_KEY *key, const uint8_t iv[12],
	const uint8_t seq_num[8], const uint8_t *record, size_t recordlen, size_t padding_len,
	uint8_t *enced_record, size_t *enced_recordlen);
/* an honest peer written with the library's record functions and the connection's own keys and
 * sequence number: can emit what tls_send / tls13_send cannot (empty records for TLCP / TLS 1.2,
 * TLS 1.3 records with padding) */
static int ep_send_crafted(endpoint_t *e, const uint8_t *data, size_t n, size_t pad, int type) {
	TLS_CONNECT *c = e->conn; uint8_t *rec = malloc(5 + n + 1), *out = malloc(5 + n + 600); size_t outlen = 0; int r;
	uint8_t *seq = e->is_client ? c->client_seq_num : c->server_seq_num;
	rec[0] = type ? (uint8_t)type : 23; rec[3] = (uint8_t)(n >> 8); rec[4] = (uint8_t)n; if (n) memcpy(rec + 5, data, n);
	if (e->protocol == TLS_protocol_tls13) {
		rec[1] = 3; rec[2] = 3;
		r = tls13_record_encrypt(e->is_client ? &c->client_write_key : &c->server_write_key,
			e->is_client ? c->client_write_iv : c->server_write_iv, seq, rec, 5 + n, pad, out, &outlen);
	} else {
		rec[1] = (uint8_t)(e->protocol >> 8); rec[2] = (uint8_t)e->protocol;
		r = tls_record_encrypt(e->is_client ? &c->client_write_mac_ctx : &c->server_write_mac_ctx,
			e->is_client ? &c->client_write_enc_key : &c->server_write_enc_key, seq, rec, 5 + n, out, &outlen);
	}
	if (r == 1) { tls_seq_num_incr(seq); r = tls_record_send(out, outlen, c->sock); }
	free(rec); free(out);
	return r;
}
static uint8_t pmsg_byte(int is_client, int k, size_t i) { return (uint8_t)((is_client ? 0x40 : 0x80) + k * 17 + i * 3 + (i >> 8)); }

static void *endpoint_main(void *arg) {
	endpoint_t *e = arg;
	ent_seed(e->seed, -1); ent_clock(e->clock);
	short_send_mode = e->short_send; short_send_state = e->seed * 77 + 1; short_send_count = 0;
	cur_view = &e->view; cur_empty_cert = e->empty_cert;
	cur_sig_mode = e->sig_mode; cur_sigs = e->sigs;
	if (e->forge_cert) {
		if (e->protocol == TLS_protocol_tls13) {
			forge13_base = e->is_client ? e->conn->client_certs : e->conn->server_certs;
			forge13_cert = e->forge_cert; forge13_len = e->forge_cert_len; forge13_pos = e->forge_pos;
		} else {
			const uint8_t *p = e->ctx.certs, *c; size_t left = e->ctx.certslen, cl; int idx = 0;
			e->forged_chain = NULL; e->forged_chain_len = 0;
			while (left && x509_cert_from_der(&c, &cl, &p, &left) == 1) {
				const uint8_t *src = idx == e->forge_pos ? e->forge_cert : c; size_t sl = idx == e->forge_pos ? e->forge_cert_len : cl;
				e->forged_chain = realloc(e->forged_chain, e->forged_chain_len + sl); memcpy(e->forged_chain + e->forged_chain_len, src, sl); e->forged_chain_len += sl; idx++;
			}
			forge_chain = e->forged_chain; forge_chain_len = e->forged_chain_len;
		}
	}
	e->hs_ret = tls_do_handshake(e->conn);
	cur_view = NULL; cur_empty_cert = 0; cur_sig_mode = 0; cur_sigs = NULL; forge_chain = NULL; forge13_cert = NULL; forge13_base = NULL; forge13_pos = -1;
	e->post_send_ret = e->post_recv_ret = -99;
	if (e->hs_ret == 1 && e->post) {
		static const pmsg_t dflt[2] = { { 16, 0, 0 }, { 16, 0, 0 } };
		const pmsg_t *plan = e->nplan ? e->plan : dflt; int np = e->nplan ? e->nplan : 2;
		uint8_t *buf = malloc(20000), *exp = malloc(20000); int i, next = 0, fails = 0, napp = 0; size_t j;
		/* messages of another content type than application data (authentic: protected with the connection's
		   keys) must never come out of the receive function: each costs the receiver one refused call */
		for (i = 0; i < np; i++) napp += PM_IS_APP(plan[i]);
		for (i = 0; i < np; i++) {
			size_t sent = 0; int r;
			for (j = 0; j < plan[i].len; j++) buf[j] = pmsg_byte(e->is_client, i, j);
			if (e->crafted || plan[i].len == 0 || plan[i].pad || !PM_IS_APP(plan[i])) r = ep_send_crafted(e, buf, plan[i].len, plan[i].pad, plan[i].type);
			else r = ep_send(e, buf, plan[i].len, &sent);
			if (i == 0) e->post_send_ret = r;
			if (r != 1) break;
		}
		for (i = 0; i < np + 2 && i < PMAXCALLS && fails < 2 + (np - napp); i++) {
			size_t got = 0; int r;
			while (next < np && !PM_IS_APP(plan[next])) next++;
			if (e->post_accepted >= napp) {         /* everything expected has arrived: one short look for anything further (a replayed copy) */
				struct timeval tv = { 0, 250000 }; setsockopt(e->sock, SOL_SOCKET, SO_RCVTIMEO, &tv, sizeof tv);
				fails = 1;
			}
			r = ep_recv(e, buf, 20000, &got);
			e->post_rets[i] = r; e->post_lens[i] = r == 1 ? got : 0; e->post_ncalls = i + 1;
			if (i == 0) { e->post_recv_ret = r; e->post_recv_len = r == 1 ? got : 0; }
			if (r == 1) {
				e->post_accepted++;
				if (next < np && got == plan[next].len) {
					for (j = 0; j < got; j++) exp[j] = pmsg_byte(!e->is_client, next, j);
					if (got && memcmp(buf, exp, got)) e->post_deviates = 1;
					next++;
				} else e->post_deviates = 1;
			} else fails++;
		}
		free(buf); free(exp);
	}
	e->short_sends = short_send_count; short_send_mode = 0;
	if (e->hs_ret != 1 || e->post) shutdown(e->sock, SHUT_RDWR);   /* a finished endpoint hangs up */
	return NULL;
}

/* "[x]len[:pad][tTYPE],len[:pad][tTYPE],..." -> plan; tTYPE = content type of the (crafted) record; a leading x = every message through ep_send_crafted */
static void ep_plan(endpoint_t *e, const char *spec) {
	e->nplan = 0; e->crafted = 0;
	if (!spec || !strcmp(spec, "d")) return;
	if (*spec == 'x') { e->crafted = 1; spec++; }
	while (*spec && e->nplan < PMAXMSG) {
		char *end; e->plan[e->nplan].len = strtoul(spec, &end, 10); e->plan[e->nplan].pad = 0;
		if (*end == ':') e->plan[e->nplan].pad = strtoul(end + 1, &end, 10);
		e->plan[e->nplan].type = 0;
		if (*end == 't') e->plan[e->nplan].type = (int)strtoul(end + 1, &end, 10);
		e->nplan++; spec = *end == ',' ? end + 1 : end;
	}
}

/* configure an endpoint from explicit credential pieces (any may be absent) */
/* conn: NULL = a fresh, exactly sized heap object; otherwise an object used before (tls_init is called
 * on it again, as an accept loop would) */
static int ep_setup_on(endpoint_t *e, TLS_CONNECT *conn, int protocol, int is_client,
	const uint8_t *chain, size_t chainlen, const SM2_KEY *signkey, const SM2_KEY *enckey,
	const uint8_t *anchors, size_t anchorslen) {
	int suite = protocol == TLS_protocol_tlcp ? TLS_cipher_ecc_sm4_cbc_sm3 : protocol == TLS_protocol_tls12 ? TLS_cipher_ecdhe_sm4_cbc_sm3 : TLS_cipher_sm4_gcm_sm3;
	memset(e, 0, sizeof(*e)); e->protocol = protocol; e->is_client = is_client; e->clock = T0; e->forge_pos = -1;
	e->conn = conn ? conn : malloc(sizeof(TLS_CONNECT));
	if (tls_ctx_init(&e->ctx, protocol, is_client) != 1 || tls_ctx_set_cipher_suites(&e->ctx, &suite, 1) != 1) return -1;
	e->ctx.quiet = 1;
	if (chainlen) { e->ctx.certs = malloc(chainlen); memcpy(e->ctx.certs, chain, chainlen); e->ctx.certslen = chainlen; }
	if (signkey) e->ctx.signkey = *signkey;
	if (enckey) e->ctx.kenckey = *enckey;
	if (anchorslen) { e->ctx.cacerts = malloc(anchorslen); memcpy(e->ctx.cacerts, anchors, anchorslen); e->ctx.cacertslen = anchorslen; e->ctx.verify_depth = TLS_DEFAULT_VERIFY_DEPTH; }
	if (tls_init(e->conn, &e->ctx) != 1) return -2;       /* -2: the library refused the configuration */
	return 1;
}
static int ep_setup(endpoint_t *e, int protocol, int is_client,
	const uint8_t *chain, size_t chainlen, const SM2_KEY *signkey, const SM2_KEY *enckey,
	const uint8_t *anchors, size_t anchorslen) {
	return ep_setup_on(e, NULL, protocol, is_client, chain, chainlen, signkey, enckey, anchors, anchorslen);
}
/* did the handshake leave the endpoint's configured trust anchors alone? */
static int ep_anchors_intact(const endpoint_t *e) {
	return e->conn->ca_certs_len == e->ctx.cacertslen && (e->ctx.cacertslen == 0 || !memcmp(e->conn->ca_certs, e->ctx.cacerts, e->ctx.cacertslen));
}
static void ep_free(endpoint_t *e) { view_free(&e->view); tls_ctx_cleanup(&e->ctx); free(e->conn); e->conn = NULL; free(e->forged_chain); e->forged_chain = NULL; }

/* run client and server against each other through the proxy; returns after both handshakes
 * (and the optional post-handshake exchange) ended.  keep_open: leave sockets and proxy running
 * for a data phase driven by the caller (then call session_close). */
typedef struct { endpoint_t c, s; proxy_t px; pthread_t pth; int sv_c[2], sv_s[2]; int open; } session_t;

static int session_run(session_t *S, int timeout_ms, int keep_open) {
	if (socketpair(AF_UNIX, SOCK_STREAM, 0, S->sv_c) != 0 || socketpair(AF_UNIX, SOCK_STREAM, 0, S->sv_s) != 0) return -1;
	set_timeouts(S->sv_c[0], timeout_ms); set_timeouts(S->sv_s[0], timeout_ms);
	set_timeouts(S->sv_c[1], 4 * timeout_ms); set_timeouts(S->sv_s[1], 4 * timeout_ms);
	S->c.sock = S->sv_c[0]; S->s.sock = S->sv_s[0];
	S->px.fd[0] = S->sv_c[1]; S->px.fd[1] = S->sv_s[1];
	tls_set_socket(S->c.conn, S->c.sock); tls_set_socket(S->s.conn, S->s.sock);
	if (keep_open) { S->c.post = 0; S->s.post = 0; }
	{	/* src/tls13.c prints progress lines with printf(): keep them off the result channel */
		int saved, nul; fflush(stdout); saved = dup(1); nul = open("/dev/null", O_WRONLY); dup2(nul, 1); close(nul);
		pthread_create(&S->pth, NULL, proxy_main, &S->px);
		pthread_create(&S->s.th, NULL, endpoint_main, &S->s);
		pthread_create(&S->c.th, NULL, endpoint_main, &S->c);
		pthread_join(S->c.th, NULL); pthread_join(S->s.th, NULL);
		fflush(stdout); dup2(saved, 1); close(saved);
	}
	S->open = 1;
	if (!keep_open || S->c.hs_ret != 1 || S->s.hs_ret != 1) {
		S->px.stop = 1; shutdown(S->sv_c[0], SHUT_RDWR); shutdown(S->sv_s[0], SHUT_RDWR);
		pthread_join(S->pth, NULL);
		close(S->sv_c[0]); close(S->sv_c[1]); close(S->sv_s[0]); close(S->sv_s[1]); S->open = 0;
	}
	return 1;
}
static void session_close(session_t *S) {
	if (S->open) {
		S->px.stop = 1; shutdown(S->sv_c[0], SHUT_RDWR); shutdown(S->sv_s[0], SHUT_RDWR);
		pthread_join(S->pth, NULL);
		close(S->sv_c[0]); close(S->sv_c[1]); close(S->sv_s[0]); close(S->sv_s[1]); S->open = 0;
	}
	proxy_free(&S->px); ep_free(&S->c); ep_free(&S->s);
}

static int proto_of(const char *s) {
	if (!strcmp(s, "tlcp")) return TLS_protocol_tlcp;
	if (!strcmp(s, "tls12")) return TLS_protocol_tls12;
	if (!strcmp(s, "tls13")) return TLS_protocol_tls13;
	return -1;
}
#endif
