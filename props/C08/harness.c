/* C08 harness: honest client and server of the current /repo tree, in-process, over socketpairs
 * with a passive (optionally short-read splitting) proxy in between.
 *
 *   hs <tlcp|tls12|tls13> <auth 0|1> <depth 1..3> <seed> <split 0|1> <script|-> [nca]
 *        nca = number of CA certificates in the client's trust store and the server's client-CA bundle
 *        (1 2 3 5; 0 = five certificates filling conn->ca_certs to exactly 2048 bytes)
 *
 * Output: key=value fields (see run.py).  The data script is executed by the main thread on the
 * two TLS_CONNECT objects after both handshakes returned 1; after every step the four public
 * sequence numbers (client.client_seq, client.server_seq, server.client_seq, server.server_seq) are printed:
 *   w<c|s><n>   application write loop of n pattern bytes on that side (prints the sentlen of each call)
 *   e<c|s>0     one send call with datalen 0 (tls_send refuses it; tls13_send emits an empty record)
 *   r<c|s><n>   one tls_recv / tls13_recv with an n-byte buffer on that side (prints len:fnv32)
 *   x<c|s>      orderly close: tls_shutdown-style close_notify is not modelled; just hang up
 */
#include "common.h"
#include "entropy.h"
#include "tls_peer.h"
#include <signal.h>
#include <gmssl/digest.h>

static pki_t pki_exact[2]; static int pki_exact_ready[2];
static pki_t *get_pki_exact(int tlcp) {
	if (!pki_exact_ready[tlcp]) {
		ent_seed(0xE8AC70 + (uint64_t)tlcp, -1); ent_clock(T0);
		if (mk_pki_exact(&pki_exact[tlcp], tlcp) != 1) return NULL;
		pki_exact_ready[tlcp] = 1;
	}
	return &pki_exact[tlcp];
}
static pki_t pki[4]; static int pki_ready[4];
static pki_t *get_pki(int depth) {
	if (!pki_ready[depth]) {
		ent_seed(0xC08000 + (uint64_t)depth, -1); ent_clock(T0);
		if (mk_pki(&pki[depth], depth) != 1) return NULL;
		pki_ready[depth] = 1;
	}
	return &pki[depth];
}

static uint32_t fnv(const uint8_t *p, size_t n) { uint32_t h = 2166136261u; size_t i; for (i = 0; i < n; i++) { h ^= p[i]; h *= 16777619u; } return h; }
/* byte i of the k-th write of a side */
static uint8_t pat(int side, int k, size_t i) { return (uint8_t)(side * 101 + k * 131 + i * 7 + (i >> 8) * 13 + (i >> 16)); }

static void put_rk(const SM4_KEY *k) { int i; for (i = 0; i < 32; i++) printf("%08x", k->rk[i]); }

static void print_view(const char *tag, const view_t *v) {
	int i; printf(" %s=", tag);
	if (!v->n) printf("-");
	for (i = 0; i < v->n; i++) { size_t j; printf("%s%c", i ? "," : "", v->r[i].dir ? 'r' : 's'); for (j = 0; j < v->r[i].len; j++) printf("%02x", v->r[i].p[j]); }
}

/* print the observable state of both endpoints after the handshake and run the data script */
static void report_and_transfer(session_t *S, int protocol, uint64_t seed, char *script) {
	int hs_c2s, hs_s2c;
	hs_c2s = S->px.nrec[0]; hs_s2c = S->px.nrec[1];
	printf("rc=%d rs=%d", S->c.hs_ret, S->s.hs_ret);
	printf(" ver=%04x/%04x suite=%04x/%04x", S->c.conn->protocol, S->s.conn->protocol, S->c.conn->cipher_suite & 0xffff, S->s.conn->cipher_suite & 0xffff);
	if (protocol != TLS_protocol_tls13) {
		printf(" ms="); puthex(S->c.conn->master_secret, 48); printf("/"); puthex(S->s.conn->master_secret, 48);
		printf(" kb="); puthex(S->c.conn->key_block, 96); printf("/"); puthex(S->s.conn->key_block, 96);
		printf(" rk="); put_rk(&S->c.conn->client_write_enc_key); printf(":"); put_rk(&S->c.conn->server_write_enc_key);
		printf("/"); put_rk(&S->s.conn->client_write_enc_key); printf(":"); put_rk(&S->s.conn->server_write_enc_key);
	} else {
		printf(" iv="); puthex(S->c.conn->client_write_iv, 12); printf(":"); puthex(S->c.conn->server_write_iv, 12);
		printf("/"); puthex(S->s.conn->client_write_iv, 12); printf(":"); puthex(S->s.conn->server_write_iv, 12);
		printf(" rk="); put_rk(&S->c.conn->client_write_key.u.sm4_key); printf(":"); put_rk(&S->c.conn->server_write_key.u.sm4_key);
		printf("/"); put_rk(&S->s.conn->client_write_key.u.sm4_key); printf(":"); put_rk(&S->s.conn->server_write_key.u.sm4_key);
	}
	printf(" seq="); puthex(S->c.conn->client_seq_num, 8); printf(":"); puthex(S->c.conn->server_seq_num, 8);
	printf("/"); puthex(S->s.conn->client_seq_num, 8); printf(":"); puthex(S->s.conn->server_seq_num, 8);
	printf(" pms="); if (S->c.view.have_pms) puthex(S->c.view.pms, 48); else printf("-");
	printf(" ecdh="); if (S->c.view.have_ecdh) puthex(S->c.view.ecdh_x, 32); else printf("-");
	printf("/"); if (S->s.view.have_ecdh) puthex(S->s.view.ecdh_x, 32); else printf("-");
	print_view("cview", &S->c.view);
	print_view("sview", &S->s.view);

	/* ---- data phase ---- */
	if (S->c.hs_ret == 1 && S->s.hs_ret == 1 && strcmp(script, "-") != 0) {
		char *save = NULL, *t; int nw[2] = { 0, 0 }; int first = 1;
		ent_seed(seed + 77, -1);
		short_send_mode = S->c.short_send; short_send_state = seed * 131 + 7; short_send_count = 0;
		printf(" xfer=");
		for (t = strtok_r(script, ",", &save); t; t = strtok_r(NULL, ",", &save)) {
			int side = t[1] == 'c' ? 0 : 1; endpoint_t *e = side == 0 ? &S->c : &S->s;
			size_t n = strtoul(t + 2, NULL, 10);
			if (!first) printf(","); first = 0;
			if (t[0] == 'w') {
				uint8_t *buf = malloc(n ? n : 1); size_t i, off = 0; int k = nw[side]++; int err = 0, calls = 0;
				for (i = 0; i < n; i++) buf[i] = pat(side, k, i);
				printf("w");
				while (off < n) {
					size_t sent = 0; int r = ep_send(e, buf + off, n - off, &sent);
					if (r != 1) { printf("%sERR", calls ? "+" : ""); err = 1; break; }
					printf("%s%zu", calls ? "+" : "", sent); calls++;
					if (sent == 0 || sent > n - off) { printf("+BADLEN"); err = 1; break; }
					off += sent;
				}
				(void)err; free(buf);
			} else if (t[0] == 'e') {      /* one send call with datalen 0 */
				uint8_t *buf = malloc(1); size_t sent = 99; int r = ep_send(e, buf, 0, &sent);
				if (r != 1) printf("eERR"); else printf("e%zu", sent);
				free(buf);
			} else if (t[0] == 'n') {      /* the same receive on a non-blocking socket: poll, retry on -EAGAIN */
				uint8_t *buf = malloc(n ? n : 1); size_t got = 0; int r = -EAGAIN, spins = 0;
				int fl = fcntl(e->sock, F_GETFL); fcntl(e->sock, F_SETFL, fl | O_NONBLOCK);
				while (spins++ < 400) {
					struct pollfd pf = { e->sock, POLLIN, 0 };
					r = ep_recv(e, buf, n, &got);
					if (r != -EAGAIN) break;
					poll(&pf, 1, 20);
				}
				fcntl(e->sock, F_SETFL, fl);
				if (r != 1) printf("nERR"); else if (got > n) printf("nBADLEN"); else printf("n%zu:%08x", got, fnv(buf, got));
				free(buf);
			} else if (t[0] == 'r') {
				uint8_t *buf = malloc(n ? n : 1); size_t got = 0; int r = ep_recv(e, buf, n, &got);
				if (r != 1) printf("rERR"); else if (got > n) printf("rBADLEN"); else printf("r%zu:%08x", got, fnv(buf, got));
				free(buf);
			} else printf("?");
			{	/* the public sequence numbers of both connections after every step (lockstep observed) */
				unsigned long long q[4]; const uint8_t *p4[4] = { S->c.conn->client_seq_num, S->c.conn->server_seq_num, S->s.conn->client_seq_num, S->s.conn->server_seq_num }; int a, b2;
				for (a = 0; a < 4; a++) { q[a] = 0; for (b2 = 0; b2 < 8; b2++) q[a] = (q[a] << 8) | p4[a][b2]; }
				printf("@%llu.%llu.%llu.%llu", q[0], q[1], q[2], q[3]);
			}
		}
		{ /* records that crossed the proxy after the handshake */
			int d, i; struct timespec ts = { 0, 20000000 }; nanosleep(&ts, NULL);
			printf(" wire=");
			for (d = 0; d < 2; d++) {
				int start = d == 0 ? hs_c2s : hs_s2c; if (d) printf("/");
				if (S->px.nrec[d] == start) printf("-");
				for (i = start; i < S->px.nrec[d] && i < PMAXREC; i++) printf("%s%u:%zu", i > start ? "+" : "", S->px.rectype[d][i], S->px.reclen[d][i]);
			}
		}
		printf(" xshort=%lu", short_send_count); short_send_mode = 0;
		printf(" seq2="); puthex(S->c.conn->client_seq_num, 8); printf(":"); puthex(S->c.conn->server_seq_num, 8);
		printf("/"); puthex(S->s.conn->client_seq_num, 8); printf(":"); puthex(S->s.conn->server_seq_num, 8);
	}
}

static int setup_pair(session_t *S, pki_t *k, int protocol, int auth, int nca, uint64_t seed, TLS_CONNECT *cconn, TLS_CONNECT *sconn) {
	uint8_t *schain = NULL, *cchain = NULL, *anch = NULL; size_t schainlen = 0, cchainlen = 0, anchlen = 0; int r;
	chain_build(&schain, &schainlen, k, &k->ssign, protocol == TLS_protocol_tlcp ? &k->senc : NULL);
	chain_build(&cchain, &cchainlen, k, &k->csign, NULL);
	/* trust stores with nca certificates (real root somewhere among decoys); nca = 0: five certificates, exactly 2048 bytes */
	if (nca == 1) { anch = malloc(k->root.len); memcpy(anch, k->root.der, k->root.len); anchlen = k->root.len; }
	else if (nca == 0) { if (bundle_build(&anch, &anchlen, &k->root, 5, (int)(seed % 4), TLS_MAX_CERTIFICATES_SIZE) != 1) return -1; }
	else if (bundle_build(&anch, &anchlen, &k->root, nca, (int)(seed % (uint64_t)nca), 0) != 1) return -1;
	{	/* auth: 0 = none; 1 = server requests, client has a certificate; 2 = client has a certificate, server does
		 * not ask; 3 = server requests, client has none */
		int srv_req = auth == 1 || auth == 3, cli_has = auth == 1 || auth == 2;
		r = (ep_setup_on(&S->s, sconn, protocol, 0, schain, schainlen, &k->ssign.key, protocol == TLS_protocol_tlcp ? &k->senc.key : NULL,
				srv_req ? anch : NULL, srv_req ? anchlen : 0) == 1
			&& ep_setup_on(&S->c, cconn, protocol, 1, cli_has ? cchain : NULL, cli_has ? cchainlen : 0, cli_has ? &k->csign.key : NULL, NULL,
				anch, anchlen) == 1) ? 1 : -1;
	}
	free(schain); free(cchain); free(anch);
	S->c.seed = seed * 2 + 1; S->s.seed = seed * 2 + 2;
	return r;
}

static void do_hs(size_t nw, char **w) {
	int protocol = proto_of(w[1]), auth = atoi(w[2]), depth = atoi(w[3]), split = atoi(w[5]);
	int nca = nw >= 8 ? atoi(w[7]) : 1;
	uint64_t seed = strtoull(w[4], NULL, 10);
	pki_t *k; session_t *S;
	if (protocol < 0 || !((depth >= 1 && depth <= 3) || depth == 9)) { printf("ERR setup"); return; }
	k = depth == 9 ? get_pki_exact(protocol == TLS_protocol_tlcp) : get_pki(depth);      /* 9: presented chains of exactly 2048 bytes */
	if (!k) { printf("ERR pki"); return; }
	ent_seed(0xCA0000 + (uint64_t)nca, -1);
	S = calloc(1, sizeof(*S));
	if (setup_pair(S, k, protocol, auth, nca, seed, NULL, NULL) != 1) { printf("ERR setup"); free(S); return; }
	/* split 3 / 4: both endpoints see short writes (stale errno EPIPE / EAGAIN), the proxy also splits what it forwards */
	if (split >= 3) { S->c.short_send = S->s.short_send = split - 2; split = 1; }
	S->px.split = split; S->px.split_seed = seed;
	session_run(S, 8000, 1);
	printf("chainlen=%zu/%zu shortsends=%lu/%lu ", S->s.ctx.certslen, S->c.ctx.certslen, S->c.short_sends, S->s.short_sends);
	report_and_transfer(S, protocol, seed, w[6]);
	session_close(S); free(S);
}

/* two consecutive sessions on the SAME TLS_CONNECT objects (tls_init again, no tls_cleanup in between, as an
 * accept loop does).  Session 1 ends in <state>; what is printed is session 2, which must be
 * indistinguishable from a session on fresh objects.
 *   hs2 <proto> <auth> <seed> <partial|rejected|closed|hsfail> <script> */
static void do_hs2(char **w) {
	int protocol = proto_of(w[1]), auth = atoi(w[2]); uint64_t seed = strtoull(w[3], NULL, 10); const char *state = w[4];
	pki_t *k; session_t *S1, *S2; TLS_CONNECT *cc, *sc; uint8_t buf[256]; size_t n = 0; int r1 = 0, r2 = 0;
	if (protocol < 0 || !(k = get_pki(1))) { printf("ERR setup"); return; }
	S1 = calloc(1, sizeof(*S1));
	if (setup_pair(S1, k, protocol, auth, 1, seed + 500, NULL, NULL) != 1) { printf("ERR setup"); free(S1); return; }
	if (!strcmp(state, "hsfail")) { S1->px.fault.kind = F_FLIP; S1->px.fault.dir = 1; S1->px.fault.idx = 1; S1->px.fault.off = 9; S1->px.fault.bit = 3; }
	session_run(S1, 3000, 1);
	ent_seed(seed + 99, -1);
	memset(buf, 0x5a, sizeof buf);
	if (S1->c.hs_ret == 1 && S1->s.hs_ret == 1) {
		if (!strcmp(state, "partial") || !strcmp(state, "rejected")) {
			if (!strcmp(state, "rejected")) { S1->px.fault.kind = F_FLIP; S1->px.fault.dir = 0; S1->px.fault.idx = S1->px.nrec[0]; S1->px.fault.off = 30; S1->px.fault.bit = 1; S1->px.fault.applied = 0; }
			r1 = ep_send(&S1->c, buf, 100, &n); r2 = ep_recv(&S1->s, buf, 7, &n);       /* 93 bytes stay buffered at the server (or the record is rejected) */
			memset(buf, 0x6b, sizeof buf);
			ep_send(&S1->s, buf, 60, &n); ep_recv(&S1->c, buf, 5, &n);                  /* 55 bytes stay buffered at the client */
		} else if (!strcmp(state, "closed")) {
			ep_send(&S1->s, buf, 10, &n);
			if (protocol != TLS_protocol_tls13) { r1 = tls_shutdown(S1->c.conn); r2 = ep_recv(&S1->s, buf, 50, &n); }
			else { r1 = ep_recv(&S1->c, buf, 3, &n); }
		}
	}
	(void)r1; (void)r2;
	cc = S1->c.conn; sc = S1->s.conn; S1->c.conn = NULL; S1->s.conn = NULL;
	{ int c1 = S1->c.hs_ret, s1 = S1->s.hs_ret; session_close(S1); free(S1); printf("first=%d/%d ", c1, s1); }
	S2 = calloc(1, sizeof(*S2));
	if (setup_pair(S2, k, protocol, auth, 1, seed, cc, sc) != 1) { printf("ERR setup2"); free(S2); return; }
	session_run(S2, 8000, 1);
	report_and_transfer(S2, protocol, seed, w[5]);
	session_close(S2); free(S2);
}

int tls13_hkdf_extract(const DIGEST *digest, const uint8_t salt[32], const uint8_t in[32], uint8_t out[32]);
int tls13_hkdf_expand_label(const DIGEST *digest, const uint8_t secret[32], const char *label,
	const uint8_t *context, size_t context_len, size_t outlen, uint8_t *out);
int tls13_compute_verify_data(const uint8_t *handshake_traffic_secret, const DIGEST_CTX *dgst_ctx,
	uint8_t *verify_data, size_t *verify_data_len);

/* ---- credential loaders from files: tls_ctx_set_ca_certificates, tls_ctx_set_certificate_and_key,
 * tls_ctx_set_tlcp_server_certificate_and_keys.  The files are written with the library's own PEM writers from
 * the in-memory PKI every other session uses; the loaded context must hold exactly those bytes and keys, wrong
 * passwords / keys not matching the certificate must be refused, and no call may leave a descriptor open.
 *   load <tlcp|tls12|tls13> <seed> <rounds> */
#include <dirent.h>
static int count_fds(void) { DIR *d = opendir("/proc/self/fd"); struct dirent *e; int n = 0; if (!d) return -1; while ((e = readdir(d))) if (e->d_name[0] != '.') n++; closedir(d); return n - 1; }
static int write_key(const char *path, const SM2_KEY *k, const char *pass) { FILE *f = fopen(path, "w"); int r; if (!f) return -1; r = sm2_private_key_info_encrypt_to_pem(k, pass, f); fclose(f); return r; }
static int write_certs(const char *path, const uint8_t *d, size_t n) { FILE *f = fopen(path, "w"); int r; if (!f) return -1; r = x509_certs_to_pem(d, n, f); fclose(f); return r; }
static void do_load(char **w) {
	int protocol = proto_of(w[1]), rounds = atoi(w[3]), i, tlcp = protocol == TLS_protocol_tlcp; uint64_t seed = strtoull(w[2], NULL, 10);
	pki_t *k = get_pki(1); char dir[64] = "/tmp/c08loadXXXXXX", f_chain[96], f_sk[96], f_ek[96], f_ca[96], f_ck[96], f_cchain[96];
	uint8_t *schain = NULL, *cchain = NULL; size_t schainlen = 0, cchainlen = 0; int fds0, fds1, ok = 1, same = 1, refused = 1;
	if (protocol < 0 || !k || rounds < 1) { printf("ERR setup"); return; }
	ent_seed(seed, -1);
	if (!mkdtemp(dir)) { printf("ERR tmpdir"); return; }
	snprintf(f_chain, sizeof f_chain, "%s/chain.pem", dir); snprintf(f_sk, sizeof f_sk, "%s/sign.pem", dir); snprintf(f_ek, sizeof f_ek, "%s/enc.pem", dir);
	snprintf(f_ca, sizeof f_ca, "%s/ca.pem", dir); snprintf(f_ck, sizeof f_ck, "%s/ckey.pem", dir); snprintf(f_cchain, sizeof f_cchain, "%s/cchain.pem", dir);
	chain_build(&schain, &schainlen, k, &k->ssign, tlcp ? &k->senc : NULL);
	chain_build(&cchain, &cchainlen, k, &k->csign, NULL);
	if (write_certs(f_chain, schain, schainlen) != 1 || write_certs(f_cchain, cchain, cchainlen) != 1 || write_certs(f_ca, k->root.der, k->root.len) != 1
		|| write_key(f_sk, &k->ssign.key, "signpass") != 1 || write_key(f_ek, &k->senc.key, "encpass") != 1 || write_key(f_ck, &k->csign.key, "clientpass") != 1) { printf("ERR write"); return; }
	fds0 = count_fds();
	for (i = 0; i < rounds; i++) {
		TLS_CTX sctx, cctx, bad; int r;
		/* server side */
		if (tls_ctx_init(&sctx, protocol, 0) != 1) { ok = 0; break; }
		r = tlcp ? tls_ctx_set_tlcp_server_certificate_and_keys(&sctx, f_chain, f_sk, "signpass", f_ek, "encpass")
		         : tls_ctx_set_certificate_and_key(&sctx, f_chain, f_sk, "signpass");
		if (r != 1 || tls_ctx_set_ca_certificates(&sctx, f_ca, TLS_DEFAULT_VERIFY_DEPTH) != 1) ok = 0;
		else {
			if (sctx.certslen != schainlen || memcmp(sctx.certs, schain, schainlen)) same = 0;
			if (memcmp(&sctx.signkey.private_key, &k->ssign.key.private_key, sizeof(sm2_z256_t)) || sm2_public_key_equ(&sctx.signkey, &k->ssign.key) != 1) same = 0;
			if (tlcp && (memcmp(&sctx.kenckey.private_key, &k->senc.key.private_key, sizeof(sm2_z256_t)) || sm2_public_key_equ(&sctx.kenckey, &k->senc.key) != 1)) same = 0;
			if (sctx.cacertslen != k->root.len || memcmp(sctx.cacerts, k->root.der, k->root.len)) same = 0;
		}
		tls_ctx_cleanup(&sctx);
		/* client side with a certificate */
		if (tls_ctx_init(&cctx, protocol, 1) != 1) { ok = 0; break; }
		if (tls_ctx_set_certificate_and_key(&cctx, f_cchain, f_ck, "clientpass") != 1 || tls_ctx_set_ca_certificates(&cctx, f_ca, TLS_DEFAULT_VERIFY_DEPTH) != 1) ok = 0;
		else if (cctx.certslen != cchainlen || memcmp(cctx.certs, cchain, cchainlen) || memcmp(&cctx.signkey.private_key, &k->csign.key.private_key, sizeof(sm2_z256_t))) same = 0;
		tls_ctx_cleanup(&cctx);
		/* refusals: wrong password, key not matching the certificate, missing file */
		if (tls_ctx_init(&bad, protocol, 0) != 1) { ok = 0; break; }
		if (tlcp) {
			if (tls_ctx_set_tlcp_server_certificate_and_keys(&bad, f_chain, f_sk, "wrong", f_ek, "encpass") == 1) refused = 0;
			if (tls_ctx_set_tlcp_server_certificate_and_keys(&bad, f_chain, f_sk, "signpass", f_ek, "wrong") == 1) refused = 0;
			if (tls_ctx_set_tlcp_server_certificate_and_keys(&bad, f_chain, f_ek, "encpass", f_sk, "signpass") == 1) refused = 0;
			if (tls_ctx_set_tlcp_server_certificate_and_keys(&bad, f_chain, f_sk, "signpass", "/nonexistent/x.pem", "encpass") == 1) refused = 0;
		}
		if (tls_ctx_set_certificate_and_key(&bad, f_chain, f_sk, "wrong") == 1) refused = 0;
		if (tls_ctx_set_certificate_and_key(&bad, f_chain, f_ck, "clientpass") == 1) refused = 0;
		if (tls_ctx_set_certificate_and_key(&bad, "/nonexistent/c.pem", f_sk, "signpass") == 1) refused = 0;
		if (tls_ctx_set_ca_certificates(&bad, "/nonexistent/ca.pem", TLS_DEFAULT_VERIFY_DEPTH) == 1) refused = 0;
		tls_ctx_cleanup(&bad);
	}
	fds1 = count_fds();
	printf("loaded=%d same=%d refused=%d fds=%d/%d", ok, same, refused, fds0, fds1);
	unlink(f_chain); unlink(f_sk); unlink(f_ek); unlink(f_ca); unlink(f_ck); unlink(f_cchain); rmdir(dir);
	free(schain); free(cchain);
}

/* ---- tls_record_recv on a socket whose peer delivers a record in pieces and then closes: the call returns (1 for a
 * complete record, 0 / -1 otherwise; -EAGAIN only before the first byte) within a bounded time, blocking or not.
 *   rrclose <nonblock 0|1> <bytes hex> <first> <second>   the writer sends <first> bytes, pauses, <second> more, pauses, closes */
#include <setjmp.h>
#include <signal.h>
static sigjmp_buf rr_jmp;
static void rr_alarm(int sig) { (void)sig; siglongjmp(rr_jmp, 1); }
typedef struct { int fd; const uint8_t *p; size_t a, b; } rr_writer_t;
static void *rr_writer(void *arg) {
	rr_writer_t *w = arg; struct timespec ts = { 0, 40000000 };
	if (w->a) { ssize_t r = write(w->fd, w->p, w->a); (void)r; }
	nanosleep(&ts, NULL);
	if (w->b) { ssize_t r = write(w->fd, w->p + w->a, w->b); (void)r; }
	nanosleep(&ts, NULL);
	close(w->fd);
	return NULL;
}
static void do_rrclose(char **w) {
	int nb = atoi(w[1]), sv[2], r = -99, iters = 0; buf_t data = hex2buf(w[2]); rr_writer_t wr; pthread_t th;
	uint8_t *rec = malloc(TLS_MAX_RECORD_SIZE); size_t len = (size_t)-1;
	wr.a = strtoul(w[3], NULL, 10); wr.b = strtoul(w[4], NULL, 10);
	if (wr.a + wr.b > data.n || socketpair(AF_UNIX, SOCK_STREAM, 0, sv) != 0) { printf("ERR setup"); return; }
	if (nb) fcntl(sv[0], F_SETFL, fcntl(sv[0], F_GETFL) | O_NONBLOCK);
	wr.fd = sv[1]; wr.p = data.p;
	pthread_create(&th, NULL, rr_writer, &wr);
	signal(SIGALRM, rr_alarm);
	if (sigsetjmp(rr_jmp, 1)) { printf("HANG after %d call(s)\n", iters); fflush(stdout); _exit(0); }
	alarm(3);
	while (iters++ < 400) {
		struct pollfd pf = { sv[0], POLLIN, 0 };
		errno = 0;
		r = tls_record_recv(rec, &len, sv[0]);
		if (r != -EAGAIN) break;
		poll(&pf, 1, 20);
	}
	alarm(0);
	pthread_join(th, NULL);
	printf("ret=%d len=%zu calls=%d", r == -EAGAIN ? -11 : r, r == 1 ? len : 0, iters);
	close(sv[0]); free(rec); free(data.p);
}

static void handle(size_t nw, char **w) {
	if (!strcmp(w[0], "hs") && (nw == 7 || nw == 8)) do_hs(nw, w);
	else if (!strcmp(w[0], "hs2") && nw == 6) do_hs2(w);
	else if (!strcmp(w[0], "load") && nw == 4) do_load(w);
	else if (!strcmp(w[0], "rrclose") && nw == 5) do_rrclose(w);
	else if (!strcmp(w[0], "sigcheck") && nw == 5) {
		/* sm2_verify called directly: does <sig> verify over <content> under the public key of <cert> with identity <id>? */
		buf_t id = hex2buf(w[1]), cert = hex2buf(w[2]), content = hex2buf(w[3]), sg = hex2buf(w[4]);
		SM2_KEY pub; SM2_VERIFY_CTX vc; int r = -1;
		if (x509_cert_get_subject_public_key(cert.p, cert.n, &pub) == 1
			&& sm2_verify_init(&vc, &pub, (char *)id.p, id.n) == 1
			&& sm2_verify_update(&vc, content.p, content.n) == 1) r = sm2_verify_finish(&vc, sg.p, sg.n);
		printf("%d", r == 1 ? 1 : 0);
		free(id.p); free(cert.p); free(content.p); free(sg.p);
	}
	else if (!strcmp(w[0], "prf") && nw == 6) {
		buf_t secret = hex2buf(w[1]), label = hex2buf(w[2]), seed = hex2buf(w[3]), more = hex2buf(w[4]);
		size_t outlen = strtoul(w[5], NULL, 10); uint8_t *out = malloc(outlen ? outlen : 1);
		char *lab = malloc(label.n + 1); memcpy(lab, label.p, label.n); lab[label.n] = 0;
		if (tls_prf(secret.p, secret.n, lab, seed.p, seed.n, more.n ? more.p : NULL, more.n, outlen, out) == 1) puthex(out, outlen); else printf("ERR");
		free(out); free(lab); free(secret.p); free(label.p); free(seed.p); free(more.p);
	}
	else if (!strcmp(w[0], "explabel") && nw == 5) {
		buf_t secret = hex2buf(w[1]), label = hex2buf(w[2]), ctx = hex2buf(w[3]);
		size_t outlen = strtoul(w[4], NULL, 10); uint8_t *out = malloc(outlen ? outlen : 1);
		char *lab = malloc(label.n + 1); memcpy(lab, label.p, label.n); lab[label.n] = 0;
		if (secret.n == 32 && tls13_hkdf_expand_label(DIGEST_sm3(), secret.p, lab, ctx.n ? ctx.p : NULL, ctx.n, outlen, out) == 1) puthex(out, outlen); else printf("ERR");
		free(out); free(lab); free(secret.p); free(label.p); free(ctx.p);
	}
	else if (!strcmp(w[0], "extract13") && nw == 3) {
		buf_t salt = hex2buf(w[1]), ikm = hex2buf(w[2]); uint8_t *out = malloc(32);
		if (salt.n == 32 && ikm.n == 32 && tls13_hkdf_extract(DIGEST_sm3(), salt.p, ikm.p, out) == 1) puthex(out, 32); else printf("ERR");
		free(out); free(salt.p); free(ikm.p);
	}
	else if (!strcmp(w[0], "vd13") && nw == 3) {
		buf_t secret = hex2buf(w[1]), tr = hex2buf(w[2]); uint8_t *out = malloc(64); size_t ol = 0; DIGEST_CTX d;
		digest_init(&d, DIGEST_sm3()); if (tr.n) digest_update(&d, tr.p, tr.n);
		if (secret.n == 32 && tls13_compute_verify_data(secret.p, &d, out, &ol) == 1) puthex(out, ol); else printf("ERR");
		free(out); free(secret.p); free(tr.p);
	}
	else printf("ERR bad-op");
}

int main(void) { signal(SIGPIPE, SIG_IGN); quiet_stderr(); main_loop(handle); return 0; }
