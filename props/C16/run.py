"""C16 — CMS round trips for every signer/recipient set, tamper rejection, zero-signer messages."""
import json, os, re
from vlib import core
from vlib.core import hexs


def tlv(t, c):
    n = len(c)
    if n < 128:
        l = bytes([n])
    else:
        b = n.to_bytes((n.bit_length() + 7) // 8, "big"); l = bytes([0x80 + len(b)]) + b
    return bytes([t]) + l + c


def gen(ctx):
    r = ctx.rng
    thorough = ctx.tier == "thorough"
    cases, sweeps = [], []
    add = lambda line, cell: cases.append((line, cell))
    sizes = [0, 1, 15, 16, 17, 31, 32, 33, 100, 1000] + ([4096, 65535, 65536] if thorough else [65536])

    def sizeclass(n):
        return "0" if n == 0 else ("%16=0" if n % 16 == 0 else ("%16=15" if n % 16 == 15 else "other"))

    # --- signed data: 1..4 signers (distinct / repeated / permuted), every content type, sizes
    signer_sets = ["1", "2", "1.2", "2.1", "1.1", "1.2.3", "3.2.1", "3.3.3", "1.2.3.4", "4.3.2.1", "5.6", "-"]
    for ss in signer_sets:
        n = 0 if ss == "-" else len(ss.split("."))
        distinct = len(set(ss.split("."))) if n else 0
        for ct in ("data", "signed", "x"):
            for size in (sizes if ss in ("1", "1.2") and ct == "data" else [33]):
                body = r.bytes(size)
                content = body if ct == "data" else tlv(0x30, tlv(0x04, body))
                add("sign %s %s %s" % (ss, ct, hexs(content)), "sign:%dsigners:%ddistinct:%s:size%s" % (n, distinct, ct, sizeclass(size)))
    for variant in ("empty", "absent", "junk"):
        for size in (0, 1, 16, 100):
            add("sign0 %s %s" % (variant, hexs(r.bytes(size))), "sign0:%s:size%s" % (variant, sizeclass(size)))
    # certificates 7, 8, 9: same issuer, serial numbers 01 / 01 00 / 01 00 00 (byte-prefixes of one another), both orders
    for ss in ("7.8", "8.7", "7.8.9", "9.8.7", "8.9.7", "7.9", "9.7", "8", "9.1.7"):
        add("sign %s data %s" % (ss, hexs(r.bytes(20))), "sign:prefix-serials:%s" % ("longer-first" if ss[0] > ss[-1] else "shorter-first"))
        members = [int(x) for x in ss.split(".")]
        for op in members:
            add("env %s %d pub %s" % (ss, op, hexs(r.bytes(20))), "env:prefix-serials:opener-%s" % ("shortest" if op == min(members) else ("longest" if op == max(members) else "middle")))
        for k in (7, 8, 9):
            if k not in members:
                add("env %s %d pub %s" % (ss, k, hexs(r.bytes(20))), "env:prefix-serials:outsider")
        add("signenv %s %s %d pub 1 %s" % (ss, ss, members[0], hexs(r.bytes(20))), "signenv:prefix-serials")
        add("signenv %s %s %d pub 1 %s" % (ss, ss, members[-1], hexs(r.bytes(20))), "signenv:prefix-serials")
    # --- enveloped data: 1..5 recipients, every member opens, every key source; non-members
    rsets = ["1", "1.2", "2.1", "1.2.3", "1.2.3.4", "4.1.3.2", "1.2.3.4.5", "2.2", "-"]
    for rs in rsets:
        members = [] if rs == "-" else [int(x) for x in rs.split(".")]
        for src in ("gen", "der", "pem", "pub"):
            for op in sorted(set(members)) or [1]:
                add("env %s %d %s %s" % (rs, op, src, hexs(r.bytes(r.choice([1, 16, 33])))), "env:%drcpts:member:%s" % (len(members), src))
            outsider = next(k for k in range(1, 7) if k not in members)
            add("env %s %d %s %s" % (rs, outsider, src, hexs(r.bytes(20))), "env:%drcpts:outsider:%s" % (len(members), src))
    for size in sizes:
        add("env 1.2 2 pub %s" % hexs(r.bytes(size)), "env:size%s" % sizeclass(size))
        add("enc 0 %s" % hexs(r.bytes(size)), "enc:size%s" % sizeclass(size))
        add("enc 1 %s" % hexs(r.bytes(size)), "enc:wrongkey:size%s" % sizeclass(size))
    # buffer reuse: every party's certificate is loaded into one shared buffer (same address, same length) before its call,
    # consecutive messages of equal length share their buffer
    for rs, ops in (("2.3", "2.3.2.3"), ("2.3", "3.2.4.3"), ("1.2.3.4", "4.3.2.1.5.1"), ("2", "2.3.2"), ("7.8", "7.8.7"), ("5.6", "6.5.6.5")):
        add("openseq env %s %s %s" % (rs, ops, hexs(r.bytes(20))), "openseq:env")
        add("openseq signenv %s %s %s" % (rs, ops, hexs(r.bytes(20))), "openseq:signenv")
    for sa, sb in (("1", "2"), ("2", "1"), ("1.2", "3.4"), ("3", "3"), ("1", "2.3")):
        for la, lb in ((20, 20), (20, 21)):
            add("signseq %s %s %s %s" % (sa, sb, hexs(r.bytes(la)), hexs(r.bytes(lb))), "signseq:%s-%s:%s" % (len(sa.split(".")), len(sb.split(".")), "same-length" if la == lb else "other-length"))
    # low-level writers must reproduce what the high-level interfaces wrote; PEM; data / keyAgreementInfo content
    add("cmsrt addrcpt -", "cmsrt:addrcpt")
    for kind in ("pem", "setdata", "kai", "signed", "env", "enc", "signenv"):
        for size in (0, 5, 200):
            add("cmsrt %s %s" % (kind, hexs(r.bytes(size))), "cmsrt:%s" % kind)
    # the DER layer: every low-level writer on (pointer, length) arguments, one field varied at a time from a valid
    # base (NULL "-", non-NULL and empty "e", short / long values, other versions, numbers outside the tables), then random mixes
    def fv(n):
        return hexs(r.bytes(n))
    name = hexs(tlv(0x31, tlv(0x30, tlv(0x06, b"\x55\x04\x03") + tlv(0x0c, b"CA"))))
    serials = ["-", "e", "01", "00", "0005", "80", "00ff", "000000", fv(20), "ff" * 20]
    opt = ["-", "e", fv(3), fv(130)]
    sets = ["-", "e", hexs(tlv(0x30, r.bytes(40))), hexs(tlv(0x30, r.bytes(200)))]
    kinds = {
        "ias": [[name, "-", "e", fv(130)], serials],
        "si": [["1", "0", "2"], [name, "-", "e"], serials, ["sm3", "undef", "bad"], opt, ["sm2sm3", "undef", "bad", "sm3"], [fv(70), "-", "e", fv(128)], opt],
        "ri": [["1", "0", "2"], [name, "-", "e"], serials, ["sm2enc", "undef", "bad", "sm3"], [fv(110), "-", "e", fv(127), fv(128)]],
        "da": [["sm3", "-", "sm3.sm3", "sm3.sm3.sm3.sm3", "sm3.bad", "bad", "undef", "sm3.sm2sm3"]],
        "ci": [["1", "2", "3", "4", "5", "6", "9"], [fv(20), "-", "e", fv(0x7b), fv(0x7c), fv(300)]],
        "sd": [["1", "0", "2"], ["sm3", "-", "sm3.sm3", "bad"], ["1", "2", "9"], [fv(20), "-", "e", fv(200)], ["-"] + sets[1:], sets, [sets[2], "-", "e", sets[3]]],
        "ed": [["1", "0", "2"], [sets[2], "-", "e", sets[3]], ["1", "2", "9"], ["sm4cbc", "undef", "bad"], [fv(16), "-", "e", fv(15), fv(17)], [fv(32), "-", "e", fv(200)], ["-", "e", fv(5)], ["-", "e", fv(5)]],
        "sed": [["1", "0", "2"], [sets[2], "-", "e", sets[3]], ["sm3", "-", "sm3.sm3", "bad"], ["1", "2", "9"], ["sm4cbc", "bad"], [fv(16), "-", fv(15)], [fv(32), "-", "e", fv(200)], ["-", "e", fv(5)], ["-", "e", fv(5)],
                ["-"] + sets[1:], sets, [sets[2], "-", "e", sets[3]]],
    }
    for kind, dims in sorted(kinds.items()):
        base = [d[0] for d in dims]
        add("cmsenc %s %s" % (kind, " ".join(base)), "cmsenc:%s:base" % kind)
        for i, d in enumerate(dims):
            for v in d[1:]:
                add("cmsenc %s %s" % (kind, " ".join(base[:i] + [v] + base[i + 1:])), "cmsenc:%s:one-field-varied" % kind)
        for _ in range(40 if thorough else 12):
            add("cmsenc %s %s" % (kind, " ".join(r.choice(d) for d in dims)), "cmsenc:%s:mixed" % kind)
    # element lengths around 127/128 and 255/256 inside SignerInfo / RecipientInfo / SignedData
    for n in list(range(90, 132, 3)) + list(range(225, 262, 3)):
        add("cmsenc si 1 %s 01 sm3 - sm2sm3 %s -" % (name, fv(n)), "cmsenc:si:element-len")
        add("cmsenc ri 1 %s 01 sm2enc %s" % (name, fv(n)), "cmsenc:ri:element-len")
        add("cmsenc sd 1 sm3 1 %s - - %s" % (fv(n), sets[2]), "cmsenc:sd:element-len")
    # 1..4 threads producing and opening messages at the same time (own parties, content and buffers per thread)
    for kind in ("sign", "env"):
        for n in (1, 2, 3, 4):
            add("threads %s %d %d" % (kind, n, 400 if thorough else 120), "threads:%s:%d" % (kind, n))
    # octets after the signature value inside a SignerInfo's encryptedDigest (0 = control)
    for n in (0, 1, 2, 8, 72):
        for fill in ((0,) if n == 0 else (0, 0x30, 0xff)):
            add("sigtrail %d %d %s" % (n, fill, hexs(r.bytes(24))), "sigtrail:%s" % ("control" if n == 0 else "octets-after-signature"))
    # the text renderer on every kind of message; the content-type table both ways
    for kind in ("data", "signed", "env", "enc", "signenv", "kai", "names"):
        add("cmsprint %s" % kind, "cmsprint:%s" % kind)
    # the same call frame opens for a recipient, then for an outsider (no key may survive from the first call)
    for rs, mem, out in (("1", 1, 2), ("1.2", 2, 3), ("2.3.4", 3, 1), ("7.8", 7, 9), ("8.7", 7, 9)):
        add("envseq %s %d %d %s" % (rs, mem, out, hexs(r.bytes(20))), "envseq:%drcpts" % len(rs.split(".")))
        add("signenvseq %s %d %d %s" % (rs, mem, out, hexs(r.bytes(20))), "signenvseq:%drcpts" % len(rs.split(".")))
        for size in (0, 20, 100):
            add("lowseq env %s %d %d %s" % (rs, mem, out, hexs(r.bytes(size))), "lowseq:env:%drcpts" % len(rs.split(".")))
            add("lowseq signenv %s %d %d %s" % (rs, mem, out, hexs(r.bytes(size))), "lowseq:signenv:%drcpts" % len(rs.split(".")))
    # content sizes that make some DER element of the message exactly 127/128, 255/256, 65535/65536 bytes long
    for size in list(range(60, 140)) + list(range(200, 262)) + list(range(65470, 65545)):
        cls = "~128" if size < 150 else ("~256" if size < 300 else "~65536")
        body = r.bytes(size)
        add("sign 1 data %s" % hexs(body), "sign:element-len:%s" % cls)
        add("enc 0 %s" % hexs(body), "enc:element-len:%s" % cls)
        if size < 300 or size % 2 == 0 or thorough:
            add("env 1.2 2 pub %s" % hexs(body), "env:element-len:%s" % cls)
            add("signenv 1 2 2 pub 1 %s" % hexs(body), "signenv:element-len:%s" % cls)
    # --- signed and enveloped
    for ss in ("1", "1.2", "2.1", "1.2.3", "-"):
        for rs in ("2", "2.3", "3.2", "2.3.4", "1.2.3.4", "-"):
            members = [] if rs == "-" else [int(x) for x in rs.split(".")]
            for crl in (0, 1):
                for src in ("pub", "gen", "der", "pem"):
                    if src != "pub" and (crl == 0 or ss != "1"):
                        continue
                    op = members[-1] if members else 1
                    ns = 0 if ss == "-" else len(ss.split("."))
                    add("signenv %s %s %d %s %d %s" % (ss, rs, op, src, crl, hexs(r.bytes(r.choice([0, 5, 16, 40])))),
                        "signenv:%dsigners:%drcpts:crl%d:%s" % (ns, len(members), crl, src))
            if members:
                outsider = next(k for k in range(1, 7) if k not in members)
                add("signenv %s %s %d pub 1 %s" % (ss, rs, outsider, hexs(r.bytes(9))), "signenv:outsider")
    for size in sizes:
        add("signenv 1 2 2 pub 1 %s" % hexs(r.bytes(size)), "signenv:size%s" % sizeclass(size))
    # --- complete single-bit tamper sweeps (every byte in thorough, every byte via 3 offsets in quick but on one message each)
    body = r.bytes(50)
    for kind in ("sign", "sign2", "env", "enc", "signenv"):
        for off in range(3):
            sweeps.append(("tamper %s 3 %d %s" % (kind, off, hexs(body)), "tamper:%s:offset%d" % (kind, off)))
    # multi-party messages of every kind: every SignerInfo's signature and identifier, the opener's RecipientInfo, for every opener
    for spec in ("sign:1.2.3", "sign:3.1", "env:2.3.4:2", "env:2.3.4:3", "env:2.3.4:4", "signenv:1.2.3:2.3:2", "signenv:1.2.3:2.3:3", "signenv:2.1:3.4.5:4"):
        for off in range(3):
            sweeps.append(("tamper %s 3 %d %s" % (spec, off, hexs(body)), "tamper:%s:offset%d" % (spec, off)))
    # content shorter than one cipher block: IV bits meet the padding bytes of the only block
    for off in range(3):
        sweeps.append(("tamper signenv:1:2.3:2 3 %d %s" % (off, hexs(body[:8])), "tamper:signenv-short:offset%d" % off))
    if thorough:
        for kind in ("sign", "env", "enc", "signenv"):
            for size in (0, 16, 17):
                sweeps.append(("tamper %s 1 0 %s" % (kind, hexs(r.bytes(size))), "tamper:%s:size%d" % (kind, size)))
    return cases, sweeps


# a message of each kind with one DER element removed (lengths recomputed) must not open, unless the element is
# optional in the format and irrelevant to this opener: the other recipient's RecipientInfo, the CRL set
OMIT_ALLOWED = {("env", "1.0.1", 1), ("signenv", "1.0", 5), ("signenv", "1.0.1", 1)}
OMIT_PATHS = ["-", "1", "1.0", "1.0.1", "1.0.1.0", "1.0.1.1", "1.0.2", "1.0.2.0", "1.0.3", "1.0.3.0", "1.0.4", "1.0.4.0", "1.0.6", "1.0.6.0"]


def gen_omits(ctx):
    body = ctx.rng.bytes(21)
    return [("omit %s %s %d %s" % (kind, p, k, hexs(body)), "omit:%s:%s" % (kind, p))
            for kind in ("sign", "env", "enc", "signenv") for p in OMIT_PATHS for k in range(8)]


def compare_omits(ctx, cases, impl, variant):
    for (line, cell), a in zip(cases, impl):
        ctx.cov["evaluations"] += 1
        ctx.count("op:omit")
        w = line.split()
        if a in ("NOCHILD", "ERR surgery"):
            continue
        if a == "REFUSED":
            ctx.cell(cell + ":refused"); continue
        other_rcpt = w[1] in ("env", "signenv") and w[2].startswith("1.0.1.1")     # inside the RecipientInfo of the other recipient, which comes after the opener's
        if a == "OPENED-SAME-CONTENT" and ((w[1], w[2], int(w[3])) in OMIT_ALLOWED or other_rcpt):
            ctx.cell(cell + ":optional-element"); continue
        ctx.violation("omit:%s:%s:%s-accepted" % (w[1], w[2], w[3]),
                      "a %s message with DER element %s of node %s removed still opens (%s): a mandatory part is treated as optional [%s]" % (w[1], w[3], w[2], a, variant),
                      {"kind": "failing-input", "op": line, "impl": a, "expected": "REFUSED", "variant": variant}, True)


def memcheck_pass(ctx):
    """refusal paths under valgrind memcheck on the uninstrumented build: a verdict computed from an uninitialised
    local (stale key, stale length, stale status) is reported even when the garbage happens to give the right answer"""
    import shutil, subprocess, threading
    if not shutil.which("valgrind"):
        ctx.notes.append("valgrind not available: memcheck pass skipped"); return
    exe, log = core.build_harness("C16", "fast")
    if exe is None:
        ctx.notes.append("fast harness does not build: memcheck pass skipped"); return
    body = hexs(ctx.rng.bytes(21))
    ops = ["env 1.2 3 pub " + body, "env 1 2 pub " + body, "env 7.8 9 pub " + body, "envseq 1.2 2 3 " + body, "signenvseq 2.3 3 1 " + body,
           "lowseq env 1.2 2 3 " + body, "lowseq signenv 1.2 2 3 " + body, "lowseq env 8.7 7 9 " + body,
           "signenv 1 2.3 1 pub 1 " + body, "enc 1 " + body, "sign0 empty " + body, "sign0 absent " + body, "sign0 junk " + body]
    ops += ["omit %s %s %d %s" % (k, p, n, body) for k in ("sign", "env", "enc", "signenv") for (p, n) in (("1.0", 0), ("1.0", 1), ("1.0", 2), ("1.0", 4), ("1.0.1", 0), ("1.0.1.0", 1), ("1.0.2", 0))]
    shards = [ops[i::4] for i in range(4)]
    outs = [None] * 4
    def work(i):
        p = subprocess.run(["valgrind", "-q", "--error-exitcode=9", exe], input=("\n".join(shards[i]) + "\n").encode(), stdout=subprocess.PIPE, stderr=subprocess.PIPE, timeout=900)
        outs[i] = (p.returncode, p.stderr.decode("utf-8", "replace"))
    ths = [threading.Thread(target=work, args=(i,)) for i in range(4)]
    [t.start() for t in ths]; [t.join() for t in ths]
    ctx.cov["evaluations"] += len(ops); ctx.count("op:memcheck", len(ops))
    bad = [(i, o) for i, o in enumerate(outs) if o and o[0] != 0]
    if bad:
        i, (rc, err) = bad[0]
        lines = [l for l in err.splitlines() if "==" in l][:14]
        ctx.violation("memcheck:refusal-paths", "valgrind memcheck reports an error on a refusal path of the CMS interfaces (uninstrumented build): " + " / ".join(l.split("== ", 1)[-1] for l in lines)[:700],
                      {"kind": "failing-input", "ops": shards[i], "stderr": err[-3000:], "how": "valgrind -q --error-exitcode=9 build/h_C16_fast < ops"}, True)
    else:
        ctx.cell("memcheck:refusal-paths:clean")


def legacy_key(line):
    w = line.split()
    if w[0] == "sign":
        return "cms_sign:multi-signer-signed-with-first-key", "every SignerInfo is signed with signers[0]'s key (signers->sign_key), so a message with two different signers never verifies"
    if w[0] == "env":
        return "cms_deenvelop:key-object-representation", "cms_deenvelop memcmp()s the in-memory public key; a key object obtained by generation, DER or PEM import is refused although it is the recipient's key"
    if w[0] == "signenv":
        if w[5] == "0":
            return "cms_sign_and_envelop:fails-without-crls", "cms_sign_and_envelop returns -1 when no CRLs are supplied (asn1_implicit_set_to_der(...) != 1 on the second pass)"
        if w[4] != "pub":
            return "cms_deenvelop_and_verify:key-object-representation", "cms_deenvelop_and_verify memcmp()s the in-memory public key representation"
        return "cms_sign_and_envelop:multi-signer-signed-with-first-key", "every SignerInfo is signed with signers[0]'s key"
    return None, None


def compare(ctx, cases, impl, model, variant):
    for i, (line, cell) in enumerate(cases):
        ctx.cov["evaluations"] += 1
        a, b = impl[i], model[i]
        op = line.split(" ", 1)[0]
        ctx.count("op:" + op)
        if b.startswith("MODEL-") or "|" not in b:
            ctx.violation("model:" + cell, "model-side failure on `%s`: %s" % (line[:200], b[:200]), {"kind": "model", "op": line, "model": b}, False)
            continue
        rep, leg = [c.strip() for c in b.split("|")]
        if op == "tamper":
            m = dict(re.findall(r"(\w+)=(\d+)", a))
            if "tried" not in m:
                ctx.violation(cell, "tamper sweep did not run: %s" % a, {"kind": "failing-input", "op": line, "impl": a, "variant": variant}, True)
                continue
            w_ = line.split()
            kind = w_[1].split(":")[0] + ("-short" if (":" in w_[1] and len(w_[4]) < 32) else ("-multi" if ":" in w_[1] else ""))
            bad = False
            for region in ("content", "signature", "enckey", "signerid", "rcptid"):
                if int(m.get(region, 0)):
                    bad = True
                    ctx.violation("tamper:%s:%s-bitflip-accepted" % (kind, region), "a single-bit change inside the %s of a %s message is accepted [%s]: %s" % (region, kind, variant, a),
                                  {"kind": "failing-input", "op": line, "impl": a, "expected": "0 accepted", "variant": variant}, True)
            if int(m.get("iv", 0)) or int(m.get("ciphertext", 0)):
                bad = True
                base = kind.split("-")[0]
                kkey = base if base in ("env", "enc") else kind       # EnvelopedData / EncryptedData: one finding, however many parties
                why_ = ("the format carries no integrity protection; every accepted change left a strictly valid padding (changes that break the padding are counted under broken-padding-accepted)" if base in ("env", "enc") else
                        "the content is signed, so these are changes that leave the plaintext intact: sm4_cbc_padding_decrypt looks at the last padding byte only, flips that land in the other padding bytes pass")
                ctx.violation("tamper:%s:iv-or-ciphertext-bitflip-accepted" % kkey,
                              "single-bit changes of the IV / SM4-CBC ciphertext of a %s message are accepted (%s in the IV, %s in the ciphertext of %s tried): %s [%s]" % (kind, m.get("iv"), m.get("ciphertext"), m.get("tried"), why_, variant),
                              {"kind": "failing-input", "op": line, "impl": a, "expected": "0 accepted", "variant": variant}, True)
            if int(m.get("brokenpadding", 0)):
                bad = True
                ctx.violation("tamper:%s:broken-padding-accepted" % kind.split("-")[0],
                              "%s changes of a %s message are accepted although what was sent does not decrypt to a valid PKCS #7 padding [%s]: %s" % (m.get("brokenpadding"), kind, variant, a),
                              {"kind": "failing-input", "op": line, "impl": a, "expected": "refused", "variant": variant}, True)
            if int(m.get("faults", 0)):
                bad = True
                ctx.violation("tamper:%s:memory-fault" % kind, "a single-bit change makes the parser fault (sanitizer abort) instead of failing [%s]: %s" % (variant, a),
                              {"kind": "failing-input", "op": line, "impl": a, "expected": "clean failure", "variant": variant}, True)
            if not bad:
                ctx.cell(cell + ":all-rejected")
            ctx.count("tamper:flips-tried", int(m["tried"]))
            ctx.count("tamper:unlisted-region-accepted", int(m.get("unlisted", 0)))
            continue
        if a == rep:
            ctx.cell(cell + ":" + ("ERR" if "ERR" in a else "ok"))
            if i % max(1, len(cases) // 8) == 0:
                ctx.sample({"op": line[:200], "result": a})
            continue
        w = line.split()
        if op == "cmsprint" and w[1] != "names" and not a.startswith("FAULT"):
            # what the text renderer shows is outside the property text: an observation; a renderer that faults stays a violation
            if not hasattr(ctx, "observations"):
                ctx.observations = []
            ctx.count("observation:" + cell)
            if not any(o["key"] == cell for o in ctx.observations):
                ctx.observations.append({"key": cell, "variant": variant, "op": line[:400], "impl": a[:200], "model": rep[:200]})
                print("OBSERVATION: property=%s key=%s [%s] outside the property text (not a violation): op `%s` impl=%s model=%s" % (ctx.prop, cell, variant, line[:120], a[:60], rep[:60]))
            continue
        if op == "enc" and w[1] == "1" and a != "E=1 D=1" and a.startswith("E=1"):
            # a wrong symmetric key either fails the padding check or yields other bytes (no integrity in EncryptedData): never the content
            ctx.cell(cell + ":not-the-content")
            continue
        key, why = (legacy_key(line) if (a == leg and "prefix-serials" not in cell) else (None, None))
        if key is None and op == "sign" and a == "S=ERR" and w[1].count(".") >= 3:
            key, why = "cms_sign:four-signers-exceed-signer_infos-buffer", "cms_sign fails for four signers: the SignerInfos are collected in a 512-byte stack buffer (signer_infos[512])"
        if key is None and op == "signenv" and a == "E=ERR" and w[2].count(".") >= 2 and w[5] == "1" and w[1] != "-":
            key, why = "cms_sign_and_envelop:three-recipients-exceed-rcpt_infos-buffer", "cms_sign_and_envelop fails for three or more recipients: the RecipientInfos are collected in a 512-byte stack buffer (rcpt_infos[512]; cms_envelop uses 1024)"
        if key is None:
            key, why = cell, "implementation differs from the model"
        ctx.violation(key, "%s [%s]: op `%s` impl=%s model(repaired | legacy)=%s" % (why, variant, line[:160], a, b),
                      {"kind": "failing-input", "op": line, "impl": a, "expected": rep, "model_legacy": leg, "variant": variant}, True)


def run(ctx):
    ctx.check_proofs()
    model, log = core.build_model("C16")
    if model is None:
        ctx.violation("correspondence:model-build", "extracted model does not build: " + log[-500:], {"kind": "correspondence", "log": log[-3000:]}, False)
        return finish(ctx)
    cases, sweeps = gen(ctx)
    if os.environ.get("VERIF_DUMP_OPS"):
        open(os.environ["VERIF_DUMP_OPS"], "w").write("\n".join([c[0] for c in cases + sweeps + gen_omits(ctx)]) + "\n")
    for v in (["asan"] if ctx.tier == "quick" else ["asan", "small"]):
        exe, log = core.build_harness("C16", v)
        if exe is None:
            core.harness_build_failed(ctx, log)
            continue
        for group, shards in ((cases, None), (sweeps, min(len(sweeps), 16))):
            lines = [c[0] for c in group]
            impl, err = core.run_lines(exe, lines, shards=shards)
            mod, _ = core.run_lines(model, lines, shards=shards)
            compare(ctx, group, impl, mod, v)
        if v == "asan":
            memcheck_pass(ctx)
        omits = gen_omits(ctx)
        impl, err = core.run_lines(exe, [c[0] for c in omits])
        compare_omits(ctx, omits, impl, v)
    return finish(ctx)


def replay(path):
    r = json.load(open(path))
    op = r.get("replay", {}).get("op")
    if not op:
        print("replay names a proof obligation / relation, not an input:", json.dumps(r.get("replay"))[:1000]); return 0
    model, _ = core.build_model("C16")
    exe, log = core.build_harness("C16", "asan")
    if exe is None:
        print(log[-2000:]); return 1
    a, err = core.run_lines(exe, [op], shards=1, env={"VERIF_STDERR": "1"})
    b, _ = core.run_lines(model, [op], shards=1)
    print("op:    ", op); print("impl:  ", a[0]); print("model (repaired | legacy): ", b[0])
    if err.strip():
        print("stderr:", err[-1500:])
    print("AGREE" if a[0] == b[0].split("|")[0].strip() else "DIFFER")
    return 0


def finish(ctx):
    ctx.assumptions = [
        "the model is symbolic in the cryptography (signature = (key, signed input), wrapped key = (recipient key, content key), ciphertext = (key, iv, plaintext)) and concrete in the control flow of src/cms.c; the real SM2/SM3/SM4 run on the harness side",
        "'wrong content key never decrypts' and 'a signature checks only under its key and input' are idealisations of the symbolic model (C01/C04 premises), stated in Pki/Cms.v",
        "buffer capacities inside cms.c (signer_infos[512], rcpt_infos[512/1024]) are not modelled: the model answers for every set size, the run covers 1..4 signers and 1..5 recipients",
        "content returned by cms_verify for type 'data' is the OCTET STRING TLV (API convention, tools/cmsverify.c unwraps it); the harness unwraps the same way",
        "tamper sweeps: regions named by the property (content, signature, the opener's encrypted key, IV, ciphertext) are located with the library's own parsers on the untouched message; accepted changes elsewhere (certificates carried along, other recipients' infos, redundant structure) are counted, not judged",
        "zero-signer SignedAndEnvelopedData is not built by the harness (only SignedData), see the theorem C16_no_signer_no_verify for the model",
    ]
    return ctx.finish(level="proof", extra={"observations": getattr(ctx, "observations", [])},
                      rule="cases = signed data over signer sets (1..4, repeated, permuted, none) x content types x sizes 0..64 KiB around the block size; zero-signer SignedData written with the library's field writers; enveloped data over recipient sets 1..5 x every member and an outsider x key object source (generated / DER / PEM / from certificate); encrypted data sizes and wrong key; signed-and-enveloped over signer x recipient sets x CRL present/absent x key source; complete single-bit sweeps of one message of each kind classified by region; every single DER element of each message kind removed in turn (well-formed result) must be refused; same-issuer certificates whose serials are byte-prefixes of one another as signers / recipients in both orders; signer information empty / absent / junk; a cell = (op, set sizes, source, size class, ok|ERR)",
                      trusted=core.TRUSTED_COMMON + ["Coq files: Pki/Cms.v, Pki/CmsCodec.v (models), Pki/CmsProofs.v, Pki/CmsCodecProofs.v, Pki/X509Codec.v (positional-record machinery), Props/Properties_C16.v",
                                                     "harness/entropy.h scripted getentropy()/time(); region location by memmem / library parsers in props/C16/harness.c"])
