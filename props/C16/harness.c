/* C16 correspondence harness: top-level CMS interfaces (cms_sign/verify, cms_envelop/deenvelop,
 * cms_encrypt/decrypt, cms_sign_and_envelop/deenvelop_and_verify) with 1..n signers / recipients,
 * key objects obtained by generation / DER import / PEM import, zero-signer messages built with
 * the library's own low-level writer, and single-bit tamper sweeps with region classification.
 *
 * ops:
 *   sign <signers a.b.c> <ctype: data|signed|x> <contenthex>
 *   sign0 <empty|absent|junk> <contenthex>               SignedData without signer information: empty SET / field omitted / SET { SEQUENCE {} }
 *   env <rcpts a.b> <opener> <src gen|der|pem|pub> <contenthex>
 *   enc <wrongkey 0|1> <contenthex>
 *   signenv <signers> <rcpts> <opener> <src> <crl 0|1> <contenthex>
 *   omit <sign|env|enc|signenv> <path|-> <k> <contenthex>   remove child k of the DER node at <path> (well-formed result), then open
 *   tamper <sign|sign2|env|enc|signenv> <step> <offset> <contenthex>   (sign2 = two SignerInfos)     (1 signer = 1, recipients 2.3, opener 2)
 */
#include "common.h"
#include "entropy.h"
#include <gmssl/sm2.h>
#include <gmssl/sm4.h>
#include <gmssl/oid.h>
#include <gmssl/asn1.h>
#include <gmssl/x509.h>
#include <gmssl/cms.h>
#include <gmssl/x509_crl.h>
#include <sys/wait.h>
#include <gmssl/error.h>

#define NK 9
static SM2_KEY keys[NK + 1];          /* as generated */
static SM2_KEY keys_der[NK + 1];      /* PrivateKeyInfo DER export + import */
static SM2_KEY keys_pem[NK + 1];      /* PrivateKeyInfo PEM export + import */
static SM2_KEY keys_pub[NK + 1];      /* private scalar + public key set from the certificate's point */
static uint8_t certs[NK + 1][1024]; static size_t certlens[NK + 1];

/* all certificates carry the same issuer name; serial numbers 7, 8, 9 are byte-prefixes of one another */
static uint8_t serials[NK + 1][8]; static size_t seriallens[NK + 1];
static int make_cert(int i) {
	uint8_t issuer[256], subject[256]; size_t issuerlen = 0, subjectlen = 0; char cn[16];
	uint8_t *p = certs[i]; size_t len = 0;
	if (i <= 6) { uint8_t s8[8] = { 0x10, 0, 0, 0, 0, 0, 0, (uint8_t)i }; memcpy(serials[i], s8, 8); seriallens[i] = 8; }
	else { memset(serials[i], 0, 8); serials[i][0] = 0x01; seriallens[i] = (size_t)(i - 6); }      /* 01 | 01 00 | 01 00 00 */
	snprintf(cn, sizeof cn, "U%d", i);
	if (x509_name_set(issuer, &issuerlen, sizeof issuer, "CN", NULL, NULL, "VERIF", NULL, "CA") != 1) return -1;
	if (x509_name_set(subject, &subjectlen, sizeof subject, "CN", NULL, NULL, "VERIF", NULL, cn) != 1) return -1;
	if (x509_cert_sign_to_der(X509_version_v3, serials[i], seriallens[i], OID_sm2sign_with_sm3, issuer, issuerlen, 1600000000, 1900000000,
		subject, subjectlen, &keys[i], NULL, 0, NULL, 0, NULL, 0, &keys[1], SM2_DEFAULT_ID, SM2_DEFAULT_ID_LENGTH, &p, &len) != 1) return -1;
	certlens[i] = len;
	return 1;
}
static int import_keys(int i) {
	uint8_t buf[512]; uint8_t *p = buf; const uint8_t *cp = buf; size_t len = 0; const uint8_t *attrs; size_t attrslen; FILE *fp; SM2_KEY pk;
	if (sm2_private_key_info_to_der(&keys[i], &p, &len) != 1) return -1;
	if (sm2_private_key_info_from_der(&keys_der[i], &attrs, &attrslen, &cp, &len) != 1) return -1;
	if (!(fp = tmpfile())) return -1;
	if (sm2_private_key_info_to_pem(&keys[i], fp) != 1) { fclose(fp); return -1; }
	rewind(fp);
	if (sm2_private_key_info_from_pem(&keys_pem[i], fp) != 1) { fclose(fp); return -1; }
	fclose(fp);
	/* key object whose public half was taken from the certificate */
	if (x509_cert_get_subject_public_key(certs[i], certlens[i], &pk) != 1) return -1;
	keys_pub[i] = keys[i];
	keys_pub[i].public_key = pk.public_key;
	return 1;
}
static const SM2_KEY *key_from(const char *src, int i) {
	if (!strcmp(src, "der")) return &keys_der[i];
	if (!strcmp(src, "pem")) return &keys_pem[i];
	if (!strcmp(src, "pub")) return &keys_pub[i];
	return &keys[i];
}

static size_t parse_ids(char *s, int *ids, size_t max) {
	size_t n = 0; char *save = NULL, *t;
	if (!strcmp(s, "-")) return 0;
	for (t = strtok_r(s, ".", &save); t && n < max; t = strtok_r(NULL, ".", &save)) { int k = atoi(t); if (k < 1 || k > NK) return (size_t)-1; ids[n++] = k; }
	return n;
}
static size_t concat_certs(const int *ids, size_t n, uint8_t *out) {
	size_t len = 0, i; for (i = 0; i < n; i++) { memcpy(out + len, certs[ids[i]], certlens[ids[i]]); len += certlens[ids[i]]; } return len;
}
static int ctype_of(const char *s) { return !strcmp(s, "data") ? OID_cms_data : !strcmp(s, "signed") ? OID_cms_signed_data : OID_cms_encrypted_data; }

static const uint8_t SYMKEY[16] = { 1, 2, 3, 4, 5, 6, 7, 8, 9, 10, 11, 12, 13, 14, 15, 16 };
/* a content key that equals what a stack poisoned with 64-bit words of value 16 looks like (key bytes and keylen == 16 at once) */
static const uint8_t POISONKEY[16] = { 16, 0, 0, 0, 0, 0, 0, 0, 16, 0, 0, 0, 0, 0, 0, 0 };
static const uint8_t *cur_key = SYMKEY;
static const uint8_t IV[16] = { 0xa0, 0xa1, 0xa2, 0xa3, 0xa4, 0xa5, 0xa6, 0xa7, 0xa8, 0xa9, 0xaa, 0xab, 0xac, 0xad, 0xae, 0xaf };

typedef struct { uint8_t *p; size_t n; } blob_t;

/* buffers of the same role and length live at the same address for the whole run (exactly sized, so ASan still sees
 * overruns): consecutive operations then hand the library the same (pointer, length) with different content */
#define RA_MAX 8192
static struct { int slot; size_t n; uint8_t *p; } ra_tab[RA_MAX]; static size_t ra_cnt;
static uint8_t *reuse_alloc(int slot, size_t n) {
	size_t i; for (i = 0; i < ra_cnt; i++) if (ra_tab[i].slot == slot && ra_tab[i].n == n) return ra_tab[i].p;
	if (ra_cnt == RA_MAX) return malloc(n ? n : 1);
	ra_tab[ra_cnt].slot = slot; ra_tab[ra_cnt].n = n; ra_tab[ra_cnt].p = malloc(n ? n : 1); return ra_tab[ra_cnt++].p;
}
static void msg_free(uint8_t *p) { size_t i; for (i = 0; i < ra_cnt; i++) if (ra_tab[i].p == p) return; free(p); }
static const uint8_t *cert_at_shared_address(int idx) {       /* the recipient's certificate, loaded into the shared certificate buffer */
	uint8_t *p = reuse_alloc(1, certlens[idx]); memcpy(p, certs[idx], certlens[idx]); return p;
}

/* ------------------------------------------------------------------ producers */
static blob_t make_signed(const int *ids, size_t n, int ctype, const buf_t *content) {
	blob_t r = { NULL, 0 }; CMS_CERTS_AND_KEY signers[8]; size_t i, len = 0;
	for (i = 0; i < n; i++) { signers[i].certs = certs[ids[i]]; signers[i].certs_len = certlens[ids[i]]; signers[i].sign_key = &keys[ids[i]]; }
	if (cms_sign(NULL, &len, signers, n, ctype, content->p, content->n, NULL, 0) != 1) return r;
	r.p = reuse_alloc(0, len);
	if (cms_sign(r.p, &r.n, signers, n, ctype, content->p, content->n, NULL, 0) != 1 || r.n != len) { r.p = NULL; r.n = 0; }
	return r;
}
static blob_t make_env(const int *ids, size_t n, int ctype, const buf_t *content) {
	blob_t r = { NULL, 0 }; uint8_t rc[NK * 1024]; size_t rclen = concat_certs(ids, n, rc), len = 0;
	if (cms_envelop(NULL, &len, rc, rclen, OID_sm4_cbc, cur_key, 16, IV, 16, ctype, content->p, content->n, NULL, 0, NULL, 0) != 1) return r;
	r.p = reuse_alloc(0, len);
	if (cms_envelop(r.p, &r.n, rc, rclen, OID_sm4_cbc, cur_key, 16, IV, 16, ctype, content->p, content->n, NULL, 0, NULL, 0) != 1 || r.n != len) { r.p = NULL; r.n = 0; }
	return r;
}
static blob_t make_enc(int ctype, const buf_t *content) {
	blob_t r = { NULL, 0 }; size_t len = 0;
	if (cms_encrypt(NULL, &len, OID_sm4_cbc, SYMKEY, 16, IV, 16, ctype, content->p, content->n, NULL, 0, NULL, 0) != 1) return r;
	r.p = reuse_alloc(0, len);
	if (cms_encrypt(r.p, &r.n, OID_sm4_cbc, SYMKEY, 16, IV, 16, ctype, content->p, content->n, NULL, 0, NULL, 0) != 1 || r.n != len) { r.p = NULL; r.n = 0; }
	return r;
}
static uint8_t crl1[512]; static size_t crl1len;
static blob_t make_signenv(const int *sids, size_t ns, const int *rids, size_t nr, int ctype, const buf_t *content, int with_crl) {
	const uint8_t *crls = with_crl ? crl1 : NULL; size_t crlslen = with_crl ? crl1len : 0;
	blob_t r = { NULL, 0 }; CMS_CERTS_AND_KEY signers[8]; size_t i, len = 0; uint8_t rc[NK * 1024]; size_t rclen = concat_certs(rids, nr, rc);
	for (i = 0; i < ns; i++) { signers[i].certs = certs[sids[i]]; signers[i].certs_len = certlens[sids[i]]; signers[i].sign_key = &keys[sids[i]]; }
	if (cms_sign_and_envelop(NULL, &len, signers, ns, rc, rclen, OID_sm4_cbc, cur_key, 16, IV, 16, ctype, content->p, content->n, crls, crlslen, NULL, 0, NULL, 0) != 1) return r;
	r.p = reuse_alloc(0, len);
	if (cms_sign_and_envelop(r.p, &r.n, signers, ns, rc, rclen, OID_sm4_cbc, cur_key, 16, IV, 16, ctype, content->p, content->n, crls, crlslen, NULL, 0, NULL, 0) != 1 || r.n != len) { r.p = NULL; r.n = 0; }
	return r;
}

/* ------------------------------------------------------------------ consumers: 1 = opened/verified and content equal, 2 = accepted with other content, 0 = refused */
static int open_signed(const blob_t *m, const buf_t *content, size_t *ncerts, size_t *ninfos) {
	int ct; const uint8_t *c, *cs, *crls, *si; size_t cl, csl, crll, sil;
	if (cms_verify(m->p, m->n, NULL, 0, NULL, 0, &ct, &c, &cl, &cs, &csl, &crls, &crll, &si, &sil) != 1) return 0;
	if (ncerts) { *ncerts = 0; x509_certs_get_count(cs, csl, ncerts); }
	if (ninfos) { *ninfos = 0; asn1_types_get_count(si, sil, ASN1_TAG_SEQUENCE, ninfos); }
	if (ct == OID_cms_data) {   /* the API hands back the OCTET STRING TLV for type data (tools/cmsverify.c unwraps it the same way) */
		const uint8_t *d; size_t dl;
		if (asn1_octet_string_from_der(&d, &dl, &c, &cl) != 1 || cl != 0) return 2;
		c = d; cl = dl;
	}
	return (cl == content->n && (cl == 0 || memcmp(c, content->p, cl) == 0)) ? 1 : 2;
}
static int open_env(const blob_t *m, const SM2_KEY *k, int certidx, const buf_t *content) {
	int ct; uint8_t *out = malloc(m->n + 64); size_t outlen = 0; const uint8_t *ri, *s1, *s2; size_t ril, s1l, s2l; int r;
	if (cms_deenvelop(m->p, m->n, k, cert_at_shared_address(certidx), certlens[certidx], &ct, out, &outlen, &ri, &ril, &s1, &s1l, &s2, &s2l) != 1) { free(out); return 0; }
	r = (outlen == content->n && memcmp(out, content->p, outlen) == 0) ? 1 : 2; free(out); return r;
}
static int open_enc(const blob_t *m, const uint8_t *key, const buf_t *content) {
	int alg, ct; uint8_t *out = malloc(m->n + 64); size_t outlen = 0; const uint8_t *s1, *s2; size_t s1l, s2l; int r;
	if (cms_decrypt(m->p, m->n, &alg, key, 16, &ct, out, &outlen, &s1, &s1l, &s2, &s2l) != 1) { free(out); return 0; }
	r = (outlen == content->n && memcmp(out, content->p, outlen) == 0) ? 1 : 2; free(out); return r;
}
static int open_signenv(const blob_t *m, const SM2_KEY *k, int certidx, const buf_t *content) {
	int ct; uint8_t *out = malloc(m->n + 64); size_t outlen = 0; const uint8_t *ri, *si, *cs, *crls, *s1, *s2; size_t ril, sil, csl, crll, s1l, s2l; int r;
	if (cms_deenvelop_and_verify(m->p, m->n, k, cert_at_shared_address(certidx), certlens[certidx], NULL, 0, NULL, 0, &ct, out, &outlen,
		&ri, &ril, &si, &sil, &cs, &csl, &crls, &crll, &s1, &s1l, &s2, &s2l) != 1) { free(out); return 0; }
	r = (outlen == content->n && memcmp(out, content->p, outlen) == 0) ? 1 : 2; free(out); return r;
}
/* low-level public entry points, called back to back from one frame (wave 3) */
static int open_env_low(const blob_t *m, int who, const buf_t *content) {
	int t, ct; const uint8_t *d, *cp = m->p; size_t dl, cl = m->n; uint8_t *out; size_t outlen = 0; const uint8_t *ri, *a1, *a2; size_t ril, l1, l2; int r;
	const uint8_t *iss, *ser; size_t il, sl;
	if (cms_content_info_from_der(&t, &d, &dl, &cp, &cl) != 1 || t != OID_cms_enveloped_data) return 0;
	if (x509_cert_get_issuer_and_serial_number(certs[who], certlens[who], &iss, &il, &ser, &sl) != 1) return 0;
	out = malloc(m->n + 64);
	if (cms_enveloped_data_decrypt_from_der(&keys_pub[who], iss, il, ser, sl, &ct, out, &outlen, &ri, &ril, &a1, &l1, &a2, &l2, &d, &dl) != 1) { free(out); return 0; }
	r = (outlen == content->n && memcmp(out, content->p, outlen) == 0) ? 1 : 2; free(out); return r;
}
static int open_signenv_low(const blob_t *m, int who, const buf_t *content) {
	int t, ct; const uint8_t *d, *cp = m->p; size_t dl, cl = m->n; uint8_t *out; size_t outlen = 0; int r;
	const uint8_t *ri, *a1, *a2, *cs, *crls, *si; size_t ril, l1, l2, csl, crll, sil; const uint8_t *iss, *ser; size_t il, sl;
	if (cms_content_info_from_der(&t, &d, &dl, &cp, &cl) != 1 || t != OID_cms_signed_and_enveloped_data) return 0;
	if (x509_cert_get_issuer_and_serial_number(certs[who], certlens[who], &iss, &il, &ser, &sl) != 1) return 0;
	out = malloc(m->n + 64);
	if (cms_signed_and_enveloped_data_decipher_from_der(&keys_pub[who], iss, il, ser, sl, &ct, out, &outlen, &ri, &ril, &a1, &l1, &a2, &l2,
		&cs, &csl, &crls, &crll, &si, &sil, NULL, 0, NULL, 0, &d, &dl) != 1) { free(out); return 0; }
	r = (outlen == content->n && memcmp(out, content->p, outlen) == 0) ? 1 : 2; free(out); return r;
}

static const char *res(int r) { return r == 1 ? "1" : r == 2 ? "OTHER-CONTENT" : "ERR"; }

/* SignedData with zero SignerInfos: the library's own field writers, an empty SET written by hand */
/* variant 0: signerInfos = empty SET; 1: signerInfos field absent; 2: SET holding an empty SEQUENCE */
static blob_t make_signed0(const buf_t *content, int variant) {
	blob_t r = { NULL, 0 }; int dalg = OID_sm3; size_t len = 0, seqlen = 0, n = 0; uint8_t *tmp, *p;
	static const uint8_t tails[3][4] = { { 0x31, 0x00 }, { 0 }, { 0x31, 0x02, 0x30, 0x00 } }; static const size_t taillens[3] = { 2, 0, 4 };
	if (variant < 0 || variant > 2) return r;
	if (asn1_int_to_der(CMS_version_v1, NULL, &len) != 1 || cms_digest_algors_to_der(&dalg, 1, NULL, &len) != 1
		|| cms_content_info_to_der(OID_cms_data, content->p, content->n, NULL, &len) != 1
		|| asn1_implicit_set_to_der(0, certs[1], certlens[1], NULL, &len) != 1) return r;
	len += taillens[variant];
	if (asn1_sequence_header_to_der(len, NULL, &seqlen) != 1) return r;
	seqlen += len;
	tmp = malloc(seqlen + 64); p = tmp;
	if (cms_content_info_header_to_der(OID_cms_signed_data, seqlen, &p, &n) != 1
		|| asn1_sequence_header_to_der(len, &p, &n) != 1 || asn1_int_to_der(CMS_version_v1, &p, &n) != 1
		|| cms_digest_algors_to_der(&dalg, 1, &p, &n) != 1 || cms_content_info_to_der(OID_cms_data, content->p, content->n, &p, &n) != 1
		|| asn1_implicit_set_to_der(0, certs[1], certlens[1], &p, &n) != 1) { free(tmp); return r; }
	memcpy(p, tails[variant], taillens[variant]); n += taillens[variant];
	r.p = malloc(n); memcpy(r.p, tmp, n); r.n = n; free(tmp);
	return r;
}

/* ------------------------------------------------------------------ tamper sweep */
static long find(const uint8_t *hay, size_t hl, const uint8_t *needle, size_t nl) {
	size_t i; if (!nl || nl > hl) return -1;
	for (i = 0; i + nl <= hl; i++) if (!memcmp(hay + i, needle, nl)) return (long)i;
	return -1;
}
typedef struct { const char *name; long off; size_t len; long accepted; } region_t;
static void set_region(region_t *r, const blob_t *m, const uint8_t *p, size_t n) { if (p && p >= m->p && p + n <= m->p + m->n) { r->off = p - m->p; r->len = n; } }
/* one region per SignerInfo signature (r[0..max-1]) */
/* identification regions: issuer and serial of every SignerInfo (idr[0..7]) and of the opener's RecipientInfo (idr[8..9]) */
static region_t idr[10];
static void sig_region(region_t *r, size_t max, const blob_t *m, const uint8_t *si, size_t sil) {
	size_t k = 0;
	while (sil && k < max) {
		int v, da, sa; const uint8_t *iss, *ser, *aa, *sig, *ua; size_t il, sl, aal, sgl, ual;
		if (cms_signer_info_from_der(&v, &iss, &il, &ser, &sl, &da, &aa, &aal, &sa, &sig, &sgl, &ua, &ual, &si, &sil) != 1) return;
		set_region(&idr[2 * k], m, iss, il); set_region(&idr[2 * k + 1], m, ser, sl);
		set_region(&r[k++], m, sig, sgl);
	}
}
static void enckey_region(region_t *r, const blob_t *m, const uint8_t *ri, size_t ril, int opener) {
	while (ril) {
		int v, pke; const uint8_t *iss, *ser, *par, *ek; size_t il, sl, pl, ekl;
		if (cms_recipient_info_from_der(&v, &iss, &il, &ser, &sl, &pke, &par, &pl, &ek, &ekl, &ri, &ril) != 1) return;
		if (sl == seriallens[opener] && !memcmp(ser, serials[opener], sl)) { set_region(r, m, ek, ekl); set_region(&idr[8], m, iss, il); set_region(&idr[9], m, ser, sl); return; }
	}
}
/* does the CBC ciphertext at [ct_off, +ct_len) with the IV at iv_off decrypt (under the content key) to a strictly valid PKCS #7 padding? */
static int strict_padding_ok(const blob_t *m, long iv_off, long ct_off, size_t ct_len, const uint8_t *key) {
	SM4_KEY dk; uint8_t iv[16], *pt; int pad, i, ok = 1;
	if (iv_off < 0 || ct_off < 0 || ct_len < 16 || ct_len % 16) return 0;
	pt = malloc(ct_len); memcpy(iv, m->p + iv_off, 16);
	sm4_set_decrypt_key(&dk, key);
	sm4_cbc_decrypt_blocks(&dk, iv, m->p + ct_off, ct_len / 16, pt);
	pad = pt[ct_len - 1];
	if (pad < 1 || pad > 16) ok = 0;
	for (i = 0; ok && i < pad; i++) if (pt[ct_len - 1 - (size_t)i] != pad) ok = 0;
	free(pt); return ok;
}
static void do_tamper(const char *kindspec, size_t step, size_t off, const buf_t *content) {
	/* kindspec = kind[:signers[:rcpts[:opener]]] (for sign: kind:signers; for env: kind:rcpts:opener); with parameters only the
	   regions the property names (and the identifiers) are swept - every SignerInfo, the opener's RecipientInfo, IV */
	int s1[] = { 1 }, s11[] = { 1, 1 }, r23[] = { 2, 3 }; blob_t m = { NULL, 0 }; size_t i; int b, k;
	char kbuf[64]; char *kind = kbuf; int sg[8], rc[8]; size_t nsg = 1, nrc = 2; int opener = 2; int listed_only = 0;
	sg[0] = 1; rc[0] = 2; rc[1] = 3;
	snprintf(kbuf, sizeof kbuf, "%s", kindspec);
	{ char *c1 = strchr(kbuf, ':');
	  if (c1) { char *c2, *c3; *c1++ = 0; listed_only = 1; c2 = strchr(c1, ':'); if (c2) *c2++ = 0; c3 = c2 ? strchr(c2, ':') : NULL; if (c3) *c3++ = 0;
		if (!strcmp(kind, "sign")) { nsg = parse_ids(c1, sg, 8); }
		else if (!strcmp(kind, "env")) { nrc = parse_ids(c1, rc, 8); if (c2) opener = atoi(c2); }
		else if (!strcmp(kind, "signenv")) { nsg = parse_ids(c1, sg, 8); if (c2) nrc = parse_ids(c2, rc, 8); if (c3) opener = atoi(c3); }
		if (nsg == (size_t)-1 || nrc == (size_t)-1 || !nsg || !nrc || opener < 1 || opener > NK) { printf("ERR spec"); return; } } }
	(void)s1; (void)r23;
	/* reg[0] content, reg[1] first signature, reg[2] enckey, reg[3] iv, reg[4] ciphertext, reg[5] unlisted, reg[6..8] further signatures */
	region_t reg[9] = { { "content", -1, 0, 0 }, { "signature", -1, 0, 0 }, { "enckey", -1, 0, 0 }, { "iv", -1, 0, 0 }, { "ciphertext", -1, 0, 0 }, { "unlisted", -1, 0, 0 },
		{ "signature", -1, 0, 0 }, { "signature", -1, 0, 0 }, { "signature", -1, 0, 0 } };
	region_t sigs[4] = { { "signature", -1, 0, 0 }, { "signature", -1, 0, 0 }, { "signature", -1, 0, 0 }, { "signature", -1, 0, 0 } };
	long tried = 0, crashed = 0, fc_i = -1, fl_i = -1; int fc_b = -1, fl_b = -1; const char *fl_r = NULL; long signerid = 0, rcptid = 0, badpad = 0; int idk;
	for (idk = 0; idk < 10; idk++) { idr[idk].off = -1; idr[idk].len = 0; }
	uint8_t *ct = malloc(content->n + 32); size_t ct_len = 0; SM4_KEY sk;
	if (!strcmp(kind, "sign")) m = make_signed(sg, nsg, OID_cms_data, content);
	else if (!strcmp(kind, "sign2")) { m = make_signed(s11, 2, OID_cms_data, content); kind = "sign"; }   /* two SignerInfos */
	else if (!strcmp(kind, "env")) m = make_env(rc, nrc, OID_cms_data, content);
	else if (!strcmp(kind, "enc")) m = make_enc(OID_cms_data, content);
	else if (!strcmp(kind, "signenv")) m = make_signenv(sg, nsg, rc, nrc, OID_cms_data, content, 1);
	if (!m.p || !step) { printf("ERR produce"); free(ct); return; }
	/* locate the regions the property names, using the library's own parsers on the untouched message */
	if (!strcmp(kind, "sign")) {
		int t; const uint8_t *c, *cs, *crls, *si; size_t cl, csl, crll, sil;
		if (cms_verify(m.p, m.n, NULL, 0, NULL, 0, &t, &c, &cl, &cs, &csl, &crls, &crll, &si, &sil) != 1) { printf("ERR untouched-message-refused"); msg_free(m.p); free(ct); return; }
		set_region(&reg[0], &m, c, cl); sig_region(sigs, 4, &m, si, sil);
	} else {
		long o;
		sm4_set_encrypt_key(&sk, SYMKEY);
		if (sm4_cbc_padding_encrypt(&sk, IV, content->p, content->n, ct, &ct_len) == 1 && (o = find(m.p, m.n, ct, ct_len)) >= 0) { reg[4].off = o; reg[4].len = ct_len; }
		if ((o = find(m.p, m.n, IV, 16)) >= 0) { reg[3].off = o; reg[3].len = 16; }
		if (!strcmp(kind, "env")) {
			int t; uint8_t *out = malloc(m.n + 64); size_t ol; const uint8_t *ri, *a1, *a2; size_t ril, l1, l2;
			if (cms_deenvelop(m.p, m.n, &keys_pub[opener], certs[opener], certlens[opener], &t, out, &ol, &ri, &ril, &a1, &l1, &a2, &l2) != 1) { printf("ERR untouched-message-refused"); free(out); msg_free(m.p); free(ct); return; }
			enckey_region(&reg[2], &m, ri, ril, opener); free(out);
		} else if (!strcmp(kind, "signenv")) {
			int t; uint8_t *out = malloc(m.n + 64); size_t ol; const uint8_t *ri, *si, *cs, *crls, *a1, *a2; size_t ril, sil, csl, crll, l1, l2;
			if (cms_deenvelop_and_verify(m.p, m.n, &keys_pub[opener], certs[opener], certlens[opener], NULL, 0, NULL, 0, &t, out, &ol, &ri, &ril, &si, &sil, &cs, &csl, &crls, &crll, &a1, &l1, &a2, &l2) != 1) { printf("ERR untouched-message-refused"); free(out); msg_free(m.p); free(ct); return; }
			enckey_region(&reg[2], &m, ri, ril, opener); sig_region(sigs, 4, &m, si, sil); free(out);
		} else if (open_enc(&m, SYMKEY, content) != 1) { printf("ERR untouched-message-refused"); msg_free(m.p); free(ct); return; }
	}
	reg[1] = sigs[0]; reg[6] = sigs[1]; reg[7] = sigs[2]; reg[8] = sigs[3];
	for (i = off; i < m.n; i += step) {
		if (listed_only) {
			int in = 0;
			for (k = 0; k < 9; k++) if (k != 5 && k != 4 && reg[k].off >= 0 && (long)i >= reg[k].off && (size_t)i < (size_t)reg[k].off + reg[k].len) in = 1;
			for (idk = 0; idk < 10; idk++) if (idr[idk].off >= 0 && (long)i >= idr[idk].off && (size_t)i < (size_t)idr[idk].off + idr[idk].len) in = 1;
			if (!in) continue;
		}
		/* the eight flips of one byte run in a child: a sanitizer abort inside the parser must not end the sweep */
		int fds[2]; pid_t pid; uint8_t rs[8]; ssize_t got = 0; int st; int ri = 5;
		if (pipe(fds) != 0) break;
		fflush(stdout);
		pid = fork();
		if (pid == 0) {
			close(fds[0]);
			for (b = 0; b < 8; b++) {
				int r;
				m.p[i] ^= (uint8_t)(1 << b);
				if (!strcmp(kind, "sign")) r = open_signed(&m, content, NULL, NULL);
				else if (!strcmp(kind, "env")) r = open_env(&m, &keys_pub[opener], opener, content);
				else if (!strcmp(kind, "enc")) r = open_enc(&m, SYMKEY, content);
				else r = open_signenv(&m, &keys_pub[opener], opener, content);
				/* an accepted change of IV / ciphertext: 3 = although the strict padding of what was sent is broken */
				if (r && reg[3].off >= 0 && reg[4].off >= 0 && !strict_padding_ok(&m, reg[3].off, reg[4].off, reg[4].len, SYMKEY)) r = 3;
				m.p[i] ^= (uint8_t)(1 << b);
				rs[0] = (uint8_t)r; if (write(fds[1], rs, 1) != 1) _exit(3);
			}
			_exit(0);
		}
		close(fds[1]);
		while (got < 8) { ssize_t n = read(fds[0], rs + got, (size_t)(8 - got)); if (n <= 0) break; got += n; }
		close(fds[0]); waitpid(pid, &st, 0);
		for (k = 0; k < 9; k++) if (k != 5 && reg[k].off >= 0 && (long)i >= reg[k].off && (size_t)i < (size_t)reg[k].off + reg[k].len) ri = (k >= 6 ? 1 : k);
		for (idk = 0; idk < 10; idk++) if (idr[idk].off >= 0 && (long)i >= idr[idk].off && (size_t)i < (size_t)idr[idk].off + idr[idk].len) ri = 100 + idk;
		for (b = 0; b < (int)got; b++) {
			tried++;
			if (!rs[b]) continue;
			if (rs[b] == 3) badpad++;
			if (ri >= 100) { if (ri < 108) signerid++; else rcptid++; if (fl_i < 0) { fl_i = (long)i; fl_b = b; fl_r = ri < 108 ? "signerid" : "rcptid"; } continue; }
			reg[ri].accepted++;
			if (ri < 3 && fl_i < 0) { fl_i = (long)i; fl_b = b; fl_r = reg[ri].name; }
		}
		if (got < 8) { crashed++; if (fc_i < 0) { fc_i = (long)i; fc_b = (int)got; } }
	}
	printf("tried=%ld", tried);
	for (k = 0; k < 6; k++) printf(" %s=%ld", reg[k].name, reg[k].accepted);
	printf(" signerid=%ld rcptid=%ld brokenpadding=%ld", signerid, rcptid, badpad);
	printf(" faults=%ld", crashed);
	if (fl_i >= 0) printf(" first=%s:byte%ld/bit%d", fl_r, fl_i, fl_b);
	if (fc_i >= 0) printf(" first_fault=byte%ld/bit%d", fc_i, fc_b);
	msg_free(m.p); free(ct);
}

/* ------------------------------------------------------------------ structural omission (wave 2)
 * omit <sign|env|enc|signenv> <path a.b.c|-> <k>: rebuild the message with child k of the node at <path> removed (lengths
 * recomputed, so the result is well-formed DER) and try to open it.  NOCHILD = the node has no child k. */
static int der_hdr(const uint8_t *p, size_t n, size_t *hl, size_t *cl) {
	size_t l, k, i;
	if (n < 2) return 0;
	if (p[1] < 0x80) { *hl = 2; *cl = p[1]; }
	else { k = p[1] & 0x7f; if (k < 1 || k > 4 || n < 2 + k) return 0; l = 0; for (i = 0; i < k; i++) l = (l << 8) | p[2 + i]; *hl = 2 + k; *cl = l; }
	return *hl + *cl <= n;
}
static size_t put_len(uint8_t *o, size_t l) {
	if (l < 128) { o[0] = (uint8_t)l; return 1; }
	if (l < 256) { o[0] = 0x81; o[1] = (uint8_t)l; return 2; }
	if (l < 65536) { o[0] = 0x82; o[1] = (uint8_t)(l >> 8); o[2] = (uint8_t)l; return 3; }
	o[0] = 0x83; o[1] = (uint8_t)(l >> 16); o[2] = (uint8_t)(l >> 8); o[3] = (uint8_t)l; return 4;
}
/* returns new length written to out, 0 on failure; *nochild set when the target child does not exist */
static size_t der_omit(const uint8_t *p, size_t n, const int *path, size_t plen, int k, uint8_t *out, int *nochild) {
	size_t hl, cl, off = 0, idx = 0, w = 0; uint8_t *tmp; int hit = 0;
	if (!der_hdr(p, n, &hl, &cl)) return 0;
	tmp = malloc(cl + 8);
	while (off < cl) {
		size_t chl, ccl, clen;
		if (!der_hdr(p + hl + off, cl - off, &chl, &ccl)) { free(tmp); return 0; }
		clen = chl + ccl;
		if (plen == 0 && (int)idx == k) { hit = 1; }
		else if (plen > 0 && (int)idx == path[0]) { size_t r = der_omit(p + hl + off, clen, path + 1, plen - 1, k, tmp + w, nochild); if (!r) { free(tmp); return 0; } w += r; hit = 1; }
		else { memcpy(tmp + w, p + hl + off, clen); w += clen; }
		off += clen; idx++;
	}
	if (!hit) { *nochild = 1; free(tmp); return 0; }
	out[0] = p[0]; { size_t ll = put_len(out + 1, w); memcpy(out + 1 + ll, tmp, w); free(tmp); return 1 + ll + w; }
}
static void do_omit(const char *kind, char *pathstr, int k, const buf_t *content) {
	int s1[] = { 1 }, r23[] = { 2, 3 }; blob_t m = { NULL, 0 }, t; int path[8]; size_t plen = 0; int nochild = 0, r; char *save = NULL, *tok;
	if (strcmp(pathstr, "-")) for (tok = strtok_r(pathstr, ".", &save); tok && plen < 8; tok = strtok_r(NULL, ".", &save)) path[plen++] = atoi(tok);
	if (!strcmp(kind, "sign")) m = make_signed(s1, 1, OID_cms_data, content);
	else if (!strcmp(kind, "env")) m = make_env(r23, 2, OID_cms_data, content);
	else if (!strcmp(kind, "enc")) m = make_enc(OID_cms_data, content);
	else if (!strcmp(kind, "signenv")) m = make_signenv(s1, 1, r23, 2, OID_cms_data, content, 1);
	if (!m.p) { printf("ERR produce"); return; }
	t.p = malloc(m.n + 16); t.n = der_omit(m.p, m.n, path, plen, k, t.p, &nochild);
	if (!t.n) { printf(nochild ? "NOCHILD" : "ERR surgery"); msg_free(m.p); free(t.p); return; }
	{ uint8_t *e = malloc(t.n); memcpy(e, t.p, t.n); free(t.p); t.p = e; }   /* exactly sized */
	if (!strcmp(kind, "sign")) r = open_signed(&t, content, NULL, NULL);
	else if (!strcmp(kind, "env")) r = open_env(&t, &keys_pub[2], 2, content);
	else if (!strcmp(kind, "enc")) r = open_enc(&t, SYMKEY, content);
	else r = open_signenv(&t, &keys_pub[2], 2, content);
	printf("%s", r == 0 ? "REFUSED" : r == 1 ? "OPENED-SAME-CONTENT" : "OPENED-OTHER-CONTENT");
	msg_free(m.p); free(t.p);
}

/* fill the stack region the next calls will use with 64-bit words of value 16 */
static void __attribute__((noinline)) poison_stack(void) {
	volatile uint64_t a[6144]; size_t i;
	for (i = 0; i < sizeof a / sizeof a[0]; i++) a[i] = 16;
	(void)a[17];
}
/* lowseq <env|signenv> <rcpts> <member> <outsider> <content>: the low-level public entry point, called back to back from this
 * one frame with everything prepared beforehand: outsider on a poisoned stack, member, outsider again, member, wrong-issuer */
static void do_lowseq(const char *kind, char *rc, int mem, int out, const buf_t *content) {
	int ids[8], s1[] = { 1 }; size_t n = parse_ids(rc, ids, 8); blob_t m; int t, ct, i; const uint8_t *d, *cp; size_t dl, cl;
	const uint8_t *iss[2], *ser[2]; size_t il[2], sl[2]; const uint8_t *ri, *a1, *a2, *cs, *crls, *si; size_t ril, l1, l2, csl, crll, sil;
	uint8_t *o; size_t ol; int r[5]; int who[5]; int isenv = !strcmp(kind, "env");
	if (n == (size_t)-1 || n == 0 || mem < 1 || mem > NK || out < 1 || out > NK) { printf("ERR ids"); return; }
	cur_key = POISONKEY;
	m = isenv ? make_env(ids, n, OID_cms_data, content) : make_signenv(s1, 1, ids, n, OID_cms_data, content, 1);
	cur_key = SYMKEY;
	if (!m.p) { printf("E=ERR"); return; }
	cp = m.p; cl = m.n;
	if (cms_content_info_from_der(&t, &d, &dl, &cp, &cl) != 1
		|| x509_cert_get_issuer_and_serial_number(certs[mem], certlens[mem], &iss[0], &il[0], &ser[0], &sl[0]) != 1
		|| x509_cert_get_issuer_and_serial_number(certs[out], certlens[out], &iss[1], &il[1], &ser[1], &sl[1]) != 1) { printf("ERR prep"); msg_free(m.p); return; }
	o = malloc(m.n + 64);
	who[0] = 1; who[1] = 0; who[2] = 1; who[3] = 0; who[4] = 1;
	for (i = 0; i < 5; i++) {
		const uint8_t *dd = d; size_t ddl = dl; int k = who[i]; int rr;
		if (i == 0) poison_stack();
		ol = 0;
		if (isenv) rr = cms_enveloped_data_decrypt_from_der(&keys_pub[k ? out : mem], iss[k], il[k], ser[k], sl[k], &ct, o, &ol, &ri, &ril, &a1, &l1, &a2, &l2, &dd, &ddl);
		else rr = cms_signed_and_enveloped_data_decipher_from_der(&keys_pub[k ? out : mem], iss[k], il[k], ser[k], sl[k], &ct, o, &ol, &ri, &ril, &a1, &l1, &a2, &l2,
			&cs, &csl, &crls, &crll, &si, &sil, NULL, 0, NULL, 0, &dd, &ddl);
		r[i] = rr != 1 ? 0 : ((ol == content->n && memcmp(o, content->p, ol) == 0) ? 1 : 2);
	}
	printf("E=1 outsider-on-poisoned-stack=%s member=%s outsider-after-member=%s member=%s outsider=%s", res(r[0]), res(r[1]), res(r[2]), res(r[3]), res(r[4]));
	free(o); msg_free(m.p);
}

/* openseq <env|signenv> <rcpts> <openers a.b.c> <content>: one message, opened by each listed party in turn; every party's
 * certificate is loaded into the same shared buffer before its call (same address, same length, other content) */
static void do_openseq(const char *kind, char *rc, char *ops, const buf_t *content) {
	int ids[8], who[8], s1[] = { 1 }; size_t n = parse_ids(rc, ids, 8), k = parse_ids(ops, who, 8), i; blob_t m; int isenv = !strcmp(kind, "env");
	if (n == (size_t)-1 || k == (size_t)-1 || !n || !k) { printf("ERR ids"); return; }
	m = isenv ? make_env(ids, n, OID_cms_data, content) : make_signenv(s1, 1, ids, n, OID_cms_data, content, 1);
	if (!m.p) { printf("E=ERR"); return; }
	printf("E=1");
	for (i = 0; i < k; i++) printf(" %d=%s", who[i], res(isenv ? open_env(&m, &keys_pub[who[i]], who[i], content) : open_signenv(&m, &keys_pub[who[i]], who[i], content)));
}
/* signseq <signersA> <signersB> <contentA> <contentB>: two signed messages, the second copied over the first in the same buffer
 * when their lengths agree; each verified right after it was put there, then the first again */
static void do_signseq(char *sa, char *sb, const buf_t *ca, const buf_t *cb) {
	int ia[8], ib[8]; size_t na = parse_ids(sa, ia, 8), nb = parse_ids(sb, ib, 8); blob_t a, b, sh; uint8_t *keep;
	if (na == (size_t)-1 || nb == (size_t)-1 || !na || !nb) { printf("ERR ids"); return; }
	a = make_signed(ia, na, OID_cms_data, ca);
	if (!a.p) { printf("S=ERR"); return; }
	keep = malloc(a.n); memcpy(keep, a.p, a.n);
	printf("A=%s", res(open_signed(&a, ca, NULL, NULL)));
	b = make_signed(ib, nb, OID_cms_data, cb);            /* same length => same address: overwrites A in place */
	if (!b.p) { printf(" S=ERR"); free(keep); return; }
	printf(" same-buffer=%d B=%s", b.p == a.p, res(open_signed(&b, cb, NULL, NULL)));
	sh.p = reuse_alloc(0, a.n); sh.n = a.n; memcpy(sh.p, keep, a.n);
	printf(" A-again=%s", res(open_signed(&sh, ca, NULL, NULL)));
	free(keep);
}

/* ------------------------------------------------------------------ wave 5: re-encoding with the low-level writers, PEM, data / keyAgreementInfo content
 * cmsrt <kind> <contenthex>: parse a message made by the high-level interface with the *_from_der reader, write the fields back with the
 * matching *_to_der writer, compare with the original bytes */
static void do_cmsrt(const char *kind, const buf_t *content) {
	int s12[] = { 1, 2 }, r23[] = { 2, 3 }; blob_t m = { NULL, 0 }; int t; const uint8_t *d, *cp; size_t dl, cl; uint8_t *out, *p; size_t ol = 0;
	if (!strcmp(kind, "pem")) {
		FILE *fp = tmpfile(); uint8_t *back; size_t bl = 0; int r1, r2;
		m = make_signed(s12, 2, OID_cms_data, content); if (!m.p || !fp) { printf("ERR produce"); return; }
		back = malloc(m.n + 16); r1 = cms_to_pem(m.p, m.n, fp); rewind(fp); r2 = cms_from_pem(back, &bl, m.n + 16, fp); fclose(fp);
		printf("to_pem=%d from_pem=%d same=%d", r1, r2, bl == m.n && !memcmp(back, m.p, bl)); free(back); msg_free(m.p); return; }
	if (!strcmp(kind, "setdata")) {
		size_t len = 0; uint8_t *c; const uint8_t *o; size_t olen; int r;
		if (cms_set_data(NULL, &len, content->p, content->n) != 1) { printf("ERR size"); return; }
		c = malloc(len ? len : 1); ol = 0; r = cms_set_data(c, &ol, content->p, content->n); cp = c; cl = ol;
		/* the size query of cms_set_data over-reports by the second OCTET STRING header (noted, not judged): written <= reported is required */
		if (r != 1 || ol > len || cms_content_info_from_der(&t, &d, &dl, &cp, &cl) != 1 || cl || t != OID_cms_data) { printf("ERR"); free(c); return; }
		if (asn1_octet_string_from_der(&o, &olen, &d, &dl) != 1 || dl) { printf("ERR inner"); free(c); return; }
		printf("same=%d", olen == content->n && (olen == 0 || !memcmp(o, content->p, olen))); free(c); return; }
	if (!strcmp(kind, "kai")) {
		size_t len = 0; uint8_t c[2048]; int v; SM2_KEY pk; const uint8_t *uc, *uid; size_t ucl, uidl;
		if (cms_set_key_agreement_info(c, &len, &keys[2], certs[2], certlens[2], content->p, content->n) != 1) { printf("ERR build"); return; }
		cp = c; cl = len;
		if (cms_content_info_from_der(&t, &d, &dl, &cp, &cl) != 1 || cl || t != OID_cms_key_agreement_info) { printf("ERR outer"); return; }
		if (cms_key_agreement_info_from_der(&v, &pk, &uc, &ucl, &uid, &uidl, &d, &dl) != 1 || dl) { printf("ERR inner"); return; }
		printf("version=%d key=%d cert=%d id=%d", v, sm2_public_key_equ(&pk, &keys[2]) == 1, ucl == certlens[2] && !memcmp(uc, certs[2], ucl), uidl == content->n && (uidl == 0 || !memcmp(uid, content->p, uidl))); return; }
	if (!strcmp(kind, "addrcpt")) {     /* the list builder: two recipients appended, each opens its own entry, a full list is refused and left alone */
		uint8_t ris[1024], key[64]; size_t rl = 0, kl, one, before; int k, opens = 1, full; const uint8_t *is, *sn; size_t il, sl;
		for (k = 2; k <= 3; k++) { if (x509_cert_get_issuer_and_serial_number(certs[k], certlens[k], &is, &il, &sn, &sl) != 1
			|| cms_recipient_infos_add_recipient_info(ris, &rl, sizeof ris, &keys[k], is, il, sn, sl, SYMKEY, 16) != 1) { printf("ERR add"); return; } if (k == 2) one = rl; }
		cp = ris; cl = rl;
		for (k = 2; k <= 3; k++) { x509_cert_get_issuer_and_serial_number(certs[k], certlens[k], &is, &il, &sn, &sl); kl = 0;
			if (cms_recipient_info_decrypt_from_der(&keys[k], is, il, sn, sl, key, &kl, sizeof key, &cp, &cl) != 1 || kl != 16 || memcmp(key, SYMKEY, 16)) opens = 0; }
		before = rl; full = cms_recipient_infos_add_recipient_info(ris, &rl, before + one / 2, &keys[2], is, il, sn, sl, SYMKEY, 16);
		printf("added=2 each-opens=%d left=%zu full-refused=%d", opens, cl, full != 1 && rl == before); return; }
	if (!strcmp(kind, "signed")) m = make_signed(s12, 2, OID_cms_data, content);
	else if (!strcmp(kind, "env")) m = make_env(r23, 2, OID_cms_data, content);
	else if (!strcmp(kind, "enc")) m = make_enc(OID_cms_data, content);
	else if (!strcmp(kind, "signenv")) m = make_signenv(s12, 2, r23, 2, OID_cms_data, content, 1);
	if (!m.p) { printf("ERR produce"); return; }
	cp = m.p; cl = m.n;
	if (cms_content_info_from_der(&t, &d, &dl, &cp, &cl) != 1 || cl) { printf("ERR outer"); msg_free(m.p); return; }
	out = malloc(dl + 64); p = out;
	{	const uint8_t *orig = d; size_t origlen = dl; int ok = 0;
		if (!strcmp(kind, "signed")) {
			int v, da[4], ct; size_t dac; const uint8_t *c, *cs, *crls, *si; size_t cl2, csl, crll, sil;
			if (cms_signed_data_from_der(&v, da, &dac, 4, &ct, &c, &cl2, &cs, &csl, &crls, &crll, &si, &sil, &d, &dl) == 1 && dl == 0) {
				if (ct == OID_cms_data) { const uint8_t *o; size_t olen; if (asn1_octet_string_from_der(&o, &olen, &c, &cl2) == 1) { c = o; cl2 = olen; } }
				ok = cms_signed_data_to_der(v, da, dac, ct, c, cl2, cs, csl, crls, crll, si, sil, &p, &ol) == 1; }
		} else if (!strcmp(kind, "env") || !strcmp(kind, "signenv")) {
			int v, ct, ea, da[4]; size_t dac = 0; const uint8_t *ri, *eci, *iv, *ec, *a1, *a2, *cs = NULL, *crls = NULL, *si = NULL; size_t ril, ecil, ivl, ecl, l1, l2, csl = 0, crll = 0, sil = 0; int r;
			if (!strcmp(kind, "env")) r = cms_enveloped_data_from_der(&v, &ri, &ril, &eci, &ecil, &d, &dl);
			else r = cms_signed_and_enveloped_data_from_der(&v, &ri, &ril, da, &dac, 4, &eci, &ecil, &cs, &csl, &crls, &crll, &si, &sil, &d, &dl);
			if (r == 1 && dl == 0 && cms_enced_content_info_from_der(&ct, &ea, &iv, &ivl, &ec, &ecl, &a1, &l1, &a2, &l2, &eci, &ecil) == 1 && ecil == 0) {
				if (!strcmp(kind, "env")) ok = cms_enveloped_data_to_der(v, ri, ril, ct, ea, iv, ivl, ec, ecl, a1, l1, a2, l2, &p, &ol) == 1;
				else ok = cms_signed_and_enveloped_data_to_der(v, ri, ril, da, dac, ct, ea, iv, ivl, ec, ecl, a1, l1, a2, l2, cs, csl, crls, crll, si, sil, &p, &ol) == 1; }
		} else {
			int v, ct, ea; const uint8_t *iv, *ec, *a1, *a2; size_t ivl, ecl, l1, l2;
			if (cms_encrypted_data_from_der(&v, &ct, &ea, &iv, &ivl, &ec, &ecl, &a1, &l1, &a2, &l2, &d, &dl) == 1 && dl == 0)
				ok = cms_encrypted_data_to_der(v, ct, ea, iv, ivl, ec, ecl, a1, l1, a2, l2, &p, &ol) == 1;
		}
		printf("parsed-and-rewritten=%d same=%d", ok, ok && ol == origlen && !memcmp(out, orig, ol));
	}
	free(out); msg_free(m.p);
}


/* ---- cmsenc: the low-level *_to_der writers on given (pointer, length) arguments; "-" NULL, "e" non-NULL and empty, else hex.
   Output: ERR, or the bytes and whether the matching *_from_der hands the same fields back. */
typedef struct { const uint8_t *p; size_t n; uint8_t *own; } fld_t;
static fld_t fld(const char *s) {
	static const uint8_t nothing[1] = { 0 }; fld_t f = { NULL, 0, NULL };
	if (!strcmp(s, "-")) return f;
	if (!strcmp(s, "e")) { f.p = nothing; return f; }
	{ buf_t b = hex2buf(s); f.p = b.p; f.n = b.n; f.own = b.p; } return f;
}
static int alg_of(const char *s) {
	return !strcmp(s, "sm3") ? OID_sm3 : !strcmp(s, "sm2sm3") ? OID_sm2sign_with_sm3 : !strcmp(s, "sm2enc") ? OID_sm2encrypt
		: !strcmp(s, "sm4cbc") ? OID_sm4_cbc : !strcmp(s, "undef") ? OID_undef : 9999;
}
static int ctype_num(const char *s) { int k = atoi(s); return k >= 1 && k <= 6 ? OID_cms_data + (k - 1) : 9999; }
static size_t algs_of(const char *s, int *out, size_t max) {
	size_t k = 0; char tmp[128], *save = NULL, *t; if (!strcmp(s, "-")) return 0;
	snprintf(tmp, sizeof tmp, "%s", s);
	for (t = strtok_r(tmp, ".", &save); t && k < max; t = strtok_r(NULL, ".", &save)) out[k++] = alg_of(t);
	return k;
}
static int same(const uint8_t *a, size_t al, const fld_t *f) { return al == f->n && (al == 0 || !memcmp(a, f->p, al)); }
static int same_int(const uint8_t *a, size_t al, const fld_t *f) {      /* the value comes back without leading zero octets */
	const uint8_t *q = f->p; size_t n = f->n; while (n > 1 && *q == 0) { q++; n--; } return al == n && (n == 0 || !memcmp(a, q, n)); }
static void do_cmsenc(size_t nw, char **w) {
	fld_t f[12]; size_t nf = 0, i; uint8_t *out = malloc(70000), *p = out; size_t ol = 0; int r = -1, back = 0; const uint8_t *cp; size_t cl;
	const char *k = w[1];
	memset(f, 0, sizeof f);
#define F(i_, s_) (f[i_] = fld(s_), nf = nf > (size_t)(i_) + 1 ? nf : (size_t)(i_) + 1)
	if (!strcmp(k, "ias") && nw == 4) {
		const uint8_t *is, *sn; size_t isl, snl; F(0, w[2]); F(1, w[3]);
		r = cms_issuer_and_serial_number_to_der(f[0].p, f[0].n, f[1].p, f[1].n, &p, &ol); cp = out; cl = ol;
		if (r == 1) back = cms_issuer_and_serial_number_from_der(&is, &isl, &sn, &snl, &cp, &cl) == 1 && cl == 0 && same(is, isl, &f[0]) && same_int(sn, snl, &f[1]);
	} else if (!strcmp(k, "si") && nw == 10) {
		int v, da, sa; const uint8_t *is, *sn, *au, *sg, *un; size_t isl, snl, aul, sgl, unl;
		F(0, w[3]); F(1, w[4]); F(2, w[6]); F(3, w[8]); F(4, w[9]);
		r = cms_signer_info_to_der(atoi(w[2]), f[0].p, f[0].n, f[1].p, f[1].n, alg_of(w[5]), f[2].p, f[2].n, alg_of(w[7]), f[3].p, f[3].n, f[4].p, f[4].n, &p, &ol); cp = out; cl = ol;
		if (r == 1) back = cms_signer_info_from_der(&v, &is, &isl, &sn, &snl, &da, &au, &aul, &sa, &sg, &sgl, &un, &unl, &cp, &cl) == 1 && cl == 0
			&& v == atoi(w[2]) && da == alg_of(w[5]) && sa == alg_of(w[7]) && same(is, isl, &f[0]) && same_int(sn, snl, &f[1]) && same(au, aul, &f[2]) && same(sg, sgl, &f[3]) && same(un, unl, &f[4])
			&& (au == NULL) == (f[2].p == NULL) && (un == NULL) == (f[4].p == NULL);
	} else if (!strcmp(k, "ri") && nw == 7) {
		int v, pa; const uint8_t *is, *sn, *pp, *ek; size_t isl, snl, ppl, ekl;
		F(0, w[3]); F(1, w[4]); F(2, w[6]);
		r = cms_recipient_info_to_der(atoi(w[2]), f[0].p, f[0].n, f[1].p, f[1].n, alg_of(w[5]), f[2].p, f[2].n, &p, &ol); cp = out; cl = ol;
		if (r == 1) back = cms_recipient_info_from_der(&v, &is, &isl, &sn, &snl, &pa, &pp, &ppl, &ek, &ekl, &cp, &cl) == 1 && cl == 0
			&& v == atoi(w[2]) && pa == alg_of(w[5]) && ppl == 0 && same(is, isl, &f[0]) && same_int(sn, snl, &f[1]) && same(ek, ekl, &f[2]);
	} else if (!strcmp(k, "da") && nw == 3) {
		int a[8], b[8]; size_t n = algs_of(w[2], a, 8), bn = 0;
		r = cms_digest_algors_to_der(a, n, &p, &ol); cp = out; cl = ol;
		if (r == 1) back = cms_digest_algors_from_der(b, &bn, 8, &cp, &cl) == 1 && cl == 0 && bn == n && !memcmp(a, b, n * sizeof(int));
	} else if (!strcmp(k, "ci") && nw == 4) {
		int t; const uint8_t *c; size_t cl2; F(0, w[3]);
		r = cms_content_info_to_der(ctype_num(w[2]), f[0].p, f[0].n, &p, &ol); cp = out; cl = ol;
		if (r == 1 && cms_content_info_from_der(&t, &c, &cl2, &cp, &cl) == 1 && cl == 0 && t == ctype_num(w[2])) {
			if (t == OID_cms_data) { const uint8_t *o; size_t olen; back = asn1_octet_string_from_der(&o, &olen, &c, &cl2) == 1 && cl2 == 0 && same(o, olen, &f[0]); }
			else back = same(c, cl2, &f[0]) && (c == NULL) == (f[0].p == NULL); }
	} else if (!strcmp(k, "sd") && nw == 9) {
		int a[8], b[8], v, t; size_t n = algs_of(w[3], a, 8), bn = 0; const uint8_t *c, *cs, *cr, *si; size_t cl2, csl, crl, sil;
		F(0, w[5]); F(1, w[6]); F(2, w[7]); F(3, w[8]);
		r = cms_signed_data_to_der(atoi(w[2]), a, n, ctype_num(w[4]), f[0].p, f[0].n, f[1].p, f[1].n, f[2].p, f[2].n, f[3].p, f[3].n, &p, &ol); cp = out; cl = ol;
		if (r == 1 && cms_signed_data_from_der(&v, b, &bn, 8, &t, &c, &cl2, &cs, &csl, &cr, &crl, &si, &sil, &cp, &cl) == 1 && cl == 0) {
			if (t == OID_cms_data) { const uint8_t *o; size_t olen; if (asn1_octet_string_from_der(&o, &olen, &c, &cl2) == 1 && cl2 == 0) { c = o; cl2 = olen; } else cl2 = (size_t)-1; }
			back = v == atoi(w[2]) && bn == n && !memcmp(a, b, n * sizeof(int)) && t == ctype_num(w[4]) && same(c, cl2, &f[0]) && same(cs, csl, &f[1]) && same(cr, crl, &f[2]) && same(si, sil, &f[3])
				&& (cs == NULL) == (f[1].p == NULL) && (cr == NULL) == (f[2].p == NULL); }
	} else if ((!strcmp(k, "ed") && nw == 10) || (!strcmp(k, "sed") && nw == 14)) {
		int sed = !strcmp(k, "sed"), a[8], b[8], v, ct, ea; size_t n = 0, bn = 0, o = sed ? 1 : 0;
		const uint8_t *ri, *eci, *iv, *ec, *a1, *a2, *cs = NULL, *cr = NULL, *si = NULL; size_t ril, ecil, ivl, ecl, l1, l2, csl = 0, crl = 0, sil = 0; int rr;
		F(0, w[3]); if (sed) n = algs_of(w[4], a, 8);
		F(1, w[6 + o]); F(2, w[7 + o]); F(3, w[8 + o]); F(4, w[9 + o]);
		if (sed) { F(5, w[11]); F(6, w[12]); F(7, w[13]); }
		if (!sed) r = cms_enveloped_data_to_der(atoi(w[2]), f[0].p, f[0].n, ctype_num(w[4]), alg_of(w[5]), f[1].p, f[1].n, f[2].p, f[2].n, f[3].p, f[3].n, f[4].p, f[4].n, &p, &ol);
		else r = cms_signed_and_enveloped_data_to_der(atoi(w[2]), f[0].p, f[0].n, a, n, ctype_num(w[5]), alg_of(w[6]), f[1].p, f[1].n, f[2].p, f[2].n, f[3].p, f[3].n, f[4].p, f[4].n,
			f[5].p, f[5].n, f[6].p, f[6].n, f[7].p, f[7].n, &p, &ol);
		cp = out; cl = ol;
		if (r == 1) {
			if (!sed) rr = cms_enveloped_data_from_der(&v, &ri, &ril, &eci, &ecil, &cp, &cl);
			else rr = cms_signed_and_enveloped_data_from_der(&v, &ri, &ril, b, &bn, 8, &eci, &ecil, &cs, &csl, &cr, &crl, &si, &sil, &cp, &cl);
			back = rr == 1 && cl == 0 && v == atoi(w[2]) && same(ri, ril, &f[0])
				&& cms_enced_content_info_from_der(&ct, &ea, &iv, &ivl, &ec, &ecl, &a1, &l1, &a2, &l2, &eci, &ecil) == 1 && ecil == 0
				&& ct == ctype_num(w[4 + o]) && ea == alg_of(w[5 + o]) && same(iv, ivl, &f[1]) && same(ec, ecl, &f[2]) && same(a1, l1, &f[3]) && same(a2, l2, &f[4])
				&& (ec == NULL) == (f[2].p == NULL) && (a1 == NULL) == (f[3].p == NULL) && (a2 == NULL) == (f[4].p == NULL);
			if (sed) back = back && bn == n && !memcmp(a, b, n * sizeof(int)) && same(cs, csl, &f[5]) && same(cr, crl, &f[6]) && same(si, sil, &f[7])
				&& (cs == NULL) == (f[5].p == NULL) && (cr == NULL) == (f[6].p == NULL);
		}
	} else { printf("ERR bad-op"); free(out); return; }
#undef F
	if (r != 1) printf("ERR"); else { puthex(out, ol); printf(" back=%d", back); }
	for (i = 0; i < nf; i++) free(f[i].own);
	free(out);
}


/* ---- cmsprint <kind>: the text renderer on a message of each kind; names: content-type table both ways */
static void do_cmsprint(const char *kind) {
	int s12[] = { 1, 2 }, r23[] = { 2, 3 }; blob_t m = { NULL, 0 }; buf_t c; FILE *fp = tmpfile(); int r; long size; uint8_t kai[2048]; size_t kl = 0;
	static uint8_t body[40] = { 1, 2, 3 }; c.p = body; c.n = sizeof body;
	if (!fp) { printf("ERR tmpfile"); return; }
	if (!strcmp(kind, "names")) { int id, n = 0, bad = 0; const char *nm;
		for (id = OID_cms_data; id <= OID_cms_key_agreement_info; id++) { nm = cms_content_type_name(id); if (nm) { n++; if (cms_content_type_from_name(nm) != id) bad++; } }
		printf("named=%d wrong-way-back=%d unknown-refused=%d", n, bad, cms_content_type_from_name("no-such") <= 0 && cms_content_type_name(0) == NULL); fclose(fp); return; }
	if (!strcmp(kind, "signed")) m = make_signed(s12, 2, OID_cms_data, &c);
	else if (!strcmp(kind, "env")) m = make_env(r23, 2, OID_cms_data, &c);
	else if (!strcmp(kind, "enc")) m = make_enc(OID_cms_data, &c);
	else if (!strcmp(kind, "signenv")) m = make_signenv(s12, 2, r23, 2, OID_cms_data, &c, 1);
	else if (!strcmp(kind, "data")) { size_t len = 0; if (cms_set_data(NULL, &len, c.p, c.n) == 1) { m.p = malloc(len + 1); m.n = 0; if (cms_set_data(m.p, &m.n, c.p, c.n) != 1) { free(m.p); m.p = NULL; } } }
	else if (!strcmp(kind, "kai")) { if (cms_set_key_agreement_info(kai, &kl, &keys[2], certs[2], certlens[2], c.p, c.n) == 1) { m.p = kai; m.n = kl; } }
	if (!m.p) { printf("ERR produce"); fclose(fp); return; }
	r = cms_print(fp, 0, 0, "CMS", m.p, m.n); fflush(fp); size = ftell(fp); fclose(fp);
	printf("print=%d text=%d", r, size > 40);
	if (!strcmp(kind, "data")) free(m.p); else if (strcmp(kind, "kai")) msg_free(m.p);
}


/* ---- threads <sign|env> <n> <iters>: n threads, each with its own parties, content and buffers, produce and open messages at the
   same time; every message must open to its own content with its own parties (nothing of another thread's call may show up) */
#include <pthread.h>
typedef struct { int kind, id; long iters, bad; } cthr_t;
static void *cthr_main(void *arg) {
	cthr_t *t = arg; long n; uint8_t content[300]; size_t clen = 40 + 37 * (size_t)t->id; uint8_t *msg = malloc(16384), *out = malloc(16384);
	memset(content, 0x40 + t->id, sizeof content);
	for (n = 0; n < t->iters; n++) {
		size_t ml = 0; int ok = 0; content[0] = (uint8_t)n;
		if (t->kind == 0) {
			CMS_CERTS_AND_KEY sg[2]; size_t ns = 1 + (size_t)(t->id & 1), i, nc = 0; int ct; const uint8_t *c, *cs, *crls, *si, *d; size_t cl, csl, crll, sil, dl;
			for (i = 0; i < ns; i++) { int k = 1 + ((t->id + (int)i) % 6); sg[i].certs = certs[k]; sg[i].certs_len = certlens[k]; sg[i].sign_key = &keys[k]; }
			if (cms_sign(msg, &ml, sg, ns, OID_cms_data, content, clen, NULL, 0) == 1
				&& cms_verify(msg, ml, NULL, 0, NULL, 0, &ct, &c, &cl, &cs, &csl, &crls, &crll, &si, &sil) == 1
				&& asn1_octet_string_from_der(&d, &dl, &c, &cl) == 1 && dl == clen && !memcmp(d, content, clen)
				&& x509_certs_get_count(cs, csl, &nc) == 1 && nc == ns) ok = 1;
		} else {
			int k = 1 + (t->id % 6), k2 = 1 + ((t->id + 1) % 6), ct; uint8_t rc[4096]; size_t rl = 0, ol = 0; const uint8_t *ri, *s1, *s2; size_t ril, s1l, s2l;
			memcpy(rc, certs[k], certlens[k]); rl = certlens[k]; memcpy(rc + rl, certs[k2], certlens[k2]); rl += certlens[k2];
			if (cms_envelop(msg, &ml, rc, rl, OID_sm4_cbc, SYMKEY, 16, IV, 16, OID_cms_data, content, clen, NULL, 0, NULL, 0) == 1
				&& cms_deenvelop(msg, ml, &keys[k2], certs[k2], certlens[k2], &ct, out, &ol, &ri, &ril, &s1, &s1l, &s2, &s2l) == 1
				&& ol == clen && !memcmp(out, content, clen)) ok = 1;
		}
		if (!ok) t->bad++;
	}
	free(msg); free(out); return NULL;
}
static void do_cthreads(const char *kind, int n, long iters) {
	cthr_t t[4]; pthread_t th[4]; int i; long bad = 0;
	if (n < 1 || n > 4) { printf("ERR n"); return; }
	for (i = 0; i < n; i++) { t[i].kind = !strcmp(kind, "sign") ? 0 : 1; t[i].id = i; t[i].iters = iters; t[i].bad = 0; }
	for (i = 0; i < n; i++) pthread_create(&th[i], NULL, cthr_main, &t[i]);
	for (i = 0; i < n; i++) { pthread_join(th[i], NULL); bad += t[i].bad; }
	printf("bad=%ld", bad);
}


/* ---- sigtrail <n> <fill> <content>: a one-signer SignedData rewritten with n octets after the signature value inside the
   SignerInfo's encryptedDigest (n = 0: control, must stay byte-identical and verify) */
static void do_sigtrail(int n, int fill, const buf_t *content) {
	int s1[] = { 1 }; blob_t m = make_signed(s1, 1, OID_cms_data, content); int t, v, da[4], ct, siv, sda, ssa, r0, r1; size_t dac;
	const uint8_t *cp, *d, *c, *cs, *crls, *si, *o, *one, *is, *sn, *au, *sg, *un; size_t cl, dl, cl2, csl, crll, sil, olen, onel, isl, snl, aul, sgl, unl;
	uint8_t sig2[400], si2[1024], sd[8192], *p; size_t si2l = 0, sdl = 0, total = 0; uint8_t *msg; buf_t copy;
	if (!m.p || n < 0 || n > 200) { printf("ERR produce"); return; }
	copy.p = malloc(content->n + 1); copy.n = content->n; memcpy(copy.p, content->p, content->n);
	cp = m.p; cl = m.n;
	if (cms_content_info_from_der(&t, &d, &dl, &cp, &cl) != 1 || cl
		|| cms_signed_data_from_der(&v, da, &dac, 4, &ct, &c, &cl2, &cs, &csl, &crls, &crll, &si, &sil, &d, &dl) != 1 || dl
		|| asn1_octet_string_from_der(&o, &olen, &c, &cl2) != 1
		|| asn1_sequence_from_der(&one, &onel, &si, &sil) != 1 || sil) { printf("ERR parse"); msg_free(m.p); free(copy.p); return; }
	{ const uint8_t *q = one - 0; size_t ql = onel; const uint8_t *whole = si - onel - (onel < 128 ? 2 : onel < 256 ? 3 : 4); size_t wl = (size_t)(si - whole);
	  (void)q; (void)ql;
	  if (cms_signer_info_from_der(&siv, &is, &isl, &sn, &snl, &sda, &au, &aul, &ssa, &sg, &sgl, &un, &unl, &whole, &wl) != 1 || wl || sgl + (size_t)n > sizeof sig2) { printf("ERR signer-info"); msg_free(m.p); free(copy.p); return; } }
	memcpy(sig2, sg, sgl); memset(sig2 + sgl, fill, (size_t)n);
	p = si2;
	if (cms_signer_info_to_der(siv, is, isl, sn, snl, sda, au, aul, ssa, sig2, sgl + (size_t)n, un, unl, &p, &si2l) != 1) { printf("ERR rewrite"); msg_free(m.p); free(copy.p); return; }
	p = sd;
	if (cms_signed_data_to_der(v, da, dac, ct, o, olen, cs, csl, crls, crll, si2, si2l, &p, &sdl) != 1) { printf("ERR rewrite"); msg_free(m.p); free(copy.p); return; }
	msg = malloc(sdl + 64); p = msg;
	if (cms_content_info_header_to_der(OID_cms_signed_data, sdl, &p, &total) != 1) { printf("ERR header"); free(msg); msg_free(m.p); free(copy.p); return; }
	memcpy(p, sd, sdl); total += sdl;
	r0 = open_signed(&m, &copy, NULL, NULL);
	{ blob_t m2 = { msg, total }; r1 = open_signed(&m2, &copy, NULL, NULL); }
	printf("issued=%d rewritten=%d same-bytes=%d", r0 == 1, r1 == 1, total == m.n && !memcmp(msg, m.p, total));
	free(msg); msg_free(m.p); free(copy.p);
}

static void handle(size_t nw, char **w) {
	ent_seed(0xC16 + nw, -1);
	ent_clock(1700000000);
	if (!strcmp(w[0], "sign") && nw == 4) {
		int ids[8]; size_t n = parse_ids(w[1], ids, 8); buf_t c = hex2buf(w[3]); blob_t m; size_t nc = 0, ni = 0; int r;
		if (n == (size_t)-1) { printf("ERR ids"); free(c.p); return; }
		m = make_signed(ids, n, ctype_of(w[2]), &c);
		if (!m.p) { printf("S=ERR"); free(c.p); return; }
		r = open_signed(&m, &c, &nc, &ni);
		printf("S=1 V=%s", res(r)); if (r) printf(" ncerts=%zu ninfos=%zu", nc, ni);
		msg_free(m.p); free(c.p);
	}
	else if (!strcmp(w[0], "sign0") && nw == 3) {
		buf_t c = hex2buf(w[2]); blob_t m = make_signed0(&c, !strcmp(w[1], "empty") ? 0 : !strcmp(w[1], "absent") ? 1 : !strcmp(w[1], "junk") ? 2 : 9);
		if (!m.p) printf("ERR produce"); else printf("V=%s", res(open_signed(&m, &c, NULL, NULL)));
		msg_free(m.p); free(c.p);
	}
	else if (!strcmp(w[0], "env") && nw == 5) {
		int ids[8]; size_t n = parse_ids(w[1], ids, 8); int op = atoi(w[2]); buf_t c = hex2buf(w[4]); blob_t m;
		if (n == (size_t)-1 || op < 1 || op > NK) { printf("ERR ids"); free(c.p); return; }
		m = make_env(ids, n, OID_cms_data, &c);
		if (!m.p) printf("E=ERR"); else printf("E=1 D=%s", res(open_env(&m, key_from(w[3], op), op, &c)));
		msg_free(m.p); free(c.p);
	}
	else if (!strcmp(w[0], "envseq") && nw == 5) {      /* envseq <rcpts> <member> <outsider> <content>: the same frame opens twice */
		int ids[8]; size_t n = parse_ids(w[1], ids, 8); int mem = atoi(w[2]), out = atoi(w[3]); buf_t c = hex2buf(w[4]); blob_t m; int r1, r2, r3;
		if (n == (size_t)-1 || mem < 1 || mem > NK || out < 1 || out > NK) { printf("ERR ids"); free(c.p); return; }
		cur_key = POISONKEY; m = make_env(ids, n, OID_cms_data, &c); cur_key = SYMKEY;
		if (!m.p) { printf("E=ERR"); free(c.p); return; }
		poison_stack(); r2 = open_env(&m, &keys_pub[out], out, &c);
		r1 = open_env(&m, &keys_pub[mem], mem, &c); r2 = r2 ? r2 : open_env(&m, &keys_pub[out], out, &c); r3 = open_env(&m, &keys_pub[mem], mem, &c);
		printf("E=1 member=%s outsider=%s member-again=%s", res(r1), res(r2), res(r3));
		r1 = open_env_low(&m, mem, &c); r2 = open_env_low(&m, out, &c); r3 = open_env_low(&m, out, &c);
		printf(" low:member=%s outsider=%s outsider-again=%s", res(r1), res(r2), res(r3));
		msg_free(m.p); free(c.p);
	}
	else if (!strcmp(w[0], "signenvseq") && nw == 5) {
		int ids[8], s1[] = { 1 }; size_t n = parse_ids(w[1], ids, 8); int mem = atoi(w[2]), out = atoi(w[3]); buf_t c = hex2buf(w[4]); blob_t m; int r1, r2;
		if (n == (size_t)-1 || mem < 1 || mem > NK || out < 1 || out > NK) { printf("ERR ids"); free(c.p); return; }
		cur_key = POISONKEY; m = make_signenv(s1, 1, ids, n, OID_cms_data, &c, 1); cur_key = SYMKEY;
		if (!m.p) { printf("E=ERR"); free(c.p); return; }
		poison_stack(); r2 = open_signenv(&m, &keys_pub[out], out, &c);
		r1 = open_signenv(&m, &keys_pub[mem], mem, &c); r2 = r2 ? r2 : open_signenv(&m, &keys_pub[out], out, &c);
		printf("E=1 member=%s outsider=%s", res(r1), res(r2));
		r1 = open_signenv_low(&m, mem, &c); r2 = open_signenv_low(&m, out, &c);
		printf(" low:member=%s outsider=%s", res(r1), res(r2));
		msg_free(m.p); free(c.p);
	}
	else if (!strcmp(w[0], "openseq") && nw == 5) { buf_t c = hex2buf(w[4]); do_openseq(w[1], w[2], w[3], &c); free(c.p); }
	else if (!strcmp(w[0], "signseq") && nw == 5) { buf_t a = hex2buf(w[3]), b = hex2buf(w[4]); do_signseq(w[1], w[2], &a, &b); free(a.p); free(b.p); }
	else if (!strcmp(w[0], "cmsenc") && nw >= 3) do_cmsenc(nw, w);
	else if (!strcmp(w[0], "cmsprint") && nw == 2) do_cmsprint(w[1]);
	else if (!strcmp(w[0], "sigtrail") && nw == 4) { buf_t c = hex2buf(w[3]); do_sigtrail(atoi(w[1]), atoi(w[2]), &c); free(c.p); }
	else if (!strcmp(w[0], "threads") && nw == 4) do_cthreads(w[1], atoi(w[2]), strtol(w[3], NULL, 10));
	else if (!strcmp(w[0], "cmsrt") && nw == 3) { buf_t c = hex2buf(w[2]); do_cmsrt(w[1], &c); free(c.p); }
	else if (!strcmp(w[0], "lowseq") && nw == 6) { buf_t c = hex2buf(w[5]); do_lowseq(w[1], w[2], atoi(w[3]), atoi(w[4]), &c); free(c.p); }
	else if (!strcmp(w[0], "enc") && nw == 3) {
		buf_t c = hex2buf(w[2]); blob_t m = make_enc(OID_cms_data, &c); uint8_t k2[16]; memcpy(k2, SYMKEY, 16); if (atoi(w[1])) k2[5] ^= 1;
		if (!m.p) printf("E=ERR"); else printf("E=1 D=%s", res(open_enc(&m, k2, &c)));
		msg_free(m.p); free(c.p);
	}
	else if (!strcmp(w[0], "signenv") && nw == 7) {
		int sids[8], rids[8]; size_t ns = parse_ids(w[1], sids, 8), nr = parse_ids(w[2], rids, 8); int op = atoi(w[3]); buf_t c = hex2buf(w[6]); blob_t m;
		if (ns == (size_t)-1 || nr == (size_t)-1 || op < 1 || op > NK) { printf("ERR ids"); free(c.p); return; }
		m = make_signenv(sids, ns, rids, nr, OID_cms_data, &c, atoi(w[5]));
		if (!m.p) printf("E=ERR"); else printf("E=1 D=%s", res(open_signenv(&m, key_from(w[4], op), op, &c)));
		msg_free(m.p); free(c.p);
	}
	else if (!strcmp(w[0], "omit") && nw == 5) { buf_t c = hex2buf(w[4]); do_omit(w[1], w[2], atoi(w[3]), &c); free(c.p); }
	else if (!strcmp(w[0], "tamper") && nw == 5) { buf_t c = hex2buf(w[4]); do_tamper(w[1], strtoul(w[2], NULL, 10), strtoul(w[3], NULL, 10), &c); free(c.p); }
	else printf("ERR bad-op");
}

int main(void) {
	int i;
	quiet_stderr();
	ent_seed(0xC16C16, -1);
	for (i = 1; i <= NK; i++) if (sm2_key_generate(&keys[i]) != 1 || make_cert(i) != 1 || import_keys(i) != 1) { printf("SETUP-FAIL %d\n", i); return 2; }
	{ uint8_t name[256]; size_t namelen = 0; uint8_t *p = crl1;
	  if (x509_name_set(name, &namelen, sizeof name, "CN", NULL, NULL, "VERIF", NULL, "U1") != 1
		|| x509_crl_sign_to_der(X509_version_v2, OID_sm2sign_with_sm3, name, namelen, 1600000000, 1900000000, NULL, 0, NULL, 0,
			&keys[1], SM2_DEFAULT_ID, SM2_DEFAULT_ID_LENGTH, &p, &crl1len) != 1) { printf("SETUP-FAIL crl\n"); return 2; } }
	main_loop(handle);
	return 0;
}
