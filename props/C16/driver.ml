(* C16 model driver: symbolic CMS model (Pki/Cms.v) evaluated for the repaired and the legacy
   setting of the three repairs; prints "<repaired> | <legacy>". *)
let ni = n_of_int
let split c s = String.split_on_char c s
let ids s = if s = "-" then [] else List.map int_of_string (split '.' s)
let cert_of i = { c_id = ni i; c_pub = ni (100 + i) }
let signer_of i = { s_cert = cert_of i; s_key = { k_priv = ni (100 + i); k_pub = ni (100 + i); k_normalised = true } }
let keyobj_of src i = { k_priv = ni (100 + i); k_pub = ni (100 + i); k_normalised = (src = "pub") }
let content_of ct hex = (ni (match ct with "data" -> 1 | "signed" -> 2 | _ -> 5), bytes_of_hex hex)
let settings = [ { fix_signer_key = true; fix_key_compare = true; fix_no_crl = true };
                 { fix_signer_key = false; fix_key_compare = false; fix_no_crl = false } ]
let both f = String.concat " | " (List.map f settings)


(* ---- cmsenc: the DER layer (Pki/CmsCodec.v) *)
let fld_of s = if s = "-" then None else if s = "e" then Some [] else Some (bytes_of_hex s)
let hx = bytes_of_hex
(* each table knows its own numbers only *)
let dalg_tlv s = if s = "sm3" then Some (hx "300a06082a811ccf55018311") else None
let salg_tlv s = if s = "sm2sm3" then Some (hx "300a06082a811ccf55018375") else None
let palg_tlv s = if s = "sm2enc" then Some (hx "300b06092a811ccf5501822d02") else None
let ealg_oid s = if s = "sm4cbc" then Some (hx "06082a811ccf55016802") else None
let ctype_tlv s = match int_of_string_opt s with
  | Some k when k >= 1 && k <= 6 -> Some (hx (Printf.sprintf "060a2a811ccf55060104020%d" k)) | _ -> None
let algs_of s = if s = "-" then [] else List.map dalg_tlv (split '.' s)
let seq_content b = match b with Some (_ :: rest) -> (match len_dec rest with Some (_, c) -> Some c | None -> None) | _ -> None
let present t c = Some (ni t, c)
let iv16 iv = (match fld_of iv with Some b -> List.length b = 16 | None -> false)
let cmsenc ws =
  let out e back = match e with None -> "ERR" | Some b -> Printf.sprintf "%s back=%d" (hex_of_bytes b) (if back b then 1 else 0) in
  let reads layout expected b = (struct_from_der layout b = Some expected) in
  let sc x = match seq_content x with Some c -> c | None -> [] in
  match ws with
  | ["ias"; i; s] ->
    let fi = fld_of i and fs = fld_of s in
    out (ias_to_der fi fs) (fun b -> match fi, fs with
      | Some ib, Some sb -> reads ias_layout [present 48 ib; present 2 (integer_content sb)] b | _ -> false)
  | ["si"; v; i; s; da; au; sa; sg; un] ->
    let fi = fld_of i and fs = fld_of s and fau = fld_of au and fsg = fld_of sg and fun_ = fld_of un in
    out (signer_info_to_der (ni (int_of_string v)) fi fs (dalg_tlv da) fau (salg_tlv sa) fsg fun_) (fun b ->
      match fsg with Some g ->
        reads signer_info_layout [present 2 [ni 1]; present 48 (sc (ias_to_der fi fs)); present 48 (sc (dalg_tlv da));
          opt_value (ni 160) fau; present 48 (sc (salg_tlv sa)); present 4 g; opt_value (ni 161) fun_] b
      | None -> false)
  | ["ri"; v; i; s; pa; ek] ->
    let fi = fld_of i and fs = fld_of s and fek = fld_of ek in
    out (recipient_info_to_der (ni (int_of_string v)) fi fs (palg_tlv pa) fek) (fun b ->
      match fek with Some k ->
        reads recipient_info_layout [present 2 [ni 1]; present 48 (sc (ias_to_der fi fs)); present 48 (sc (palg_tlv pa)); present 4 k] b
      | None -> false)
  | ["da"; a] -> out (digest_algors_to_der (algs_of a)) (fun _ -> algs_of a <> [])
  | ["ci"; ct; c] ->
    out (content_info_to_der (ct = "1") (ctype_tlv ct) (fld_of c)) (fun _ -> true)
  | ["sd"; v; a; ct; c; cs; cr; si] ->
    let ci = content_info_to_der (ct = "1") (ctype_tlv ct) (fld_of c) and fcs = fld_of cs and fcr = fld_of cr and fsi = fld_of si in
    out (signed_data_to_der (ni (int_of_string v)) (algs_of a) ci fcs fcr fsi) (fun b ->
      (* the reader wants version 1 and at least one digest algorithm; an empty [0] / [1] comes back as present and empty *)
      v = "1" && algs_of a <> [] &&
      (match fsi with Some sis ->
        reads signed_data_layout [present 2 [ni 1]; present 49 (sc (digest_algors_to_der (algs_of a))); present 48 (sc ci);
          opt_value (ni 160) fcs; opt_value (ni 161) fcr; present 49 sis] b
      | None -> false))
  | ["ed"; v; ri; ct; ea; iv; ec; s1; s2] ->
    let eci = enced_content_info_to_der (ctype_tlv ct) (ealg_oid ea) (fld_of iv) (fld_of ec) (fld_of s1) (fld_of s2) and fri = fld_of ri in
    out (enveloped_data_to_der (ni (int_of_string v)) fri eci) (fun b ->
      iv16 iv && match fri with Some r -> reads enveloped_data_layout [Some (ni 2, small_int_content (ni (int_of_string v))); present 49 r; present 48 (sc eci)] b | None -> false)
  | ["sed"; v; ri; a; ct; ea; iv; ec; s1; s2; cs; cr; si] ->
    let eci = enced_content_info_to_der (ctype_tlv ct) (ealg_oid ea) (fld_of iv) (fld_of ec) (fld_of s1) (fld_of s2) in
    let fri = fld_of ri and fcs = fld_of cs and fcr = fld_of cr and fsi = fld_of si in
    out (signed_and_enveloped_data_to_der (ni (int_of_string v)) fri (algs_of a) eci fcs fcr fsi) (fun b ->
      (* this reader (like EnvelopedData's) does not look at the version number *)
      iv16 iv && algs_of a <> [] &&
      (match fri, fsi with Some r, Some sis ->
        reads signed_and_enveloped_data_layout [Some (ni 2, small_int_content (ni (int_of_string v))); present 49 r; present 49 (sc (digest_algors_to_der (algs_of a))); present 48 (sc eci);
          opt_value (ni 160) fcs; opt_value (ni 161) fcr; present 49 sis] b
      | _ -> false))
  | _ -> "ERR bad-op"

let handle ws = match ws with
  | "cmsenc" :: rest -> let l = cmsenc rest in l ^ " | " ^ l
  | ["sign"; s; ct; c] ->
    let signers = List.map signer_of (ids s) and con = content_of ct c in
    both (fun f -> match cms_sign f signers con with
      | None -> "S=ERR"
      | Some sd -> (match cms_verify sd with
          | Some (c', certs) -> if c' = con then Printf.sprintf "S=1 V=1 ncerts=%d ninfos=%d" (List.length certs) (List.length sd.sd_infos) else "S=1 V=OTHER-CONTENT"
          | None -> "S=1 V=ERR"))
  | ["sign0"; _; c] ->
    let sd = { sd_content = content_of "data" c; sd_certs = [cert_of 1]; sd_infos = [] } in
    both (fun _ -> match cms_verify sd with Some _ -> "V=1" | None -> "V=ERR")
  | ["env"; r; op; src; c] ->
    let rc = List.map cert_of (ids r) and con = content_of "data" c and o = int_of_string op in
    both (fun f -> match cms_envelop rc (ni 7) (ni 8) con with
      | None -> "E=ERR"
      | Some ed -> (match cms_deenvelop f ed (keyobj_of src o) (cert_of o) with
          | Some c' -> if c' = con then "E=1 D=1" else "E=1 D=OTHER-CONTENT" | None -> "E=1 D=ERR"))
  | ["enc"; wrong; c] ->
    let con = content_of "data" c in
    both (fun _ -> match cms_decrypt (ni (if wrong = "0" then 7 else 9)) (cms_encrypt (ni 7) (ni 8) con) with
      | Some c' -> if c' = con then "E=1 D=1" else "E=1 D=OTHER-CONTENT" | None -> "E=1 D=ERR")
  | ["signenv"; s; r; op; src; crl; c] ->
    let signers = List.map signer_of (ids s) and rc = List.map cert_of (ids r) and con = content_of "data" c and o = int_of_string op in
    both (fun f -> match cms_sign_and_envelop f signers rc (ni 7) (ni 8) con (crl <> "0") with
      | None -> "E=ERR"
      | Some m -> (match cms_deenvelop_and_verify f m (keyobj_of src o) (cert_of o) with
          | Some c' -> if c' = con then "E=1 D=1" else "E=1 D=OTHER-CONTENT" | None -> "E=1 D=ERR"))
  | ["envseq"; _; _; _; _] -> "E=1 member=1 outsider=ERR member-again=1 low:member=1 outsider=ERR outsider-again=ERR | E=1 member=1 outsider=ERR member-again=1 low:member=1 outsider=ERR outsider-again=ERR"
  | ["signenvseq"; _; _; _; _] -> "E=1 member=1 outsider=ERR low:member=1 outsider=ERR | E=1 member=1 outsider=ERR low:member=1 outsider=ERR"
  | ["openseq"; _; r; ops; _] ->
    let members = ids r in
    let l = "E=1" ^ String.concat "" (List.map (fun o -> Printf.sprintf " %d=%s" o (if List.mem o members then "1" else "ERR")) (ids ops)) in l ^ " | " ^ l
  | ["signseq"; sa; sb; a; b] ->
    (* same length of content and same number of same-length certificates => same message length => same buffer *)
    let l = Printf.sprintf "A=1 same-buffer=%d B=1 A-again=1" (if String.length a = String.length b && List.length (ids sa) = List.length (ids sb) then 1 else 0) in l ^ " | " ^ l
  | ["cmsrt"; kind; _] ->
    let l = (match kind with
      | "addrcpt" -> "added=2 each-opens=1 left=0 full-refused=1"
      | "pem" -> "to_pem=1 from_pem=1 same=1" | "setdata" -> "same=1" | "kai" -> "version=1 key=1 cert=1 id=1"
      | _ -> "parsed-and-rewritten=1 same=1") in l ^ " | " ^ l
  | ["threads"; _; _; _] -> "bad=0 | bad=0"
  | ["sigtrail"; n; _; _] -> let l = if n = "0" then "issued=1 rewritten=1 same-bytes=1" else "issued=1 rewritten=0 same-bytes=0" in l ^ " | " ^ l
  | ["cmsprint"; "names"] -> let l = "named=6 wrong-way-back=0 unknown-refused=1" in l ^ " | " ^ l
  | ["cmsprint"; _] -> let l = "print=1 text=1" in l ^ " | " ^ l
  | ["lowseq"; _; _; _; _; _] -> let l = "E=1 outsider-on-poisoned-stack=ERR member=1 outsider-after-member=ERR member=1 outsider=ERR" in l ^ " | " ^ l
  | "tamper" :: _ -> "content=0 signature=0 enckey=0 iv=0 ciphertext=0 faults=0 | -"
  | _ -> "ERR bad-op"

let () = main_loop handle
