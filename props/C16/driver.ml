(* C16 model driver: symbolic CMS model (Pki/Cms.v) evaluated for the repaired and the legacy
   setting of the three repairs; prints "<repaired> | <legacy>". *)
let ni = n_of_int
let split c s = String.split_on_char c s
let ids s = if s = "-" then [] else List.map int_of_string (split '.' s)
let cert_of i = { c_id = ni i; c_pub = ni (100 + i) }
let signer_of i = { s_cert = cert_of i; s_key = { k_priv = ni (100 + i); k_pub = ni (100 + i); k_normalised = true } }
let keyobj_of src i = { k_priv = ni (100 + i); k_pub = ni (100 + i); k_normalised = (src = "pub") }
let content_of ct hex = (ni (match ct with "data" -> 1 | "signed" -> 2 | _ -> 5), bytes_of_hex hex)
let settings = [ { fix_signer_key = true; fix_key_compare = true; fix_no_crl = true };
                 { fix_signer_key = false; fix_key_compare = false; fix_no_crl = false } ]
let both f = String.concat " | " (List.map f settings)

let handle ws = match ws with
  | ["sign"; s; ct; c] ->
    let signers = List.map signer_of (ids s) and con = content_of ct c in
    both (fun f -> match cms_sign f signers con with
      | None -> "S=ERR"
      | Some sd -> (match cms_verify sd with
          | Some (c', certs) -> if c' = con then Printf.sprintf "S=1 V=1 ncerts=%d ninfos=%d" (List.length certs) (List.length sd.sd_infos) else "S=1 V=OTHER-CONTENT"
          | None -> "S=1 V=ERR"))
  | ["sign0"; _; c] ->
    let sd = { sd_content = content_of "data" c; sd_certs = [cert_of 1]; sd_infos = [] } in
    both (fun _ -> match cms_verify sd with Some _ -> "V=1" | None -> "V=ERR")
  | ["env"; r; op; src; c] ->
    let rc = List.map cert_of (ids r) and con = content_of "data" c and o = int_of_string op in
    both (fun f -> match cms_envelop rc (ni 7) (ni 8) con with
      | None -> "E=ERR"
      | Some ed -> (match cms_deenvelop f ed (keyobj_of src o) (cert_of o) with
          | Some c' -> if c' = con then "E=1 D=1" else "E=1 D=OTHER-CONTENT" | None -> "E=1 D=ERR"))
  | ["enc"; wrong; c] ->
    let con = content_of "data" c in
    both (fun _ -> match cms_decrypt (ni (if wrong = "0" then 7 else 9)) (cms_encrypt (ni 7) (ni 8) con) with
      | Some c' -> if c' = con then "E=1 D=1" else "E=1 D=OTHER-CONTENT" | None -> "E=1 D=ERR")
  | ["signenv"; s; r; op; src; crl; c] ->
    let signers = List.map signer_of (ids s) and rc = List.map cert_of (ids r) and con = content_of "data" c and o = int_of_string op in
    both (fun f -> match cms_sign_and_envelop f signers rc (ni 7) (ni 8) con (crl <> "0") with
      | None -> "E=ERR"
      | Some m -> (match cms_deenvelop_and_verify f m (keyobj_of src o) (cert_of o) with
          | Some c' -> if c' = con then "E=1 D=1" else "E=1 D=OTHER-CONTENT" | None -> "E=1 D=ERR"))
  | ["envseq"; _; _; _; _] -> "E=1 member=1 outsider=ERR member-again=1 low:member=1 outsider=ERR outsider-again=ERR | E=1 member=1 outsider=ERR member-again=1 low:member=1 outsider=ERR outsider-again=ERR"
  | ["signenvseq"; _; _; _; _] -> "E=1 member=1 outsider=ERR low:member=1 outsider=ERR | E=1 member=1 outsider=ERR low:member=1 outsider=ERR"
  | ["openseq"; _; r; ops; _] ->
    let members = ids r in
    let l = "E=1" ^ String.concat "" (List.map (fun o -> Printf.sprintf " %d=%s" o (if List.mem o members then "1" else "ERR")) (ids ops)) in l ^ " | " ^ l
  | ["signseq"; sa; sb; a; b] ->
    (* same length of content and same number of same-length certificates => same message length => same buffer *)
    let l = Printf.sprintf "A=1 same-buffer=%d B=1 A-again=1" (if String.length a = String.length b && List.length (ids sa) = List.length (ids sb) then 1 else 0) in l ^ " | " ^ l
  | ["lowseq"; _; _; _; _; _] -> let l = "E=1 outsider-on-poisoned-stack=ERR member=1 outsider-after-member=ERR member=1 outsider=ERR" in l ^ " | " ^ l
  | "tamper" :: _ -> "content=0 signature=0 enckey=0 iv=0 ciphertext=0 faults=0 | -"
  | _ -> "ERR bad-op"

let () = main_loop handle
