"""C20 — independent objects can be used concurrently with sequential results.

(a) table: tools/globals.py regenerates coq/Gen/GlobalsTable.v (every static-storage object of the
    freshly compiled library + the statements that may write it, by a points-to closure over the
    clang ASTs); the instance theorem `no_written_global` is re-proved over it by coqc.
(b) model theorems: Props/Properties_C20.v (interleaving semantics, all schedules).
(c) runtime: 2..16 threads x mixed workload, per-thread entropy streams, transcripts compared
    bit-for-bit with the sequential runs (ASan/UBSan build) and a ThreadSanitizer build."""
import os, re, subprocess, sys, time
from vlib import core
sys.path.insert(0, os.path.join(core.ROOT, "tools"))
import globals as gl, tablecheck

EXTRA = "-I" + os.path.join(core.ROOT, "props", "C18")


def table_part(ctx):
    t0 = time.time()
    lib, log = core.build_lib("fast")
    if lib is None:
        ctx.violation("table:build-fast", "plain -O2 build of the library failed: " + log[-500:], {"kind": "correspondence", "log": log[-3000:]}, False)
        return []
    rows, stats = gl.table(core.REPO, core.BUILD, "fast")
    gl.emit(rows, os.path.join(core.COQ, "Gen", "GlobalsTable.v"))
    ctx.notes.append("globals table: %d rows (%d in .data/.bss/COMMON of the -O2 objects), AST facts %s, %.1fs" % (
        len(rows), sum(1 for r in rows if r["section"] in ("data", "bss", "common")), stats, time.time() - t0))
    res = tablecheck.run("C20", "GlobalsTable", "globals", "global_key", "global_ok", "no_written_global",
                         "forall g, In g globals -> forall w, In w (g_writers g) -> exists a, In a allow_list /\\ aw_global a = g_name g /\\ aw_fn a = w_fn w",
                         "globals_table_sound")
    ctx.cov["obligations"] += 1
    ctx.cov.setdefault("theorems", []).append({"name": "no_written_global (instance over coq/Gen/GlobalsTable.v, %s rows)" % res["rows"],
                                               "assumptions": [] if res["closed"] else None})
    failing = []
    if res["proved"] and res["closed"] and res["failing"] == []:
        ctx.cov["discharged"] += 1
        ctx.cell("table:no_written_global:proved")
    elif res["failing"] is None:
        ctx.violation("table:globals-check", "the table check file did not compile: " + res["log"][-600:],
                      {"kind": "proof", "theorem_or_file": "no_written_global over coq/Gen/GlobalsTable.v", "detail": res["log"][-2000:]}, False)
    else:
        by_key = {r["file"] + ":" + r["name"]: r for r in rows}
        failing = [by_key[k] for k in res["failing"] if k in by_key]
    ctx.cov["evaluations"] += len(rows)
    ctx.cov["writable_never_written"] = sorted("%s:%s (%s, %s)" % (r["file"], r["name"], r["section"], r["type"]) for r in rows
                                                if r["section"] in ("data", "bss", "common") and not r["writers"])[:400]
    ctx.cov["written_by_lifecycle_only"] = sorted("%s:%s <- %s" % (r["file"], r["name"], ",".join(sorted({w[1] for w in r["writers"]}))) for r in rows
                                                   if r["writers"] and r not in failing)
    for r in rows[:: max(1, len(rows) // 40)]:
        ctx.cell("table:%s:%s" % (r["section"], r["scope"].split(":")[0]))
    return failing


def selftest(ctx):
    """The translator checks itself: props/C20/selftest/src/idioms.c holds one static-storage object per write idiom
    (w_*) and per read-only idiom (r_*); the same extractor + points-to closure must give w_* a writer and r_* none,
    and nm on the -O2 object must list the function statics (symbols name.N) in a writable section."""
    import cast, tempfile
    d = os.path.join(core.ROOT, "props", "C20", "selftest")
    src = os.path.join(d, "src", "idioms.c")
    try:
        rec = cast.reduce_tu(src, "", "", d)
        pts, wr = gl.solve([rec])
    except Exception as e:
        ctx.violation("selftest:translator", "the writers analysis fails on its own idiom file: %r" % (e,), {"kind": "internal", "error": repr(e)}, False)
        return
    with tempfile.TemporaryDirectory() as td:
        o = os.path.join(td, "idioms.o")
        rc, out = core.sh(["gcc", "-O2", "-c", src, "-o", o])
        syms = set()
        if rc == 0:
            for l in subprocess.run(["nm", "-S", "--defined-only", o], stdout=subprocess.PIPE).stdout.decode().splitlines():
                q = l.split()
                if len(q) >= 3 and q[-2] in "BbDdCc":
                    syms.add(re.sub(r"\.\d+$", "", q[-1]))
    n_ok = 0
    for ob in rec["objects"]:
        n = ob["name"]
        if n[:2] not in ("w_", "r_"):
            continue
        ctx.cov["evaluations"] += 1
        w = wr.get("G:%s@src/idioms.c" % n, [])
        want = n.startswith("w_")
        if bool(w) != want:
            ctx.violation("selftest:" + n, "writers analysis self-test: object %s of props/C20/selftest/src/idioms.c %s" % (
                n, "is written but no writer was found (an idiom the translator no longer recognises)" if want else "is never written but writers were reported: %s" % (w[:3],)),
                {"kind": "table-row", "theorem_or_file": "tools/globals.py self-test", "row": {"name": n, "writers": [list(x) for x in w[:10]]}}, False)
        elif want and rc == 0 and ob["func"] and n not in syms:     # function statics must be found by nm under their name.N symbol
            ctx.violation("selftest:nm:" + n, "self-test object %s is written but nm does not list it in a writable section of the -O2 object" % n,
                          {"kind": "table-row", "theorem_or_file": "tools/globals.py self-test (nm)", "row": {"name": n}}, False)
        else:
            n_ok += 1
            ctx.cell("selftest:%s" % ("write-idiom" if want else "read-idiom"))
    ctx.cov["selftest_idioms"] = n_ok
    ctx.notes.append("translator self-test: %d idioms of props/C20/selftest/src/idioms.c classified as expected" % n_ok)


def cases(ctx):
    r = ctx.rng
    thorough = ctx.tier == "thorough"
    out = []
    for n in ([2, 3, 4, 8, 16] if not thorough else list(range(2, 17))):
        out.append(("conc %d %d %d light" % (n, r.below(10**6), 1 if not thorough else 2), "conc:light:threads=%d" % n))
    out.append(("conc 4 %d 1 all" % r.below(10**6), "conc:all:threads=4"))
    out.append(("conc 5 %d 2 sm2_sign,sm2_encrypt,hashes,sm4_modes,tls_cbc,x509_parse" % r.below(10**6), "conc:mixed:threads=5"))
    if thorough:
        # one run per public interface family (ASan transcript comparison and TSan each)
        for fam, ops in (("hash", "hashes"), ("ciphers", "sm4_modes,tls13_gcm"), ("sm2", "sm2_keygen,sm2_sign,sm2_sign_ctx,sm2_encrypt,sm2_ecdhe"),
                         ("sm9", "sm9_sign,sm9_encrypt,sm9_exchange"), ("pkcs8", "pkcs8,pkcs8_wrongpass"), ("x509", "x509_sign,x509_parse"),
                         ("cms", "cms_sign,cms_envelop,cms_encrypt"), ("tls-record", "tls_cbc,tls_cbc_badmac,tls_record,tls_random,tls_pms,tls13_gcm")):
            out.append(("conc 6 %d 2 %s" % (r.below(10**6), ops), "conc:family-%s:threads=6" % fam))
        out.append(("conc 16 %d 2 all" % r.below(10**6), "conc:all:threads=16"))
        out.append(("conc 9 %d 3 all" % r.below(10**6), "conc:all:threads=9"))
    return out


def run_direct(exe, line, env=None, timeout=1800):
    e = dict(os.environ)
    e.update(env or {})
    p = subprocess.run([exe], input=(line + "\n").encode(), stdout=subprocess.PIPE, stderr=subprocess.PIPE, env=e, timeout=timeout)
    return p.returncode, p.stdout.decode("utf-8", "replace").strip(), p.stderr.decode("utf-8", "replace")


def runtime_part(ctx, failing_rows):
    cs = cases(ctx)
    digests = {}
    exe, log = core.build_harness("C20", "asan", extra=EXTRA)
    if exe is None:
        core.harness_build_failed(ctx, log)
    else:
        t0 = time.time()
        outs, err = core.run_lines(exe, [c[0] for c in cs], shards=min(4, len(cs)))
        ctx.notes.append("asan: %d concurrent-vs-sequential cases in %.1fs" % (len(cs), time.time() - t0))
        for (line, cell), o in zip(cs, outs):
            ctx.cov["evaluations"] += 1
            ctx.count("conc:asan")
            if o.startswith("OK "):
                ctx.cell(cell + ":asan:ok")
                digests[line] = o.split("digest=")[1]
                ctx.sample({"op": line, "result": o[:120]})
            else:
                ctx.violation(cell, "concurrent run differs from the sequential run [asan]: `%s` -> %s" % (line, o[:200]),
                              {"kind": "failing-input", "op": line, "impl": o, "expected": "OK (transcripts of all threads equal their sequential transcripts)",
                               "variant": "asan", "stderr": err[-1500:]}, True)
    exe, log = core.build_harness("C20", "tsan", extra=EXTRA)
    races = []
    if exe is None:
        ctx.violation("tsan:harness-build", "ThreadSanitizer build failed: " + log[-600:], {"kind": "correspondence", "log": log[-3000:]}, False)
    else:
        t0 = time.time()
        tcs = cs if ctx.tier == "thorough" else [c for c in cs if ":all:" in c[1] or "threads=16" in c[1] or "threads=2" in c[1] or ":mixed:" in c[1]]
        import concurrent.futures as cf
        def one(c):
            return c, run_direct(exe, c[0], env={"VERIF_STDERR": "1", "TSAN_OPTIONS": "halt_on_error=0 exitcode=0 report_signal_unsafe=0"})
        with cf.ThreadPoolExecutor(3) as ex:
            results = list(ex.map(one, tcs))
        for (line, cell), (rc, o, err) in results:
            ctx.cov["evaluations"] += 1
            ctx.count("conc:tsan")
            reps = re.findall(r"WARNING: ThreadSanitizer: ([^\n]*)\n(.*?)(?:==================|\Z)", err, re.S)
            if "FATAL: ThreadSanitizer" in err or "unexpected memory mapping" in err:
                ctx.notes.append("ThreadSanitizer cannot run in this sandbox: " + err[-200:])
                continue
            if reps:
                for kind, body in reps[:5]:
                    m = re.search(r"Location is global '([^']+)'", body)
                    fr = re.search(r"#0 (\S+) (\S+)", body)
                    sym = m.group(1) if m else "?"
                    races.append(sym)
                    ctx.violation("race:%s" % sym, "ThreadSanitizer: %s on %s in `%s` (%s)" % (kind, sym, line, fr.group(0) if fr else ""),
                                  {"kind": "failing-input", "op": line, "impl": (kind + "\n" + body)[:1500], "expected": "no report", "variant": "tsan"}, True)
            elif o.startswith("OK ") and (line not in digests or digests[line] == o.split("digest=")[1]):
                ctx.cell(cell + ":tsan:ok")
            else:
                ctx.violation(cell + ":tsan", "tsan build: `%s` -> %s (asan digest %s)" % (line, o[:160], digests.get(line)),
                              {"kind": "failing-input", "op": line, "impl": o, "expected": "same digest as the asan build, no race report", "variant": "tsan",
                               "stderr": err[-1500:]}, True)
        ctx.notes.append("tsan: %d cases in %.1fs, %d race reports" % (len(tcs), time.time() - t0, len(races)))
    # failing table rows: a concrete execution is a race report (or a transcript difference) naming the object
    for r in failing_rows:
        key = "global:%s:%s" % (r["file"], r["name"])
        base = re.sub(r"\.\d+$", "", r["name"])
        ws = "; ".join("%s:%s:%d %s" % w for w in r["writers"][:4])
        found = base in races or r["name"] in races
        ctx.violation(key, "static-storage object %s (%s, %s) may be written by: %s%s" % (
            r["name"], r["file"], r["type"], ws, " — ThreadSanitizer reported the race (see race:%s)" % base if found else ""),
            {"kind": "table-row", "theorem_or_file": "no_written_global over coq/Gen/GlobalsTable.v", "row": {k: (v if k != "writers" else [list(w) for w in v[:20]]) for k, v in r.items()}},
            found_input=found)


def run(ctx):
    ctx.check_proofs()
    selftest(ctx)
    failing = table_part(ctx)
    runtime_part(ctx, failing)
    ctx.assumptions = [
        "the interleaving theorems are about the model of coq/Sys/Conc.v (sequentially consistent steps, one operation at a time); weak-memory effects and libc internals are runtime territory (TSan supports, does not prove)",
        "the table is produced by tools/cast.py + tools/globals.py (clang JSON AST, field-based context-insensitive points-to closure; unions, integer-pointer casts and inline asm are not followed); nm on the -O2 objects lists the writable sections",
        "SDF_LoadLibrary / SDF_UnloadLibrary (process-wide binding of the SDF device library: sdf_method, sdf_vendor) are lifecycle entry points named in Sys/Tables.v lifecycle_functions and exempt by statement; they are not run concurrently by the workload",
        "handshakes on socketpairs are not part of the concurrent workload here (builder-tls owns the handshake harness)",
    ]
    return ctx.finish(level="proof",
                      rule="table rows = every static-storage object (nm of fresh -O2 objects U non-const AST objects), each checked by the Coq predicate global_ok; runtime cells = (workload, thread count, build variant) on which every thread's transcript equalled its sequential transcript (and TSan was silent)",
                      trusted=core.TRUSTED_COMMON + ["translator tools/cast.py, tools/globals.py, tools/tablecheck.py (clang 14 JSON AST, nm); Coq files Sys/Conc.v, Sys/Tables.v, generated Gen/GlobalsTable.v",
                                                     "gcc ThreadSanitizer runtime; harness/entropy.h per-thread (__thread) scripted entropy and clock"])


def replay(path):
    import sysreplay
    return sysreplay.replay(path)
