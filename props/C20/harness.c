/* C20 runtime: n threads, each running a mixed workload on its own objects under its own entropy
 * stream; every thread's transcript must equal, bit for bit, the transcript of the same workload
 * run alone (sequentially, before the threads start).
 *
 *   conc <nthreads> <seed> <rounds> <op,op,...|all|light>
 *     -> OK threads=<n> ops=<k> bytes=<total> digest=<sm3 of all transcripts>
 *      | DIFF thread=<t> round=<r> op=<name> seq=<hex..> conc=<hex..>
 */
#include "sysops.h"
#include <pthread.h>

#define MAXT 16
#define MAXOPS 32
typedef struct {
	int t, rounds, nops; const sysop_t *ops[MAXOPS]; uint64_t seed;
	obuf_t out; size_t mark[MAXOPS * 8 + 1]; int nmark; int rc_bad;
	pthread_barrier_t *bar;
} job_t;

static void workload(job_t *j) {
	opctx_t *c = malloc(sizeof *c); int r, i;
	ob_init(&j->out); j->nmark = 0; j->rc_bad = 0;
	prepare(c, j->seed);
	ent_seed(j->seed * 31 + 7, -1);
	ent_clock(1700000000 + (time_t)j->t);
	for (r = 0; r < j->rounds; r++) for (i = 0; i < j->nops; i++) {
		const sysop_t *op = j->ops[(i + j->t) % j->nops];       /* threads start at different ops */
		int rc;
		if (j->nmark < MAXOPS * 8) j->mark[j->nmark++] = j->out.n;
		rc = op->run(c, &j->out);
		ob_put(&j->out, "rc", &rc, sizeof rc);
		if (rc != 1) j->rc_bad++;
	}
	j->mark[j->nmark] = j->out.n;
	free(c);
}
static void *thread_main(void *a) { job_t *j = a; pthread_barrier_wait(j->bar); workload(j); return NULL; }

static void handle(size_t nw, char **w) {
	int n, rounds, i, t; uint64_t seed; job_t seqj[MAXT], conj[MAXT]; pthread_t th[MAXT]; pthread_barrier_t bar;
	const sysop_t *ops[MAXOPS]; int nops = 0; size_t total = 0; SM3_CTX sm3; uint8_t dg[32];
	if (nw != 5 || strcmp(w[0], "conc")) { printf("ERR usage"); return; }
	alarm(900);
	n = atoi(w[1]); seed = strtoull(w[2], NULL, 10); rounds = atoi(w[3]);
	if (n < 1 || n > MAXT || rounds < 1 || rounds > 8) { printf("ERR args"); return; }
	if (!strcmp(w[4], "all") || !strcmp(w[4], "light")) {
		for (i = 0; i < (int)NSYSOPS && nops < MAXOPS; i++) if (!strcmp(w[4], "all") || !SYSOPS[i].heavy) ops[nops++] = &SYSOPS[i];
	} else {
		char *save = NULL, *tk;
		for (tk = strtok_r(w[4], ",", &save); tk && nops < MAXOPS; tk = strtok_r(NULL, ",", &save)) {
			const sysop_t *o = find_op(tk); if (!o) { printf("ERR unknown-op %s", tk); return; } ops[nops++] = o;
		}
	}
	if (!nops) { printf("ERR no-ops"); return; }
	for (t = 0; t < n; t++) {
		job_t *j = &seqj[t]; memset(j, 0, sizeof *j);
		j->t = t; j->rounds = rounds; j->nops = nops; memcpy(j->ops, ops, sizeof ops); j->seed = seed * 1000 + (uint64_t)t;
		conj[t] = *j; conj[t].bar = &bar;
		workload(j);                                             /* the sequential reference */
	}
	pthread_barrier_init(&bar, NULL, (unsigned)n);
	for (t = 0; t < n; t++) pthread_create(&th[t], NULL, thread_main, &conj[t]);
	for (t = 0; t < n; t++) pthread_join(th[t], NULL);
	pthread_barrier_destroy(&bar);
	sm3_init(&sm3);
	for (t = 0; t < n; t++) {
		job_t *a = &seqj[t], *b = &conj[t];
		if (a->out.n != b->out.n || memcmp(a->out.p, b->out.p, a->out.n) || a->out.overflow || b->out.overflow) {
			int k;
			for (k = 0; k < a->nmark; k++) {
				size_t s0 = a->mark[k], s1 = a->mark[k + 1];
				if (k >= b->nmark || b->mark[k] != s0 || b->mark[k + 1] != s1 || memcmp(a->out.p + s0, b->out.p + s0, s1 - s0)) break;
			}
			printf("DIFF thread=%d round=%d op=%s seq=", t, k / nops, ops[(k % nops + t) % nops]->name);
			if (k < a->nmark) puthex(a->out.p + a->mark[k], a->mark[k + 1] - a->mark[k] > 64 ? 64 : a->mark[k + 1] - a->mark[k]);
			printf(" conc=");
			if (k < b->nmark) puthex(b->out.p + b->mark[k], b->mark[k + 1] - b->mark[k] > 64 ? 64 : b->mark[k + 1] - b->mark[k]);
			for (i = 0; i < n; i++) { ob_free(&seqj[i].out); ob_free(&conj[i].out); }
			return;
		}
		sm3_update(&sm3, a->out.p, a->out.n); total += a->out.n;
		if (a->rc_bad) { printf("ERR op-failed thread=%d failures=%d", t, a->rc_bad); for (i = 0; i < n; i++) { ob_free(&seqj[i].out); ob_free(&conj[i].out); } return; }
	}
	sm3_finish(&sm3, dg);
	printf("OK threads=%d ops=%d bytes=%zu digest=", n, nops * rounds, total); puthex(dg, 32);
	for (i = 0; i < n; i++) { ob_free(&seqj[i].out); ob_free(&conj[i].out); }
}

int main(void) { quiet_stderr(); main_loop(handle); return 0; }
