/* Self-test input of the C20 writers analysis (tools/cast.py + tools/globals.py): one static-storage
 * object per write idiom (names w_*) and per read-only idiom (names r_*).  props/C20/run.py analyses
 * this file with the same translator on every run and requires: every w_* object has a non-empty
 * writer set, every r_* object an empty one.  The file is also compiled (-O2) and nm must list every
 * w_* object in a writable section (function statics appear as name.N). */
#include <string.h>
#include <stdint.h>
#include <stddef.h>
extern int getentropy(void *buf, size_t len);

typedef struct { int oid; uint32_t *nodes; } INFO;
typedef struct { int (*init)(void *); int n; uint8_t raw[8]; } METH;
typedef struct { uint8_t *buf; size_t len; } CTX;

static int w_assign;
static uint32_t w_index[4];
static unsigned long w_incr;
static unsigned long w_compound;
static METH w_field;                        /* S.n = ..., S.raw[i] = ... */
static uint32_t w_local_alias[4];
static uint32_t w_memset[4];
static uint8_t w_memcpy_dst[8];
static uint8_t w_extern_nonconst[16];       /* getentropy(buf, n) */
static uint32_t w_lib_helper[4];            /* helper(p) writes p[1] */
static uint8_t w_lib_chain[32];             /* rb(p) -> getentropy(p): the rand_bytes shape */
static uint8_t w_out_param[32];             /* finish(ctx, out) writes out[i] */
static uint32_t w_fnptr[4];                 /* meth.init(p) through a function pointer */
static uint32_t w_ret_ptr[4];               /* get()[1] = ... */
static uint32_t w_ptr2ptr[4];               /* get2(&q); q[0] = ... */
static uint32_t w_table_field[4];           /* infos[0].nodes[0] = ... */
static uint8_t w_ctx_member[8];             /* c.buf = G; c.buf[0] = ... */
static uint32_t w_cast_away[4];             /* passed as const, callee casts the const away */
static uint32_t w_cond_a[4], w_cond_b[4];   /* (f ? a : b)[0] = ... */
static uint32_t w_arith[4];                 /* *(G + 2) = ... */
static uint32_t w_gptr_target[4];           /* gptr = G; *gptr = ... */
static uint32_t *w_gptr;                    /* the global pointer itself is assigned */
static uint32_t w_pre_dec[2];

static const uint32_t r_const[4] = {1, 2, 3, 4};
static uint32_t r_reader[4] = {1, 2, 3, 4}; /* passed to a const parameter, read there */
static uint32_t r_memcmp[4] = {1, 2, 3, 4};
static uint32_t r_index[4] = {1, 2, 3, 4};
static METH r_struct_copy;                  /* x = S (copied from) */
static uint8_t r_memcpy_src[8] = {1};
static uint32_t r_sizeof[4];
static uint32_t r_lib_const_chain[4] = {7}; /* passed through two const parameters */

static INFO infos[] = { {1, w_table_field} };
static void helper(uint32_t *p) { p[1] = 2; }
static int rb(uint8_t *p, size_t n) { if (!p) return -1; return getentropy(p, n) == 0 ? 1 : -1; }
static void finish(const int *ctx, uint8_t out[32]) { int i; for (i = 0; i < 32; i++) out[i] = (uint8_t)(*ctx + i); }
static int hinit(void *p) { ((uint32_t *)p)[0] = 1; return 1; }
static METH meth = { hinit, 0, {0} };
static uint32_t *get(void) { return w_ret_ptr; }
static void get2(uint32_t **out) { *out = w_ptr2ptr; }
static uint32_t reader(const uint32_t *p) { return p[0] + p[3]; }
static uint32_t reader2(const uint32_t *p) { return reader(p) + 1; }
static void sneaky(const uint32_t *p) { ((uint32_t *)p)[2] = 9; }

unsigned long idioms(int i, int f)
{
	static uint8_t w_func_static[32];      /* the seeded shape: draw into a function static, memcpy out */
	static int w_lazy_init;
	uint32_t *a = w_local_alias, *q; CTX c; METH x; uint8_t out[32]; int seven = 7; unsigned long sum = 0;

	if (!w_lazy_init) { w_lazy_init = 1; }
	w_assign = i;
	w_index[i & 3] = 1;
	w_incr++;
	w_compound += (unsigned long)i;
	w_field.n = i; w_field.raw[i & 7] = 1;
	a[0] = 2;
	memset(w_memset, 0, sizeof w_memset);
	memcpy(w_memcpy_dst, r_memcpy_src, sizeof w_memcpy_dst);
	getentropy(w_extern_nonconst, sizeof w_extern_nonconst);
	helper(w_lib_helper);
	rb(w_lib_chain, sizeof w_lib_chain);
	rb(w_func_static, sizeof w_func_static); memcpy(out, w_func_static, sizeof out);
	finish(&seven, w_out_param);
	meth.init(w_fnptr);
	get()[1] = 3;
	get2(&q); q[0] = 1;
	infos[0].nodes[0] = 5;
	c.buf = w_ctx_member; c.len = 8; c.buf[0] = 1;
	sneaky(w_cast_away);
	(f ? w_cond_a : w_cond_b)[0] = 1;
	*(w_arith + 2) = 1;
	w_gptr = w_gptr_target; *w_gptr = 4;
	--w_pre_dec[1];

	x = r_struct_copy;
	sum += reader(r_reader) + reader(r_const) + r_index[i & 3] + (unsigned long)memcmp(r_memcmp, r_const, 4) + sizeof r_sizeof + reader2(r_lib_const_chain) + (unsigned long)x.n;
	sum += w_assign + w_index[0] + w_incr + w_compound + w_field.n + w_local_alias[0] + w_memset[0] + w_memcpy_dst[0] + w_extern_nonconst[0]
		+ w_lib_helper[1] + w_lib_chain[0] + out[0] + w_out_param[0] + w_fnptr[0] + w_ret_ptr[1] + w_ptr2ptr[0] + w_table_field[0] + w_ctx_member[0]
		+ w_cast_away[2] + w_cond_a[0] + w_cond_b[0] + w_arith[2] + w_gptr_target[0] + w_pre_dec[1] + (unsigned long)w_lazy_init + meth.n;
	return sum;
}
