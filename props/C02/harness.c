/* C02 correspondence harness: SM2 encryption / decryption / ECDH of the current /repo tree.
 * Same conventions as props/C01/harness.c (scripted entropy that fails when exhausted). */
#include "common.h"
#include "entropy.h"
#include <gmssl/sm2.h>
#include <gmssl/sm2_z256.h>

static int key_from_d(SM2_KEY *key, const char *dhex) {
	buf_t d = hex2buf(dhex); sm2_z256_t dd; int r;
	if (d.n != 32) { free(d.p); return -1; }
	sm2_z256_from_bytes(dd, d.p); free(d.p);
	r = sm2_key_set_private_key(key, dd);
	return r;
}
static int key_from_P(SM2_KEY *key, const char *phex) {
	buf_t p = hex2buf(phex); SM2_Z256_POINT P; int r;
	if (p.n != 64) { free(p.p); return -1; }
	r = sm2_z256_point_from_bytes(&P, p.p); free(p.p);
	if (r != 1) return -1;
	return sm2_key_set_public_key(key, &P);
}
static buf_t script;
static void install_entropy(const char *hex) {
	script = hex2buf(hex);
	ent_script(script.p, script.n, (long)(script.n / 32));
}
static void no_entropy(void) { script.p = NULL; script.n = 0; ent_script(NULL, 0, -2); }
static void drop_entropy(void) { free(script.p); script.p = NULL; }

#define MAXC 64
static buf_t ch[MAXC];

static void handle(size_t nw, char **w) {
	SM2_KEY key;
	if ((!strcmp(w[0], "enc") || !strcmp(w[0], "doenc")) && nw == 4) {
		buf_t m = hex2buf(w[2]);
		if (key_from_P(&key, w[1]) != 1) { printf("ERR key"); free(m.p); return; }
		install_entropy(w[3]);
		if (w[0][0] == 'e') {
			uint8_t *out = malloc(SM2_MAX_CIPHERTEXT_SIZE); size_t outlen = 0;
			if (sm2_encrypt(&key, m.p, m.n, out, &outlen) == 1) { puthex(out, outlen); printf(" %04lx", ent.draws); } else printf("ERR");
			free(out);
		} else {
			SM2_CIPHERTEXT *c = malloc(sizeof(*c));
			if (sm2_do_encrypt(&key, m.p, m.n, c) == 1) {
				puthex(c->point.x, 32); putchar(' '); puthex(c->point.y, 32); putchar(' '); puthex(c->hash, 32); putchar(' ');
				puthex(c->ciphertext, c->ciphertext_size); printf(" %04lx", ent.draws);
			} else printf("ERR");
			free(c);
		}
		drop_entropy(); free(m.p);
	}
	else if (!strcmp(w[0], "encfix") && nw == 5) {
		buf_t m = hex2buf(w[2]); int psize = atoi(w[3]); uint8_t *out = malloc(SM2_MAX_CIPHERTEXT_SIZE); size_t outlen = 0;
		if (key_from_P(&key, w[1]) != 1) { printf("ERR key"); free(m.p); free(out); return; }
		install_entropy(w[4]);
		if (sm2_encrypt_fixlen(&key, m.p, m.n, psize, out, &outlen) == 1) { puthex(out, outlen); printf(" %04lx", ent.draws); } else printf("ERR");
		drop_entropy(); free(m.p); free(out);
	}
	else if (!strcmp(w[0], "dec") && nw == 3) {
		buf_t c = hex2buf(w[2]); uint8_t *out = malloc(SM2_MAX_PLAINTEXT_SIZE); size_t outlen = 0;
		if (key_from_d(&key, w[1]) != 1) { printf("ERR key"); free(c.p); free(out); return; }
		no_entropy();
		if (sm2_decrypt(&key, c.p, c.n, out, &outlen) == 1) puthex(out, outlen); else printf("ERR");
		free(c.p); free(out);
	}
	else if (!strcmp(w[0], "dodec") && nw == 6) {
		buf_t x = hex2buf(w[2]), y = hex2buf(w[3]), hsh = hex2buf(w[4]), c = hex2buf(w[5]);
		SM2_CIPHERTEXT *C = calloc(1, sizeof(*C)); uint8_t *out = malloc(c.n ? c.n : 1); size_t outlen = 0;
		if (key_from_d(&key, w[1]) != 1 || x.n != 32 || y.n != 32 || hsh.n != 32 || c.n > 255) printf("ERR key");
		else {
			memcpy(C->point.x, x.p, 32); memcpy(C->point.y, y.p, 32); memcpy(C->hash, hsh.p, 32);
			memcpy(C->ciphertext, c.p, c.n); C->ciphertext_size = (uint8_t)c.n;
			no_entropy();
			if (sm2_do_decrypt(&key, C, out, &outlen) == 1) puthex(out, outlen); else printf("ERR");
		}
		free(x.p); free(y.p); free(hsh.p); free(c.p); free(C); free(out);
	}
	else if (!strcmp(w[0], "estream") && nw == 4) {
		size_t k, i, outlen = 0; int ok = 1; SM2_ENC_CTX *ctx = malloc(sizeof(*ctx)); uint8_t *out = malloc(SM2_MAX_CIPHERTEXT_SIZE);
		if (key_from_P(&key, w[1]) != 1) { printf("ERR key"); free(ctx); free(out); return; }
		install_entropy(w[3]);
		k = split_chunks(w[2], ch, MAXC);
		if (sm2_encrypt_init(ctx) != 1) ok = 0;
		for (i = 0; ok && i < k; i++) if (sm2_encrypt_update(ctx, ch[i].p, ch[i].n) != 1) ok = 0;
		if (ok && sm2_encrypt_finish(ctx, &key, out, &outlen) != 1) ok = 0;
		if (ok) { puthex(out, outlen); printf(" %04lx", ent.draws); } else printf("ERR");
		drop_entropy(); free_chunks(ch, k); free(ctx); free(out);
	}
	else if (!strcmp(w[0], "dstream") && nw == 3) {
		size_t k, i, outlen = 0; int ok = 1; SM2_DEC_CTX *ctx = malloc(sizeof(*ctx)); uint8_t *out = malloc(SM2_MAX_PLAINTEXT_SIZE);
		if (key_from_d(&key, w[1]) != 1) { printf("ERR key"); free(ctx); free(out); return; }
		no_entropy();
		k = split_chunks(w[2], ch, MAXC);
		if (sm2_decrypt_init(ctx) != 1) ok = 0;
		for (i = 0; ok && i < k; i++) if (sm2_decrypt_update(ctx, ch[i].p, ch[i].n) != 1) ok = 0;
		if (ok && sm2_decrypt_finish(ctx, &key, out, &outlen) != 1) ok = 0;
		if (ok) puthex(out, outlen); else printf("ERR");
		free_chunks(ch, k); free(ctx); free(out);
	}
	else if (!strcmp(w[0], "ecdh") && nw == 3) {
		buf_t peer = hex2buf(w[2]); uint8_t *out = malloc(64);
		if (key_from_d(&key, w[1]) != 1) { printf("ERR key"); free(peer.p); free(out); return; }
		no_entropy();
		if (sm2_ecdh(&key, peer.p, peer.n, out) == 1) puthex(out, 64); else printf("ERR");
		free(peer.p); free(out);
	}
	else if (!strcmp(w[0], "encpre") && nw == 2) {
		/* sm2_encrypt_pre_compute with scripted entropy: k,x,y of every slot */
		SM2_ENC_PRE_COMP *pc = malloc(sizeof(SM2_ENC_PRE_COMP) * SM2_ENC_PRE_COMP_NUM); int i; uint8_t kb[32];
		install_entropy(w[1]);
		if (sm2_encrypt_pre_compute(pc) == 1) {
			for (i = 0; i < SM2_ENC_PRE_COMP_NUM; i++) {
				if (i) putchar(';');
				sm2_z256_to_bytes(pc[i].k, kb); puthex(kb, 32); putchar(','); puthex(pc[i].C1.x, 32); putchar(','); puthex(pc[i].C1.y, 32);
			}
			printf(" %04lx", ent.draws);
		} else printf("ERR");
		drop_entropy(); free(pc);
	}
	else if (!strcmp(w[0], "encex") && nw == 6) {
		/* encex P M k x y : sm2_do_encrypt_ex with the given slot */
		buf_t m = hex2buf(w[2]), k = hex2buf(w[3]), x = hex2buf(w[4]), y = hex2buf(w[5]);
		SM2_ENC_PRE_COMP *pc = malloc(sizeof(*pc)); SM2_CIPHERTEXT *c = malloc(sizeof(*c)); int r;
		if (key_from_P(&key, w[1]) != 1 || k.n != 32 || x.n != 32 || y.n != 32) printf("ERR key");
		else {
			sm2_z256_from_bytes(pc->k, k.p); memcpy(pc->C1.x, x.p, 32); memcpy(pc->C1.y, y.p, 32);
			no_entropy();
			r = sm2_do_encrypt_ex(&key, pc, m.p, m.n, c);
			if (r == 1) { uint8_t *out = malloc(SM2_MAX_CIPHERTEXT_SIZE), *p = out; size_t outlen = 0;
				if (sm2_ciphertext_to_der(c, &p, &outlen) == 1) puthex(out, outlen); else printf("ERR der"); free(out); }
			else printf(r == 0 ? "RETRY" : "ERR");
		}
		free(m.p); free(k.p); free(x.p); free(y.p); free(pc); free(c);
	}
	else if (!strcmp(w[0], "encpreex") && nw == 4) {
		/* encpreex P M ent : pre-compute, then sm2_do_encrypt_ex with EACH slot */
		buf_t m = hex2buf(w[2]); SM2_ENC_PRE_COMP *pc = malloc(sizeof(SM2_ENC_PRE_COMP) * SM2_ENC_PRE_COMP_NUM); int i, r;
		if (key_from_P(&key, w[1]) != 1) { printf("ERR key"); free(m.p); free(pc); return; }
		install_entropy(w[3]);
		if (sm2_encrypt_pre_compute(pc) == 1) {
			for (i = 0; i < SM2_ENC_PRE_COMP_NUM; i++) {
				SM2_CIPHERTEXT *c = malloc(sizeof(*c));
				if (i) putchar(',');
				r = sm2_do_encrypt_ex(&key, &pc[i], m.p, m.n, c);
				if (r == 1) { uint8_t *out = malloc(SM2_MAX_CIPHERTEXT_SIZE), *p = out; size_t outlen = 0;
					if (sm2_ciphertext_to_der(c, &p, &outlen) == 1) puthex(out, outlen); else printf("ERR"); free(out); }
				else printf(r == 0 ? "RETRY" : "ERR");
				free(c);
			}
			printf(" %04lx", ent.draws);
		} else printf("ERR");
		drop_entropy(); free(m.p); free(pc);
	}
	else if (!strcmp(w[0], "ectxr") && nw == 4) {
		/* ectxr P rounds ent : one SM2_ENC_CTX over several messages (updates, finish, reset) */
		SM2_ENC_CTX *ctx = malloc(sizeof(*ctx)); char *save = NULL, *rd; int first = 1, ok = 1;
		char *outs = malloc(1 << 17); size_t on = 0;
		if (key_from_P(&key, w[1]) != 1) { printf("ERR key"); free(ctx); free(outs); return; }
		install_entropy(w[3]);
		if (sm2_encrypt_init(ctx) != 1) ok = 0;
		for (rd = strtok_r(w[2], ";", &save); ok && rd; rd = strtok_r(NULL, ";", &save)) {
			size_t k = split_chunks(rd, ch, MAXC), i, outlen = 0, j; uint8_t *out = malloc(SM2_MAX_CIPHERTEXT_SIZE);
			for (i = 0; ok && i < k; i++) if (sm2_encrypt_update(ctx, ch[i].p, ch[i].n) != 1) ok = 0;
			if (ok && sm2_encrypt_finish(ctx, &key, out, &outlen) != 1) ok = 0;
			if (ok) { if (!first) outs[on++] = ','; for (j = 0; j < outlen; j++) on += sprintf(outs + on, "%02x", out[j]); first = 0; sm2_encrypt_reset(ctx); }
			free(out); free_chunks(ch, k);
		}
		if (ok) { outs[on] = 0; printf("%s %04lx", outs, ent.draws); } else printf("ERR");
		drop_entropy(); free(ctx); free(outs);
	}
	else if (!strcmp(w[0], "ctprint") && nw == 2) {
		buf_t a = hex2buf(w[1]); FILE *fp = fopen("/dev/null", "w");
		printf(sm2_ciphertext_print(fp, 0, 0, "ct", a.p, a.n) == 1 ? "OK" : "ERR");
		fclose(fp); free(a.p);
	}
	else if (!strcmp(w[0], "equery") && nw == 2) {
		/* size query: sm2_encrypt_finish with out == NULL */
		size_t k, i, outlen = 0; int ok = 1; SM2_ENC_CTX *ctx = malloc(sizeof(*ctx));
		memset(&key, 0, sizeof(key)); ent_seed(1, -1);   /* the encpre build draws its 8 nonces in init */
		k = split_chunks(w[1], ch, MAXC);
		if (sm2_encrypt_init(ctx) != 1) ok = 0;
		for (i = 0; ok && i < k; i++) if (sm2_encrypt_update(ctx, ch[i].p, ch[i].n) != 1) ok = 0;
		if (ok && sm2_encrypt_finish(ctx, &key, NULL, &outlen) != 1) ok = 0;
		if (ok) printf("%04zx", outlen); else printf("ERR");
		free_chunks(ch, k); free(ctx);
	}
	else if (!strcmp(w[0], "dquery") && nw == 2) {
		size_t k, i, outlen = 0; int ok = 1; SM2_DEC_CTX *ctx = malloc(sizeof(*ctx));
		memset(&key, 0, sizeof(key)); no_entropy();
		k = split_chunks(w[1], ch, MAXC);
		if (sm2_decrypt_init(ctx) != 1) ok = 0;
		for (i = 0; ok && i < k; i++) if (sm2_decrypt_update(ctx, ch[i].p, ch[i].n) != 1) ok = 0;
		if (ok && sm2_decrypt_finish(ctx, &key, NULL, &outlen) != 1) ok = 0;
		if (ok) printf("%04zx", outlen); else printf("ERR");
		free_chunks(ch, k); free(ctx);
	}
	else if (!strcmp(w[0], "dctxr") && nw == 3) {
		/* dctxr d rounds : one SM2_DEC_CTX over several ciphertexts, reset between them */
		SM2_DEC_CTX *ctx = malloc(sizeof(*ctx)); char *save = NULL, *rd; int first = 1, ok = 1;
		char *outs = malloc(1 << 16); size_t on = 0;
		if (key_from_d(&key, w[1]) != 1) { printf("ERR key"); free(ctx); free(outs); return; }
		no_entropy();
		if (sm2_decrypt_init(ctx) != 1) ok = 0;
		for (rd = strtok_r(w[2], ";", &save); ok && rd; rd = strtok_r(NULL, ";", &save)) {
			size_t k = split_chunks(rd, ch, MAXC), i, outlen = 0, j; uint8_t *out = malloc(SM2_MAX_PLAINTEXT_SIZE);
			for (i = 0; ok && i < k; i++) if (sm2_decrypt_update(ctx, ch[i].p, ch[i].n) != 1) ok = 0;
			if (ok && sm2_decrypt_finish(ctx, &key, out, &outlen) != 1) ok = 0;
			if (ok) { if (!first) outs[on++] = ','; if (!outlen) outs[on++] = '-'; for (j = 0; j < outlen; j++) on += sprintf(outs + on, "%02x", out[j]); first = 0; sm2_decrypt_reset(ctx); }
			free(out); free_chunks(ch, k);
		}
		if (ok) { outs[on] = 0; printf("%s", outs); } else printf("ERR");
		free(ctx); free(outs);
	}
	else printf("ERR unknown-op");
}

int main(void) { quiet_stderr(); main_loop(handle); return 0; }
