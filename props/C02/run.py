"""C02 — SM2 encryption / ECDH correct, malformed ciphertexts rejected.
Implementation: props/C02/harness.c on the ASan/UBSan build of /repo.
Model: coq/Ec/SM2Enc.v evaluated inside Coq (BigZ) through coq/Ec/Sm2Eval.v.
Phase 1 encrypts on both sides with the same scripted nonces; phase 2 decrypts the MODEL's
ciphertexts with the library (and the library's with the model), then a malformed stream."""
import os
from vlib import core, ecdiff, sm2py as E
from vlib.ecdiff import q, glist

N, P_ = E.n, E.p
M256 = 2 ** 256
h = E.h64
JOBS = int(os.environ.get("VERIF_JOBS", "16"))
# the SM2_ENC_CTX pre-compute path exists only when the library is compiled with this macro, which no
# cmake option defines: registered here as a local variant (thorough tier)
core.VARIANTS.setdefault("encpre", (core.SAN_FLAGS + " -DENABLE_SM2_ENC_PRE_COMPUTE=1", []))


def ent_hex(ks):
    return "".join(E.le32(k) for k in ks) or "-"


def chunks_line(chunks):
    return ",".join(core.hexs(c) for c in chunks) if chunks else "."


def chunks_g(chunks):
    return glist([q(core.hexs(c)) for c in chunks])


class Gen:
    def __init__(self, ctx):
        self.ctx, self.r = ctx, ctx.rng
        self.thorough = ctx.tier == "thorough"
        self.cases = []
        self.keys = [("d=1", 1), ("d=2", 2), ("d=3", 3), ("d=n-2", N - 2)]
        for i in range(3 if not self.thorough else 8):
            self.keys.append(("d=rand", 1 + int.from_bytes(self.r.bytes(32), "big") % (N - 2)))
        self.pub = {d: E.mul(d, E.G) for _, d in self.keys}

    def rnd(self, m):
        return int.from_bytes(self.r.bytes(40), "big") % m

    def add(self, **c):
        self.cases.append(c)

    # ---------------------------------------------------------------- encryption
    def enc(self, op, d, m, ks, cell, extra=None):
        P = E.pt_hex(self.pub[d]); en = ent_hex(ks)
        if op == "encfix":
            line = "encfix %s %s %d %s" % (P, core.hexs(m), extra, en)
            expr = "c02_encfix %s %s %d%%N %s" % (q(P), q(core.hexs(m)), extra, q(en))
        elif op == "estream":
            line = "estream %s %s %s" % (P, chunks_line(m), en)
            expr = "c02_estream %s %s %s" % (q(P), chunks_g(m), q(en))
        else:
            line = "%s %s %s %s" % (op, P, core.hexs(m), en)
            expr = "c02_%s %s %s %s" % (op, q(P), q(core.hexs(m)), q(en))
        self.add(line=line, expr=expr, cell=cell, kind=op, d=d, m=(b"".join(m) if op == "estream" else m))

    def gen_enc(self):
        r = self.r
        small = [d for _, d in self.keys[:3]]
        # every plaintext length 1..255: small nonces and small private keys keep the model's
        # scalar multiplications trivial, so the whole range is covered on every run
        for L in range(1, 256):
            d = small[L % 3]
            k = 1 + (L % 5)
            cls = "len%%32=%s" % ("0" if L % 32 == 0 else ("1" if L % 32 == 1 else ("31" if L % 32 == 31 else "mid")))
            self.enc("enc", d, r.bytes(L), [k], "enc:dense:%s:blocks=%d" % (cls, (L + 31) // 32))
        # the largest legal ciphertext: 255 bytes and both C1 coordinates with the top bit set (366 octets)
        kmax = 2
        while True:
            C = E.mul(kmax, E.G)
            if C[0] >> 255 and C[1] >> 255: break
            kmax += 1
        self.enc("enc", small[1], r.bytes(255), [kmax], "enc:max-size-366")
        # random keys and nonces
        lens = [1, 2, 31, 32, 33, 64, 65, 254, 255]
        for i, L in enumerate(lens + [r.range(1, 255) for _ in range(6 if not self.thorough else 60)]):
            kn, d = self.keys[3 + i % (len(self.keys) - 3)]
            self.enc("enc", d, r.bytes(L), [1 + self.rnd(N - 1)], "enc:%s:k=rand:len=%s" % (kn, L if i < len(lens) else "rand"))
        d = self.keys[4][1]
        for kn, k in (("k=1", 1), ("k=n-1", N - 1), ("k=n-71", N - 71), ("k=n-69", N - 69)):
            self.enc("enc", d, r.bytes(20), [k], "enc:d=rand:%s" % kn)
        for j in range(2, 34, 2):
            self.enc("enc", d, r.bytes(1 + j % 7), [N - j], "enc:d=rand:k=n-j")
        # DESIGN 5 #1 (C13): k = n-70 makes sm2_z256_point_mul_generator return infinity
        self.enc("enc", d, r.bytes(20), [N - 70], "enc:nonce=n-70")
        self.enc("doenc", d, r.bytes(33), [1 + self.rnd(N - 1)], "doenc:k=rand")
        self.enc("doenc", small[1], r.bytes(255), [2], "doenc:len=255")
        self.enc("doenc", small[1], b"", [2], "doenc:len=0")
        self.enc("enc", small[1], b"", [2], "enc:len=0")
        self.enc("enc", small[1], r.bytes(256), [2], "enc:len=256")
        self.enc("doenc", small[1], r.bytes(256), [2], "doenc:len=256")
        self.enc("enc", d, r.bytes(5), [N, 0, M256 - 1, 3], "enc:retry:rejected-draws")
        self.enc("enc", d, r.bytes(5), [], "enc:entropy:none")
        self.enc("enc", d, r.bytes(5), [N, 0], "enc:entropy:exhausted")
        self.enc("enc", d, r.bytes(5), [N] * 100 + [3], "enc:rand_range:100-rejects")
        # fixed point-size variants
        for ps in (68, 69, 70):
            ks = [1 + self.rnd(N - 1) for _ in range(12)]
            self.enc("encfix", d, r.bytes(r.range(1, 80)), ks, "encfix:point_size=%d" % ps, extra=ps)
        for ps in (0, 67, 71):
            self.enc("encfix", d, r.bytes(4), [5, 6], "encfix:bad-point-size", extra=ps)
        self.enc("encfix", d, b"", [5, 6], "encfix:len=0", extra=69)
        self.enc("encfix", d, r.bytes(3), [1 + self.rnd(N - 1)], "encfix:entropy-exhausted", extra=68)
        # streaming context = buffering
        m = r.bytes(100)
        self.enc("estream", small[1], r.split(m, 3), [2], "estream:3-chunks")
        self.enc("estream", small[1], [m[:50], b"", m[50:]], [3], "estream:empty-chunk")
        self.enc("estream", small[1], [r.bytes(255)], [2], "estream:total=255")
        self.enc("estream", small[1], [r.bytes(200), r.bytes(55)], [2], "estream:total=255:2-chunks")
        self.enc("estream", small[1], [r.bytes(200), r.bytes(56)], [2], "estream:total=256")
        self.enc("estream", small[1], [r.bytes(256)], [2], "estream:chunk=256")
        self.enc("estream", small[1], [], [2], "estream:total=0")
        self.enc("estream", small[1], [b"", b""], [2], "estream:total=0:empty-chunks")
        self.enc("estream", d, r.split(r.bytes(77), 4), [1 + self.rnd(N - 1)], "estream:k=rand")

    # ---------------------------------------------------------------- pre-computed nonces
    def gen_precompute(self, pre_variant=False):
        """sm2_encrypt_pre_compute (Montgomery's trick over 8 points) + sm2_do_encrypt_ex with EVERY slot"""
        r = self.r
        small = lambda cnt: [2 + r.below(5000) for _ in range(cnt)]
        big = lambda: 1 + self.rnd(N - 1)
        batches = [("random", [big() for _ in range(8)] if not pre_variant else small(8)),
                   ("boundary-nonces", [1, N - 1, N - 70] + small(2) + [N - 71, big(), 2]),
                   ("boundary-at-ends", [N - 70] + small(6) + [N - 1]),
                   ("small", small(8)),
                   ("rejected-draws", small(3) + [N, 0, M256 - 1] + small(5)),
                   ("entropy:7-nonces", small(7))]
        for name, ks in batches:
            en = ent_hex(ks)
            self.add(line="encpre %s" % en, expr="c02_encpre %s" % q(en), cell="encpre:%s" % name)
        for i, (name, ks) in enumerate(batches[1:5]):
            d = self.keys[1 + i % 3][1]; P = E.pt_hex(self.pub[d]); en = ent_hex(ks)
            m = r.bytes([1, 32, 33, 255][i])
            self.add(line="encpreex %s %s %s" % (P, core.hexs(m), en), expr="c02_encpreex %s %s %s" % (q(P), q(core.hexs(m)), q(en)),
                     cell="encpreex:%s" % name, kind="encpreex", d=d, m=m)
        d = self.keys[4][1]; P = E.pt_hex(self.pub[d]); ks = small(6) + [big(), big()]; en = ent_hex(ks); m = r.bytes(40)
        self.add(line="encpreex %s %s %s" % (P, core.hexs(m), en), expr="c02_encpreex %s %s %s" % (q(P), q(core.hexs(m)), q(en)),
                 cell="encpreex:d=rand", kind="encpreex", d=d, m=m)
        # sm2_do_encrypt_ex alone: length limits, and a slot used as given
        d = self.keys[1][1]; P = E.pt_hex(self.pub[d]); k = 3; C1 = E.mul(k, E.G)
        for L, cell in ((0, "encex:len=0"), (1, "encex:len=1"), (255, "encex:len=255"), (256, "encex:len=256")):
            m = r.bytes(L)
            self.add(line="encex %s %s %s %s %s" % (P, core.hexs(m), h(k), h(C1[0]), h(C1[1])),
                     expr="c02_encex %s %s %s %s %s" % (q(P), q(core.hexs(m)), q(h(k)), q(h(C1[0])), q(h(C1[1]))),
                     cell=cell, kind="encex" if 1 <= L <= 255 else None, d=d, m=m)
        # one SM2_ENC_CTX over several messages (in the default build every finish is an sm2_encrypt)
        rounds = [r.split(r.bytes(r.range(1, 60)), 2) for _ in range(10)]
        ks = small(20)
        rl = ";".join(chunks_line(c) for c in rounds); en = ent_hex(ks)
        self.add(line="ectxr %s %s %s" % (P, rl, en),
                 expr="%s %s %s %s" % ("c02_ectxr_pre" if pre_variant else "c02_ectxr", q(P), glist([chunks_g(c) for c in rounds]), q(en)),
                 cell="ectxr:10-messages", kind="ectxr", d=d, rounds=rounds)
        rounds = [[r.bytes(5)], [b""], [r.bytes(5)]]
        rl = ";".join(chunks_line(c) for c in rounds)
        self.add(line="ectxr %s %s %s" % (P, rl, en),
                 expr="%s %s %s %s" % ("c02_ectxr_pre" if pre_variant else "c02_ectxr", q(P), glist([chunks_g(c) for c in rounds]), q(en)),
                 cell="ectxr:empty-message")

    # ---------------------------------------------------------------- ECDH
    def ecdh(self, d, peer, cell, expect=None, model=True):
        self.add(line="ecdh %s %s" % (h(d), core.hexs(peer)),
                 expr=("c02_ecdh %s %s" % (q(h(d)), q(core.hexs(peer)))) if model else None,
                 cell=cell, expect=expect, kind="ecdh", d=d, peer=peer)

    def gen_ecdh(self):
        r = self.r
        unc = lambda P: b"\x04" + bytes.fromhex(E.pt_hex(P))
        comp = lambda P: bytes([2 + (P[1] & 1)]) + P[0].to_bytes(32, "big")
        pairs = [(self.keys[4][1], self.keys[5][1]), (self.keys[5][1], self.keys[6][1]), (2, self.keys[4][1]), (N - 2, self.keys[5][1])]
        self.sym = []
        for i, (da, db) in enumerate(pairs):
            self.sym.append((len(self.cases), len(self.cases) + 1))
            self.ecdh(da, unc(self.pub[db]), "ecdh:valid:uncompressed:A")
            self.ecdh(db, unc(self.pub[da]), "ecdh:valid:uncompressed:B")
        # scalars just below n: the windowed sm2_z256_point_mul reaches its equal-x / doubling and
        # inverse-point branches only for such structured scalars (d = n-6 adds R to itself)
        peer = unc(self.pub[self.keys[4][1]])
        for j in range(2, 41 if not self.thorough else 130):
            self.ecdh(N - j, peer, "ecdh:d=n-j:j%%8=%d" % (j % 8))
        da, db = pairs[0]
        self.ecdh(da, comp(self.pub[db]), "ecdh:valid:compressed")
        Pn = (self.pub[db][0], P_ - self.pub[db][1])
        self.ecdh(da, comp(Pn), "ecdh:valid:compressed:other-parity")
        self.ecdh(da, bytes([5 - comp(self.pub[db])[0]]) + comp(self.pub[db])[1:], "ecdh:valid:compressed:flipped-tag")
        # compressed peers in bulk (small private keys keep the model cheap): random points of both
        # parities, and points CONSTRUCTED so that the Montgomery form of y^2 = x^3 - 3x + b is tiny
        # or sits at the edges of [0, p): sums a + b in [p, 2^256) that do not carry
        for i in range(24 if not self.thorough else 200):
            Q = E.mul(1 + self.rnd(N - 1), E.G) if i % 4 == 0 else E.lift_x(self.rnd(P_), i & 1)
            if Q is None: continue
            self.ecdh(2 + i % 2, comp(Q), "ecdh:compressed:random:parity=%d" % (Q[1] & 1))
        W = M256 - P_
        vals = list(range(1, 9)) + [W - 2, W - 1, W, W + 1, P_ - 1, P_ - 2, P_ - 3, 2 ** 64, 2 ** 128, 2 ** 192, 2 ** 223, 2 ** 224 - 1, 2 ** 224]
        cnt = 0
        for v in vals:
            for Q in E.points_with_mont_ysq(v, self.rnd):
                cls = "tiny" if v < 9 else ("window-edge" if abs(v - W) <= 2 else ("top" if v > P_ - 9 else "pow2"))
                self.ecdh(3, comp(Q), "ecdh:compressed:mont(y^2)=%s" % cls)
                self.ecdh(3, comp((Q[0], P_ - Q[1])), "ecdh:compressed:mont(y^2)=%s:other-parity" % cls)
                if cnt < 4: self.ecdh(3, unc(Q), "ecdh:uncompressed:mont(y^2)=%s" % cls)
                cnt += 1
        # DESIGN 5 #4 (repaired by a33c088): encodings of the point at infinity must be refused
        self.ecdh(da, b"\x00", "ecdh:peer-infinity:00", expect="ERR")
        self.ecdh(da, b"\x04" + bytes(64), "ecdh:peer-infinity:04-zeros", expect="ERR")
        # invalid peers
        P = self.pub[db]
        x, y = P
        bad = {
            "off-curve:y+1": b"\x04" + x.to_bytes(32, "big") + ((y + 1) % P_).to_bytes(32, "big"),
            "off-curve:x+1": b"\x04" + ((x + 1) % P_).to_bytes(32, "big") + y.to_bytes(32, "big"),
            "off-curve:random": b"\x04" + (self.rnd(P_)).to_bytes(32, "big") + (self.rnd(P_)).to_bytes(32, "big"),
            "x=0:y=1": b"\x04" + bytes(31) + b"\x00" + bytes(31) + b"\x01",
            "len=64": unc(P)[:-1], "len=66": unc(P) + b"\x00", "len=33-tag04": b"\x04" + bytes(32),
            "len=1-tag04": b"\x04", "len=1-tag02": b"\x02", "len=2-tag00": b"\x00\x00", "len=65-tag00": b"\x00" + bytes(64),
            "tag=01": b"\x01" + unc(P)[1:], "tag=05": b"\x05" + unc(P)[1:], "tag=06-hybrid": b"\x06" + unc(P)[1:],
            "tag=07-hybrid": b"\x07" + unc(P)[1:], "tag=ff": b"\xff" + unc(P)[1:],
            "compressed:len=32": comp(P)[:-1], "compressed:len=34": comp(P) + b"\x00", "compressed:len=65": b"\x02" + unc(P)[1:],
            "compressed:x>=p": b"\x02" + P_.to_bytes(32, "big"), "compressed:x=2^256-1": b"\x03" + b"\xff" * 32,
            "empty": b"",
        }
        # a compressed x with no point on the curve
        xx = self.rnd(P_)
        while E.lift_x(xx, 0) is not None: xx += 1
        bad["compressed:no-square-root"] = b"\x02" + xx.to_bytes(32, "big")
        for name, peer in bad.items():
            self.ecdh(da, peer, "ecdh:invalid:%s" % name, expect="ERR")
        # x or y >= p in uncompressed form
        for name, (xv, yv) in {"x=p": (P_, y), "x=2^256-1": (M256 - 1, y), "y=p": (x, P_), "y>=p": (x, y + P_) if y + P_ < M256 else (x, M256 - 1),
                               "x=p:y=0": (P_, 0), "x=0:y=p": (0, P_)}.items():
            self.ecdh(da, b"\x04" + xv.to_bytes(32, "big") + yv.to_bytes(32, "big"), "ecdh:invalid:uncompressed:%s" % name, expect="ERR")

    # ---------------------------------------------------------------- decryption (phase 2)
    def dec(self, d, ct, cell, expect=None, model=True):
        self.add(line="dec %s %s" % (h(d), core.hexs(ct)),
                 expr=("c02_dec %s %s" % (q(h(d)), q(core.hexs(ct)))) if model else None, cell=cell, expect=expect)

    def dodec(self, d, x, y, hsh, c, cell, expect=None):
        f = lambda v: "%064x" % v if isinstance(v, int) else core.hexs(v)
        self.add(line="dodec %s %s %s %s %s" % (h(d), f(x), f(y), f(hsh), f(c)),
                 expr="c02_dodec %s %s %s %s %s" % (q(h(d)), q(f(x)), q(f(y)), q(f(hsh)), q(f(c))), cell=cell, expect=expect)

    def dstream(self, d, chunks, cell, expect=None):
        self.add(line="dstream %s %s" % (h(d), chunks_line(chunks)),
                 expr="c02_dstream %s %s" % (q(h(d)), chunks_g(chunks)), cell=cell, expect=expect)


def parse_ct(der):
    """split a well-formed SM2Cipher into (x, y, hash, c) with python (generator side only)"""
    def tlv(b, i):
        tag = b[i]; l = b[i + 1]; i += 2
        if l & 0x80:
            nb = l & 0x7f; l = int.from_bytes(b[i:i + nb], "big"); i += nb
        return tag, b[i:i + l], i + l
    _, body, _ = tlv(der, 0)
    _, x, i = tlv(body, 0); _, y, i = tlv(body, i); _, hh, i = tlv(body, i); _, c, i = tlv(body, i)
    return int.from_bytes(x, "big"), int.from_bytes(y, "big"), hh, c


def phase2(g, first, impl, model):
    g.cases = []
    r = g.r
    malformed_base = {}
    for c, a, b in zip(first, impl, model):
        kind = c.get("kind")
        if kind in ("encpreex", "ectxr", "encex"):
            # every slot / every message of the context must decrypt (library and model)
            for side, out in (("model", b), ("impl", a)):
                if out is None or out.startswith(("ERR", "FAULT", "MODEL-")) or (side == "impl" and a == b):
                    continue
                cts = out.split(" ")[0].split(",")
                for i, ct in enumerate(cts):
                    exp = core.hexs(c["m"]) if kind != "ectxr" else core.hexs(b"".join(c["rounds"][i]))
                    if ct in ("RETRY", "ERR"):
                        g.ctx.violation("%s:slot-failed" % c["cell"], "slot %d of `%s` gave %s" % (i, c["line"][:120], ct), {"kind": "failing-input", "op": c["line"], side: out}, True)
                        continue
                    g.dec(c["d"], bytes.fromhex(ct), "dec:%s-ciphertext:%s:slot" % (side, c["cell"]), expect=exp)
            continue
        if kind not in ("enc", "encfix", "estream", "doenc"):
            continue
        d, m = c["d"], c["m"]
        exp = core.hexs(m)
        for side, out in (("model", b), ("impl", a)):
            if out is None or out.startswith(("ERR", "FAULT", "MODEL-")):
                continue
            if side == "impl" and a == b:
                continue            # same bytes as the model's ciphertext: already covered
            w = out.split(" ")
            if kind == "doenc":
                g.dodec(d, bytes.fromhex(w[0]), bytes.fromhex(w[1]), bytes.fromhex(w[2]), bytes.fromhex(w[3]),
                        "dodec:%s-ciphertext:%s" % (side, c["cell"]), expect=exp)
                continue
            ct = bytes.fromhex(w[0])
            heavy = d > 3          # [d]C1 is a full scalar multiplication on the model side
            g.dec(d, ct, "dec:%s-ciphertext:%s" % (side, c["cell"]), expect=exp, model=True)
            L = len(m)
            if side == "model" and d <= 3 and L in (1, 32, 33, 255) and L not in malformed_base and c["cell"].startswith("enc:dense"):
                malformed_base[L] = (d, ct, m)
            if c["cell"] == "enc:max-size-366" and len(ct) == 366:
                g.dstream(d, [ct], "dstream:total=366:one-chunk", expect=exp)
                g.dstream(d, [ct[:100], ct[100:365], ct[365:]], "dstream:total=366:last-byte-alone", expect=exp)
                g.dstream(d, [ct[:365], ct[365:]], "dstream:total=366:365+1", expect=exp)
                g.dstream(d, [b"", ct, b""], "dstream:total=366:empty-chunks", expect=exp)
                g.dstream(d, [ct, b"\0"], "dstream:total=367", expect="ERR")
                g.dstream(d, [ct[:366 - 1]], "dstream:total=365:truncated", expect="ERR")
            if side == "model" and c["cell"] in ("estream:3-chunks", "enc:dense:len%32=mid:blocks=4"):
                g.dstream(d, r.split(ct, 3), "dstream:valid", expect=exp)
    gen_malformed(g, malformed_base)
    gen_invalid_curve(g)
    return g.cases


def gen_invalid_curve(g):
    """ciphertexts built (by the model) for points that are NOT on the curve: the only thing that
    stops them is the on-curve test of C1"""
    r = g.r
    todo = []
    # C1 = (0,0) (the encoding of infinity): [d]C1 = infinity = (0,0) for EVERY key, so anyone can
    # compute C2 / C3; only the refusal of from_bytes' 0 stands in the way
    for kn, d in (g.keys[1], g.keys[4], g.keys[3]):
        todo.append(("infinity:" + kn, d, 0, 0, r.bytes(r.range(1, 40))))
    for kn, d in (g.keys[1], g.keys[2], g.keys[4]):
        for i in range(2):
            qx, qy = g.rnd(P_), g.rnd(P_)
            while E.on_curve((qx, qy)): qy = (qy + 1) % P_
            m = r.bytes(r.range(1, 40))
            todo.append((kn, d, qx, qy, m))
    outs = core.coq_eval("C02", ecdiff.IMPORTS, ["c02_forge_offcurve %s %s %s %s" % (q(h(d)), q(h(qx)), q(h(qy)), q(core.hexs(m))) for (_, d, qx, qy, m) in todo],
                         shards=min(JOBS, len(todo)), tag="forge")
    for (kn, d, qx, qy, m), out in zip(todo, outs):
        if out.startswith("MODEL-"):
            g.ctx.violation("model:forge-offcurve", "model-side failure: " + out[:200], {"kind": "model", "model": out}, False)
            continue
        w = out.split(" ")
        g.dodec(d, bytes.fromhex(w[0]), bytes.fromhex(w[1]), bytes.fromhex(w[2]), bytes.fromhex(w[3]), "dodec:invalid-curve-forgery:%s" % kn, expect="ERR")
        g.dec(d, E.der_ct(int(w[0], 16), int(w[1], 16), bytes.fromhex(w[2]), bytes.fromhex(w[3])), "dec:invalid-curve-forgery:%s" % kn, expect="ERR")


def gen_malformed(g, bases):
    r = g.r
    for L, (d, ct, m) in sorted(bases.items()):
        x, y, hh, c = parse_ct(ct)
        cls = "len=%d" % L
        # ---- C1 families (structure interface and DER interface)
        fam = {
            "off-curve:y+1": (x, (y + 1) % P_), "off-curve:x+1": ((x + 1) % P_, y), "x=p": (P_, y), "x=p+x": (x + P_, y) if x + P_ < M256 else (M256 - 1, y),
            "x=2^256-1": (M256 - 1, y), "y=p": (x, P_), "y=2^256-1": (x, M256 - 1), "zero": (0, 0), "x=0": (0, y), "y=0": (x, 0),
            "negated-y": (x, P_ - y), "other-valid-point": E.mul(7, E.G), "generator": E.G,
        }
        for name, (xv, yv) in fam.items():
            if (xv, yv) == (x, y):
                continue
            g.dodec(d, xv, yv, hh, c, "dodec:bad-C1:%s" % name, expect="ERR")
            if L in (1, 33):
                g.dec(d, E.der_ct(xv, yv, hh, c), "dec:bad-C1:%s" % name, expect="ERR")
        # ---- C3 / C2
        for i in range(8 if L == 1 else 3):
            bit = r.below(256)
            h2 = bytearray(hh); h2[bit // 8] ^= 1 << (bit % 8)
            g.dodec(d, x, y, bytes(h2), c, "dodec:bad-C3:bit-flip", expect="ERR")
        if L == 33:
            for bit in range(256):           # every bit of C3
                h2 = bytearray(hh); h2[bit // 8] ^= 1 << (bit % 8)
                g.dodec(d, x, y, bytes(h2), c, "dodec:bad-C3:sweep:byte%%8=%d" % ((bit // 8) % 8), expect="ERR")
            for pos in range(len(c)):        # one bit in every byte of C2
                c3 = bytearray(c); c3[pos] ^= 1 << (pos % 8)
                g.dodec(d, x, y, hh, bytes(c3), "dodec:bad-C2:sweep", expect="ERR")
        g.dodec(d, x, y, bytes(32), c, "dodec:bad-C3:zero", expect="ERR")
        c2 = bytearray(c); c2[r.below(len(c2))] ^= 1 << r.below(8)
        g.dodec(d, x, y, hh, bytes(c2), "dodec:bad-C2:bit-flip", expect="ERR")
        g.dodec(d, x, y, hh, c[:-1], "dodec:bad-C2:truncated", expect="ERR")
        g.dodec(d, x, y, hh, b"", "dodec:C2-empty", expect="ERR")
        if L < 255:
            g.dodec(d, x, y, hh, c + b"\0", "dodec:bad-C2:extended", expect="ERR")
        # ---- single-bit flips of the DER ciphertext: all of them for the shortest class,
        #      a sample for the others; every one must be refused
        nbits = len(ct) * 8
        positions = range(nbits) if (L == 1 or g.thorough) else [r.below(nbits) for _ in range(48)]
        for bp in positions:
            mct = bytearray(ct); mct[bp // 8] ^= 1 << (bp % 8)
            g.dec(d, bytes(mct), "dec:bit-flip:%s" % cls, expect="ERR")
        # ---- DER mutations
        xi, yi, hi, ci = E.der_int(x), E.der_int(y), E.der_octets(hh), E.der_octets(c)
        body = xi + yi + hi + ci
        seq = lambda b: b"\x30" + E.der_len(len(b)) + b
        muts = {
            "trailing-byte": ct + b"\0", "truncated-1": ct[:-1], "truncated-half": ct[:len(ct) // 2], "empty": b"",
            "seq-tag-31": b"\x31" + ct[1:], "seq-len+1": b"\x30" + E.der_len(len(body) + 1) + body,
            "seq-len-1": b"\x30" + E.der_len(len(body) - 1) + body,
            "seq-len-nonminimal": (b"\x30\x81" + bytes([len(body)]) + body) if len(body) < 128 else (b"\x30\x82\x00" + bytes([len(body)]) + body if len(body) < 256 else b"\x30\x83\x00" + len(body).to_bytes(2, "big") + body),
            "seq-len-indefinite": b"\x30\x80" + body + b"\0\0",
            "x-leading-00": seq(b"\x02" + E.der_len(len(xi) - 2 + 1) + b"\x00" + xi[2:] + yi + hi + ci),
            "y-leading-00": seq(xi + b"\x02" + E.der_len(len(yi) - 2 + 1) + b"\x00" + yi[2:] + hi + ci),
            "x-negative": seq(b"\x02\x20" + (x | (1 << 255)).to_bytes(32, "big") + yi + hi + ci),
            "x-33-bytes": seq(b"\x02\x21\x01" + x.to_bytes(32, "big") + yi + hi + ci),
            "x-empty": seq(b"\x02\x00" + yi + hi + ci),
            "x-tag-03": seq(b"\x03" + xi[1:] + yi + hi + ci),
            "hash-31": seq(xi + yi + E.der_octets(hh[:31]) + ci), "hash-33": seq(xi + yi + E.der_octets(hh + b"\0") + ci),
            "hash-tag-03": seq(xi + yi + b"\x03" + hi[1:] + ci), "hash-missing": seq(xi + yi + ci),
            "c-empty": seq(xi + yi + hi + b"\x04\x00"), "c-missing": seq(xi + yi + hi),
            "c-256": seq(xi + yi + hi + E.der_octets(bytes(256))),
            "c-len-nonminimal": seq(xi + yi + hi + (b"\x04\x81" + bytes([len(c)]) + c if len(c) < 128 else b"\x04\x82\x00" + bytes([len(c)]) + c)),
            "extra-element": seq(body + b"\x05\x00"), "swapped-xy": seq(yi + xi + hi + ci), "swapped-hash-c": seq(xi + yi + ci + hi),
            "nested": seq(ct),
        }
        for name, mc in muts.items():
            if mc != ct:
                g.dec(d, mc, "dec:der:%s" % name, expect="ERR")
        # ---- streaming decryption buffers
        if L == 1:
            g.dstream(d, [ct], "dstream:total<45" if len(ct) < 45 else "dstream:one-chunk")
            g.dstream(d, [ct[:44]], "dstream:total=44", expect="ERR")
            g.dstream(d, [], "dstream:total=0", expect="ERR")
        if L == 255:
            g.dstream(d, r.split(ct, 4), "dstream:valid:max", expect=core.hexs(m))
            g.dstream(d, [ct, b"\0"], "dstream:total=367" if len(ct) == 366 else "dstream:trailing", expect="ERR")
            g.dstream(d, [ct[:200], ct[200:] + bytes(200)], "dstream:overflow-chunk", expect="ERR")
    for i in range(30 if not g.thorough else 300):
        g.dec(2, r.bytes(r.range(0, 120)), "dec:random-bytes", expect="ERR")
    # sm2_ciphertext_print: same parse as sm2_decrypt; size queries; one SM2_DEC_CTX reused with reset
    items = sorted(bases.items())
    for L, (d, ct, m) in items:
        for cls, a in (("valid", ct), ("trailing", ct + b"\0"), ("truncated", ct[:-1]), ("flipped-tag", b"\x31" + ct[1:])):
            g.add(line="ctprint %s" % core.hexs(a), expr="c02_ctprint %s" % q(core.hexs(a)), cell="ctprint:%s" % cls, expect="OK" if cls == "valid" else "ERR")
    g.add(line="ctprint -", expr="c02_ctprint %s" % q("-"), cell="ctprint:empty", expect="ERR")
    for cls, chunks in (("0", []), ("1", [b"a"]), ("255", [r.bytes(200), r.bytes(55)]), ("256", [r.bytes(200), r.bytes(56)]), ("empty-chunks", [b"", b""])):
        g.add(line="equery %s" % chunks_line(chunks), expr="c02_equery %s" % chunks_g(chunks), cell="equery:total=%s" % cls)
    for cls, chunks in (("0", []), ("44", [r.bytes(44)]), ("45", [r.bytes(45)]), ("366", [r.bytes(300), r.bytes(66)]), ("367", [r.bytes(300), r.bytes(67)]), ("367-one-chunk", [r.bytes(367)])):
        g.add(line="dquery %s" % chunks_line(chunks), expr="c02_dquery %s" % chunks_g(chunks), cell="dquery:total=%s" % cls)
    same_d = [(L, v) for L, v in items if v[0] == items[0][1][0]]
    allk = [(L, v) for L, v in items]
    # context reuse: every ciphertext of one key through ONE SM2_DEC_CTX (init, update*, finish, reset, update*, finish ...)
    by_d = {}
    for L, (d, ct, m) in items: by_d.setdefault(d, []).append((ct, m))
    for d, lst in by_d.items():
        seq = lst + lst[::-1]
        rounds = [r.split(ct, 3) for ct, _ in seq]
        g.add(line="dctxr %s %s" % (h(d), ";".join(chunks_line(c_) for c_ in rounds)),
              expr="c02_dctxr %s %s" % (q(h(d)), glist([chunks_g(c_) for c_ in rounds])),
              cell="dctxr:reuse:%d-messages" % len(seq), expect=",".join(core.hexs(m_) for _, m_ in seq))
        # an error in the middle (truncated ciphertext) ends the run with an error
        rounds = [[seq[0][0]], [seq[0][0][:-1]], [seq[0][0]]]
        g.add(line="dctxr %s %s" % (h(d), ";".join(chunks_line(c_) for c_ in rounds)),
              expr="c02_dctxr %s %s" % (q(h(d)), glist([chunks_g(c_) for c_ in rounds])), cell="dctxr:error-in-the-middle", expect="ERR")


def ecdh_symmetry(ctx, g, first, impl):
    for ia, ib in g.sym:
        a, b = impl[ia], impl[ib]
        ctx.cov["evaluations"] += 1
        if a == b and not a.startswith(("ERR", "FAULT")):
            ctx.cell("ecdh:symmetric:ok")
        else:
            ctx.violation("ecdh:symmetric", "sm2_ecdh(dA, PB) != sm2_ecdh(dB, PA): %s / %s" % (a[:140], b[:140]),
                          {"kind": "failing-input", "op": first[ia]["line"], "op2": first[ib]["line"], "impl": a, "impl2": b}, True)


def run(ctx):
    ctx.check_proofs()
    rc, out = core.coq_make(["Ec/Sm2Eval.vo"])
    if rc != 0:
        ctx.violation("correspondence:model-build", "Coq model does not build: " + out[-600:], {"kind": "correspondence", "log": out[-3000:]}, False)
        return finish(ctx)
    variants = ["asan"] if ctx.tier == "quick" else ["asan", "small"]
    for v in variants:
        exe, log = core.build_harness("C02", v)
        if exe is None:
            core.harness_build_failed(ctx, log)
            continue
        g = Gen(ctx)
        g.gen_enc(); g.gen_ecdh(); g.gen_precompute()
        first = g.cases
        impl, model = ecdiff.run(ctx, "C02", first, exe, variant=v, model_shards=JOBS, tag="p1")
        ecdh_symmetry(ctx, g, first, impl)
        second = phase2(g, first, impl, model)
        ecdiff.run(ctx, "C02", second, exe, variant=v, model_shards=JOBS, tag="p2")
    if ctx.tier != "quick":
        # library compiled with -DENABLE_SM2_ENC_PRE_COMPUTE=1: SM2_ENC_CTX takes its nonces from the
        # 8 pre-computed slots (slot 7 first, refill after slot 0)
        exe, log = core.build_harness("C02", "encpre")
        if exe is None:
            core.harness_build_failed(ctx, log)
        else:
            g = Gen(ctx)
            g.gen_precompute(pre_variant=True)
            first = g.cases
            impl, model = ecdiff.run(ctx, "C02", first, exe, variant="encpre", model_shards=JOBS, tag="p1pre")
            second = phase2(g, first, impl, model)
            ecdiff.run(ctx, "C02", second, exe, variant="encpre", model_shards=JOBS, tag="p2pre")
    return finish(ctx)


def replay(path):
    return ecdiff.replay("C02", path)


def finish(ctx):
    ctx.assumptions = [
        "Spec = GB/T 32918.4 over the affine chord-tangent law of Ec/CurveSpec.v; KDF / SM3 as proved for C03 (sm2_kdf = sm3_kdf_spec, streaming SM3 = one-shot)",
        "the limb/Montgomery/Jacobian layer of sm2_z256.c is abstracted to its mathematical meaning (property C13); compressed-point square root = rhs^((p+1)/4) as in the C code",
        "round trip dec(enc) and ECDH symmetry are proved under explicit premises ([a]([b]G) = [(ab) mod n]G, multiples of G are finite curve points)",
        "the all-zero-KDF retry of sm2_do_encrypt cannot be driven by any feasible input (needs an SM3 preimage); it is modelled and proved but not exercised",
        "'every modified ciphertext is rejected' beyond the decision rule (C3 compare, C1 validation, DER canonicity) is cryptographic; the run flips all bits of one ciphertext and samples the others (test)",
        "sm2_encrypt_pre_compute / sm2_fast_sign_pre_compute: the Jacobian Z coordinates are not observable; the model runs Montgomery's trick as coded on stand-in Z values and batch_inv_correct / *_pre_compute_eq_partial prove the result does not depend on them (premise: the one shared inversion is correct)",
        "the SM2_ENC_CTX pre-compute path needs -DENABLE_SM2_ENC_PRE_COMPUTE=1, which no cmake option sets; it is built and compared as local variant `encpre` in the thorough tier only",
    ]
    return ctx.finish(level="proof",
                      rule="phase 1: every plaintext length 1..255 (small nonces/keys), random keys and nonces, nonce boundaries {1,n-1,n-71,n-70,n-69}, rejected draws, fixed point sizes 68/69/70, streaming buffers at 0/255/256, ECDH both directions + compressed + every invalid peer family; phase 2: the model's ciphertexts decrypted by the library (and differing library ciphertexts by the model), C1 families (off-curve, >=p, zero, negated), C3/C2 flips, all single-bit flips of one DER ciphertext and samples of three more, DER mutations, decrypt buffers at 44/45/366/367; a cell = (op, family, boundary class, ok|ERR)",
                      trusted=core.TRUSTED_COMMON + [
                          "Coq files: Ec/Num.v CurveSpec.v Sm2Der.v SM2Sign.v SM2Enc.v (models), Sm2DerProofs.v SM2SignProofs.v SM2EncProofs.v (proofs), Props/Properties_C02.v, Ec/Sm2Eval.v + Base/HexStr.v (string-level wrappers evaluated by vm_compute over Bignums.BigZ)",
                          "vlib/sm2py.py (python curve arithmetic, DER builder) is used only to aim inputs, never to judge",
                      ])
