"""C09 — peer authentication cannot be bypassed.
Theorems: Props/Properties_C09.v (guards on every path to `return 1`).  Run time: the credential
defect matrix on the implementation; oracle = the property text (the verifying endpoint must not
report a completed handshake; its configured trust anchors must be untouched)."""
from vlib import core

WRAP = "-Wl,--wrap=tls_record_send,--wrap=tls_record_recv,--wrap=sm2_do_ecdh,--wrap=tls_pre_master_secret_generate,--wrap=tls_record_set_handshake_certificate,--wrap=hkdf_expand,--wrap=tls_uint24array_to_bytes,--wrap=sm2_sign_finish"
PROTOS = ["tlcp", "tls12", "tls13"]
DEFECTS = ["untrusted-root", "forged-intermediate", "expired", "not-yet-valid", "issuer-not-ca", "bad-cert-sig", "cert-other-sigalg", "key-mismatch",
           "anchor-lookalike", "anchor-lookalike-deep", "anchor-lookalike-not-sent", "issuer-no-extensions", "issuer-no-extensions-deep", "issuer-not-ca-deep"]


def fields(line):
    return dict(f.split("=", 1) for f in line.split(" ") if "=" in f)


def guard_table_check(ctx):
    """extract the guard sites of the six drivers from the current sources and let Coq compare them
    with the lists of Tls/GuardSites.v; nothing is decided in Python."""
    import os, re, sys
    sys.path.insert(0, os.path.join(core.ROOT, "tools"))
    import guard_sites
    gen = os.path.join(core.COQ, "Gen"); os.makedirs(gen, exist_ok=True)
    tname = "GuardSitesTable_%d" % os.getpid(); cname = "C09chk_%d" % os.getpid()
    try:
        tab = guard_sites.table(core.REPO, core.BUILD)
    except Exception as e:
        ctx.violation("guards:extractor", "tools/guard_sites.py failed on the current tree: %r" % (e,), {"kind": "table", "error": repr(e)}, False)
        return
    core.coq_make(["Tls/GuardSitesProofs.vo"])
    guard_sites.emit(tab, os.path.join(gen, tname + ".v"))
    fns = [fn for _, fn in guard_sites.DRIVERS]
    with open(os.path.join(gen, cname + ".v"), "w") as f:
        f.write("From Coq Require Import String List.\nFrom GmVerif Require Import Tls.GuardSites Tls.GuardSitesProofs.\nImport ListNotations.\nLocal Open Scope string_scope.\n")
        f.write("Set Printing Width 1000000.\nSet Printing Depth 1000000.\n")
        f.write('Load "Gen/%s".\n' % tname)
        f.write("Definition all_diff : list string := %s.\n" % " ++ ".join('guard_diff "%s" sites_%s %s_guards' % (fn, fn, fn) for fn in fns))
        f.write("Eval vm_compute in all_diff.\n")
        f.write("Theorem C09_source_guards_match_model : all_diff = [].\nProof. vm_compute. reflexivity. Qed.\nPrint Assumptions C09_source_guards_match_model.\n")
    rc, out = core.sh(["coqc", "-Q", ".", "GmVerif", "-w", "-all", os.path.join("Gen", cname + ".v")], cwd=core.COQ, timeout=900)
    for n in (tname, cname):
        for ext in (".v", ".vo", ".vok", ".vos", ".glob"):
            try: os.remove(os.path.join(gen, n + ext))
            except OSError: pass
        try: os.remove(os.path.join(gen, "." + n + ".aux"))
        except OSError: pass
    ctx.cov["obligations"] += 1
    nrows = sum(len(tab.get(fn, [])) for fn in fns)
    ctx.cov["guard_sites"] = {fn: ["%d %s %s %s [%s]" % (r["line"], r["kind"], r["callee"], r["test"], " & ".join(r["ctx"])) for r in tab.get(fn, [])] for fn in fns}
    m = re.search(r"^\s*= \[(.*?)\]\s*\n\s*: list string", out, re.M | re.S)
    msgs = re.findall(r'"((?:[^"]|"")*)"', m.group(1)) if m else []
    if rc == 0 and "Closed under the global context" in out and not msgs:
        ctx.cov["discharged"] += 1
        ctx.cov.setdefault("theorems", []).append({"name": "C09_source_guards_match_model (generated, %d rows)" % nrows, "assumptions": []})
        ctx.cell("guards:all-six-drivers-match")
        return
    if not msgs:
        msgs = ["coqc failed: " + out[-400:].replace("\n", " ")]
    for msg in msgs:
        fn = msg.split(":", 1)[0]
        ctx.violation("guards:" + fn, "the guards of the driver in the current source differ from the list the proof assumes: " + msg,
                      {"kind": "table", "relation": "guard_diff sites_%s %s_guards = []" % (fn, fn), "detail": msg}, False)


def run(ctx):
    import os
    os.environ.setdefault("VERIF_OP_TIMEOUT", "120")   # per-operation watchdog of harness/common.h: a blocked peer becomes FAULT for that op
    ctx.check_proofs()
    exe, log = core.build_harness("C09", "asan", extra=WRAP)
    if exe is None:
        core.harness_build_failed(ctx, log)
        return finish(ctx)
    guard_table_check(ctx)
    seeds = [21 + ctx.seed % 1000, 22 + ctx.seed % 1000] if ctx.tier == "quick" else [21 + ctx.seed % 1000 + i for i in range(8)]
    cases = []
    for p in PROTOS:
        for role in ("client", "server"):
            ds = ["valid"] + DEFECTS + ["leaf-swapped"] \
                + (["enc-key-mismatch", "enc-cert-other-ca"] if (p == "tlcp" and role == "client") else []) \
                + (["no-cert", "empty-cert"] if role == "server" else [])
            ds += ["anchors-many", "anchors-oversize", "not-before-2^32", "clock-2^32", "replay-sig"]
            sizes = [2049, 2431, 4096, 15000]
            npos = 3 if p == "tlcp" and role == "client" else 2      # positions in the forger's chain
            if ctx.tier == "quick":
                ds += ["oversize-cert-%d-%d" % (sz, (i + PROTOS.index(p)) % npos) for i, sz in enumerate(sizes)]
            else:
                ds += ["oversize-cert-%d-%d" % (sz, pos) for sz in sizes + [2048, 3000, 8192] for pos in range(npos)]
            for d in ds:
                for s in (seeds if not d.startswith(("oversize-cert", "anchors-")) else seeds[:1]):
                    cases.append(("auth %s %s %s %d" % (p, role, d, s), "auth:%s:%s-verifies:%s" % (p, role, d), role, d))
                if role == "client":
                    # the same row with client authentication requested as well (the client then walks the
                    # CertificateRequest branch before it checks the server)
                    cases.append(("auth %s %s %s %d 1" % (p, role, d, seeds[0]), "auth:%s:client-verifies(mutual):%s" % (p, d), role, d))
    # observer: the ServerKeyExchange signature of an honest TLS 1.2 session covers randoms || ServerECDHParams WITH the point
    scases = ["skesig %d %d" % (a, sd) for a in (0, 1) for sd in seeds]
    souts, _ = core.run_lines(exe, scases, shards=len(scases))
    for line, out in zip(scases, souts):
        ctx.cov["evaluations"] += 1
        ctx.count("op:skesig")
        rep = {"kind": "failing-input", "op": line, "impl": out[:300], "variant": "asan"}
        f = fields(out) if "=" in out else {}
        if f.get("rc") != "1" or f.get("rs") != "1":
            ctx.violation("skesig:control", "honest TLS 1.2 session does not complete: %s [%s]" % (out[:120], line), rep)
        elif f.get("skesig") != "1":
            ctx.violation("skesig:tls12:signature-does-not-cover-params", "the captured ServerKeyExchange signature does not verify over client_random || server_random || ServerECDHParams (curve type, curve, length, 65-octet point): %s [%s]" % (out, line), rep)
        elif f.get("otherpoint") != "0":
            ctx.violation("skesig:tls12:signature-valid-for-another-point", "the captured ServerKeyExchange signature also verifies with another ECDHE point in the signed bytes: %s [%s]" % (out, line), rep)
        else:
            ctx.cell("skesig:tls12:auth%s:covers-point" % line.split()[1])
    outs, _ = core.run_lines(exe, [c[0] for c in cases], shards=12)
    for (line, cell, role, d), out in zip(cases, outs):
        ctx.cov["evaluations"] += 1
        ctx.count("defect:" + d)
        rep = {"kind": "failing-input", "op": line, "impl": out[:500], "variant": "asan"}
        if out.startswith("FAULT"):
            ctx.violation(cell + ":memory-fault", "endpoint crashed under ASan/UBSan: %s [%s]" % (out[:80], line), rep); continue
        if "=" not in out:
            ctx.violation(cell + ":harness", "harness error %s [%s]" % (out[:80], line), rep); continue
        f = fields(out)
        verdict = f["rc"] if role == "client" else f["rs"]
        if f.get("cfg", "11") != "11":
            ctx.violation(cell + ":anchors-overwritten", "the handshake changed an endpoint's configured trust anchors (conn->ca_certs / ca_certs_len): %s [%s]" % (out, line), rep); continue
        if f.get("init") == "refused":
            if d in ("valid", "anchors-many"):
                ctx.violation(cell + ":control", "tls_init refused a valid configuration: %s [%s]" % (out, line), rep)
            else:
                ctx.cell(cell + ":init-refused")          # fail closed
            continue
        if d in ("valid", "anchors-many"):
            if f["rc"] != "1" or f["rs"] != "1" or f["okc"] != "1" or f["oks"] != "1":
                ctx.violation(cell + ":control", "the control run with valid credentials does not complete: %s [%s]" % (out, line), rep)
            else:
                ctx.cell(cell + ":completes")
            continue
        if verdict == "1":
            ctx.violation(cell + ":accepted", "the verifying %s reports a completed handshake although the peer's credentials are defective (%s): %s [%s]" % (role, d, out, line), rep)
        else:
            ctx.cell(cell + ":rejected")
            if len(ctx.cov["samples"]) < 10:
                ctx.sample({"op": line, "result": out})
    return finish(ctx)


def replay(path):
    import json
    r = json.load(open(path)); op = r.get("replay", {}).get("op")
    if not op:
        print("replay names a proof obligation, not an input:", json.dumps(r.get("replay"))[:800]); return 0
    exe, log = core.build_harness("C09", "asan", extra=WRAP)
    if exe is None:
        print(log[-2000:]); return 1
    a, err = core.run_lines(exe, [op], shards=1, env={"VERIF_STDERR": "1"})
    print("op:  ", op); print("impl:", a[0]); print("stderr:", err[-1500:])
    return 0


def finish(ctx):
    ctx.assumptions = [
        "the theorems are about the guard lists of Tls/Handshake.v (transcribed from the six drivers); that the C drivers perform these checks with these meanings is observed by the run-time defect matrix, not proved",
        "'proves possession of the private key' is read as: the signature / Finished equations hold (decision rule); unforgeability of SM2 signatures and SM2 encryption is not proved here",
        "a TLCP client without configured trust anchors skips the chain check (tlcp.c: if (conn->ca_certs_len)); the property's premise 'configured with trust anchors' excludes it",
        "empty client Certificate message: TLCP / TLS 1.2 through a link-time interposer in the client thread (the client sends and hashes an empty list, so only the server's guards can stop it); TLS 1.3 through the proxy, which swaps the client's {Certificate} for an empty one protected with the captured client handshake key (the Finished would also fail later: the row shows where the server stops, the guard table shows that the check exists)",
        "rows 'key-mismatch' = wrong-key ServerKeyExchange signature / CertificateVerify (right certificate, other private key); 'leaf-swapped' = another valid leaf of the same CA with the original key; 'untrusted-root' on the server side = client chain valid but not under the server's client-CA anchors",
    ]
    return ctx.finish(level="proof",
                      rule="3 protocols x {client verifies server, server verifies client} x {valid (control), untrusted root, forged intermediate naming a trusted root as issuer, expired, not yet valid (interposed clock), issuer not a CA, corrupted certificate signature, leaf with foreign signatureAlgorithm fields, certificate/private-key mismatch (= wrong-key signature / CertificateVerify), leaf swapped for another valid leaf, TLCP encryption-key mismatch, TLCP encryption certificate from another CA, no client certificate, empty client Certificate message, verifier's CA bundle of 5 certificates (control) and of 6 certificates > 2048 bytes (must be refused or still enforce), forged chains with one certificate of 2049 / 2431 / 4096 / 15000 bytes at each position (trust anchors must stay intact), validity dates 2^32 s away, cross-session replay of the peer's recorded ServerKeyExchange / CertificateVerify signature by a forger without the private key} x seeds; oracle: the verifying endpoint's handshake return is not 1",
                      trusted=core.TRUSTED_COMMON + ["credential generation with the library's X.509 functions (props/C08/tls_peer.h)", "Coq files: Tls/Handshake.v HandshakeProofs.v"])
