"""C09 — peer authentication cannot be bypassed.
Theorems: Props/Properties_C09.v (guards on every path to `return 1`).  Run time: the credential
defect matrix on the implementation; oracle = the property text (the verifying endpoint must not
report a completed handshake)."""
from vlib import core

WRAP = "-Wl,--wrap=tls_record_send,--wrap=tls_record_recv,--wrap=sm2_do_ecdh,--wrap=tls_pre_master_secret_generate"
PROTOS = ["tlcp", "tls12", "tls13"]
DEFECTS = ["untrusted-root", "expired", "not-yet-valid", "issuer-not-ca", "bad-cert-sig", "key-mismatch"]


def fields(line):
    return dict(f.split("=", 1) for f in line.split(" ") if "=" in f)


def run(ctx):
    ctx.check_proofs()
    exe, log = core.build_harness("C09", "asan", extra=WRAP)
    if exe is None:
        core.harness_build_failed(ctx, log)
        return finish(ctx)
    seeds = [21 + ctx.seed % 1000, 22 + ctx.seed % 1000] if ctx.tier == "quick" else [21 + ctx.seed % 1000 + i for i in range(8)]
    cases = []
    for p in PROTOS:
        for role in ("client", "server"):
            ds = ["valid"] + DEFECTS + (["enc-key-mismatch"] if (p == "tlcp" and role == "client") else []) + (["no-cert"] if role == "server" else [])
            for d in ds:
                for s in seeds:
                    cases.append(("auth %s %s %s %d" % (p, role, d, s), "auth:%s:%s-verifies:%s" % (p, role, d), role, d))
    outs, _ = core.run_lines(exe, [c[0] for c in cases], shards=12)
    for (line, cell, role, d), out in zip(cases, outs):
        ctx.cov["evaluations"] += 1
        ctx.count("defect:" + d)
        rep = {"kind": "failing-input", "op": line, "impl": out[:500], "variant": "asan"}
        if out.startswith("FAULT"):
            ctx.violation(cell + ":memory-fault", "endpoint crashed under ASan/UBSan: %s [%s]" % (out[:80], line), rep); continue
        if "=" not in out:
            ctx.violation(cell + ":harness", "harness error %s [%s]" % (out[:80], line), rep); continue
        f = fields(out)
        verdict = f["rc"] if role == "client" else f["rs"]
        if d == "valid":
            if f["rc"] != "1" or f["rs"] != "1" or f["okc"] != "1" or f["oks"] != "1":
                ctx.violation(cell + ":control", "the control run with valid credentials does not complete: %s [%s]" % (out, line), rep)
            else:
                ctx.cell(cell + ":completes")
            continue
        if verdict == "1":
            ctx.violation(cell + ":accepted", "the verifying %s reports a completed handshake although the peer's credentials are defective (%s): %s [%s]" % (role, d, out, line), rep)
        else:
            ctx.cell(cell + ":rejected")
            if len(ctx.cov["samples"]) < 10:
                ctx.sample({"op": line, "result": out})
    return finish(ctx)


def replay(path):
    import json
    r = json.load(open(path)); op = r.get("replay", {}).get("op")
    if not op:
        print("replay names a proof obligation, not an input:", json.dumps(r.get("replay"))[:800]); return 0
    exe, log = core.build_harness("C09", "asan", extra=WRAP)
    if exe is None:
        print(log[-2000:]); return 1
    a, err = core.run_lines(exe, [op], shards=1, env={"VERIF_STDERR": "1"})
    print("op:  ", op); print("impl:", a[0]); print("stderr:", err[-1500:])
    return 0


def finish(ctx):
    ctx.assumptions = [
        "the theorems are about the guard lists of Tls/Handshake.v (transcribed from the six drivers); that the C drivers perform these checks with these meanings is observed by the run-time defect matrix, not proved",
        "'proves possession of the private key' is read as: the signature / Finished equations hold (decision rule); unforgeability of SM2 signatures and SM2 encryption is not proved here",
        "a TLCP client without configured trust anchors skips the chain check (tlcp.c: if (conn->ca_certs_len)); the property's premise 'configured with trust anchors' excludes it",
        "empty client Certificate message is covered by the guard theorem only; at run time the library client refuses to continue without a certificate, so the 'missing certificate' row is what is exercised",
    ]
    return ctx.finish(level="proof",
                      rule="3 protocols x {client verifies server, server verifies client} x {valid (control), untrusted root, expired, not yet valid (interposed clock), issuer not a CA, corrupted certificate signature, certificate/private-key mismatch (= wrong-key signature / CertificateVerify), TLCP encryption-key mismatch, no client certificate} x seeds; oracle: the verifying endpoint's handshake return is not 1",
                      trusted=core.TRUSTED_COMMON + ["credential generation with the library's X.509 functions (props/C08/tls_peer.h)", "Coq files: Tls/Handshake.v HandshakeProofs.v"])
