/* C09 harness: credential-defect matrix.  One endpoint is honest and verifying, the other presents
 * defective credentials.
 *   auth <proto> <role client|server> <defect> <seed>
 * role = the VERIFYING endpoint.  Prints rc (client handshake return) and rs (server).
 * defects: valid untrusted-root expired not-yet-valid issuer-not-ca bad-cert-sig
 *          key-mismatch      peer holds the right certificate but signs with another private key
 *                            (= wrong-key ServerKeyExchange / CertificateVerify)
 *          leaf-swapped      peer presents ANOTHER valid leaf of the same CA, keeps its own key
 *          enc-key-mismatch  TLCP server: decryption key does not belong to the encryption certificate
 *          enc-cert-other-ca TLCP server: encryption certificate issued by a different CA than the signing one
 *          cert-other-sigalg leaf whose two signatureAlgorithm fields name an algorithm the library does not verify
 *          anchors-oversize  the VERIFIER's CA bundle (6 certificates, real root included) exceeds the 2048-byte conn->ca_certs;
 *                            the peer is anonymous (server verifies) / under an untrusted root (client verifies):
 *                            tls_init must refuse, or authentication must still be enforced
 *          anchors-many      control: 5 CA certificates (real root last), valid peer
 *          oversize-cert-<bytes>-<pos>  the peer is a forger: certificate number <pos> of the chain it sends is a
 *                            well-formed certificate of <bytes> bytes (large subjectAltName)
 *          not-before-2^32   leaf valid from now + 2^32 s - 1 day (valid only in 32-bit arithmetic)
 *          clock-2^32        the verifier's clock is 2^32 s ahead (everything expired 136 years ago)
 *          forged-intermediate  the presented intermediate names the trusted root as its issuer but is signed with the attacker's
 *                            key; the leaves under it are genuine for the attacker's keys
 *          replay-sig        cross-session replay: an honest session is run first and the peer's signatures (ServerKeyExchange /
 *                            CertificateVerify) are recorded; then a forger WITHOUT the private key presents the same chain and
 *                            replays them in a new session with fresh randoms
 *          no-cert           client has no certificate although the server asks for one
 *          empty-cert        TLCP / TLS 1.2: the client's Certificate message carries an empty list (built by a
 *                            link-time interposer in the client thread, transcripts stay consistent);
 *                            TLS 1.3: the proxy replaces the client's {Certificate} record by an empty one
 *                            protected with the captured handshake traffic key
 */
#include "common.h"
#include "entropy.h"
#include "../C08/tls_peer.h"
#include <signal.h>

static pki_t pki; static int pki_ready;
static cred_t bad_leaf_s, bad_leaf_c;      /* leaves issued by a non-CA certificate */
static cred_t alt_leaf_s, alt_leaf_c;      /* second valid leaves under the same CA */
static cred_t senc_b;                      /* TLCP encryption certificate issued by the other hierarchy's CA */
static cred_t ca_forged, ssign_f, senc_f, csign_f;   /* an intermediate that NAMES the trusted root as issuer but is signed with the attacker's key, and leaves under it */

/* like mk_cert (tls_peer.h), with a chosen serial number and, if noexts, without an Extensions field at all */
static int mk_cert_ex(cred_t *subj, const cred_t *issuer, int ca, int pathlen, int ku, time_t nb, time_t na,
	const uint8_t *serial_in, size_t serial_len, int noexts) {
	uint8_t serial[20], exts[512]; size_t extslen = 0; uint8_t *p = subj->der; const cred_t *iss = issuer ? issuer : subj;
	if (serial_in && serial_len <= sizeof serial) memcpy(serial, serial_in, serial_len);
	else { serial_len = 12; rand_bytes(serial, 12); serial[0] &= 0x7f; serial[0] |= 0x40; }
	if (!noexts) {
		if (ku && x509_exts_add_key_usage(exts, &extslen, sizeof(exts), X509_critical, ku) != 1) return -1;
		if ((ca >= 0 || pathlen >= 0) && x509_exts_add_basic_constraints(exts, &extslen, sizeof(exts), X509_critical, ca, pathlen) != 1) return -1;
	}
	subj->len = 0;
	if (x509_cert_sign_to_der(X509_version_v3, serial, serial_len, OID_sm2sign_with_sm3,
		iss->name, iss->namelen, nb, na, subj->name, subj->namelen, &subj->key,
		NULL, 0, NULL, 0, extslen ? exts : NULL, extslen, &iss->key, SM2_DEFAULT_ID, SM2_DEFAULT_ID_LENGTH,
		&p, &subj->len) != 1) return -1;
	return subj->len <= sizeof(subj->der) ? 1 : -1;
}
/* look-alike of the trust anchor: self-signed, the anchor's subject name and serial number, the attacker's key; and
 * credentials under it */
static cred_t root_like, ca_like, ssign_l, senc_l, csign_l, ssign_ld, senc_ld, csign_ld;
/* issuers that must not be issuers: an end-user certificate without any Extensions field (noext_u), a certificate with
 * keyUsage but without basicConstraints (nobc_n); leaves directly under them and under a proper-looking CA they issued */
static cred_t noext_u, nobc_n, ca_under_u, ca_under_n, s_u, e_u, c_u, s_ud, e_ud, c_ud, s_nd, e_nd, c_nd;
static int mk_more_pki(void) {
	const uint8_t *iss, *ser; size_t isslen, serlen;
	if (x509_cert_get_issuer_and_serial_number(pki.root.der, pki.root.len, &iss, &isslen, &ser, &serlen) != 1) return -1;
	root_like = pki.root; root_like.key = pki.root2.key;
	if (mk_cert_ex(&root_like, NULL, 1, -1, X509_KU_KEY_CERT_SIGN, T0 - 3 * DAY, T0 + 3650 * DAY, ser, serlen, 0) != 1) return -1;
	if (mk_leaf(&ssign_l, &root_like, "localhost", X509_KU_DIGITAL_SIGNATURE, T0 - DAY, T0 + 365 * DAY) != 1
		|| mk_leaf(&senc_l, &root_like, "localhost", X509_KU_KEY_ENCIPHERMENT, T0 - DAY, T0 + 365 * DAY) != 1
		|| mk_leaf(&csign_l, &root_like, "client", X509_KU_DIGITAL_SIGNATURE, T0 - DAY, T0 + 365 * DAY) != 1) return -1;
	if (sm2_key_generate(&ca_like.key) != 1 || mk_name(&ca_like, "Sub CA L 0") != 1
		|| mk_cert(&ca_like, &root_like, 1, 0, X509_KU_KEY_CERT_SIGN, T0 - 2 * DAY, T0 + 365 * DAY) != 1
		|| mk_leaf(&ssign_ld, &ca_like, "localhost", X509_KU_DIGITAL_SIGNATURE, T0 - DAY, T0 + 365 * DAY) != 1
		|| mk_leaf(&senc_ld, &ca_like, "localhost", X509_KU_KEY_ENCIPHERMENT, T0 - DAY, T0 + 365 * DAY) != 1
		|| mk_leaf(&csign_ld, &ca_like, "client", X509_KU_DIGITAL_SIGNATURE, T0 - DAY, T0 + 365 * DAY) != 1) return -1;
	/* U: issued by the trusted root itself (so no pathLenConstraint of an intermediate stands in the way), no Extensions field */
	if (sm2_key_generate(&noext_u.key) != 1 || mk_name(&noext_u, "End User U") != 1
		|| mk_cert_ex(&noext_u, &pki.root, -1, -1, 0, T0 - 2 * DAY, T0 + 365 * DAY, NULL, 0, 1) != 1) return -1;
	if (sm2_key_generate(&nobc_n.key) != 1 || mk_name(&nobc_n, "End User N") != 1
		|| mk_cert_ex(&nobc_n, &pki.root, -1, -1, X509_KU_DIGITAL_SIGNATURE | X509_KU_KEY_CERT_SIGN, T0 - 2 * DAY, T0 + 365 * DAY, NULL, 0, 0) != 1) return -1;
	if (mk_leaf(&s_u, &noext_u, "localhost", X509_KU_DIGITAL_SIGNATURE, T0 - DAY, T0 + 365 * DAY) != 1
		|| mk_leaf(&e_u, &noext_u, "localhost", X509_KU_KEY_ENCIPHERMENT, T0 - DAY, T0 + 365 * DAY) != 1
		|| mk_leaf(&c_u, &noext_u, "client", X509_KU_DIGITAL_SIGNATURE, T0 - DAY, T0 + 365 * DAY) != 1) return -1;
	if (sm2_key_generate(&ca_under_u.key) != 1 || mk_name(&ca_under_u, "Sub CA under U") != 1
		|| mk_cert(&ca_under_u, &noext_u, 1, 0, X509_KU_KEY_CERT_SIGN, T0 - 2 * DAY, T0 + 365 * DAY) != 1
		|| mk_leaf(&s_ud, &ca_under_u, "localhost", X509_KU_DIGITAL_SIGNATURE, T0 - DAY, T0 + 365 * DAY) != 1
		|| mk_leaf(&e_ud, &ca_under_u, "localhost", X509_KU_KEY_ENCIPHERMENT, T0 - DAY, T0 + 365 * DAY) != 1
		|| mk_leaf(&c_ud, &ca_under_u, "client", X509_KU_DIGITAL_SIGNATURE, T0 - DAY, T0 + 365 * DAY) != 1) return -1;
	if (sm2_key_generate(&ca_under_n.key) != 1 || mk_name(&ca_under_n, "Sub CA under N") != 1
		|| mk_cert(&ca_under_n, &nobc_n, 1, 0, X509_KU_KEY_CERT_SIGN, T0 - 2 * DAY, T0 + 365 * DAY) != 1
		|| mk_leaf(&s_nd, &ca_under_n, "localhost", X509_KU_DIGITAL_SIGNATURE, T0 - DAY, T0 + 365 * DAY) != 1
		|| mk_leaf(&e_nd, &ca_under_n, "localhost", X509_KU_KEY_ENCIPHERMENT, T0 - DAY, T0 + 365 * DAY) != 1
		|| mk_leaf(&c_nd, &ca_under_n, "client", X509_KU_DIGITAL_SIGNATURE, T0 - DAY, T0 + 365 * DAY) != 1) return -1;
	return 1;
}
static pki_t *get_pki(void) {
	if (!pki_ready) {
		ent_seed(0xC09000, -1); ent_clock(T0);
		if (mk_pki(&pki, 1) != 1) return NULL;
		/* issuer = the client's end-entity certificate (no basicConstraints CA, no keyCertSign) */
		if (mk_leaf(&bad_leaf_s, &pki.csign, "localhost", X509_KU_DIGITAL_SIGNATURE, T0 - DAY, T0 + 365 * DAY) != 1) return NULL;
		if (mk_leaf(&bad_leaf_c, &pki.ssign, "client", X509_KU_DIGITAL_SIGNATURE, T0 - DAY, T0 + 365 * DAY) != 1) return NULL;
		if (mk_leaf(&alt_leaf_s, &pki.ca[0], "localhost", X509_KU_DIGITAL_SIGNATURE, T0 - DAY, T0 + 365 * DAY) != 1) return NULL;
		if (mk_leaf(&alt_leaf_c, &pki.ca[0], "client", X509_KU_DIGITAL_SIGNATURE, T0 - DAY, T0 + 365 * DAY) != 1) return NULL;
		if (mk_leaf(&senc_b, &pki.ca2, "localhost", X509_KU_KEY_ENCIPHERMENT, T0 - DAY, T0 + 365 * DAY) != 1) return NULL;
		{
			cred_t fake_root = pki.root;            /* the trusted root's name ... */
			fake_root.key = pki.root2.key;          /* ... with the attacker's key */
			if (sm2_key_generate(&ca_forged.key) != 1 || mk_name(&ca_forged, "Sub CA A 0") != 1
				|| mk_cert(&ca_forged, &fake_root, 1, 0, X509_KU_KEY_CERT_SIGN, T0 - 2 * DAY, T0 + 365 * DAY) != 1
				|| mk_leaf(&ssign_f, &ca_forged, "localhost", X509_KU_DIGITAL_SIGNATURE, T0 - DAY, T0 + 365 * DAY) != 1
				|| mk_leaf(&senc_f, &ca_forged, "localhost", X509_KU_KEY_ENCIPHERMENT, T0 - DAY, T0 + 365 * DAY) != 1
				|| mk_leaf(&csign_f, &ca_forged, "client", X509_KU_DIGITAL_SIGNATURE, T0 - DAY, T0 + 365 * DAY) != 1) return NULL;
		}
		if (mk_more_pki() != 1) return NULL;
		pki_ready = 1;
	}
	return &pki;
}

static void handle(size_t nw, char **w) {
	if (!strcmp(w[0], "auth") && (nw == 5 || nw == 6)) {
		int force_mutual = nw == 6 && atoi(w[5]);   /* client-verifies-server rows with client authentication switched on as well */
		int protocol = proto_of(w[1]); int verifier_is_client = !strcmp(w[2], "client"); const char *df = w[3];
		uint64_t seed = strtoull(w[4], NULL, 10);
		pki_t *k = get_pki(); session_t *S;
		uint8_t *schain = NULL, *cchain = NULL; size_t schainlen = 0, cchainlen = 0;
		const SM2_KEY *skey, *sekey, *ckey; const cred_t *sleaf, *cleaf, *sencleaf; time_t vclock = T0;
		uint8_t repl[64]; size_t repllen = 0;
		uint8_t *vanchors = NULL; size_t vanchorslen = 0; int anon_client = 0;
		uint8_t *big = NULL; size_t biglen = 0; int bigpos = -1; static cred_t far_leaf_s, far_leaf_c;
		int replay = 0, pass; sigstore_t store; memset(&store, 0, sizeof store);
		int tlcp = protocol == TLS_protocol_tlcp; const cred_t *xtra[4] = { NULL, NULL, NULL, NULL }; int nx = 0, lone = 0, xi;
		if (!k || protocol < 0) { printf("ERR setup"); return; }
		S = calloc(1, sizeof(*S));
		sencleaf = &k->senc;
		sleaf = &k->ssign; cleaf = &k->csign; skey = &k->ssign.key; sekey = &k->senc.key; ckey = &k->csign.key;
		/* the defect applies to the credentials of the peer of the verifier */
		if (!strcmp(df, "valid")) { }
		else if (!strcmp(df, "untrusted-root")) { if (verifier_is_client) { sleaf = &k->ssign2; skey = &k->ssign2.key; } else { cleaf = &k->csign2; ckey = &k->csign2.key; } }
		else if (!strcmp(df, "expired")) vclock = T0 + 400 * DAY;          /* leaf (and sub CA) no longer valid at the verifier's clock */
		else if (!strcmp(df, "not-yet-valid")) vclock = T0 - 36 * 3600;   /* leaf not yet valid, CAs already valid */
		else if (!strcmp(df, "issuer-not-ca")) { if (verifier_is_client) { sleaf = &bad_leaf_s; skey = &bad_leaf_s.key; } else { cleaf = &bad_leaf_c; ckey = &bad_leaf_c.key; } }
		else if (!strcmp(df, "key-mismatch")) { if (verifier_is_client) skey = &k->csign.key; else ckey = &k->ssign.key; }
		else if (!strcmp(df, "leaf-swapped")) { if (verifier_is_client) sleaf = &alt_leaf_s; else cleaf = &alt_leaf_c; }   /* keys stay those of the original leaves */
		else if (!strcmp(df, "enc-key-mismatch")) { sekey = &k->csign.key; }
		else if (!strcmp(df, "enc-cert-other-ca")) { sencleaf = &senc_b; sekey = &senc_b.key; }
		else if (!strcmp(df, "bad-cert-sig") || !strcmp(df, "no-cert") || !strcmp(df, "empty-cert") || !strcmp(df, "cert-other-sigalg")) { }
		else if (!strcmp(df, "anchors-oversize")) {
			if (bundle_build(&vanchors, &vanchorslen, &k->root, 6, 5, 0) != 1 || vanchorslen <= TLS_MAX_CERTIFICATES_SIZE) { printf("ERR bundle"); free(S); return; }
			if (verifier_is_client) { sleaf = &k->ssign2; skey = &k->ssign2.key; } else anon_client = 1;
		}
		else if (!strcmp(df, "anchors-many")) {
			if (bundle_build(&vanchors, &vanchorslen, &k->root, 5, 4, 0) != 1 || vanchorslen > TLS_MAX_CERTIFICATES_SIZE) { printf("ERR bundle %zu", vanchorslen); free(S); return; }
		}
		else if (!strncmp(df, "oversize-cert-", 14)) {
			size_t want = strtoul(df + 14, NULL, 10); const char *q = strchr(df + 14, '-');
			bigpos = q ? atoi(q + 1) : 1;
			ent_seed(0xB16000 + want, -1);
			big = mk_big_cert(&k->ca[0], want, &biglen);
			if (!big) { printf("ERR bigcert"); free(S); return; }
		}
		else if (!strcmp(df, "not-before-2^32")) {
			time_t nb = T0 + ((time_t)1 << 32) - DAY; cred_t *fl = verifier_is_client ? &far_leaf_s : &far_leaf_c;
			ent_seed(0xFA4000, -1);
			if (mk_leaf(fl, &k->ca[0], verifier_is_client ? "localhost" : "client", X509_KU_DIGITAL_SIGNATURE, nb, nb + 365 * DAY) != 1) { printf("ERR farleaf"); free(S); return; }
			if (verifier_is_client) { sleaf = fl; skey = &fl->key; } else { cleaf = fl; ckey = &fl->key; }
		}
		else if (!strcmp(df, "clock-2^32")) vclock = T0 + ((time_t)1 << 32);
		else if (!strcmp(df, "replay-sig")) replay = 1;
		else if (!strcmp(df, "forged-intermediate")) {
			if (verifier_is_client) { sleaf = &ssign_f; skey = &ssign_f.key; sencleaf = &senc_f; sekey = &senc_f.key; } else { cleaf = &csign_f; ckey = &csign_f.key; }
		}
		else if (!strcmp(df, "anchor-lookalike")) { if (verifier_is_client) { sleaf = &ssign_l; skey = &ssign_l.key; sencleaf = &senc_l; sekey = &senc_l.key; } else { cleaf = &csign_l; ckey = &csign_l.key; } xtra[0] = &root_like; nx = 1; }
		else if (!strcmp(df, "anchor-lookalike-deep")) { if (verifier_is_client) { sleaf = &ssign_ld; skey = &ssign_ld.key; sencleaf = &senc_ld; sekey = &senc_ld.key; } else { cleaf = &csign_ld; ckey = &csign_ld.key; } xtra[0] = &ca_like; xtra[1] = &root_like; nx = 2; }
		else if (!strcmp(df, "anchor-lookalike-not-sent")) { if (verifier_is_client) { sleaf = &ssign_l; skey = &ssign_l.key; sencleaf = &senc_l; sekey = &senc_l.key; } else { cleaf = &csign_l; ckey = &csign_l.key; } nx = 0; lone = 1; }
		else if (!strcmp(df, "issuer-no-extensions")) { if (verifier_is_client) { sleaf = &s_u; skey = &s_u.key; sencleaf = &e_u; sekey = &e_u.key; } else { cleaf = &c_u; ckey = &c_u.key; } xtra[0] = &noext_u; nx = 1; }
		else if (!strcmp(df, "issuer-no-extensions-deep")) { if (verifier_is_client) { sleaf = &s_ud; skey = &s_ud.key; sencleaf = &e_ud; sekey = &e_ud.key; } else { cleaf = &c_ud; ckey = &c_ud.key; } xtra[0] = &ca_under_u; xtra[1] = &noext_u; nx = 2; }
		else if (!strcmp(df, "issuer-not-ca-deep")) { if (verifier_is_client) { sleaf = &s_nd; skey = &s_nd.key; sencleaf = &e_nd; sekey = &e_nd.key; } else { cleaf = &c_nd; ckey = &c_nd.key; } xtra[0] = &ca_under_n; xtra[1] = &nobc_n; nx = 2; }
		else { printf("ERR bad-defect"); free(S); return; }

		if (nx || lone) {
			/* the forger's chain: leaf (and TLCP encryption leaf), then the listed certificates */
			if (verifier_is_client) { chain_add(&schain, &schainlen, sleaf); if (tlcp) chain_add(&schain, &schainlen, sencleaf); for (xi = 0; xi < nx; xi++) chain_add(&schain, &schainlen, xtra[xi]); chain_build(&cchain, &cchainlen, k, cleaf, NULL); }
			else { chain_add(&cchain, &cchainlen, cleaf); for (xi = 0; xi < nx; xi++) chain_add(&cchain, &cchainlen, xtra[xi]); chain_build(&schain, &schainlen, k, sleaf, tlcp ? sencleaf : NULL); }
		} else if (!strcmp(df, "untrusted-root") || (!strcmp(df, "anchors-oversize") && verifier_is_client)) {
			/* chain under the second hierarchy */
			if (verifier_is_client) { chain_add(&schain, &schainlen, sleaf); if (tlcp) chain_add(&schain, &schainlen, sencleaf); chain_add(&schain, &schainlen, &k->ca2); chain_build(&cchain, &cchainlen, k, cleaf, NULL); }
			else { chain_add(&cchain, &cchainlen, cleaf); chain_add(&cchain, &cchainlen, &k->ca2); chain_build(&schain, &schainlen, k, sleaf, tlcp ? sencleaf : NULL); }
		} else if (!strcmp(df, "forged-intermediate")) {
			if (verifier_is_client) { chain_add(&schain, &schainlen, sleaf); if (tlcp) chain_add(&schain, &schainlen, sencleaf); chain_add(&schain, &schainlen, &ca_forged); chain_build(&cchain, &cchainlen, k, cleaf, NULL); }
			else { chain_add(&cchain, &cchainlen, cleaf); chain_add(&cchain, &cchainlen, &ca_forged); chain_build(&schain, &schainlen, k, sleaf, tlcp ? sencleaf : NULL); }
		} else if (!strcmp(df, "issuer-not-ca")) {
			if (verifier_is_client) { chain_add(&schain, &schainlen, sleaf); if (tlcp) chain_add(&schain, &schainlen, sencleaf); chain_add(&schain, &schainlen, &k->csign); chain_add(&schain, &schainlen, &k->ca[0]); chain_build(&cchain, &cchainlen, k, cleaf, NULL); }
			else { chain_add(&cchain, &cchainlen, cleaf); chain_add(&cchain, &cchainlen, &k->ssign); chain_add(&cchain, &cchainlen, &k->ca[0]); chain_build(&schain, &schainlen, k, sleaf, tlcp ? sencleaf : NULL); }
		} else {
			chain_build(&schain, &schainlen, k, sleaf, tlcp ? sencleaf : NULL);
			chain_build(&cchain, &cchainlen, k, cleaf, NULL);
		}
		if (!strcmp(df, "cert-other-sigalg")) {
			/* a forged leaf: both signature-algorithm fields say ecdsa-with-sha256 instead of sm2sign-with-sm3
			 * (same encoded length), so the SM2 signature no longer covers the TBS bytes; a verifier that
			 * skips algorithms it does not implement would accept it */
			static const uint8_t sm2oid[10] = { 0x06, 0x08, 0x2A, 0x81, 0x1C, 0xCF, 0x55, 0x01, 0x83, 0x75 };
			static const uint8_t ecoid[10] = { 0x06, 0x08, 0x2A, 0x86, 0x48, 0xCE, 0x3D, 0x04, 0x03, 0x02 };
			uint8_t *c = verifier_is_client ? schain : cchain; size_t n = verifier_is_client ? sleaf->len : cleaf->len, i; int hits = 0;
			for (i = 0; i + 10 <= n; i++) if (!memcmp(c + i, sm2oid, 10)) { memcpy(c + i, ecoid, 10); hits++; }
			if (hits != 2) { printf("ERR forge"); free(schain); free(cchain); free(S); return; }
		}
		if (!strcmp(df, "bad-cert-sig")) {
			/* flip one bit in the signature value at the end of the leaf certificate */
			if (verifier_is_client) schain[sleaf->len - 5] ^= 0x10; else cchain[cleaf->len - 5] ^= 0x10;
		}
		{
			int client_has_cert = !(!verifier_is_client && (!strcmp(df, "no-cert") || anon_client));
			int mutual = !verifier_is_client || force_mutual;      /* server verifies => client authentication on */
			const uint8_t *sanch = mutual ? k->root.der : NULL; size_t sanchlen = mutual ? k->root.len : 0;
			const uint8_t *canch = k->root.der; size_t canchlen = k->root.len; int r1, r2;
			if (vanchors) { if (verifier_is_client) { canch = vanchors; canchlen = vanchorslen; } else { sanch = vanchors; sanchlen = vanchorslen; } }
			r1 = ep_setup(&S->s, protocol, 0, schain, schainlen, skey, tlcp ? sekey : NULL, sanch, sanchlen);
			r2 = ep_setup(&S->c, protocol, 1, (mutual && client_has_cert) ? cchain : NULL, (mutual && client_has_cert) ? cchainlen : 0,
					(mutual && client_has_cert) ? ckey : NULL, NULL, canch, canchlen);
			if (r1 == -2 || r2 == -2) { printf("init=refused rc=-1 rs=-1 okc=0 oks=0 cfg=11"); free(schain); free(cchain); free(vanchors); free(big); free(S); return; }
			if (r1 != 1 || r2 != 1) { printf("ERR setup"); free(schain); free(cchain); free(vanchors); free(big); free(S); return; }
			if (big) { endpoint_t *forger = verifier_is_client ? &S->s : &S->c; forger->forge_pos = bigpos; forger->forge_cert = big; forger->forge_cert_len = biglen; }
		}
		S->c.seed = seed * 2 + 1; S->s.seed = seed * 2 + 2;
		if (verifier_is_client) S->c.clock = vclock; else S->s.clock = vclock;
		for (pass = 0; replay && pass < 1; pass++) {
			/* session 1: honest, the signatures of the verifier's peer are recorded */
			endpoint_t *peer = verifier_is_client ? &S->s : &S->c;
			peer->sig_mode = 1; peer->sigs = &store; S->c.post = S->s.post = 1;
			session_run(S, 3000, 0);
			if (S->c.hs_ret != 1 || S->s.hs_ret != 1 || store.n < 1) { printf("ERR replay-first-session %d/%d/%d", S->c.hs_ret, S->s.hs_ret, store.n); session_close(S); free(schain); free(cchain); free(S); return; }
			session_close(S); memset(S, 0, sizeof(*S));
			/* session 2: the same chain, but the forger holds another private key and replays the recorded signatures */
			{
				int mutual = !verifier_is_client || force_mutual;
				if (ep_setup(&S->s, protocol, 0, schain, schainlen, verifier_is_client ? &k->csign2.key : skey, tlcp ? sekey : NULL, mutual ? k->root.der : NULL, mutual ? k->root.len : 0) != 1
					|| ep_setup(&S->c, protocol, 1, mutual ? cchain : NULL, mutual ? cchainlen : 0, mutual ? (verifier_is_client ? ckey : &k->ssign2.key) : NULL, NULL, k->root.der, k->root.len) != 1) { printf("ERR setup2"); free(schain); free(cchain); free(S); return; }
			}
			peer = verifier_is_client ? &S->s : &S->c;
			peer->sig_mode = 2; peer->sigs = &store; store.next = 0;
			S->c.seed = seed * 2 + 101; S->s.seed = seed * 2 + 102;
		}
		S->c.post = S->s.post = 1;
		if (!strcmp(df, "empty-cert") && !verifier_is_client) {
			if (protocol != TLS_protocol_tls13) S->c.empty_cert = 1;
			else {
				/* TLS 1.3: the proxy swaps the client's {Certificate} (c2s record 1) for an empty one; it is
				 * protected when the record passes, with the client's handshake write key (see px_forward) */
				S->px.fault.kind = F_REPLACE; S->px.fault.dir = 0; S->px.fault.idx = 1; S->px.fault.repl = repl; S->px.fault.repllen = 0;
				S->px.craft13 = &S->c.view; (void)repllen;
			}
		}
		session_run(S, 1500, 0);
		printf("init=ok cfg=%d%d ", ep_anchors_intact(&S->c), ep_anchors_intact(&S->s));
		printf("rc=%d rs=%d okc=%d oks=%d", S->c.hs_ret, S->s.hs_ret, S->c.post_accepted == 2 && !S->c.post_deviates, S->s.post_accepted == 2 && !S->s.post_deviates);
		session_close(S); free(schain); free(cchain); free(vanchors); free(big); free(S);
	}
	else if (!strcmp(w[0], "skesig") && nw == 3) {
		/* observer: in an honest TLS 1.2 session the ServerKeyExchange signature, as captured by the client, must verify
		 * (sm2_verify called directly, key taken from the presented certificate) over client_random || server_random ||
		 * ServerECDHParams INCLUDING the 65 octets of the point -- and must not verify over the same bytes with another point */
		int auth = atoi(w[1]); uint64_t seed = strtoull(w[2], NULL, 10); pki_t *k = get_pki(); session_t *S; int i, ok = -1, other = -1;
		uint8_t *schain = NULL, *cchain = NULL; size_t schainlen = 0, cchainlen = 0;
		const uint8_t *cr = NULL, *sr = NULL, *cert = NULL, *ske = NULL; size_t certlen = 0, skelen = 0;
		if (!k) { printf("ERR setup"); return; }
		S = calloc(1, sizeof(*S));
		chain_build(&schain, &schainlen, k, &k->ssign, NULL); chain_build(&cchain, &cchainlen, k, &k->csign, NULL);
		if (ep_setup(&S->s, TLS_protocol_tls12, 0, schain, schainlen, &k->ssign.key, NULL, auth ? k->root.der : NULL, auth ? k->root.len : 0) != 1
			|| ep_setup(&S->c, TLS_protocol_tls12, 1, auth ? cchain : NULL, auth ? cchainlen : 0, auth ? &k->csign.key : NULL, NULL, k->root.der, k->root.len) != 1) { printf("ERR setup"); free(S); return; }
		S->c.seed = seed * 2 + 1; S->s.seed = seed * 2 + 2; S->c.post = S->s.post = 1;
		session_run(S, 3000, 0);
		for (i = 0; i < S->c.view.n; i++) {
			const uint8_t *p = S->c.view.r[i].p; size_t n = S->c.view.r[i].len;
			if (n < 9 || p[0] != 22) continue;
			if (p[5] == 1 && n >= 9 + 34 && !cr) cr = p + 9 + 2;
			else if (p[5] == 2 && n >= 9 + 34 && !sr) sr = p + 9 + 2;
			else if (p[5] == 11 && n >= 9 + 6 && !cert) { certlen = ((size_t)p[12] << 16) | ((size_t)p[13] << 8) | p[14]; cert = p + 15; if (15 + certlen > n) cert = NULL; }
			else if (p[5] == 12 && !ske) { ske = p + 9; skelen = n - 9; }
		}
		if (S->c.hs_ret == 1 && S->s.hs_ret == 1 && cr && sr && cert && ske && skelen >= 69 + 4) {
			SM2_KEY pub; SM2_VERIFY_CTX vc; size_t sl = ((size_t)ske[71] << 8) | ske[72]; uint8_t params[69];
			if (73 + sl <= skelen && x509_cert_get_subject_public_key(cert, certlen, &pub) == 1) {
				ok = sm2_verify_init(&vc, &pub, SM2_DEFAULT_ID, SM2_DEFAULT_ID_LENGTH) == 1 && sm2_verify_update(&vc, cr, 32) == 1 && sm2_verify_update(&vc, sr, 32) == 1
					&& sm2_verify_update(&vc, ske, 69) == 1 && sm2_verify_finish(&vc, ske + 73, sl) == 1;
				memcpy(params, ske, 69); memcpy(params + 4, k->csign2.der, 0);
				{ SM2_KEY other_key; uint8_t oct[65]; ent_seed(seed + 4242, -1); sm2_key_generate(&other_key); sm2_z256_point_to_uncompressed_octets(&other_key.public_key, oct); memcpy(params + 4, oct, 65); }
				other = sm2_verify_init(&vc, &pub, SM2_DEFAULT_ID, SM2_DEFAULT_ID_LENGTH) == 1 && sm2_verify_update(&vc, cr, 32) == 1 && sm2_verify_update(&vc, sr, 32) == 1
					&& sm2_verify_update(&vc, params, 69) == 1 && sm2_verify_finish(&vc, ske + 73, sl) == 1;
			}
		}
		printf("rc=%d rs=%d skesig=%d otherpoint=%d", S->c.hs_ret, S->s.hs_ret, ok, other);
		session_close(S); free(schain); free(cchain); free(S);
	}
	else printf("ERR bad-op");
}

int main(void) { signal(SIGPIPE, SIG_IGN); quiet_stderr(); main_loop(handle); return 0; }
