/* C07 correspondence harness: builds real certificate chains with the library's own issuing
 * API from per-certificate attribute vectors and reports what x509_certs_verify /
 * x509_certs_verify_tlcp / x509_cert_check / x509_certs_get_cert_by_subject answer.
 *
 * ops (one per line):
 *   verify <tls|tlcp> <role:0 server|1 client|n other> <depth> <now> <chain> <store>
 *   check <cert_type int> <now> <cert>
 *   bysubj <subject id> <store>
 * <chain>/<store> = cert tokens separated by ';' ("." = empty list)
 * cert token = comma-separated fields
 *   p<0|1>   1 = regular certificate, 0 = a DER blob that is no certificate
 *   v<n>     version field (-1 absent, 0 v1, 1 v2, 2 v3)
 *   l<n>     serial number length in bytes (>=1)
 *   m<n> o<n> inner (TBSCertificate.signature) / outer (signatureAlgorithm) algorithm identifier:
 *            0 sm2sign-with-sm3, 1 same with NULL parameters, 2 ecdsa-with-sha256, 3 sha256WithRSAEncryption+NULL,
 *            4 rsasign-with-sm3+NULL, 5 an OID outside the library's table, 6 ecdsa-with-sha256+NULL, 7 sm2sign-with-sm3 with an INTEGER parameter
 *            the signature bits are always an SM2 signature by key g (or corrupted, g0)
 *   h<0|1>   1 = compose the certificate by hand (TBS fields from the library's field writers) even when m0,o0
 *   s<n> i<n> subject / issuer name id (0 = empty name)
 *   k<n>     subject public key id (1..NKEYS)
 *   g<n>     id of the key that signs (0 = signature bytes corrupted after signing)
 *   t<n>     n octets (value 0) appended after the signature value inside the BIT STRING (the certificate is composed by hand)
 *   b<t> a<t> notBefore / notAfter (seconds)
 *   x<exts>  '-' or extensions separated by '+', each kind:critical[:arg[:arg]]
 *            critical: -1 absent, 0 FALSE, 1 TRUE
 *            bc:c:ca:pathlen  ku:c:bits  eku:c:p.p.p ('-' = empty list; 0 any 1 server 2 client 3.. others)
 *            ski:c:len  aki:c  cp:c pm:c san:c ian:c sda:c nc:c pc:c crldp:c iap:c fcrl:c
 *            ns:c aia:c (known to the OID table, not to x509_exts_check)  unk:c (OID 1.2.3.4.5)
 *            rawoid:c:<hex>  extnID content octets verbatim (arcs of 2^32 and more, redundant leading septets, ...)
 *            bad:c  (an extension whose extnValue is not an OCTET STRING)
 */
#include "common.h"
#include "entropy.h"
#include <gmssl/sm2.h>
#include <gmssl/oid.h>
#include <gmssl/asn1.h>
#include <gmssl/x509.h>
#include <gmssl/x509_ext.h>
#include <gmssl/error.h>

#define NKEYS 8
static SM2_KEY keys[NKEYS + 1];

#define MAXCERT 2048
#define MAXCERTS 12

typedef struct { uint8_t *p; size_t n; } blob_t;

static int fail_build;

static long fld(const char *tok, char name, long dflt) {
	/* find ",<name>" or leading <name> */
	const char *p = tok;
	while (p && *p) {
		if (*p == name) return strtol(p + 1, NULL, 10);
		p = strchr(p, ',');
		if (p) p++;
	}
	return dflt;
}
static const char *fldstr(const char *tok, char name) {
	const char *p = tok;
	while (p && *p) {
		if (*p == name) return p + 1;
		p = strchr(p, ',');
		if (p) p++;
	}
	return NULL;
}

static int make_name(long id, uint8_t *name, size_t *namelen, size_t max) {
	char cn[32];
	*namelen = 0;
	if (id == 0) return 1;
	/* id = 100 + n: the Name of n followed by one more RDN, so that n's encoding is a byte-prefix of it */
	snprintf(cn, sizeof cn, "N%ld", id > 100 ? id - 100 : id);
	if (x509_name_set(name, namelen, max, "CN", NULL, NULL, "VERIF", NULL, cn) != 1) return -1;
	if (id > 100 && x509_name_add_organizational_unit_name(name, namelen, max, ASN1_TAG_PrintableString, (const uint8_t *)"X", 1) != 1) return -1;
	return 1;
}

/* raw Extension with an arbitrary OID */
static int add_raw_ext(uint8_t *exts, size_t *extslen, size_t max, const uint32_t *nodes, size_t cnt,
	int critical, const uint8_t *val, size_t vlen, int bad_value) {
	size_t len = 0; uint8_t *p = exts + *extslen;
	if (asn1_object_identifier_to_der(nodes, cnt, NULL, &len) != 1
		|| asn1_boolean_to_der(critical, NULL, &len) < 0
		|| (bad_value ? asn1_integer_to_der(val, vlen, NULL, &len) : asn1_octet_string_to_der(val, vlen, NULL, &len)) != 1)
		return -1;
	if (*extslen + len + 4 > max) return -1;
	if (asn1_sequence_header_to_der(len, &p, extslen) != 1
		|| asn1_object_identifier_to_der(nodes, cnt, &p, extslen) != 1
		|| asn1_boolean_to_der(critical, &p, extslen) < 0
		|| (bad_value ? asn1_integer_to_der(val, vlen, &p, extslen) : asn1_octet_string_to_der(val, vlen, &p, extslen)) != 1)
		return -1;
	return 1;
}
/* raw Extension whose extnID content octets are given verbatim (arcs beyond 32 bits, redundant septets, ...) */
static int add_raw_ext_oidbytes(uint8_t *exts, size_t *extslen, size_t max, const uint8_t *oid, size_t oidlen, int critical, const uint8_t *val, size_t vlen) {
	size_t len = 2 + oidlen; uint8_t *p = exts + *extslen;
	if (oidlen < 1 || oidlen > 100) return -1;
	if (asn1_boolean_to_der(critical, NULL, &len) < 0 || asn1_octet_string_to_der(val, vlen, NULL, &len) != 1) return -1;
	if (*extslen + len + 4 > max) return -1;
	if (asn1_sequence_header_to_der(len, &p, extslen) != 1) return -1;
	*p++ = 0x06; *p++ = (uint8_t)oidlen; memcpy(p, oid, oidlen); p += oidlen; *extslen += 2 + oidlen;
	if (asn1_boolean_to_der(critical, &p, extslen) < 0 || asn1_octet_string_to_der(val, vlen, &p, extslen) != 1) return -1;
	return 1;
}
static int add_ext_val(uint8_t *exts, size_t *extslen, size_t max, int oid, int critical, const uint8_t *val, size_t vlen) {
	uint8_t *p = exts + *extslen; size_t cur = *extslen;
	if (x509_ext_to_der(oid, critical, val, vlen, NULL, &cur) != 1 || cur > max) return -1;
	return x509_ext_to_der(oid, critical, val, vlen, &p, extslen);
}

static const int purposes[] = { OID_any_extended_key_usage, OID_kp_server_auth, OID_kp_client_auth,
	OID_kp_code_signing, OID_kp_email_protection, OID_kp_time_stamping, OID_kp_ocsp_signing };

static int add_one_ext(uint8_t *exts, size_t *extslen, size_t max, char *spec) {
	char *save = NULL; char *kind = strtok_r(spec, ":", &save);
	char *cs = strtok_r(NULL, ":", &save);
	char *a1 = strtok_r(NULL, ":", &save);
	char *a2 = strtok_r(NULL, ":", &save);
	int critical = cs ? atoi(cs) : -1;
	static const uint8_t generic[] = { 0x30, 0x03, 0x02, 0x01, 0x05 };
	if (!kind) return -1;
	if (!strcmp(kind, "bc")) {
		int ca = a1 ? atoi(a1) : -1, pl = a2 ? atoi(a2) : -1;
		if (ca == -1 && pl == -1) { static const uint8_t e[] = { 0x30, 0x00 };
			return add_ext_val(exts, extslen, max, OID_ce_basic_constraints, critical, e, 2); }
		return x509_exts_add_basic_constraints(exts, extslen, max, critical, ca, pl);
	}
	if (!strcmp(kind, "ku")) {
		int bits = a1 ? atoi(a1) : 0;
		if (bits == 0) { uint8_t v[8]; uint8_t *p = v; size_t vl = 0;
			if (asn1_bits_to_der(0, &p, &vl) != 1) return -1;
			return add_ext_val(exts, extslen, max, OID_ce_key_usage, critical, v, vl); }
		return x509_exts_add_key_usage(exts, extslen, max, critical, bits);
	}
	if (!strcmp(kind, "eku")) {
		int oids[16]; size_t n = 0; char *s2 = NULL, *t;
		if (a1 && strcmp(a1, "-")) for (t = strtok_r(a1, ".", &s2); t && n < 16; t = strtok_r(NULL, ".", &s2)) {
			int k = atoi(t); if (k < 0 || k > 6) return -1; oids[n++] = purposes[k]; }
		if (n == 0) { static const uint8_t e[] = { 0x30, 0x00 };
			return add_ext_val(exts, extslen, max, OID_ce_ext_key_usage, critical, e, 2); }
		return x509_exts_add_ext_key_usage(exts, extslen, max, critical, oids, n);
	}
	if (!strcmp(kind, "ski")) {
		int len = a1 ? atoi(a1) : 20; uint8_t id[64]; memset(id, 0x5a, sizeof id);
		if (len == 0) { static const uint8_t e[] = { 0x04, 0x00 };
			return add_ext_val(exts, extslen, max, OID_ce_subject_key_identifier, critical, e, 2); }
		return x509_exts_add_subject_key_identifier(exts, extslen, max, critical, id, (size_t)len);
	}
	if (!strcmp(kind, "aki") && critical == -1)  /* the toolkit's builder: critical absent */
		return x509_exts_add_default_authority_key_identifier(exts, extslen, max, &keys[1]);
	if (!strcmp(kind, "aki")) { uint8_t id[20]; memset(id, 0x33, sizeof id);
		return x509_exts_add_authority_key_identifier(exts, extslen, max, critical, id, sizeof id, NULL, 0, NULL, 0); }
	{
		static const struct { const char *k; int oid; } tab[] = {
			{ "cp", OID_ce_certificate_policies }, { "pm", OID_ce_policy_mappings }, { "san", OID_ce_subject_alt_name },
			{ "ian", OID_ce_issuer_alt_name }, { "sda", OID_ce_subject_directory_attributes }, { "nc", OID_ce_name_constraints },
			{ "pc", OID_ce_policy_constraints }, { "crldp", OID_ce_crl_distribution_points }, { "iap", OID_ce_inhibit_any_policy },
			{ "fcrl", OID_ce_freshest_crl }, { "ns", OID_netscape_cert_type }, { "aia", OID_pe_authority_info_access },
			{ "nscom", OID_netscape_cert_comment }, { "sct", OID_ct_precertificate_scts },
			{ "crlreason", OID_ce_crl_reasons }, { "invdate", OID_ce_invalidity_date }, { "certissuer", OID_ce_certificate_issuer },
		};
		size_t i;
		for (i = 0; i < sizeof tab / sizeof tab[0]; i++)
			if (!strcmp(kind, tab[i].k)) return add_ext_val(exts, extslen, max, tab[i].oid, critical, generic, sizeof generic);
	}
	if (!strcmp(kind, "unk")) { static const uint32_t n[] = { 1, 2, 3, 4, 5 };
		return add_raw_ext(exts, extslen, max, n, 5, critical, generic, sizeof generic, 0); }
	/* OIDs that extend / are a prefix of a recognised extension OID must be treated as unrecognised */
	if (!strcmp(kind, "bcx")) { static const uint32_t n[] = { 2, 5, 29, 19, 1 };
		return add_raw_ext(exts, extslen, max, n, 5, critical, generic, sizeof generic, 0); }
	if (!strcmp(kind, "kux")) { static const uint32_t n[] = { 2, 5, 29, 15, 0 };
		return add_raw_ext(exts, extslen, max, n, 5, critical, generic, sizeof generic, 0); }
	if (!strcmp(kind, "cepre")) { static const uint32_t n[] = { 2, 5, 29 };
		return add_raw_ext(exts, extslen, max, n, 3, critical, generic, sizeof generic, 0); }
	if (!strcmp(kind, "rawoid")) { buf_t o = hex2buf(a1 ? a1 : "-"); int r = add_raw_ext_oidbytes(exts, extslen, max, o.p, o.n, critical, generic, sizeof generic); free(o.p); return r; }
	if (!strcmp(kind, "bad")) { static const uint32_t n[] = { 2, 5, 29, 19 }; static const uint8_t one[] = { 1 };
		return add_raw_ext(exts, extslen, max, n, 4, critical, one, 1, 1); }
	return -1;
}

static blob_t make_cert(const char *tok) {
	blob_t r = { NULL, 0 };
	long p = fld(tok, 'p', 1), v = fld(tok, 'v', 2), l = fld(tok, 'l', 8), m = fld(tok, 'm', 0), o = fld(tok, 'o', 0);
	long s = fld(tok, 's', 1), i = fld(tok, 'i', 1), k = fld(tok, 'k', 1), g = fld(tok, 'g', 1);
	long long nb = 0, na = 0;
	const char *xs = fldstr(tok, 'x');
	uint8_t subj[256], iss[256], exts[1024], serial[32];
	size_t subjlen = 0, isslen = 0, extslen = 0, certlen = 0;
	uint8_t *out, *q;
	const char *t;
	if ((t = fldstr(tok, 'b'))) nb = strtoll(t, NULL, 10);
	if ((t = fldstr(tok, 'a'))) na = strtoll(t, NULL, 10);
	if (!p) { /* a well-formed DER value that is not a certificate */
		static const uint8_t junk[] = { 0x30, 0x03, 0x02, 0x01, 0x05 };
		r.p = malloc(sizeof junk); memcpy(r.p, junk, sizeof junk); r.n = sizeof junk; return r; }
	if (k < 1 || k > NKEYS || g < 0 || g > NKEYS || l < 1 || l > 20) { fail_build = 1; return r; }
	if (make_name(s, subj, &subjlen, sizeof subj) != 1 || make_name(i, iss, &isslen, sizeof iss) != 1) { fail_build = 1; return r; }
	if (xs && strcmp(xs, "-") && *xs != ',' && *xs) {
		char buf[1024]; char *save = NULL, *e; size_t n = strcspn(xs, ",");
		if (n >= sizeof buf) { fail_build = 1; return r; }
		memcpy(buf, xs, n); buf[n] = 0;
		/* split on '+', each handled with its own strtok state */
		e = buf;
		while (e && *e) {
			char *nx = strchr(e, '+'); if (nx) *nx++ = 0;
			if (add_one_ext(exts, &extslen, sizeof exts, e) != 1) { fail_build = 1; return r; }
			e = nx;
		}
		(void)save;
	}
	memset(serial, 0x11, sizeof serial); serial[0] = 0x01;
	if (m || o || fld(tok, 'h', 0) || fld(tok, 't', 0) > 0) {
		/* own composition: x509_cert_sign_to_der hard-wires the outer identifier */
		static const uint8_t A0[] = { 0x30,0x0a,0x06,0x08,0x2a,0x81,0x1c,0xcf,0x55,0x01,0x83,0x75 };
		static const uint8_t A1[] = { 0x30,0x0c,0x06,0x08,0x2a,0x81,0x1c,0xcf,0x55,0x01,0x83,0x75,0x05,0x00 };
		static const uint8_t A2[] = { 0x30,0x0a,0x06,0x08,0x2a,0x86,0x48,0xce,0x3d,0x04,0x03,0x02 };
		static const uint8_t A3[] = { 0x30,0x0d,0x06,0x09,0x2a,0x86,0x48,0x86,0xf7,0x0d,0x01,0x01,0x0b,0x05,0x00 };
		static const uint8_t A4[] = { 0x30,0x0c,0x06,0x08,0x2a,0x81,0x1c,0xcf,0x55,0x01,0x83,0x78,0x05,0x00 };
		static const uint8_t A5[] = { 0x30,0x05,0x06,0x03,0x2a,0x03,0x04 };
		static const uint8_t A6[] = { 0x30,0x0c,0x06,0x08,0x2a,0x86,0x48,0xce,0x3d,0x04,0x03,0x02,0x05,0x00 };
		static const uint8_t A7[] = { 0x30,0x0d,0x06,0x08,0x2a,0x81,0x1c,0xcf,0x55,0x01,0x83,0x75,0x02,0x01,0x05 };
		static const struct { const uint8_t *p; size_t n; } algs[8] = { { A0, sizeof A0 }, { A1, sizeof A1 }, { A2, sizeof A2 }, { A3, sizeof A3 },
			{ A4, sizeof A4 }, { A5, sizeof A5 }, { A6, sizeof A6 }, { A7, sizeof A7 } };
		uint8_t *tbs, *tp; size_t clen = 0, tbslen = 0, hl = 0, total = 0; uint8_t sig[SM2_MAX_SIGNATURE_SIZE + 64]; size_t siglen = 0; SM2_SIGN_CTX sctx; long trail = fld(tok, 't', 0);
		if (m < 0 || m > 7 || o < 0 || o > 7) { fail_build = 1; return r; }
		if (x509_explicit_version_to_der(0, (int)v, NULL, &clen) < 0 || asn1_integer_to_der(serial, (size_t)l, NULL, &clen) != 1
			|| asn1_sequence_to_der(iss, isslen, NULL, &clen) != 1 || x509_validity_to_der((time_t)nb, (time_t)na, NULL, &clen) != 1
			|| asn1_sequence_to_der(subj, subjlen, NULL, &clen) != 1 || x509_public_key_info_to_der(&keys[k], NULL, &clen) != 1
			|| x509_explicit_exts_to_der(3, exts, extslen, NULL, &clen) < 0) { fail_build = 1; return r; }
		clen += algs[m].n;
		if (asn1_sequence_header_to_der(clen, NULL, &hl) != 1) { fail_build = 1; return r; }
		tbs = malloc(hl + clen); tp = tbs;
		if (asn1_sequence_header_to_der(clen, &tp, &tbslen) != 1 || x509_explicit_version_to_der(0, (int)v, &tp, &tbslen) < 0
			|| asn1_integer_to_der(serial, (size_t)l, &tp, &tbslen) != 1) { free(tbs); fail_build = 1; return r; }
		memcpy(tp, algs[m].p, algs[m].n); tp += algs[m].n; tbslen += algs[m].n;
		if (asn1_sequence_to_der(iss, isslen, &tp, &tbslen) != 1 || x509_validity_to_der((time_t)nb, (time_t)na, &tp, &tbslen) != 1
			|| asn1_sequence_to_der(subj, subjlen, &tp, &tbslen) != 1 || x509_public_key_info_to_der(&keys[k], &tp, &tbslen) != 1
			|| x509_explicit_exts_to_der(3, exts, extslen, &tp, &tbslen) < 0 || tbslen != hl + clen) { free(tbs); fail_build = 1; return r; }
		if (sm2_sign_init(&sctx, &keys[g ? g : 1], SM2_DEFAULT_ID, SM2_DEFAULT_ID_LENGTH) != 1 || sm2_sign_update(&sctx, tbs, tbslen) != 1
			|| sm2_sign_finish(&sctx, sig, &siglen) != 1) { free(tbs); fail_build = 1; return r; }
		if (g == 0) sig[siglen - 5] ^= 0x40;
		if (trail < 0 || trail > 64) { free(tbs); fail_build = 1; return r; }
		memset(sig + siglen, 0, (size_t)trail); siglen += (size_t)trail;
		clen = tbslen + algs[o].n; hl = 0;
		if (asn1_bit_octets_to_der(sig, siglen, NULL, &clen) != 1 || asn1_sequence_header_to_der(clen, NULL, &hl) != 1) { free(tbs); fail_build = 1; return r; }
		total = hl + clen; out = malloc(total); q = out; r.n = 0;
		if (asn1_sequence_header_to_der(clen, &q, &r.n) != 1) { free(tbs); free(out); r.n = 0; fail_build = 1; return r; }
		memcpy(q, tbs, tbslen); q += tbslen; r.n += tbslen; memcpy(q, algs[o].p, algs[o].n); q += algs[o].n; r.n += algs[o].n;
		if (asn1_bit_octets_to_der(sig, siglen, &q, &r.n) != 1 || r.n != total) { free(tbs); free(out); r.n = 0; fail_build = 1; return r; }
		free(tbs); r.p = out;
		return r;
	}
	if (x509_cert_sign_to_der((int)v, serial, (size_t)l, OID_sm2sign_with_sm3,
		iss, isslen, (time_t)nb, (time_t)na, subj, subjlen, &keys[k], NULL, 0, NULL, 0, exts, extslen,
		&keys[g ? g : 1], SM2_DEFAULT_ID, SM2_DEFAULT_ID_LENGTH, NULL, &certlen) != 1) { fail_build = 1; return r; }
	out = malloc(certlen); q = out; r.n = 0;
	if (x509_cert_sign_to_der((int)v, serial, (size_t)l, OID_sm2sign_with_sm3,
		iss, isslen, (time_t)nb, (time_t)na, subj, subjlen, &keys[k], NULL, 0, NULL, 0, exts, extslen,
		&keys[g ? g : 1], SM2_DEFAULT_ID, SM2_DEFAULT_ID_LENGTH, &q, &r.n) != 1 || r.n != certlen) { free(out); r.n = 0; fail_build = 1; return r; }
	if (g == 0) out[certlen - 5] ^= 0x40;  /* inside the signature's s value */
	r.p = out;
	return r;
}

/* concatenation of the certificates of a list token into one exactly sized heap block */
/* lists of the same role (0 chain, 1 trust store, 2 single certificate) and length live at one address for the whole run,
 * exactly sized: consecutive operations give the library the same (pointer, length) with other content */
#define RA_MAX 8192
static struct { int slot; size_t n; uint8_t *p; } ra_tab[RA_MAX]; static size_t ra_cnt;
static uint8_t *reuse_alloc(int slot, size_t n) {
	size_t i; for (i = 0; i < ra_cnt; i++) if (ra_tab[i].slot == slot && ra_tab[i].n == n) return ra_tab[i].p;
	if (ra_cnt == RA_MAX) return malloc(n ? n : 1);
	ra_tab[ra_cnt].slot = slot; ra_tab[ra_cnt].n = n; ra_tab[ra_cnt].p = malloc(n ? n : 1); return ra_tab[ra_cnt++].p;
}
static void reuse_free(uint8_t *p) { size_t i; for (i = 0; i < ra_cnt; i++) if (ra_tab[i].p == p) return; free(p); }
static int list_slot = 0;
static blob_t make_list(char *list) {
	blob_t all = { malloc(1), 0 };
	char *save = NULL, *t;
	if (!strcmp(list, ".")) return all;
	for (t = strtok_r(list, ";", &save); t; t = strtok_r(NULL, ";", &save)) {
		blob_t c = make_cert(t);
		if (fail_build) { free(c.p); return all; }
		all.p = realloc(all.p, (all.n + c.n) ? (all.n + c.n) : 1);
		memcpy(all.p + all.n, c.p, c.n); all.n += c.n; free(c.p);
	}
	/* re-allocate exactly */
	{ uint8_t *e = reuse_alloc(list_slot, all.n); memcpy(e, all.p, all.n); free(all.p); all.p = e; }
	return all;
}

static void handle(size_t nw, char **w) {
	fail_build = 0;
	if (!strcmp(w[0], "seq")) {       /* seq <op> | <op> | ... : the operations run back to back in this process */
		size_t i = 1, st = 1; int first = 1;
		for (; i <= nw; i++) if (i == nw || !strcmp(w[i], "|")) { if (i > st) { if (!first) printf(" ;; "); first = 0; handle(i - st, w + st); } st = i + 1; }
		return;
	}
	if (!strcmp(w[0], "verify") && nw == 7) {
		int tlcp = !strcmp(w[1], "tlcp");
		int role = !strcmp(w[2], "0") ? X509_cert_chain_server : !strcmp(w[2], "1") ? X509_cert_chain_client : 77;
		int depth = atoi(w[3]); long long now = strtoll(w[4], NULL, 10);
		blob_t chain, store; int vr = 0, ret;
		ent_clock((time_t)now);
		list_slot = 0; chain = make_list(w[5]); list_slot = 1; store = fail_build ? (blob_t){ malloc(1), 0 } : make_list(w[6]);
		if (fail_build) { printf("BUILD-ERR"); reuse_free(chain.p); reuse_free(store.p); return; }
		ret = tlcp ? x509_certs_verify_tlcp(chain.p, chain.n, role, store.p, store.n, depth, &vr)
			: x509_certs_verify(chain.p, chain.n, role, store.p, store.n, depth, &vr);
		if (ret == 1) printf("1"); else printf("ERR");
		reuse_free(chain.p); reuse_free(store.p);
	}
	else if (!strcmp(w[0], "check") && nw == 4) {
		int ctype = atoi(w[1]); long long now = strtoll(w[2], NULL, 10);
		blob_t c; int plc = -99, ret;
		ent_clock((time_t)now);
		c = make_cert(w[3]);
		if (fail_build) { printf("BUILD-ERR"); free(c.p); return; }
		{ uint8_t *e = reuse_alloc(2, c.n); memcpy(e, c.p, c.n); free(c.p); c.p = e; }
		ret = x509_cert_check(c.p, c.n, ctype, &plc);
		if (ret == 1) printf("1 %d", plc); else printf("ERR");
		reuse_free(c.p);
	}
	else if (!strcmp(w[0], "bysubj") && nw == 3) {
		long id = strtol(w[1], NULL, 10);
		uint8_t name[256]; size_t namelen = 0; blob_t store; const uint8_t *c = NULL; size_t cl = 0; int ret;
		if (make_name(id, name, &namelen, sizeof name) != 1) { printf("BUILD-ERR"); return; }
		list_slot = 1; store = make_list(w[2]);
		if (fail_build) { printf("BUILD-ERR"); reuse_free(store.p); return; }
		ret = x509_certs_get_cert_by_subject(store.p, store.n, name, namelen, &c, &cl);
		if (ret == 1) {
			/* index of the returned certificate */
			const uint8_t *d = store.p; size_t dl = store.n; int idx = 0; const uint8_t *a; size_t al;
			while (dl && asn1_any_from_der(&a, &al, &d, &dl) == 1) { if (a == c) break; idx++; }
			printf("1 %d", idx);
		} else if (ret == 0) printf("0"); else printf("ERR");
		reuse_free(store.p);
	}
	else printf("ERR bad-op");
}

int main(void) {
	int i;
	quiet_stderr();
	ent_seed(0xC07C07, -1);
	for (i = 1; i <= NKEYS; i++) if (sm2_key_generate(&keys[i]) != 1) { printf("KEYGEN-FAIL\n"); return 2; }
	main_loop(handle);
	return 0;
}
