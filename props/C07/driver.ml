(* C07 model driver: evaluates the extracted path-validation model on attribute vectors.
   For every op the answer is printed under the four settings of the two repairs:
     repaired | only-basicConstraints-repair | only-tlcp-role-repair | legacy
   separated by " | " (the check compares the implementation with the first). *)

let zi = z_of_int
let ni = n_of_int

let split c s = String.split_on_char c s

let field tok name dflt =
  let fs = split ',' tok in
  let rec go = function
    | [] -> dflt
    | f :: r -> if String.length f > 0 && f.[0] = name then String.sub f 1 (String.length f - 1) else go r in
  go fs

let purpose_of s = match int_of_string s with 0 -> KP_any | 1 -> KP_server | 2 -> KP_client | _ -> KP_other

let ext_of (spec : string) : ext =
  let a = Array.of_list (split ':' spec) in
  let arg i = if Array.length a > i then a.(i) else "" in
  let crit = if Array.length a > 1 then int_of_string a.(1) else -1 in
  let mk ?(ok=true) body = { x_ok = ok; x_critical = zi crit; x_body = body } in
  match a.(0) with
  | "bc" ->
    let ca = int_of_string (arg 2) and pl = int_of_string (arg 3) in
    if ca = -1 && pl = -1 then mk (XBasic None) else mk (XBasic (Some (zi ca, zi pl)))
  | "ku" -> mk (XKeyUsage (Some (ni (int_of_string (arg 2)))))
  | "eku" ->
    let l = if arg 2 = "-" || arg 2 = "" then [] else List.map purpose_of (split '.' (arg 2)) in
    mk (XExtKeyUsage (Some l))
  | "ski" -> mk (XSubjKeyId (int_of_string (arg 2) > 0))
  | "aki" -> mk XAuthKeyId
  | "cp" -> mk XCertPolicies
  | "pm" -> mk XPolicyMappings
  | "san" -> mk XSubjAltName
  | "ian" -> mk XIssuerAltName
  | "sda" -> mk XSubjDirAttrs
  | "nc" | "pc" | "crldp" | "iap" | "fcrl" -> mk XUnchecked
  | "ns" | "aia" | "nscom" | "sct" | "crlreason" | "invdate" | "certissuer" | "unk" | "bcx" | "kux" | "cepre" -> mk XUnknown
  | "rawoid" ->
    (* asn1_oid_node_from_base128: at most 5 septets per arc, no leading 0x80, a 5-septet arc must fit 32 bits; a well-formed
       OID generated here is never one of the recognised ones *)
    let bytes = List.map int_of_n (bytes_of_hex (arg 2)) in
    let rec arcs ok cur = function
      | [] -> ok && cur = []
      | b :: r ->
        let cur' = cur @ [b] in
        if b land 0x80 <> 0 then arcs ok cur' r
        else
          let n = List.length cur' in
          let good = n <= 5 && List.hd cur' <> 0x80 && not (n = 5 && (List.hd cur') land 0x70 <> 0) in
          arcs (ok && good) [] r in
    let wf = (match bytes with [] -> false | _ :: rest -> arcs true [] rest) in
    mk ~ok:wf XUnknown
  | "bad" -> mk ~ok:false XUnknown
  | _ -> failwith "ext kind"

let alg_of = function 0 | 1 -> AlgSM2 | 2 | 6 -> AlgOther (ni 2) | 3 -> AlgOther (ni 3) | 4 -> AlgOther (ni 4) | _ -> AlgUnknown

let cert_of (tok : string) : cert =
  let f name d = field tok name d in
  let g = int_of_string (f 'g' "1") in
  let xs = f 'x' "-" in
  let exts = if xs = "-" || xs = "" then [] else List.map ext_of (split '+' xs) in
  { c_parse_ok = (f 'p' "1" <> "0");
    c_version = zi (int_of_string (f 'v' "2"));
    c_serial_len = ni (int_of_string (f 'l' "8"));
    c_inner_alg = alg_of (int_of_string (f 'm' "0"));
    c_outer_alg = alg_of (int_of_string (f 'o' "0"));
    c_issuer = ni (int_of_string (f 'i' "1"));
    c_subject = ni (int_of_string (f 's' "1"));
    c_not_before = zi (int_of_string (f 'b' "0"));
    c_not_after = zi (int_of_string (f 'a' "0"));
    c_key = ni (int_of_string (f 'k' "1"));
    (* octets after the signature value (t > 0): no key verifies it *)
    c_sig_ok = (fun k -> g <> 0 && int_of_string (f 't' "0") = 0 && k = ni g);
    c_exts = exts }

let list_of (s : string) : cert list = if s = "." then [] else List.map cert_of (split ';' s)

let settings = [ { fix_ca_bc = true; fix_tlcp_role = true }; { fix_ca_bc = true; fix_tlcp_role = false };
                 { fix_ca_bc = false; fix_tlcp_role = true }; { fix_ca_bc = false; fix_tlcp_role = false } ]

let ctype_of i = match i with
  | 0 -> CT_server_auth | 1 -> CT_client_auth | 2 -> CT_server_kenc | 3 -> CT_client_kenc
  | 4 -> CT_ca | 5 -> CT_root_ca | 6 -> CT_crl_sign | -1 -> CT_none | _ -> CT_invalid

let rec handle ws = match ws with
  | "seq" :: rest ->
    let rec split acc cur = function
      | [] -> List.rev (if cur = [] then acc else List.rev cur :: acc)
      | "|" :: r -> split (if cur = [] then acc else List.rev cur :: acc) [] r
      | x :: r -> split acc (x :: cur) r in
    String.concat " ;; " (List.map handle (split [] [] rest))
  | ["verify"; form; role; depth; now; chain; store] ->
    let r = match role with "0" -> RoleServer | "1" -> RoleClient | _ -> RoleInvalid in
    let ch = list_of chain and st = list_of store in
    let d = zi (int_of_string depth) and t = zi (int_of_string now) in
    String.concat " | " (List.map (fun f ->
      let ok = if form = "tlcp" then certs_verify_tlcp f t r d st ch else certs_verify f t r d st ch in
      if ok then "1" else "ERR") settings)
  | ["check"; ctype; now; cert] ->
    let c = cert_of cert and t = zi (int_of_string now) in
    String.concat " | " (List.map (fun f ->
      match cert_check f t c (ctype_of (int_of_string ctype)) with
      | Some pl -> "1 " ^ string_of_int (int_of_z pl)
      | None -> "ERR") settings)
  | ["bysubj"; id; store] ->
    let r = (match get_cert_index (list_of store) (ni (int_of_string id)) N0 with
      | Inl true -> "0" | Inl false -> "ERR" | Inr i -> "1 " ^ string_of_int (int_of_n i)) in
    String.concat " | " [r; r; r; r]
  | _ -> "ERR bad-op"

let () = main_loop handle
