"""C07 — certificate chain validation sound and complete for the supported profile.

Model side: extracted Pki/X509Path.v evaluated under the four settings of the two repairs
(DESIGN §5 #19, #20); the implementation must agree with the *repaired* model (the one for
which soundness is a theorem).  A disagreement that is explained exactly by a missing repair is
reported under a stable key naming that defect; anything else under the cell key."""
import copy, json, os
from vlib import core

NOW = 1700000000
DAY = 86400
MAXV = 3653 * 86400
UTC_MAX = 2524607999

EXT_KINDS_PLAIN = ["aki", "cp", "pm", "san", "ian", "sda", "nc", "pc", "crldp", "iap", "fcrl",
                   "ns", "aia", "nscom", "sct", "unk", "crlreason", "invdate", "certissuer", "bad", "bcx", "kux", "cepre"]


# ------------------------------------------------------------------ vectors
def cert(s, i, k, g, exts, **kw):
    c = {"p": 1, "v": 2, "l": 8, "m": 0, "o": 0, "h": 0, "s": s, "i": i, "k": k, "g": g,
         "b": NOW - DAY, "a": NOW + 365 * DAY, "x": list(exts)}
    c.update(kw)
    return c


def tok(c):
    if not c["p"]:
        return "p0"
    x = "+".join(c["x"]) if c["x"] else "-"
    t = ",t%d" % c["t"] if c.get("t") else ""
    return "p1,v%d,l%d,m%d,o%d,h%d,s%d,i%d,k%d,g%d,b%d,a%d%s,x%s" % (c["v"], c["l"], c["m"], c["o"], c["h"], c["s"], c["i"], c["k"], c["g"], c["b"], c["a"], t, x)


def lst(cs):
    return ";".join(tok(c) for c in cs) if cs else "."


def base(ncas, tlcp, role, rootpl=6, eku=True):
    """toolkit-style chain: leaf [kenc] CA_0 .. CA_{n-1}; store = [root].  subject ids: root 1,
    CA_j = 2+j (CA_{n-1} issued by root), leaf 7; keys likewise, kenc key 8."""
    purpose = "1" if role == 0 else "2"
    top_s, top_k = (1, 1) if ncas == 0 else (2, 2)          # issuer of the leaf = CA_0 (id 2) or root
    leaf_x = ["ku:1:1"] + (["eku:-1:" + purpose] if eku else [])
    chain = [cert(7, top_s, 7, top_k, leaf_x)]
    if tlcp:
        chain.append(cert(7, top_s, 8, top_k, ["ku:1:4"] + (["eku:-1:" + purpose] if eku else [])))
    for j in range(ncas):
        iss = 1 if j == ncas - 1 else 3 + j
        chain.append(cert(2 + j, iss, 2 + j, iss, ["ski:-1:32", "ku:1:96", "bc:1:1:%d" % j]))
    root = cert(1, 1, 1, 1, ["ski:-1:32", "ku:1:96", "bc:1:1:%d" % rootpl, "crldp:-1", "aia:0"])
    return chain, [root]


def posclass(idx, n_chain, tlcp):
    if idx == 0:
        return "leaf"
    if tlcp and idx == 1:
        return "kenc"
    if idx == n_chain:
        return "root"
    first = 2 if tlcp else 1
    return "ca0" if idx == first else "caN"


def set_ext(c, kind, new):
    """replace (or add / remove) the extension of this kind"""
    xs = [x for x in c["x"] if not x.startswith(kind + ":")]
    if new is not None:
        # keep position if it existed
        pos = next((n for n, x in enumerate(c["x"]) if x.startswith(kind + ":")), len(xs))
        xs.insert(pos, new)
    c["x"] = xs


def deviations(idx, nissuers_below):
    """list of (name, function mutating the cert dict) — one-certificate deviations"""
    d = []
    add = lambda name, f: d.append((name, f))
    for v in (-1, 0, 1):
        add("version=%d" % v, lambda c, v=v: c.update(v=v))
    # signature algorithm identifiers, inner x outer, with a good and with a corrupted SM2 signature
    add("hand-composed", lambda c: c.update(h=1))
    for ia in range(8):
        for oa in range(8):
            if ia == 0 and oa == 0:
                continue
            add("alg-inner%d-outer%d" % (ia, oa), lambda c, ia=ia, oa=oa: c.update(m=ia, o=oa))
            if ia == oa or oa in (2, 3):
                add("alg-inner%d-outer%d-sigbad" % (ia, oa), lambda c, ia=ia, oa=oa: c.update(m=ia, o=oa, g=0))
    add("not-a-cert", lambda c: c.update(p=0))
    add("subject-empty", lambda c: c.update(s=0))
    add("issuer-empty", lambda c: c.update(i=0))
    add("issuer-mismatch", lambda c: c.update(i=9))
    add("subject-mismatch", lambda c: c.update(s=9))
    # names whose encoding extends / is a prefix of the expected one (id + 100 = same RDNs plus one more)
    add("issuer-name-extended", lambda c: c.update(i=c["i"] + 100))
    add("subject-name-extended", lambda c: c.update(s=c["s"] + 100))
    add("sig-bad", lambda c: c.update(g=0))
    # octets after the signature value inside the BIT STRING (the value is one DER SEQUENCE { r, s })
    for n in (1, 2, 8):
        add("sig-trailing-octets-%d" % n, lambda c, n=n: c.update(t=n))
    add("sig-wrong-key", lambda c: c.update(g=6))
    add("key-other", lambda c: c.update(k=6))
    add("serial-1", lambda c: c.update(l=1))
    add("serial-20", lambda c: c.update(l=20))
    # validity
    add("nb=now", lambda c: c.update(b=NOW))
    add("nb=now+1", lambda c: c.update(b=NOW + 1))
    add("na=now", lambda c: c.update(a=NOW))
    add("na=now-1", lambda c: c.update(a=NOW - 1))
    add("nb=na=now", lambda c: c.update(b=NOW, a=NOW))
    add("nb>na", lambda c: c.update(b=NOW + 10, a=NOW - 10))
    add("span=max", lambda c: c.update(b=NOW - 1000, a=NOW - 1000 + MAXV))
    add("span=max+1", lambda c: c.update(b=NOW - 1000, a=NOW - 1000 + MAXV + 1))
    add("expired-long-ago", lambda c: c.update(b=1000, a=2000))
    # time arithmetic at representation boundaries: offsets of 2^31 / 2^32 seconds from now (+- 1, a day, the lifetime)
    for D, dn in ((1 << 31, "2^31"), (1 << 32, "2^32"), (1 << 33, "2^33")):
        for life, ln in ((DAY, "1d"), (365 * DAY, "1y"), (MAXV, "max")):
            for k, kn in ((0, "0"), (1, "1"), (DAY, "day"), (life // 2, "half"), (life, "life"), (life + 1, "life+1")):
                add("nb=now+%s-%s:life=%s" % (dn, kn, ln), lambda c, D=D, k=k, life=life: c.update(b=NOW + D - k, a=NOW + D - k + life))
            add("nb=now-%s:life=%s" % (dn, ln), lambda c, D=D, life=life: c.update(b=max(0, NOW - D), a=max(0, NOW - D) + life))
        add("na=now+%s:nb=now-1" % dn, lambda c, D=D: c.update(b=NOW - 1, a=NOW + D))
        add("na=now+%s:nb=now+%s-max" % (dn, dn), lambda c, D=D: c.update(b=NOW + D - MAXV, a=NOW + D))
    add("year-2162", lambda c: c.update(b=6060000000, a=6060000000 + DAY))
    add("year-9999", lambda c: c.update(b=253402300799 - DAY, a=253402300799))
    add("beyond-2038-valid", lambda c: c.update(b=NOW - 10, a=NOW - 10 + MAXV))
    # basicConstraints
    add("bc-absent", lambda c: set_ext(c, "bc", None))
    add("bc-empty-seq", lambda c: set_ext(c, "bc", "bc:1:-1:-1"))
    for ca in (-1, 0, 1):
        for pl in sorted(set([-1, 0, 1, 2, 5, nissuers_below - 1, nissuers_below, nissuers_below + 1])):
            if pl < -1 or (ca == -1 and pl == -1):
                continue
            add("bc-ca=%d-pl=%s" % (ca, "below%+d" % (pl - nissuers_below) if pl >= 0 else "absent"),
                lambda c, ca=ca, pl=pl: set_ext(c, "bc", "bc:1:%d:%d" % (ca, pl)))
    for cr in (-1, 0):
        add("bc-crit=%d" % cr, lambda c, cr=cr: c.update(x=[(x.replace("bc:1:", "bc:%d:" % cr, 1) if x.startswith("bc:") else x) for x in c["x"]]))
    add("bc-twice-last-ca0", lambda c: c["x"].append("bc:1:0:-1"))
    add("bc-twice-last-pl0", lambda c: c["x"].append("bc:1:1:0"))
    add("bc-twice-first-ca0", lambda c: c["x"].insert(0, "bc:1:0:-1"))
    add("bc-twice-last-pl9", lambda c: c["x"].append("bc:1:1:9"))
    # keyUsage
    add("ku-absent", lambda c: set_ext(c, "ku", None))
    for bits in (0, 1, 2, 4, 5, 8, 16, 32, 64, 96, 33, 65, 97, 36, 68, 100, 128, 256, 511, (1 << 30) | 1, (1 << 30) | 32):
        add("ku=%d" % bits, lambda c, bits=bits: set_ext(c, "ku", "ku:1:%d" % bits))
    for cr in (-1, 0):
        add("ku-crit=%d" % cr, lambda c, cr=cr: c.update(x=[(x.replace("ku:1:", "ku:%d:" % cr, 1) if x.startswith("ku:") else x) for x in c["x"]]))
    # extKeyUsage
    add("eku-absent", lambda c: set_ext(c, "eku", None))
    for l in ("1", "2", "0", "0.1", "0.2", "1.2", "2.1", "3", "3.4.5", "3.1", "3.2", "4.0.6", "3.4.5.6.0.2.1", "-"):
        for cr in (-1, 1):
            add("eku=%s-crit=%d" % (l, cr), lambda c, l=l, cr=cr: set_ext(c, "eku", "eku:%d:%s" % (cr, l)))
    # other extensions appended, each criticality
    for k in EXT_KINDS_PLAIN:
        for cr in (-1, 0, 1):
            add("add-%s-crit=%d" % (k, cr), lambda c, k=k, cr=cr: c["x"].append("%s:%d" % (k, cr)))
    for cr in (-1, 0, 1):
        add("ski-crit=%d" % cr, lambda c, cr=cr: set_ext(c, "ski", "ski:%d:20" % cr))
        add("ski-empty-crit=%d" % cr, lambda c, cr=cr: set_ext(c, "ski", "ski:%d:0" % cr))
    add("unk-critical-first", lambda c: c["x"].insert(0, "unk:1"))
    # extension OIDs that alias a recognised one when an arc is reduced mod 2^32 / carries redundant septets / is too long
    for arc, an in ((19, "bc"), (15, "ku"), (37, "eku"), (32, "cp"), (17, "san"), (35, "aki"), (14, "ski"), (33, "pm")):
        for cr in (1, -1):
            add("add-rawoid-%s+2^32-crit=%d" % (an, cr), lambda c, arc=arc, cr=cr: c["x"].append("rawoid:%d:551d90808080%02x" % (cr, arc)))
        add("add-rawoid-%s-leading-0x80-crit=1" % an, lambda c, arc=arc: c["x"].append("rawoid:1:551d80%02x" % arc))
        add("add-rawoid-%s-6-septets-crit=1" % an, lambda c, arc=arc: c["x"].append("rawoid:1:551d8180808080%02x" % arc))
    for cr in (1, 0, -1):
        add("add-rawoid-max-arc-crit=%d" % cr, lambda c, cr=cr: c["x"].append("rawoid:%d:551d8fffffff7f" % cr))
        add("add-rawoid-2^28-arc-crit=%d" % cr, lambda c, cr=cr: c["x"].append("rawoid:%d:551d8180808020" % cr))
    add("no-extensions", lambda c: c.update(x=[]))
    return d


def dev_group(name):
    if name.startswith("alg-"):
        return "alg:" + name
    if name.startswith(("nb=now+2^", "nb=now-2^", "na=now+2^")):
        return "validity-wrap:" + name
    for p in ("version", "bc-ca", "bc-crit", "bc-twice", "ku=", "ku-crit", "eku=", "add-", "ski-"):
        if name.startswith(p):
            if name.startswith("add-rawoid"):
                return "add-ext:" + name
            if p == "add-":
                return "add-ext:" + name.split("-")[1] + ":" + name.split("=")[-1]
            if p == "eku=":
                return "eku:" + name
            if p == "ku=":
                return "ku:" + name
            if p == "bc-ca":
                return "bc:" + name
            return name
    return name


def gen(ctx):
    r = ctx.rng
    thorough = ctx.tier == "thorough"
    cases = []
    add = lambda line, cell: cases.append((line, cell))

    def vline(form, role, depth, now, chain, store):
        return "verify %s %s %d %d %s %s" % (form, role, depth, now, lst(chain), lst(store))

    forms = (("tls", False), ("tlcp", True))
    # --- A: toolkit chains of every length, both roles, both verifiers, depth around the limit
    for form, tlcp in forms:
        for role in (0, 1):
            for ncas in range(0, 5 if not tlcp else 4):
                for eku in (True, False):
                    for rootpl in (-1, ncas, 6) + ((ncas - 1,) if ncas > 0 else ()):
                        ch, st = base(ncas, tlcp, role, rootpl=rootpl, eku=eku)
                        if rootpl == -1:
                            set_ext(st[0], "bc", "bc:1:1:-1")
                        for depth in sorted(set([ncas - 1, ncas, ncas + 1, 6, -1, 0])):
                            add(vline(form, role, depth, NOW, ch, st),
                                "verify:%s:role%d:toolkit:ncas%d:depth%s:rootpl%s" % (form, role, ncas,
                                    "<" if depth < ncas else ("=" if depth == ncas else ">"),
                                    "absent" if rootpl < 0 else ("<" if rootpl < ncas else ">=")))
            # invalid role value, empty / too short chain
            ch, st = base(1, tlcp, 0)
            add(vline(form, "n", 6, NOW, ch, st), "verify:%s:role-invalid" % form)
            add(vline(form, 0, 6, NOW, [], st), "verify:%s:chain-empty" % form)
            add(vline(form, 0, 6, NOW, ch[:1], st), "verify:%s:chain-1" % form)
            add(vline(form, 0, 6, NOW, ch, []), "verify:%s:store-empty" % form)
    # --- B: one-certificate deviations from a valid chain, every position
    for form, tlcp in forms:
        for role in (0, 1):
            for ncas in ((0, 1, 2, 3) if thorough else (0, 1, 2)):
                ch0, st0 = base(ncas, tlcp, role)
                n_chain = len(ch0)
                first_ca = 2 if tlcp else 1
                for idx in range(n_chain + 1):
                    below = max(0, idx - first_ca) if idx >= first_ca else 0
                    pc = posclass(idx, n_chain, tlcp)
                    for name, f in deviations(idx, below):
                        if not thorough and role == 1 and ncas == 2 and not (name.startswith("eku") or name.startswith("bc")):
                            continue
                        if not thorough and name.startswith(("nb=now+2^", "nb=now-2^", "na=now+2^")) and (role == 1 or ncas == 2) and "life=1y" not in name:
                            continue
                        if not thorough and name.startswith("add-rawoid") and (role == 1 or ncas == 2) and "cp+" not in name and "bc+" not in name:
                            continue
                        if not thorough and name.startswith("alg-") and (role == 1 or ncas == 2) and name not in (
                                "alg-inner2-outer2", "alg-inner2-outer2-sigbad", "alg-inner0-outer2", "alg-inner2-outer0", "alg-inner5-outer5", "alg-inner1-outer1", "alg-inner3-outer3"):
                            continue
                        ch, st = copy.deepcopy(ch0), copy.deepcopy(st0)
                        target = st[0] if idx == n_chain else ch[idx]
                        f(target)
                        add(vline(form, role, 6, NOW, ch, st), "verify:%s:role%d:dev:%s:%s" % (form, role, pc, dev_group(name)))
    # --- store shape
    for form, tlcp in forms:
        for ncas in (0, 1):
            ch, st = base(ncas, tlcp, 0)
            root = st[0]
            junk = {"p": 0}
            other = cert(5, 5, 5, 5, ["ku:1:96", "bc:1:1:6"])
            samesubj_otherkey = cert(1, 1, 6, 6, ["ku:1:96", "bc:1:1:6"])
            samesubj_nobc = cert(1, 1, 1, 1, ["ku:1:96"])
            longer = cert(101, 101, 5, 5, ["ku:1:96", "bc:1:1:6"])
            for nm, store in (("longer-name-first", [longer, root]), ("longer-name-only", [longer]), ("junk-before", [junk, root]), ("junk-after", [root, junk]), ("other-before", [other, root]),
                              ("other-only", [other]), ("same-subject-other-key-first", [samesubj_otherkey, root]),
                              ("same-subject-other-key-second", [root, samesubj_otherkey]), ("root-twice", [root, root]),
                              ("same-subject-no-bc-first", [samesubj_nobc, root]), ("same-subject-no-bc-second", [root, samesubj_nobc]),
                              ("five-others-then-root", [other] * 5 + [root])):
                add(vline(form, 0, 6, NOW, ch, store), "verify:%s:store:%s" % (form, nm))
            # root presented inside the chain as well (self-signed top of chain)
            add(vline(form, 0, 6, NOW, ch + [root], st), "verify:%s:root-in-chain" % form)
    # --- clock: both ends inclusive, UTCTime / GeneralizedTime switch
    for form, tlcp in forms:
        ch0, st0 = base(1, tlcp, 0)
        for nm, now, b, a in (("utc-max", UTC_MAX, UTC_MAX - DAY, UTC_MAX), ("gen-min", UTC_MAX + 1, UTC_MAX, UTC_MAX + 1),
                              ("across-2050", UTC_MAX + 5, UTC_MAX - DAY, UTC_MAX + DAY), ("across-2050-early", UTC_MAX - DAY - 1, UTC_MAX - DAY, UTC_MAX + DAY),
                              ("epoch", 5, 0, 10), ("far", 253402300000, 253402300000 - DAY, 253402300799)):
            ch, st = copy.deepcopy(ch0), copy.deepcopy(st0)
            for c in ch + st:
                c.update(b=b, a=a)
            add(vline(form, 0, 6, now, ch, st), "verify:%s:clock:%s" % (form, nm))
    # the scripted clock itself at and beyond 2^31 / 2^32; certificates valid there, and shifted by +-2^32 / +-2^31
    for form, tlcp in forms:
        ch0, st0 = base(1, tlcp, 0)
        for now in ((1 << 31) - 1, 1 << 31, (1 << 31) + 1, (1 << 32) - 1, 1 << 32, (1 << 32) + 5, 1 << 33, 6060000000, 200000000000):
            for shift, sn in ((0, "valid"), (1 << 32, "+2^32"), (-(1 << 32), "-2^32"), (1 << 31, "+2^31"), (-(1 << 31), "-2^31"), ((1 << 32) - 100 * DAY, "+2^32-100d")):
                b, a = now - 50 * DAY + shift, now + 300 * DAY + shift
                if b < 0:
                    continue
                for which in ("all", "leaf", "ca", "root"):
                    ch, st = copy.deepcopy(ch0), copy.deepcopy(st0)
                    for c in ch + st:
                        c.update(b=now - 50 * DAY, a=now + 300 * DAY)
                    tg = (ch + st) if which == "all" else ([ch[0]] if which == "leaf" else ([ch[-1]] if which == "ca" else st))
                    for c in tg:
                        c.update(b=b, a=a)
                    add(vline(form, 0, 6, now, ch, st), "verify:%s:clock>=2^31:%s:%s" % (form, sn, which))
    # --- name collisions with depth / pathLen exactly at the boundary: every CA certificate counts, also a
    #     self-issued one (key rollover: issuer name = subject name, other key) and a root sent along with the chain
    for form, tlcp in forms:
        for role in (0, 1):
            for extra in (1, 2):                      # number of self-issued copies inserted above CA_0
                ch, st = base(1, tlcp, role)
                ca0 = ch[-1]                          # subject 2, key 2, issued by root (1)
                ncas = 1 + extra
                # CA_0 (new key 2) is now issued by "itself" (name 2) under the older key(s) 5, 6; the oldest is issued by root
                oldkeys = [5, 6][:extra]
                ca0.update(i=2, g=oldkeys[0])
                for j, k_ in enumerate(oldkeys):
                    last = j == extra - 1
                    ch.append(cert(2, 1 if last else 2, k_, 1 if last else oldkeys[j + 1], ["ski:-1:32", "ku:1:96", "bc:1:1:%d" % (j + 1)]))
                for depth in (ncas - 2, ncas - 1, ncas, 6):
                    for top_pl in (extra - 1, extra, -1):          # pathLen of the oldest (topmost) CA: one short / exact / absent
                        for root_pl in (ncas - 1, ncas, -1):
                            c2, s2 = copy.deepcopy(ch), copy.deepcopy(st)
                            if top_pl < 0:
                                set_ext(c2[-1], "bc", "bc:1:1:-1")
                            else:
                                set_ext(c2[-1], "bc", "bc:1:1:%d" % top_pl)
                            set_ext(s2[0], "bc", "bc:1:1:%d" % root_pl if root_pl >= 0 else "bc:1:1:-1")
                            add(vline(form, role, depth, NOW, c2, s2), "verify:%s:role%d:self-issued-ca:x%d:depth%s:toppl%s:rootpl%s" % (
                                form, role, extra, "<" if depth < ncas else ("=" if depth == ncas else ">"),
                                "absent" if top_pl < 0 else ("<" if top_pl < extra else "="), "absent" if root_pl < 0 else ("<" if root_pl < ncas else "=")))
            # forged look-alikes of the trust anchor on top of the chain: self-signed, the anchor's name (and serial number, or another
            # serial number), another key; with the certificates below signed by that key (a consistent forged path) or left as issued
            for ncas in (0, 1, 2):
                ch, st = base(ncas, tlcp, role)
                for serial_len, sn in ((8, "same-serial"), (9, "other-serial")):
                    fake = copy.deepcopy(st[0]); fake.update(k=6, g=6, l=serial_len)
                    forged = copy.deepcopy(ch)
                    for c in forged:
                        if c["i"] == 1:
                            c["g"] = 6
                    for depth in (ncas, ncas + 1, 6):
                        add(vline(form, role, depth, NOW, forged + [fake], st), "verify:%s:role%d:forged-anchor-on-top:forged-path:%s" % (form, role, sn))
                        add(vline(form, role, depth, NOW, copy.deepcopy(ch) + [fake], st), "verify:%s:role%d:forged-anchor-on-top:genuine-path:%s" % (form, role, sn))
                    # the look-alike alone, and in place of the anchor in the store (then it is the anchor)
                    add(vline(form, role, 6, NOW, forged, [fake]), "verify:%s:role%d:forged-anchor-as-store:%s" % (form, role, sn))
            # the root itself presented at the top of the chain, depth at the boundary
            for ncas in (0, 1, 2):
                ch, st = base(ncas, tlcp, role)
                for depth in (ncas - 1, ncas, ncas + 1, ncas + 2):
                    for root_pl in (ncas, ncas + 1, -1):
                        c2, s2 = copy.deepcopy(ch), copy.deepcopy(st)
                        set_ext(s2[0], "bc", "bc:1:1:%d" % root_pl if root_pl >= 0 else "bc:1:1:-1")
                        add(vline(form, role, depth, NOW, c2 + [copy.deepcopy(s2[0])], s2), "verify:%s:role%d:root-in-chain:depth%+d:rootpl%s" % (
                            form, role, depth - ncas, "absent" if root_pl < 0 else ("=" if root_pl == ncas else "+1")))
            # leaf whose subject equals its issuer's subject; two CAs of the same name, the lower one self-signed
            ch, st = base(1, tlcp, role)
            c2 = copy.deepcopy(ch); c2[0].update(s=2)
            add(vline(form, role, 6, NOW, c2, st), "verify:%s:role%d:leaf-named-like-its-issuer" % (form, role))
            c2 = copy.deepcopy(ch); c2[-1].update(i=2, g=2)          # CA_0 self-signed, not anchored -> issuer 2 not in store
            add(vline(form, role, 6, NOW, c2, st), "verify:%s:role%d:self-signed-intermediate-unanchored" % (form, role))
            add(vline(form, role, 6, NOW, c2, st + [copy.deepcopy(c2[-1])]), "verify:%s:role%d:self-signed-intermediate-in-store" % (form, role))
    # --- buffer reuse: chain and trust store of the next operation lie at the same addresses with the same lengths;
    #     only keys / signers / names differ (trust store reloaded in place, another CA of the same size in the chain)
    for form, tlcp in forms:
        for ncas in (0, 1, 2):
            chA, stA = base(ncas, tlcp, 0)
            variants = []
            c2, s2 = copy.deepcopy(chA), copy.deepcopy(stA); s2[0].update(k=6, g=6); variants.append(("store-other-key", c2, s2))
            c2, s2 = copy.deepcopy(chA), copy.deepcopy(stA); s2[0].update(k=6, g=6); c2[-1].update(g=6); variants.append(("store-other-key-chain-follows", c2, s2))
            if ncas:
                c2, s2 = copy.deepcopy(chA), copy.deepcopy(stA); c2[-1].update(k=6); variants.append(("ca-other-key", c2, s2))
                c2, s2 = copy.deepcopy(chA), copy.deepcopy(stA); c2[-1].update(k=6); c2[-2].update(g=6); variants.append(("ca-other-key-child-follows", c2, s2))
            c2, s2 = copy.deepcopy(chA), copy.deepcopy(stA); c2[0].update(g=6); variants.append(("leaf-other-signer", c2, s2))
            for nm, cB, sB in variants:
                A = vline(form, 0, 6, NOW, chA, stA); B = vline(form, 0, 6, NOW, cB, sB)
                add("seq %s | %s | %s | %s" % (A, B, A, B), "seq:%s:%s:ncas%d" % (form, nm, ncas))
                add("seq %s | %s | %s" % (B, A, B), "seq:%s:%s:ncas%d" % (form, nm, ncas))
    # --- C: random multi-deviation chains
    nrand = 700 if not thorough else 12000
    for n in range(nrand):
        form, tlcp = forms[r.below(2)]
        role = r.below(2)
        ncas = r.below(4)
        ch, st = base(ncas, tlcp, role, rootpl=r.choice([-1, ncas, 6]) if True else 6, eku=r.chance(1, 2))
        if st[0]["x"][2].endswith(":-1"):
            set_ext(st[0], "bc", "bc:1:1:-1")
        n_chain = len(ch)
        first_ca = 2 if tlcp else 1
        nd = r.choice([0, 1, 2, 2, 3])
        names = []
        for _ in range(nd):
            idx = r.below(n_chain + 1)
            below = max(0, idx - first_ca)
            devs = deviations(idx, below)
            name, f = devs[r.below(len(devs))]
            target = st[0] if idx == n_chain else ch[idx]
            if target["p"]:
                f(target)
            names.append(name.split("=")[0].split("-")[0])
        depth = r.choice([6, 6, ncas, ncas - 1, 0, 1, 2])
        add(vline(form, role, depth, NOW, ch, st), "verify:%s:role%d:random:%ddev" % (form, role, nd))
    # --- D: x509_cert_check directly, every certificate type
    c0 = cert(2, 1, 2, 1, [])
    for ctype in (-1, 0, 1, 2, 3, 4, 5, 6, 7, 99):
        seen = set()
        for name, f in deviations(1, 1):
            if name.startswith(("issuer-mismatch", "subject-mismatch", "sig-", "key-other")):
                continue
            for basex in ([], ["ku:1:1"], ["ku:1:96", "bc:1:1:3"], ["ku:1:4", "eku:-1:1"]):
                if not thorough and basex and not name.startswith(("bc", "ku", "eku", "no-ext")):
                    continue
                c = copy.deepcopy(c0); c["x"] = list(basex)
                f(c)
                t = tok(c)
                if (ctype, t) in seen:
                    continue
                seen.add((ctype, t))
                add("check %d %d %s" % (ctype, NOW, t), "check:type%d:%s" % (ctype, dev_group(name)))
    # --- E: lookup by subject
    store = [cert(s, 1, s, 1, []) for s in (1, 2, 3, 2, 4)]
    for sid in (0, 1, 2, 3, 4, 5):
        add("bysubj %d %s" % (sid, lst(store)), "bysubj:plain")
        add("bysubj %d %s" % (sid, lst(store[:2] + [{"p": 0}] + store[2:])), "bysubj:junk-in-middle")
        add("bysubj %d ." % sid, "bysubj:empty-store")
    for order in ((101, 1), (1, 101), (101,), (1,)):
        st2 = [cert(s_, 1, 1, 1, []) for s_ in order]
        for sid in (1, 101, 2):
            add("bysubj %d %s" % (sid, lst(st2)), "bysubj:prefix-related-names")
    badval = cert(3, 1, 3, 1, [], b=NOW, a=NOW)      # notBefore = notAfter: refused by the parser
    add("bysubj 4 %s" % lst([store[0], badval, store[4]]), "bysubj:unparsable-validity-before")
    add("bysubj 1 %s" % lst([store[0], badval, store[4]]), "bysubj:unparsable-validity-after")
    return cases


EXPLAIN = {
    (False, True): ("issuer-without-basicConstraints-accepted",
                    "a certificate without basicConstraints cA=TRUE is accepted as an issuer (x509_exts_check never requires the extension for X509_cert_ca)"),
    (True, False): ("client-chain-checked-as-server",
                    "x509_certs_verify_tlcp checks a client chain with the server certificate types (extKeyUsage clientAuth refused, serverAuth accepted)"),
    (False, False): ("both-repairs-missing", "explained only by both known defects together"),
}


def compare(ctx, cases, impl, model, variant):
    for i, (line, cell) in enumerate(cases):
        ctx.cov["evaluations"] += 1
        a, b = impl[i], model[i]
        op = line.split(" ", 2)
        ctx.count("op:" + op[0] + (":" + op[1] if op[0] == "verify" else ""))
        if b.startswith("MODEL-") or (b.count("|") != 3 and op[0] != "seq"):
            ctx.violation("model:" + cell, "model-side failure on `%s`: %s" % (line[:200], b[:200]), {"kind": "model", "op": line, "model": b}, False)
            continue
        if op[0] == "seq":
            # a sequence in one process: every step compared with the repaired model
            sa, sb = a.split(" ;; "), [x.split("|")[0].strip() for x in b.split(" ;; ")]
            if sa == sb:
                ctx.cell(cell + ":ok")
            else:
                ctx.violation(cell, "sequence of operations on reused buffers: step results %s, the model evaluated on the actual bytes gives %s [%s]: `%s`" % (sa, sb, variant, line[:300]),
                              {"kind": "failing-input", "op": line, "impl": a, "expected": " ;; ".join(sb), "variant": variant}, True)
            continue
        cols = [c.strip() for c in b.split("|")]      # repaired, only19, only20, legacy
        if a == cols[0]:
            ctx.cell(cell + ":" + ("ERR" if a.startswith("ERR") else "ok"))
            ctx.count("outcome:" + ("reject" if a.startswith("ERR") else "accept"))
            if i % max(1, len(cases) // 8) == 0:
                ctx.sample({"op": line[:300], "result": a})
            continue
        # settings: index -> (fix19, fix20)
        sett = [(True, True), (True, False), (False, True), (False, False)]
        matches = [sett[j] for j in range(4) if cols[j] == a]
        key = cell
        why = "implementation differs from the model proved sound (Properties_C07)"
        if matches:
            f19 = any(m[0] for m in matches)
            f20 = any(m[1] for m in matches)
            if (f19, f20) in EXPLAIN:
                nm, txt = EXPLAIN[(f19, f20)]
                fn = {"verify": "x509_certs_verify" + ("_tlcp" if op[1] == "tlcp" else ""), "check": "x509_cert_check"}.get(op[0], op[0])
                key = "%s:%s" % (fn, nm)
                why = txt + "; accepted=%s but the property requires %s" % (a, cols[0])
        ctx.violation(key, "%s [%s]: op `%s` impl=%s model(repaired|fix19|fix20|legacy)=%s" % (why, variant, line[:400], a, b),
                      {"kind": "failing-input", "op": line, "impl": a, "expected": cols[0], "model_all_settings": b, "variant": variant}, True)


def run(ctx):
    ctx.check_proofs()
    model, log = core.build_model("C07")
    if model is None:
        ctx.violation("correspondence:model-build", "extracted model does not build: " + log[-500:], {"kind": "correspondence", "log": log[-3000:]}, False)
        return finish(ctx)
    cases = gen(ctx)
    lines = [c[0] for c in cases]
    if os.environ.get("VERIF_DUMP_OPS"):
        open(os.environ["VERIF_DUMP_OPS"], "w").write("\n".join(lines) + "\n")
    for v in (["asan"] if ctx.tier == "quick" else ["asan", "small"]):
        exe, log = core.build_harness("C07", v)
        if exe is None:
            core.harness_build_failed(ctx, log)
            continue
        impl, err = core.run_lines(exe, lines)
        mod, _ = core.run_lines(model, lines)
        ctx.notes.append("variant %s: %d cases" % (v, len(lines)))
        compare(ctx, cases, impl, mod, v)
    return finish(ctx)


def replay(path):
    r = json.load(open(path))
    op = r.get("replay", {}).get("op")
    if not op:
        print("replay names a proof obligation / relation, not an input:", json.dumps(r.get("replay"))[:1000]); return 0
    model, _ = core.build_model("C07")
    exe, log = core.build_harness("C07", "asan")
    if exe is None:
        print(log[-2000:]); return 1
    a, err = core.run_lines(exe, [op], shards=1, env={"VERIF_STDERR": "1"})
    b, _ = core.run_lines(model, [op], shards=1)
    print("op:    ", op); print("impl:  ", a[0]); print("model (repaired | fix19 only | fix20 only | legacy): ", b[0])
    if err.strip():
        print("stderr:", err[-1500:])
    print("AGREE" if a[0] == b[0].split("|")[0].strip() else "DIFFER")
    return 0


def finish(ctx):
    ctx.assumptions = [
        "abstraction: a certificate is the record of Pki/X509Path.v (parse flag, version, serial length, algorithm match, names, validity, key, signature predicate, extension list); the harness builds the real DER for each vector with the library's own x509_cert_sign_to_der and extension builders, so parsing into the abstract fields is exercised, not proved (C15 covers the codec)",
        "sig_ok is the real sm2_verify on the harness side and the predicate 'signed by key g, not corrupted' on the model side (SM2 unforgeability is not claimed)",
        "names are compared bytewise (x509_name_equ = memcmp); the model uses name identifiers, 0 = empty Name",
        "path_len is a C int; chains long enough to overflow it (2^31 certificates) are outside the model",
        "the Spec uses the last basicConstraints occurrence as the effective one: the implementation does not refuse repeated extensions (RFC 5280 4.2 forbids them); not part of the property text",
        "soundness theorems are about the repaired model (both one-line repairs applied); the refuted statements about the tree as found are theorems too (C07_*_refuted_legacy)",
    ]
    return ctx.finish(level="proof",
                      rule="cases = toolkit chains (length 1..5, both roles, both verifiers, depth below/at/above the limit, root pathLen absent/short/ample) + every one-certificate deviation (version, algorithm mismatch, non-certificate, names, signature bad / wrong key, validity ends and span, basicConstraints presence/cA/pathLen/criticality/repetition, keyUsage bit sets, extKeyUsage lists, 20 further extension kinds x criticality) at every position incl. the trust anchor + trust-store shapes + clock across the UTCTime/GeneralizedTime switch + random multi-deviation chains + x509_cert_check for every certificate type + lookup by subject; a cell = (op, verifier, role, position class, deviation, accept|reject); distinct_nontrivial = cells on which implementation and repaired model agreed",
                      trusted=core.TRUSTED_COMMON + ["Coq files: Pki/X509Path.v (models + Spec), Pki/X509PathProofs.v, Pki/X509Toolkit.v, Props/Properties_C07.v",
                                                     "harness/entropy.h link-time time()/getentropy() replacement (scripted clock, deterministic keys)"])
