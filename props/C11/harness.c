/* C11 correspondence harness: record protection of the current /repo tree.
 * Every buffer handed to the library is an exactly sized heap block. */
#include "common.h"
#include "entropy.h"
#include <gmssl/tls.h>
#include <gmssl/sm3.h>
#include <gmssl/sm4.h>
#include <gmssl/block_cipher.h>

/* defined in src/tls13.c, not declared in tls.h */
int tls13_record_encrypt(const BLOCK_CIPHER_KEY *key, const uint8_t iv[12],
	const uint8_t seq_num[8], const uint8_t *record, size_t recordlen, size_t padding_len,
	uint8_t *enced_record, size_t *enced_recordlen);
int tls13_record_decrypt(const BLOCK_CIPHER_KEY *key, const uint8_t iv[12],
	const uint8_t seq_num[8], const uint8_t *enced_record, size_t enced_recordlen,
	uint8_t *record, size_t *recordlen);

static uint8_t *xalloc(size_t n) { uint8_t *p = malloc(n ? n : 1); memset(p, 0xA5, n ? n : 1); return p; }

/* install the 16 IV bytes as the next entropy draw; "x" = the source fails */
static void set_iv(const char *s, buf_t *iv) {
	if (!strcmp(s, "x")) { iv->p = malloc(1); iv->n = 0; ent_script(iv->p, 0, 0); }
	else { *iv = hex2buf(s); ent_script(iv->p, iv->n, -1); }
}

static size_t cbc_outlen(size_t inlen) { return 16 + inlen - inlen % 16 + 48; }

#define SENT ((size_t)0xA5A5A5A5A5A5A5A5ULL)

/* shared: print a dec13 style error with the reported outlen if the callee touched it */
/* on failure: print the value the callee left in *outlen, if it touched it (tls13_do_recv passes
 * &conn->datalen, so the value survives the error return) */
static size_t cur_inlen;
static void put_err_outlen(size_t outlen) {
	(void)cur_inlen;
	if (outlen == SENT) printf("ERR"); else printf("ERR outlen=%zx", outlen);
}

/* ---- neighbourhood helpers (property oracle "must reject") ---- */
static int dec12(const SM3_HMAC_CTX *h, const SM4_KEY *dk, const uint8_t *seq, const uint8_t *rec, size_t reclen) {
	uint8_t *in = xalloc(reclen), *out; size_t ol = SENT; int r;
	memcpy(in, rec, reclen);
	out = xalloc(reclen > 16 ? reclen - 16 : 5);
	r = tls_record_decrypt(h, dk, seq, in, reclen, out, &ol);
	free(in); free(out);
	return r == 1;
}
static int dec13(const BLOCK_CIPHER_KEY *k, const uint8_t *iv, const uint8_t *seq, const uint8_t *rec, size_t reclen) {
	uint8_t *in = xalloc(reclen), *out; size_t ol = SENT; int r;
	memcpy(in, rec, reclen);
	out = xalloc(reclen > 16 ? reclen - 16 : 5);
	r = tls13_record_decrypt(k, iv, seq, in, reclen, out, &ol);
	free(in); free(out);
	return r == 1;
}

/* ---- concurrent use on disjoint objects: T threads, each with its own keys, sequence numbers, buffers and
 * (per-thread scripted) entropy, protect and unprotect their own records at the same time.  The reference is
 * the same work done by one thread after the other.  Nothing is shared between the workers, so every byte
 * must come out as in the sequential run. ---- */
#include <pthread.h>
typedef struct { int proto, id, nrec, rounds, bad; uint64_t seed, digest; pthread_barrier_t *bar; } par_t;
static uint64_t par_next(uint64_t *s) { *s ^= *s << 13; *s ^= *s >> 7; *s ^= *s << 17; return *s; }
static void *par_worker(void *arg) {
	par_t *w = arg; uint64_t st = w->seed * 0x9E3779B97F4A7C15ULL + (uint64_t)(w->id + 1) * 0xD1B54A32D192ED03ULL; int r, j; size_t i;
	uint8_t mk[32], ek[16], iv[12], seq[8];
	SM3_HMAC_CTX h; SM4_KEY k, dk; BLOCK_CIPHER_KEY bk;
	for (i = 0; i < 32; i++) mk[i] = (uint8_t)par_next(&st);
	for (i = 0; i < 16; i++) ek[i] = (uint8_t)par_next(&st);
	for (i = 0; i < 12; i++) iv[i] = (uint8_t)par_next(&st);
	memset(seq, 0, 8);
	sm3_hmac_init(&h, mk, 32); sm4_set_encrypt_key(&k, ek); sm4_set_decrypt_key(&dk, ek);
	block_cipher_set_encrypt_key(&bk, BLOCK_CIPHER_sm4(), ek);
	w->digest = 1469598103934665603ULL; w->bad = 0;
	for (r = 0; r < w->rounds; r++) {
		if (w->bar) pthread_barrier_wait(w->bar);
		for (j = 0; j < w->nrec; j++) {
			uint64_t x = par_next(&st); size_t n = (x % 7 == 0) ? (size_t)(x >> 8) % 16385 : (size_t)(x >> 8) % 700, pad = w->proto == 13 ? (size_t)(x >> 40) % 40 : 0, el = SENT, ol = SENT;
			uint8_t *rec = xalloc(5 + n), *enc = xalloc(5 + n + 1 + pad + 16 + 80), *out = xalloc(5 + n + pad + 80); int ok;
			rec[0] = (uint8_t)(20 + (x >> 4) % 4); rec[1] = 3; rec[2] = 3; rec[3] = (uint8_t)(n >> 8); rec[4] = (uint8_t)n;
			for (i = 0; i < n; i++) rec[5 + i] = (uint8_t)(x >> (i % 7 * 8)) ^ (uint8_t)i;
			ent_seed(w->seed * 1000003ULL + (uint64_t)w->id * 7919 + (uint64_t)(r * w->nrec + j), -1);
			if (w->proto == 13) ok = tls13_record_encrypt(&bk, iv, seq, rec, 5 + n, pad, enc, &el) == 1 && tls13_record_decrypt(&bk, iv, seq, enc, el, out, &ol) == 1;
			else ok = tls_record_encrypt(&h, &k, seq, rec, 5 + n, enc, &el) == 1 && tls_record_decrypt(&h, &dk, seq, enc, el, out, &ol) == 1;
			if (!ok || ol != 5 + n || memcmp(out, rec, 5 + n)) w->bad++;
			else for (i = 0; i < el; i++) { w->digest ^= enc[i]; w->digest *= 1099511628211ULL; }
			tls_seq_num_incr(seq);
			free(rec); free(enc); free(out);
		}
	}
	return NULL;
}
static void par_run(int proto, int T, uint64_t seed, int nrec, int rounds) {
	par_t ref[8], con[8]; pthread_t th[8]; pthread_barrier_t bar; int t, diff = -1, bad = 0, refbad = 0;
	if (T < 1 || T > 8) { printf("ERR threads"); return; }
	for (t = 0; t < T; t++) { par_t w = { proto, t, nrec, rounds, 0, seed, 0, NULL }; ref[t] = w; par_worker(&ref[t]); refbad += ref[t].bad; }
	pthread_barrier_init(&bar, NULL, (unsigned)T);
	for (t = 0; t < T; t++) { par_t w = { proto, t, nrec, rounds, 0, seed, 0, &bar }; con[t] = w; pthread_create(&th[t], NULL, par_worker, &con[t]); }
	for (t = 0; t < T; t++) pthread_join(th[t], NULL);
	pthread_barrier_destroy(&bar);
	for (t = 0; t < T; t++) { bad += con[t].bad; if (diff < 0 && con[t].digest != ref[t].digest) diff = t; }
	if (refbad) printf("SEQUENTIAL-ROUNDTRIP-FAILS %d", refbad);
	else if (bad) printf("CONCURRENT-ROUNDTRIP-FAILS %d of %d", bad, T * nrec * rounds);
	else if (diff >= 0) printf("CONCURRENT-CIPHERTEXT-DIFFERS thread=%d", diff);
	else printf("SAME %d", T * nrec * rounds);
}

static void handle(size_t nw, char **w) {
	if (!strcmp(w[0], "cbcenc") && nw == 7) {
		buf_t mk = hex2buf(w[1]), ek = hex2buf(w[2]), seq = hex2buf(w[3]), hdr = hex2buf(w[4]), pl = hex2buf(w[5]), iv;
		SM3_HMAC_CTX h; SM4_KEY k; size_t ol = SENT; uint8_t *out = xalloc(cbc_outlen(pl.n));
		set_iv(w[6], &iv);
		sm3_hmac_init(&h, mk.p, mk.n); sm4_set_encrypt_key(&k, ek.p);
		if (tls_cbc_encrypt(&h, &k, seq.p, hdr.p, pl.p, pl.n, out, &ol) == 1) puthex(out, ol); else printf("ERR");
		free(out); free(mk.p); free(ek.p); free(seq.p); free(hdr.p); free(pl.p); free(iv.p);
	}
	else if (!strcmp(w[0], "cbcdec") && nw == 6) {
		buf_t mk = hex2buf(w[1]), ek = hex2buf(w[2]), seq = hex2buf(w[3]), hdr = hex2buf(w[4]), ct = hex2buf(w[5]);
		SM3_HMAC_CTX h; SM4_KEY k; size_t ol = SENT; uint8_t *out = xalloc(ct.n > 16 ? ct.n - 16 : 0);
		sm3_hmac_init(&h, mk.p, mk.n); sm4_set_decrypt_key(&k, ek.p);
		if (tls_cbc_decrypt(&h, &k, seq.p, hdr.p, ct.p, ct.n, out, &ol) == 1) {
			if (ol + 16 > ct.n) printf("OUTLEN-EXCEEDS-INPUT %zu", ol); else puthex(out, ol);
		} else printf("ERR");
		free(out); free(mk.p); free(ek.p); free(seq.p); free(hdr.p); free(ct.p);
	}
	else if (!strcmp(w[0], "recenc") && nw == 6) {
		buf_t mk = hex2buf(w[1]), ek = hex2buf(w[2]), seq = hex2buf(w[3]), rc = hex2buf(w[4]), iv;
		SM3_HMAC_CTX h; SM4_KEY k; size_t ol = SENT; uint8_t *out = xalloc(5 + cbc_outlen(rc.n >= 5 ? rc.n - 5 : 0));
		set_iv(w[5], &iv);
		sm3_hmac_init(&h, mk.p, mk.n); sm4_set_encrypt_key(&k, ek.p);
		if (rc.n >= 5 && tls_record_encrypt(&h, &k, seq.p, rc.p, rc.n, out, &ol) == 1) puthex(out, ol); else printf("ERR");
		free(out); free(mk.p); free(ek.p); free(seq.p); free(rc.p); free(iv.p);
	}
	else if (!strcmp(w[0], "recdec") && nw == 5) {
		buf_t mk = hex2buf(w[1]), ek = hex2buf(w[2]), seq = hex2buf(w[3]), rc = hex2buf(w[4]);
		SM3_HMAC_CTX h; SM4_KEY k; size_t ol = SENT; uint8_t *out = xalloc(rc.n > 16 ? rc.n - 16 : 5);
		sm3_hmac_init(&h, mk.p, mk.n); sm4_set_decrypt_key(&k, ek.p);
		if (rc.n >= 5 && tls_record_decrypt(&h, &k, seq.p, rc.p, rc.n, out, &ol) == 1) {
			if (ol + 16 > rc.n) printf("OUTLEN-EXCEEDS-INPUT %zu", ol); else puthex(out, ol);
		} else printf("ERR");
		free(out); free(mk.p); free(ek.p); free(seq.p); free(rc.p);
	}
	else if (!strcmp(w[0], "enc13") && nw == 7) {
		buf_t key = hex2buf(w[1]), iv = hex2buf(w[2]), seq = hex2buf(w[3]), pl = hex2buf(w[5]);
		int type = atoi(w[4]); size_t pad = strtoul(w[6], NULL, 10), ol = SENT;
		BLOCK_CIPHER_KEY k; uint8_t *out = xalloc(pl.n + 1 + pad + 16);
		block_cipher_set_encrypt_key(&k, BLOCK_CIPHER_sm4(), key.p);
		if (pad <= 255 && tls13_gcm_encrypt(&k, iv.p, seq.p, type, pl.p, pl.n, pad, out, &ol) == 1) puthex(out, ol); else printf("ERR");
		free(out); free(key.p); free(iv.p); free(seq.p); free(pl.p);
	}
	else if (!strcmp(w[0], "dec13") && nw == 5) {
		buf_t key = hex2buf(w[1]), iv = hex2buf(w[2]), seq = hex2buf(w[3]), ct = hex2buf(w[4]);
		int type = -1; size_t ol = SENT;
		BLOCK_CIPHER_KEY k; uint8_t *out = xalloc(ct.n >= 16 ? ct.n - 16 : 0);
		cur_inlen = ct.n;
		block_cipher_set_encrypt_key(&k, BLOCK_CIPHER_sm4(), key.p);
		if (tls13_gcm_decrypt(&k, iv.p, seq.p, ct.p, ct.n, &type, out, &ol) == 1) {
			if (ol + 16 > ct.n) printf("OUTLEN-EXCEEDS-INPUT %zu", ol); else { printf("%d ", type); puthex(out, ol); }
		} else put_err_outlen(ol);
		free(out); free(key.p); free(iv.p); free(seq.p); free(ct.p);
	}
	else if (!strcmp(w[0], "renc13") && nw == 6) {
		buf_t key = hex2buf(w[1]), iv = hex2buf(w[2]), seq = hex2buf(w[3]), rc = hex2buf(w[4]);
		size_t pad = strtoul(w[5], NULL, 10), ol = SENT;
		BLOCK_CIPHER_KEY k; uint8_t *out = xalloc(rc.n + 1 + pad + 16);
		block_cipher_set_encrypt_key(&k, BLOCK_CIPHER_sm4(), key.p);
		if (rc.n >= 5 && pad <= 255 && tls13_record_encrypt(&k, iv.p, seq.p, rc.p, rc.n, pad, out, &ol) == 1) puthex(out, ol); else printf("ERR");
		free(out); free(key.p); free(iv.p); free(seq.p); free(rc.p);
	}
	else if (!strcmp(w[0], "rdec13") && nw == 5) {
		buf_t key = hex2buf(w[1]), iv = hex2buf(w[2]), seq = hex2buf(w[3]), rc = hex2buf(w[4]);
		size_t ol = SENT;
		BLOCK_CIPHER_KEY k; uint8_t *out = xalloc(rc.n >= 16 ? rc.n - 16 : 5);
		cur_inlen = rc.n;
		block_cipher_set_encrypt_key(&k, BLOCK_CIPHER_sm4(), key.p);
		if (rc.n >= 5 && tls13_record_decrypt(&k, iv.p, seq.p, rc.p, rc.n, out, &ol) == 1) {
			if (ol + 16 > rc.n) printf("OUTLEN-EXCEEDS-INPUT %zu", ol); else puthex(out, ol);
		} else if (rc.n >= 5) put_err_outlen(ol); else printf("ERR");
		free(out); free(key.p); free(iv.p); free(seq.p); free(rc.p);
	}
	else if (!strcmp(w[0], "seqincr") && nw == 3) {
		buf_t seq = hex2buf(w[1]); long n = atol(w[2]), i;
		uint8_t *s = xalloc(8); memcpy(s, seq.p, 8);
		for (i = 0; i < n; i++) tls_seq_num_incr(s);
		puthex(s, 8); free(s); free(seq.p);
	}
	else if ((!strcmp(w[0], "rt12") && nw == 6) || ((!strcmp(w[0], "nb12") || !strcmp(w[0], "tr12") || !strcmp(w[0], "sq12")) && nw == 7)) {
		/* protect, then: rt = unprotect; nb = every single-bit flip (stride w[6]); tr = every truncation
		   and extensions; sq = other sequence numbers (w[6] = comma list) : all must be rejected */
		buf_t mk = hex2buf(w[1]), ek = hex2buf(w[2]), seq = hex2buf(w[3]), rc = hex2buf(w[4]), iv;
		SM3_HMAC_CTX h; SM4_KEY k, dk; size_t el = SENT, ol = SENT;
		uint8_t *enc = xalloc(5 + cbc_outlen(rc.n >= 5 ? rc.n - 5 : 0));
		set_iv(w[5], &iv);
		sm3_hmac_init(&h, mk.p, mk.n); sm4_set_encrypt_key(&k, ek.p); sm4_set_decrypt_key(&dk, ek.p);
		if (rc.n < 5 || tls_record_encrypt(&h, &k, seq.p, rc.p, rc.n, enc, &el) != 1) printf("ERR");
		else if (!strcmp(w[0], "rt12")) {
			uint8_t *e2 = xalloc(el), *out = xalloc(el - 16); memcpy(e2, enc, el);
			if (tls_record_decrypt(&h, &dk, seq.p, e2, el, out, &ol) == 1) puthex(out, ol); else printf("ERR");
			free(e2); free(out);
		} else if (!strcmp(w[0], "nb12")) {
			size_t stride = strtoul(w[6], NULL, 10), bit, acc = 0, first = 0, cnt = 0;
			if (!dec12(&h, &dk, seq.p, enc, el)) printf("ERR honest-record-rejected");
			else {
				/* bits of type/version (header bytes 0..2) and of the protected body (5..); the two
				   length bytes are exercised by the truncation family (length is the buffer length) */
				for (bit = 0; bit < el * 8; bit += (bit < 40 ? 1 : stride)) {
					if (bit >= 24 && bit < 40) continue;
					enc[bit / 8] ^= (uint8_t)(1u << (bit % 8));
					if (dec12(&h, &dk, seq.p, enc, el)) { if (!acc) first = bit; acc++; }
					enc[bit / 8] ^= (uint8_t)(1u << (bit % 8)); cnt++;
				}
				if (acc) printf("ACCEPTED %zu first-bit=%zu", acc, first); else printf("REJECTS-ALL");
			}
		} else if (!strcmp(w[0], "tr12")) {
			size_t n, acc = 0, first = 0;
			for (n = 5; n < el + 40; n++) {
				uint8_t *t; if (n == el) continue;
				t = xalloc(n); memcpy(t, enc, n < el ? n : el);
				t[3] = (uint8_t)((n - 5) >> 8); t[4] = (uint8_t)(n - 5);
				if (dec12(&h, &dk, seq.p, t, n)) { if (!acc) first = n; acc++; }
				free(t);
			}
			if (acc) printf("ACCEPTED %zu first-len=%zu", acc, first); else printf("REJECTS-ALL");
		} else {
			char *save = NULL, *t; size_t acc = 0; char firsts[32] = "";
			for (t = strtok_r(w[6], ",", &save); t; t = strtok_r(NULL, ",", &save)) {
				buf_t s2 = hex2buf(t);
				if (s2.n == 8 && memcmp(s2.p, seq.p, 8) != 0 && dec12(&h, &dk, s2.p, enc, el)) { if (!acc) snprintf(firsts, sizeof firsts, "%s", t); acc++; }
				free(s2.p);
			}
			if (acc) printf("ACCEPTED %zu first-seq=%s", acc, firsts); else printf("REJECTS-ALL");
		}
		free(enc); free(mk.p); free(ek.p); free(seq.p); free(rc.p); free(iv.p);
	}
	else if ((!strcmp(w[0], "rt13") && nw == 6) || ((!strcmp(w[0], "nb13") || !strcmp(w[0], "tr13") || !strcmp(w[0], "sq13")) && nw == 7)) {
		buf_t key = hex2buf(w[1]), iv = hex2buf(w[2]), seq = hex2buf(w[3]), rc = hex2buf(w[4]);
		size_t pad = strtoul(w[5], NULL, 10), el = SENT, ol = SENT;
		BLOCK_CIPHER_KEY k; uint8_t *enc = xalloc(rc.n + 1 + pad + 16);
		block_cipher_set_encrypt_key(&k, BLOCK_CIPHER_sm4(), key.p);
		if (rc.n < 5 || pad > 255 || tls13_record_encrypt(&k, iv.p, seq.p, rc.p, rc.n, pad, enc, &el) != 1) printf("ERR");
		else if (!strcmp(w[0], "rt13")) {
			uint8_t *e2 = xalloc(el), *out = xalloc(el - 16); memcpy(e2, enc, el);
			cur_inlen = el;
			if (tls13_record_decrypt(&k, iv.p, seq.p, e2, el, out, &ol) == 1) puthex(out, ol); else put_err_outlen(ol);
			free(e2); free(out);
		} else if (!strcmp(w[0], "nb13")) {
			size_t stride = strtoul(w[6], NULL, 10), bit, acc = 0, first = 0;
			if (!dec13(&k, iv.p, seq.p, enc, el)) printf("ERR honest-record-rejected");
			else {
				/* protected body only: the outer type/version bytes are not authenticated by TLS 1.3 */
				for (bit = 40; bit < el * 8; bit += stride) {
					enc[bit / 8] ^= (uint8_t)(1u << (bit % 8));
					if (dec13(&k, iv.p, seq.p, enc, el)) { if (!acc) first = bit; acc++; }
					enc[bit / 8] ^= (uint8_t)(1u << (bit % 8));
				}
				if (acc) printf("ACCEPTED %zu first-bit=%zu", acc, first); else printf("REJECTS-ALL");
			}
		} else if (!strcmp(w[0], "tr13")) {
			size_t n, acc = 0, first = 0;
			for (n = 5; n < el + 40; n++) {
				uint8_t *t; if (n == el) continue;
				t = xalloc(n); memcpy(t, enc, n < el ? n : el);
				t[3] = (uint8_t)((n - 5) >> 8); t[4] = (uint8_t)(n - 5);
				if (dec13(&k, iv.p, seq.p, t, n)) { if (!acc) first = n; acc++; }
				free(t);
			}
			if (acc) printf("ACCEPTED %zu first-len=%zu", acc, first); else printf("REJECTS-ALL");
		} else {
			char *save = NULL, *t; size_t acc = 0; char firsts[32] = "";
			for (t = strtok_r(w[6], ",", &save); t; t = strtok_r(NULL, ",", &save)) {
				buf_t s2 = hex2buf(t);
				if (s2.n == 8 && memcmp(s2.p, seq.p, 8) != 0 && dec13(&k, iv.p, s2.p, enc, el)) { if (!acc) snprintf(firsts, sizeof firsts, "%s", t); acc++; }
				free(s2.p);
			}
			if (acc) printf("ACCEPTED %zu first-seq=%s", acc, firsts); else printf("REJECTS-ALL");
		}
		free(enc); free(key.p); free(iv.p); free(seq.p); free(rc.p);
	}
	else if (!strcmp(w[0], "par") && nw == 6) par_run(atoi(w[1]), atoi(w[2]), strtoull(w[3], NULL, 10), atoi(w[4]), atoi(w[5]));
	else printf("ERR bad-op");
}

int main(void) { quiet_stderr(); main_loop(handle); return 0; }
