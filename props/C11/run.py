"""C11 — record protection round-trips, rejects altered / replayed / misplaced records."""
from vlib import core
from vlib.core import hexs

TYPES = [20, 21, 22, 23]
VERS = ["0101", "0303"]   # TLCP 1.1, TLS 1.2


def u16(n):
    return "%04x" % (n & 0xFFFF)


def rec12(r, typ, ver, payload):
    return "%02x%s%s%s" % (typ, ver, u16(len(payload)), payload.hex())


def gen(ctx):
    r = ctx.rng
    thorough = ctx.tier == "thorough"
    cases = []
    add = lambda line, cell: cases.append((line, cell))
    mk = lambda: r.bytes(32).hex()
    k16 = lambda: r.bytes(16).hex()
    seqr = lambda: r.choice(["0000000000000000", "0000000000000001", "00000000000000ff", "00ffffffffffffff",
                             "ffffffffffffffff", r.bytes(8).hex()])

    # ---------------- sequence numbers (56-bit counter as coded) ----------------
    for s, n in [("0000000000000000", 1), ("00000000000000ff", 1), ("000000000000ffff", 1), ("0000ffffffffffff", 1),
                 ("00ffffffffffffff", 1), ("ffffffffffffffff", 1), ("12ffffffffffffff", 2), ("0000000000000000", 300),
                 (r.bytes(8).hex(), 70000 if thorough else 700)]:
        add("seqincr %s %d" % (s, n), "seqincr:%s" % ("wrap56" if s.endswith("ffffffffffffff") else "carry" if s.endswith("ff") else "plain"))

    # ---------------- TLCP / TLS 1.2: unit ops at the length boundaries ----------------
    big = [16367, 16368, 16369, 16383, 16384]
    lens = list(range(0, 50)) + [63, 64, 65, 255, 256, 257, 4095, 4096, 4097] + big
    for L in lens:
        typ, ver = r.choice(TYPES), r.choice(VERS)
        pl = r.bytes(L)
        m, k, s, iv = mk(), k16(), seqr(), r.bytes(16).hex()
        cls = "len%%16=%d" % (L % 16) if L < 50 else ("max" if L >= 16367 else "mid")
        hdr = "%02x%s%s" % (typ, ver, u16(L))
        if L <= 4097 or L == 16384:
            add("cbcenc %s %s %s %s %s %s" % (m, k, s, hdr, hexs(pl), iv), "cbcenc:" + cls)
        add("recenc %s %s %s %s %s" % (m, k, s, rec12(r, typ, ver, pl), iv), "recenc:" + cls)
        add("rt12 %s %s %s %s %s" % (m, k, s, rec12(r, typ, ver, pl), iv), "rt12:" + cls)
    # refused inputs of the protect side
    for L, hl, cls in [(16385, 16385, "too-long"), (16400, 16400, "too-long"), (10, 11, "hdr-len-mismatch"), (10, 9, "hdr-len-mismatch"), (0, 1, "hdr-len-mismatch")]:
        pl = r.bytes(L)
        add("cbcenc %s %s %s 17%s%s %s %s" % (mk(), k16(), seqr(), "0303", u16(hl), hexs(pl), r.bytes(16).hex()), "cbcenc:" + cls)
        add("recenc %s %s %s 17%s%s%s %s" % (mk(), k16(), seqr(), "0303", u16(hl), pl.hex(), r.bytes(16).hex()), "recenc:" + cls)
    add("cbcenc %s %s %s 1703030003 010203 x" % (mk(), k16(), seqr()), "cbcenc:entropy-fails")
    add("recenc %s %s %s 1703030003010203 x" % (mk(), k16(), seqr()), "recenc:entropy-fails")
    for typ in range(0, 256, 1 if thorough else 5):     # content type is not validated by the record functions
        add("rt12 %s %s %s %s %s" % (mk(), k16(), seqr(), rec12(r, typ, "0303", r.bytes(r.below(40))), r.bytes(16).hex()), "rt12:type=%s" % ("known" if typ in TYPES else "other"))

    # ---------------- TLCP / TLS 1.2: unprotect on arbitrary bytes (structure of the checks) --------
    for n in [0, 1, 15, 16, 17, 32, 48, 63, 64, 65, 79, 80, 81, 96, 16672, 16687, 16688, 16689, 16704]:
        ct = r.bytes(n)
        cls = "len%16nz" if n % 16 else ("short" if n < 64 else ("long" if n > 16688 else "ok-len"))
        add("cbcdec %s %s %s 1703030000 %s" % (mk(), k16(), seqr(), hexs(ct)), "cbcdec:garbage:" + cls)
        add("recdec %s %s %s 170303%s%s" % (mk(), k16(), seqr(), u16(n), ct.hex()), "recdec:garbage:" + cls)
    for n in range(0, 5):
        add("recdec %s %s %s %s" % (mk(), k16(), seqr(), hexs(r.bytes(n))), "recdec:shorter-than-header")
        add("recenc %s %s %s %s %s" % (mk(), k16(), seqr(), hexs(r.bytes(n)), r.bytes(16).hex()), "recenc:shorter-than-header")
    return cases, (r, add, mk, k16, seqr, thorough)


def gen2(ctx, env, honest):
    """second wave: needs honest ciphertexts (taken from the model's output of wave 1)."""
    r, add_, mk, k16, seqr, thorough = env
    cases = []
    add = lambda line, cell: cases.append((line, cell))
    nhdr12, nhdr13 = [0], [0]
    for (line, out) in honest:
        w = line.split()
        if w[0] == "recenc" and not out.startswith("ERR"):
            m, k, s, rc = w[1], w[2], w[3], w[4]
            enc = bytes.fromhex(out)
            add("recdec %s %s %s %s" % (m, k, s, out), "recdec:honest")
            # header fields covered by the MAC: type, version
            for pos, cls in [(0, "type"), (1, "version"), (2, "version")]:
                e2 = bytearray(enc); e2[pos] ^= 1 << r.below(8)
                add("recdec %s %s %s %s" % (m, k, s, e2.hex()), "recdec:flip:" + cls)
            # every bit of all five header bytes (the first records; the length bytes are not an input of the
            # direct call -- the buffer length is -- so the model accepts those: the live sweep covers them)
            nhdr12[0] += 1
            if nhdr12[0] <= (6 if not thorough else 40):
                for pos in range(5):
                    for bit in range(8):
                        e2 = bytearray(enc); e2[pos] ^= 1 << bit
                        add("recdec %s %s %s %s" % (m, k, s, e2.hex()), "recdec:header-bit:%s" % ("type", "version-major", "version-minor", "length", "length")[pos])
            # body: iv, first block, mac region, padding byte
            n = len(enc)
            for pos, cls in [(5, "iv"), (5 + 15, "iv"), (5 + 16, "body-first"), (n - 1, "last-byte"), (n - 17, "prev-block"), (n - 40, "mac-region")]:
                if pos >= 5:
                    e2 = bytearray(enc); e2[pos] ^= 1 << r.below(8)
                    add("recdec %s %s %s %s" % (m, k, s, e2.hex()), "recdec:flip:" + cls)
            # truncation by whole blocks / by bytes, extension
            for cut in (1, 15, 16, 32):
                if n - cut >= 5:
                    e2 = bytearray(enc[:n - cut]); e2[3:5] = bytes.fromhex(u16(len(e2) - 5))
                    add("recdec %s %s %s %s" % (m, k, s, e2.hex()), "recdec:truncate:%s" % ("blocks" if cut % 16 == 0 else "bytes"))
            e2 = bytearray(enc + r.bytes(16)); e2[3:5] = bytes.fromhex(u16(len(e2) - 5))
            if len(e2) - 5 <= 16688 + 16:
                add("recdec %s %s %s %s" % (m, k, s, e2.hex()), "recdec:extend:blocks")
            # other sequence numbers
            sv = int(s, 16)
            for s2 in {(sv + 1) & (2**64 - 1), (sv - 1) & (2**64 - 1), 0, 2**56 - 1, sv ^ (1 << 63), int.from_bytes(r.bytes(8), "big")}:
                if s2 != sv:
                    add("recdec %s %s %s %s" % (m, k, "%016x" % s2, out), "recdec:other-seq")
            # other keys
            add("recdec %s %s %s %s" % (mk(), k, s, out), "recdec:other-mac-key")
            add("recdec %s %s %s %s" % (m, k16(), s, out), "recdec:other-enc-key")
        if w[0] == "cbcenc" and not out.startswith("ERR"):
            m, k, s, hdr = w[1], w[2], w[3], w[4]
            add("cbcdec %s %s %s %s %s" % (m, k, s, hdr, out), "cbcdec:honest")
            add("cbcdec %s %s %s %s %s" % (m, k, s, hdr[:6] + "ffff", out), "cbcdec:honest:length-field-of-enced-header-ignored")
        if w[0] == "renc13" and not out.startswith("ERR"):
            k, iv, s = w[1], w[2], w[3]
            enc = bytes.fromhex(out)
            n = len(enc)
            add("rdec13 %s %s %s %s" % (k, iv, s, out), "rdec13:honest")
            nhdr13[0] += 1
            if nhdr13[0] <= (6 if not thorough else 40):
                for pos in range(5):
                    for bit in range(8):
                        e2 = bytearray(enc); e2[pos] ^= 1 << bit
                        add("rdec13 %s %s %s %s" % (k, iv, s, e2.hex()), "rdec13:header-bit:%s" % ("type", "version-major", "version-minor", "length", "length")[pos])
            for pos, cls in [(5, "body-first"), (n - 1, "tag-last"), (n - 16, "tag-first"), (n - 17, "body-last")]:
                if pos >= 5:
                    e2 = bytearray(enc); e2[pos] ^= 1 << r.below(8)
                    add("rdec13 %s %s %s %s" % (k, iv, s, e2.hex()), "rdec13:flip:" + cls)
            for cut in (1, 16, 17):
                if n - cut >= 5:
                    e2 = bytearray(enc[:n - cut]); e2[3:5] = bytes.fromhex(u16(len(e2) - 5))
                    add("rdec13 %s %s %s %s" % (k, iv, s, e2.hex()), "rdec13:truncate")
            e2 = bytearray(enc + r.bytes(1)); e2[3:5] = bytes.fromhex(u16(len(e2) - 5))
            add("rdec13 %s %s %s %s" % (k, iv, s, e2.hex()), "rdec13:extend")
            sv = int(s, 16)
            for s2 in {(sv + 1) & (2**64 - 1), (sv - 1) & (2**64 - 1), 0, 2**56 - 1, int.from_bytes(r.bytes(8), "big")}:
                if s2 != sv:
                    add("rdec13 %s %s %s %s" % (k, iv, "%016x" % s2, out), "rdec13:other-seq")
            add("rdec13 %s %s %s %s" % (k16(), iv, s, out), "rdec13:other-key")
            add("rdec13 %s %s %s %s" % (k, r.bytes(12).hex(), s, out), "rdec13:other-iv")
        if w[0] == "enc13" and not out.startswith("ERR"):
            k, iv, s = w[1], w[2], w[3]
            add("dec13 %s %s %s %s" % (k, iv, s, out), "dec13:all-zero-inner:outlen" if w[4] == "0" and set(w[5]) <= set("0-") else "dec13:honest:pad" + ("0" if w[-1] == "0" else "n"))
    return cases


def gen_pad(ctx, env):
    """model-made records with every padding length the receiver allows, and malformed paddings.
    Returns (model-only lines, builder of cbcdec cases from their outputs)."""
    r, add_, mk, k16, seqr, thorough = env
    plan = []
    for L in ([0, 1, 5, 15, 16, 17, 31, 40] if not thorough else list(range(0, 48))):
        base = (16 - (L + 32 + 1) % 16) % 16          # minimal padding_len
        for pad in [p for p in range(base, 256, 16)] + [base + 256]:
            if pad > 255 + 16:
                continue
            m, k, s, iv = mk(), k16(), seqr(), r.bytes(16).hex()
            pl = r.bytes(L)
            typ, ver = r.choice(TYPES), r.choice(VERS)
            hdr3 = "%02x%s" % (typ, ver)
            good = "mk12 %s %s %s %s %s %s %d 0 0" % (m, k, s, hdr3, hexs(pl), iv, pad)
            plan.append((good, (m, k, s, hdr3), "cbcdec:padding=%s" % ("min" if pad == base else ("max" if pad + 16 > 255 else "longer") if pad <= 255 else ">255")))
            if pad <= 255:
                # corrupt: last byte (the length itself), first padding byte, a middle one, last MAC byte, first payload byte
                for pos, cls in [(1, "padlen-byte"), (pad + 1, "first-pad-byte"), (pad // 2 + 1, "mid-pad-byte"), (pad + 2, "mac-last"), (pad + 1 + 32, "mac-first")] + ([(pad + 1 + 32 + 1, "payload-last")] if L else []):
                    if pos == 1 and pad == 0:
                        continue
                    bad = "mk12 %s %s %s %s %s %s %d %d %d" % (m, k, s, hdr3, hexs(pl), iv, pad, pos, 1 << r.below(8))
                    plan.append((bad, (m, k, s, hdr3), "cbcdec:corrupt:" + cls))
    # payloads beyond 2^14 that the receiver's length bound still admits (max 16639), and just beyond
    for L, pad in [(16385, 14), (16623, 0), (16639, 0), (16640, 15), (16655, 0), (16383, 255 - 15)]:
        if (L + 33 + pad) % 16:
            pad += 16 - (L + 33 + pad) % 16
        m, k, s, iv = mk(), k16(), seqr(), r.bytes(16).hex()
        plan.append(("mk12 %s %s %s 170303 %s %s %d 0 0" % (m, k, s, hexs(r.bytes(L)), iv, pad), (m, k, s, "170303"),
                     "cbcdec:oversize:%s" % ("within-bound" if 16 + L + 33 + pad <= 16688 else "beyond-bound")))
    # raw bodies aimed at the `padding < out + 32` guard: the claimed padding reaches into / before the MAC
    for n in (48, 64, 96):
        for pl in (n - 1, n - 16, n - 32, n - 33, n - 34):
            if 0 <= pl <= 255:
                k = k16()
                body = r.bytes(n - pl - 1) + bytes([pl]) * (pl + 1)
                plan.append(("mkraw %s %s %s" % (k, r.bytes(16).hex(), body.hex()), (mk(), k, seqr(), "170303"),
                             "cbcdec:raw:padding-%s" % ("overlaps-mac" if n - pl - 1 < 32 else "leaves-mac")))
    return plan


def gen13(ctx, env):
    r, add_, mk, k16, seqr, thorough = env
    cases = []
    add = lambda line, cell: cases.append((line, cell))
    iv12 = lambda: r.bytes(12).hex()
    big = [16383, 16384]
    lens = list(range(0, 34)) + [255, 256, 257, 4096] + big
    for L in lens:
        pl = r.bytes(L)
        typ = r.choice(TYPES)
        pad = r.choice([0, 0, 1, 7, 15, 16, 17, 127, 255]) if L < 5000 else r.choice([0, 255])
        k, iv, s = k16(), iv12(), seqr()
        cls = "len=%d" % L if L < 34 else ("max" if L >= 16383 else "mid")
        add("enc13 %s %s %s %d %s %d" % (k, iv, s, typ, hexs(pl), pad), "enc13:%s:pad%s" % (cls, "0" if pad == 0 else "n"))
        add("renc13 %s %s %s %02x0303%s%s %d" % (k, iv, s, typ, u16(L), pl.hex(), pad), "renc13:%s:pad%s" % (cls, "0" if pad == 0 else "n"))
        if L <= 4096 or L == 16384:
            add("rt13 %s %s %s %02x0303%s%s %d" % (k, iv, s, typ, u16(L), pl.hex(), pad), "rt13:%s:pad%s" % (cls, "0" if pad == 0 else "n"))
    for pad in (range(0, 256) if thorough else list(range(0, 20)) + [31, 32, 33, 127, 128, 254, 255]):
        L = r.below(40)
        add("rt13 %s %s %s %02x0303%s%s %d" % (k16(), iv12(), seqr(), r.choice(TYPES), u16(L), r.bytes(L).hex(), pad), "rt13:padding=%s" % ("0" if pad == 0 else "1..15" if pad < 16 else "16.."))
    # every content type as the inner type (only 20..23 may be accepted); payload ending in zero bytes
    for typ in range(0, 256, 1 if thorough else 3):
        L = r.below(20)
        pl = r.bytes(L)
        if r.chance(1, 3):
            pl = pl + b"\0" * r.below(5)
        add("rt13 %s %s %s %02x0303%s%s %d" % (k16(), iv12(), seqr(), typ, u16(len(pl)), pl.hex(), r.below(4)), "rt13:type=%s" % ("known" if typ in TYPES else ("zero" if typ == 0 else "other")))
    # all-padding inner plaintext (DESIGN section 5 #21, repaired by 196ee26): content all zero, type 0
    for L, pad in [(0, 0), (0, 5), (3, 0), (16, 16), (1, 255)]:
        add("rt13 %s %s %s 000303%s%s %d" % (k16(), iv12(), seqr(), u16(L), "00" * L, pad), "rt13:all-zero-inner")
        add("enc13 %s %s %s 0 %s %d" % (k16(), iv12(), seqr(), hexs(b"\0" * L), pad), "enc13:all-zero-inner")
    # unprotect on arbitrary bytes
    for n in [0, 1, 15, 16, 17, 31, 32, 33, 100]:
        add("dec13 %s %s %s %s" % (k16(), iv12(), seqr(), hexs(r.bytes(n))), "dec13:garbage:%s" % ("short" if n < 16 else "tag-only" if n == 16 else "body"))
        add("rdec13 %s %s %s 170303%s%s" % (k16(), iv12(), seqr(), u16(n), r.bytes(n).hex()), "rdec13:garbage:%s" % ("short" if n < 16 else "tag-only" if n == 16 else "body"))
    return cases


def gen_neigh(ctx, env):
    """enumerations decided by the property oracle: every listed mutation must be rejected."""
    r, add_, mk, k16, seqr, thorough = env
    cases = []
    add = lambda line, cell: cases.append((line, cell))
    nrec = 30 if not thorough else 120
    for i in range(nrec):
        L = r.choice([0, 1, 15, 16, 17, 31, 32, 33, 47, 48, 100, 255, 256, 600]) if i % 3 else r.below(80)
        stride = 1 if (L <= 100 or thorough) else 7
        typ, ver = r.choice(TYPES), r.choice(VERS)
        pl = r.bytes(L)
        m, k, s, iv = mk(), k16(), seqr(), r.bytes(16).hex()
        rc = rec12(r, typ, ver, pl)
        add("nb12 %s %s %s %s %s %d" % (m, k, s, rc, iv, stride), "nb12:single-bit:%s" % ("exhaustive" if stride == 1 else "stride7"))
        add("tr12 %s %s %s %s %s 0" % (m, k, s, rc, iv), "tr12:truncate-extend")
        sv = int(s, 16)
        others = {(sv + 1) % 2**64, (sv - 1) % 2**64, 0, 1, 2**56 - 1, 2**56, 2**64 - 1, sv ^ (1 << 63)} | {int.from_bytes(r.bytes(8), "big") for _ in range(8)} | {sv ^ (1 << b) for b in range(64)}
        add("sq12 %s %s %s %s %s %s" % (m, k, s, rc, iv, ",".join("%016x" % x for x in others if x != sv)), "sq12:other-seq")
        k, iv12, pad = k16(), r.bytes(12).hex(), r.choice([0, 0, 1, 16, 100])
        rc13 = "%02x0303%s%s" % (typ, u16(L), pl.hex())
        add("nb13 %s %s %s %s %d %d" % (k, iv12, s, rc13, pad, stride), "nb13:single-bit:%s" % ("exhaustive" if stride == 1 else "stride7"))
        add("tr13 %s %s %s %s %d 0" % (k, iv12, s, rc13, pad), "tr13:truncate-extend")
        add("sq13 %s %s %s %s %d %s" % (k, iv12, s, rc13, pad, ",".join("%016x" % x for x in others if x != sv)), "sq13:other-seq")
    # concurrent use on disjoint objects: 2..4 threads protect and unprotect their own records (own keys, own
    # sequence numbers, own buffers, per-thread entropy) at the same time; reference = the same work done one
    # thread after the other; every ciphertext byte and every round trip must come out the same
    for proto in (12, 13):
        for T in (2, 3, 4):
            for sd in range(2 if not thorough else 8):
                add("par %d %d %d %d %d" % (proto, T, 100 * T + sd + ctx.seed % 1000, 80, 3), "par%d:threads=%d" % (proto, T))
    return cases


WRAP = "-Wl,--wrap=tls_record_send,--wrap=tls_record_recv,--wrap=sm2_do_ecdh,--wrap=tls_pre_master_secret_generate,--wrap=tls_record_set_handshake_certificate,--wrap=hkdf_expand,--wrap=tls_uint24array_to_bytes,--wrap=sm2_sign_finish"


def live(ctx):
    """application-data records of a live connection behind the record-manipulating proxy of the C10
    harness: every duplicate / swap / drop / alteration must leave the receiver with a prefix of
    what the peer sent, in order (fault enumeration, decided by the property oracle)."""
    import os
    exe, log = core.build_harness("C11live", "asan", sources=[os.path.join(core.ROOT, "props", "C10", "harness.c")], extra=WRAP)
    if exe is None:
        core.harness_build_failed(ctx, log); return
    r = ctx.rng
    thorough = ctx.tier == "thorough"
    fields = lambda line: dict(f.split("=", 1) for f in line.split(" ") if "=" in f)
    protos = ["tlcp", "tls12", "tls13"]
    seed = 31 + ctx.seed % 1000
    # what each side sends after the handshake: default (library send functions), empty records first /
    # in the middle (record-level sender with the connection's keys; tls13_send itself for TLS 1.3),
    # maximum-size records, TLS 1.3 records with padding (also an all-padding-but-type empty one)
    plans = {p: ["d", "x0,16,16", "x16,0,16", "16384,16", "x16384,0,16384"] for p in protos}
    plans["tls13"] += ["0,16,16", "16:100,0:255,16:1", "16384:255,16"]
    configs = [(p, pl) for p in protos for pl in plans[p]]
    louts, _ = core.run_lines(exe, ["layout %s 0 %d %s" % (p, seed, pl) for (p, pl) in configs], shards=8)
    cases = []
    for (p, pl), lo in zip(configs, louts):
        ctx.cov["evaluations"] += 1
        f = fields(lo) if "=" in lo else {}
        np = int(f.get("np", "0") or 0)
        cellp = "live:%s:%s" % (p, "default" if pl == "d" else ("empty" if ("x0" in pl or ",0" in pl or pl.startswith("0")) and ":" not in pl else ("padded" if ":" in pl else "max-size")))
        okseq = True
        if f.get("okc") == "1" and f.get("oks") == "1":
            # lockstep observed: after the honest exchange both structs hold the same counters, advanced once per record
            base = 0 if p == "tls13" else 1
            want = "%04x:%04x" % (base + np, base + np)
            okseq = f.get("seqc") == want and f.get("seqs") == want
        if f.get("okc") != "1" or f.get("oks") != "1" or not okseq:
            ctx.violation(cellp + ":baseline", "fault-free exchange of application records (%s) does not work or leaves the sequence numbers out of step: %s" % (pl, lo[:260]),
                          {"kind": "failing-input", "op": "layout %s 0 %d %s" % (p, seed, pl), "impl": lo[:800], "harness": "props/C10/harness.c"}); continue
        ctx.cell(cellp + ":baseline")
        lay = [f["c2s"].split(","), f["s2c"].split(",")]
        for d in (0, 1):
            first = len(lay[d]) - np                      # the application records come last
            for i in range(first, first + np):
                ln = int(lay[d][i].split(":")[1])
                if pl == "d":
                    for off in sorted({5, 5 + 15, 5 + 16, ln // 2, ln - 17, ln - 1}):
                        cases.append(("fault %s 0 %d flip %d %d %d %d 0 %s" % (p, seed, d, i, off, r.below(8), pl), cellp + ":flip"))
                    cases.append(("fault %s 0 %d trunc-fixlen %d %d 0 0 %d %s" % (p, seed, d, i, ln - 16, pl), cellp + ":truncate"))
                else:
                    cases.append(("fault %s 0 %d flip %d %d %d %d 0 %s" % (p, seed, d, i, ln - 1, r.below(8), pl), cellp + ":flip"))
                for kind in ("drop", "dup", "swap"):
                    cases.append(("fault %s 0 %d %s %d %d 0 0 0 %s" % (p, seed, kind, d, i, pl), cellp + ":" + kind))
    # ---- records of another content type than application data, authentic (protected with the connection's own keys
    # and sequence numbers by the peer): ChangeCipherSpec, Alert, Handshake (for TLS 1.3: the inner type; e.g. a
    # KeyUpdate), heartbeat / unknown types.  None of them may ever come out of tls_recv / tls13_recv as data, neither
    # at once nor at a later call; the application messages around them arrive in order.  An unknown type is
    # refused by unprotection itself (the sequence number then stays), so it is placed last.
    typed = []
    for p in protos:
        for t, ln in ((20, 1), (21, 2), (22, 5), (22, 300)):
            for spec in ("x%dt%d,16,16" % (ln, t), "x16,%dt%d,16" % (ln, t), "x16,16,%dt%d" % (ln, t)):
                typed.append((p, spec, "known-type-%d" % t))
        for t in (24, 99, 0, 255):
            typed.append((p, "x16,16,4t%d" % t, "unknown-type"))
        if p == "tls13":
            typed += [(p, "x16,2:7t21,16", "known-type-21"), (p, "x16,5:255t22,16", "known-type-22"), (p, "16,2t21,16", "known-type-21")]
    touts, _ = core.run_lines(exe, ["layout %s 0 %d %s" % (p, seed + 1, spec) for (p, spec, _) in typed], shards=12)
    stalled = [i for i, o in enumerate(touts) if "pc=-99" in o and "ps=-99" in o]
    if stalled:
        again, _ = core.run_lines(exe, ["layout %s 0 %d %s" % (typed[i][0], seed + 1, typed[i][1]) for i in stalled], shards=1)
        for i, o in zip(stalled, again):
            touts[i] = o
    for (p, spec, cls), out in zip(typed, touts):
        ctx.cov["evaluations"] += 1
        ctx.count("op:live")
        line = "layout %s 0 %d %s" % (p, seed + 1, spec)
        cell = "live:%s:other-content-type:%s" % (p, cls)
        rep = {"kind": "failing-input", "op": line, "impl": out[:600], "variant": "asan", "harness": "props/C10/harness.c"}
        f = fields(out) if "=" in out else {}
        if out.startswith("FAULT") or not f:
            ctx.violation(cell + ":harness", "harness error / crash %s [%s]" % (out[:80], line), rep); continue
        if f.get("rc") != "1" or f.get("rs") != "1":
            ctx.violation(cell + ":baseline", "handshake does not complete [%s] -> %s" % (line, out[:200]), rep); continue
        napp = int(f.get("napp", "0"))
        for side in ("accc", "accs"):
            acc = f[side].split(":")
            if int(acc[0]) > napp or acc[1] != "0":
                key = "live:tls13_recv:non-appdata-inner-type-delivered" if p == "tls13" else "live:tls_recv:non-appdata-record-delivered-by-next-recv"
                ctx.violation(key, "an authentic record of another content type than application data (%s) came out of the receive function as application data: %s deliveries for %d application messages, deviating=%s [%s] -> %s" % (spec, acc[0], napp, acc[1], line, out[:220]), rep)
                break
            if int(acc[0]) < napp:
                ctx.violation(cell + ":application-data-lost", "application messages around a record of another content type did not all arrive (%s of %d) [%s] -> %s" % (acc[0], napp, line, out[:220]), rep)
                break
        else:
            ctx.cell(cell + ":never-delivered")
    # ---- every bit of the five header bytes of a protected application record, on the wire.  TLCP / TLS 1.2
    # authenticate type, version and (through the MAC'd plaintext length and the framing) length: every flip must
    # be noticed.  TLS 1.3 authenticates the length only: a flip in the outer type / version bytes may pass, but
    # then exactly the sent data must arrive.
    hcases = []
    for p in protos:
        for d in (0, 1):
            lo = next((o for (pp, pl), o in zip(configs, louts) if pp == p and pl == "d"), "")
            f = fields(lo) if "=" in lo else {}
            if "c2s" not in f:
                continue
            lay = [f["c2s"].split(","), f["s2c"].split(",")]
            i = len(lay[d]) - int(f.get("np", "2"))
            for pos in range(5):
                for bit in range(8):
                    if thorough or d == 0 or bit % 2 == (pos % 2):
                        hcases.append(("fault %s 0 %d flip %d %d %d %d 0 d" % (p, seed, d, i, pos, bit), "live:%s:header-bit:%s" % (p, ("type", "version-major", "version-minor", "length-hi", "length-lo")[pos]), p, pos))
    houts, _ = core.run_lines(exe, [c[0] for c in hcases], shards=16)
    stalled = [i for i, o in enumerate(houts) if "applied=0" in o and "pc=-99" in o and "ps=-99" in o]
    if stalled:
        again, _ = core.run_lines(exe, [hcases[i][0] for i in stalled], shards=1)
        for i, o in zip(stalled, again):
            houts[i] = o
    for (line, cell, p, pos), out in zip(hcases, houts):
        ctx.cov["evaluations"] += 1
        ctx.count("op:live")
        rep = {"kind": "failing-input", "op": line, "impl": out[:600], "variant": "asan", "harness": "props/C10/harness.c"}
        if out.startswith("FAULT") or "=" not in out:
            ctx.violation(cell + ":harness", "harness error / crash %s [%s]" % (out[:80], line), rep); continue
        f = fields(out)
        d = int(line.split()[5])
        acc = f["accs" if d == 0 else "accc"].split(":")
        np_ = int(f["np"])
        if f["applied"] != "1":
            ctx.violation(cell + ":fault-not-applied", "the proxy did not see the record to manipulate [%s] -> %s" % (line, out[:160]), rep); continue
        if acc[1] != "0":
            ctx.violation(cell + ":accepted-altered", "after a header bit of a protected record was flipped the receiver accepted data its peer did not send [%s] -> %s" % (line, out[:200]), rep)
        elif int(acc[0]) == np_:
            if p == "tls13" and pos < 3:
                ctx.cell(cell + ":unauthenticated-byte:data-intact")
            else:
                ctx.violation(cell + ":fault-not-noticed", "all %d messages were accepted although an authenticated header bit was flipped [%s] -> %s" % (np_, line, out[:200]), rep)
        else:
            ctx.cell(cell + ":prefix-%s-of-%d" % (acc[0], np_))
    outs, _ = core.run_lines(exe, [c[0] for c in cases], shards=16)
    # a handshake that did not even start its post-handshake phase although the fault concerns application records
    # only (a stall of the endpoint threads on a loaded machine) is run once more, alone: a property of the
    # library repeats (entropy and clock are scripted), a scheduling stall does not
    stalled = [i for i, o in enumerate(outs) if "applied=0" in o and "pc=-99" in o and "ps=-99" in o]
    if stalled:
        again, _ = core.run_lines(exe, [cases[i][0] for i in stalled], shards=1)
        for i, o in zip(stalled, again):
            outs[i] = o
        ctx.notes.append("%d live case(s) repeated alone after a stalled handshake" % len(stalled))
    for (line, cell), out in zip(cases, outs):
        ctx.cov["evaluations"] += 1
        ctx.count("op:live")
        rep = {"kind": "failing-input", "op": line, "impl": out[:600], "variant": "asan", "harness": "props/C10/harness.c"}
        proto = line.split()[1]
        if out.startswith("FAULT"):
            ctx.violation("live:%s:recv-after-rejected-record" % proto, "after an application record was rejected, the next receive call on the same connection crashed (%s): conn->datalen keeps the unauthenticated length [%s]" % (out[:60], line), rep); continue
        if "=" not in out:
            ctx.violation(cell + ":harness", "harness error %s [%s]" % (out[:60], line), rep); continue
        f = fields(out)
        d = int(line.split()[5])
        acc = f["accs" if d == 0 else "accc"].split(":")     # receiver of the manipulated direction
        np = int(f["np"])
        if f["applied"] != "1":
            if "swap" in line:
                continue                                     # swap of the very last record: nothing follows it
            ctx.violation(cell + ":fault-not-applied", "the proxy did not see the record to manipulate [%s] -> %s" % (line, out[:160]), rep); continue
        if acc[1] != "0":
            ctx.violation(cell + ":accepted-out-of-order-or-altered", "the receiver accepted application data that is not the next message its peer sent (replayed / reordered / altered / stale) [%s] -> %s" % (line, out[:200]), rep)
        elif "dup" in line.split()[4]:
            # the copy must be refused by one receive call; the genuine records may go on afterwards
            rets = f["retss" if d == 0 else "retsc"].split(",")
            if not any(x not in ("1",) for x in rets[:int(acc[0]) + 1]):
                ctx.violation(cell + ":replay-accepted", "a duplicated record was not refused [%s] -> %s" % (line, out[:200]), rep)
            else:
                ctx.cell(cell + ":copy-refused")
        elif int(acc[0]) == np:
            ctx.violation(cell + ":fault-not-noticed", "all %d messages were accepted although a record was manipulated [%s] -> %s" % (np, line, out[:200]), rep)
        else:
            ctx.cell(cell + ":prefix-%s-of-%d" % (acc[0], np))


def oracle(line, a, b):
    """property oracle on top of impl == model."""
    op = line.split(" ", 1)[0]
    if a.startswith("OUTLEN-EXCEEDS-INPUT"):
        return "unprotect reported a length larger than the ciphertext"
    if op in ("nb12", "nb13", "tr12", "tr13", "sq12", "sq13"):
        return None if a == "REJECTS-ALL" else "a mutated / misplaced record was accepted (%s)" % a
    if op == "par":
        return None if a.startswith("SAME ") else "protecting / unprotecting records on disjoint objects from several threads at once does not give the results of doing it one after the other (%s)" % a
    if a.startswith("ERR outlen=") and int(a.split("=")[1], 16) != 0:
        return "unprotect failed but left %s in *outlen; tls13_do_recv keeps it in conn->datalen" % a.split("=")[1]
    if a != b:
        return "implementation differs from the model"
    return None


def run(ctx):
    import os
    os.environ.setdefault("VERIF_OP_TIMEOUT", "120")   # per-operation watchdog of harness/common.h: a blocked peer becomes FAULT for that op
    ctx.check_proofs()
    model, log = core.build_model("C11")
    if model is None:
        ctx.violation("correspondence:model-build", "extracted model does not build: " + log[-500:], {"kind": "correspondence", "log": log[-3000:]}, False)
        return finish(ctx)
    variants = ["asan"] if ctx.tier == "quick" else ["asan", "small"]
    w1, env = gen(ctx)
    w13 = gen13(ctx, env)
    wave1 = w1 + w13
    # honest ciphertexts for the second wave come from the model (wave 1 compares them with the implementation)
    outs, _ = core.run_lines(model, [c[0] for c in wave1])
    honest = [(c[0], o) for c, o in zip(wave1, outs) if c[0].split(" ", 1)[0] in ("recenc", "cbcenc", "renc13", "enc13")]
    sel = []
    for (l, o) in honest:
        w = l.split()
        plen = len(w[4]) // 2
        if w[0] in ("cbcenc", "enc13") or plen < 5000 or plen >= 16384 + 5:
            sel.append((l, o))
    wave2 = gen2(ctx, env, sel)
    plan = gen_pad(ctx, env)
    pouts, _ = core.run_lines(model, [p[0] for p in plan])
    for (line, (m, k, s, hdr3), cell), o in zip(plan, pouts):
        if not o.startswith("ERR") and not o.startswith("MODEL"):
            wave2.append(("cbcdec %s %s %s %s0000 %s" % (m, k, s, hdr3, o), cell))
    neigh = gen_neigh(ctx, env)
    cases = wave1 + wave2 + neigh
    # stable key for the known all-padding defect
    def allzero13(l):
        w = l.split()
        return w[0] == "rt13" and w[4][:2] == "00" and set(w[4][10:]) <= set("0")
    cases = [(l, ("dec13:all-zero-inner:outlen" if allzero13(l) else c)) for (l, c) in cases]
    for v in variants:
        exe, log = core.build_harness("C11", v)
        if exe is None:
            core.harness_build_failed(ctx, log)
            continue
        core.differential(ctx, cases, exe, model, variant=v, oracle=oracle)
    live(ctx)
    return finish(ctx)


def replay(path):
    import json, os
    r = json.load(open(path)); op = r.get("replay", {}).get("op")
    if not op:
        print("replay names a proof obligation / relation, not an input:", json.dumps(r.get("replay"))[:1000]); return 0
    if op.split(" ", 1)[0] in ("fault", "layout"):
        exe, log = core.build_harness("C11live", "asan", sources=[os.path.join(core.ROOT, "props", "C10", "harness.c")], extra=WRAP)
        if exe is None:
            print(log[-2000:]); return 1
        a, err = core.run_lines(exe, [op], shards=1, env={"VERIF_STDERR": "1"})
        print("op:  ", op); print("impl:", a[0]); print("stderr:", err[-1500:]); return 0
    return core.replay("C11", path)


def finish(ctx):
    ctx.assumptions = [
        "SM4 block function = Cipher/SM4.v (C04 ties it to src/sm4.c); its inversion law is a premise of the CBC round-trip theorem unless discharged in Props",
        "SM4-GCM seal/open on the model side = Tls/Gcm13.v (SP 800-38D transcription pinned by the RFC 8998 vector); the theorems about TLS 1.3 records are stated for any AEAD with open(seal) = Some",
        "'rejects every single-bit change / other sequence number' is a theorem only as a decision rule (accept => recomputed MAC/tag equals the presented one); the nb*/tr*/sq* ops are fault ENUMERATION on the implementation (test support), decided by the property oracle",
        "a regression of the repaired defects (#21 *outlen on failure; conn->datalen after a rejected record) is a violation: no alternative behaviour is accepted",
        "tls13_gcm_encrypt precondition padding_len <= 255 (mbuf = malloc(inlen+256)) is not exercised beyond 255",
    ]
    return ctx.finish(level="proof",
                      rule="cases = unit ops on tls_cbc_encrypt/decrypt, tls_record_encrypt/decrypt, tls13_gcm_encrypt/decrypt, tls13_record_encrypt/decrypt, tls_seq_num_incr at payload lengths 0..49, 63..65, 255..257, 4095..4097, 16367..16384(+1), paddings 0..255, every content type, garbage of every structural length class; second wave on honest ciphertexts: flips in type/version/iv/body/mac/padding/tag, truncations, extensions, other sequence numbers, other keys; third wave: exhaustive single-bit / truncation / sequence-number neighbourhoods (oracle: must reject). cell = (op, class, ok|ERR)",
                      trusted=core.TRUSTED_COMMON + ["Coq files: Tls/Record12.v Record13.v Gcm13.v RecordInst.v (models), Tls/Record12Proofs.v Record13Proofs.v (proofs), Cipher/SM4.v, Hash/*"])
