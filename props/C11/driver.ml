(* C11 model driver: evaluates the extracted record-layer Impl models. *)
let hx = hex_of_bytes
let b = bytes_of_hex
let opt r = match r with Some o -> hx o | None -> "ERR"
let ivopt s = if s = "x" then None else Some (b s)
let d13 r = match r with
  | Dec13Ok (t, c) -> Printf.sprintf "%d %s" (int_of_n t) (hx c)
  | Dec13Err None -> "ERR"
  | Dec13Err (Some v) -> "ERR outlen=" ^ hex_of_bign v      (* the value the call leaves in *outlen *)
let rd13 r = match r with
  | Dec13Ok (t, c) -> hx (record13_plain t c)
  | Dec13Err None -> "ERR"
  | Dec13Err (Some v) -> "ERR outlen=" ^ hex_of_bign v
let rec iter n f x = if n <= 0 then x else iter (n - 1) f (f x)

let handle ws = match ws with
  | ["cbcenc"; mk; ek; seq; hdr; pl; iv] -> opt (cbc12_encrypt (b mk) (b ek) (b seq) (b hdr) (b pl) (ivopt iv))
  | ["cbcdec"; mk; ek; seq; hdr; ct] -> opt (cbc12_decrypt (b mk) (b ek) (b seq) (b hdr) (b ct))
  | ["recenc"; mk; ek; seq; rc; iv] -> opt (record12_encrypt (b mk) (b ek) (b seq) (b rc) (ivopt iv))
  | ["recdec"; mk; ek; seq; rc] -> opt (record12_decrypt (b mk) (b ek) (b seq) (b rc))
  | ["enc13"; k; iv; seq; ty; pl; pad] ->
    opt (gcm13_encrypt (b k) (b iv) (b seq) (n_of_int (int_of_string ty)) (b pl) (nat_of_int (int_of_string pad)))
  | ["dec13"; k; iv; seq; ct] -> d13 (gcm13_decrypt (b k) (b iv) (b seq) (b ct))
  | ["renc13"; k; iv; seq; rc; pad] ->
    opt (record13_encrypt (b k) (b iv) (b seq) (b rc) (nat_of_int (int_of_string pad)))
  | ["rdec13"; k; iv; seq; rc] -> rd13 (record13_decrypt (b k) (b iv) (b seq) (b rc))
  | ["seqincr"; seq; n] -> hx (iter (int_of_string n) seq_num_incr (b seq))
  (* round trip through the model alone: protect then unprotect *)
  | ["rt12"; mk; ek; seq; rc; iv] ->
    (match record12_encrypt (b mk) (b ek) (b seq) (b rc) (ivopt iv) with
     | None -> "ERR"
     | Some e -> opt (record12_decrypt (b mk) (b ek) (b seq) e))
  | ["rt13"; k; iv; seq; rc; pad] ->
    (match record13_encrypt (b k) (b iv) (b seq) (b rc) (nat_of_int (int_of_string pad)) with
     | None -> "ERR"
     | Some e -> rd13 (record13_decrypt (b k) (b iv) (b seq) e))
  (* model-only: a record body with a chosen padding (length pad+1, every byte = pad) and
     optionally one byte of payload||mac||padding xored (pos counted from the end, 0 = none) *)
  | ["mk12"; mk; ek; seq; hdr3; pl; iv; pad; pos; x] ->
    let payload = b pl and padn = int_of_string pad in
    let header = b hdr3 @ [n_of_int (List.length payload / 256 mod 256); n_of_int (List.length payload mod 256)] in
    let m = hmac_chunks (b mk) [b seq; header; payload] in
    let body = payload @ m @ List.init (padn + 1) (fun _ -> n_of_int padn) in
    let len = List.length body and p = int_of_string pos and xv = int_of_string x in
    let body = if p = 0 then body else List.mapi (fun i v -> if i = len - p then n_of_int ((int_of_n v) lxor xv) else v) body in
    if len mod 16 <> 0 then "ERR misaligned" else hx (cbc12_seal_raw (b ek) (b iv) body)
  | ["mkraw"; ek; iv; body] -> hx (cbc12_seal_raw (b ek) (b iv) (b body))
  (* neighbourhood enumerations are decided by the property oracle ("must reject");
     the model side only restates the expected verdict *)
  | "nb12" :: _ | "nb13" :: _ | "tr12" :: _ | "tr13" :: _ | "sq12" :: _ | "sq13" :: _ -> "REJECTS-ALL"
  | ["par"; _; t; _; n; r] -> "SAME " ^ string_of_int (int_of_string t * int_of_string n * int_of_string r)
  | _ -> "ERR bad-op"

let () = main_loop handle
