"""C19 — secret material never appears on diagnostic channels.

(a) table: tools/diag_sites.py regenerates coq/Gen/DiagSitesTable.v (every call that writes to
    stderr/stdout in the default configuration, classified ErrLine/Const/Data with the provenance of
    its arguments); instance theorem `no_unguarded_data_site` re-proved over it by coqc; failing
    rows are named per call site.
(b) model theorems: Props/Properties_C19.v (noninterference of the diagnostic stream).
(c) runtime: fds 1 and 2 captured around each secret-handling operation (success, entropy-failure
    and induced-failure paths), searched for raw/hex encodings of every secret the harness knows."""
import os, re, sys, time
from vlib import core
sys.path.insert(0, os.path.join(core.ROOT, "tools"))
import diag_sites, tablecheck

EXTRA = "-I" + os.path.join(core.ROOT, "props", "C18")
OPS = ["sm2_keygen", "sm2_sign", "sm2_sign_ctx", "sm2_encrypt", "sm2_ecdhe", "sm9_sign", "sm9_encrypt", "sm9_exchange",
       "pkcs8", "pkcs8_wrongpass", "x509_sign", "cms_sign", "cms_envelop", "cms_encrypt", "tls_cbc", "tls_cbc_badmac",
       "tls_record", "tls_random", "tls_pms", "tls13_gcm"]
HEAVY = {"sm9_sign", "sm9_encrypt", "sm9_exchange", "pkcs8", "pkcs8_wrongpass"}
# which table row a runtime leak of a given op belongs to (site key); others are reported as leak:<op>:<secret>
SITE_OF_OP = {"hexodd": "site:hex.c:hex2bin:fprintf", "fpprint:tls_secrets_print": "site:tls_trace.c:tls_secrets_print:format_bytes",
              "fpprint:gf128_print": "site:gf128.c:gf128_print:printf"}
try:
    sys.path.insert(0, os.path.join(core.ROOT, "props", "C18"))
    import tlsrun                                            # optional in-process handshakes (shared with C18)
except Exception:                                            # pragma: no cover
    tlsrun = None


def table_part(ctx):
    t0 = time.time()
    rows, stats = diag_sites.table(core.REPO, core.BUILD, "asan")
    diag_sites.emit(rows, os.path.join(core.COQ, "Gen", "DiagSitesTable.v"))
    hist = {}
    for r in rows:
        k = "%s/%s/%s" % (r["cls"], r["prov"], "print-routine" if r["inpr"] else "other")
        hist[k] = hist.get(k, 0) + 1
        ctx.cell("table:" + k)
    ctx.cov["site_histogram"] = hist
    ctx.cov["implicit_printers"] = stats.get("implicit_printers")
    ctx.notes.append("diag table: %d sites, %s, %.1fs" % (len(rows), {k: stats[k] for k in ("files", "cached", "parsed")}, time.time() - t0))
    res = tablecheck.run("C19", "DiagSitesTable", "diag_sites", "(fun d => (diag_key d ++ \"@\" ++ d_args d)%string)", "diag_ok", "no_unguarded_data_site",
                         "forall d, In d diag_sites -> d_class d = Data -> d_in_print_routine d = false -> d_prov d = Public",
                         "diag_table_sound")
    ctx.cov["obligations"] += 1
    ctx.cov.setdefault("theorems", []).append({"name": "no_unguarded_data_site (instance over coq/Gen/DiagSitesTable.v, %s rows)" % res["rows"],
                                               "assumptions": [] if res["closed"] else None})
    ctx.cov["evaluations"] += len(rows)
    failing = []
    if res["proved"] and res["closed"] and res["failing"] == []:
        ctx.cov["discharged"] += 1
        ctx.cell("table:no_unguarded_data_site:proved")
    elif res["failing"] is None:
        ctx.violation("table:diag-check", "the table check file did not compile: " + res["log"][-600:],
                      {"kind": "proof", "theorem_or_file": "no_unguarded_data_site over coq/Gen/DiagSitesTable.v", "detail": res["log"][-2000:]}, False)
    else:
        keys = set(k.split("@")[0] for k in res["failing"])
        failing = [r for r in rows if "%s:%s:%s" % (r["file"], r["fn"], r["callee"]) in keys and r["cls"] == "Data" and not r["inpr"] and r["prov"] != "Public"]
    return failing


def printers_part(ctx):
    """wave 3: an explicit print shows the object it is given and nothing else — every public (buffer, length) printer,
    enumerated from the AST, on objects whose inner lengths claim more than the buffer holds; adjacent secret region
    (for TLS records: the layout of a live TLS_CONNECT) must not appear in the output, exact-size blocks must not be over-read."""
    import printers
    t0 = time.time()
    pr = printers.printers(core.REPO, core.BUILD, "asan")
    g = os.path.join(core.BUILD, "gen_c19")
    os.makedirs(g, exist_ok=True)
    printers.emit(pr, os.path.join(g, "printers.h"))
    exe, log = core.build_harness("C19pr", "asan", sources=[os.path.join(core.ROOT, "props", "C19", "pr_harness.c")],
                                  extra="-I%s -I%s" % (os.path.join(core.ROOT, "props", "C18"), g))
    if exe is None:
        ctx.violation("printers:harness-build", "printer harness does not build against the current tree: " + log[-500:], {"kind": "correspondence", "log": log[-3000:]}, False)
        return
    sd = ctx.rng.below(10**6)
    lines = [("printer %s %d %d" % (fam, i, sd), n) for fam in ("A", "B", "C") for i, n in enumerate(pr[fam])]
    lines += [("printer S %d %d" % (i, sd), n) for i, (n, ty) in enumerate(pr["S"])]
    outs, err = core.run_lines(exe, [l[0] for l in lines], shards=4, env={"VERIF_STDERR": "1"})   # keep the sanitizer report: it names the fault
    other = []
    for (line, name), o in zip(lines, outs):
        ctx.cov["evaluations"] += 1
        ctx.count("printer")
        if o.startswith("CLEAN"):
            ctx.cell("printer:%s:%s" % (line.split()[1], "prints" if "printed=0" not in o else "silent"))
        elif o.startswith("STDOUT"):
            ctx.violation("printer-stream:" + name, "%s() was handed a FILE* and wrote to stdout instead: `%s` -> %s" % (name, line, o[:160]),
                          {"kind": "failing-input", "op": line, "impl": o, "expected": "CLEAN (all output on the designated FILE*)", "variant": "asan"}, True)
        elif o.startswith("SKIP"):
            ctx.cov.setdefault("printers_not_exercised", []).append(name)
        elif o.startswith("LEAK") or o.startswith("FAULT asan:heap-buffer-overflow") or o.startswith("FAULT asan:stack-buffer-overflow") or o.startswith("FAULT asan:global-buffer-overflow"):
            ctx.violation("printer:" + name, "%s() prints memory beyond the (buffer, length) it was given when an inner length field claims more than the buffer holds: `%s` -> %s" % (
                name, line, o[:200]), {"kind": "failing-input", "op": line, "impl": o, "expected": "CLEAN (only bytes of the object itself are printed)", "variant": "asan",
                                       "stderr": err[-1500:] if o.startswith("FAULT") else ""}, True)
        else:
            other.append("%s: %s" % (name, o[:80]))
    ctx.cov["printer_crashes_not_overreads"] = other
    if other:
        ctx.notes.append("printers that crash without over-reading (memory-safety findings of C06, not C19): " + "; ".join(other))
    ctx.notes.append("printers: %d public printers (%s; A/B/C x ~850 inputs each, S on a valid object) in %.1fs" % (len(lines), {k: len(v) for k, v in pr.items()}, time.time() - t0))
    # ---- wave 5: format-string / length audit of every print / trace / format routine (static and struct-taking ones included)
    arows, ast = printers.audit(core.REPO, core.BUILD, "asan")
    printers.emit_audit(arows, os.path.join(core.COQ, "Gen", "PrintAuditTable.v"))
    res = tablecheck.run("C19", "PrintAuditTable", "print_calls", "(fun c => (print_call_key c ++ \"@\" ++ pc_detail c)%string)", "print_call_ok", "print_calls_audited",
                         "forall c, In c print_calls -> pc_fmt_literal c = true /\\ pc_nargs_ok c = true /\\ pc_str_ok c = true /\\ pc_len c <> LenExceeds", "print_audit_sound")
    ctx.cov["obligations"] += 1
    ctx.cov["theorems"].append({"name": "print_calls_audited (instance over coq/Gen/PrintAuditTable.v, %s rows, %d print routines)" % (res["rows"], len(ast["print_functions"])),
                                "assumptions": [] if res["closed"] else None})
    ctx.cov["evaluations"] += len(arows)
    for r_ in arows:
        ctx.cell("audit:%s:%s" % (r_["callee"], r_["len"]))
    if res["proved"] and res["closed"] and res["failing"] == []:
        ctx.cov["discharged"] += 1
    elif res["failing"] is None:
        ctx.violation("table:print-audit-check", "the table check file did not compile: " + res["log"][-600:], {"kind": "proof", "theorem_or_file": "print_calls_audited", "detail": res["log"][-2000:]}, False)
    else:
        for r_ in arows:
            if not printers.audit_ok(r_):
                ctx.violation("audit:%s:%s:%s" % (r_["file"], r_["fn"], r_["callee"]), "%s:%d %s() calls %s with a format / length that does not pass the audit: %s" % (
                    r_["file"], r_["line"], r_["fn"], r_["callee"], r_["detail"]), {"kind": "table-row", "theorem_or_file": "print_calls_audited over coq/Gen/PrintAuditTable.v", "row": r_}, False)


def cases(ctx):
    r = ctx.rng
    thorough = ctx.tier == "thorough"
    out = []
    for op in OPS:
        seeds = [r.below(10**6) for _ in range(1 if (op in HEAVY and not thorough) else (2 if not thorough else 5))]
        for sd in seeds:
            out.append(("diag %s %d -1" % (op, sd), "diag:%s:success" % op))
        fails = [0, 1] if not thorough else list(range(0, 6)) + [31, 32, 33]
        if op in HEAVY and not thorough:
            fails = [0]
        for i in fails:
            out.append(("diag %s %d %d" % (op, r.below(10**6), i), "diag:%s:entropy-failure" % op))
    for _ in range(2 if not thorough else 10):
        out.append(("hexodd %d" % r.below(10**6), "diag:hexodd:induced-failure"))
    for pr in ("tls_secrets_print", "gf128_print", "sm2_key_print", "tls_pre_master_secret_print"):
        out.append(("fpprint %s %d" % (pr, r.below(10**6)), "diag:fpprint:%s" % pr))
    return out


def run(ctx):
    ctx.check_proofs()
    lib, log = core.build_lib("asan")                        # the translators read the source list from its build.ninja
    if lib is None:
        core.harness_build_failed(ctx, log)
        return ctx.finish(level="proof", rule="library build failed")
    failing = table_part(ctx)
    leaks = {}
    exe, log = core.build_harness("C19", "asan", extra=EXTRA)
    if exe is None:
        core.harness_build_failed(ctx, log)
    else:
        cs = cases(ctx)
        t0 = time.time()
        outs, err = core.run_lines(exe, [c[0] for c in cs], shards=4)
        ctx.notes.append("runtime: %d captured operations in %.1fs" % (len(cs), time.time() - t0))
        for (line, cell), o in zip(cs, outs):
            ctx.cov["evaluations"] += 1
            op = line.split()[1] if line.startswith("diag") else line.split()[0]
            ctx.count("op:" + op)
            if o.startswith("CLEAN"):
                rc = re.search(r"rc=(-?\d+)", o).group(1)
                ctx.cell(cell + (":ok" if rc == "1" else ":ERR"))
                if len(ctx.cov["samples"]) < 8 and "captured=0" not in o:
                    ctx.sample({"op": line, "result": o[:120]})
            elif o.startswith("LEAK"):
                m = re.search(r"secret=(\S+) enc=(\S+)", o)
                opk = op if op != "fpprint" else "fpprint:" + line.split()[1]
                key = SITE_OF_OP.get(opk, "leak:%s:%s" % (opk, m.group(1)))
                leaks.setdefault(key, (line, o))
            else:
                ctx.violation("runtime:" + cell, "capture harness failed on `%s`: %s" % (line, o[:200]),
                              {"kind": "failing-input", "op": line, "impl": o, "expected": "CLEAN", "variant": "asan", "stderr": err[-1500:]}, True)
    printers_part(ctx)
    if tlsrun is not None:
        try:
            tlsrun.c19_handshakes(ctx, leaks)
        except Exception as e:                               # pragma: no cover
            ctx.notes.append("handshake capture not run: %r" % (e,))
    else:
        ctx.notes.append("handshakes (3 protocols x 2 roles) are not captured here; their sites are decided by the table only")
    reported = set()
    for r in failing:
        key = "site:%s:%s:%s" % (r["file"], r["fn"], r["callee"])
        if key in reported:
            continue
        reported.add(key)
        hit = leaks.get(key)
        if hit is None and tlsrun is not None:
            # an observation made on a live connection under a treatment that exercises this function
            for lk, fns in tlsrun.HINTS.items():
                if r["fn"] in fns and lk in leaks and lk not in reported:
                    hit = leaks[lk]; reported.add(lk)
                    break
        text = "%s:%d %s() passes %s data [%s] to %s on %s outside any print routine" % (
            r["file"], r["line"], r["fn"], r["prov"].lower(), r["args"], r["callee"], r["stream"])
        if hit:
            ctx.violation(key, text + "; observed: `%s` -> %s" % (hit[0], hit[1][:160]),
                          {"kind": "failing-input", "op": hit[0], "impl": hit[1], "expected": "CLEAN (no window of any secret on fd 1/2)", "variant": "asan", "row": r}, True)
        else:
            ctx.violation(key, text, {"kind": "table-row", "theorem_or_file": "no_unguarded_data_site over coq/Gen/DiagSitesTable.v", "row": r}, False)
    for key, (line, o) in leaks.items():
        if key not in reported:
            ctx.violation(key, "secret observed on a diagnostic channel: `%s` -> %s" % (line, o[:200]),
                          {"kind": "failing-input", "op": line, "impl": o, "expected": "CLEAN (no window of any secret on fd 1/2)", "variant": "asan"}, True)
    ctx.assumptions = [
        "the noninterference theorems are about the model of coq/Sys/Diag.v; the tie to the code is the regenerated site table (translator trusted) plus the runtime capture",
        "provenance of a Data site's arguments is decided by tools/diag_sites.py from argument types and names (integers that are not buffer elements, error-code texts and objects given to x509_/asn1_ printers are Public; names matching secret|master|key|priv|pass|plaintext|iv|seed are Secret; anything else Unknown and reported)",
        "the runtime search knows only the secrets the harness registered (private keys in big-endian and in-memory limb form, shared secrets, passwords, symmetric keys, IVs of TLS 1.3, plaintexts); windows of 8 bytes, raw and hex of either case with separators removed",
    ]
    return ctx.finish(level="proof",
                      rule="table rows = every stderr/stdout write of the default configuration, each checked by the Coq predicate diag_ok; runtime cells = (operation, success | entropy-failure | induced-failure path, ok|ERR) with clean capture",
                      trusted=core.TRUSTED_COMMON + ["translator tools/cast.py, tools/diag_sites.py, tools/tablecheck.py (clang 14 JSON AST); Coq files Sys/Diag.v, Sys/Tables.v, generated Gen/DiagSitesTable.v",
                                                     "props/C19/harness.c capture of fds 1 and 2 through dup2 to an unlinked temporary file; props/C18/sysops.h operation wrappers"])


def replay(path):
    import sysreplay
    return sysreplay.replay(path)
