/* C19 wave 3: an explicitly requested print may show the object it is given and NOTHING ELSE.
 *
 * Every public printer taking (buffer, length) — the tables of build/gen_c19/printers.h are generated from the AST
 * by tools/printers.py — is run on well-formed objects and on copies whose inner lengths claim more than the buffer
 * holds (outer / nested DER lengths, TLS record / handshake / vector lengths), twice:
 *   pass 1  the object sits inside a larger allocation and is followed at once by a "secret" region filled with a
 *           recognisable 16-byte magic (for the TLS record printers: a real TLS_CONNECT whose record[] is followed by
 *           databuf, keys, master_secret, key_block — the layout of a live connection); the printer's output is
 *           captured and searched for raw and hex encodings of every rotation of the magic;
 *   pass 2  the object sits in an exactly sized heap block, output discarded: any over-read is an ASan fault.
 *
 *   printer <A|B|C|S> <index> <seed>      (S: printers of a struct / limb array: valid object, exact-size block, then adjacent magic)
 *     -> CLEAN name=<f> calls=<n> printed=<bytes> | LEAK name=<f> sample=<tag> mutation=<m> enc=<raw|hex> | END (index past the table)
 */
#include "sysops.h"
#include "printers.h"
#include <fcntl.h>
#include <gmssl/x509_req.h>
#include <gmssl/x509_crl.h>

#define CAN 4096
#define MAXS 128
typedef struct { uint8_t *p; size_t n; char tag[24]; int tls; } sample_t;
static sample_t S[MAXS]; static int NS;
static uint8_t magic[16];

static void add_sample(const char *tag, const uint8_t *p, size_t n, int tls) {
	if (NS >= MAXS || n == 0 || n > 6000) return;
	S[NS].p = malloc(n); memcpy(S[NS].p, p, n); S[NS].n = n; S[NS].tls = tls; snprintf(S[NS].tag, sizeof S[NS].tag, "%s", tag); NS++;
}
/* a DER object and its content (most family-A printers take the content of the outer SEQUENCE) */
static void add_der(const char *tag, const uint8_t *p, size_t n) {
	char t2[24]; size_t hl;
	add_sample(tag, p, n, 0);
	if (n < 2) return;
	hl = (p[1] & 0x80) ? 2 + (size_t)(p[1] & 0x7f) : 2;
	if (hl < n) { snprintf(t2, sizeof t2, "%s.content", tag); add_sample(t2, p + hl, n - hl, 0); }
}
static void build_samples(opctx_t *c) {
	uint8_t *b = malloc(8192), *p; size_t l; obuf_t o; uint8_t rec[2048]; size_t rl; uint8_t rnd[32]; int suites[2] = { TLS_cipher_ecc_sm4_cbc_sm3, TLS_cipher_ecdhe_sm4_cbc_sm3 };
	CMS_CERTS_AND_KEY sg; static const uint8_t attrs[2] = {0x30, 0x00}; const uint8_t *iss; size_t issl;
	ob_init(&o); ent_seed(c->seed + 5, -1);
	add_der("cert", c->cert, c->certlen);
	add_sample("name", c->name, c->namelen, 0);
	sg.certs = c->cert; sg.certs_len = c->certlen; sg.sign_key = &c->sm2;
	l = 0; if (cms_sign(b, &l, &sg, 1, OID_cms_data, c->msg, c->msglen, NULL, 0) == 1) add_der("cms-signed", b, l);
	l = 0; if (cms_envelop(b, &l, c->peercert, c->peercertlen, OID_sm4_cbc, c->symkey, 16, c->iv, 16, OID_cms_data, c->msg, c->msglen, NULL, 0, NULL, 0) == 1) add_der("cms-enveloped", b, l);
	l = 0; if (cms_encrypt(b, &l, OID_sm4_cbc, c->symkey, 16, c->iv, 16, OID_cms_data, c->msg, c->msglen, NULL, 0, NULL, 0) == 1) add_der("cms-encrypted", b, l);
	l = 0; if (sm2_sign(&c->sm2, c->dgst, b, &l) == 1) add_der("sm2-sig", b, l);
	l = 0; if (sm2_encrypt(&c->sm2, c->msg, 40, b, &l) == 1) add_der("sm2-ct", b, l);
	p = b; l = 0; if (sm2_private_key_info_encrypt_to_der(&c->sm2, c->pass, &p, &l) == 1) add_der("pkcs8", b, l);
	p = b; l = 0; if (sm2_private_key_info_to_der(&c->sm2, &p, &l) == 1) add_der("sm2-pki", b, l);
	p = b; l = 0; if (x509_req_sign_to_der(X509_version_v1, c->name, c->namelen, &c->sm2, attrs, sizeof attrs, OID_sm2sign_with_sm3, &c->sm2, SM2_DEFAULT_ID, SM2_DEFAULT_ID_LENGTH, &p, &l) == 1) add_der("req", b, l);
	p = b; l = 0; if (x509_cert_get_subject(c->cert, c->certlen, &iss, &issl) == 1 && x509_crl_sign_to_der(X509_version_v2, OID_sm2sign_with_sm3, iss, issl, 1700000000, 1700086400, NULL, 0, NULL, 0,
		&c->sm2, SM2_DEFAULT_ID, SM2_DEFAULT_ID_LENGTH, &p, &l) == 1) add_der("crl", b, l);
	/* TLS records and the handshake messages inside them */
	ctx_bytes(c, rnd, 32);
#define ADD_REC(tag) do { add_sample(tag, rec, rl, 1); if (rl > 5) add_sample(tag ".hs", rec + 5, rl - 5, 2); if (rl > 9) add_sample(tag ".body", rec + 9, rl - 9, 2); } while (0)
	tls_record_set_protocol(rec, TLS_protocol_tls12);
	rl = 0; if (tls_record_set_handshake_client_hello(rec, &rl, TLS_protocol_tls12, rnd, NULL, 0, suites, 2, NULL, 0) == 1) ADD_REC("client_hello");
	rl = 0; if (tls_record_set_handshake_server_hello(rec, &rl, TLS_protocol_tls12, rnd, rnd, 32, suites[0], NULL, 0) == 1) ADD_REC("server_hello");
	rl = 0; if (tls_record_set_handshake_certificate(rec, &rl, c->cert, c->certlen) == 1) ADD_REC("certificate");
	rl = 0; if (tls_record_set_handshake_client_key_exchange_ecdhe(rec, &rl, &c->peer.public_key) == 1) ADD_REC("cke_ecdhe");
	l = 0; if (sm2_sign(&c->sm2, c->dgst, b, &l) == 1) { rl = 0; if (tls_record_set_handshake_certificate_verify(rec, &rl, b, l) == 1) ADD_REC("cert_verify"); }
	rl = 0; if (tls_record_set_handshake_finished(rec, &rl, rnd, 12) == 1) ADD_REC("finished");
	rl = 0; if (tls_record_set_handshake_server_hello_done(rec, &rl) == 1) ADD_REC("hello_done");
	rl = 0; if (tls_record_set_alert(rec, &rl, 2, 40) == 1) ADD_REC("alert");
	rl = 0; if (tls_record_set_change_cipher_spec(rec, &rl) == 1) ADD_REC("ccs");
	rl = 0; if (tls_record_set_application_data(rec, &rl, c->msg, c->msglen) == 1) ADD_REC("appdata");
	{ /* payload sizes around and above the printers' internal thresholds (64 / 256 / 1024 byte cut-offs) */
		static const size_t szs[] = { 1, 63, 64, 65, 255, 256, 257, 1024, 1500 }; size_t k; uint8_t *big = malloc(2048), *rec2 = malloc(2048 + 16); char tg[24];
		for (k = 0; k < sizeof szs / sizeof szs[0]; k++) {
			ctx_bytes(c, big, szs[k]); tls_record_set_protocol(rec2, TLS_protocol_tls12); rl = 0;
			if (tls_record_set_application_data(rec2, &rl, big, szs[k]) == 1) { snprintf(tg, sizeof tg, "appdata%zu", szs[k]); add_sample(tg, rec2, rl, 1); }
		}
		free(big); free(rec2);
	}
	free(b); ob_free(&o);
}

/* ---- mutations: make an inner length claim more than is there */
static int mutate(const sample_t *s, int m, uint8_t *out) {
	/* returns 1 if mutation m exists for this sample; out has s->n bytes */
	static const uint16_t big[] = { 1, 16, 200, 1500, 18432, 18433, 40000, 65535 };
	memcpy(out, s->p, s->n);
	if (m == 0) return 1;
	m--;
	if (s->tls) {
		/* length fields: record header (3..4), handshake header (6..8 / 1..3), then the first vectors of the body */
		size_t offs[10]; int no = 0, k = m / 8, v = m % 8; size_t base = s->tls == 1 ? 0 : 5; size_t i;
		if (s->tls == 1) offs[no++] = 3;
		if (s->n + base > 9) offs[no++] = 7 - base;                    /* low 16 bits of the 24-bit handshake length */
		for (i = 0; no < 10 && i < 6; i++) offs[no++] = (s->tls == 1 ? 9 : 4) + 34 + i * 3 - (s->tls == 2 && s->tag[strlen(s->tag) - 1] == 'y' ? 4 : 0);
		if (k >= no || offs[k] + 1 >= s->n) return 0;
		{ uint32_t cur = ((uint32_t)out[offs[k]] << 8) | out[offs[k] + 1]; uint32_t nv = v < 3 ? cur + big[v] : big[v]; if (nv > 65535) nv = 65535;
		  out[offs[k]] = (uint8_t)(nv >> 8); out[offs[k] + 1] = (uint8_t)nv; }
		return 1;
	} else {
		/* DER: the k-th TLV header met on a walk into the first children (depth first, up to 12 headers) */
		size_t pos[12]; int np = 0; size_t off = 0, end = s->n; int k = m / 4, v = m % 4, depth = 0;
		while (np < 12 && off + 2 <= end && depth < 8) {
			size_t hl, len; uint8_t tag = out[off];
			if (out[off + 1] & 0x80) { size_t nb = out[off + 1] & 0x7f, j; if (nb == 0 || nb > 3 || off + 2 + nb > end) break; len = 0; for (j = 0; j < nb; j++) len = (len << 8) | out[off + 2 + j]; hl = 2 + nb; }
			else { len = out[off + 1]; hl = 2; }
			pos[np++] = off;
			if ((tag & 0x20) || tag == 0x04 || tag == 0x03) { off += hl + (tag == 0x03 ? 1 : 0); depth++; }   /* descend (also into OCTET/BIT STRING wrappers) */
			else { off += hl + len; }
		}
		if (k >= np) return 0;
		off = pos[k];
		if (out[off + 1] & 0x80) { size_t nb = out[off + 1] & 0x7f; size_t lo = off + 1 + nb;
			if (v == 0) out[lo]++; else if (v == 1) out[lo - (nb > 1 ? 1 : 0)] += (nb > 1 ? 1 : 64); else if (v == 2) { size_t j; for (j = 0; j < nb; j++) out[off + 2 + j] = 0xff; } else out[lo] += 17; }
		else { if (v == 0) out[off + 1]++; else if (v == 1) out[off + 1] = 0x7f; else if (v == 2) { if (off + 3 < s->n) { out[off + 1] = 0x82; out[off + 2] = 0x10; out[off + 3] = 0x00; } else return 0; } else out[off + 1] += 17; }
		return 1;
	}
}

static int cap_fd = -1; static FILE *cap_fp;
static const uint8_t *findb(const uint8_t *h, size_t hn, const uint8_t *nd, size_t nn) {
	size_t i; if (nn == 0 || hn < nn) return NULL;
	for (i = 0; i + nn <= hn; i++) if (h[i] == nd[0] && !memcmp(h + i, nd, nn)) return h + i;
	return NULL;
}
/* does the captured text show 8 consecutive bytes of the magic region (any rotation), raw or hex? */
static const char *scan_magic(const uint8_t *cap, size_t n) {
	uint8_t *norm = malloc(n + 1); size_t nn = 0, i; int r; const char *res = NULL;
	for (i = 0; i < n; i++) { uint8_t ch = cap[i]; if (ch == ' ' || ch == ':' || ch == '\n' || ch == '\r' || ch == '\t' || ch == ',') continue; if (ch >= 'A' && ch <= 'F') ch = (uint8_t)(ch - 'A' + 'a'); norm[nn++] = ch; }
	for (r = 0; r < 16 && !res; r++) {
		uint8_t w[8]; char hex[17]; int k;
		for (k = 0; k < 8; k++) { w[k] = magic[(r + k) % 16]; sprintf(hex + 2 * k, "%02x", w[k]); }
		if (findb(cap, n, w, 8)) res = "raw"; else if (findb(norm, nn, (const uint8_t *)hex, 16)) res = "hex";
	}
	free(norm);
	return res;
}
static int call_printer(char fam, int idx, FILE *fp, const uint8_t *d, size_t n) {
	if (fam == 'A') return PRINTERS_A[idx].f(fp, 0, 0, "x", d, n);
	if (fam == 'B') return PRINTERS_B[idx].f(fp, d, n, 0, 0);
	return PRINTERS_C[idx].f(fp, 0, 0, d, n);
}

static void handle_inner(size_t nw, char **w);
/* a printer that was handed a FILE* must not write to stdout: fd 1 is diverted while the op runs; the result line goes to [result] */
static char result[512];
#define printf(...) snprintf(result + strlen(result), sizeof result - strlen(result), __VA_ARGS__)
static void handle(size_t nw, char **w) {
	char path[] = "/tmp/verif_c19o_XXXXXX"; int fd, saved; off_t n;
	result[0] = 0;
	fflush(stdout); fd = mkstemp(path); unlink(path); saved = dup(1); dup2(fd, 1);
	handle_inner(nw, w);
	fflush(stdout); dup2(saved, 1); close(saved);
	n = lseek(fd, 0, SEEK_END); close(fd);
#undef printf
	if (n > 0 && !strncmp(result, "CLEAN", 5)) { char *sp = strchr(result, ' '); printf("STDOUT%s stdout-bytes=%ld", sp ? sp : "", (long)n); }
	else printf("%s", result);
}
#define printf(...) snprintf(result + strlen(result), sizeof result - strlen(result), __VA_ARGS__)
static void handle_inner(size_t nw, char **w) {
	char fam; int idx, cnt = 0, s, m, pass; const char *name; opctx_t *c; uint8_t *buf = malloc(8192); size_t printed = 0; FILE *devnull;
	TLS_CONNECT *conn;
	alarm(120);
	if (nw != 4 || strcmp(w[0], "printer")) { printf("ERR usage"); free(buf); return; }
	fam = w[1][0]; idx = atoi(w[2]);
	if (fam == 'A') { for (cnt = 0; PRINTERS_A[cnt].name; cnt++) {} name = idx < cnt ? PRINTERS_A[idx].name : NULL; }
	else if (fam == 'B') { for (cnt = 0; PRINTERS_B[cnt].name; cnt++) {} name = idx < cnt ? PRINTERS_B[idx].name : NULL; }
	else { for (cnt = 0; PRINTERS_C[cnt].name; cnt++) {} name = idx < cnt ? PRINTERS_C[idx].name : NULL; }
	if (fam == 'S') {
		/* struct / limb-array printers: a valid object in an exactly sized heap block (ASan) and, in a second call, followed by the magic region */
		const void *obj = NULL; size_t sz = 0; const char *ty; uint8_t *blk; int pass2; long n2; uint8_t *cap; const char *enc = NULL;
		struct { uint64_t x[4], y[4]; } aff;
		for (cnt = 0; PRINTERS_S[cnt].name; cnt++) {}
		if (idx >= cnt) { printf("END"); free(buf); return; }
		name = PRINTERS_S[idx].name; ty = PRINTERS_S[idx].type;
		c = malloc(sizeof *c); prepare(c, strtoull(w[3], NULL, 10)); ctx_bytes(c, magic, 16);
		if (strstr(ty, "SM9")) prepare9(c);
		if (!strcmp(ty, "uint64_t")) { obj = c->sm2.private_key; sz = !strcmp(name, "gf128_print") ? 16 : 32; }
		else if (!strcmp(ty, "SM2_KEY")) { obj = &c->sm2; sz = sizeof(SM2_KEY); }
		else if (!strcmp(ty, "SM2_Z256_POINT")) { obj = &c->sm2.public_key; sz = sizeof(SM2_Z256_POINT); }
		else if (!strcmp(ty, "SM2_Z256_AFFINE_POINT")) { memcpy(&aff, &c->sm2.public_key, sizeof aff); obj = &aff; sz = sizeof aff; }
		else if (!strcmp(ty, "SM9_ENC_KEY")) { obj = &c->s9ekA; sz = sizeof c->s9ekA; }
		else if (!strcmp(ty, "SM9_ENC_MASTER_KEY")) { obj = &c->s9em; sz = sizeof c->s9em; }
		else if (!strcmp(ty, "SM9_SIGN_KEY")) { obj = &c->s9sk; sz = sizeof c->s9sk; }
		else if (!strcmp(ty, "SM9_SIGN_MASTER_KEY")) { obj = &c->s9sm; sz = sizeof c->s9sm; }
		else if (!strcmp(ty, "SM9_Z256_POINT")) { obj = &c->s9em.Ppube; sz = sizeof c->s9em.Ppube; }
		else if (!strcmp(ty, "SM9_Z256_TWIST_POINT")) { obj = &c->s9sm.Ppubs; sz = sizeof c->s9sm.Ppubs; }
		if (!obj) { printf("SKIP name=%s type=%s (no object of that type in the harness)", name, ty); free(c); free(buf); return; }
		{ char path[] = "/tmp/verif_c19p_XXXXXX"; cap_fd = mkstemp(path); unlink(path); cap_fp = fdopen(cap_fd, "w+"); }
		quiet_stderr();
		for (pass2 = 0; pass2 < 2; pass2++) {
			size_t i;
			blk = malloc(sz + (pass2 ? CAN : 0)); memcpy(blk, obj, sz);
			for (i = 0; pass2 && i < CAN; i++) blk[sz + i] = magic[i % 16];
			rewind(cap_fp); if (ftruncate(cap_fd, 0) != 0) {}
			PRINTERS_S[idx].f(cap_fp, 0, 0, "x", blk);
			fflush(cap_fp); n2 = ftell(cap_fp);
			if (pass2 && n2 > 0) { cap = malloc((size_t)n2 + 1); rewind(cap_fp); n2 = (long)fread(cap, 1, (size_t)n2, cap_fp); enc = scan_magic(cap, (size_t)n2); free(cap); }
			free(blk);
		}
		if (enc) printf("LEAK name=%s sample=%s mutation=0 enc=%s", name, ty, enc); else printf("CLEAN name=%s calls=2 printed=%ld", name, n2);
		fclose(cap_fp); free(c); free(buf);
		return;
	}
	if (!name) { printf("END"); free(buf); return; }
	c = malloc(sizeof *c); prepare(c, strtoull(w[3], NULL, 10)); ctx_bytes(c, magic, 16);
	if (!NS) build_samples(c);
	{ char path[] = "/tmp/verif_c19p_XXXXXX"; cap_fd = mkstemp(path); unlink(path); cap_fp = fdopen(cap_fd, "w+"); }
	devnull = fopen("/dev/null", "w");
	conn = malloc(sizeof *conn);
	quiet_stderr();                                                 /* error_print lines of rejected inputs */
	cnt = 0;
	for (pass = 1; pass <= 2; pass++)
	for (s = 0; s < NS; s++) {
		if ((fam == 'A') != (S[s].tls == 0)) continue;                   /* DER samples for family A, TLS samples for B and C */
		for (m = 0; m < 90; m++) {
			uint8_t *arena; size_t i; const char *enc; long sz;
			if (!mutate(&S[s], m, buf)) continue;
			if (pass == 2) {
				/* pass 2: exactly sized block, ASan sees any over-read */
				arena = malloc(S[s].n); memcpy(arena, buf, S[s].n);
				call_printer(fam, idx, devnull, arena, S[s].n);
				free(arena);
				cnt++;
				continue;
			}
			/* pass 1: the secret region follows the object at once */
			if (S[s].tls == 1) {
				/* a live connection's layout: record[] then databuf[] (last plaintext), certificates, keys, master secret, key block */
				uint8_t *q = (uint8_t *)conn; for (i = 0; i < sizeof *conn; i++) q[i] = magic[i % 16];
				memcpy(conn->record, buf, S[s].n); arena = conn->record;
			} else {
				arena = malloc(S[s].n + CAN); memcpy(arena, buf, S[s].n); for (i = 0; i < CAN; i++) arena[S[s].n + i] = magic[i % 16];
			}
			rewind(cap_fp); if (ftruncate(cap_fd, 0) != 0) {}
			call_printer(fam, idx, cap_fp, arena, S[s].n);
			fflush(cap_fp); sz = ftell(cap_fp);
			if (sz > 0) {
				uint8_t *cap = malloc((size_t)sz + 1); rewind(cap_fp); sz = (long)fread(cap, 1, (size_t)sz, cap_fp); printed += (size_t)sz;
				enc = scan_magic(cap, (size_t)sz);
				if (enc) { printf("LEAK name=%s sample=%s mutation=%d enc=%s printed=%ld", name, S[s].tag, m, enc, sz); free(cap); if (S[s].tls != 1) free(arena); goto done; }
				free(cap);
			}
			if (S[s].tls != 1) free(arena);
			cnt++;
		}
	}
	printf("CLEAN name=%s calls=%d printed=%zu", name, cnt, printed);
done:
	fclose(cap_fp); fclose(devnull); free(conn); free(c); free(buf);
}

int main(void) { main_loop(handle); return 0; }
