/* C19 runtime: file descriptors 1 and 2 are redirected to a capture file around each
 * secret-handling operation (including the preparation of its long-term keys); the captured bytes
 * are searched for raw and hex (either case, separators ignored) encodings of every 8-byte window
 * of every secret the harness knows.
 *
 *   diag <op> <seed> <failat>      failat = -1: success path; i >= 0: the i-th entropy draw fails
 *     -> CLEAN rc=<r> captured=<bytes> lines=<n> secrets=<k>
 *      | LEAK rc=<r> secret=<label> enc=<raw|hex> window=<off> captured=<bytes> excerpt=<hex of the surrounding output>
 *   fpprint <printer> <seed>       an explicit print into a temporary FILE*: nothing of the object may reach fds 1/2
 *   hexodd <seed>                  hex_to_bytes on an odd-length hex string holding a key
 */
#include "sysops.h"
#include <fcntl.h>
#include <gmssl/hex.h>
#include <gmssl/gf128.h>

static int cap_fd = -1, saved1 = -1, saved2 = -1;
static void cap_begin(void) {
	char path[] = "/tmp/verif_c19_XXXXXX";
	fflush(stdout); fflush(stderr);
	cap_fd = mkstemp(path); unlink(path);
	saved1 = dup(1); saved2 = dup(2);
	dup2(cap_fd, 1); dup2(cap_fd, 2);
}
static uint8_t *cap_end(size_t *n) {
	off_t len; uint8_t *b;
	fflush(stdout); fflush(stderr);
	dup2(saved1, 1); dup2(saved2, 2); close(saved1); close(saved2);
	len = lseek(cap_fd, 0, SEEK_END); lseek(cap_fd, 0, SEEK_SET);
	b = malloc((size_t)len + 1); *n = 0;
	while (*n < (size_t)len) { ssize_t r = read(cap_fd, b + *n, (size_t)len - *n); if (r <= 0) break; *n += (size_t)r; }
	close(cap_fd); cap_fd = -1;
	return b;
}
static const uint8_t *find(const uint8_t *h, size_t hn, const uint8_t *nd, size_t nn) {
	size_t i;
	if (nn == 0 || hn < nn) return NULL;
	for (i = 0; i + nn <= hn; i++) if (h[i] == nd[0] && !memcmp(h + i, nd, nn)) return h + i;
	return NULL;
}
#define WIN 8
/* returns 1 and prints LEAK if any window of any secret occurs */
static int scan(opctx_t *c, const uint8_t *cap, size_t n, int rc) {
	uint8_t *norm = malloc(n + 1); size_t nn = 0, i; int s; size_t lines = 0;
	for (i = 0; i < n; i++) {
		uint8_t ch = cap[i];
		if (ch == '\n') lines++;
		if (ch == ' ' || ch == ':' || ch == '\n' || ch == '\r' || ch == '\t' || ch == ',') continue;
		if (ch >= 'A' && ch <= 'F') ch = (uint8_t)(ch - 'A' + 'a');
		norm[nn++] = ch;
	}
	for (s = 0; s < c->nsec; s++) {
		secret_t *sec = &c->sec[s]; size_t w;
		if (sec->n < WIN) continue;
		for (w = 0; w + WIN <= sec->n; w++) {
			char hex[2 * WIN + 1]; const uint8_t *hit; const char *enc = NULL; size_t k, zero = 0;
			for (k = 0; k < WIN; k++) { sprintf(hex + 2 * k, "%02x", sec->b[w + k]); if (sec->b[w + k] == sec->b[w]) zero++; }
			if (zero == WIN) continue;                       /* constant window (e.g. 00..00): not identifying */
			if ((hit = find(cap, n, sec->b + w, WIN))) enc = "raw";
			else if ((hit = find(norm, nn, (const uint8_t *)hex, 2 * WIN))) enc = "hex";
			if (enc) {
				printf("LEAK rc=%d secret=%s enc=%s window=%zu captured=%zu excerpt=", rc, sec->label, enc, w, n);
				puthex(cap, n < 96 ? n : 96);
				free(norm);
				return 1;
			}
		}
	}
	printf("CLEAN rc=%d captured=%zu lines=%zu secrets=%d", rc, n, lines, c->nsec);
	free(norm);
	return 0;
}

static void handle(size_t nw, char **w) {
	opctx_t *c = malloc(sizeof *c); obuf_t o; uint8_t *cap; size_t n; int rc;
	alarm(60);
	if (nw == 4 && !strcmp(w[0], "diag")) {
		const sysop_t *op = find_op(w[1]); uint64_t seed = strtoull(w[2], NULL, 10); long failat = atol(w[3]);
		if (!op) { printf("ERR unknown-op"); free(c); return; }
		ob_init(&o);
		cap_begin();
		prepare(c, seed);                                    /* key generation / import is secret handling too */
		add_secret_sm2(c, "sm2-priv", &c->sm2); add_secret_sm2(c, "peer-priv", &c->peer);
		add_secret(c, "password", c->pass, strlen(c->pass));
		ent_seed(seed * 77 + 5, failat);
		rc = op->run(c, &o);
		cap = cap_end(&n);
		scan(c, cap, n, rc);
		free(cap); ob_free(&o);
	} else if (nw == 3 && !strcmp(w[0], "fpprint")) {
		/* an explicitly requested print must go to the FILE* the caller designated — and nowhere else: the printer gets a
		 * temporary file, fds 1 and 2 are captured and must not show the object */
		FILE *fp = tmpfile(); uint64_t seed = strtoull(w[2], NULL, 10);
		memset(c, 0, sizeof *c); c->sm = seed * 3 + 1;
		cap_begin();
		if (!strcmp(w[1], "tls_secrets_print")) {
			uint8_t pms[48], cr[32], sr[32], ms[48], kb[96];
			ctx_bytes(c, pms, 48); ctx_bytes(c, cr, 32); ctx_bytes(c, sr, 32); ctx_bytes(c, ms, 48); ctx_bytes(c, kb, 96);
			add_secret(c, "pre_master_secret", pms, 48); add_secret(c, "master_secret", ms, 48); add_secret(c, "key_block", kb, 96);
			rc = tls_secrets_print(fp, pms, 48, cr, sr, ms, kb, 96, 0, 0);
		} else if (!strcmp(w[1], "gf128_print")) {
			uint8_t h[16]; gf128_t H;
			ctx_bytes(c, h, 16); add_secret(c, "ghash-key-H", h, 16);
			gf128_from_bytes(H, h);
			rc = gf128_print(fp, 0, 0, "H", H);
		} else if (!strcmp(w[1], "sm2_key_print")) {
			make_sm2(c, &c->sm2); add_secret_sm2(c, "sm2-priv", &c->sm2);
			rc = sm2_key_print(fp, 0, 0, "key", &c->sm2);
		} else if (!strcmp(w[1], "tls_pre_master_secret_print")) {
			uint8_t pms[48]; ctx_bytes(c, pms, 48); add_secret(c, "pre_master_secret", pms, 48);
			rc = tls_pre_master_secret_print(fp, pms, 0, 0);
		} else { cap = cap_end(&n); free(cap); fclose(fp); printf("ERR unknown printer"); free(c); return; }
		cap = cap_end(&n);
		fclose(fp);
		scan(c, cap, n, rc);
		free(cap);
	} else if (nw == 2 && !strcmp(w[0], "hexodd")) {
		/* a private key typed as hex with one character missing: the import fails, what does it print? */
		uint8_t key[32], out[64]; char hex[65]; size_t ol = 0, i; uint64_t seed = strtoull(w[1], NULL, 10);
		memset(c, 0, sizeof *c); c->sm = seed;
		ctx_bytes(c, key, 32);
		for (i = 0; i < 32; i++) sprintf(hex + 2 * i, "%02x", key[i]);
		hex[63] = 0;                                         /* 63 hex digits */
		add_secret(c, "hex-key", key, 31);
		cap_begin();
		rc = hex_to_bytes(hex, 63, out, &ol);
		cap = cap_end(&n);
		scan(c, cap, n, rc);
		free(cap);
	} else printf("ERR usage");
	free(c);
}

int main(void) { main_loop(handle); return 0; }
