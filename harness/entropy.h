/* Link-time replacement of the library's entropy gateway and clock (DESIGN 2.4).
 * The library is linked statically, so its getentropy()/time() calls bind to these.
 * Include in exactly one translation unit of a harness.
 *
 *   ent_script(bytes, n, fail_at)   serve the next draws from `bytes` (wrapping to a
 *                                   deterministic splitmix stream when exhausted);
 *                                   the draw with index == fail_at (0-based, -1 = never) fails.
 *   ent_seed(seed)                  purely pseudo-random stream from seed.
 *   ent_draws, ent_log[]            number of draws so far and (offset,len) of each.
 *   ent_thread_local                every thread has its own stream/clock (for C20/C08).
 */
#ifndef VERIF_ENTROPY_H
#define VERIF_ENTROPY_H
#include <stdint.h>
#include <stddef.h>
#include <string.h>
#include <time.h>
#include <errno.h>

#define ENT_MAXLOG 4096
typedef struct {
	const uint8_t *script; size_t script_len, script_pos;
	uint64_t sm;                 /* splitmix state for the tail */
	long fail_at;                /* draw index that fails; -1 never; -2 = every draw fails */
	long draws;
	size_t total;
	struct { size_t off, len; } log[ENT_MAXLOG];
	time_t clock;
	int passthrough;             /* 1 = use the OS (default until a script/seed is installed) */
} ent_state_t;

static __thread ent_state_t ent = { NULL, 0, 0, 0x1234, -1, 0, 0, {{0,0}}, 1700000000, 1 };

static uint64_t ent_sm_next(void) {
	uint64_t z = (ent.sm += 0x9E3779B97F4A7C15ULL);
	z = (z ^ (z >> 30)) * 0xBF58476D1CE4E5B9ULL;
	z = (z ^ (z >> 27)) * 0x94D049BB133111EBULL;
	return z ^ (z >> 31);
}
static void ent_script(const uint8_t *bytes, size_t n, long fail_at) {
	ent.script = bytes; ent.script_len = n; ent.script_pos = 0; ent.sm = 0x1234 + n;
	ent.fail_at = fail_at; ent.draws = 0; ent.total = 0; ent.passthrough = 0;
}
static void ent_seed(uint64_t seed, long fail_at) {
	ent.script = NULL; ent.script_len = 0; ent.script_pos = 0; ent.sm = seed;
	ent.fail_at = fail_at; ent.draws = 0; ent.total = 0; ent.passthrough = 0;
}
static void ent_clock(time_t t) { ent.clock = t; }

extern int __real_getentropy(void *, size_t);
int getentropy(void *buf, size_t len) {
	uint8_t *p = buf; size_t i;
	if (ent.passthrough) {
		/* OS entropy via /dev/urandom semantics: use getrandom syscall through libc */
		extern ssize_t getrandom(void *, size_t, unsigned int);
		return getrandom(buf, len, 0) == (ssize_t)len ? 0 : -1;
	}
	if (ent.fail_at == -2 || ent.draws == ent.fail_at) { ent.draws++; errno = EIO; return -1; }
	if (ent.draws < ENT_MAXLOG) { ent.log[ent.draws].off = ent.total; ent.log[ent.draws].len = len; }
	for (i = 0; i < len; i++) {
		if (ent.script_pos < ent.script_len) p[i] = ent.script[ent.script_pos++];
		else p[i] = (uint8_t)(ent_sm_next() >> 32);
	}
	ent.draws++; ent.total += len;
	return 0;
}
time_t time(time_t *t) {
	time_t v = ent.clock;
	if (ent.passthrough) { struct timespec ts; clock_gettime(CLOCK_REALTIME, &ts); v = ts.tv_sec; }
	if (t) *t = v;
	return v;
}
#endif
