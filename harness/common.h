/* Common helpers for the correspondence harnesses: one op per input line,
 * one canonical result line per op.  Buffers handed to the library are exactly
 * sized heap blocks so that ASan sees any out-of-bounds access. */
#ifndef VERIF_COMMON_H
#define VERIF_COMMON_H
#include <stdio.h>
#include <stdlib.h>
#include <string.h>
#include <stdint.h>
#include <unistd.h>
#include <errno.h>

#define MAXW 64
typedef struct { uint8_t *p; size_t n; } buf_t;

static int hexval(int c) {
	if (c >= '0' && c <= '9') return c - '0';
	if (c >= 'a' && c <= 'f') return c - 'a' + 10;
	if (c >= 'A' && c <= 'F') return c - 'A' + 10;
	return -1;
}
/* "-" is the empty string; returns exactly sized malloc block (1 byte min, n=0) */
static buf_t hex2buf(const char *s) {
	buf_t b; size_t l, i;
	if (strcmp(s, "-") == 0) { b.n = 0; b.p = malloc(1); return b; }
	l = strlen(s) / 2; b.n = l; b.p = malloc(l ? l : 1);
	for (i = 0; i < l; i++) b.p[i] = (uint8_t)(hexval(s[2*i]) * 16 + hexval(s[2*i+1]));
	return b;
}
static void puthex(const uint8_t *p, size_t n) {
	size_t i;
	if (n == 0) { fputs("-", stdout); return; }
	for (i = 0; i < n; i++) printf("%02x", p[i]);
}
/* split "aa,bb,-,cc" into chunks; "." = no chunks */
static size_t split_chunks(char *s, buf_t *out, size_t max) {
	size_t k = 0; char *save = NULL, *t;
	if (strcmp(s, ".") == 0) return 0;
	for (t = strtok_r(s, ",", &save); t && k < max; t = strtok_r(NULL, ",", &save)) out[k++] = hex2buf(t);
	return k;
}
static void free_chunks(buf_t *c, size_t k) { size_t i; for (i = 0; i < k; i++) free(c[i].p); }

static size_t split_words(char *line, char **w, size_t max) {
	size_t k = 0; char *save = NULL, *t;
	for (t = strtok_r(line, " \t\r\n", &save); t && k < max; t = strtok_r(NULL, " \t\r\n", &save)) w[k++] = t;
	return k;
}

/* silence the library's error_print (stderr) unless VERIF_STDERR is set */
static void quiet_stderr(void) {
	if (!getenv("VERIF_STDERR")) { FILE *f = freopen("/dev/null", "w", stderr); (void)f; }
}

typedef void (*op_handler)(size_t nw, char **w);
#include <signal.h>
#include <unistd.h>
/* per-operation watchdog (off unless VERIF_OP_TIMEOUT=<seconds> is set by the check): an operation that
 * never returns (a peer left blocked in a read because the other side refused a record, say) ends the
 * process with "TIMEOUT" on stderr, so the runner reports `FAULT timeout` for that operation and goes on
 * with the next one in a fresh process instead of waiting for the shard's one-hour limit */
static void op_watchdog(int sig) { static const char m[] = "\nTIMEOUT op watchdog\n"; (void)sig; if (write(2, m, sizeof(m) - 1) < 0) {} _exit(3); }
static void main_loop(op_handler h) {
	char *line = NULL; size_t cap = 0; ssize_t n;
	char *w[MAXW];
	const char *ot = getenv("VERIF_OP_TIMEOUT"); unsigned op_timeout = ot ? (unsigned)atoi(ot) : 0;
	setvbuf(stdout, NULL, _IOFBF, 1 << 16);
	while ((n = getline(&line, &cap, stdin)) >= 0) {
		size_t nw = split_words(line, w, MAXW);
		if (op_timeout) { signal(SIGALRM, op_watchdog); alarm(op_timeout); }
		if (nw > 0) h(nw, w);
		if (op_timeout) alarm(0);
		fputc('\n', stdout);
		fflush(stdout);
	}
	free(line);
}
#endif
