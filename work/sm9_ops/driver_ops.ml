(* ---- SM9 key containers (coq/Codec/Sm9Key.v).  FRAGMENT for props/C14/driver.ml.  Merge:
     1. paste this fragment before   let handle ws = match ws with
     2. add as the FIRST case of that match:      | op :: args when List.mem op sm9_ops -> handle_sm9 op args
   Hint tokens (any position after the op, removed before the arguments are read):
     G1=<65 octets>:<0|1>,...    verdict of sm9_z256_point_from_uncompressed_octets        (taken from the harness op s9ok)
     G2=<129 octets>:<0|1>,...   verdict of sm9_z256_twist_point_from_uncompressed_octets  (taken from the harness op s9ok)
     K=<pass>/<salt>/<iter>:<key>,...   PBKDF2 output for 65536 iterations (taken from the harness op kdf)
     E=<salt>/<iv>               the 16 + 16 bytes of entropy drawn by the library's writer (op s9sealLib) *)
let sm9_ops = ["s9oidE";"s9oidD";"s9algE";"s9algD";"s9E";"s9D";"s9ctE";"s9ctD";"s9sealLib";"s9open"]
let handle_sm9 op args =
  let zi x = z_of_int (int_of_string x) and zs z = soi (int_of_z z) in
  let is_hint a = (match String.index_opt a '=' with Some i -> i >= 1 && i <= 2 | None -> false) in
  let hints pre = List.concat (List.map (fun a ->
      let pl = String.length pre in
      if String.length a > pl && String.sub a 0 pl = pre then
        List.map (fun kv -> match split_on ':' kv with [k; v] -> (k, v) | _ -> failwith "hint") (split_on ',' (String.sub a pl (String.length a - pl)))
      else []) args) in
  let hG1 = hints "G1=" and hG2 = hints "G2=" and hK = hints "K=" in
  let hE = List.concat (List.map (fun a -> if String.length a > 2 && String.sub a 0 2 = "E=" then
                                       (match split_on '/' (String.sub a 2 (String.length a - 2)) with [s; i] -> [(bytes_of_hex s, bytes_of_hex i)] | _ -> failwith "hint E") else []) args) in
  (* inside an encrypted container the generator cannot see a tampered point: an unknown point is taken as invalid, the key is refused *)
  let lenient = (op = "s9open") in
  let g1_ok o = (match List.assoc_opt (hx o) hG1 with Some v -> v = "1" | None -> if lenient then false else failwith ("NOHINT-g1 " ^ hx o)) in
  let g2_ok o = (match List.assoc_opt (hx o) hG2 with Some v -> v = "1" | None -> if lenient then false else failwith ("NOHINT-g2 " ^ hx o)) in
  let kdf pass salt iter = (match List.assoc_opt (hx pass ^ "/" ^ hx salt ^ "/" ^ zs iter) hK with Some v -> bytes_of_hex v | None -> kdf_sm3 pass salt iter) in
  let args = List.filter (fun a -> not (is_hint a)) args in
  let enc r = (match r with Ok e -> "OK " ^ hx e ^ " " ^ soi (llen e) | Absent -> "ABSENT" | Err -> "ERR" | Fault -> "FAULT") in
  let b = bytes_of_hex in
  let two x y = hx x ^ " " ^ hx y ^ " WHOLE" in
  let s_smsk (k : sign_msk) = two k.sm_ks k.sm_Ppubs and s_sk (k : sign_key) = two k.sk_ds k.sk_Ppubs in
  let s_emsk (k : enc_msk) = two k.em_ke k.em_Ppube and s_ek (k : enc_key) = two k.ek_de k.ek_Ppube in
  (match op, args with
   | "s9oidE", [id] -> enc (sm9_oid_to_der (zi id))
   | "s9oidD", [h] -> let i = b h in pr_dec ~abs:"oid=-1" i (sm9_oid_from_der i) (fun (id, r) -> (zs id, r))
   | "s9algE", [a; p] -> enc (sm9_algor_to_der (zi a) (zi p))
   | "s9algD", [h] -> let i = b h in pr_dec i (sm9_algor_from_der i) (fun ((a, p), r) -> (zs a ^ " " ^ zs p, r))
   | "s9E", ["smsk"; f1; f2] -> enc (sign_msk_to_der { sm_ks = b f1; sm_Ppubs = b f2 })
   | "s9E", ["smpk"; f1; f2] -> enc (sign_mpk_to_der { sm_ks = b f1; sm_Ppubs = b f2 })
   | "s9E", ["sk"; f1; f2] -> enc (sign_key_to_der { sk_ds = b f1; sk_Ppubs = b f2 })
   | "s9E", ["emsk"; f1; f2] -> enc (enc_msk_to_der { em_ke = b f1; em_Ppube = b f2 })
   | "s9E", ["empk"; f1; f2] -> enc (enc_mpk_to_der { em_ke = b f1; em_Ppube = b f2 })
   | "s9E", ["ek"; f1; f2] -> enc (enc_key_to_der { ek_de = b f1; ek_Ppube = b f2 })
   | "s9E", ["sig"; f1; f2] -> enc (sm9_sig_to_der (b f1) (b f2))
   | "s9D", ["smsk"; h] -> let i = b h in pr_dec i (sign_msk_from_der g2_ok i) (fun (k, r) -> (s_smsk k, r))
   | "s9D", ["smpk"; h] -> let i = b h in pr_dec i (sign_mpk_from_der g2_ok i) (fun (k, r) -> (s_smsk k, r))
   | "s9D", ["sk"; h] -> let i = b h in pr_dec i (sign_key_from_der g1_ok g2_ok i) (fun (k, r) -> (s_sk k, r))
   | "s9D", ["emsk"; h] -> let i = b h in pr_dec i (enc_msk_from_der g1_ok i) (fun (k, r) -> (s_emsk k, r))
   | "s9D", ["empk"; h] -> let i = b h in pr_dec i (enc_mpk_from_der g1_ok i) (fun (k, r) -> (s_emsk k, r))
   | "s9D", ["ek"; h] -> let i = b h in pr_dec i (enc_key_from_der g1_ok g2_ok i) (fun (k, r) -> (s_ek k, r))
   | "s9D", ["sig"; h] -> let i = b h in pr_dec i (sm9_sig_from_der g1_ok i) (fun ((hh, s), r) -> (two hh s, r))
   | "s9ctE", [c1; c2; c3] -> enc (sm9_ct_to_der (b c1) (b c2) (b c3))
   | "s9ctD", [h] -> let i = b h in
     pr_dec i (sm9_ct_from_der g1_ok i) (fun (((c1, c2), c3), r) -> (hx c1 ^ " " ^ hx c2 ^ " " ^ hx c3 ^ " WHOLE", r))
   | "s9sealLib", [ty; f1; f2; pass; _seed] ->
     (match hE with
      | [(salt, iv)] ->
        let pass = b pass in
        (match ty with
         | "smsk" -> enc (sign_msk_seal kdf cbcenc_sm4 { sm_ks = b f1; sm_Ppubs = b f2 } pass salt iv)
         | "sk" -> enc (sign_key_seal kdf cbcenc_sm4 { sk_ds = b f1; sk_Ppubs = b f2 } pass salt iv)
         | "emsk" -> enc (enc_msk_seal kdf cbcenc_sm4 { em_ke = b f1; em_Ppube = b f2 } pass salt iv)
         | "ek" -> enc (enc_key_seal kdf cbcenc_sm4 { ek_de = b f1; ek_Ppube = b f2 } pass salt iv)
         | _ -> "ERR")
      | _ -> failwith "NOHINT-E")
   | "s9open", [ty; pass; h] -> let i = b h and pass = b pass in
     let fin show r = (match r with
         | Ok (k, rest) -> "OK " ^ show k ^ " " ^ soi (llen i - llen rest)
         | Fault -> "FAULT" | _ -> "ERR") in
     (match ty with
      | "smsk" -> fin s_smsk (sign_msk_open g2_ok kdf cbcdec_sm4 pass i)
      | "sk" -> fin s_sk (sign_key_open g1_ok g2_ok kdf cbcdec_sm4 pass i)
      | "emsk" -> fin s_emsk (enc_msk_open g1_ok kdf cbcdec_sm4 pass i)
      | "ek" -> fin s_ek (enc_key_open g1_ok g2_ok kdf cbcdec_sm4 pass i)
      | _ -> "ERR")
   | _ -> "ERR bad-op")
