/* ------------------------------------------------------------------ SM9 key containers (coq/Codec/Sm9Key.v)
 * FRAGMENT for props/C14/harness.c.  Merge:
 *   1. add   #include <gmssl/sm9.h>   to the includes at the top of harness.c;
 *   2. paste this fragment after handle2() (it uses xb/xhex/xfree, PI/PP, pint/pbuf, ENC, DEC_BEGIN/DEC_RET/DEC_END,
 *      whole(), liboid(), myoid() and ent_seed() of the file);
 *   3. in handle() add   if (handle_sm9(nw, w)) return;   next to   if (handle2(nw, w)) return;
 *
 * ops (a scalar is 32 bytes, a G1 point the 64 bytes x||y, a twist point the 128 bytes x1||x0||y1||y0; hint tokens
 * G1= G2= K= E= at the end of a line are for the model and ignored here):
 *   s9oidE <id>            s9oidD <hex>          ids: 40 sm9, 41 sm9sign, 42 sm9keyagreement, 43 sm9encrypt, -1 absent
 *   s9algE <alg> <par>     s9algD <hex>
 *   s9E <type> <f1> <f2>   type smsk|smpk: ks Ppubs    sk: ds Ppubs    emsk|empk: ke Ppube    ek: de Ppube    sig: h S
 *   s9D <type> <hex>       prints the WHOLE target (both fields), then WHOLE / TARGET-DEPENDENT (second run into a target
 *                          holding another valid object, memcmp of the whole struct), then the consumed count
 *   s9ctE <C1> <c2> <c3>   s9ctD <hex>
 *   s9sealLib <type> <f1> <f2> <pass> <seed>   the library's *_info_encrypt_to_der (65536 iterations), entropy from the seed
 *   s9open <type> <pass> <hex>                 *_info_decrypt_from_der
 *   s9mk <seed> <idhex>    generator helper: sm9_*_master_key_generate + extract_key  ->  ks Ppubs ds ke Ppube de
 *   s9ok g1|g2 <octets>    generator helper: verdict of sm9_z256_[twist_]point_from_uncompressed_octets on 65 / 129 octets */
enum { S9_SMSK, S9_SMPK, S9_SK, S9_EMSK, S9_EMPK, S9_EK, S9_SIG, S9_BAD };
static int s9type(const char *t) {
	static const char *nm[] = { "smsk", "smpk", "sk", "emsk", "empk", "ek", "sig" }; int i;
	for (i = 0; i < S9_BAD; i++) if (!strcmp(t, nm[i])) return i;
	return S9_BAD;
}
static size_t s9size(int t) {
	switch (t) { case S9_SMSK: case S9_SMPK: return sizeof(SM9_SIGN_MASTER_KEY); case S9_SK: return sizeof(SM9_SIGN_KEY);
	case S9_EMSK: case S9_EMPK: return sizeof(SM9_ENC_MASTER_KEY); case S9_EK: return sizeof(SM9_ENC_KEY); case S9_SIG: return sizeof(SM9_SIGNATURE); }
	return 1;
}
static int s9lib(int o) { switch (o) { case -1: return -1; case 40: return OID_sm9; case 41: return OID_sm9sign; case 42: return OID_sm9keyagreement; case 43: return OID_sm9encrypt; } return liboid(o); }
static int s9my(int o) { switch (o) { case OID_sm9: return 40; case OID_sm9sign: return 41; case OID_sm9keyagreement: return 42; case OID_sm9encrypt: return 43; } return myoid(o); }
static int s9_sc(sm9_z256_t k, const char *hex) { xb d = xhex(hex); int r = -1; if (d.n == 32) { sm9_z256_from_bytes(k, d.p); r = 1; } xfree(d); return r; }
static int s9_g1(SM9_Z256_POINT *P, const char *hex) { xb d = xhex(hex); uint8_t o[65]; int r = -1; if (d.n == 64) { o[0] = 4; memcpy(o + 1, d.p, 64); r = sm9_z256_point_from_uncompressed_octets(P, o); } xfree(d); return r; }
static int s9_g2(SM9_Z256_TWIST_POINT *P, const char *hex) { xb d = xhex(hex); uint8_t o[129]; int r = -1; if (d.n == 128) { o[0] = 4; memcpy(o + 1, d.p, 128); r = sm9_z256_twist_point_from_uncompressed_octets(P, o); } xfree(d); return r; }
static void s9_psc(const sm9_z256_t k) { uint8_t b[32]; sm9_z256_to_bytes(k, b); puthex(b, 32); }
static void s9_pg1(const SM9_Z256_POINT *P) { uint8_t o[65]; sm9_z256_point_to_uncompressed_octets(P, o); puthex(o + 1, 64); }
static void s9_pg2(const SM9_Z256_TWIST_POINT *P) { uint8_t o[129]; sm9_z256_twist_point_to_uncompressed_octets(P, o); puthex(o + 1, 128); }
static int s9_set(int t, void *k, const char *f1, const char *f2) {
	switch (t) {
	case S9_SMSK: case S9_SMPK: { SM9_SIGN_MASTER_KEY *x = k; return s9_sc(x->ks, f1) == 1 && s9_g2(&x->Ppubs, f2) == 1; }
	case S9_SK: { SM9_SIGN_KEY *x = k; return s9_g1(&x->ds, f1) == 1 && s9_g2(&x->Ppubs, f2) == 1; }
	case S9_EMSK: case S9_EMPK: { SM9_ENC_MASTER_KEY *x = k; return s9_sc(x->ke, f1) == 1 && s9_g1(&x->Ppube, f2) == 1; }
	case S9_EK: { SM9_ENC_KEY *x = k; return s9_g2(&x->de, f1) == 1 && s9_g1(&x->Ppube, f2) == 1; }
	case S9_SIG: { SM9_SIGNATURE *x = k; return s9_sc(x->h, f1) == 1 && s9_g1(&x->S, f2) == 1; }
	}
	return 0;
}
static void s9_print(int t, const void *k) {
	switch (t) {
	case S9_SMSK: case S9_SMPK: { const SM9_SIGN_MASTER_KEY *x = k; s9_psc(x->ks); printf(" "); s9_pg2(&x->Ppubs); break; }
	case S9_SK: { const SM9_SIGN_KEY *x = k; s9_pg1(&x->ds); printf(" "); s9_pg2(&x->Ppubs); break; }
	case S9_EMSK: case S9_EMPK: { const SM9_ENC_MASTER_KEY *x = k; s9_psc(x->ke); printf(" "); s9_pg1(&x->Ppube); break; }
	case S9_EK: { const SM9_ENC_KEY *x = k; s9_pg2(&x->de); printf(" "); s9_pg1(&x->Ppube); break; }
	case S9_SIG: { const SM9_SIGNATURE *x = k; s9_psc(x->h); printf(" "); s9_pg1(&x->S); break; }
	}
}
static int s9_to_der(int t, const void *k, uint8_t **out, size_t *outlen) {
	switch (t) {
	case S9_SMSK: return sm9_sign_master_key_to_der(k, out, outlen); case S9_SMPK: return sm9_sign_master_public_key_to_der(k, out, outlen);
	case S9_SK: return sm9_sign_key_to_der(k, out, outlen); case S9_EMSK: return sm9_enc_master_key_to_der(k, out, outlen);
	case S9_EMPK: return sm9_enc_master_public_key_to_der(k, out, outlen); case S9_EK: return sm9_enc_key_to_der(k, out, outlen);
	case S9_SIG: return sm9_signature_to_der(k, out, outlen);
	}
	return -1;
}
static int s9_from_der(int t, void *k, const uint8_t **in, size_t *inlen) {
	switch (t) {
	case S9_SMSK: return sm9_sign_master_key_from_der(k, in, inlen); case S9_SMPK: return sm9_sign_master_public_key_from_der(k, in, inlen);
	case S9_SK: return sm9_sign_key_from_der(k, in, inlen); case S9_EMSK: return sm9_enc_master_key_from_der(k, in, inlen);
	case S9_EMPK: return sm9_enc_master_public_key_from_der(k, in, inlen); case S9_EK: return sm9_enc_key_from_der(k, in, inlen);
	case S9_SIG: return sm9_signature_from_der(k, in, inlen);
	}
	return -1;
}
static int s9_seal(int t, const void *k, const char *pass, uint8_t **out, size_t *outlen) {
	switch (t) {
	case S9_SMSK: return sm9_sign_master_key_info_encrypt_to_der(k, pass, out, outlen); case S9_SK: return sm9_sign_key_info_encrypt_to_der(k, pass, out, outlen);
	case S9_EMSK: return sm9_enc_master_key_info_encrypt_to_der(k, pass, out, outlen); case S9_EK: return sm9_enc_key_info_encrypt_to_der(k, pass, out, outlen);
	}
	return -1;
}
static int s9_open(int t, void *k, const char *pass, const uint8_t **in, size_t *inlen) {
	switch (t) {
	case S9_SMSK: return sm9_sign_master_key_info_decrypt_from_der(k, pass, in, inlen); case S9_SK: return sm9_sign_key_info_decrypt_from_der(k, pass, in, inlen);
	case S9_EMSK: return sm9_enc_master_key_info_decrypt_from_der(k, pass, in, inlen); case S9_EK: return sm9_enc_key_info_decrypt_from_der(k, pass, in, inlen);
	}
	return -1;
}
/* one fixed valid object of every type (the "dirty target" of the second decoder run); the entropy state of the
 * harness is saved and restored around its construction */
static struct { SM9_SIGN_MASTER_KEY sm; SM9_SIGN_KEY sk; SM9_ENC_MASTER_KEY em; SM9_ENC_KEY ek; SM9_SIGNATURE sig; int ok; } s9o;
static const void *s9_other(int t) {
	if (!s9o.ok) { ent_state_t sv = ent; ent_seed(0x3737, -1);
		sm9_sign_master_key_generate(&s9o.sm); sm9_sign_master_key_extract_key(&s9o.sm, "other", 5, &s9o.sk);
		sm9_enc_master_key_generate(&s9o.em); sm9_enc_master_key_extract_key(&s9o.em, "other", 5, &s9o.ek);
		memcpy(s9o.sig.h, s9o.em.ke, sizeof(sm9_z256_t)); s9o.sig.S = s9o.sk.ds; s9o.ok = 1; ent = sv; }
	switch (t) { case S9_SMSK: case S9_SMPK: return &s9o.sm; case S9_SK: return &s9o.sk; case S9_EMSK: case S9_EMPK: return &s9o.em; case S9_EK: return &s9o.ek; }
	return &s9o.sig;
}

static int handle_sm9(size_t nw, char **w) {
	const char *op = w[0];
	while (nw > 1 && strchr(w[nw - 1], '=')) nw--;            /* model-side hint tokens */
	if (!strcmp(op, "s9oidE") && nw == 2) { int id = s9lib(atoi(w[1])); ENC(sm9_oid_to_der(id, OUT, OUTLEN)); }
	else if (!strcmp(op, "s9oidD") && nw == 2) { DEC_BEGIN(w[1]); int id = PI; r_ = sm9_oid_from_der(&id, IN, INLEN);
		if (r_ == 0) { printf("ABSENT oid="); pint(s9my(id)); } else if (r_ < 0) printf("ERR"); else { printf("OK "); pint(s9my(id)); } DEC_END(); }
	else if (!strcmp(op, "s9algE") && nw == 3) { int a = s9lib(atoi(w[1])), p = s9lib(atoi(w[2])); ENC(sm9_algor_to_der(a, p, OUT, OUTLEN)); }
	else if (!strcmp(op, "s9algD") && nw == 2) { DEC_BEGIN(w[1]); int a = PI, p = PI; r_ = sm9_algor_from_der(&a, &p, IN, INLEN);
		DEC_RET() { printf("OK "); pint(s9my(a)); printf(" "); pint(s9my(p)); } DEC_END(); }
	else if (!strcmp(op, "s9E") && nw == 4 && s9type(w[1]) != S9_BAD) { int t = s9type(w[1]); void *k = malloc(s9size(t)); memset(k, 0, s9size(t));
		if (!s9_set(t, k, w[2], w[3])) printf("ERR-KEYSET"); else ENC(s9_to_der(t, k, OUT, OUTLEN)); free(k); }
	else if (!strcmp(op, "s9D") && nw == 3 && s9type(w[1]) != S9_BAD) { int t = s9type(w[1]); size_t sz = s9size(t); DEC_BEGIN(w[2]); void *k = malloc(sz); memset(k, 0x5a, sz);
		r_ = s9_from_der(t, k, IN, INLEN);
		DEC_RET() { xb in2 = xhex(w[2]); const uint8_t *ip2 = in2.p; size_t il2 = in2.n; void *B = malloc(sz); int r2; memcpy(B, s9_other(t), sz);
			printf("OK "); s9_print(t, k); r2 = s9_from_der(t, B, &ip2, &il2); whole(r2 == 1 && memcmp(k, B, sz) == 0); free(B); xfree(in2); }
		DEC_END(); free(k); }
	else if (!strcmp(op, "s9ctE") && nw == 4) { SM9_Z256_POINT *C1 = malloc(sizeof(*C1)); xb c2 = xhex(w[2]), c3 = xhex(w[3]);
		if (s9_g1(C1, w[1]) != 1 || c3.n != 32) printf("ERR-KEYSET"); else ENC(sm9_ciphertext_to_der(C1, c2.p, c2.n, c3.p, OUT, OUTLEN)); free(C1); xfree(c2); xfree(c3); }
	else if (!strcmp(op, "s9ctD") && nw == 2) { DEC_BEGIN(w[1]); SM9_Z256_POINT *C1 = malloc(sizeof(*C1)); const uint8_t *c2 = PP, *c3 = PP; size_t c2l = PI; memset(C1, 0x5a, sizeof(*C1));
		r_ = sm9_ciphertext_from_der(C1, &c2, &c2l, &c3, IN, INLEN);
		DEC_RET() { xb in2 = xhex(w[1]); const uint8_t *ip2 = in2.p, *d2, *d3; size_t il2 = in2.n, d2l; SM9_Z256_POINT *B = malloc(sizeof(*B)); int r2; *B = ((const SM9_SIGN_KEY *)s9_other(S9_SK))->ds;
			printf("OK "); s9_pg1(C1); printf(" "); pbuf(c2, c2l); printf(" "); pbuf(c3, 32);
			r2 = sm9_ciphertext_from_der(B, &d2, &d2l, &d3, &ip2, &il2); whole(r2 == 1 && memcmp(C1, B, sizeof(*B)) == 0); free(B); xfree(in2); }
		DEC_END(); free(C1); }
	else if (!strcmp(op, "s9sealLib") && nw == 6 && s9type(w[1]) != S9_BAD) { int t = s9type(w[1]); void *k = malloc(s9size(t)); xb pass = xhex(w[4]); char *pz = malloc(pass.n + 1);
		uint64_t seed = (uint64_t)strtoull(w[5], NULL, 10); memcpy(pz, pass.p, pass.n); pz[pass.n] = 0; memset(k, 0, s9size(t));
		if (!s9_set(t, k, w[2], w[3])) printf("ERR-KEYSET"); else ENC((ent_seed(seed, -1), s9_seal(t, k, pz, OUT, OUTLEN)));     /* same salt and iv in the three runs */
		free(k); free(pz); xfree(pass); }
	else if (!strcmp(op, "s9open") && nw == 4 && s9type(w[1]) != S9_BAD) { int t = s9type(w[1]); size_t sz = s9size(t); xb pass = xhex(w[2]); char *pz = malloc(pass.n + 1);
		memcpy(pz, pass.p, pass.n); pz[pass.n] = 0;
		{ DEC_BEGIN(w[3]); void *k = malloc(sz); memset(k, 0x5a, sz);
		  r_ = s9_open(t, k, pz, IN, INLEN);
		  if (r_ == 1) { xb in2 = xhex(w[3]); const uint8_t *ip2 = in2.p; size_t il2 = in2.n; void *B = malloc(sz); int r2; memcpy(B, s9_other(t), sz);
			printf("OK "); s9_print(t, k); r2 = s9_open(t, B, pz, &ip2, &il2); whole(r2 == 1 && memcmp(k, B, sz) == 0); free(B); xfree(in2); }
		  else printf("ERR");
		  DEC_END(); free(k); }
		free(pz); xfree(pass); }
	else if (!strcmp(op, "s9mk") && nw == 3) { xb id = xhex(w[2]); SM9_SIGN_MASTER_KEY sm; SM9_SIGN_KEY sk; SM9_ENC_MASTER_KEY em; SM9_ENC_KEY ek;
		ent_seed((uint64_t)strtoull(w[1], NULL, 10), -1);
		if (sm9_sign_master_key_generate(&sm) != 1 || sm9_sign_master_key_extract_key(&sm, (char *)id.p, id.n, &sk) != 1
			|| sm9_enc_master_key_generate(&em) != 1 || sm9_enc_master_key_extract_key(&em, (char *)id.p, id.n, &ek) != 1) printf("ERR");
		else { printf("OK "); s9_psc(sm.ks); printf(" "); s9_pg2(&sm.Ppubs); printf(" "); s9_pg1(&sk.ds); printf(" "); s9_psc(em.ke); printf(" "); s9_pg1(&em.Ppube); printf(" "); s9_pg2(&ek.de); }
		xfree(id); }
	else if (!strcmp(op, "s9ok") && nw == 3) { xb d = xhex(w[2]); int r = 0;
		if (!strcmp(w[1], "g1")) { SM9_Z256_POINT P; r = d.n == 65 && sm9_z256_point_from_uncompressed_octets(&P, d.p) == 1; }
		else { SM9_Z256_TWIST_POINT P; r = d.n == 129 && sm9_z256_twist_point_from_uncompressed_octets(&P, d.p) == 1; }
		printf("%d", r); xfree(d); }
	else return 0;
	return 1;
}
