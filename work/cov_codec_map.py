#!/usr/bin/env python3
"""Derives coverage status entries for the wave-5 ops mechanically and merges them into coverage_codec_status.json:
  harness *.inc : op -> library functions it calls;   driver.ml : op -> extracted model functions it evaluates;
  Props/Properties_C06.v / C14.v : a theorem covers model function f if its STATEMENT mentions f.
  C function -> P (theorem names; op) if some model function of its op is covered by a theorem, else D."""
import re, json, os, sys
V = "/verif"
ext = open(V + "/coq/Extract/ExtractC14.v").read()
model_names = set(re.findall(r"[A-Za-z_][\w']*", ext.split('Extraction "../ocaml/gen/ModelC14.ml"')[1]))
thm = {}          # model function -> theorems whose STATEMENT mentions it
for pf in ("C06", "C14"):
    s = open(V + "/coq/Props/Properties_%s.v" % pf).read()
    for m in re.finditer(r"Theorem\s+(\w+)\s*:(.*?)Proof\.", s, re.S):
        for f in set(re.findall(r"[A-Za-z_][\w']*", m.group(2))) & model_names:
            thm.setdefault(f, []).append(m.group(1))
def theorems_for(fn):
    return sorted(set(thm.get(fn, [])))
drv = open(V + "/props/C14/driver.ml").read()
ops_m = {}
for m in re.finditer(r'^\s*\|\s*\(?((?:"\w+"\s*\|?\s*)+)\)?\s*,.*?->(.*?)(?=^\s*\|\s*\(?"|^\s*\|\s*_|^let |\Z)', drv, re.S | re.M):
    ops = re.findall(r'"(\w+)"', m.group(1))
    fns = set(re.findall(r"[A-Za-z_][\w']*", m.group(2))) & model_names
    for o in ops:
        ops_m.setdefault(o, set()).update(fns)
status = json.load(open(V + "/work/coverage_codec_status.json"))
LIB = re.compile(r"\b((?:x509|cms|sm9|asn1|sm2|pkcs8|pbkdf2|pbes2|ec)_\w+)\s*\(")
new = {}
for inc in sys.argv[1:] or ["harness_x509.inc", "harness_crl.inc", "harness_cms.inc"]:
    p = V + "/props/C14/" + inc
    if not os.path.exists(p):
        continue
    src = open(p).read()
    for m in re.finditer(r'(?:XOP\("(\w+)",\s*\d+\)|strcmp\(op, "(\w+)"\))(.*?)(?=\n\s*XOP\(|\n\s*else if|\n\s*else return|\n\s*/\* ----)', src, re.S):
        op = m.group(1) or m.group(2)
        body = m.group(3)
        ops_here = [op] + re.findall(r'strcmp\(op, "(\w+)"\)', body.split("{")[0])
        cfuncs = set(LIB.findall(body)) - {"sm2_z256_point_to_bytes"}
        for o in ops_here:
            fns = ops_m.get(o, set())
            ts = sorted(set(t for f in fns for t in theorems_for(f)))
            for c in cfuncs:
                cur = new.get(c)
                ent = ["P" if ts else "D", (", ".join(ts[:4]) + ("; " if ts else "") + "op " + o), "model: " + ", ".join(sorted(fns))]
                if cur is None or (cur[0] == "D" and ent[0] == "P"):
                    new[c] = ent
                elif cur[0] == ent[0] and o not in cur[1]:
                    cur[1] += " " + o
# SM9 key containers: the ops s9E/s9D/s9sealLib/s9open dispatch on a type word, so the pairs are listed here (C function, model function, op)
SM9 = [("sm9_oid_to_der", "sm9_oid_to_der", "s9oidE"), ("sm9_oid_from_der", "sm9_oid_from_der", "s9oidD"), ("sm9_algor_to_der", "sm9_algor_to_der", "s9algE"), ("sm9_algor_from_der", "sm9_algor_from_der", "s9algD")]
for cty, mty, ty in (("sign_master_key", "sign_msk", "smsk"), ("sign_master_public_key", "sign_mpk", "smpk"), ("sign_key", "sign_key", "sk"),
                     ("enc_master_key", "enc_msk", "emsk"), ("enc_master_public_key", "enc_mpk", "empk"), ("enc_key", "enc_key", "ek")):
    SM9 += [("sm9_%s_to_der" % cty, mty + "_to_der", "s9E " + ty), ("sm9_%s_from_der" % cty, mty + "_from_der", "s9D " + ty)]
    if "public" not in cty:
        SM9 += [("sm9_%s_info_encrypt_to_der" % cty, mty + "_seal", "s9sealLib " + ty), ("sm9_%s_info_decrypt_from_der" % cty, mty + "_open", "s9open " + ty)]
SM9 += [("sm9_private_key_info_to_der", "s9_pki_to_der", "s9sealLib/s9open (static callee)"), ("sm9_private_key_info_from_der", "s9_pki_from_der", "s9open (static callee)"),
        ("sm9_private_key_info_encrypt_to_der", "s9_seal", "s9sealLib (static callee)"), ("sm9_private_key_info_decrypt_from_der", "s9_open", "s9open (static callee)")]
if os.path.exists(V + "/props/C14/harness_sm9.inc"):
    for c, f, o in SM9:
        ts = theorems_for(f)
        new[c] = ["P" if ts else "D", (", ".join(ts[:4]) + ("; " if ts else "") + "op " + o), "model: " + f]
for c, e in new.items():
    old = status.get(c)
    if old is None or old[0] in ("D", "O", "U") or (old[0] == "P" and e[0] == "P" and False):
        status[c] = e
json.dump(status, open(V + "/work/coverage_codec_status.json", "w"), indent=0, sort_keys=True)
print("derived", len(new), "entries:", sum(1 for e in new.values() if e[0] == "P"), "P,", sum(1 for e in new.values() if e[0] == "D"), "D")
if "-v" in sys.argv:
    for c, e in sorted(new.items()): print(c, e)
