(* ---- CRL / certification request layer (coq/Codec/Crl.v): "OK f1 f2 ... [<consumed>]" | "ABSENT f1 ..." | "ERR" | "FAULT".
   To be placed after the X.509 fragment of props/C14/driver.ml (uses zs zi nn hx soi llen f_ptr f_nodes f_time xres),
   with `| op :: args when List.mem op crl_ops -> handle_crl op args` in [handle].  Hints: P=<65 octets>:<0|1>,...
   In-values of rentryextexD: a number / hex, NULL, or P (the harness's poison: 0x5a5a5a5a resp. an unset pointer). *)
let crl_ops = ["rreasonD";"rentryextidD";"rentrycrit";"rentryextD";"rentryextexD";"rentryextsget";"rentryextsD";"rentryextschk";
  "rrevokedD";"rrevokedexD";"rfindserial";"rcrlextidexD";"rcrlextidD";"ridpD";"rcrlextcrit";"rcrlextD";"rcrlextschk";
  "rtbscrlD";"rcrlexD";"rcrldet";"rcrlchk";"rcrlissuer";"rcrlrevoked";"rcrlfind";"rcrlD";"qreqinfoD";"qreqdet";"qreqD"]
let handle_crl op args =
  let hints pre = List.concat (List.map (fun a ->
      if String.length a > 2 && String.sub a 0 2 = pre then
        List.map (fun kv -> match split_on ':' kv with [k; v] -> (k, v) | _ -> failwith "hint") (split_on ',' (String.sub a 2 (String.length a - 2)))
      else []) args) in
  let hP = hints "P=" in
  let pt_ok o = (match List.assoc_opt (hx o) hP with Some v -> v = "1" | None -> failwith ("NOHINT-pt " ^ hx o)) in
  let args = List.filter (fun a -> not (String.length a > 2 && a.[1] = '=')) args in
  let poison = 0x5a5a5a5a in
  let zin s = if s = "P" then z_of_int poison else zi s in
  let zsp z = if int_of_z z = poison then "POISON" else zs z in
  let pin s = if s = "NULL" then PNull else if s = "P" then PUnset else PBuf (bytes_of_hex s) in
  let unit_res r = (match r with Ok _ -> "OK" | Absent -> "ABSENT" | Err -> "ERR" | Fault -> "FAULT") in
  let found r = (match r with
     | Ok (Some (d, e)) -> "OK " ^ f_time d ^ " " ^ f_ptr e | Ok None -> "ABSENT -1 NULL" | Absent -> "ABSENT" | Err -> "ERR" | Fault -> "FAULT") in
  let crl_f (t : tbs_crl) = [zs t.c_version; zs t.c_sigalg; hx t.c_issuer; f_time t.c_this_update; zs t.c_next_update; f_ptr t.c_revoked; f_ptr t.c_exts] in
  let p7 = "POISON POISON POISON POISON POISON POISON POISON" in
  match op, args with
  | "rreasonD", [h] -> let i = bytes_of_hex h in xres ~abs:"-1" i (crl_reason_from_der i) (fun (v, r) -> ([zs v], r))
  | "rentryextidD", [h] -> let i = bytes_of_hex h in xres ~abs:"-1" i (crl_entry_ext_id_from_der i) (fun (v, r) -> ([zs v], r))
  | "rentrycrit", [o; c] -> if crl_entry_ext_critical_check (zi o) (zi c) then "OK" else "ERR"
  | "rentryextD", [h] -> let i = bytes_of_hex h in
    xres ~abs:"POISON POISON POISON" i (crl_entry_ext_from_der i) (fun (((id, c), v), r) -> ([zs id; zs c; hx v], r))
  | "rentryextexD", [r0; d0; c0; h] -> let i = bytes_of_hex h in
    xres ~abs:"POISON POISON -1 -1 NULL" i (crl_entry_ext_from_der_ex (zin r0) (zin d0) (pin c0) i)
      (fun (((((id, c), rs), dt), ci), r) -> ([zs id; zs c; zsp rs; zsp dt; f_ptr ci], r))
  | "rentryextsget", [h] -> let d = bytes_of_hex h in
    xres ~consumed:false d (crl_entry_exts_get d) (fun ((rs, dt), ci) -> ([zs rs; zs dt; f_ptr ci], []))
  | "rentryextsD", [h] -> let i = bytes_of_hex h in
    xres ~abs:"POISON POISON POISON" i (crl_entry_exts_from_der i) (fun (((rs, dt), ci), r) -> ([zs rs; zs dt; f_ptr ci], r))
  | "rentryextschk", [h] -> unit_res (crl_entry_exts_check (bytes_of_hex h))
  | "rrevokedD", [h] -> let i = bytes_of_hex h in
    xres ~abs:"POISON POISON POISON" i (revoked_cert_from_der i) (fun (((sn, d), e), r) -> ([hx sn; f_time d; f_ptr e], r))
  | "rrevokedexD", [h] -> let i = bytes_of_hex h in
    xres ~abs:"POISON POISON POISON POISON POISON" i (revoked_cert_from_der_ex i)
      (fun (((((sn, d), rs), dt), ci), r) -> ([hx sn; f_time d; zs rs; zs dt; f_ptr ci], r))
  | "rfindserial", [s; h] -> found (revoked_certs_find_by_serial (bytes_of_hex h) (bytes_of_hex s))
  | "rcrlextidexD", [h] -> let i = bytes_of_hex h in xres ~abs:"0 ." i (crl_ext_id_from_der_ex i) (fun ((id, ns), r) -> ([zs id; f_nodes ns], r))
  | "rcrlextidD", [h] -> let i = bytes_of_hex h in xres ~abs:"0" i (crl_ext_id_from_der i) (fun (id, r) -> ([zs id], r))
  | "ridpD", [h] -> let i = bytes_of_hex h in
    xres ~abs:p7 i (issuing_distribution_point_from_der i)
      (fun (((((((c, dp), a), b), rs), d), e), r) -> ([zs c; hx dp; zs a; zs b; zs rs; zs d; zs e], r))
  | "rcrlextcrit", [o; c] -> unit_res (crl_ext_critical_check (zi o) (zi c))
  | "rcrlextD", [h] -> let i = bytes_of_hex h in
    xres ~abs:"POISON POISON POISON POISON" i (crl_ext_from_der_ex i) (fun ((((id, ns), c), v), r) -> ([zs id; f_nodes ns; zs c; hx v], r))
  | "rcrlextschk", [h] -> unit_res (crl_exts_check (bytes_of_hex h))
  | "rtbscrlD", [h] -> let i = bytes_of_hex h in xres ~abs:p7 i (tbs_crl_from_der i) (fun (t, r) -> (crl_f t, r))
  | "rcrlexD", [h] -> let i = bytes_of_hex h in
    xres ~abs:(p7 ^ " -1 NULL") i (crl_from_der_ex i) (fun (((t, a), sg), r) -> (crl_f t @ [zs a; hx sg], r))
  | "rcrldet", [h] -> let a = bytes_of_hex h in
    xres ~consumed:false a (crl_get_details a) (fun ((t, alg), sg) -> (crl_f t @ [zs alg; hx sg], []))
  | "rcrlchk", [now; h] -> unit_res (crl_check (bytes_of_hex h) (zi now))
  | "rcrlissuer", [h] -> let a = bytes_of_hex h in xres ~consumed:false a (crl_get_issuer a) (fun is -> ([hx is], []))
  | "rcrlrevoked", [h] -> let a = bytes_of_hex h in xres ~consumed:false a (crl_get_revoked_certs a) (fun p -> ([f_ptr p], []))
  | "rcrlfind", [s; h] -> found (crl_find_revoked_cert_by_serial_number (bytes_of_hex h) (bytes_of_hex s))
  | "rcrlD", [h] -> let i = bytes_of_hex h in xres i (crl_from_der i) (fun (a, r) -> ([hx a], r))
  | "qreqinfoD", [h] -> let i = bytes_of_hex h in
    xres i (request_info_from_der pt_ok i) (fun ((((v, su), xy), at), r) -> ([zs v; hx su; hx xy; f_ptr at], r))
  | "qreqdet", [h] -> let a = bytes_of_hex h in
    xres ~consumed:false a (req_get_details pt_ok a) (fun (((((v, su), xy), at), alg), sg) -> ([zs v; hx su; hx xy; f_ptr at; zs alg; hx sg], []))
  | "qreqD", [h] -> let i = bytes_of_hex h in xres i (req_from_der pt_ok i) (fun (a, r) -> ([hx a], r))
  | _ -> "MODEL-BADOP " ^ op
