#!/usr/bin/env python3
"""print the prompt for an independent mutation agent: mutator_prompt.py Cxx [n]"""
import json, sys
pid = sys.argv[1]; n = int(sys.argv[2]) if len(sys.argv) > 2 else 3
p = next(json.loads(l) for l in open('/verif/properties.jsonl') if json.loads(l)['id'] == pid)
wt = "/tmp/mut_%s" % pid
print(f"""You are testing how robust a C cryptographic library's correctness is against subtle regressions. The library is GmSSL; you have your own scratch git worktree of it at {wt} (work ONLY there and under /tmp/mut_{pid}_out; never touch /repo or /verif, and do not read anything under /verif). The library builds with `cmake -G Ninja -S {wt} -B {wt}/_b && cmake --build {wt}/_b` and its test suite runs with `ctest --test-dir {wt}/_b -j4 --timeout 900` (the tests http, http_crl, tlcp_commands, tls12_commands, tls13_commands fail even on the unchanged tree because there is no network; ignore those; the other 50 must pass). The machine is shared with other jobs: do not use more than 4 parallel jobs (`cmake --build … -j4`).

Here is a semantic property the library is supposed to satisfy:

"{p['statement']}"
(quantified over: {p['quantifier']['text']})

Relevant source files: {', '.join(p['anchors']['files'])}.

Task: produce {n} different, independent changes to the library source (each a separate small patch against the unchanged worktree HEAD) such that, for each: (1) the library still compiles; (2) the full existing test suite still passes (the same 50 tests pass as before); (3) the property above is broken; (4) the breakage needs something specific to manifest — a particular interleaving, a fault at a particular point, a multi-step sequence of operations, an unusual input or length relation, a rarely used interface or build configuration, or two cooperating sites that each look fine alone — NOT something ordinary use or a typical test vector would expose at once. Make them realistic: the kind of slip a refactoring, an "optimisation", a tidy-up or a merge could introduce. Vary the mechanism and the location across the {n} changes (different functions/files, different kinds of slip: boundary comparison, dropped check, wrong length/offset, missing state update, swapped arguments, early return, truncated comparison …).

For each change provide a demonstration: a small standalone C program (compiled against the worktree's headers and the built library, e.g. `gcc -I{wt}/include demo.c -L{wt}/_b/bin -lgmssl -Wl,-rpath,{wt}/_b/bin`; it must need nothing but the public headers, libc and pthread) that exits 0 on the unchanged tree and non-zero (printing what differs) with the change applied. If the demonstration needs a non-default cmake option (e.g. -DENABLE_SMALL_FOOTPRINT=ON) say so in how.txt. Verify all of this yourself: build + run ctest with the change, run the demo with and without the change.

Deliver under /tmp/mut_{pid}_out/<k>/ (k = 1..{n}): `patch.diff` (output of `git diff` in the worktree; must apply cleanly with `git apply` to the unchanged HEAD), `demo.c`, `how.txt` (what it breaks, what it needs in order to manifest, demo build flags/cmake options if any, the commands you ran and their results). Reset the worktree (`git checkout -- .`) between changes and at the end, and remove your build directories under {wt} when finished. Final message: a short summary per change (file/function, mechanism, what triggers it).""")
