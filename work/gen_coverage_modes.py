#!/usr/bin/env python3
"""Function-coverage table for C04 part 1 (SM4 core + non-AEAD modes).  The function list is extracted
mechanically from the C sources (regex over comment-stripped text); the status of each function is looked
up in RULES below (first match wins).  Every non-static function and every static one > 10 lines appears.
usage: gen_coverage_modes.py [repo] > work/coverage_modes.md"""
import re, sys, os
REPO = sys.argv[1] if len(sys.argv) > 1 else "/repo"
FILES = ["sm4.c", "sm4_cbc.c", "sm4_ctr.c", "sm4_cfb.c", "sm4_ofb.c", "sm4_ecb.c", "sm4_xts.c", "sm4_cbc_mac.c",
         "block_cipher.c", "aes_modes.c", "gf128.c", "sm4_aesni.c", "sm4_avx2.c", "sm4_arm64.c", "sm4_cl.c", "sm4_ce.c"]

def funcs(path):
    src = open(path).read()
    s = re.sub(r'/\*.*?\*/', lambda m: '\n' * m.group(0).count('\n'), src, flags=re.S)
    s = re.sub(r'//[^\n]*', '', s)
    out = []
    for m in re.finditer(r'^((?:static\s+)?(?:inline\s+)?(?:const\s+)?[A-Za-z_][A-Za-z0-9_ \*]*?)\b([A-Za-z_][A-Za-z0-9_]*)\s*\(([^;{}]*)\)\s*\{', s, re.M):
        name = m.group(2)
        if name in ('if', 'for', 'while', 'switch'):
            continue
        i = m.end() - 1; d = 0
        for j in range(i, len(s)):
            if s[j] == '{': d += 1
            elif s[j] == '}':
                d -= 1
                if d == 0: break
        out.append((name, 'static' in m.group(1), s[m.start():j].count('\n') + 1, s[:m.start()].count('\n') + 1))
    return out

# (file regex, function regex, occurrence or None) -> (before, after, theorem/op, note)
SF = "small-footprint build (#if ENABLE_SMALL_FOOTPRINT): this loop form is the Spec of Cipher/SM4.v; run in the thorough tier (variant small)"
R = [
 ("sm4.c", "sm4_set_(en|de)crypt_key", None, "P", "P", "C04_sm4_table_form_eq_spec, C04_sm4_tables; op blk", "S32/L32_ key schedule with the source FK, CK, S arrays"),
 ("sm4.c", "sm4_encrypt", 0, "P", "P", "C04_sm4_dec_enc (this form is the Spec); op blk", SF),
 ("sm4.c", "sm4_encrypt", 1, "P", "P", "C04_sm4_unrolled_eq_spec, C04_sm4_unrolled_eq_loop; op blk", "default build: 32 unrolled ROUND lines over X0..X4 modelled with an explicit register file"),
 ("sm4.c", "sm4_encrypt_blocks", 0, "P", "P", "C04_ecb_eq_spec, C04_ecb_dec_enc; ops ecbblocks, s_ecb", SF),
 ("sm4.c", "sm4_encrypt_blocks", 1, "P", "P", "C04_ecb_eq_spec, C04_ecb_dec_enc, C04_inplace_eq; ops ecbblocks, s_ecb", "default build; per block = sm4_encrypt (the unrolled body is repeated textually; modelled once)"),
 ("sm4.c", "sm4_cbc_encrypt_blocks", 0, "P", "P", "C04_cbc_eq_spec, C04_inplace_eq; op cbcblocks", SF),
 ("sm4.c", "sm4_cbc_encrypt_blocks", 1, "P", "P", "C04_cbc_enc_words_eq_block, C04_cbc_eq_spec; op cbcblocks (incl. nblocks = 0)", "default build; one iteration modelled on 32-bit words"),
 ("sm4.c", "sm4_cbc_decrypt_blocks", 0, "P", "P", "C04_cbc_eq_spec, C04_cbc_dec_enc; op cbcblocks dec", SF + "; wrong in place (piv points into the overwritten buffer): OBSERVATION class dec-inplace"),
 ("sm4.c", "sm4_cbc_decrypt_blocks", 1, "P", "P", "C04_cbc_eq_spec, C04_cbc_dec_enc; op cbcblocks dec", "default build; block-level model (word-wise IV/C registers not modelled separately)"),
 ("sm4.c", "sm4_ctr_encrypt_blocks", 0, "P", "P", "C04_ctr_eq_spec (ctr_blocks_sf ctr_incr); op ctrblocks 128", SF),
 ("sm4.c", "sm4_ctr_encrypt_blocks", 1, "P", "P", "C04_ctr_eq_spec (two 64-bit words with carry), C04_ctr_dec_enc; op ctrblocks 128", "default build"),
 ("sm4.c", "sm4_ctr32_encrypt_blocks", 0, "P", "P", "C04_ctr_eq_spec (ctr_blocks_sf ctr32_incr); op ctrblocks 32", SF),
 ("sm4.c", "sm4_ctr32_encrypt_blocks", 1, "P", "P", "C04_ctr_eq_spec (C3++ mod 2^32); op ctrblocks 32", "default build"),
 ("sm4_cbc.c", "sm4_cbc_padding_encrypt", None, "P", "P", "C04_cbc_eq_spec, C04_cbc_dec_enc; op cbcpad enc", ""),
 ("sm4_cbc.c", "sm4_cbc_padding_decrypt", None, "P", "P", "C04_cbc_eq_spec (strict PKCS#7, C04_pkcs7_unpad_strict_iff), C04_cbc_dec_enc; op cbcpad dec", "every padding byte checked since 75d04f0"),
 ("sm4_cbc.c", "sm4_cbc_(en|de)crypt_(init|update|finish)", None, "P", "P", "C04_cbc_stream_eq_oneshot, C04_cbc_written_le_reported; op s_cbc", "generic buffered update (eager for encrypt, lazy for decrypt); NULL-buffer query modelled"),
 ("sm4_ctr.c", "sm4_ctr(32)?_encrypt$", None, "P", "P", "C04_ctr_eq_spec, C04_ctr_dec_enc; op ctr", ""),
 ("sm4_ctr.c", "sm4_ctr(32)?_encrypt_(init|update|finish)", None, "P", "P", "C04_ctr_stream_eq_oneshot, C04_ctr_written_le_reported; op s_ctr", ""),
 ("sm4_cfb.c", "sm4_cfb_(en|de)crypt$", None, "P", "P", "C04_cfb_eq_spec, C04_cfb_dec_enc; op cfb", "all s = 1..16; decrypt in place: OBSERVATION class dec-inplace (works in the current tree)"),
 ("sm4_cfb.c", "sm4_cfb_(en|de)crypt_(init|update|finish)", None, "P", "P", "C04_cfb_stream_eq_oneshot, C04_cfb_written_le_reported, C04_cfb_bad_segment_size_rejected; op s_cfb", ""),
 ("sm4_ofb.c", "sm4_ofb_encrypt$", None, "P", "P", "C04_ofb_eq_spec, C04_ofb_dec_enc; op ofb", ""),
 ("sm4_ofb.c", "sm4_ofb_encrypt_(init|update|finish)", None, "P", "P", "C04_ofb_stream_eq_oneshot, C04_ofb_written_le_reported; op s_ofb", ""),
 ("sm4_ecb.c", ".*", None, "P", "P", "C04_ecb_stream_eq_oneshot, C04_ecb_written_le_reported; op s_ecb", "decrypt_* delegate to encrypt_* under the decryption key"),
 ("sm4_xts.c", "sm4_xts_(en|de)crypt$", None, "P", "P", "C04_xts_eq_spec, C04_xts_dec_enc, C04_xts_short_input_rejected; op xts", "index-form Spec (T_j = x^j E_K2(tweak), stealing by block index) is a theorem since wave 3"),
 ("sm4_xts.c", "tweak_incr", None, "D", "P", "C04_tweak_incr_spec (little-endian + 1 mod 256^len)", "static, 8 lines; listed because the streaming theorem depends on it"),
 ("sm4_xts.c", "sm4_xts_(en|de)crypt_(init|update|finish)", None, "P", "P", "C04_xts_stream_eq_oneshot, C04_xts_units_eq_spec; op s_xts (every boundary position over 3 data units)", "no NULL-buffer query in the code"),
 ("sm4_cbc_mac.c", ".*", None, "P", "P", "C04_cbc_mac_stream_eq_spec; op cbcmac", ""),
 ("block_cipher.c", "block_cipher_(set_encrypt_key|set_decrypt_key|encrypt|decrypt)|BLOCK_CIPHER_sm4", None, "P", "P", "C04_block_cipher_dispatch; op bc", ""),
 ("block_cipher.c", "BLOCK_CIPHER_aes128|aes128_set_", None, "U", "P", "C04_block_cipher_aes128_encrypt, C04_block_cipher_aes128_decrypt_refuted; op bca", "dead code: CMakeLists.txt never defines ENABLE_AES; the harness recompiles block_cipher.c with -DENABLE_AES. decrypt slot holds aes_encrypt: not the inverse (OBSERVATION bca:dec:aes128-dispatch-dead-code, patch work/patch_block_cipher_aes128_decrypt.diff)"),
 ("aes_modes.c", "aes_cbc_(en|de)crypt$", None, "P", "P", "C04_aes_cbc_blocks_eq_spec, C04_aes_cbc_encrypt_inplace; op a_cbcblocks", "generic over block functions with the four laws; decrypt in place wrong (iv = in): OBSERVATION a_cbcblocks:dec:dec-inplace"),
 ("aes_modes.c", "aes_cbc_padding_(en|de)crypt", None, "P", "P", "C04_aes_cbc_eq_spec, C04_aes_cbc_dec_enc; op a_cbcpad", "last-byte-only padding rule (lax), unlike sm4_cbc_padding_decrypt"),
 ("aes_modes.c", "aes_ctr_encrypt", None, "P", "P", "C04_aes_ctr_eq_spec; op a_ctr", ""),
 ("aes_modes.c", "aes_ctr32_encrypt|aes_gcm_", None, "-", "-", "C04b (builder-aead)", "AEAD half"),
 ("gf128.c", "reverse_bits|gf128_from_bytes|gf128_to_bytes|gf128_mul_by_2", None, "P", "P", "C04_xts_mul2_eq_spec; op xtsmul2", "as used by sm4_xts.c"),
 ("gf128.c", ".*", None, "-", "-", "C04b (builder-aead)", "GHASH half"),
 ("sm4_aesni.c", "sm4_set_|sm4_encrypt$|sm4_encrypt_blocks|sm4_cbc_|sm4_ctr", None, "D", "D", "thorough tier, variant aesni: all ops compared with the same model", "code path itself not modelled; no theorem about the AES-NI affine maps"),
 ("sm4_avx2.c", "sm4_set_|sm4_encrypt$|sm4_encrypt_blocks|sm4_cbc_|sm4_ctr", None, "D", "D", "thorough tier, variant avx2: all ops compared with the same model", "code path itself not modelled"),
 ("sm4_arm64.c", ".*", None, "U", "U", "", "does not build on this x86-64 host"),
 ("sm4_ce.c", ".*", None, "U", "U", "", "ARMv8 crypto extensions: does not build here"),
 ("sm4_cl.c", ".*", None, "U", "U", "", "OpenCL: not built (no OpenCL headers/runtime in the sandbox)"),
]

def body(path, name, occ=0):
    s = open(path).read()
    ms = [m for m in re.finditer(r'^[A-Za-z_][A-Za-z0-9_ \*]*\b%s\s*\(' % name, s, re.M)]
    if occ >= len(ms):
        return None
    m = ms[occ]; i = s.index('{', m.end()); d = 0
    for j in range(i, len(s)):
        if s[j] == '{': d += 1
        elif s[j] == '}':
            d -= 1
            if d == 0: break
    return re.sub(r'\s+', ' ', re.sub(r'//[^\n]*', '', s[i:j + 1]))

def main():
    rows, cnt_b, cnt_a = [], {}, {}
    for f in FILES:
        p = os.path.join(REPO, "src", f)
        if not os.path.exists(p):
            continue
        seen = {}
        for name, st, nl, ln in funcs(p):
            occ = seen.get(name, 0); seen[name] = occ + 1
            if st and nl <= 10 and name not in ("tweak_incr",):
                continue
            hit = None
            for (fr, nr, o, b, a, thm, note) in R:
                if fr == f and re.fullmatch(nr, name) is None and re.match(nr, name) is None:
                    continue
                if fr == f and (o is None or o == occ):
                    hit = (b, a, thm, note); break
            if hit is None:
                hit = ("U", "U", "", "no rule: unclassified")
            b, a, thm, note = hit
            if f in ("sm4_aesni.c", "sm4_avx2.c"):
                # the scalar functions of the SIMD files are textual copies of the small-footprint code of sm4.c
                # (checked here, whitespace-normalised); only then do the theorems about that code apply
                if body(p, name) is not None and body(p, name) == body(os.path.join(REPO, "src", "sm4.c"), name, 0):
                    b = a = "P"
                    thm = "as src/sm4.c small-footprint `%s` (body textually identical, checked by this script); " % name + thm
                    note = "scalar code; exercised in the thorough tier only"
            if b != "-":
                cnt_b[b] = cnt_b.get(b, 0) + 1; cnt_a[a] = cnt_a.get(a, 0) + 1
            rows.append("| src/%s:%d | %s%s | %s | %s | %s | %s |" % (f, ln, name, " (static)" if st else "", b, a, thm, note))
    print("# Function coverage, C04 part 1 (SM4 core, non-AEAD modes, block_cipher, aes_modes)\n")
    print("Generated by work/gen_coverage_modes.py from the C sources (every non-static function, every static one > 10 lines).")
    print("P = modelled + theorem in Props/Properties_C04.v; D = compared differentially with a model, no theorem about this code; O = oracle only; U = not exercised; - = other half of C04 (C04b).\n")
    ks = "PDOU"
    print("Counts at the start of wave 5 -> now: " + ", ".join("%s %d -> %d" % (k, cnt_b.get(k, 0), cnt_a.get(k, 0)) for k in ks) + "\n")
    print("| file:line | function | before | now | theorem / op | note |\n|---|---|---|---|---|---|")
    print("\n".join(rows))

main()
