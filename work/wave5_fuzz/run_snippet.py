# Wave 5 additions for props/C06/run.py (TEST SUPPORT: fuzz / exact-expectation cases, no theorem).
# Needs props/C06/harness_wave5.inc merged into harness.c (see the header of that file).
#
# Paste the three blocks below into run.py:
#   (1) the tables + gen_fuzz5 after FUZZ_KINDS / gen_fuzz,
#   (2) gen_capacity5 after gen_capacity,
#   (3) the four marked edits inside run().

# ------------------------------------------------------------------------------------ (1) part B, wave 5
MK5_KINDS = ["richcert", "richca", "richnouri", "iapcert", "richname", "richnamedc", "richcrl", "richcrlplain", "kai", "cmssd", "cmssev",
             "tlsext_svc", "tlsext_svs", "tlsext_ksc", "tlsext_kss", "tlsext_sigc", "tlsext_ca", "tlsext_all", "uri", "httpresp", "seqint"]
# fz5 kind: seeds; a name without prefix is a `mk5` seed, "mk:<kind>" is one of the existing `mk` seeds
FUZZ5_KINDS = {
    "cert": ["richcert", "richca", "richnouri", "iapcert", "mk:cert", "mk:cacert", "mk:certnoext"],
    "certs": ["richcert", "mk:cert"],
    "crl": ["richcrl", "richcrlplain", "mk:crl"],
    "name": ["richname", "richnamedc"],
    "cms": ["kai", "cmssd", "cmssev", "mk:cmsenv", "mk:cmssignenv", "mk:cmssigned", "mk:cmsenc", "mk:cmsdata"],
    "sm9smsk": ["mk:sm9smsk"], "sm9smpk": ["mk:sm9smpk"], "sm9sk": ["mk:sm9sk"], "sm9emsk": ["mk:sm9emsk"], "sm9empk": ["mk:sm9empk"], "sm9ek": ["mk:sm9ek"],
    "tlsrec": ["mk:tlsch", "mk:tlssh", "mk:tlscert", "mk:tlsske", "mk:tlscr", "mk:tlsckepke", "mk:tlsckeecdhe", "mk:tlscv", "mk:tlsfin", "mk:tlsshd", "mk:tlsalert", "mk:tlsccs", "mk:tlsapp"],
    "tlsext": ["tlsext_svc", "tlsext_svs", "tlsext_ksc", "tlsext_kss", "tlsext_sigc", "tlsext_ca", "tlsext_all"],
    "http": ["uri", "httpresp"],
    "asn1": ["seqint", "richname"],
}
# seeds whose VALID form already aborts the process (library defect, see findings): every mutant that keeps the shape dies the same
# way and core.run_lines gives up after 200 restarts per shard, so their mutation budget is kept small until the library is fixed
FUZZ5_SMALL_BUDGET = {"iapcert": 40}


def gen_fuzz5(ctx, seeds, seeds5):
    """(line, cell) like gen_fuzz; seeds = the `mk` seeds, seeds5 = the `mk5` seeds"""
    r = ctx.rng
    K = 12 if ctx.tier == "thorough" else 3
    cases = []
    add = lambda line, cell: cases.append((line, cell))
    for kind, mks in FUZZ5_KINDS.items():
        for mk in mks:
            s = seeds.get(mk[3:]) if mk.startswith("mk:") else seeds5.get(mk)
            name = mk[3:] if mk.startswith("mk:") else mk
            if not s:
                continue
            add("fz5 %s %s" % (kind, hexs(s)), "fz5:%s:%s:valid" % (kind, name))
            budget = FUZZ5_SMALL_BUDGET.get(name, (160 if len(s) < 700 else 260) * K)
            for mkind, m in structured_mutations(r, s, budget):
                if kind == "tlsrec":
                    m = fix_record(m, r.chance(2, 3))
                add("fz5 %s %s" % (kind, hexs(m)), "fz5:%s:%s:%s" % (kind, name, mkind))
            if kind == "http":              # text: byte noise is the interesting class (sscanf / strstr / atoi)
                for _ in range(100 * K):
                    add("fz5 http %s" % hexs(mutate(r, s, r.range(1, 4))), "fz5:http:%s:noise" % name)
    # hand-made http inputs: field widths of http_parse_uri (host[128], path[256]) and Content-Length values
    for host in (1, 126, 127, 128, 129, 300):
        for path in (0, 1, 253, 254, 255, 256, 400):
            add("fz5 http %s" % hexs(b"http://" + b"h" * host + b":8080/" + b"p" * path), "fz5:http:uri-widths")
            add("fz5 http %s" % hexs(b"http://" + b"h" * host + b"/" + b"p" * path), "fz5:http:uri-widths")
    for cl in (b"0", b"-1", b"1", b"12", b"13", b"2147483647", b"2147483648", b"4294967297", b"99999999999999999999", b"", b"x"):
        add("fz5 http %s" % hexs(b"HTTP/1.1 200 OK\r\nContent-Length: " + cl + b"\r\n\r\nhello world!"), "fz5:http:content-length")
    return cases


# ------------------------------------------------------------------------------------ (2) part C, wave 5
NAMES5_EXPECTED = "OK 544"     # measured once on /repo HEAD (ASan build); the number of non-NULL table entries over ids -2..300 + 23 extra ids.
                               # It MUST be stable from run to run (no entropy, no clock involved); it changes only when the library's name tables change -
                               # then re-measure with `echo names5 | <harness>` and update this constant after reviewing the table change.


def gen_capacity5(ctx):
    """(line, cell, expected) like gen_capacity"""
    cases = [("names5", "names5:tables", NAMES5_EXPECTED)]
    for seed in (1, 2, 0xabcdef) + ((7, 8, 9, 10) if ctx.tier == "thorough" else ()):      # ~1.5 s each under ASan (8 PBKDF2 runs of 65536 iterations)
        cases.append(("sm9io5 %d" % seed, "sm9io5:generate-extract-pem-roundtrip-print", "OK"))
    return cases


# ------------------------------------------------------------------------------------ (3) edits inside run()
# (a) after `seeds` has been filled from the `mk` outputs:
#
#     s5out, _ = core.run_lines(fz, ["mk5 " + m for m in MK5_KINDS], shards=1)
#     seeds5 = {}
#     for m, o in zip(MK5_KINDS, s5out):
#         if re.fullmatch(r"[0-9a-f]+", o or ""):
#             seeds5[m] = bytes.fromhex(o)
#         else:
#             # `ERR <step>`: a builder of the library refused / changed behaviour (the step names the call) - not silent
#             ctx.violation("fuzz5:seed:" + m, "wave-5 seed `%s` could not be built: %s" % (m, (o or "")[:80]),
#                           {"kind": "failing-input", "op": "mk5 " + m, "impl": o, "expected": "hex", "harness": "props/C06/harness.c"}, found_input=True)
#
# (b) the fuzz case list:            casesB = gen_fuzz(ctx, seeds) + gen_fuzz5(ctx, seeds, seeds5)
#     (the existing loop works unchanged: `kind = line.split(" ")[1]`, FAULT handling, cells).  Add next to the OVER-CAPACITY branch:
#
#         elif "STDOUT-LEAK" in o or re.search(r"-7[78]\b", o):
#             what = "a printer wrote to stdout instead of the FILE it was given" if "STDOUT-LEAK" in o else "an output length / pointer left the buffer the caller provided (-77/-78 marker)"
#             ctx.violation("fuzz5:" + ("stdout-leak" if "STDOUT-LEAK" in o else "out-of-range-output"), "%s (op `%s`): %s" % (what, line[:120], o[:80]),
#                           {"kind": "failing-input", "op": line, "impl": o, "expected": "nothing on stdout; lengths within capacity", "harness": "props/C06/harness.c"}, found_input=True)
#
#     NOTE for `mk` seeds used by FUZZ5_KINDS: sm9smsk..sm9ek are already in DET_KINDS, so they are built by the existing `mk` pass.
#
# (c) the capacity case list:        casesC = gen_capacity(ctx) + gen_capacity5(ctx)
#     (`ctx.count("cap:" + line.split(" ")[1])` needs a second word: use  `(line.split(" ") + ["-"])[1]`  because `names5` has none)
#
# (d) in finish(): append to fuzz_only
#         "wave 5: x509_exts_print / x509_exts_check (7 cert types) / per-extension decoders, x509_name_* getters / equ / names_print, x509_certs_get_last / verify_tlcp / from_pem_by_subject, "
#         "x509_crl_to_der / verify_by_ca_cert / revoked entries, cms_deenvelop / deenvelop_and_verify / signed_and_enveloped decipher / key agreement info, sm9 *_print, "
#         "tls13 extension printers and processors, tls_extensions_print / encrypted_record_print / secrets_print, http_parse_uri / http_parse_response, asn1 helpers"
#     and to capacity_ops:  "names5 (name tables and their inverses)", "sm9io5 (SM9 generate / extract / PEM round trip / print)"
