#!/usr/bin/env python3
"""Wave 5: function-coverage table for C07 / C15 / C16 (builder-pki).
Function list: every function definition of the anchor files, found mechanically (regex + brace matching), static ones of
<= 10 lines dropped.  'Exercised' is measured, not guessed: the library is built with gcc --coverage (variant 'cov'), the
three harnesses run the quick-tier op lists of the checks, gcov -f tells which functions executed.
Status P/D/O comes from the table CLASS below (function -> status, theorem / op, note); a function that executed but is
not in CLASS is O ("reached from an exercised interface, judged only through that interface's oracle"); a function that
did not execute is U, whatever CLASS says (CLASS entries for non-executed functions are reported as errors)."""
import os, re, sys, subprocess, json, glob
ROOT = os.path.dirname(os.path.dirname(os.path.abspath(__file__)))
sys.path.insert(0, ROOT)
from vlib import core

FILES = ["src/x509_cer.c", "src/x509_ext.c", "src/x509_req.c", "src/x509_crl.c", "src/x509_new.c", "src/cms.c"]
core.VARIANTS.setdefault("cov", ("-O0 -g --coverage -DGMSSL_VERIF", []))


def functions(path):
    """[(name, static, nlines)] of function definitions at file scope"""
    src = open(path, errors="replace").read()
    src_nc = re.sub(r"/\*.*?\*/", lambda m: re.sub(r"[^\n]", " ", m.group(0)), src, flags=re.S)
    src_nc = re.sub(r"//[^\n]*", "", src_nc)
    out = []
    for m in re.finditer(r"^(static\s+)?(?:const\s+)?[A-Za-z_][\w\s\*]*?\b([A-Za-z_]\w*)\s*\(([^;{}]*?)\)\s*\{", src_nc, re.M):
        name = m.group(2)
        if name in ("if", "for", "while", "switch", "return", "sizeof"):
            continue
        depth, i = 0, m.end() - 1
        while i < len(src_nc):
            if src_nc[i] == "{":
                depth += 1
            elif src_nc[i] == "}":
                depth -= 1
                if depth == 0:
                    break
            i += 1
        nlines = src_nc.count("\n", m.start(), i) + 1
        out.append((name, bool(m.group(1)), nlines))
    return out


def executed():
    """{function: calls>0} from a --coverage build driven by the three harnesses"""
    ex = {}
    lib, log = core.build_lib("cov")
    assert lib, log[-2000:]
    bdir = os.path.join(core.BUILD, "lib_cov")
    for g in glob.glob(os.path.join(bdir, "**", "*.gcda"), recursive=True):
        os.remove(g)
    for prop in ("C07", "C15", "C16"):
        ops = "/tmp/ops_%s.txt" % prop
        rc, o = core.sh("./check %s --tier quick" % prop, cwd=ROOT, env={"VERIF_DUMP_OPS": ops, "VERIF_EVIDENCE": "/tmp/cov_ev", "VERIF_REPLAYS": "/tmp/cov_rp"})
        lines = [l for l in open(ops).read().split("\n") if l.strip()]
        if prop == "C16":
            lines = [l for l in lines if not l.startswith("tamper") or " 3 0 " in l]      # one offset class of each sweep is enough for coverage
        exe, log = core.build_harness(prop, "cov", extra="--coverage")
        assert exe, log[-2000:]
        core.run_lines(exe, lines, shards=1, timeout=7200)
        if prop == "C15":
            # the loopback variant of the CRL check
            import importlib.util
            spec = importlib.util.spec_from_file_location("c15run", os.path.join(ROOT, "props", "C15", "run.py")); mod = importlib.util.module_from_spec(spec); spec.loader.exec_module(mod)
            net, nlog = mod.build_net_harness("cov")
            if net:
                core.run_lines(net, [l for l in lines if l.startswith("crlcheck ")], shards=1)
    for f in FILES:
        base = os.path.basename(f)
        gcda = glob.glob(os.path.join(bdir, "**", base + ".gcda"), recursive=True)
        if not gcda:
            continue
        rc, out = core.sh("gcov -f -o %s %s" % (os.path.dirname(gcda[0]), gcda[0]), cwd="/tmp")
        for m in re.finditer(r"Function '(\w+)'\nLines executed:([\d.]+)% of (\d+)", out):
            ex[m.group(1)] = (float(m.group(2)), int(m.group(3)))
        for m in re.finditer(r"Function '(\w+)'\nNo executable lines", out):
            ex[m.group(1)] = (-1.0, 0)        # gcov attributes no line to it (x509_name_equ): treated as executed when classified
    return ex


def load_class():
    path = os.path.join(ROOT, "work", "coverage_pki_class.json")
    return json.load(open(path)) if os.path.exists(path) else {}


def main():
    ex = executed()
    cls = load_class()
    rows, counts = [], {"P": 0, "D": 0, "O": 0, "U": 0}
    errors = []
    for f in FILES:
        for (name, static, n) in functions(os.path.join(core.REPO, f)):
            if static and n <= 10:
                continue
            pct = ex.get(name, (0.0, 0))[0]
            c = cls.get(name)
            if pct < 0 and c:
                pct = 100.0
            if pct <= 0.0:
                st, what, note = "U", "", (c or {}).get("note", "")
                if c and c.get("status") in ("P", "D"):
                    errors.append("%s is classified %s but never executed" % (name, c["status"]))
            elif c:
                st, what, note = c["status"], c.get("by", ""), c.get("note", "")
            else:
                st, what, note = "O", "", "reached through an exercised interface; judged by that interface's result only"
            counts[st] += 1
            rows.append((f, name + (" (static)" if static else ""), st, what, ("%d%% of lines executed. " % pct if pct > 0 else "") + note))
    out = ["# Function coverage — C07 / C15 / C16 (builder-pki)", "",
           "Generated by work/coverage_pki.py: function list by regex over the anchor files (static functions of <= 10 lines dropped); execution measured with a",
           "`--coverage` build driven by the quick-tier op lists of the three checks; classification from work/coverage_pki_class.json.", "",
           "Counts: " + ", ".join("%s = %d" % (k, counts[k]) for k in "PDOU") + " (total %d)" % sum(counts.values()), "",
           "| file | function | status | theorem or op | note |", "|---|---|---|---|---|"]
    for r in rows:
        out.append("| %s | %s | %s | %s | %s |" % r)
    if errors:
        out += ["", "Classification errors:"] + ["- " + e for e in errors]
    open(os.path.join(ROOT, "work", "coverage_pki.md"), "w").write("\n".join(out) + "\n")
    print(counts, "errors:", len(errors))
    for e in errors[:20]:
        print("  ", e)


if __name__ == "__main__":
    main()
