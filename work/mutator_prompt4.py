#!/usr/bin/env python3
"""round-4 prompt: mutator_prompt4.py Cxx [n] -- property text + one-line summaries of earlier changes to avoid"""
import json, sys, glob, subprocess
pid = sys.argv[1]; n = sys.argv[2] if len(sys.argv) > 2 else "3"
base = subprocess.run([sys.executable, "/verif/work/mutator_prompt.py", pid, n], stdout=subprocess.PIPE).stdout.decode()
base = base.replace("/tmp/mut_%s" % pid, "/tmp/mut4_%s" % pid)
prev = []
for m in sorted(glob.glob("/verif/seeded/%s-*/meta.json" % pid)):
    prev.append("- " + json.load(open(m))["what"])
print(base)
print("Earlier rounds already produced the following changes for this property; do NOT repeat them or close variants (pick other functions, other mechanisms, other interfaces, other build configurations; prefer less-travelled code paths in the listed files and the code they call):\n" + "\n".join(prev))
