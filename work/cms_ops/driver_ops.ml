(* ---- CMS layer (coq/Codec/Cms.v, plain decoders and encoders): "OK f1 f2 ... <consumed>" | "ABSENT f1 ..." | "ERR" | "FAULT".
   FRAGMENT for props/C14/driver.ml, to be placed after the X.509 fragment (uses zs zi nn hx soi llen f_ptr f_ints xres xenc),
   with `| op :: args when List.mem op cms_ops -> handle_cms op args` in [handle].  Hints: P=<65 octets>:<0|1>,... (ckaiD).
   Alternatives for the text of the pinned tree, printed only when they differ from the repaired form:
     ~digest_ret=    x509_digest_algor_from_der returning the status of the OID lookup        (fixed = false)
     ~cms_dalg_cap=  cms_digest_algors_from_der testing "cnt > max" (FAULT = a store beyond the array)   (fxcap = false)
     ~encdata_enc=   cms_encrypted_data_to_der whose second pass writes no EncryptedContentInfo       (fixed = false) *)
let cms_ops = ["cxencalgD";"cctypeD";"ccinfoD";"cdataD";"cenciD";"cencdD";"cenciE";"cencdE";"ciasnD";"csinfoD";"csinfosD";"crinfosD";
  "cdalgsD";"csdataD";"crinfoD";"cenvD";"csenvD";"ckaiD"]
let handle_cms op args =
  let hints pre = List.concat (List.map (fun a ->
      if String.length a > 2 && String.sub a 0 2 = pre then
        List.map (fun kv -> match split_on ':' kv with [k; v] -> (k, v) | _ -> failwith "hint") (split_on ',' (String.sub a 2 (String.length a - 2)))
      else []) args) in
  let hP = hints "P=" in
  let pt_ok o = (match List.assoc_opt (hx o) hP with Some v -> v = "1" | None -> failwith ("NOHINT-pt " ^ hx o)) in
  let args = List.filter (fun a -> not (String.length a > 2 && a.[1] = '=')) args in
  let alts base l = base ^ String.concat "" (List.filter_map (fun (nm, v) -> if v = base then None else Some (" ~" ^ nm ^ "=" ^ v)) l) in
  let oh s = if s = "NULL" then None else Some (bytes_of_hex s) in
  let b = bytes_of_hex in
  match op, args with
  | "cxencalgD", [h] -> let i = b h in xres ~abs:"0 NULL" i (x509_enc_algor_from_der i) (fun ((id, iv), r) -> ([zs id; hx iv], r))
  | "cctypeD", [h] -> let i = b h in xres ~abs:"-1" i (cms_content_type_from_der i) (fun (id, r) -> ([zs id], r))
  | "ccinfoD", [h] -> let i = b h in xres i (cms_content_info_from_der i) (fun ((ct, c), r) -> ([zs ct; f_ptr c], r))
  | "cdataD", [h] -> let i = b h in xres ~abs:"NULL" i (cms_data_from_der i) (fun (d, r) -> ([hx d], r))
  | "cenciD", [h] -> let i = b h in
    xres i (cms_enced_content_info_from_der i) (fun ((((((ct, alg), iv), ec), s1), s2), r) -> ([zs ct; zs alg; hx iv; f_ptr ec; f_ptr s1; f_ptr s2], r))
  | "cencdD", [h] -> let i = b h in
    xres i (cms_encrypted_data_from_der i) (fun (((((((v, ct), alg), iv), ec), s1), s2), r) -> ([zs v; zs ct; zs alg; hx iv; f_ptr ec; f_ptr s1; f_ptr s2], r))
  | "cenciE", [ct; alg; iv; ec; s1; s2] -> xenc (cms_enced_content_info_to_der (zi ct) (zi alg) (b iv) (oh ec) (oh s1) (oh s2))
  | "cencdE", [v; ct; alg; iv; ec; s1; s2] ->
    let f fx = xenc (cms_encrypted_data_to_der fx (zi v) (zi ct) (zi alg) (b iv) (oh ec) (oh s1) (oh s2)) in
    alts (f true) [("encdata_enc", f false)]
  | "ciasnD", [h] -> let i = b h in xres i (cms_issuer_and_serial_number_from_der i) (fun ((is, sn), r) -> ([hx is; hx sn], r))
  | "csinfoD", [h] -> let i = b h in
    let f fx = xres i (cms_signer_info_from_der fx i) (fun ((((((((v, is), sn), dg), aa), sa), ed), ua), r) ->
        ([zs v; hx is; hx sn; zs dg; f_ptr aa; zs sa; hx ed; f_ptr ua], r)) in
    alts (f true) [("digest_ret", f false)]
  | ("csinfosD" | "crinfosD"), [h] -> let i = b h in
    xres ~abs:"NULL" i ((if op = "csinfosD" then cms_signer_infos_from_der else cms_recipient_infos_from_der) i) (fun (d, r) -> ([hx d], r))
  | "cdalgsD", [mx; h] -> let i = b h and mx = nn mx in
    let f fx fc = xres i (cms_digest_algors_from_der fx fc mx mx i) (fun (ids, r) -> ([f_ints ids], r)) in
    alts (f true true) [("digest_ret", f false true); ("cms_dalg_cap", f true false)]
  | "csdataD", [mx; h] -> let i = b h and mx = nn mx in
    let f fx fc = xres i (cms_signed_data_from_der fx fc mx mx i) (fun (((((((v, ids), ct), c), ce), cr), si), r) ->
        ([zs v; f_ints ids; zs ct; f_ptr c; f_ptr ce; f_ptr cr; hx si], r)) in
    alts (f true true) [("digest_ret", f false true); ("cms_dalg_cap", f true false)]
  | "crinfoD", [h] -> let i = b h in
    xres i (cms_recipient_info_from_der i) (fun ((((((v, is), sn), alg), pa), ek), r) -> ([zs v; hx is; hx sn; zs alg; f_ptr pa; hx ek], r))
  | "cenvD", [h] -> let i = b h in xres i (cms_enveloped_data_from_der i) (fun (((v, ri), eci), r) -> ([zs v; hx ri; hx eci], r))
  | "csenvD", [mx; h] -> let i = b h and mx = nn mx in
    let f fx fc = xres i (cms_signed_and_enveloped_data_from_der fx fc mx mx i) (fun (((((((v, ri), ids), eci), ce), cr), si), r) ->
        ([zs v; hx ri; f_ints ids; hx eci; f_ptr ce; f_ptr cr; hx si], r)) in
    alts (f true true) [("digest_ret", f false true); ("cms_dalg_cap", f true false)]
  | "ckaiD", [h] -> let i = b h in
    xres i (cms_key_agreement_info_from_der pt_ok i) (fun ((((v, k), ce), id), r) -> ([zs v; hx k.k_priv; hx k.k_pub; hx ce; hx id], r))
  | _ -> "MODEL-BADOP " ^ op
