#!/usr/bin/env python3
"""Function-level execution coverage (gcov) of the C14 and C06 harness runs over the anchor files:
builds /repo with --coverage in a scratch dir, runs the quick-tier case lists of both checks, prints
`file:function executed|never` for the files of work/gen_coverage_codec.py.  Used to tell O from U."""
import sys, os, subprocess, importlib.util, json, re, glob, shutil
ROOT = os.path.dirname(os.path.dirname(os.path.abspath(__file__)))
sys.path.insert(0, ROOT)
from vlib import core
B = os.environ.get("COVB", "/tmp/covb_codec")
REPO = core.REPO
def sh(c, **kw):
    p = subprocess.run(c, shell=True, stdout=subprocess.PIPE, stderr=subprocess.STDOUT, **kw); return p.returncode, p.stdout.decode("utf-8", "replace")
os.makedirs(B, exist_ok=True)
if not os.path.exists(B + "/lib/build.ninja"):
    rc, o = sh("cmake -G Ninja -S %s -B %s/lib -DBUILD_SHARED_LIBS=OFF -DCMAKE_C_COMPILER=gcc -DCMAKE_BUILD_TYPE=None '-DCMAKE_C_FLAGS=-O0 -g --coverage -DGMSSL_VERIF'" % (REPO, B)); assert rc == 0, o
rc, o = sh("ninja -C %s/lib gmssl" % B); assert rc == 0, o[-2000:]
sh("find %s/lib -name '*.gcda' -delete" % B)
exes = {}
for prop in ("C14", "C06"):
    exe = "%s/h_%s" % (B, prop)
    rc, o = sh("gcc -O0 -g --coverage -DGMSSL_VERIF -I%s/include -I%s/harness -I%s/src -o %s %s/props/%s/harness.c %s/lib/bin/libgmssl.a -lpthread" % (REPO, ROOT, REPO, exe, ROOT, prop, B)); assert rc == 0, o[-3000:]
    exes[prop] = exe
def load(prop):
    spec = importlib.util.spec_from_file_location("run_" + prop, os.path.join(ROOT, "props", prop, "run.py")); m = importlib.util.module_from_spec(spec); spec.loader.exec_module(m); return m
c14, c06 = load("C14"), load("C06")
ctx = core.Ctx("C14", "quick", 1)
from vlib import codec_x509, codec_sm9, codec_crl
extra = codec_x509.gen_x509(ctx) + codec_sm9.gen_sm9(ctx, exes["C14"]) + codec_crl.gen_crl(ctx)
try:
    from vlib import codec_cms
    extra += codec_cms.gen_cms(ctx)
except ImportError:
    pass
lines14 = [c[0] for c in c14.gen(ctx) + c14.gen_composite(ctx, exes["C14"]) + extra]
core.run_lines(exes["C14"], lines14, shards=8)
ctx = core.Ctx("C06", "quick", 1)
linesA = [c[0] for c in c06.gen_modelled(ctx)]
core.run_lines(exes["C14"], linesA, shards=8)
mk = sorted({m for ms in c06.FUZZ_KINDS.values() for m in ms} | {m for ms in c06.DET_KINDS.values() for m in ms} | {"sm9p8smsk", "sm9p8sk", "sm9p8emsk", "sm9p8ek"} | set(getattr(c06, "EXTRA_SEEDS", [])))
so, _ = core.run_lines(exes["C06"], ["mk " + m for m in mk], shards=1)
seeds = {m: bytes.fromhex(o) for m, o in zip(mk, so) if re.fullmatch(r"[0-9a-f]+", o or "")}
tmpd = B + "/c06_tmp"; os.makedirs(tmpd, exist_ok=True)
s5, _ = core.run_lines(exes["C06"], ["mk5 " + m for m in c06.MK5_KINDS], shards=1)
seeds5 = {m: bytes.fromhex(o) for m, o in zip(c06.MK5_KINDS, s5) if re.fullmatch(r"[0-9a-f]+", o or "")}
lines06 = [c[0] for c in c06.gen_fuzz(ctx, seeds) + c06.gen_fuzz5(ctx, seeds, seeds5)] + [c[0] for c in c06.gen_capacity(ctx) + c06.gen_capacity5(ctx)] + [c[0] for c in c06.gen_sequences(ctx)] + [c[0] for c in c06.gen_determined(ctx, seeds)]
core.run_lines(exes["C06"], lines06, shards=8, env={"C06_TMP": tmpd})
shutil.rmtree(tmpd, ignore_errors=True)
print("ran", len(lines14), len(linesA), len(lines06), file=sys.stderr)
# gcov per object
res = {}
objdir = glob.glob(B + "/lib/CMakeFiles/gmssl.dir/src")[0]
for gcda in glob.glob(objdir + "/*.gcda"):
    rc, o = sh("gcov -f -o %s %s" % (objdir, gcda), cwd=B)
    cur = None
    for l in o.splitlines():
        m = re.match(r"Function '(\w+)'", l)
        if m: cur = m.group(1); continue
        m = re.match(r"Lines executed:([\d.]+)% of (\d+)", l)
        if m and cur: res[os.path.basename(gcda).replace(".c.gcda", ".c") + ":" + cur] = float(m.group(1)); cur = None
json.dump(res, open(os.path.join(ROOT, "work", "coverage_codec_gcov.json"), "w"), indent=0, sort_keys=True)
sh("rm -f %s/*.gcov" % B)
print(len(res), "functions measured", file=sys.stderr)
