"""C20 translator: every static-storage object of the library and the functions that may write it.

rows = (a) every symbol in .data/.bss/COMMON of the freshly compiled objects of the `fast`
           (-O2, no sanitizer) build  [nm -S --defined-only, types B b D d C]
       (b) every non-const file-scope / function-static object the AST declares in the compiled
           sources that the compiler did not leave in a writable section (promoted to .rodata
           or removed) — listed so that the evidence names "writable in source, never written".
writers = AST walk (tools/cast.py): assignment, ++/--, compound assignment, address flowing to a
          non-const pointer (call argument incl. memset/memcpy destination, initialiser,
          assignment, return).
Emits coq/Gen/GlobalsTable.v.
"""
import os, re, subprocess, sys
sys.path.insert(0, os.path.dirname(os.path.abspath(__file__)))
import cast


def nm_objects(build_dir, variant, srcs):
    """{src_rel: [(name, size, type)]}"""
    odir = os.path.join(build_dir, "lib_" + variant, "CMakeFiles", "gmssl.dir")
    res = {}
    for rel in srcs:
        o = os.path.join(odir, rel + ".o")
        syms = []
        if os.path.exists(o):
            out = subprocess.run(["nm", "-S", "--defined-only", o], stdout=subprocess.PIPE).stdout.decode()
            for l in out.splitlines():
                p = l.split()
                if len(p) == 4 and p[2] in "BbDdCc":
                    syms.append((p[3], int(p[1], 16), p[2]))
                elif len(p) == 3 and p[1] in "BbDdCc":
                    syms.append((p[2], 0, p[1]))
        else:
            syms.append(("<object file missing>", 0, "?"))
        res[rel] = syms
    return res


SAN = re.compile(r"^(__asan|__odr_asan|__ubsan|__tsan|__sanitizer|\.L|_ZN|__gcov|__local_asan)")


READONLY_VARIADIC = {"printf", "fprintf", "snprintf", "sprintf", "vfprintf", "vprintf", "syslog"}
# external (libc) functions: which parameters are written through.  Anything not listed is decided by
# the declared parameter type (pointee const => read only, otherwise reported as a possible write).
EXTERN_READONLY = {"free", "fclose", "fflush", "fputs", "fputc", "fwrite", "fseek", "ftell", "feof", "ferror",
                   "dlsym", "dlclose", "close"}


def solve(recs):
    """Andersen-style, field-based, context-insensitive points-to over the constraints of all TUs.
    Returns (pts: node -> set(object), writers: G-object -> sorted list of (file, func, line, how))."""
    fdefs = {}
    for r in recs:
        for n, f in r["functions"].items():
            key = n + ("@" + r["src"] if f["static"] else "")
            if key not in fdefs or (f["has_body"] and not fdefs[key]["has_body"]):
                fdefs[key] = f
    pts, succ = {}, {}
    loads, stores, icargs, icrets = {}, {}, {}, {}
    work = []
    events = []

    def add_pts(n, objs):
        cur = pts.setdefault(n, set())
        new = objs - cur
        if new:
            cur |= new
            work.append((n, new))

    def add_edge(src, dst):
        ss = succ.setdefault(src, set())
        if dst not in ss:
            ss.add(dst)
            if src in pts and pts[src]:
                add_pts(dst, set(pts[src]))

    for r in recs:
        for e in r["events"]:
            events.append(e)
        for c in r["cons"]:
            k = c[0]
            if k == "addr":
                add_pts(c[1], {c[2]})
            elif k == "copy":
                add_edge(c[2], c[1])
            elif k == "load":
                loads.setdefault(c[2], []).append(c[1])
            elif k == "store":
                stores.setdefault(c[1], []).append(c[2])
            elif k == "icallarg":
                icargs.setdefault(c[1], []).append((c[2], c[3]))
            elif k == "icallret":
                icrets.setdefault(c[2], []).append(c[1])
            elif k == "callarg":
                _, f, i, n, func, file, line = c
                fd = fdefs.get(f)
                add_edge(n, "v:P:%s#%d" % (f, i))
                if fd is None or not fd["has_body"]:
                    base = f.split("@")[0]
                    ro = base in EXTERN_READONLY
                    if fd is not None and not ro:
                        ps = fd["params"]
                        ro = cast.pointee_const(ps[i][1]) if i < len(ps) else (base in READONLY_VARIADIC)
                    if not ro:
                        events.append({"thru": n, "how": "passed-to-extern:%s:arg%d" % (base, i), "func": func, "file": file, "line": line})
    # make sure complex constraints see already-known points-to sets
    for n in list(pts):
        work.append((n, set(pts[n])))
    while work:
        n, new = work.pop()
        for d in list(succ.get(n, ())):
            add_pts(d, new)
        for o in new:
            vo = "v:" + o if not o.startswith("F:") else None
            if vo:
                for dst in loads.get(n, ()):
                    add_edge(vo, dst)
                for src in stores.get(n, ()):
                    add_edge(src, vo)
            else:
                f = o[2:]
                for (i, src) in icargs.get(n, ()):
                    add_edge(src, "v:P:%s#%d" % (f, i))
                for dst in icrets.get(n, ()):
                    add_edge("r:" + f, dst)
    writers = {}
    for e in events:
        ev = (os.path.basename(e.get("file") or "?"), str(e.get("func")), e.get("line") or 0, e["how"])
        if "obj" in e:
            writers.setdefault(e["obj"], set()).add(ev)
        else:
            for o in pts.get(e["thru"], ()):
                if o.startswith("G:"):
                    writers.setdefault(o, set()).add(ev)
    return pts, {k: sorted(v) for k, v in writers.items()}


def table(repo, build_dir, variant="fast"):
    recs, stats = cast.facts(repo, build_dir, variant)
    by_src = {r["src"]: r for r in recs}
    nm = nm_objects(build_dir, variant, list(by_src))
    pts, wr = solve(recs)
    rows = []
    seen = set()

    def writers_of(src, name, static):
        return wr.get("G:" + name + ("@" + src if static else ""), [])

    for src, syms in sorted(nm.items()):
        r = by_src[src]
        for (sym, size, ty) in syms:
            if SAN.match(sym):
                continue
            base = re.sub(r"\.\d+$", "", sym)
            cands = [o for o in r["objects"] if o["name"] == base]
            sect = {"B": "bss", "b": "bss", "D": "data", "d": "data", "C": "common", "c": "common"}.get(ty, "?")
            if not cands:
                rows.append({"name": sym, "file": src, "section": sect, "size": size, "type": "?", "scope": "?",
                             "writers": [(src, "?", 0, "no source declaration found for this symbol")]})
                continue
            o = cands[0]
            seen.add((src, base))
            rows.append({"name": sym, "file": src, "section": sect, "size": size, "type": o["type"],
                         "scope": ("static-in:" + o["func"]) if o["func"] else ("static" if o["static"] else "extern"),
                         "writers": writers_of(src, base, o["static"] or bool(o["func"]))})
    for r in recs:
        for o in r["objects"]:
            if o["const"] or (r["src"], o["name"]) in seen:
                continue
            if not (o["file"] or "").startswith(("src/", "include/")):
                continue
            seen.add((r["src"], o["name"]))
            rows.append({"name": o["name"], "file": r["src"], "section": "not-writable-in-build", "size": 0, "type": o["type"],
                         "scope": ("static-in:" + o["func"]) if o["func"] else ("static" if o["static"] else "extern"),
                         "writers": writers_of(r["src"], o["name"], o["static"] or bool(o["func"]))})
    # ---- process-wide state inside libc: calls of functions that return / use a static buffer or hidden global state
    #      (gmtime, localtime, ctime, asctime, strtok, rand, strerror, getenv, gethostbyname, dlerror ...).  One row per
    #      function, "written" by every library function that calls it.
    lib = {}
    for r in recs:
        for c in r["calls"]:
            if c["callee"] in NONREENTRANT and (c["file"] or "").startswith(("src/", "include/")):
                lib.setdefault(c["callee"], set()).add((os.path.basename(c["file"]), str(c["func"]), c["line"], "calls non-reentrant libc function"))
    for fn in sorted(lib):
        rows.append({"name": "libc:" + fn, "file": "libc", "section": "libc-static", "size": 0, "type": "hidden static state of %s()" % fn, "scope": "extern",
                     "writers": sorted(lib[fn])})
    return rows, stats


# libc functions that are not required to be re-entrant (POSIX.1-2017 2.9.1 list, the ones a C library like this could meet)
NONREENTRANT = {"gmtime", "localtime", "asctime", "ctime", "strtok", "rand", "srand", "random", "srandom", "drand48", "lrand48", "mrand48", "strerror",
                "getenv", "setenv", "putenv", "unsetenv", "inet_ntoa", "gethostbyname", "gethostbyaddr", "getservbyname", "getservbyport", "getprotobyname",
                "readdir", "setlocale", "localeconv", "nl_langinfo", "tmpnam", "ttyname", "getpwnam", "getpwuid", "getgrnam", "getgrgid", "getlogin",
                "dlerror", "basename", "dirname", "ecvt", "fcvt", "gcvt", "l64a", "a64l", "lgamma", "strsignal", "crypt", "ptsname", "getopt", "getdate",
                "hsearch", "wcstombs", "mbtowc", "wctomb", "mblen", "mbrlen", "wcrtomb", "getc_unlocked", "putc_unlocked", "getchar_unlocked", "putchar_unlocked"}


def emit(rows, path=None):
    out = ["(* GENERATED by tools/globals.py from the current source tree and the `fast` objects — do not edit. *)",
           "From Coq Require Import String List NArith.", "From GmVerif Require Import Sys.Tables.",
           "Import ListNotations.", "Open Scope string_scope.", "",
           "Definition globals : list global := ["]
    items = []
    for r in rows:
        items.append("  mkGlobal %s %s %s %s %s [%s]" % (
            cast.coq_str(r["name"]), cast.coq_str(r["file"]), cast.coq_str(r["section"]), cast.coq_str(r["type"]),
            cast.coq_str(r["scope"]), "; ".join("mkWriter %s %s %d%%N %s" % (cast.coq_str(w[0]), cast.coq_str(w[1]), w[2], cast.coq_str(w[3])) for w in r["writers"])))
    out.append(";\n".join(items))
    out.append("].")
    text = "\n".join(out) + "\n"
    if path:
        if not (os.path.exists(path) and open(path).read() == text):
            cast.write_atomic(path, text)
    return text


if __name__ == "__main__":
    repo = os.environ.get("VERIF_REPO", "/repo")
    build = os.environ.get("VERIF_BUILD", "/verif/build")
    rows, st = table(repo, build)
    emit(rows, os.path.join(os.path.dirname(os.path.dirname(os.path.abspath(__file__))), "coq", "Gen", "GlobalsTable.v"))
    print(st, len(rows), "rows;", sum(1 for r in rows if r["writers"]), "with writers")
    for r in rows:
        if r["writers"]:
            print(r["name"], r["file"], r["section"], r["writers"][:4])
