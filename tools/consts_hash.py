#!/usr/bin/env python3
"""Regenerate coq/Gen/HashTables.v from <repo>/src/{sm3,sm3_sse,sha1,sha256,sha512}.c.

Copied textually from the C source into Gallina lists: the round-constant tables (SM3 K[64] of
sm3.c and of the SSE copy, SHA-256 K[64], SHA-512 K[80], SHA-1 K0..K3) and the initial values
stored by the *_init functions.  coq/Hash/HashTablesProofs.v proves, on every run, that each
equals the constant of the standard used by the Spec (`Kj`, `sm3_iv`, `K256`, `H256`, ...), so
those theorems are about the *current* source: a corrupted constant breaks the obligation and
`find_diff` in props/C03/run.py names the entry.  Rewritten only when its content changes.

usage: consts_hash.py [repo] [outfile]      exit 0 = written/unchanged, 2 = cannot parse
"""
import os, re, sys

ROOT = os.path.dirname(os.path.dirname(os.path.abspath(__file__)))


def strip_comments(src):
    src = re.sub(r"/\*.*?\*/", "", src, flags=re.S)
    return re.sub(r"//[^\n]*", "", src)


def nums(text):
    return [int(t, 0) for t in re.findall(r"0[xX][0-9a-fA-F]+|\b\d+\b", text)]


def array(src, name, n, what):
    m = re.search(r"\b(?:static\s+)?(?:const\s+)?uint(?:32|64)_t\s+%s\s*\[\s*(\d+)\s*\]\s*=\s*\{([^}]*)\}" % name, src)
    if not m:
        raise ValueError("array %s not found in %s" % (name, what))
    vals = nums(re.sub(r"(?<=[0-9a-fA-F])(?:ULL|UL|LL|U|L)\b", "", m.group(2)))
    if int(m.group(1)) != n or len(vals) != n:
        raise ValueError("%s: array %s declared %s with %d initialisers, expected %d" % (what, name, m.group(1), len(vals), n))
    return vals


def init_values(src, func, field, n, what):
    m = re.search(r"\b(?:void|int)\s+%s\s*\([^)]*\)\s*\{(.*?)\n\}" % func, src, flags=re.S)
    if not m:
        raise ValueError("%s not found in %s" % (func, what))
    body = m.group(1)
    out = []
    for i in range(n):
        mm = re.findall(r"ctx->(?:u\.\w+\.)?%s\[%d\]\s*=\s*(0[xX][0-9a-fA-F]+|\d+)\s*(?:ULL|UL|LL|U|L)?\s*;" % (field, i), body)
        if len(mm) != 1:
            raise ValueError("%s: %s stores ctx->%s[%d] %d times" % (what, func, field, i, len(mm)))
        out.append(int(mm[0], 0))
    if re.search(r"ctx->(?:u\.\w+\.)?%s\[%d\]" % (field, n), body):
        raise ValueError("%s: %s stores more than %d words" % (what, func, n))
    return out


def defines(src, names, what):
    out = []
    for nm in names:
        m = re.search(r"^\s*#\s*define\s+%s\s+(0[xX][0-9a-fA-F]+|\d+)\s*(?:U|UL)?\s*$" % nm, src, flags=re.M)
        if not m:
            raise ValueError("#define %s not found in %s" % (nm, what))
        out.append(int(m.group(1), 0))
    return out


def parse(repo):
    rd = lambda f: strip_comments(open(os.path.join(repo, "src", f)).read())
    sm3, sse, s1, s256, s512 = rd("sm3.c"), rd("sm3_sse.c"), rd("sha1.c"), rd("sha256.c"), rd("sha512.c")
    dg = rd("digest.c")
    t = {}
    t["sm3_K"] = array(sm3, "K", 64, "sm3.c")
    t["sm3_iv"] = init_values(sm3, "sm3_init", "digest", 8, "sm3.c")
    t["sm3sse_K"] = array(sse, "K", 64, "sm3_sse.c")
    t["sm3sse_iv"] = init_values(sse, "sm3_init", "digest", 8, "sm3_sse.c")
    t["sha1_K"] = defines(s1, ["K0", "K1", "K2", "K3"], "sha1.c")
    t["sha1_iv"] = init_values(s1, "sha1_init", "state", 5, "sha1.c")
    t["sha256_K"] = array(s256, "K", 64, "sha256.c")
    t["sha256_iv"] = init_values(s256, "sha256_init", "state", 8, "sha256.c")
    t["sha224_iv"] = init_values(s256, "sha224_init", "state", 8, "sha256.c")
    t["sha512_K"] = array(s512, "K", 80, "sha512.c")
    t["sha512_iv"] = init_values(s512, "sha512_init", "state", 8, "sha512.c")
    t["sha384_iv"] = init_values(s512, "sha384_init", "state", 8, "sha512.c")
    t["sha512_224_iv"] = init_values(dg, "sha512_224_digest_init", "state", 8, "digest.c")
    t["sha512_256_iv"] = init_values(dg, "sha512_256_digest_init", "state", 8, "digest.c")
    return t


def iroot(k, n):
    lo, hi = 0, 1 << (n.bit_length() // k + 1)
    while lo < hi:
        mid = (lo + hi + 1) // 2
        if mid ** k <= n:
            lo = mid
        else:
            hi = mid - 1
    return lo


def standard():
    """The same constants derived from the standards' definitions (independent of the C text and of
    the Coq lists): FIPS 180-4 root fractions, GB/T 32905 T_j rotations."""
    primes = [p for p in range(2, 410) if all(p % d for d in range(2, p))]
    frac = lambda k, s, p: iroot(k, p << (k * s)) % (1 << s)
    rol = lambda x, n: ((x << n) | (x >> (32 - n))) & 0xffffffff if n else x
    smK = [rol(0x79cc4519 if j < 16 else 0x7a879d8a, j % 32) for j in range(64)]
    smIV = [0x7380166F, 0x4914B2B9, 0x172442D7, 0xDA8A0600, 0xA96F30BC, 0x163138AA, 0xE38DEE4D, 0xB0FB0E4E]
    K512 = [frac(3, 64, p) for p in primes[:80]]
    H512 = [frac(2, 64, p) for p in primes[:8]]
    M = (1 << 64) - 1
    ror = lambda x, n: ((x >> n) | (x << (64 - n))) & M

    def comp(st, blk):
        w = [int.from_bytes(blk[8 * i:8 * i + 8], "big") for i in range(16)]
        for i in range(16, 80):
            s0 = ror(w[i - 15], 1) ^ ror(w[i - 15], 8) ^ (w[i - 15] >> 7)
            s1 = ror(w[i - 2], 19) ^ ror(w[i - 2], 61) ^ (w[i - 2] >> 6)
            w.append((w[i - 16] + s0 + w[i - 7] + s1) & M)
        a, b, c, d, e, f, g, h = st
        for i in range(80):
            t1 = (h + (ror(e, 14) ^ ror(e, 18) ^ ror(e, 41)) + ((e & f) ^ (~e & M & g)) + K512[i] + w[i]) & M
            t2 = ((ror(a, 28) ^ ror(a, 34) ^ ror(a, 39)) + ((a & b) ^ (a & c) ^ (b & c))) & M
            h, g, f, e, d, c, b, a = g, f, e, (d + t1) & M, c, b, a, (t1 + t2) & M
        return [(x + y) & M for x, y in zip(st, [a, b, c, d, e, f, g, h])]

    def ivgen(name):      # FIPS 180-4 5.3.6: SHA-512 from H512 xor a5..a5 over "SHA-512/t" (one block)
        m = name + b"\x80" + bytes(111 - len(name)) + (8 * len(name)).to_bytes(16, "big")
        return comp([x ^ 0xa5a5a5a5a5a5a5a5 for x in H512], m)
    return {
        "sha512_224_iv": ivgen(b"SHA-512/224"), "sha512_256_iv": ivgen(b"SHA-512/256"),
        "sm3_K": smK, "sm3_iv": smIV, "sm3sse_K": smK, "sm3sse_iv": smIV,
        "sha1_K": [iroot(2, p << 60) for p in (2, 3, 5, 10)],
        "sha1_iv": [0x67452301, 0xEFCDAB89, 0x98BADCFE, 0x10325476, 0xC3D2E1F0],
        "sha256_K": [frac(3, 32, p) for p in primes[:64]], "sha256_iv": [frac(2, 32, p) for p in primes[:8]],
        "sha224_iv": [frac(2, 64, p) & 0xffffffff for p in primes[8:16]],
        "sha512_K": [frac(3, 64, p) for p in primes[:80]], "sha512_iv": [frac(2, 64, p) for p in primes[:8]],
        "sha384_iv": [frac(2, 64, p) for p in primes[8:16]],
    }


def mismatches(repo="/repo"):
    t, s = parse(repo), standard()
    return [(k, i, t[k][i], s[k][i]) for k in ORDER for i in range(len(s[k])) if t[k][i] != s[k][i]]


ORDER = ["sm3_K", "sm3_iv", "sm3sse_K", "sm3sse_iv", "sha1_K", "sha1_iv", "sha256_K", "sha256_iv",
         "sha224_iv", "sha512_K", "sha512_iv", "sha384_iv", "sha512_224_iv", "sha512_256_iv"]


def render(t):
    lines = ["(* GENERATED by tools/consts_hash.py from src/sm3.c, sm3_sse.c, sha1.c, sha256.c, sha512.c -- do not edit. *)",
             "From Coq Require Import List NArith.", "Import ListNotations.", "Local Open Scope N_scope.", ""]
    for name in ORDER:
        vals = t[name]
        body = ";\n  ".join("; ".join(str(v) for v in vals[i:i + 4]) for i in range(0, len(vals), 4))
        lines.append("Definition c_%s : list N := [\n  %s].\n" % (name, body))
    return "\n".join(lines)


def generate(repo="/repo", outfile=None):
    outfile = outfile or os.path.join(ROOT, "coq", "Gen", "HashTables.v")
    text = render(parse(repo))
    old = open(outfile).read() if os.path.exists(outfile) else None
    if old != text:
        os.makedirs(os.path.dirname(outfile), exist_ok=True)
        tmp = outfile + ".tmp%d" % os.getpid()
        with open(tmp, "w") as f:
            f.write(text)
        os.replace(tmp, outfile)
        return True
    return False


if __name__ == "__main__":
    try:
        ch = generate(*(sys.argv[1:3]))
    except Exception as e:  # noqa
        print("consts_hash: %s" % e)
        sys.exit(2)
    print("HashTables.v %s" % ("rewritten" if ch else "unchanged"))
