#!/usr/bin/env python3
"""Confirm and store independently produced seeded changes.
usage: ingest_seeds.py <spec.json>     spec = [{"prop": "C04", "src": "/tmp/mut4_C04_out/1", "what": ..., "needs": ...,
                                               "round": 4, "demo_cmake": "-DENABLE_..=ON" (optional)}]
For each entry: run tools/confirm_seed.py in a scratch worktree (compiles, pinned suite passes, demo fails with the
change and passes without); when confirmed, copy patch.diff / demo.c / how.txt to seeded/<prop>-<n>/ and write meta.json."""
import sys, os, json, glob, re, subprocess, shutil
from concurrent.futures import ThreadPoolExecutor
ROOT = os.path.dirname(os.path.dirname(os.path.abspath(__file__)))
spec = json.load(open(sys.argv[1]))
PAR = int(os.environ.get("INGEST_PAR", "3"))

def next_index(prop, taken):
    used = [int(re.search(r"-(\d+)$", d).group(1)) for d in glob.glob(os.path.join(ROOT, "seeded", prop + "-*"))]
    n = max(used + taken.get(prop, [0])) + 1
    taken.setdefault(prop, []).append(n)
    return n

taken = {}
for e in spec:
    e["name"] = "%s-%d" % (e["prop"], next_index(e["prop"], taken))

def work(e):
    cmd = [sys.executable, os.path.join(ROOT, "tools", "confirm_seed.py"), e["name"],
           os.path.join(e["src"], "patch.diff"), os.path.join(e["src"], "demo.c")]
    if e.get("demo_cmake"):
        cmd += ["--demo-cmake", e["demo_cmake"]]
    p = subprocess.run(cmd, stdout=subprocess.PIPE, stderr=subprocess.STDOUT)
    out = p.stdout.decode("utf-8", "replace")
    try:
        res = json.loads(out[out.index("{"):])
    except Exception:
        res = {"confirmed": False, "raw": out[-1500:]}
    e["res"] = res
    if res.get("confirmed"):
        d = os.path.join(ROOT, "seeded", e["name"])
        os.makedirs(d, exist_ok=True)
        for f in ("patch.diff", "demo.c", "how.txt"):
            if os.path.exists(os.path.join(e["src"], f)):
                shutil.copy(os.path.join(e["src"], f), os.path.join(d, f))
        meta = {"property": e["prop"], "what": e["what"], "needs": e["needs"], "checks": [e["prop"]],
                "round": e.get("round", 4),
                "origin": "independent sub-agent (round %d: told only the property text and one-line summaries of earlier rounds' changes to avoid)" % e.get("round", 4),
                "check_run": "tools/run_seeds.py " + e["name"], "confirmed": True,
                "confirmed_by": "tools/confirm_seed.py in a scratch worktree: compiles=%s, pinned suite passes=%s (failed only: %s), demo rc with change=%s, without=%s"
                                % (res.get("compiles"), res.get("suite_ok"), ",".join(res.get("suite_failed", [])),
                                   res.get("demo_with_change_rc"), res.get("demo_without_change_rc"))}
        if e.get("demo_cmake"):
            meta["demo_cmake"] = e["demo_cmake"]
        json.dump(meta, open(os.path.join(d, "meta.json"), "w"), indent=1)
    print("%s: %s" % (e["name"], "CONFIRMED" if res.get("confirmed") else "NOT CONFIRMED " + json.dumps(res)[:600]), flush=True)

with ThreadPoolExecutor(PAR) as ex:
    list(ex.map(work, spec))
