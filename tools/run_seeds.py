#!/usr/bin/env python3
"""Run the registered quick checks against every seeded breaking change under seeded/.
Each patch is applied in a scratch worktree (VERIF_REPO) with a private build dir (VERIF_BUILD),
so /repo itself and concurrently running checks are not disturbed.
usage: run_seeds.py [seed-name-prefix ...]      e.g. run_seeds.py C03"""
import sys, os, json, subprocess, glob, time
ROOT = os.path.dirname(os.path.dirname(os.path.abspath(__file__)))
SLOT = ""
if "--slot" in sys.argv:
    i = sys.argv.index("--slot"); SLOT = "_" + sys.argv[i + 1]; del sys.argv[i:i + 2]
WT, BD = "/tmp/seedrun_wt" + SLOT, "/tmp/seedrun_build" + SLOT
def sh(c, **kw):
    p = subprocess.run(c, shell=True, stdout=subprocess.PIPE, stderr=subprocess.STDOUT, **kw)
    return p.returncode, p.stdout.decode("utf-8", "replace")
import fcntl
_lock = open("/tmp/seedrun%s.lock" % SLOT, "w")
fcntl.flock(_lock, fcntl.LOCK_EX)      # one seed run at a time: the scratch worktree and build dir are shared
sel = sys.argv[1:]
seeds = sorted(d for d in os.listdir(os.path.join(ROOT, "seeded")) if os.path.exists(os.path.join(ROOT, "seeded", d, "patch.diff")))
if sel:
    seeds = [s for s in seeds if any(s.startswith(x) for x in sel)]
sh("git -C /repo worktree remove --force " + WT)
rc, o = sh("git -C /repo worktree add %s HEAD" % WT); assert rc == 0, o
os.makedirs(BD, exist_ok=True)
results = {}
try:
    for s in seeds:
        meta = json.load(open(os.path.join(ROOT, "seeded", s, "meta.json"))) if os.path.exists(os.path.join(ROOT, "seeded", s, "meta.json")) else {}
        props = meta.get("checks") or [meta.get("property") or s.split("-")[0]]
        sh("git -C %s checkout -- . && git -C %s clean -fdq" % (WT, WT))
        rc, o = sh("git -C %s apply %s" % (WT, os.path.join(ROOT, "seeded", s, "patch.diff")))
        if rc != 0:
            results[s] = "PATCH-DOES-NOT-APPLY " + o[:200]; print(s, results[s]); continue
        caught = []
        nobs = 0
        for p in props:
            t0 = time.time()
            rc, o = sh("./check %s --tier quick" % p, cwd=ROOT, env=dict(os.environ, VERIF_REPO=WT, VERIF_BUILD=BD, VERIF_EVIDENCE=BD + '/evidence'))
            # violations caused by the framework itself being mid-edit (a proof file that does not
            # compile, an internal error, a harness that does not build) never count as "caught"
            v = [l for l in o.splitlines() if l.startswith("VIOLATION")
                 and not any(("/" + x) in l for x in ("proof_", "check_internal", "correspondence_"))]
            obs = [l for l in o.splitlines() if l.startswith("OBSERVATION")]
            caught.append((p, rc, len(v), round(time.time() - t0), v[:1] or obs[:1]))
            nobs += len(obs)
        ok = any(rc == 1 and n > 0 for (_, rc, n, _, _) in caught)
        # a change outside the property text as read (meta "outside_text") is expected to show as OBSERVATION lines only
        st = "CAUGHT " if ok else ("OBSERVED " if meta.get("outside_text") and nobs else "MISSED ")
        results[s] = st + json.dumps(caught)
        print(s, results[s][:300], flush=True)
finally:
    sh("git -C /repo worktree remove --force " + WT)
print(json.dumps({k: v.split(" ")[0] for k, v in results.items()}, indent=1))
# persistent record (merged by seed) used by DESIGN.md section 9
rf = os.path.join(ROOT, "seeded", "RESULTS.json")
_rl = open("/tmp/seedrun_results.lock", "w"); fcntl.flock(_rl, fcntl.LOCK_EX)
try:
    allr = json.load(open(rf))
except Exception:
    allr = {}
head = sh("git -C /repo log --format=%h -1")[1].strip()
for k, v in results.items():
    st = v.split(" ")[0]
    det = []
    if st in ("CAUGHT", "MISSED", "OBSERVED"):
        for (p, rc, n, secs, first) in json.loads(v.split(" ", 1)[1]):
            det.append({"check": p, "exit": rc, "violations": n, "first": (first[0] if first else "")})
    allr[k] = {"status": st, "repo_head": head, "verif_head": sh("git -C %s log --format=%%h -1" % ROOT)[1].strip(), "detail": det}
json.dump(allr, open(rf, "w"), indent=1, sort_keys=True)
